; instruction-form validation for engine Scrub: run ONE instruction on a given full register file
; (16 GPRs, status flags, zmm0-31, k0-7) and return the full register file.
;   void vform_run(void *code, const uint64_t gpr[17], const uint8_t vec[2048], const uint64_t k[8]);
; results in vform_gpr[17] (16 GPRs + rflags), vform_vec[2048], vform_k[8].
; `code` = instruction bytes followed by `jmp [rip+58]` ... address of vform_back (built by the C side).
default rel
section .bss
alignb 64
global vform_vec
vform_vec:      resb 2048
global vform_gpr
vform_gpr:      resq 17
global vform_k
vform_k:        resq 8
vform_saved_rsp: resq 1
vform_code:     resq 1
section .text
global vform_run:function
global vform_back:function
vform_run:
        push    rbx
        push    rbp
        push    r12
        push    r13
        push    r14
        push    r15
        mov     [vform_saved_rsp], rsp
        mov     [vform_code], rdi
%assign i 0
%rep 8
        kmovq   k %+ i, [rcx + 8*i]
%assign i (i+1)
%endrep
%assign i 0
%rep 32
        vmovdqu64 zmm %+ i, [rdx + 64*i]
%assign i (i+1)
%endrep
        ; status flags: keep the system bits of the current rflags
        pushfq
        pop     rax
        and     rax, ~0x8D5
        mov     rcx, [rsi + 128]
        and     rcx, 0x8D5
        or      rax, rcx
        push    rax
        popfq
        mov     rax, [rsi + 0]
        mov     rcx, [rsi + 8]
        mov     rdx, [rsi + 16]
        mov     rbx, [rsi + 24]
        mov     rsp, [rsi + 32]
        mov     rbp, [rsi + 40]
        mov     rdi, [rsi + 56]
        mov     r8,  [rsi + 64]
        mov     r9,  [rsi + 72]
        mov     r10, [rsi + 80]
        mov     r11, [rsi + 88]
        mov     r12, [rsi + 96]
        mov     r13, [rsi + 104]
        mov     r14, [rsi + 112]
        mov     r15, [rsi + 120]
        mov     rsi, [rsi + 48]
        jmp     [vform_code]
vform_back:
        mov     [vform_gpr + 0], rax
        mov     [vform_gpr + 8], rcx
        mov     [vform_gpr + 16], rdx
        mov     [vform_gpr + 24], rbx
        mov     [vform_gpr + 32], rsp
        mov     [vform_gpr + 40], rbp
        mov     [vform_gpr + 48], rsi
        mov     [vform_gpr + 56], rdi
        mov     [vform_gpr + 64], r8
        mov     [vform_gpr + 72], r9
        mov     [vform_gpr + 80], r10
        mov     [vform_gpr + 88], r11
        mov     [vform_gpr + 96], r12
        mov     [vform_gpr + 104], r13
        mov     [vform_gpr + 112], r14
        mov     [vform_gpr + 120], r15
        mov     rsp, [vform_saved_rsp]
        pushfq
        pop     qword [vform_gpr + 128]
        cld
%assign i 0
%rep 32
        vmovdqu64 [vform_vec + 64*i], zmm %+ i
%assign i (i+1)
%endrep
%assign i 0
%rep 8
        kmovq   [vform_k + 8*i], k %+ i
%assign i (i+1)
%endrep
        vzeroupper
        pop     r15
        pop     r14
        pop     r13
        pop     r12
        pop     rbp
        pop     rbx
        ret
section .note.GNU-stack noalloc noexec nowrite progbits
