/* C18 correspondence: no hidden shared state.
 *
 *   drv_threads ref  <seed> <k>                       run workload (seed,k) alone, print its result digest
 *   drv_threads race <nthreads> <seed> [statics-file] release <nthreads> threads through a barrier; thread k runs
 *                                                     workload (seed,k) as its FIRST use of the library in this
 *                                                     process (every dispatched entry point is still unbound, so the
 *                                                     first calls race on the dispatch cells); print every digest
 *
 * A workload drives every public family of the library on objects of its own: the five hash managers (several
 * contexts, multi-segment), GCM 128/256 (precompute, one-shot, streaming, decrypt), XTS 128/256 (raw and expanded
 * keys), CBC 128/192/256, key expansion, mh_sha1, mh_sha256, mh_sha1_murmur3, rolling_hash2.  Everything it
 * produces is folded into one 64-bit FNV digest.  The Python side compares the digests of `race` with those of
 * `ref` (separate processes): equal iff no operation was disturbed by the other threads.
 *
 * statics-file (optional): lines "<hex address> <size> <name>" of every symbol of the library that lives in a
 * writable section (from `nm` of this executable, names from the generated C18 table).  They are snapshotted
 * before the threads start and compared afterwards: only `*_dispatched` cells may differ (MONITOR otherwise), and
 * every dispatch cell that was bound holds the same value a solo run binds (printed as CELL lines).
 * Also reported: whether any 8-byte dispatch cell straddles a cache line (atomicity assumption of the proof).
 */
#define _GNU_SOURCE
#include <pthread.h>
#include <stdint.h>
#include <stdio.h>
#include <stdlib.h>
#include <string.h>
#include "isal_crypto_api.h"
#include "sha1_mb.h"
#include "sha256_mb.h"
#include "sha512_mb.h"
#include "md5_mb.h"
#include "sm3_mb.h"
#include "aes_gcm.h"
#include "aes_xts.h"
#include "aes_cbc.h"
#include "aes_keyexp.h"
#include "mh_sha1.h"
#include "mh_sha256.h"
#include "mh_sha1_murmur3_x64_128.h"
#include "rolling_hashx.h"

static uint64_t fnv(uint64_t h, const void *p, size_t n)
{
        const uint8_t *b = p;
        for (size_t i = 0; i < n; i++) { h ^= b[i]; h *= 0x100000001b3ULL; }
        return h;
}
typedef struct { uint64_t s; } rng_t;
static uint64_t rnd(rng_t *r) { r->s ^= r->s >> 12; r->s ^= r->s << 25; r->s ^= r->s >> 27; return r->s * 0x2545F4914F6CDD1DULL; }
static uint32_t below(rng_t *r, uint32_t n) { return (uint32_t) (rnd(r) % n); }
static void fill(rng_t *r, uint8_t *p, size_t n) { for (size_t i = 0; i < n; i++) p[i] = (uint8_t) (rnd(r) >> 33); }

static __thread long nerr;
#define CHK(x) do { int rc_ = (x); if (rc_) nerr++; h = fnv(h, &rc_, sizeof rc_); } while (0)

#define HASH_WORKLOAD(NAME, MGR, CTX, init, submit, flush, DW)                                              \
static uint64_t NAME(rng_t *r, uint64_t h, uint8_t *data, size_t cap)                                       \
{                                                                                                           \
        MGR *mgr; CTX *pool, *out; enum { NC = 9 };                                                          \
        if (posix_memalign((void **) &mgr, 64, sizeof *mgr) || posix_memalign((void **) &pool, 64, NC * sizeof *pool)) abort(); \
        CHK(init(mgr));                                                                                      \
        int started[NC] = { 0 }, busy[NC] = { 0 }, done[NC] = { 0 }, remaining = NC;                          \
        for (int i = 0; i < NC; i++) { isal_hash_ctx_init(&pool[i]); pool[i].user_data = (void *) (uintptr_t) i; } \
        size_t off = 0;                                                                                      \
        while (remaining) {                                                                                  \
                int c = (int) below(r, NC);                                                                  \
                out = NULL;                                                                                  \
                if (done[c] || busy[c]) { CHK(flush(mgr, &out)); }                                           \
                else {                                                                                       \
                        uint32_t len = below(r, 4) ? below(r, 700) : below(r, 6000);                         \
                        if (off + len > cap) off = 0;                                                        \
                        int last = below(r, 3) == 0;                                                         \
                        int fl = (started[c] ? 0 : ISAL_HASH_FIRST) | (last ? ISAL_HASH_LAST : 0);           \
                        if (fl == 0) fl = ISAL_HASH_UPDATE;                                                  \
                        CHK(submit(mgr, &pool[c], &out, data + off, len, fl));                               \
                        off += len; started[c] = 1; busy[c] = 1; if (last) done[c] = 2;                      \
                }                                                                                            \
                while (out) {                                                                                \
                        int i = (int) (uintptr_t) out->user_data;                                            \
                        busy[i] = 0;                                                                         \
                        if (done[i] == 2) { h = fnv(h, out->job.result_digest, DW); done[i] = 1; remaining--; } \
                        out = NULL;                                                                          \
                }                                                                                            \
                int anybusy = 0; for (int i = 0; i < NC; i++) anybusy |= busy[i];                             \
                if (!anybusy) continue;                                                                      \
        }                                                                                                    \
        free(mgr); free(pool);                                                                               \
        return h;                                                                                            \
}
HASH_WORKLOAD(wl_sha1, ISAL_SHA1_HASH_CTX_MGR, ISAL_SHA1_HASH_CTX, isal_sha1_ctx_mgr_init, isal_sha1_ctx_mgr_submit, isal_sha1_ctx_mgr_flush, 20)
HASH_WORKLOAD(wl_sha256, ISAL_SHA256_HASH_CTX_MGR, ISAL_SHA256_HASH_CTX, isal_sha256_ctx_mgr_init, isal_sha256_ctx_mgr_submit, isal_sha256_ctx_mgr_flush, 32)
HASH_WORKLOAD(wl_sha512, ISAL_SHA512_HASH_CTX_MGR, ISAL_SHA512_HASH_CTX, isal_sha512_ctx_mgr_init, isal_sha512_ctx_mgr_submit, isal_sha512_ctx_mgr_flush, 64)
HASH_WORKLOAD(wl_md5, ISAL_MD5_HASH_CTX_MGR, ISAL_MD5_HASH_CTX, isal_md5_ctx_mgr_init, isal_md5_ctx_mgr_submit, isal_md5_ctx_mgr_flush, 16)
HASH_WORKLOAD(wl_sm3, ISAL_SM3_HASH_CTX_MGR, ISAL_SM3_HASH_CTX, isal_sm3_ctx_mgr_init, isal_sm3_ctx_mgr_submit, isal_sm3_ctx_mgr_flush, 32)

static uint64_t wl_aes(rng_t *r, uint64_t h, uint8_t *data, size_t cap)
{
        uint8_t key[32], iv[16], aad[64], tag[16], tw[16];
        uint8_t *out = malloc(8192), *back = malloc(8192);
        struct isal_gcm_key_data *kd; struct isal_gcm_context_data *cd; struct isal_cbc_key_data *ck;
        uint8_t *e1, *d1, *e2, *d2;
        if (posix_memalign((void **) &kd, 64, sizeof *kd) || posix_memalign((void **) &cd, 64, sizeof *cd) ||
            posix_memalign((void **) &ck, 64, sizeof *ck) || posix_memalign((void **) &e1, 64, 4 * 256)) abort();
        d1 = e1 + 256; e2 = d1 + 256; d2 = e2 + 256;
        for (int round = 0; round < 6; round++) {
                int b256 = (int) below(r, 2);
                uint32_t len = below(r, 3000), alen = below(r, 60);
                size_t off = below(r, (uint32_t) (cap - 8192));
                fill(r, key, 32); fill(r, iv, 16); fill(r, aad, 64); fill(r, tw, 16);
                /* GCM one-shot + streaming + decrypt */
                CHK(b256 ? isal_aes_gcm_pre_256(key, kd) : isal_aes_gcm_pre_128(key, kd));
                CHK(b256 ? isal_aes_gcm_enc_256(kd, cd, out, data + off, len, iv, aad, alen, tag, 16)
                         : isal_aes_gcm_enc_128(kd, cd, out, data + off, len, iv, aad, alen, tag, 16));
                h = fnv(fnv(h, out, len), tag, 16);
                CHK(b256 ? isal_aes_gcm_dec_256(kd, cd, back, out, len, iv, aad, alen, tag, 16)
                         : isal_aes_gcm_dec_128(kd, cd, back, out, len, iv, aad, alen, tag, 16));
                h = fnv(fnv(h, back, len), tag, 16);
                uint32_t cut = len ? below(r, len) : 0;
                CHK(b256 ? isal_aes_gcm_init_256(kd, cd, iv, aad, alen) : isal_aes_gcm_init_128(kd, cd, iv, aad, alen));
                CHK(b256 ? isal_aes_gcm_enc_256_update(kd, cd, out, data + off, cut) : isal_aes_gcm_enc_128_update(kd, cd, out, data + off, cut));
                CHK(b256 ? isal_aes_gcm_enc_256_update(kd, cd, out + cut, data + off + cut, len - cut)
                         : isal_aes_gcm_enc_128_update(kd, cd, out + cut, data + off + cut, len - cut));
                CHK(b256 ? isal_aes_gcm_enc_256_finalize(kd, cd, tag, 12) : isal_aes_gcm_enc_128_finalize(kd, cd, tag, 12));
                h = fnv(fnv(h, out, len), tag, 12);
                /* non-temporal variants: 64-byte aligned buffers; streaming pieces in multiples of 64 bytes */
                {
                        uint8_t *ai, *ao; uint32_t nl = 64 * below(r, 24);
                        if (posix_memalign((void **) &ai, 64, 2048) || posix_memalign((void **) &ao, 64, 2048)) abort();
                        memcpy(ai, data + off, nl);
                        CHK(b256 ? isal_aes_gcm_enc_256_nt(kd, cd, ao, ai, nl, iv, aad, alen, tag, 16) : isal_aes_gcm_enc_128_nt(kd, cd, ao, ai, nl, iv, aad, alen, tag, 16));
                        h = fnv(fnv(h, ao, nl), tag, 16);
                        CHK(b256 ? isal_aes_gcm_dec_256_nt(kd, cd, ai, ao, nl, iv, aad, alen, tag, 16) : isal_aes_gcm_dec_128_nt(kd, cd, ai, ao, nl, iv, aad, alen, tag, 16));
                        h = fnv(fnv(h, ai, nl), tag, 16);
                        CHK(b256 ? isal_aes_gcm_init_256(kd, cd, iv, aad, alen) : isal_aes_gcm_init_128(kd, cd, iv, aad, alen));
                        CHK(b256 ? isal_aes_gcm_enc_256_update_nt(kd, cd, ao, ai, nl) : isal_aes_gcm_enc_128_update_nt(kd, cd, ao, ai, nl));
                        CHK(b256 ? isal_aes_gcm_enc_256_finalize(kd, cd, tag, 16) : isal_aes_gcm_enc_128_finalize(kd, cd, tag, 16));
                        h = fnv(fnv(h, ao, nl), tag, 16);
                        CHK(b256 ? isal_aes_gcm_init_256(kd, cd, iv, aad, alen) : isal_aes_gcm_init_128(kd, cd, iv, aad, alen));
                        CHK(b256 ? isal_aes_gcm_dec_256_update_nt(kd, cd, ai, ao, nl) : isal_aes_gcm_dec_128_update_nt(kd, cd, ai, ao, nl));
                        CHK(b256 ? isal_aes_gcm_dec_256_finalize(kd, cd, tag, 16) : isal_aes_gcm_dec_128_finalize(kd, cd, tag, 16));
                        h = fnv(fnv(h, ai, nl), tag, 16);
                        free(ai); free(ao);
                }
                /* key expansion, XTS raw + expanded */
                uint8_t k2[32]; fill(r, k2, 32);
                if (b256) { CHK(isal_aes_keyexp_256(key, e1, d1)); CHK(isal_aes_keyexp_256(k2, e2, d2)); }
                else { CHK(isal_aes_keyexp_128(key, e1, d1)); CHK(isal_aes_keyexp_128(k2, e2, d2)); }
                h = fnv(fnv(h, e1, b256 ? 240 : 176), d1, b256 ? 240 : 176);
                uint32_t xl = 16 + below(r, 2000);
                CHK(b256 ? isal_aes_xts_enc_256(k2, key, tw, xl, data + off, out) : isal_aes_xts_enc_128(k2, key, tw, xl, data + off, out));
                h = fnv(h, out, xl);
                CHK(b256 ? isal_aes_xts_dec_256_expanded_key(e2, d1, tw, xl, out, back) : isal_aes_xts_dec_128_expanded_key(e2, d1, tw, xl, out, back));
                h = fnv(h, back, xl);
                CHK(b256 ? isal_aes_xts_enc_256_expanded_key(e2, e1, tw, xl, data + off, out) : isal_aes_xts_enc_128_expanded_key(e2, e1, tw, xl, data + off, out));
                h = fnv(h, out, xl);
                CHK(b256 ? isal_aes_xts_dec_256(k2, key, tw, xl, out, back) : isal_aes_xts_dec_128(k2, key, tw, xl, out, back));
                h = fnv(h, back, xl);
                /* CBC 128/192/256 */
                int kb = (int) below(r, 3);
                uint32_t cl = 16 * (1 + below(r, 100));
                if (kb == 0) CHK(isal_aes_keyexp_128(key, ck->enc_keys, ck->dec_keys));
                else if (kb == 1) CHK(isal_aes_keyexp_192(key, ck->enc_keys, ck->dec_keys));
                else CHK(isal_aes_keyexp_256(key, ck->enc_keys, ck->dec_keys));
                uint8_t *civ; if (posix_memalign((void **) &civ, 16, 16)) abort(); memcpy(civ, iv, 16);
                CHK(kb == 0 ? isal_aes_cbc_enc_128(data + off, civ, ck->enc_keys, out, cl) : kb == 1 ? isal_aes_cbc_enc_192(data + off, civ, ck->enc_keys, out, cl)
                            : isal_aes_cbc_enc_256(data + off, civ, ck->enc_keys, out, cl));
                h = fnv(h, out, cl);
                CHK(kb == 0 ? isal_aes_cbc_dec_128(out, civ, ck->dec_keys, back, cl) : kb == 1 ? isal_aes_cbc_dec_192(out, civ, ck->dec_keys, back, cl)
                            : isal_aes_cbc_dec_256(out, civ, ck->dec_keys, back, cl));
                h = fnv(h, back, cl);
                free(civ);
        }
        free(out); free(back); free(kd); free(cd); free(ck); free(e1);
        return h;
}

static uint64_t wl_mh_rh(rng_t *r, uint64_t h, uint8_t *data, size_t cap)
{
        struct isal_mh_sha1_ctx *m1; struct isal_mh_sha256_ctx *m2; struct isal_mh_sha1_murmur3_x64_128_ctx *m3;
        struct isal_rh_state2 *rh;
        if (posix_memalign((void **) &m1, 64, sizeof *m1) || posix_memalign((void **) &m2, 64, sizeof *m2) ||
            posix_memalign((void **) &m3, 64, sizeof *m3) || posix_memalign((void **) &rh, 64, sizeof *rh)) abort();
        for (int round = 0; round < 4; round++) {
                uint32_t d1[5], d2[8], d3[5]; uint8_t mur[16];
                CHK(isal_mh_sha1_init(m1)); CHK(isal_mh_sha256_init(m2)); CHK(isal_mh_sha1_murmur3_x64_128_init(m3, rnd(r)));
                size_t off = below(r, (uint32_t) (cap / 2));
                int n = 1 + (int) below(r, 5);
                for (int u = 0; u < n; u++) {
                        uint32_t len = below(r, 9000);
                        if (off + len > cap) off = 0;
                        CHK(isal_mh_sha1_update(m1, data + off, len)); CHK(isal_mh_sha256_update(m2, data + off, len));
                        CHK(isal_mh_sha1_murmur3_x64_128_update(m3, data + off, len));
                        off += len;
                }
                CHK(isal_mh_sha1_finalize(m1, d1)); CHK(isal_mh_sha256_finalize(m2, d2)); CHK(isal_mh_sha1_murmur3_x64_128_finalize(m3, d3, mur));
                h = fnv(fnv(fnv(fnv(h, d1, 20), d2, 32), d3, 20), mur, 16);
                /* rolling hash: chunk a region */
                uint32_t w = 1 + below(r, 48), mask = 0, trig = (uint32_t) rnd(r), offs = 0; int match = 0;
                CHK(isal_rolling_hash2_init(rh, w)); CHK(isal_rolling_hashx_mask_gen(512 + below(r, 3000), below(r, 8), &mask));
                size_t p = below(r, (uint32_t) (cap / 2)), end = p + 20000 < cap ? p + 20000 : cap;
                CHK(isal_rolling_hash2_reset(rh, data + p));
                p += w;
                while (p < end) {
                        CHK(isal_rolling_hash2_run(rh, data + p, (uint32_t) (end - p), mask, trig & mask, &offs, &match));
                        h = fnv(fnv(h, &offs, 4), &match, 4);
                        p += offs ? offs : 1;
                }
        }
        free(m1); free(m2); free(m3); free(rh);
        return h;
}

static uint64_t workload(uint64_t seed, int k)
{
        rng_t r = { (seed * 0x9E3779B97F4A7C15ULL) ^ (((uint64_t) (k + 1) * 0xD1B54A32D192ED03ULL) | 1) };
        size_t cap = 1 << 18;
        uint8_t *data = malloc(cap);
        fill(&r, data, cap);
        uint64_t h = 0xcbf29ce484222325ULL;
        /* the order of the families differs per thread so that different first calls overlap */
        int order[7] = { 0, 1, 2, 3, 4, 5, 6 };
        for (int i = 6; i > 0; i--) { int j = (int) below(&r, (uint32_t) i + 1), t = order[i]; order[i] = order[j]; order[j] = t; }
        for (int i = 0; i < 7; i++) {
                switch (order[i]) {
                case 0: h = wl_sha1(&r, h, data, cap); break;
                case 1: h = wl_sha256(&r, h, data, cap); break;
                case 2: h = wl_sha512(&r, h, data, cap); break;
                case 3: h = wl_md5(&r, h, data, cap); break;
                case 4: h = wl_sm3(&r, h, data, cap); break;
                case 5: h = wl_aes(&r, h, data, cap); break;
                default: h = wl_mh_rh(&r, h, data, cap); break;
                }
                h = fnv(h, &order[i], sizeof(int));
        }
        free(data);
        return h;
}

static pthread_barrier_t bar;
static uint64_t g_seed, results[256];
static void *thr(void *a)
{
        int k = (int) (intptr_t) a;
        pthread_barrier_wait(&bar);
        results[k] = workload(g_seed, k);
        return NULL;
}

typedef struct { uintptr_t addr; size_t size; char name[120]; uint8_t *snap; } stat_t;

int main(int argc, char **argv)
{
        if (argc >= 4 && !strcmp(argv[1], "ref")) {
                printf("DIGEST %d %016llx\n", atoi(argv[3]), (unsigned long long) workload(strtoull(argv[2], 0, 0), atoi(argv[3])));
                printf("NONZERO-RETURN-CODES %ld\n", nerr);
                return 0;
        }
        if (argc < 4 || strcmp(argv[1], "race")) return 2;
        int n = atoi(argv[2]);
        if (n < 1 || n > 256) return 2;
        g_seed = strtoull(argv[3], 0, 0);
        stat_t *st = NULL; int nst = 0;
        if (argc > 4) {
                FILE *f = fopen(argv[4], "r");
                if (!f) return 2;
                st = calloc(4096, sizeof *st);
                unsigned long long a, sz; char nm[120];
                while (nst < 4096 && fscanf(f, "%llx %llu %119s", &a, &sz, nm) == 3) {
                        st[nst].addr = (uintptr_t) a; st[nst].size = (size_t) sz; strcpy(st[nst].name, nm);
                        st[nst].snap = malloc(sz ? sz : 1); memcpy(st[nst].snap, (void *) st[nst].addr, sz);
                        nst++;
                }
                fclose(f);
        }
        pthread_t t[256];
        pthread_barrier_init(&bar, NULL, (unsigned) n);
        for (int k = 0; k < n; k++) pthread_create(&t[k], NULL, thr, (void *) (intptr_t) k);
        for (int k = 0; k < n; k++) pthread_join(t[k], NULL);
        for (int k = 0; k < n; k++) printf("DIGEST %d %016llx\n", k, (unsigned long long) results[k]);
        int bad = 0, cells = 0, straddle = 0, bound = 0;
        /* entries named *_dispatched are the 8-byte dispatch cells (may change); every other entry is a whole
           writable input section of a library object (.data/.bss/... from the link map): any changed byte in it
           must lie inside a dispatch cell */
        for (int i = 0; i < nst; i++) {
                size_t L = strlen(st[i].name);
                int is_cell = L > 11 && !strcmp(st[i].name + L - 11, "_dispatched");
                if (is_cell) {
                        cells++;
                        if ((st[i].addr & 63) > 56) straddle++;
                        if (memcmp(st[i].snap, (void *) st[i].addr, 8)) { bound++; printf("CELL %s %016llx\n", st[i].name, (unsigned long long) *(uint64_t *) st[i].addr); }
                        continue;
                }
                const uint8_t *now = (const uint8_t *) st[i].addr;
                for (size_t o = 0; o < st[i].size; o++) {
                        if (now[o] == st[i].snap[o]) continue;
                        uintptr_t a = st[i].addr + o;
                        int in_cell = 0;
                        for (int j = 0; j < nst && !in_cell; j++) {
                                size_t Lj = strlen(st[j].name);
                                if (Lj > 11 && !strcmp(st[j].name + Lj - 11, "_dispatched") && a >= st[j].addr && a < st[j].addr + 8) in_cell = 1;
                        }
                        if (!in_cell) { bad++; printf("MONITOR C18-static-data-changed %s offset=%zu\n", st[i].name, o); break; }
                }
        }
        printf("STATICS symbols=%d cells=%d bound=%d cells_straddling_a_cache_line=%d changed_other=%d\n", nst, cells, bound, straddle, bad);
        return bad ? 1 : 0;
}
