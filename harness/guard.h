/* Guard-page allocation for C08: VERIF_GUARD=1 places every buffer with its END flush against a
 * PROT_NONE page, VERIF_GUARD=2 with its START right after one (slack on the other side is canary
 * filled).  Objects with an alignment contract are rounded down to it.  A fault prints a MONITOR
 * line naming the current operation and exits with status 3. */
#ifndef VERIF_GUARD_H
#define VERIF_GUARD_H
#define _GNU_SOURCE
#include <signal.h>
#include <sys/mman.h>
#include <unistd.h>
#include <stdio.h>
#include <stdint.h>
#include <string.h>
#include <stdlib.h>
static int guard_mode;
static const char *guard_op = "?";
static long guard_opno;
static FILE *guard_out;
#define GPG 4096
typedef struct { uint8_t *base; size_t maplen; uint8_t *p; size_t n; } gslot;
static gslot gslots[256];
static void guard_segv(int sig, siginfo_t *si, void *u)
{
        (void) sig; (void) u;
        char buf[256];
        int n = snprintf(buf, sizeof buf, "MONITOR C08-access-outside-caller-range addr=%p op=%s opno=%ld\n", si->si_addr, guard_op, guard_opno);
        if (guard_out) { fflush(guard_out); if (write(fileno(guard_out), buf, n) < 0) {} }
        if (write(2, buf, n) < 0) {}
        _exit(3);
}
static void guard_setup(void)
{
        const char *g = getenv("VERIF_GUARD");
        guard_mode = g ? atoi(g) : 0;
        if (!guard_mode) return;
        struct sigaction sa;
        memset(&sa, 0, sizeof sa);
        sa.sa_sigaction = guard_segv;
        sa.sa_flags = SA_SIGINFO;
        sigaction(SIGSEGV, &sa, 0);
        sigaction(SIGBUS, &sa, 0);
}
/* n bytes; `aligned` != 0: the object has an alignment contract of guard_align bytes (16 by default;
   64 for the non-temporal GCM variants, whose documented rule is 64-byte aligned buffers) */
static unsigned guard_align = 16;
static uint8_t *guard_alloc_al(size_t n, int aligned)
{
        size_t pages = (n + GPG - 1) / GPG + 1, ml = (pages + 2) * GPG;
        uint8_t *b = mmap(0, ml, PROT_NONE, MAP_PRIVATE | MAP_ANONYMOUS, -1, 0);
        if (b == MAP_FAILED) exit(2);
        mprotect(b + GPG, pages * GPG, PROT_READ | PROT_WRITE);
        memset(b + GPG, 0xEE, pages * GPG);
        uint8_t *p;
        if (guard_mode == 2) p = b + GPG;
        else {
                p = b + GPG + pages * GPG - n;
                if (aligned) p = (uint8_t *) ((uintptr_t) p & ~(uintptr_t) (guard_align - 1));
        }
        for (int i = 0; i < 256; i++)
                if (!gslots[i].base) { gslots[i] = (gslot){ b, ml, p, n }; return p; }
        exit(2);
}
static uint8_t *guard_alloc(size_t n, unsigned off) { return guard_alloc_al(n, off == 0); }
/* canary check of the accessible slack around the buffer, then unmap */
static int guard_free_check(uint8_t *p)
{
        for (int i = 0; i < 256; i++)
                if (gslots[i].base && gslots[i].p == p) {
                        int bad = 0;
                        uint8_t *lo = gslots[i].base + GPG, *hi = gslots[i].base + gslots[i].maplen - GPG;
                        for (uint8_t *q = lo; q < p; q++) bad |= *q != 0xEE;
                        for (uint8_t *q = p + gslots[i].n; q < hi; q++) bad |= *q != 0xEE;
                        munmap(gslots[i].base, gslots[i].maplen);
                        gslots[i].base = 0;
                        return bad;
                }
        return 0;
}
static long guard_canary_bad;
static void guard_free(uint8_t *p) { if (guard_free_check(p)) { guard_canary_bad++; if (guard_out) fprintf(guard_out, "MONITOR C08-write-outside-output-range op=%s opno=%ld\n", guard_op, guard_opno); } }
#define GUARD_OP(name) do { guard_op = (name); guard_opno++; } while (0)
#endif
