/* Correspondence harness for the static function hash_pad of ONE context-layer file of the current tree:
 *     gcc ... -DCTXFILE='"sha256_mb/sha256_ctx_avx2.c"' -DPADB=64 drv_hashpad.c isa-l_crypto.a
 * The .c file is #included, so the real hash_pad (with the real memclr_fixedlen etc.) runs in-process.
 * stdin:  lines "total fill"      stdout: "PAD <n> <hex of the n*B bytes the manager would hash>"
 * The pad buffer has content buf[j] = (j*37 + fill) & 255 (the Lean driver's `PAD` op builds the same buffer) and
 * sits between two canaries; a damaged canary prints a MONITOR line. */
#include <stdio.h>
#include <stdlib.h>
#include <string.h>
#include <stdint.h>
#include CTXFILE

#ifndef PADB
#error PADB
#endif
#define CAN 256

int
main(void)
{
        static uint8_t area[CAN + 2 * PADB + CAN] __attribute__((aligned(64)));
        unsigned long long total;
        unsigned fill;
        while (scanf("%llu %u", &total, &fill) == 2) {
                uint8_t *buf = area + CAN;
                memset(area, 0xC5, sizeof(area));
                for (int j = 0; j < 2 * PADB; j++)
                        buf[j] = (uint8_t) (j * 37 + fill);
                uint32_t n = hash_pad(buf, (uint64_t) total);
                int bad = 0;
                for (int j = 0; j < CAN; j++)
                        if (area[j] != 0xC5 || area[CAN + 2 * PADB + j] != 0xC5)
                                bad = 1;
                if (bad)
                        printf("MONITOR C08-hashpad-wrote-outside-padblock total=%llu fill=%u\n", total, fill);
                uint32_t nn = n > 2 ? 2 : n;
                printf("PAD %u ", n);
                for (uint32_t j = 0; j < nn * PADB; j++)
                        printf("%02x", buf[j]);
                printf("\n");
        }
        return 0;
}
