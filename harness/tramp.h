/* C side of harness/tramp.asm: every call of a library entry point in the AES / hash drivers goes
 * through verif_tramp so that (C20) caller-saved registers, vector/mask registers, flags and dead
 * stack can be poisoned before the call and (C14) vector registers and dead stack can be captured
 * right after the return.  Mode from the environment: VERIF_POISON=<n> (n != 0: poison with
 * pattern n), VERIF_CAPTURE=1 (capture + scan for key material; implies poisoning). */
#ifndef VERIF_TRAMP_H
#define VERIF_TRAMP_H
#include <stdint.h>
#include <stdlib.h>
#include <string.h>
extern uint64_t verif_tramp(void *fn, const uint64_t *args, uint64_t nargs, const uint8_t *poison, uint8_t *capture);
#define CAP_VEC 2048
#define CAP_K 64
#define CAP_STACK 65536
#define CAP_SIZE (CAP_VEC + CAP_K + CAP_STACK)
static uint8_t tramp_poison[4096] __attribute__((aligned(64)));
static uint8_t *tramp_capture;
static int tramp_poison_on, tramp_capture_on;
static long tramp_calls;
static void tramp_setup(void)
{
        const char *p = getenv("VERIF_POISON"), *c = getenv("VERIF_CAPTURE");
        unsigned n = p ? (unsigned) atoi(p) : 0;
        tramp_capture_on = c && atoi(c);
        tramp_poison_on = n != 0 || tramp_capture_on;
        uint64_t s = 0x9E3779B97F4A7C15ULL * (n + 1);
        for (size_t i = 0; i < sizeof tramp_poison; i += 8) {
                s ^= s >> 12; s ^= s << 25; s ^= s >> 27;
                uint64_t v = s * 0x2545F4914F6CDD1DULL;
                memcpy(tramp_poison + i, &v, 8);
        }
        if (tramp_capture_on && posix_memalign((void **) &tramp_capture, 64, CAP_SIZE)) exit(2);
}
#define A_(x) ((uint64_t) (uintptr_t) (x))
#define TCALL(fn, ...)                                                                              \
        ({                                                                                          \
                uint64_t _a[] = { __VA_ARGS__ };                                                    \
                tramp_calls++;                                                                      \
                verif_tramp((void *) (fn), _a, sizeof(_a) / 8, tramp_poison_on ? tramp_poison : NULL, \
                            tramp_capture_on ? tramp_capture : NULL);                               \
        })
#endif
