/* Instruction-form validation of the Scrub ghost table (tools/scrubtab.py).
 *
 * Input (stdin), one line per sampled instruction of the AES objects:
 *   <hex bytes> <vz> <vw> <vr> <cp> <gw> <gr> <base mask> <index mask> <text...>
 * vz/vw/vr: 64-bit masks of vector parts (part r = bits 0..127 of vector register r, part 32+r = bits 128..511);
 * cp = cd | cs<<8 | lo<<16 | hi<<17 | present<<18; gw/gr: scalar locations (GPR 0..15, 16 = status flags, 17..24 = k0..k7).
 * Every instruction is executed in isolation (harness/vformtramp.asm) on random register files.  Checks:
 *   W  write set : a vector part / GPR / opmask register / the status flags that changes must be declared written
 *   Z  zeroing   : a part declared zeroed is zero afterwards
 *   C  copy      : the low part of a declared copy equals the source; a zero source high part gives a zero high part
 *   D  dependency: re-running with every NOT declared input (vector parts, GPRs, flags, opmask registers) re-randomised
 *                  leaves every declared output unchanged  (so the declared read set covers what the result depends on)
 * A violation prints  MONITOR C14-vecform-<kind> text="..."  and the exit status is 1.
 */
#define _GNU_SOURCE
#include <stdint.h>
#include <stdio.h>
#include <stdlib.h>
#include <string.h>
#include <signal.h>
#include <setjmp.h>
#include <sys/mman.h>

extern void vform_run(void *code, const uint64_t *gpr, const uint8_t *vec, const uint64_t *k);
extern void vform_back(void);
extern uint64_t vform_gpr[17], vform_k[8];
extern uint8_t vform_vec[2048];
static const char *RN[16] = { "rax", "rcx", "rdx", "rbx", "rsp", "rbp", "rsi", "rdi", "r8", "r9", "r10", "r11", "r12", "r13", "r14", "r15" };
static sigjmp_buf jb;
static void on_fault(int sig) { siglongjmp(jb, sig); }
static uint64_t rs = 88172645463325252ULL;
static uint64_t rnd(void) { rs ^= rs >> 12; rs ^= rs << 25; rs ^= rs >> 27; return rs * 0x2545F4914F6CDD1DULL; }
#define TRIALS 4
#define SCR (1u << 18)
#define FLMASK 0x8D5ULL

struct regs { uint64_t gpr[17]; uint8_t vec[2048] __attribute__((aligned(64))); uint64_t k[8]; };
static void capture(struct regs *o) { memcpy(o->gpr, vform_gpr, sizeof o->gpr); memcpy(o->vec, vform_vec, 2048); memcpy(o->k, vform_k, sizeof o->k); }
static const uint8_t *part(const struct regs *r, int p) { return r->vec + 64 * (p & 31) + (p >= 32 ? 16 : 0); }
static int plen(int p) { return p >= 32 ? 48 : 16; }
static int is_zero(const uint8_t *b, int n) { for (int i = 0; i < n; i++) if (b[i]) return 0; return 1; }

int main(void)
{
        uint8_t *code0 = mmap(0, 4096, PROT_READ | PROT_WRITE | PROT_EXEC, MAP_PRIVATE | MAP_ANONYMOUS, -1, 0);
        uint8_t *scr = mmap(0, SCR, PROT_READ | PROT_WRITE, MAP_PRIVATE | MAP_ANONYMOUS, -1, 0);
        uint8_t *scr0 = mmap(0, SCR, PROT_READ | PROT_WRITE, MAP_PRIVATE | MAP_ANONYMOUS, -1, 0);
        uint8_t *stk = mmap(0, 1 << 20, PROT_READ | PROT_WRITE, MAP_PRIVATE | MAP_ANONYMOUS, -1, 0);
        uint8_t *alt = malloc(1 << 16);
        if (code0 == MAP_FAILED || scr == MAP_FAILED || stk == MAP_FAILED || scr0 == MAP_FAILED) return 2;
        stack_t ss = { .ss_sp = alt, .ss_size = 1 << 16, .ss_flags = 0 };
        sigaltstack(&ss, 0);
        struct sigaction sa;
        memset(&sa, 0, sizeof sa);
        sa.sa_handler = on_fault;
        sa.sa_flags = SA_ONSTACK | SA_NODEFER;
        sigaction(SIGSEGV, &sa, 0); sigaction(SIGILL, &sa, 0); sigaction(SIGFPE, &sa, 0); sigaction(SIGBUS, &sa, 0);
        for (size_t i = 0; i < SCR; i += 8) { uint64_t v = rnd() | 0x0101010101010101ULL; memcpy(scr0 + i, &v, 8); }
        char line[2048];
        long forms = 0, runs = 0, viol = 0, faults = 0;
        while (fgets(line, sizeof line, stdin)) {
                char hex[128];
                unsigned long long vz, vw, vr, cp, gw, gr;
                unsigned bmask, imask;
                int off = 0;
                if (sscanf(line, "%127s %llx %llx %llx %llx %llx %llx %x %x %n", hex, &vz, &vw, &vr, &cp, &gw, &gr, &bmask, &imask, &off) < 9) continue;
                char *text = line + off;
                text[strcspn(text, "\n")] = 0;
                size_t n = strlen(hex) / 2;
                uint8_t *c = code0 + 256 - n;
                for (size_t i = 0; i < n; i++) { unsigned b; sscanf(hex + 2 * i, "%2x", &b); c[i] = (uint8_t) b; }
                c[n] = 0xff; c[n + 1] = 0x25; c[n + 2] = 58; c[n + 3] = 0; c[n + 4] = 0; c[n + 5] = 0;
                uint64_t back = (uint64_t) (uintptr_t) vform_back;
                memcpy(c + n + 64, &back, 8);
                int has_cp = cp >> 18 & 1, cd = cp & 31, cs = cp >> 8 & 31, cpl = cp >> 16 & 1, cph = cp >> 17 & 1;
                unsigned long long outv = vz | vw;        /* declared written parts */
                if (has_cp && cpl) outv |= 1ULL << cd;
                if (has_cp && cph) outv |= 1ULL << (32 + cd);
                unsigned long long inv = vr;               /* declared read parts */
                if (has_cp && cpl) inv |= 1ULL << cs;
                if (has_cp && cph) inv |= 1ULL << (32 + cs);
                forms++;
                for (int t = 0; t < TRIALS; t++) {
                        struct regs in, in2, o1, o2;
                        for (int r = 0; r < 16; r++) {
                                if (bmask >> r & 1) in.gpr[r] = (uint64_t) (uintptr_t) (scr + SCR / 2) + ((rnd() & 0x3ff) << 6);
                                else if (imask >> r & 1) in.gpr[r] = (rnd() & 3) << 6;
                                else in.gpr[r] = rnd();
                        }
                        in.gpr[4] = (uint64_t) (uintptr_t) (stk + (1 << 19));
                        in.gpr[16] = rnd() & FLMASK;
                        for (int i = 0; i < 2048; i += 8) { uint64_t v = rnd(); memcpy(in.vec + i, &v, 8); }
                        for (int i = 0; i < 8; i++) in.k[i] = rnd();
                        if (t == 1 && has_cp && cph) memset(in.vec + 64 * cs + 16, 0, 48);    /* zero source high part */
                        if (t == 2 && has_cp && cph) memset(in.vec + 64 * cs + 32, 0, 32);    /* ymm-clean source */
                        /* second input: everything not declared as an input is different */
                        in2 = in;
                        for (int r = 0; r < 16; r++)
                                if (r != 4 && !(gr >> r & 1) && !(bmask >> r & 1) && !(imask >> r & 1)) in2.gpr[r] = rnd();
                        if (!(gr >> 16 & 1)) in2.gpr[16] = rnd() & FLMASK;
                        for (int i = 0; i < 8; i++) if (!(gr >> (17 + i) & 1)) in2.k[i] = rnd();
                        for (int p = 0; p < 64; p++)
                                if (!(inv >> p & 1)) for (int i = 0; i < plen(p); i++) ((uint8_t *) part(&in2, p))[i] = (uint8_t) rnd();
                        int sig = sigsetjmp(jb, 1);
                        if (sig) {
                                faults++;
                                printf("NOTE vecform fault sig=%d text=\"%s\"\n", sig, text);
                                break;
                        }
                        memcpy(scr, scr0, SCR);
                        vform_run(c, in.gpr, in.vec, in.k);
                        capture(&o1);
                        memcpy(scr, scr0, SCR);
                        vform_run(c, in2.gpr, in2.vec, in2.k);
                        capture(&o2);
                        runs += 2;
                        /* W, Z, C on the first run */
                        for (int p = 0; p < 64; p++) {
                                int ch = memcmp(part(&in, p), part(&o1, p), plen(p)) != 0;
                                if (ch && !(outv >> p & 1)) { viol++; printf("MONITOR C14-vecform-undeclared-vector-write text=\"%s\" part=%d\n", text, p); }
                                if ((vz >> p & 1) && !is_zero(part(&o1, p), plen(p))) { viol++; printf("MONITOR C14-vecform-not-zeroed text=\"%s\" part=%d\n", text, p); }
                        }
                        if (has_cp && cpl && !(vz >> cd & 1) && memcmp(part(&o1, cd), part(&in, cs), 16)) { viol++; printf("MONITOR C14-vecform-copy-lo text=\"%s\"\n", text); }
                        if (has_cp && cph && !(vz >> (32 + cd) & 1)) {
                                if (t == 1 && !is_zero(part(&o1, 32 + cd), 48)) { viol++; printf("MONITOR C14-vecform-copy-hi-zero text=\"%s\"\n", text); }
                                if (t == 2 && memcmp(part(&o1, 32 + cd), part(&in, 32 + cs), 48)) { viol++; printf("MONITOR C14-vecform-copy-hi text=\"%s\"\n", text); }
                        }
                        for (int r = 0; r < 16; r++)
                                if (r != 4 && o1.gpr[r] != in.gpr[r] && !(gw >> r & 1)) { viol++; printf("MONITOR C14-vecform-undeclared-gpr-write text=\"%s\" reg=%s\n", text, RN[r]); }
                        if (((o1.gpr[16] ^ in.gpr[16]) & FLMASK) && !(gw >> 16 & 1)) { viol++; printf("MONITOR C14-vecform-undeclared-flags-write text=\"%s\"\n", text); }
                        for (int i = 0; i < 8; i++)
                                if (o1.k[i] != in.k[i] && !(gw >> (17 + i) & 1)) { viol++; printf("MONITOR C14-vecform-undeclared-k-write text=\"%s\" k=%d\n", text, i); }
                        /* D: declared outputs do not depend on undeclared inputs */
                        for (int p = 0; p < 64; p++)
                                if ((outv >> p & 1) && memcmp(part(&o1, p), part(&o2, p), plen(p))) { viol++; printf("MONITOR C14-vecform-undeclared-dependency text=\"%s\" part=%d\n", text, p); }
                        for (int r = 0; r < 16; r++)
                                if (r != 4 && (gw >> r & 1) && o1.gpr[r] != o2.gpr[r]) { viol++; printf("MONITOR C14-vecform-undeclared-dependency text=\"%s\" reg=%s\n", text, RN[r]); }
                        if ((gw >> 16 & 1) && ((o1.gpr[16] ^ o2.gpr[16]) & FLMASK)) { viol++; printf("MONITOR C14-vecform-undeclared-dependency text=\"%s\" flags\n", text); }
                        for (int i = 0; i < 8; i++)
                                if ((gw >> (17 + i) & 1) && o1.k[i] != o2.k[i]) { viol++; printf("MONITOR C14-vecform-undeclared-dependency text=\"%s\" k=%d\n", text, i); }
                }
        }
        printf("C14 vecform forms=%ld runs=%ld violations=%ld faults=%ld\n", forms, runs, viol, faults);
        return viol ? 1 : 0;
}
