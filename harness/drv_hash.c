/* Correspondence + monitor driver for the multi-buffer hashes (C01, C06, C11, C15, C20 tie).
 *
 * drv_hash <alg> <fam> <seed> <nops> <maxlen> <reject_pct> <ops_out> <res_out> [poison]
 *
 * Generates an operation history from one PRNG, executes it on the family-specific entry points
 * _<alg>_ctx_mgr_{init,submit,flush}_<fam> of the library built from the current tree, writes the
 * operation lines (input of the Lean model driver) and canonical result lines.  Independently of
 * the model it runs property monitors (lines starting with "MONITOR"):
 *   C01  digest of every completed context == OpenSSL digest of the concatenated segments
 *   C06  returned exactly once / never PROCESSING / COMPLETE after LAST, IDLE otherwise /
 *        inuse <= lanes / drained at the end / user_data + caller buffers untouched
 *   C11  a rejected submit changes nothing but ctx->error (byte compare of mgr + all ctxs)
 *   C15  ctx->total_length == sum of segment lengths
 */
#include "common.h"
#include "tramp.h"
#include "guard.h"
#include <openssl/evp.h>
#include "sha1_mb.h"
#include "sha256_mb.h"
#include "sha512_mb.h"
#include "md5_mb.h"
#include "sm3_mb.h"

typedef void (*init_fn)(void *);
typedef void *(*submit_fn)(void *, void *, const void *, uint32_t, int);
typedef void *(*flush_fn)(void *);

typedef struct {
        const char *alg, *fam;
        init_fn init;
        submit_fn submit;
        flush_fn flush;
} famdesc;

#define DECL(alg, ALG, fam)                                                                         \
        void _##alg##_ctx_mgr_init_##fam(ISAL_##ALG##_HASH_CTX_MGR *);                              \
        ISAL_##ALG##_HASH_CTX *_##alg##_ctx_mgr_submit_##fam(ISAL_##ALG##_HASH_CTX_MGR *,           \
                                                             ISAL_##ALG##_HASH_CTX *, const void *, \
                                                             uint32_t, ISAL_HASH_CTX_FLAG);         \
        ISAL_##ALG##_HASH_CTX *_##alg##_ctx_mgr_flush_##fam(ISAL_##ALG##_HASH_CTX_MGR *);
#define ENT(alg, ALG, fam)                                                                          \
        { #alg, #fam, (init_fn) _##alg##_ctx_mgr_init_##fam, (submit_fn) _##alg##_ctx_mgr_submit_##fam, \
          (flush_fn) _##alg##_ctx_mgr_flush_##fam },

#define FAMS(X)                                                                                     \
        X(sha1, SHA1, base) X(sha1, SHA1, sse) X(sha1, SHA1, avx) X(sha1, SHA1, avx2)               \
        X(sha1, SHA1, avx512) X(sha1, SHA1, sse_ni) X(sha1, SHA1, avx512_ni)                         \
        X(sha256, SHA256, base) X(sha256, SHA256, sse) X(sha256, SHA256, avx) X(sha256, SHA256, avx2) \
        X(sha256, SHA256, avx512) X(sha256, SHA256, sse_ni) X(sha256, SHA256, avx512_ni)             \
        X(sha512, SHA512, base) X(sha512, SHA512, sse) X(sha512, SHA512, avx) X(sha512, SHA512, avx2) \
        X(sha512, SHA512, avx512) X(sha512, SHA512, sb_sse4)                                         \
        X(md5, MD5, base) X(md5, MD5, sse) X(md5, MD5, avx) X(md5, MD5, avx2) X(md5, MD5, avx512)    \
        X(sm3, SM3, base) X(sm3, SM3, avx2) X(sm3, SM3, avx512)

FAMS(DECL)

/* public (dispatched) isal_ entry points, as family "pub"; last return code kept in pub_rc */
static int pub_rc;
#define PUBDEF(alg, ALG)                                                                            \
        static void pub_##alg##_init(void *m) { pub_rc = isal_##alg##_ctx_mgr_init(m); }            \
        static void *pub_##alg##_submit(void *m, void *c, const void *b, uint32_t l, int f)         \
        {                                                                                           \
                ISAL_##ALG##_HASH_CTX *out = NULL;                                                  \
                pub_rc = isal_##alg##_ctx_mgr_submit(m, c, &out, b, l, (ISAL_HASH_CTX_FLAG) f);     \
                return out;                                                                         \
        }                                                                                           \
        static void *pub_##alg##_flush(void *m)                                                     \
        {                                                                                           \
                ISAL_##ALG##_HASH_CTX *out = NULL;                                                  \
                pub_rc = isal_##alg##_ctx_mgr_flush(m, &out);                                       \
                return out;                                                                         \
        }
PUBDEF(sha1, SHA1) PUBDEF(sha256, SHA256) PUBDEF(sha512, SHA512) PUBDEF(md5, MD5) PUBDEF(sm3, SM3)
#define PUBENT(alg) { #alg, "pub", pub_##alg##_init, pub_##alg##_submit, pub_##alg##_flush },

static const famdesc fams[] = { FAMS(ENT) PUBENT(sha1) PUBENT(sha256) PUBENT(sha512) PUBENT(md5)
                                        PUBENT(sm3){ 0, 0, 0, 0, 0 } };

/* per-algorithm layout */
typedef struct {
        const char *alg;
        size_t mgr_size, ctx_size, block, wsize, nwords;
        size_t off_status, off_error, off_total, off_pl, off_digest, off_user, off_inuse, off_partial;
        const char *ossl;
} algdesc;
#define ALGD(alg, ALG, W, ossl)                                                                     \
        { #alg, sizeof(ISAL_##ALG##_HASH_CTX_MGR), sizeof(ISAL_##ALG##_HASH_CTX), ISAL_##ALG##_BLOCK_SIZE, \
          W, ISAL_##ALG##_DIGEST_NWORDS, offsetof(ISAL_##ALG##_HASH_CTX, status),                    \
          offsetof(ISAL_##ALG##_HASH_CTX, error), offsetof(ISAL_##ALG##_HASH_CTX, total_length),     \
          offsetof(ISAL_##ALG##_HASH_CTX, partial_block_buffer_length),                              \
          offsetof(ISAL_##ALG##_HASH_CTX, job.result_digest), offsetof(ISAL_##ALG##_HASH_CTX, user_data), \
          offsetof(ISAL_##ALG##_HASH_CTX_MGR, mgr.num_lanes_inuse),                                  \
          offsetof(ISAL_##ALG##_HASH_CTX, partial_block_buffer), ossl },
static const algdesc algs[] = { ALGD(sha1, SHA1, 4, "SHA1") ALGD(sha256, SHA256, 4, "SHA256")
                                        ALGD(sha512, SHA512, 8, "SHA512") ALGD(md5, MD5, 4, "MD5")
                                                ALGD(sm3, SM3, 4, "SM3"){ 0 } };

#define MAXCTX 80
enum { ST_FRESH = 0, ST_IDLE = 1, ST_FLIGHT = 2 };

typedef struct {
        uint8_t *obj;     /* the ISAL_*_HASH_CTX (aligned) */
        int st;           /* harness view */
        int last_pending; /* the accepted submission in flight carried LAST */
        uint8_t *buf;     /* caller buffer of the segment in flight (malloc base) */
        uint8_t *data;    /* start of data inside buf */
        uint32_t len;
        uint64_t bufsum;
        uint8_t *msg; /* concatenation since FIRST (oracle) */
        size_t msglen, msgcap;
        uint64_t sum_len;
        uint64_t outstanding; /* accepted submissions not yet returned (must be 0/1) */
        int too_big;          /* message too large to keep: skip digest oracle */
        int obj_in_arena, buf_in_arena;
} hctx;

static long nbase_ctx;

static const algdesc *A;
static const famdesc *F;
static hctx cx[MAXCTX];
static int nctx;
static uint8_t *mgr;
static FILE *fo, *fr;
static long monitor_fail;
static int is_sync; /* base / sb_sse4: mgr memory is not API-defined */
static int is_pub;

#define FLD32(p, off) (*(uint32_t *) ((p) + (off)))
#define FLD64(p, off) (*(uint64_t *) ((p) + (off)))

static uint64_t fnv(const uint8_t *p, size_t n)
{
        uint64_t h = 1469598103934665603ULL;
        for (size_t i = 0; i < n; i++) h = (h ^ p[i]) * 1099511628211ULL;
        return h;
}

static void monitor(const char *what, int c)
{
        fprintf(fr, "MONITOR %s ctx=%d\n", what, c);
        monitor_fail++;
}

static int idx_of(void *p)
{
        for (int i = 0; i < nctx; i++)
                if ((void *) cx[i].obj == p) return i;
        return -1;
}

static void print_digest(FILE *f, const uint8_t *o)
{
        for (size_t w = 0; w < A->nwords; w++) {
                if (A->wsize == 4) fprintf(f, "%s%08x", w ? "," : "", *(uint32_t *) (o + A->off_digest + 4 * w));
                else fprintf(f, "%s%016llx", w ? "," : "", (unsigned long long) *(uint64_t *) (o + A->off_digest + 8 * w));
        }
}

static void oracle_check(int c)
{
        hctx *h = &cx[c];
        if (h->too_big) return;
        uint8_t md[64], got[64];
        unsigned int mdlen = 0;
        const EVP_MD *m = EVP_get_digestbyname(A->ossl);
        if (!m) return;
        EVP_MD_CTX *e = EVP_MD_CTX_new();
        EVP_DigestInit_ex(e, m, NULL);
        EVP_DigestUpdate(e, h->msg, h->msglen);
        EVP_DigestFinal_ex(e, md, &mdlen);
        EVP_MD_CTX_free(e);
        /* canonical bytes of the library digest */
        for (size_t w = 0; w < A->nwords; w++) {
                if (A->wsize == 8) {
                        uint64_t v = *(uint64_t *) (h->obj + A->off_digest + 8 * w);
                        for (int b = 0; b < 8; b++) got[8 * w + b] = (uint8_t) (v >> (56 - 8 * b));
                } else {
                        uint32_t v = *(uint32_t *) (h->obj + A->off_digest + 4 * w);
                        if (!strcmp(A->alg, "md5") || !strcmp(A->alg, "sm3")) memcpy(got + 4 * w, &v, 4);
                        else
                                for (int b = 0; b < 4; b++) got[4 * w + b] = (uint8_t) (v >> (24 - 8 * b));
                }
        }
        if (memcmp(md, got, mdlen)) monitor("C01-digest-differs-from-openssl", c);
}

/* handle a context handed back by submit/flush */
static void returned(int c, int by_reject)
{
        hctx *h = &cx[c];
        uint32_t st = FLD32(h->obj, A->off_status);
        if (by_reject) return;
        if (h->outstanding != 1) monitor("C06-returned-without-outstanding-submission", c);
        h->outstanding = 0;
        if (st & ISAL_HASH_CTX_STS_PROCESSING) monitor("C06-returned-while-processing", c);
        if (h->last_pending) {
                if (st != ISAL_HASH_CTX_STS_COMPLETE) monitor("C06-not-complete-after-last", c);
        } else if (st != ISAL_HASH_CTX_STS_IDLE) monitor("C06-not-idle-after-update", c);
        if (FLD64(h->obj, A->off_user) != 0xC0FFEE0000ULL + (uint64_t) c) monitor("C06-user-data-changed", c);
        if (h->buf && fnv(h->data, h->len) != h->bufsum) monitor("C08-caller-buffer-modified", c);
        if (FLD64(h->obj, A->off_total) != h->sum_len) monitor("C15-total-length", c);
        if (h->last_pending) oracle_check(c);
        if (h->buf_in_arena) { arena_release(); h->buf_in_arena = 0; }
        else if (guard_mode && h->buf) guard_free(h->buf); else free(h->buf);
        h->buf = NULL;
        h->st = h->last_pending ? ST_FRESH : ST_IDLE;
}

static void print_result(void *ret, int rejected)
{
        int c = ret ? idx_of(ret) : -1;
        if (!ret) fprintf(fr, "r=-");
        else if (c < 0) { fprintf(fr, "r=?"); monitor("C06-unknown-pointer-returned", -1); }
        else if (rejected) {
                /* fields other than status/error may be API-undefined (context before FIRST) */
                uint8_t *o = cx[c].obj;
                fprintf(fr, "r=%d st=%u err=%d rejected", c, FLD32(o, A->off_status), (int) FLD32(o, A->off_error));
        } else {
                uint8_t *o = cx[c].obj;
                fprintf(fr, "r=%d st=%u err=%d tot=%llu pl=%u dig=", c, FLD32(o, A->off_status),
                        (int) FLD32(o, A->off_error), (unsigned long long) FLD64(o, A->off_total),
                        FLD32(o, A->off_pl));
                print_digest(fr, o);
        }
        if (!is_sync) {
                uint32_t inuse = FLD32(mgr, A->off_inuse);
                fprintf(fr, " inuse=%u", inuse);
        }
        fputc('\n', fr);
}

static long njump;
static uint32_t pick_len(rng_t *r, uint32_t maxlen)
{
        uint32_t B = (uint32_t) A->block, L = (A->wsize == 8) ? 16 : 8, v;
        switch (rng_below(r, 16)) {
        case 0: v = 0; break;
        case 1: v = 1 + rng_below(r, 3); break;
        case 2: v = B - 1 - rng_below(r, 2); break;
        case 3: v = B; break;
        case 4: v = B + 1 + rng_below(r, 2); break;
        case 5: v = B - L - 1 + rng_below(r, 3); break; /* padding boundary 55/56/57, 111/112/113 */
        case 6: v = 2 * B - L - 1 + rng_below(r, 3); break;
        case 7: v = B * (1 + rng_below(r, 6)); break;
        case 8: v = B * (1 + rng_below(r, 6)) + rng_below(r, B); break;
        case 9: case 10: case 11: v = rng_below(r, B); break;
        case 12: case 13: v = rng_below(r, 4 * B); break;
        default: v = rng_below(r, maxlen + 1); break;
        }
        return v > maxlen ? maxlen : v;
}

int main(int argc, char **argv)
{
        if (argc < 9) { fprintf(stderr, "usage\n"); return 2; }
        const char *alg = argv[1], *fam = argv[2];
        uint64_t seed = strtoull(argv[3], 0, 0);
        long nops = atol(argv[4]);
        uint32_t maxlen = (uint32_t) strtoul(argv[5], 0, 0);
        int reject_pct = atoi(argv[6]);
        fo = fopen(argv[7], "w");
        fr = fopen(argv[8], "w");
        int poison = argc > 9 ? atoi(argv[9]) : 0;
        for (A = algs; A->alg && strcmp(A->alg, alg); A++) ;
        for (F = fams; F->alg && (strcmp(F->alg, alg) || strcmp(F->fam, fam)); F++) ;
        if (!A->alg || !F->alg || !fo || !fr) { fprintf(stderr, "unknown alg/fam or file\n"); return 2; }
        is_sync = !strcmp(fam, "base") || !strcmp(fam, "sb_sse4");
        is_pub = !strcmp(fam, "pub");
        rng_t R;
        rng_seed(&R, seed);
        OpenSSL_add_all_digests();
        tramp_setup();
        guard_setup();
        arena_setup();
        guard_out = fr;

        long done = 0;
        int episode = 0;
        uint8_t *snap_mgr = malloc(A->mgr_size);
        uint8_t *snap_ctx = malloc(A->ctx_size * MAXCTX);
        while (done < nops) {
                episode++;
                nctx = 1 + rng_below(&R, episode % 3 == 0 ? 70 : 20);
                /* manager and context memory before init: junk in every second episode even without poison mode
                   (init must establish every field the scheduler later relies on; seed C06-r3) */
                uint8_t fill = poison ? (uint8_t) (0xA5 ^ (poison * 0x3C) ^ episode) : (episode & 1) ? 0 : (uint8_t) (0xD7 ^ episode);
                if (posix_memalign((void **) &mgr, 64, A->mgr_size)) return 2;
                memset(mgr, fill, A->mgr_size);
                TCALL(F->init, A_(mgr));
                for (int i = 0; i < nctx; i++) {
                        hctx *h = &cx[i];
                        memset(h, 0, sizeof(*h));
                        if (i == 0 && arena_mid && !guard_mode && episode % 2 == 0 && A->ctx_size <= (1u << 20)) {
                                h->obj = arena_mid;           /* address with all-zero low 32 bits */
                                h->obj_in_arena = 1;
                                nbase_ctx++;
                        } else if (posix_memalign((void **) &h->obj, 64, A->ctx_size)) return 2;
                        memset(h->obj, fill ^ 0x5A, A->ctx_size);
                        FLD32(h->obj, A->off_error) = 0;                         /* isal_hash_ctx_init */
                        FLD32(h->obj, A->off_status) = ISAL_HASH_CTX_STS_COMPLETE;
                        FLD64(h->obj, A->off_user) = 0xC0FFEE0000ULL + (uint64_t) i;
                        h->msgcap = 4096;
                        h->msg = malloc(h->msgcap);
                }
                fprintf(fo, "E %s %s %d\n", alg, fam, nctx);
                fprintf(fr, "E\n");
                long eplen = 50 + rng_below(&R, 400);
                int flush_pct = 5 + rng_below(&R, 30);
                for (long k = 0; k < eplen || 1; k++) {
                        int draining = k >= eplen;
                        int do_flush = draining || (int) rng_below(&R, 100) < flush_pct;
                        int c = -1, flags = 0;
                        if (!do_flush) {
                                c = rng_below(&R, nctx);
                                int want_reject = (int) rng_below(&R, 100) < reject_pct;
                                if (cx[c].st == ST_FLIGHT && !want_reject) {
                                        int tries = 0;
                                        while (cx[c].st == ST_FLIGHT && tries++ < 8) c = rng_below(&R, nctx);
                                        if (cx[c].st == ST_FLIGHT) do_flush = 1;
                                }
                                if (!do_flush) {
                                        if (cx[c].st == ST_FRESH) flags = rng_below(&R, 3) ? ISAL_HASH_FIRST : ISAL_HASH_ENTIRE;
                                        else if (cx[c].st == ST_IDLE) {
                                                uint32_t v = rng_below(&R, 20);
                                                flags = v < 10 ? ISAL_HASH_UPDATE : v < 18 ? ISAL_HASH_LAST : v == 18 ? ISAL_HASH_FIRST : ISAL_HASH_ENTIRE;
                                        } else flags = rng_below(&R, 4);
                                        if (want_reject) {
                                                uint32_t v = rng_below(&R, 3);
                                                if (v == 0) {
                                                        /* invalid flag words: small ones, and ones whose invalid bits are all high
                                                           (a mask narrower than 32 bits would let those through) */
                                                        uint32_t k = rng_below(&R, 4);
                                                        flags = k < 2 ? (int) (4 + rng_below(&R, 60))
                                                              : (int) ((1u << (8 + rng_below(&R, 24))) | (k == 2 ? rng_below(&R, 4) : rng_below(&R, 256) & ~3u));
                                                }
                                                else if (v == 1 && cx[c].st == ST_FRESH) flags = rng_below(&R, 2) ? ISAL_HASH_UPDATE : ISAL_HASH_LAST;
                                        }
                                }
                        }
                        if (!do_flush && cx[c].st == ST_IDLE && rng_below(&R, 12) == 0) {
                                /* C15: jump the running total of an idle context (a whole number of blocks, so the
                                   partial-block position stays consistent) to just below 2^29 / 2^32 / 2^32+2^29 /
                                   2^35 / 2^60 bytes, as if that much had been hashed.  No digest oracle exists for such
                                   a stream; the Lean model (same jump) is the reference for hash_pad's length arithmetic */
                                static const uint64_t marks[] = { 1ull << 29, 1ull << 32, (1ull << 32) + (1ull << 29), 1ull << 35, 1ull << 60 };
                                hctx *h = &cx[c];
                                uint64_t mark = marks[rng_below(&R, 5)], cur = FLD64(h->obj, A->off_total);
                                uint64_t want = mark - 128 * (uint64_t) rng_below(&R, 3) - (rng_below(&R, 2) ? 0 : 128 * (uint64_t) rng_below(&R, 64));
                                if (want > cur + 128) {
                                        uint64_t delta = (want - cur) / 128 * 128;
                                        fprintf(fo, "T %d %llu\n", c, (unsigned long long) delta);
                                        FLD64(h->obj, A->off_total) += delta;
                                        h->sum_len += delta;
                                        h->too_big = 1;
                                        fprintf(fr, "ok tot=%llu\n", (unsigned long long) FLD64(h->obj, A->off_total));
                                        njump++;
                                }
                        }
                        if (do_flush) {
                                fprintf(fo, "F\n");
                                GUARD_OP("flush"); void *ret = (void *) TCALL(F->flush, A_(mgr));
                                if (is_pub && pub_rc != 0) monitor("C11-valid-flush-reported-failed", pub_rc);
                                print_result(ret, 0);
                                int rc = ret ? idx_of(ret) : -1;
                                if (rc >= 0) returned(rc, 0);
                                if (!ret) {
                                        for (int i = 0; i < nctx; i++)
                                                if (cx[i].st == ST_FLIGHT) monitor("C06-flush-null-with-job-in-flight", i);
                                        if (draining) break;
                                }
                        } else {
                                hctx *h = &cx[c];
                                uint32_t len = pick_len(&R, maxlen);
                                uint64_t dseed = rng_u64(&R) | 1;
                                uint32_t align = rng_below(&R, 64);
                                uint8_t *sbuf = (!guard_mode && episode % 2 != 0 && rng_below(&R, 5) == 0) ? arena_straddle(&R, len, 1) : NULL;
                                int straddle = sbuf != NULL;   /* only in episodes whose context 0 is not in the arena */
                                uint8_t *buf = guard_mode ? guard_alloc_al(len, 0) : straddle ? sbuf : malloc((size_t) len + 64 + 1);
                                uint8_t *data = (guard_mode || straddle) ? buf : buf + align;
                                xs_bytes(dseed, data, len);
                                fprintf(fo, "S %d %u %u %llu\n", c, (unsigned) flags, len, (unsigned long long) dseed);
                                /* expected verdict by the API contract */
                                uint32_t st0 = FLD32(h->obj, A->off_status);
                                int rej = (flags & ~3) || (st0 & ISAL_HASH_CTX_STS_PROCESSING) ||
                                          ((st0 & ISAL_HASH_CTX_STS_COMPLETE) && !(flags & 1));
                                if (rej) {
                                        memcpy(snap_mgr, mgr, A->mgr_size);
                                        for (int i = 0; i < nctx; i++) memcpy(snap_ctx + i * A->ctx_size, cx[i].obj, A->ctx_size);
                                }
                                GUARD_OP("submit"); void *ret = (void *) TCALL(F->submit, A_(mgr), A_(h->obj), A_(data), len, (uint64_t) (uint32_t) flags);
                                if (is_pub) {
                                        int want_rc = !rej ? 0 : (flags & ~3) ? 2011 : (st0 & ISAL_HASH_CTX_STS_PROCESSING) ? 2012 : 2013;
                                        if (!rej && pub_rc != 0) monitor("C11-valid-submit-reported-failed", pub_rc);
                                        if (rej && pub_rc != want_rc) monitor("C11-rejected-submit-wrong-return-code", pub_rc);
                                }
                                print_result(ret, rej);
                                int rc = ret ? idx_of(ret) : -1;
                                if (rej) {
                                        /* C11: handed straight back, nothing but error changed */
                                        if (rc != c) monitor("C11-rejected-not-handed-back", c);
                                        int want = (flags & ~3) ? -1 : (st0 & ISAL_HASH_CTX_STS_PROCESSING) ? -2 : -3;
                                        if ((int) FLD32(h->obj, A->off_error) != want) monitor("C11-wrong-error-code", c);
                                        if (!is_sync && memcmp(snap_mgr, mgr, A->mgr_size)) monitor("C11-manager-changed-by-reject", c);
                                        for (int i = 0; i < nctx; i++) {
                                                uint8_t *a = snap_ctx + i * A->ctx_size, *b = cx[i].obj;
                                                if (i == c) {
                                                        FLD32(a, A->off_error) = FLD32(b, A->off_error);
                                                }
                                                if (memcmp(a, b, A->ctx_size)) monitor("C11-context-changed-by-reject", i);
                                        }
                                        if (straddle) arena_release(); else if (guard_mode) guard_free(buf); else free(buf);
                                        /* clear error as a well-behaved caller may; keeps later monitors exact */
                                } else {
                                        /* C11: an accepted submit reports no error on the context it was given
                                           (a code left over from an earlier rejected call would make this valid
                                           call look failed to the caller and to the isal_* wrapper) */
                                        if ((int) FLD32(h->obj, A->off_error) != 0) monitor("C11-accepted-submit-left-error-set", c);
                                        if (h->outstanding) monitor("C06-internal-harness-state", c);
                                        h->outstanding = 1;
                                        if (flags & 1) { h->msglen = 0; h->sum_len = 0; h->too_big = 0; }
                                        h->sum_len += len;
                                        if (h->msglen + len > (64u << 20)) h->too_big = 1;
                                        if (!h->too_big) {
                                                if (h->msglen + len > h->msgcap) {
                                                        h->msgcap = (h->msglen + len) * 2;
                                                        h->msg = realloc(h->msg, h->msgcap);
                                                }
                                                memcpy(h->msg + h->msglen, data, len);
                                                h->msglen += len;
                                        }
                                        h->st = ST_FLIGHT;
                                        h->last_pending = (flags & 2) != 0;
                                        h->buf = buf;
                                        h->buf_in_arena = straddle;

                                        h->data = data;
                                        h->len = len;
                                        h->bufsum = fnv(data, len);
                                        if (rc >= 0) returned(rc, 0);
                                }
                        }
                        if (!is_sync) {
                                uint32_t inuse = FLD32(mgr, A->off_inuse);
                                int fl = 0;
                                for (int i = 0; i < nctx; i++) fl += cx[i].st == ST_FLIGHT;
                                if ((int) inuse != fl) monitor("C06-inuse-differs-from-contexts-in-flight", (int) inuse);
                        }
                        done++;
                }
                for (int i = 0; i < nctx; i++) {
                        if (cx[i].st == ST_FLIGHT) monitor("C06-stranded-after-drain", i);
                        if (!cx[i].obj_in_arena) free(cx[i].obj);
                        free(cx[i].msg);
                        if (cx[i].buf_in_arena) arena_release();
                        else if (guard_mode && cx[i].buf) guard_free(cx[i].buf); else free(cx[i].buf);
                }
                free(mgr);
        }
        monitor_fail += guard_canary_bad;
        fprintf(fr, "END ops=%ld monitor_fail=%ld tramp_calls=%ld guard=%d\n", done, monitor_fail, tramp_calls, guard_mode);
        fclose(fo);
        fclose(fr);
        return monitor_fail ? 3 : 0;
}
