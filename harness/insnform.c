/* Instruction-form validation of the X86Abs translator table (tools/x86tab.py).
 *
 * Input (stdin), one line per sampled instruction of the library:
 *     <hex bytes> <declared GPR write mask> <base-register mask> <index-register mask> <rsp mode> <flags> <text...>
 * Every instruction is executed in isolation (harness/formtramp.asm) on TRIALS random register files;
 * registers used as base of a memory operand point into a scratch region, index registers are small.
 * A register that changes although it is not in the declared mask is a violation of the table:
 *     MONITOR C19-insnform-undeclared-write text="..." reg=...
 * rsp mode: s = must be unchanged, p = -8, q = +8, a = any.   flags: r = rep string (rcx small), x = xgetbv (rcx = 0),
 * d = div (rdx = 0).
 */
#define _GNU_SOURCE
#include <stdint.h>
#include <stdio.h>
#include <stdlib.h>
#include <string.h>
#include <signal.h>
#include <setjmp.h>
#include <sys/mman.h>

extern void form_run(void *code, const uint64_t *in);
extern void form_back(void);
extern uint64_t form_out[16];
static const char *RN[16] = { "rax", "rcx", "rdx", "rbx", "rsp", "rbp", "rsi", "rdi", "r8", "r9", "r10", "r11", "r12", "r13", "r14", "r15" };
static sigjmp_buf jb;
static void on_fault(int sig) { siglongjmp(jb, sig); }
static uint64_t rs = 88172645463325252ULL;
static uint64_t rnd(void) { rs ^= rs >> 12; rs ^= rs << 25; rs ^= rs >> 27; return rs * 0x2545F4914F6CDD1DULL; }
#define TRIALS 6
#define SCR (16u << 20)

int main(void)
{
        uint8_t *code0 = mmap(0, 4096, PROT_READ | PROT_WRITE | PROT_EXEC, MAP_PRIVATE | MAP_ANONYMOUS, -1, 0);
        uint8_t *scr = mmap(0, SCR, PROT_READ | PROT_WRITE, MAP_PRIVATE | MAP_ANONYMOUS, -1, 0);
        uint8_t *stk = mmap(0, 1 << 20, PROT_READ | PROT_WRITE, MAP_PRIVATE | MAP_ANONYMOUS, -1, 0);
        uint8_t *alt = malloc(1 << 16);
        if (code0 == MAP_FAILED || scr == MAP_FAILED || stk == MAP_FAILED) return 2;
        stack_t ss = { .ss_sp = alt, .ss_size = 1 << 16, .ss_flags = 0 };
        sigaltstack(&ss, 0);
        struct sigaction sa;
        memset(&sa, 0, sizeof sa);
        sa.sa_handler = on_fault;
        sa.sa_flags = SA_ONSTACK | SA_NODEFER;
        sigaction(SIGSEGV, &sa, 0); sigaction(SIGILL, &sa, 0); sigaction(SIGFPE, &sa, 0); sigaction(SIGBUS, &sa, 0);
        for (size_t i = 0; i < SCR; i += 8) { uint64_t v = rnd() | 0x0101010101010101ULL; memcpy(scr + i, &v, 8); }
        char line[1024];
        long forms = 0, runs = 0, viol = 0, faults = 0;
        while (fgets(line, sizeof line, stdin)) {
                char hex[128], rspmode[8], flags[16];
                unsigned mask, bmask, imask;
                int off = 0;
                if (sscanf(line, "%127s %x %x %x %7s %15s %n", hex, &mask, &bmask, &imask, rspmode, flags, &off) < 6) continue;
                char *text = line + off;
                text[strcspn(text, "\n")] = 0;
                size_t n = strlen(hex) / 2;
                /* the instruction ENDS at a 64-byte boundary, so that an unrelocated [rip+0] operand is aligned */
                uint8_t *c = code0 + 256 - n;
                for (size_t i = 0; i < n; i++) { unsigned b; sscanf(hex + 2 * i, "%2x", &b); c[i] = (uint8_t) b; }
                /* jmp [rip+58] ; (pad to 64) ; .quad form_back  -- 64 readable bytes follow the instruction */
                c[n] = 0xff; c[n + 1] = 0x25; c[n + 2] = 58; c[n + 3] = 0; c[n + 4] = 0; c[n + 5] = 0;
                uint64_t back = (uint64_t) (uintptr_t) form_back;
                memcpy(c + n + 64, &back, 8);
                uint8_t *code = c;
                forms++;
                for (int t = 0; t < TRIALS; t++) {
                        uint64_t in[16];
                        for (int r = 0; r < 16; r++) {
                                if (bmask >> r & 1) in[r] = (uint64_t) (uintptr_t) (scr + SCR / 2) + ((rnd() & 0x3ff) << 6);
                                else if (imask >> r & 1) in[r] = (rnd() & 3) << 6;
                                else in[r] = rnd();
                        }
                        in[4] = (uint64_t) (uintptr_t) (stk + (1 << 19));
                        if (strchr(flags, 'r')) in[1] = rnd() & 31;
                        if (strchr(flags, 'x')) in[1] = 0;
                        if (strchr(flags, 'd')) in[2] = 0;
                        int sig = sigsetjmp(jb, 1);
                        if (sig) {
                                faults++;
                                printf("NOTE insnform fault sig=%d text=\"%s\"\n", sig, text);
                                break;
                        }
                        form_run(code, in);
                        runs++;
                        for (int r = 0; r < 16; r++) {
                                if (r == 4) {
                                        int64_t d = (int64_t) (form_out[4] - in[4]);
                                        int ok = rspmode[0] == 'a' || (rspmode[0] == 's' && d == 0) || (rspmode[0] == 'p' && d == -8) ||
                                                 (rspmode[0] == 'q' && d == 8);
                                        if (!ok) { viol++; printf("MONITOR C19-insnform-rsp text=\"%s\" delta=%lld mode=%s\n", text, (long long) d, rspmode); }
                                } else if (form_out[r] != in[r] && !(mask >> r & 1)) {
                                        viol++;
                                        printf("MONITOR C19-insnform-undeclared-write text=\"%s\" reg=%s mask=%04x\n", text, RN[r], mask);
                                }
                        }
                }
        }
        printf("C19 insnform forms=%ld runs=%ld violations=%ld faults=%ld\n", forms, runs, viol, faults);
        return viol ? 1 : 0;
}
