/* C17 stress correspondence: concurrent first calls into a FIPS-mode build.
 *
 *   drv_fips <nthreads> <mode pass|aesfail|shafail> <rounds> [seed]
 *
 * Two configurations:
 *  (x86 gate, default)  the FIPS_MODE=y library of this host: fips/self_tests.c + asm_self_tests.asm;
 *  (portable gate, compile with -DVERIF_GENERIC_GATE)  the FIPS_MODE=y arch=noarch library:
 *      fips/self_tests_generic.c.  That library holds the portable C code only: no AES at all.  Its
 *      aes_self_tests.o is there but imports 33 AES functions nobody defines, so the real `_aes_self_tests`
 *      cannot be linked; `--wrap=_aes_self_tests` redirects the gate's call to a counting stand-in defined
 *      here (it sleeps 2 ms like the x86 wrapper and returns 1 in mode aesfail, else 0) and, because nothing
 *      references `__real__aes_self_tests`, the archive member is never pulled in.  The SHA self tests, the SHA
 *      managers and the whole gate are the library's own code.  Entry points used: isal_self_tests and
 *      isal_sha{1,256,512}_ctx_mgr_init (no isal_aes_keyexp_128).  Link line:
 *        cc -O2 -pthread -DVERIF_GENERIC_GATE -I<src>/include drv_fips.c <noarch>/isa-l_crypto.a
 *           -Wl,--wrap=_aes_self_tests -Wl,--wrap=_sha_self_tests
 *           -Wl,--wrap=_sha256_ctx_mgr_submit -Wl,--wrap=_sha256_ctx_mgr_flush
 *      The portable gate does not call `_sha_self_tests` when `_aes_self_tests` failed, so there "the self
 *      tests have finished" is the return of the AES stand-in when it fails, else the return from SHA.
 * Environment: VERIF_FIPS_DEADLINE=<seconds> (default 20) time a round's threads get before
 * C17-thread-did-not-finish fires.
 *
 * x86 gate: link against the FIPS build with
 *   -Wl,--wrap=_aes_self_tests -Wl,--wrap=_sha_self_tests
 *   -Wl,--wrap=_aes_cbc_enc_128 -Wl,--wrap=_sha256_ctx_mgr_submit -Wl,--wrap=_sha256_ctx_mgr_flush
 * The library itself is not modified.  The first two wrappers count entries into / returns from the
 * self tests (the ghost counters `entered` / `completed` of IsalVerif/Impl/SelfTest.lean) and stretch every
 * run by 2 ms so that other threads arrive while the status word is RUNNING.  The last three make the *real*
 * self test fail (they flip one bit of the result while a thread is inside the self test and the mode
 * asks for it), so that what ends up in the status word is the function's own failure value
 * (`_aes_self_tests`: 1; `_sha_self_tests`: -1 on a tree with defect D2, 1 once fixed).
 *
 * Every round runs in a fresh process (fork), so the status word is pristine (NOT_DONE):
 *   phase 1  N threads are released by a barrier (odd rounds: each after a random delay of up to 3 ms, so
 *            that some arrive before the claim, some while the tests run, some after publication) into
 *            their first call of an approved isal_ entry point; return codes and timestamps are collected;
 *   phase 2a four later calls with the fault still present; phase 2b two later calls with the fault gone.
 * One line per round:
 *   round=<i> entered_aes=<k> entered_sha=<k> rets=<sorted list> first_return_after_tests=<0|1>
 *            max_inside=<k> later_entered_aes=<k> later_rets=<list>
 * and MONITOR lines for violations of C17:
 *   MONITOR C17-tests-entered-more-than-once      phase 1 entered the self tests more than once
 *   MONITOR C17-returned-before-tests-finished    a call returned while no self-test run had completed
 *   MONITOR C17-verdicts-differ                   two first calls returned different codes
 *   MONITOR C17-thread-did-not-finish             a thread (or the round) did not finish within the time limit
 *   MONITOR C17-crypto-work-despite-refusal       output written although the call returned an error
 *   MONITOR C17-tests-rerun-after-failure         a later call entered the self tests again (D2)
 *   MONITOR C17-verdict-changed-later             a later call returned a different verdict (D2)
 * Exit status: 0 = no monitor fired, 1 = some monitor fired, 2 = usage / setup error.
 */
#define _GNU_SOURCE
#include <errno.h>
#include <pthread.h>
#include <stdatomic.h>
#include <stdint.h>
#include <stdio.h>
#include <stdlib.h>
#include <string.h>
#include <sys/wait.h>
#include <time.h>
#include <unistd.h>

#include "isal_crypto_api.h"
#ifndef VERIF_GENERIC_GATE
#include "aes_keyexp.h"
#endif
#include "sha1_mb.h"
#include "sha256_mb.h"
#include "sha512_mb.h"
#include "common.h"

enum { MODE_PASS, MODE_AESFAIL, MODE_SHAFAIL };
static int g_mode;
static atomic_int g_fault_on; /* the injected fault is present */
static __thread int tl_in_aes, tl_in_sha;

static atomic_int entered_aes, entered_sha, completed_runs, inside, max_inside;
static _Atomic int64_t t_first_done; /* ns, first return from _sha_self_tests */

static int64_t
now_ns(void)
{
        struct timespec ts;
        clock_gettime(CLOCK_MONOTONIC, &ts);
        return (int64_t) ts.tv_sec * 1000000000LL + ts.tv_nsec;
}

/* ---- wrappers (ld --wrap) ---- */
#ifndef VERIF_GENERIC_GATE
int __real__aes_self_tests(void);
int __real__aes_cbc_enc_128(void *in, uint8_t *iv, uint8_t *keys, void *out, uint64_t len);
#endif
int __real__sha_self_tests(void);
ISAL_SHA256_HASH_CTX *__real__sha256_ctx_mgr_submit(ISAL_SHA256_HASH_CTX_MGR *mgr, ISAL_SHA256_HASH_CTX *ctx,
                                                    const void *buffer, uint32_t len, ISAL_HASH_CTX_FLAG flags);
ISAL_SHA256_HASH_CTX *__real__sha256_ctx_mgr_flush(ISAL_SHA256_HASH_CTX_MGR *mgr);

int
__wrap__aes_self_tests(void)
{
        atomic_fetch_add(&entered_aes, 1);
        int k = atomic_fetch_add(&inside, 1) + 1, m = atomic_load(&max_inside);
        while (k > m && !atomic_compare_exchange_weak(&max_inside, &m, k))
                ;
        usleep(2000);
#ifdef VERIF_GENERIC_GATE
        /* stand-in for the AES self tests (no AES in the noarch library); a failing run ends here */
        (void) tl_in_aes;
        int r = (g_mode == MODE_AESFAIL && atomic_load(&g_fault_on)) ? 1 : 0;
        if (r != 0) {
                atomic_fetch_sub(&inside, 1);
                int64_t z = 0;
                atomic_compare_exchange_strong(&t_first_done, &z, now_ns());
                atomic_fetch_add(&completed_runs, 1);
        }
        return r;
#else
        tl_in_aes = 1;
        int r = __real__aes_self_tests();
        tl_in_aes = 0;
        return r;
#endif
}

int
__wrap__sha_self_tests(void)
{
        atomic_fetch_add(&entered_sha, 1);
        tl_in_sha = 1;
        int r = __real__sha_self_tests();
        tl_in_sha = 0;
        atomic_fetch_sub(&inside, 1);
        int64_t z = 0;
        atomic_compare_exchange_strong(&t_first_done, &z, now_ns());
        atomic_fetch_add(&completed_runs, 1);
        return r;
}

#ifndef VERIF_GENERIC_GATE
int
__wrap__aes_cbc_enc_128(void *in, uint8_t *iv, uint8_t *keys, void *out, uint64_t len)
{
        int r = __real__aes_cbc_enc_128(in, iv, keys, out, len);
        if (tl_in_aes && g_mode == MODE_AESFAIL && atomic_load(&g_fault_on) && len)
                ((uint8_t *) out)[0] ^= 1;
        return r;
}
#endif

static ISAL_SHA256_HASH_CTX *
maybe_corrupt(ISAL_SHA256_HASH_CTX *c)
{
        if (c && tl_in_sha && g_mode == MODE_SHAFAIL && atomic_load(&g_fault_on))
                c->job.result_digest[0] ^= 1;
        return c;
}

ISAL_SHA256_HASH_CTX *
__wrap__sha256_ctx_mgr_submit(ISAL_SHA256_HASH_CTX_MGR *mgr, ISAL_SHA256_HASH_CTX *ctx, const void *buffer,
                              uint32_t len, ISAL_HASH_CTX_FLAG flags)
{
        return maybe_corrupt(__real__sha256_ctx_mgr_submit(mgr, ctx, buffer, len, flags));
}

ISAL_SHA256_HASH_CTX *
__wrap__sha256_ctx_mgr_flush(ISAL_SHA256_HASH_CTX_MGR *mgr)
{
        return maybe_corrupt(__real__sha256_ctx_mgr_flush(mgr));
}

/* ---- approved entry points used for the calls ---- */
#ifdef VERIF_GENERIC_GATE
#define N_ENTRY 4
static const char *entry_name[N_ENTRY] = { "isal_self_tests", "isal_sha256_ctx_mgr_init", "isal_sha1_ctx_mgr_init",
                                           "isal_sha512_ctx_mgr_init" };
#define ENTRY_CASE(k) ((k) == 0 ? 0 : (k) + 1) /* skip the AES entry point */
#else
#define N_ENTRY 5
static const char *entry_name[N_ENTRY] = { "isal_self_tests", "isal_aes_keyexp_128", "isal_sha256_ctx_mgr_init",
                                           "isal_sha1_ctx_mgr_init", "isal_sha512_ctx_mgr_init" };
#define ENTRY_CASE(k) (k)
#endif

/* returns the call's return code; *touched = output was written */
static int
call_entry(int which, int *touched)
{
        *touched = -1; /* unknown */
        switch (ENTRY_CASE(which % N_ENTRY)) {
        case 0:
                return isal_self_tests();
#ifndef VERIF_GENERIC_GATE
        case 1: {
                static const uint8_t key[16] = { 1, 2, 3, 4, 5, 6, 7, 8, 9, 10, 11, 12, 13, 14, 15, 16 };
                uint8_t enc[16 * 11] __attribute__((aligned(16))), dec[16 * 11] __attribute__((aligned(16)));
                memset(enc, 0xA5, sizeof enc);
                memset(dec, 0xA5, sizeof dec);
                int r = isal_aes_keyexp_128(key, enc, dec), t = 0;
                for (size_t i = 0; i < sizeof enc; i++)
                        t |= (enc[i] != 0xA5) | (dec[i] != 0xA5);
                *touched = t;
                return r;
        }
#endif
        case 2: {
                ISAL_SHA256_HASH_CTX_MGR *m = NULL;
                if (posix_memalign((void **) &m, 64, sizeof *m))
                        exit(2);
                memset(m, 0xA5, sizeof *m);
                int r = isal_sha256_ctx_mgr_init(m), t = 0;
                for (size_t i = 0; i < sizeof *m; i++)
                        t |= ((uint8_t *) m)[i] != 0xA5;
                *touched = t;
                free(m);
                return r;
        }
        case 3: {
                ISAL_SHA1_HASH_CTX_MGR *m = NULL;
                if (posix_memalign((void **) &m, 64, sizeof *m))
                        exit(2);
                memset(m, 0xA5, sizeof *m);
                int r = isal_sha1_ctx_mgr_init(m), t = 0;
                for (size_t i = 0; i < sizeof *m; i++)
                        t |= ((uint8_t *) m)[i] != 0xA5;
                *touched = t;
                free(m);
                return r;
        }
        default: {
                ISAL_SHA512_HASH_CTX_MGR *m = NULL;
                if (posix_memalign((void **) &m, 64, sizeof *m))
                        exit(2);
                memset(m, 0xA5, sizeof *m);
                int r = isal_sha512_ctx_mgr_init(m), t = 0;
                for (size_t i = 0; i < sizeof *m; i++)
                        t |= ((uint8_t *) m)[i] != 0xA5;
                *touched = t;
                free(m);
                return r;
        }
        }
}

/* ---- one round (runs in the child) ---- */
typedef struct {
        int id, entry, ret, touched, completed_seen;
        uint32_t delay_us;
        int64_t t_ret;
} thr_t;

static pthread_barrier_t barrier;

static void *
worker(void *p)
{
        thr_t *t = p;
        pthread_barrier_wait(&barrier);
        if (t->delay_us)
                usleep(t->delay_us);
        t->ret = call_entry(t->entry, &t->touched);
        t->completed_seen = atomic_load(&completed_runs); /* C17 (2): must be >= 1 here */
        t->t_ret = now_ns();
        return NULL;
}

static int
cmp_int(const void *a, const void *b)
{
        return *(const int *) a - *(const int *) b;
}

static int monitors;
#define MON(...)                                                                                                  \
        do {                                                                                                      \
                printf("MONITOR " __VA_ARGS__);                                                                   \
                printf("\n");                                                                                     \
                monitors++;                                                                                       \
        } while (0)

static int
run_round(int round, int n, uint64_t seed)
{
        rng_t rng;
        rng_seed(&rng, seed + (uint64_t) round * 7919);
        thr_t *th = calloc((size_t) n, sizeof *th);
        pthread_t *tid = calloc((size_t) n, sizeof *tid);
        int *rets = calloc((size_t) n + 8, sizeof *rets);
        if (!th || !tid || !rets)
                exit(2);
        atomic_store(&g_fault_on, 1);
        pthread_barrier_init(&barrier, NULL, (unsigned) n + 1);
        for (int i = 0; i < n; i++) {
                th[i].id = i;
                th[i].entry = (int) rng_below(&rng, N_ENTRY);
                th[i].delay_us = (round & 1) ? rng_below(&rng, 3000) : 0;
                th[i].ret = -1;
                if (pthread_create(&tid[i], NULL, worker, &th[i])) {
                        perror("pthread_create");
                        exit(2);
                }
        }
        pthread_barrier_wait(&barrier);
        struct timespec dl;
        clock_gettime(CLOCK_REALTIME, &dl);
        dl.tv_sec += getenv("VERIF_FIPS_DEADLINE") ? atoi(getenv("VERIF_FIPS_DEADLINE")) : 20;
        for (int i = 0; i < n; i++) {
                if (pthread_timedjoin_np(tid[i], NULL, &dl)) {
                        printf("round=%d entered_aes=%d entered_sha=%d rets=? first_return_after_tests=?\n", round,
                               atomic_load(&entered_aes), atomic_load(&entered_sha));
                        MON("C17-thread-did-not-finish round=%d thread=%d entry=%s", round, i,
                            entry_name[th[i].entry]);
                        fflush(stdout);
                        _exit(1);
                }
        }
        /* ---- phase 1 verdicts ---- */
        int e_aes = atomic_load(&entered_aes), e_sha = atomic_load(&entered_sha);
        int64_t tdone = atomic_load(&t_first_done), tmin = INT64_MAX;
        int after = 1, differ = 0;
        for (int i = 0; i < n; i++) {
                rets[i] = th[i].ret;
                if (th[i].t_ret < tmin)
                        tmin = th[i].t_ret;
                if (th[i].completed_seen < 1)
                        after = 0;
                if (th[i].ret != th[0].ret)
                        differ = 1;
        }
        if (tdone == 0 || tmin < tdone)
                after = 0;
        qsort(rets, (size_t) n, sizeof *rets, cmp_int);
        printf("round=%d entered_aes=%d entered_sha=%d rets=", round, e_aes, e_sha);
        for (int i = 0; i < n; i++)
                printf("%s%d", i ? "," : "", rets[i]);
        printf(" first_return_after_tests=%d max_inside=%d", after, atomic_load(&max_inside));
        /* ---- phase 2: later calls ---- */
        int verdict = th[0].ret, later[6], touched;
        for (int k = 0; k < 4; k++)
                later[k] = call_entry(k + 1, &touched); /* 2a: fault still present */
        int e_aes2a = atomic_load(&entered_aes);
        atomic_store(&g_fault_on, 0);
        for (int k = 4; k < 6; k++)
                later[k] = call_entry(k + 1, &touched); /* 2b: fault gone */
        int e_aes2 = atomic_load(&entered_aes);
        printf(" later_entered_aes=%d later_rets=", e_aes2 - e_aes);
        for (int k = 0; k < 6; k++)
                printf("%s%d", k ? "," : "", later[k]);
        printf("\n");
        /* ---- monitors ---- */
        if (e_aes > 1 || e_sha > 1)
                MON("C17-tests-entered-more-than-once round=%d entered_aes=%d entered_sha=%d max_inside=%d", round, e_aes,
                    e_sha, atomic_load(&max_inside));
        if (e_aes < 1 || !after)
                MON("C17-returned-before-tests-finished round=%d entered_aes=%d", round, e_aes);
        if (differ)
                MON("C17-verdicts-differ round=%d", round);
        for (int i = 0; i < n; i++) {
                if (th[i].ret != 0 && th[i].ret != ISAL_CRYPTO_ERR_SELF_TEST)
                        MON("C17-verdicts-differ round=%d thread=%d unexpected return code %d from %s", round, i, th[i].ret,
                            entry_name[th[i].entry]);
                if (th[i].ret != 0 && th[i].touched == 1)
                        MON("C17-crypto-work-despite-refusal round=%d thread=%d entry=%s", round, i,
                            entry_name[th[i].entry]);
        }
        int expect = g_mode == MODE_PASS ? 0 : ISAL_CRYPTO_ERR_SELF_TEST;
        if (!differ && verdict != expect)
                MON("C17-verdicts-differ round=%d verdict %d but mode expects %d", round, verdict, expect);
        if (e_aes2a > e_aes)
                MON("C17-tests-rerun-after-failure round=%d later calls entered the self tests %d more time(s) "
                    "(verdict of the first calls was %d)",
                    round, e_aes2 - e_aes, verdict);
        else if (e_aes2 > e_aes2a)
                MON("C17-tests-rerun-after-failure round=%d (only once the fault was gone)", round);
        for (int k = 0; k < 6; k++)
                if (later[k] != verdict) {
                        MON("C17-verdict-changed-later round=%d later call %d (%s, fault %s) returned %d, first calls "
                            "returned %d",
                            round, k, entry_name[(k + 1) % N_ENTRY], k < 4 ? "present" : "gone", later[k], verdict);
                        break;
                }
        fflush(stdout);
        return monitors ? 1 : 0;
}

int
main(int argc, char **argv)
{
        if (argc < 4) {
                fprintf(stderr, "usage: drv_fips <nthreads> <pass|aesfail|shafail> <rounds> [seed]\n");
                return 2;
        }
        int n = atoi(argv[1]), rounds = atoi(argv[3]);
        uint64_t seed = argc > 4 ? strtoull(argv[4], NULL, 0) : 1;
        if (!strcmp(argv[2], "pass"))
                g_mode = MODE_PASS;
        else if (!strcmp(argv[2], "aesfail"))
                g_mode = MODE_AESFAIL;
        else if (!strcmp(argv[2], "shafail"))
                g_mode = MODE_SHAFAIL;
        else {
                fprintf(stderr, "unknown mode %s\n", argv[2]);
                return 2;
        }
        if (n < 1 || n > 4096 || rounds < 1)
                return 2;
        int bad_rounds = 0;
        for (int r = 0; r < rounds; r++) {
                fflush(stdout);
                pid_t pid = fork();
                if (pid < 0) {
                        perror("fork");
                        return 2;
                }
                if (pid == 0)
                        _exit(run_round(r, n, seed));
                int status = 0, waited = 0;
                for (;;) { /* the whole round must finish within 60 s */
                        pid_t w = waitpid(pid, &status, WNOHANG);
                        if (w == pid)
                                break;
                        if (w < 0 && errno != EINTR) {
                                perror("waitpid");
                                return 2;
                        }
                        if (++waited > 6000) {
                                kill(pid, SIGKILL);
                                waitpid(pid, &status, 0);
                                printf("MONITOR C17-thread-did-not-finish round=%d (round did not finish within 60 s)\n", r);
                                status = 1 << 8;
                                break;
                        }
                        usleep(10000);
                }
                if (WIFSIGNALED(status)) {
                        printf("MONITOR C17-thread-did-not-finish round=%d (child killed by signal %d)\n", r,
                               WTERMSIG(status));
                        bad_rounds++;
                } else if (WEXITSTATUS(status) == 2) {
                        fprintf(stderr, "setup error in round %d\n", r);
                        return 2;
                } else if (WEXITSTATUS(status) != 0)
                        bad_rounds++;
        }
        printf("summary threads=%d mode=%s rounds=%d rounds_with_monitors=%d\n", n, argv[2], rounds, bad_rounds);
        return bad_rounds ? 1 : 0;
}
