; harness side of the ISAL_CRYPTO_VERIF hook: virtual CPUID / XGETBV for the dispatchers.
; Same register contract as the instructions (eax/ecx in; eax/ebx/ecx/edx out; nothing else touched).
default rel
section .data
global verif_cfg
verif_cfg:	dd 0, 0, 0, 0, 0	; l1eax, l1ecx, l7ebx, l7ecx, xcr0
verif_virtual:	dd 0			; 0 = pass through to the real instructions
global verif_virtual
verif_calls:	dq 0
global verif_calls
verif_xgetbv_ud:	dq 0		; XGETBV executed while the virtual CPUID.1:ECX.OSXSAVE is clear (#UD on a real CPU)
global verif_xgetbv_ud
section .text
global isal_verif_cpuid
isal_verif_cpuid:
	lock inc qword [verif_calls]
	cmp	dword [verif_virtual], 0
	jne	.virt
	cpuid
	ret
.virt:
	cmp	eax, 1
	jne	.not1
	mov	eax, [verif_cfg]
	mov	ecx, [verif_cfg + 4]
	xor	ebx, ebx
	xor	edx, edx
	ret
.not1:
	cmp	eax, 7
	jne	.other
	mov	ebx, [verif_cfg + 8]
	mov	ecx, [verif_cfg + 12]
	xor	eax, eax
	xor	edx, edx
	ret
.other:
	xor	eax, eax
	xor	ebx, ebx
	xor	ecx, ecx
	xor	edx, edx
	ret
global isal_verif_xgetbv
isal_verif_xgetbv:
	cmp	dword [verif_virtual], 0
	jne	.virt
	xgetbv
	ret
.virt:
	test	dword [verif_cfg + 4], (1 << 27)
	jnz	.osx
	lock inc qword [verif_xgetbv_ud]
.osx:
	mov	eax, [verif_cfg + 16]
	xor	edx, edx
	ret
section .note.GNU-stack noalloc noexec nowrite progbits
