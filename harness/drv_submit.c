/* Replay of a submit-prefix witness on the REAL `_<alg>_ctx_mgr_submit_<family>` of one context-layer file:
 *   gcc -DCTXFILE='"…/sha512_ctx_sb_sse4.c"' -DCTXT=ISAL_SHA512_HASH_CTX -DMGRT=ISAL_SHA512_HASH_CTX_MGR
 *       -DF_INIT=_sha512_ctx_mgr_init_sb_sse4 -DF_SUBMIT=… -DF_FLUSH=… drv_submit.c isa-l_crypto.a
 * stdin: "flags len status total plen"   stdout: "SUBMIT same=<returned the submitted ctx> err=<error> total=<total_length>
 *         others_unchanged=<0|1>"  (others_unchanged is reported for calls that returned the context at once with an
 * error: every byte of the context outside the error field as before) */
#include <stdio.h>
#include <stdlib.h>
#include <string.h>
#include <stdint.h>
#include <stddef.h>
#include CTXFILE

int
main(void)
{
        unsigned long long fl, ln, st, tot, pl;
        MGRT *mgr = NULL;
        if (posix_memalign((void **) &mgr, 64, sizeof(MGRT)))
                return 2;
        uint8_t *buf = malloc(4096);
        memset(buf, 0x5a, 4096);
        while (scanf("%llu %llu %llu %llu %llu", &fl, &ln, &st, &tot, &pl) == 5) {
                static CTXT ctx, before;
                if (ln > 4096) {
                        printf("SKIP len\n");
                        continue;
                }
                memset(mgr, 0, sizeof(MGRT));
                F_INIT(mgr);
                memset(&ctx, 0, sizeof ctx);
                ctx.status = (ISAL_HASH_CTX_STS) st;
                ctx.total_length = tot;
                ctx.partial_block_buffer_length = (uint32_t) pl;
                ctx.error = (ISAL_HASH_CTX_ERROR) 7;
                before = ctx;
                CTXT *r = F_SUBMIT(mgr, &ctx, buf, (uint32_t) ln, (ISAL_HASH_CTX_FLAG) fl);
                int err = (int) ctx.error;
                unsigned long long total = ctx.total_length;
                int unchanged = -1;
                if (r == &ctx && err != 0) {
                        before.error = ctx.error;
                        unchanged = memcmp(&before, &ctx, sizeof ctx) == 0;
                }
                printf("SUBMIT same=%d err=%d total=%llu others_unchanged=%d\n", r == &ctx, err, total, unchanged);
                while (F_FLUSH(mgr))
                        ;
        }
        return 0;
}
