/* Correspondence + monitor driver for the AES entry points (C02, C03, C04, C07).
 *
 * drv_aes <what> <fam> <seed> <nops> <maxlen> <ops_out> <res_out>
 *   what = gcm | xts | cbc | keyexp ; fam = a family name (see tables) or "pub" (isal_ API)
 *
 * Op lines (input of the Lean driver, which expands data from the same xorshift seeds) and result lines:
 *   GK bits kseed                      -> ok
 *   GI ivseed aadlen aadseed           -> ah=.. ctr=.. al=.. il=.. pl=.. pk=..     (context after init)
 *   GU e|d len seed                    -> out=<len>:<fnv64>:<first 8 bytes> + context
 *   GF taglen                          -> tag=..
 *   GO e|d len seed ivseed aadlen aadseed taglen -> out=.. tag=..                  (one-shot)
 *   X e|d bits k1seed k2seed twseed len seed exp  -> out=..
 *   C e|d bits kseed ivseed len seed   -> out=..
 *   K bits kseed                       -> enc=.. dec=..
 * Model-independent monitors (OpenSSL as oracle): MONITOR C02-…, C03-…, C04-…, C07-… */
#define _GNU_SOURCE
#include "common.h"
#include <sys/mman.h>
#include <unistd.h>
#include <openssl/evp.h>
#include "aes_gcm.h"
#include "aes_xts.h"
#include "aes_cbc.h"
#include "aes_keyexp.h"
#include "isal_crypto_api.h"
#include "tramp.h"
#include "guard.h"
#include "sens.h"

typedef struct isal_gcm_key_data KD;
typedef struct isal_gcm_context_data CD;
typedef void (*gcm_oneshot)(const KD *, CD *, uint8_t *, const uint8_t *, uint64_t, const uint8_t *, const uint8_t *, uint64_t, uint8_t *, uint64_t);
typedef void (*gcm_init_f)(const KD *, CD *, const uint8_t *, const uint8_t *, uint64_t);
typedef void (*gcm_upd_f)(const KD *, CD *, uint8_t *, const uint8_t *, uint64_t);
typedef void (*gcm_fin_f)(const KD *, CD *, uint8_t *, uint64_t);
typedef void (*gcm_pre_f)(KD *);

#define GDECL(B, F)                                                                                  \
        void _aes_gcm_enc_##B##_##F(const KD *, CD *, uint8_t *, const uint8_t *, uint64_t, const uint8_t *, const uint8_t *, uint64_t, uint8_t *, uint64_t); \
        void _aes_gcm_dec_##B##_##F(const KD *, CD *, uint8_t *, const uint8_t *, uint64_t, const uint8_t *, const uint8_t *, uint64_t, uint8_t *, uint64_t); \
        void _aes_gcm_enc_##B##_##F##_nt(const KD *, CD *, uint8_t *, const uint8_t *, uint64_t, const uint8_t *, const uint8_t *, uint64_t, uint8_t *, uint64_t); \
        void _aes_gcm_dec_##B##_##F##_nt(const KD *, CD *, uint8_t *, const uint8_t *, uint64_t, const uint8_t *, const uint8_t *, uint64_t, uint8_t *, uint64_t); \
        void _aes_gcm_init_##B##_##F(const KD *, CD *, const uint8_t *, const uint8_t *, uint64_t);  \
        void _aes_gcm_enc_##B##_update_##F(const KD *, CD *, uint8_t *, const uint8_t *, uint64_t);   \
        void _aes_gcm_dec_##B##_update_##F(const KD *, CD *, uint8_t *, const uint8_t *, uint64_t);   \
        void _aes_gcm_enc_##B##_update_##F##_nt(const KD *, CD *, uint8_t *, const uint8_t *, uint64_t); \
        void _aes_gcm_dec_##B##_update_##F##_nt(const KD *, CD *, uint8_t *, const uint8_t *, uint64_t); \
        void _aes_gcm_enc_##B##_finalize_##F(const KD *, CD *, uint8_t *, uint64_t);                  \
        void _aes_gcm_dec_##B##_finalize_##F(const KD *, CD *, uint8_t *, uint64_t);                  \
        void _aes_gcm_precomp_##B##_##F(KD *);
GDECL(128, sse) GDECL(128, avx_gen2) GDECL(128, avx_gen4) GDECL(128, vaes_avx512)
GDECL(256, sse) GDECL(256, avx_gen2) GDECL(256, avx_gen4) GDECL(256, vaes_avx512)

typedef struct {
        const char *name;
        int nt;
        gcm_pre_f pre[2];
        gcm_oneshot enc[2], dec[2];
        gcm_init_f init[2];
        gcm_upd_f uenc[2], udec[2];
        gcm_fin_f fenc[2], fdec[2];
} gcmfam;
#define GF_(F, NT, SUF)                                                                              \
        { #F #SUF, NT, { _aes_gcm_precomp_128_##F, _aes_gcm_precomp_256_##F },                        \
          { _aes_gcm_enc_128_##F##SUF, _aes_gcm_enc_256_##F##SUF }, { _aes_gcm_dec_128_##F##SUF, _aes_gcm_dec_256_##F##SUF }, \
          { _aes_gcm_init_128_##F, _aes_gcm_init_256_##F },                                           \
          { _aes_gcm_enc_128_update_##F##SUF, _aes_gcm_enc_256_update_##F##SUF },                     \
          { _aes_gcm_dec_128_update_##F##SUF, _aes_gcm_dec_256_update_##F##SUF },                     \
          { _aes_gcm_enc_128_finalize_##F, _aes_gcm_enc_256_finalize_##F },                           \
          { _aes_gcm_dec_128_finalize_##F, _aes_gcm_dec_256_finalize_##F } },

/* public API wrappers (return codes checked: valid arguments must give 0) */
static long monitor_fail;
static FILE *fo, *fr;
static void monitor(const char *w, long v) { fprintf(fr, "MONITOR %s v=%ld\n", w, v); monitor_fail++; }
#define PUBW(B)                                                                                       \
        static void pub_pre_##B(KD *k) { (void) k; }                                                  \
        static void pub_enc_##B(const KD *k, CD *c, uint8_t *o, const uint8_t *i, uint64_t l, const uint8_t *iv, const uint8_t *a, uint64_t al, uint8_t *t, uint64_t tl) { int r = isal_aes_gcm_enc_##B(k, c, o, i, l, iv, a, al, t, tl); if (r) monitor("C16-valid-call-nonzero", r); } \
        static void pub_dec_##B(const KD *k, CD *c, uint8_t *o, const uint8_t *i, uint64_t l, const uint8_t *iv, const uint8_t *a, uint64_t al, uint8_t *t, uint64_t tl) { int r = isal_aes_gcm_dec_##B(k, c, o, i, l, iv, a, al, t, tl); if (r) monitor("C16-valid-call-nonzero", r); } \
        static void pub_enc_nt_##B(const KD *k, CD *c, uint8_t *o, const uint8_t *i, uint64_t l, const uint8_t *iv, const uint8_t *a, uint64_t al, uint8_t *t, uint64_t tl) { int r = isal_aes_gcm_enc_##B##_nt(k, c, o, i, l, iv, a, al, t, tl); if (r) monitor("C16-valid-call-nonzero", r); } \
        static void pub_dec_nt_##B(const KD *k, CD *c, uint8_t *o, const uint8_t *i, uint64_t l, const uint8_t *iv, const uint8_t *a, uint64_t al, uint8_t *t, uint64_t tl) { int r = isal_aes_gcm_dec_##B##_nt(k, c, o, i, l, iv, a, al, t, tl); if (r) monitor("C16-valid-call-nonzero", r); } \
        static void pub_init_##B(const KD *k, CD *c, const uint8_t *iv, const uint8_t *a, uint64_t al) { int r = isal_aes_gcm_init_##B(k, c, iv, a, al); if (r) monitor("C16-valid-call-nonzero", r); } \
        static void pub_uenc_##B(const KD *k, CD *c, uint8_t *o, const uint8_t *i, uint64_t l) { int r = isal_aes_gcm_enc_##B##_update(k, c, o, i, l); if (r) monitor("C16-valid-call-nonzero", r); } \
        static void pub_udec_##B(const KD *k, CD *c, uint8_t *o, const uint8_t *i, uint64_t l) { int r = isal_aes_gcm_dec_##B##_update(k, c, o, i, l); if (r) monitor("C16-valid-call-nonzero", r); } \
        static void pub_uenc_nt_##B(const KD *k, CD *c, uint8_t *o, const uint8_t *i, uint64_t l) { int r = isal_aes_gcm_enc_##B##_update_nt(k, c, o, i, l); if (r) monitor("C16-valid-call-nonzero", r); } \
        static void pub_udec_nt_##B(const KD *k, CD *c, uint8_t *o, const uint8_t *i, uint64_t l) { int r = isal_aes_gcm_dec_##B##_update_nt(k, c, o, i, l); if (r) monitor("C16-valid-call-nonzero", r); } \
        static void pub_fenc_##B(const KD *k, CD *c, uint8_t *t, uint64_t tl) { int r = isal_aes_gcm_enc_##B##_finalize(k, c, t, tl); if (r) monitor("C16-valid-call-nonzero", r); } \
        static void pub_fdec_##B(const KD *k, CD *c, uint8_t *t, uint64_t tl) { int r = isal_aes_gcm_dec_##B##_finalize(k, c, t, tl); if (r) monitor("C16-valid-call-nonzero", r); }
PUBW(128) PUBW(256)

static const gcmfam gfams[] = {
        GF_(sse, 0, ) GF_(avx_gen2, 0, ) GF_(avx_gen4, 0, ) GF_(vaes_avx512, 0, )
        GF_(sse, 1, _nt) GF_(avx_gen2, 1, _nt) GF_(avx_gen4, 1, _nt) GF_(vaes_avx512, 1, _nt)
        { "pub", 0, { pub_pre_128, pub_pre_256 }, { pub_enc_128, pub_enc_256 }, { pub_dec_128, pub_dec_256 },
          { pub_init_128, pub_init_256 }, { pub_uenc_128, pub_uenc_256 }, { pub_udec_128, pub_udec_256 },
          { pub_fenc_128, pub_fenc_256 }, { pub_fdec_128, pub_fdec_256 } },
        { "pub_nt", 1, { pub_pre_128, pub_pre_256 }, { pub_enc_nt_128, pub_enc_nt_256 }, { pub_dec_nt_128, pub_dec_nt_256 },
          { pub_init_128, pub_init_256 }, { pub_uenc_nt_128, pub_uenc_nt_256 }, { pub_udec_nt_128, pub_udec_nt_256 },
          { pub_fenc_128, pub_fenc_256 }, { pub_fdec_128, pub_fdec_256 } },
        { 0 } };

/* XTS */
typedef void (*xts_f)(const uint8_t *, const uint8_t *, const uint8_t *, uint64_t, const void *, void *);
#define XDECL(B, F)                                                                                   \
        void _XTS_AES_##B##_enc_##F(const uint8_t *, const uint8_t *, const uint8_t *, uint64_t, const void *, void *); \
        void _XTS_AES_##B##_dec_##F(const uint8_t *, const uint8_t *, const uint8_t *, uint64_t, const void *, void *); \
        void _XTS_AES_##B##_enc_expanded_key_##F(const uint8_t *, const uint8_t *, const uint8_t *, uint64_t, const void *, void *); \
        void _XTS_AES_##B##_dec_expanded_key_##F(const uint8_t *, const uint8_t *, const uint8_t *, uint64_t, const void *, void *);
XDECL(128, sse) XDECL(128, avx) XDECL(128, vaes) XDECL(256, sse) XDECL(256, avx) XDECL(256, vaes)
#define XPUB(B, D, E, NAME)                                                                           \
        static void NAME(const uint8_t *a, const uint8_t *b, const uint8_t *c, uint64_t n, const void *i, void *o) { int r = isal_aes_xts_##D##_##B##E(a, b, c, n, i, o); if (n >= 16 && r) monitor("C16-valid-call-nonzero", r); if (n < 16 && r != ISAL_CRYPTO_ERR_CIPH_LEN) monitor("C16-short-length-not-refused", r); }
XPUB(128, enc, , xpub_e128) XPUB(128, dec, , xpub_d128) XPUB(128, enc, _expanded_key, xpub_ee128) XPUB(128, dec, _expanded_key, xpub_de128)
XPUB(256, enc, , xpub_e256) XPUB(256, dec, , xpub_d256) XPUB(256, enc, _expanded_key, xpub_ee256) XPUB(256, dec, _expanded_key, xpub_de256)
typedef struct { const char *name; xts_f f[2][2][2]; /* [bits][dec][exp] */ } xtsfam;
#define XF_(F) { #F, { { { _XTS_AES_128_enc_##F, _XTS_AES_128_enc_expanded_key_##F }, { _XTS_AES_128_dec_##F, _XTS_AES_128_dec_expanded_key_##F } }, \
                       { { _XTS_AES_256_enc_##F, _XTS_AES_256_enc_expanded_key_##F }, { _XTS_AES_256_dec_##F, _XTS_AES_256_dec_expanded_key_##F } } } },
static const xtsfam xfams[] = { XF_(sse) XF_(avx) XF_(vaes)
        { "pub", { { { xpub_e128, xpub_ee128 }, { xpub_d128, xpub_de128 } }, { { xpub_e256, xpub_ee256 }, { xpub_d256, xpub_de256 } } } }, { 0 } };

/* CBC + key expansion */
typedef void (*cbc_f)(void *, uint8_t *, uint8_t *, void *, uint64_t);
typedef void (*kx_f)(const uint8_t *, uint8_t *, uint8_t *);
#define CDECL(B)                                                                                      \
        int _aes_cbc_enc_##B##_x4(void *, uint8_t *, uint8_t *, void *, uint64_t);                    \
        int _aes_cbc_enc_##B##_x8(void *, uint8_t *, uint8_t *, void *, uint64_t);                    \
        void _aes_cbc_dec_##B##_sse(void *, uint8_t *, uint8_t *, void *, uint64_t);                  \
        void _aes_cbc_dec_##B##_avx(void *, uint8_t *, uint8_t *, void *, uint64_t);                  \
        void _aes_cbc_dec_##B##_vaes_avx512(void *, uint8_t *, uint8_t *, void *, uint64_t);          \
        void _aes_keyexp_##B##_sse(const uint8_t *, uint8_t *, uint8_t *);                            \
        void _aes_keyexp_##B##_avx(const uint8_t *, uint8_t *, uint8_t *);                            \
        static void cpub_e##B(void *i, uint8_t *iv, uint8_t *k, void *o, uint64_t l) { int r = isal_aes_cbc_enc_##B(i, iv, k, o, l); if (r) monitor("C16-valid-call-nonzero", r); } \
        static void cpub_d##B(void *i, uint8_t *iv, uint8_t *k, void *o, uint64_t l) { int r = isal_aes_cbc_dec_##B(i, iv, k, o, l); if (r) monitor("C16-valid-call-nonzero", r); } \
        static void kpub_##B(const uint8_t *k, uint8_t *e, uint8_t *d) { int r = isal_aes_keyexp_##B(k, e, d); if (r) monitor("C16-valid-call-nonzero", r); }
CDECL(128) CDECL(192) CDECL(256)
typedef struct { const char *name; cbc_f enc[3], dec[3]; } cbcfam;
/* a "family" of CBC pairs one encrypt kernel with one decrypt kernel */
static const cbcfam cfams[] = {
        { "x4_sse", { (cbc_f) _aes_cbc_enc_128_x4, (cbc_f) _aes_cbc_enc_192_x4, (cbc_f) _aes_cbc_enc_256_x4 }, { _aes_cbc_dec_128_sse, _aes_cbc_dec_192_sse, _aes_cbc_dec_256_sse } },
        { "x8_avx", { (cbc_f) _aes_cbc_enc_128_x8, (cbc_f) _aes_cbc_enc_192_x8, (cbc_f) _aes_cbc_enc_256_x8 }, { _aes_cbc_dec_128_avx, _aes_cbc_dec_192_avx, _aes_cbc_dec_256_avx } },
        { "x8_vaes_avx512", { (cbc_f) _aes_cbc_enc_128_x8, (cbc_f) _aes_cbc_enc_192_x8, (cbc_f) _aes_cbc_enc_256_x8 }, { _aes_cbc_dec_128_vaes_avx512, _aes_cbc_dec_192_vaes_avx512, _aes_cbc_dec_256_vaes_avx512 } },
        { "pub", { cpub_e128, cpub_e192, cpub_e256 }, { cpub_d128, cpub_d192, cpub_d256 } }, { 0 } };
typedef struct { const char *name; kx_f f[3]; } kxfam;
static const kxfam kfams[] = { { "sse", { _aes_keyexp_128_sse, _aes_keyexp_192_sse, _aes_keyexp_256_sse } },
                               { "avx", { _aes_keyexp_128_avx, _aes_keyexp_192_avx, _aes_keyexp_256_avx } },
                               { "pub", { kpub_128, kpub_192, kpub_256 } }, { 0 } };

static uint64_t fnv64(const uint8_t *p, size_t n)
{
        uint64_t h = 14695981039346656037ULL;
        for (size_t i = 0; i < n; i++) h = (h ^ p[i]) * 1099511628211ULL;
        return h;
}
static void show_out(const uint8_t *p, size_t n)
{
        fprintf(fr, "%zu:%016llx:", n, (unsigned long long) fnv64(p, n));
        hex_out(fr, p, n < 8 ? n : 8);
}
static void show_ctx(const CD *c)
{
        uint8_t t[16];
        fprintf(fr, "ah=");
        for (int i = 0; i < 16; i++) t[i] = c->aad_hash[15 - i];
        hex_out(fr, t, 16);
        fprintf(fr, " ctr=");
        for (int i = 0; i < 16; i++) t[i] = c->current_counter[15 - i];
        hex_out(fr, t, 16);
        fprintf(fr, " al=%llu il=%llu pl=%llu pk=", (unsigned long long) c->aad_length, (unsigned long long) c->in_length,
                (unsigned long long) c->partial_block_length);
        if (c->partial_block_length == 0) fputc('-', fr);
        else hex_out(fr, c->partial_block_enc_key + c->partial_block_length, 16 - c->partial_block_length);
}

/* buffers: 64-byte aligned base + offset; NT variants need offset 0 */
static uint8_t *abuf(size_t n, unsigned off)
{
        uint8_t *p;
        if (guard_mode) return guard_alloc(n, off);   /* flush against an inaccessible page */
        if (posix_memalign((void **) &p, 64, n + 128)) exit(2);
        memset(p, 0xEE, n + 128);
        return p + off;
}
#define AFREE(p, off) do { if (arena_owns(p)) arena_release(); else if (guard_mode) guard_free(p); else free((p) - (off)); } while (0)
/* data buffer: like abuf, but one time in eight (outside guard mode) placed across the 4 GiB boundary of the arena */
static rng_t *abuf_rng;
static uint8_t *abuf_data(size_t n, unsigned off)
{
        if (!guard_mode && abuf_rng && rng_below(abuf_rng, 8) == 0) {
                uint8_t *p = arena_straddle(abuf_rng, n + 1, off ? 1 : 64);
                if (p) { memset(p - 64, 0xEE, n + 192); return p; }
        }
        return abuf(n, off);
}

static int gcm_sweep; static unsigned sweep_idx;
static uint32_t pick_len(rng_t *r, uint32_t maxlen, uint32_t unit)
{
        uint32_t v;
        switch (rng_below(r, 12)) {
        case 0: v = 0; break;
        case 1: v = 1 + rng_below(r, 15); break;
        case 2: v = 16; break;
        case 3: v = 16 * (1 + rng_below(r, 9)); break;
        case 4: v = 16 * (1 + rng_below(r, 40)) + rng_below(r, 16); break;
        case 5: v = 128 * (1 + rng_below(r, 8)) + rng_below(r, 3) - 1; break;
        case 6: v = 512 + rng_below(r, 1400); break;
        case 7: v = rng_below(r, 300); break;
        default: v = rng_below(r, maxlen + 1); break;
        }
        if (v > maxlen) v = maxlen;
        return unit > 1 ? v - v % unit : v;
}

static int ossl_gcm(int dec, int bits, const uint8_t *key, const uint8_t *iv, const uint8_t *aad, size_t aadlen,
                    const uint8_t *in, size_t len, uint8_t *out, uint8_t *tag)
{
        EVP_CIPHER_CTX *c = EVP_CIPHER_CTX_new();
        int l, ok = 1;
        EVP_CipherInit_ex(c, bits == 128 ? EVP_aes_128_gcm() : EVP_aes_256_gcm(), NULL, key, iv, 1);
        if (aadlen) EVP_CipherUpdate(c, NULL, &l, aad, (int) aadlen);
        if (!dec) {
                if (len) EVP_CipherUpdate(c, out, &l, in, (int) len);
                EVP_CipherFinal_ex(c, out + len, &l);
                EVP_CIPHER_CTX_ctrl(c, EVP_CTRL_GCM_GET_TAG, 16, tag);
        } else {
                /* decrypt = CTR is symmetric: encrypt-direction keystream; tag over the *input* ciphertext */
                EVP_CIPHER_CTX_free(c);
                c = EVP_CIPHER_CTX_new();
                EVP_CipherInit_ex(c, bits == 128 ? EVP_aes_128_gcm() : EVP_aes_256_gcm(), NULL, key, iv, 0);
                if (aadlen) EVP_CipherUpdate(c, NULL, &l, aad, (int) aadlen);
                if (len) EVP_CipherUpdate(c, out, &l, in, (int) len);
                /* recompute the tag by re-encrypting the plaintext */
                EVP_CIPHER_CTX *e = EVP_CIPHER_CTX_new();
                uint8_t *tmp = malloc(len + 16);
                EVP_CipherInit_ex(e, bits == 128 ? EVP_aes_128_gcm() : EVP_aes_256_gcm(), NULL, key, iv, 1);
                if (aadlen) EVP_CipherUpdate(e, NULL, &l, aad, (int) aadlen);
                if (len) EVP_CipherUpdate(e, tmp, &l, out, (int) len);
                EVP_CipherFinal_ex(e, tmp + len, &l);
                EVP_CIPHER_CTX_ctrl(e, EVP_CTRL_GCM_GET_TAG, 16, tag);
                EVP_CIPHER_CTX_free(e);
                free(tmp);
        }
        EVP_CIPHER_CTX_free(c);
        return ok;
}

int main(int argc, char **argv)
{
        if (argc < 8) return 2;
        const char *what = argv[1], *fam = argv[2];
        uint64_t seed = strtoull(argv[3], 0, 0);
        long nops = atol(argv[4]);
        uint32_t maxlen = (uint32_t) strtoul(argv[5], 0, 0);
        fo = fopen(argv[6], "w");
        fr = fopen(argv[7], "w");
        if (!fo || !fr) return 2;
        rng_t R;
        rng_seed(&R, seed);
        tramp_setup();
        guard_setup();
        arena_setup();
        abuf_rng = &R;
        gcm_sweep = getenv("VERIF_GCM_SWEEP") ? atoi(getenv("VERIF_GCM_SWEEP")) : 0;
        guard_out = fr;
        sens_out = fr;
        long done = 0;
        const char *famtag = fam;
        if (!strcmp(what, "gcm") && !strncmp(fam, "pub", 3)) {
                /* which GCM context protocol does the dispatched family follow?  the vaes_avx512 family
                   leaves partial_block_length = 16 after an update of exactly 256 bytes */
                KD *k; CD *c;
                static uint8_t z[256], o[256], key[16], iv[12];
                if (posix_memalign((void **) &k, 64, sizeof(KD)) || posix_memalign((void **) &c, 64, sizeof(CD))) return 2;
                isal_aes_gcm_pre_128(key, k);
                isal_aes_gcm_init_128(k, c, iv, key, 1);
                isal_aes_gcm_enc_128_update(k, c, o, z, 256);
                if (c->partial_block_length == 16) famtag = !strcmp(fam, "pub") ? "pub:lazy" : "pub_nt:lazy";
                free(k); free(c);
        }
        fprintf(fo, "E aes %s\n", famtag);
        fprintf(fr, "E\n");

        if (!strcmp(what, "gcm")) {
                const gcmfam *G;
                for (G = gfams; G->name && strcmp(G->name, fam); G++) ;
                if (!G->name) return 2;
                int is_pub = !strncmp(fam, "pub", 3);
                if (G->nt) guard_align = 64;
                KD *kd;
                CD *cd;
                if (posix_memalign((void **) &kd, 64, sizeof(KD)) || posix_memalign((void **) &cd, 64, sizeof(CD))) return 2;
                /* C02 "every AAD length": one one-shot call per run with an AAD of 2^29 + r bytes (the bit
                   length no longer fits 32 bits), on a window aliasing a 2 MiB pattern; OpenSSL is the oracle
                   (the Lean model is not run on it: no op line) */
                {
                        size_t P = 2u << 20, win = (1ull << 30) + P;
                        int fd = memfd_create("aad", 0);
                        uint8_t *base = MAP_FAILED;
                        if (fd >= 0 && !ftruncate(fd, P)) base = mmap(NULL, win, PROT_NONE, MAP_PRIVATE | MAP_ANONYMOUS | MAP_NORESERVE, -1, 0);
                        if (base != MAP_FAILED) {
                                for (size_t o = 0; o < win; o += P) mmap(base + o, P, PROT_READ | PROT_WRITE, MAP_SHARED | MAP_FIXED, fd, 0);
                                xs_bytes(seed | 1, base, P);
                                uint8_t key[32], iv[12], pt[48], ct[48], oct[64], tag[16], otag[16];
                                xs_bytes(seed + 77, key, 32); xs_bytes(seed + 78, iv, 12); xs_bytes(seed + 79, pt, 48);
                                for (int b = 0; b < 2; b++) {
                                        uint64_t al = (1ull << 29) + rng_below(&R, 100) - (b ? 0 : 30);
                                        int bits = b ? 256 : 128;
                                        memset(kd, 0, sizeof(KD));
                                        if (is_pub) {
                                uint8_t tmpe[240], tmpd[240];
                                TCALL(b ? (void *) _aes_keyexp_256_sse : (void *) _aes_keyexp_128_sse, A_(key), A_(tmpe), A_(tmpd));
                                TCALL(b ? (void *) isal_aes_gcm_pre_256 : (void *) isal_aes_gcm_pre_128, A_(key), A_(kd));
                                sens_set_gcm(key, bits, kd, tmpd);
                                sens_add_hkeys(kd);
                                SCAN("gcm_pre");
                        }
                                        else { uint8_t t[240]; if (b) _aes_keyexp_256_sse(key, kd->expanded_keys, t); else _aes_keyexp_128_sse(key, kd->expanded_keys, t); TCALL(G->pre[b], A_(kd)); sens_add_hkeys(kd); SCAN("gcm_precomp"); }
                                        G->enc[b](kd, cd, ct, pt, 48, iv, base, al, tag, 16);
                                        EVP_CIPHER_CTX *c = EVP_CIPHER_CTX_new();
                                        int l;
                                        EVP_EncryptInit_ex(c, b ? EVP_aes_256_gcm() : EVP_aes_128_gcm(), NULL, key, iv);
                                        EVP_EncryptUpdate(c, NULL, &l, base, (int) al);
                                        EVP_EncryptUpdate(c, oct, &l, pt, 48);
                                        EVP_EncryptFinal_ex(c, oct + 48, &l);
                                        EVP_CIPHER_CTX_ctrl(c, EVP_CTRL_GCM_GET_TAG, 16, otag);
                                        EVP_CIPHER_CTX_free(c);
                                        if (memcmp(ct, oct, 48)) monitor("C02-output-differs-from-openssl-big-aad", (long) al);
                                        if (memcmp(tag, otag, 16)) monitor("C02-tag-differs-from-openssl-big-aad", (long) al);
                                }
                                munmap(base, win);
                        }
                        if (fd >= 0) close(fd);
                }
                /* C07 "any segmentation": a carried partial block followed by ONE update of more than 4 GiB (lengths are
                   64-bit; 32-bit handling of a length shows only here).  Input and output windows alias 2 MiB memfd
                   patterns; OpenSSL (fed in 1 GiB pieces) is the oracle: tag and final window contents must agree.
                   Both tiers (VERIF_GCM_BIG=1): ~4 GiB through each family and key size. */
                if (getenv("VERIF_GCM_BIG")) {
                        size_t P = 2u << 20;
                        uint64_t biglen = (1ull << 32) + 16;        /* window size; the lengths used are at most this */
                        size_t win = ((size_t) biglen + 2 * P) / P * P;     /* whole multiple of the pattern size */
                        int fi = memfd_create("gin", 0), fo1 = memfd_create("gout1", 0), fo2 = memfd_create("gout2", 0);
                        uint8_t *bi = MAP_FAILED, *bo1 = MAP_FAILED, *bo2 = MAP_FAILED;
                        if (fi >= 0 && fo1 >= 0 && fo2 >= 0 && !ftruncate(fi, P) && !ftruncate(fo1, P) && !ftruncate(fo2, P)) {
                                bi = mmap(NULL, win, PROT_NONE, MAP_PRIVATE | MAP_ANONYMOUS | MAP_NORESERVE, -1, 0);
                                bo1 = mmap(NULL, win, PROT_NONE, MAP_PRIVATE | MAP_ANONYMOUS | MAP_NORESERVE, -1, 0);
                                bo2 = mmap(NULL, win, PROT_NONE, MAP_PRIVATE | MAP_ANONYMOUS | MAP_NORESERVE, -1, 0);
                        }
                        if (bi != MAP_FAILED && bo1 != MAP_FAILED && bo2 != MAP_FAILED) {
                                for (size_t o = 0; o < win; o += P) {
                                        mmap(bi + o, P, PROT_READ | PROT_WRITE, MAP_SHARED | MAP_FIXED, fi, 0);
                                        mmap(bo1 + o, P, PROT_READ | PROT_WRITE, MAP_SHARED | MAP_FIXED, fo1, 0);
                                        mmap(bo2 + o, P, PROT_READ | PROT_WRITE, MAP_SHARED | MAP_FIXED, fo2, 0);
                                }
                                xs_bytes(seed | 3, bi, P);
                                uint8_t key[32], iv[12], aad[20], head[16], hout[16], hout2[16], tag[16], otag[16];
                                xs_bytes(seed + 91, key, 32); xs_bytes(seed + 92, iv, 12); xs_bytes(seed + 93, aad, 20); xs_bytes(seed + 94, head, 16);
                                for (int b = 0; b < 2; b++) {
                                        int dec = b;                         /* 128-bit encrypt, 256-bit decrypt */
                                        uint32_t r0 = 1 + rng_below(&R, 15); /* carried partial block */
                                        /* the long update does not by itself complete the carried block modulo 2^32 (b = 0), or is arbitrary (b = 1) */
                                        uint64_t thislen = (1ull << 32) + (b ? rng_below(&R, 16) : rng_below(&R, 16 - r0));
                                        memset(kd, 0, sizeof(KD));
                                        if (is_pub) { if (b) isal_aes_gcm_pre_256(key, kd); else isal_aes_gcm_pre_128(key, kd); }
                                        else { uint8_t t[240]; if (b) _aes_keyexp_256_sse(key, kd->expanded_keys, t); else _aes_keyexp_128_sse(key, kd->expanded_keys, t); G->pre[b](kd); }
                                        uint64_t l2 = G->nt ? thislen - thislen % 64 : thislen;
                                        if (G->nt) r0 = 0;                   /* the _nt updates take whole 64-byte multiples only */
                                        G->init[b](kd, cd, iv, aad, 20);
                                        if (r0) (dec ? G->udec[b] : G->uenc[b])(kd, cd, hout, head, r0);
                                        (dec ? G->udec[b] : G->uenc[b])(kd, cd, bo1, bi, l2);
                                        (dec ? G->fdec[b] : G->fenc[b])(kd, cd, tag, 16);
                                        EVP_CIPHER_CTX *c = EVP_CIPHER_CTX_new();
                                        int l;
                                        if (dec) EVP_DecryptInit_ex(c, b ? EVP_aes_256_gcm() : EVP_aes_128_gcm(), NULL, key, iv);
                                        else EVP_EncryptInit_ex(c, b ? EVP_aes_256_gcm() : EVP_aes_128_gcm(), NULL, key, iv);
                                        (dec ? EVP_DecryptUpdate : EVP_EncryptUpdate)(c, NULL, &l, aad, 20);
                                        if (r0) (dec ? EVP_DecryptUpdate : EVP_EncryptUpdate)(c, hout2, &l, head, (int) r0);
                                        for (uint64_t o = 0; o < l2; o += 1u << 30) {
                                                uint64_t n = l2 - o < (1u << 30) ? l2 - o : (1u << 30);
                                                (dec ? EVP_DecryptUpdate : EVP_EncryptUpdate)(c, bo2 + o, &l, bi + o, (int) n);
                                        }
                                        if (dec) {
                                                /* the tag of a decryption is computed over the ciphertext = our input: take it from an encrypt-side GHASH:
                                                   OpenSSL only verifies; so compare outputs, and check that OpenSSL accepts ISA-L's tag */
                                                EVP_CIPHER_CTX_ctrl(c, EVP_CTRL_GCM_SET_TAG, 16, tag);
                                                int okf = EVP_DecryptFinal_ex(c, otag, &l);
                                                if (okf <= 0) monitor("C07-big-update-tag-rejected-by-oracle", (long) r0);
                                        } else {
                                                EVP_EncryptFinal_ex(c, otag, &l);
                                                EVP_CIPHER_CTX_ctrl(c, EVP_CTRL_GCM_GET_TAG, 16, otag);
                                                if (memcmp(tag, otag, 16)) monitor("C07-big-update-tag-differs-from-oracle", (long) r0);
                                        }
                                        EVP_CIPHER_CTX_free(c);
                                        if (r0 && memcmp(hout, hout2, r0)) monitor("C07-big-update-head-differs-from-oracle", (long) r0);
                                        if (memcmp(bo1, bo2, P)) monitor("C07-big-update-output-differs-from-oracle", (long) r0);
                                }
                                munmap(bi, win); munmap(bo1, win); munmap(bo2, win);
                        } else monitor("C07-big-update-setup-failed", 0);
                        if (fi >= 0) close(fi);
                        if (fo1 >= 0) close(fo1);
                        if (fo2 >= 0) close(fo2);
                }
                while (done < nops) {
                        int b = rng_below(&R, 2);
                        int bits = b ? 256 : 128;
                        uint64_t kseed = rng_u64(&R) | 1;
                        uint8_t key[32];
                        xs_bytes(kseed, key, bits / 8);
                        memset(kd, 0xC3, sizeof(KD));
                        if (is_pub) {
                                uint8_t tmpe[240], tmpd[240];
                                TCALL(b ? (void *) _aes_keyexp_256_sse : (void *) _aes_keyexp_128_sse, A_(key), A_(tmpe), A_(tmpd));
                                TCALL(b ? (void *) isal_aes_gcm_pre_256 : (void *) isal_aes_gcm_pre_128, A_(key), A_(kd));
                                sens_set_gcm(key, bits, kd, tmpd);
                                sens_add_hkeys(kd);
                                SCAN("gcm_pre");
                        }
                        else {
                                uint8_t tmpd[240];
                                TCALL(b ? (void *) _aes_keyexp_256_sse : (void *) _aes_keyexp_128_sse, A_(key), A_(kd->expanded_keys), A_(tmpd)); sens_set_gcm(key, bits, kd, tmpd);
                                TCALL(G->pre[b], A_(kd)); sens_add_hkeys(kd); SCAN("gcm_precomp");
                        }
                        fprintf(fo, "GK %d %llu\n", bits, (unsigned long long) kseed);
                        fprintf(fr, "ok\n");
                        done++;
                        int nmsg = 1 + rng_below(&R, 6);
                        for (int mi = 0; mi < nmsg && done < nops; mi++) {
                                int dec = rng_below(&R, 2);
                                uint64_t ivseed = rng_u64(&R) | 1, aadseed = rng_u64(&R) | 1;
                                uint32_t aadlen;
                                switch (rng_below(&R, 9)) {
                                case 0: aadlen = 0; break;
                                case 1: aadlen = 1 + rng_below(&R, 20); break;
                                case 2: aadlen = 16 * rng_below(&R, 5); break;
                                case 3: aadlen = 127 + rng_below(&R, 3); break;
                                case 4: aadlen = 256 * (1 + rng_below(&R, 9)) + rng_below(&R, 3) - 1; break; /* 16x16-byte AAD loops of the wide kernels */
                                case 5: aadlen = 16 * rng_below(&R, 140); break;
                                case 6: aadlen = rng_below(&R, 2200); break;
                                default: aadlen = rng_below(&R, 300); break;
                                }
                                unsigned aoff = rng_below(&R, 16), ivoff = rng_below(&R, 16);
                                uint8_t *aad = abuf(aadlen, aoff), *iv = abuf(12, ivoff);
                                xs_bytes(aadseed, aad, aadlen);
                                xs_bytes(ivseed, iv, 12);
                                int taglen = 8 + 4 * rng_below(&R, 3);
                                uint8_t tag[16], otag[16];
                                memset(cd, 0x3C ^ (uint8_t) done, sizeof(CD));
                                if (gcm_sweep == 2 || (!gcm_sweep && rng_below(&R, 3) == 0)) {
                                        /* one-shot */
                                        uint32_t len = pick_len(&R, maxlen, 1);
                                        if (gcm_sweep == 2) {
                                                /* one-shot counter-carry sweep: block counts 200..530 (the 8-bit counter shortcut of the
                                                   by-8 / by-16 loops wraps inside the message at every possible phase), with and
                                                   without a partial last block */
                                                len = 16 * (200 + sweep_idx % 331) + (rng_below(&R, 2) ? rng_below(&R, 16) : 0);
                                                if (G->nt) len -= len % 64;
                                                sweep_idx++;
                                        }
                                        uint64_t dseed = rng_u64(&R) | 1;
                                        unsigned ioff = G->nt ? 0 : rng_below(&R, 64), ooff = G->nt ? 0 : rng_below(&R, 64);
                                        int inplace = rng_below(&R, 2);
                                        uint8_t *in = abuf_data(len, ioff), *out = inplace ? in : abuf_data(len, ooff);
                                        xs_bytes(dseed, in, len);
                                        uint8_t *ref = malloc(len + 16), *inc = malloc(len + 16);
                                        memcpy(inc, in, len);
                                        GUARD_OP("gcm one-shot"); fprintf(fo, "GO %c %u %llu %llu %u %llu %d\n", dec ? 'd' : 'e', len, (unsigned long long) dseed,
                                                (unsigned long long) ivseed, aadlen, (unsigned long long) aadseed, taglen);
                                        TCALL(dec ? (void *) G->dec[b] : (void *) G->enc[b], A_(kd), A_(cd), A_(out), A_(in), len, A_(iv), A_(aad), aadlen, A_(tag), taglen); SCAN("gcm_oneshot");
                                        fprintf(fr, "out=");
                                        show_out(out, len);
                                        fprintf(fr, " tag=");
                                        hex_out(fr, tag, taglen);
                                        fputc('\n', fr);
                                        ossl_gcm(dec, bits, key, iv, aad, aadlen, inc, len, ref, otag);
                                        if (memcmp(ref, out, len)) monitor("C02-output-differs-from-openssl", len);
                                        if (memcmp(otag, tag, taglen)) monitor("C02-tag-differs-from-openssl", len);
                                        if (!inplace && (guard_mode != 1 && out[len] != 0xEE)) monitor("C08-write-past-output", len);
                                        free(ref); free(inc);
                                        if (!inplace) AFREE(out, ooff);
                                        AFREE(in, ioff);
                                        done++;
                                } else {
                                        /* streaming */
                                        GUARD_OP("gcm init"); fprintf(fo, "GI %llu %u %llu\n", (unsigned long long) ivseed, aadlen, (unsigned long long) aadseed);
                                        TCALL(G->init[b], A_(kd), A_(cd), A_(iv), A_(aad), aadlen); SCAN("gcm_init");
                                        show_ctx(cd);
                                        fputc('\n', fr);
                                        done++;
                                        int nup = gcm_sweep ? 3 : rng_below(&R, 7);
                                        size_t total = 0, cap = 1 << 16;
                                        uint8_t *allin = malloc(cap), *allout = malloc(cap);
                                        for (int u = 0; u < nup; u++) {
                                                int lastp = (u == nup - 1);
                                                uint32_t len = pick_len(&R, maxlen, (G->nt && !lastp) ? 64 : 1);
                                                if (gcm_sweep && u == 0) {
                                                        /* counter-carry sweep: message k has consumed k mod 256 blocks (plus, every
                                                           other round, a carried partial block) when the long update starts */
                                                        len = G->nt ? 64 * (sweep_idx % 64) : 16 * (sweep_idx % 256) + (rng_below(&R, 2) ? rng_below(&R, 16) : 0);
                                                        sweep_idx++;
                                                } else if (gcm_sweep && u == 1) {
                                                        len = 257 + rng_below(&R, 1800);
                                                        if (G->nt) len -= len % 64;
                                                }
                                                uint64_t dseed = rng_u64(&R) | 1;
                                                unsigned ioff = G->nt ? 0 : rng_below(&R, 64), ooff = G->nt ? 0 : rng_below(&R, 64);
                                                int inplace = rng_below(&R, 2);
                                                uint8_t *in = abuf_data(len, ioff), *out = inplace ? in : abuf_data(len, ooff);
                                                xs_bytes(dseed, in, len);
                                                while (total + len > cap) { cap *= 2; allin = realloc(allin, cap); allout = realloc(allout, cap); }
                                                memcpy(allin + total, in, len);
                                                GUARD_OP("gcm update"); fprintf(fo, "GU %c %u %llu\n", dec ? 'd' : 'e', len, (unsigned long long) dseed);
                                                TCALL(dec ? (void *) G->udec[b] : (void *) G->uenc[b], A_(kd), A_(cd), A_(out), A_(in), len); SCAN("gcm_update");
                                                memcpy(allout + total, out, len);
                                                total += len;
                                                fprintf(fr, "out=");
                                                show_out(out, len);
                                                fputc(' ', fr);
                                                show_ctx(cd);
                                                fputc('\n', fr);
                                                if (!inplace && (guard_mode != 1 && out[len] != 0xEE)) monitor("C08-write-past-output", len);
                                                if (!inplace) AFREE(out, ooff);
                                                AFREE(in, ioff);
                                                done++;
                                        }
                                        GUARD_OP("gcm finalize"); fprintf(fo, "GF %d\n", taglen);
                                        TCALL(dec ? (void *) G->fdec[b] : (void *) G->fenc[b], A_(kd), A_(cd), A_(tag), taglen); SCAN("gcm_finalize");
                                        fprintf(fr, "tag=");
                                        hex_out(fr, tag, taglen);
                                        fputc('\n', fr);
                                        done++;
                                        /* C07 monitor: streaming == OpenSSL one-shot on the concatenation */
                                        uint8_t *ref = malloc(total + 16);
                                        ossl_gcm(dec, bits, key, iv, aad, aadlen, allin, total, ref, otag);
                                        if (memcmp(ref, allout, total)) monitor("C07-stream-output-differs-from-oneshot-oracle", (long) total);
                                        if (memcmp(otag, tag, taglen)) monitor("C07-stream-tag-differs-from-oneshot-oracle", (long) total);
                                        free(ref); free(allin); free(allout);
                                }
                                AFREE(aad, aoff);
                                AFREE(iv, ivoff);
                        }
                }
        } else if (!strcmp(what, "xts")) {
                const xtsfam *X;
                for (X = xfams; X->name && strcmp(X->name, fam); X++) ;
                if (!X->name) return 2;
                while (done < nops) {
                        int b = rng_below(&R, 2), dec = rng_below(&R, 2), ex = rng_below(&R, 2);
                        int bits = b ? 256 : 128, n = bits / 8;
                        uint64_t k1s = rng_u64(&R) | 1, k2s = rng_u64(&R) | 1, tws = rng_u64(&R) | 1, ds = rng_u64(&R) | 1;
                        uint32_t len = 16 + pick_len(&R, maxlen, 1);
                        if (rng_below(&R, 12) == 0) len = rng_below(&R, 16); /* below 16: buffers untouched */
                        unsigned o1 = rng_below(&R, 16), o2 = rng_below(&R, 16), o3 = rng_below(&R, 16), oi = rng_below(&R, 64), oo = rng_below(&R, 64);
                        uint8_t *k1 = abuf(32, o1), *k2 = abuf(32, o2), *tw = abuf(16, o3);
                        xs_bytes(k1s, k1, n); xs_bytes(k2s, k2, n); xs_bytes(tws, tw, 16);
                        int inplace = rng_below(&R, 2);
                        uint8_t *in = abuf_data(len, oi), *out = inplace ? in : abuf_data(len, oo);
                        xs_bytes(ds, in, len);
                        uint8_t *inc = malloc(len + 16), *ref = malloc(len + 16);
                        memcpy(inc, in, len);
                        GUARD_OP("xts"); fprintf(fo, "X %c %d %llu %llu %llu %u %llu %d\n", dec ? 'd' : 'e', bits, (unsigned long long) k1s, (unsigned long long) k2s,
                                (unsigned long long) tws, len, (unsigned long long) ds, ex);
                        /* the pre-expanded schedules may sit at any alignment too (aes_xts.h states no requirement) */
                        unsigned xo1 = rng_below(&R, 2) ? rng_below(&R, 16) : 0, xo2 = rng_below(&R, 2) ? rng_below(&R, 16) : 0;
                        uint8_t *e1 = abuf(240, xo1), *d1 = abuf(240, xo1), *e2 = abuf(240, xo2), *d2 = abuf(240, xo2);
                        if (ex) {
                                if (b) { _aes_keyexp_256_sse(k1, e1, d1); _aes_keyexp_256_sse(k2, e2, d2); }
                                else { _aes_keyexp_128_sse(k1, e1, d1); _aes_keyexp_128_sse(k2, e2, d2); }
                                sens_set_xts(k1, k2, n, tw, e1, d1, e2, d2, len); TCALL(X->f[b][dec][1], A_(e2), A_(dec ? d1 : e1), A_(tw), len, A_(in), A_(out)); SCAN("xts_expanded");
                        } else { sens_set_xts(k1, k2, n, tw, NULL, NULL, NULL, NULL, len); TCALL(X->f[b][dec][0], A_(k2), A_(k1), A_(tw), len, A_(in), A_(out)); SCAN("xts_raw"); }
                        if (len < 16) {
                                /* documented: nothing processed; output must be untouched */
                                if (!inplace) { for (uint32_t i = 0; i < len; i++) if (out[i] != 0xEE) { monitor("C03-short-length-output-touched", len); break; } }
                                else if (memcmp(in, inc, len)) monitor("C03-short-length-output-touched", len);
                                fprintf(fr, "out=0:cbf29ce484222325:\n");
                        } else {
                                fprintf(fr, "out=");
                                show_out(out, len);
                                fputc('\n', fr);
                                /* OpenSSL oracle (key = k1 || k2) */
                                uint8_t kk[64];
                                memcpy(kk, k1, n); memcpy(kk + n, k2, n);
                                EVP_CIPHER_CTX *c = EVP_CIPHER_CTX_new();
                                int l;
                                EVP_CipherInit_ex(c, b ? EVP_aes_256_xts() : EVP_aes_128_xts(), NULL, kk, tw, !dec);
                                EVP_CipherUpdate(c, ref, &l, inc, (int) len);
                                EVP_CIPHER_CTX_free(c);
                                if (memcmp(ref, out, len)) monitor("C03-differs-from-openssl", len);
                                if (!inplace && (guard_mode != 1 && out[len] != 0xEE)) monitor("C08-write-past-output", len);
                        }
                        free(inc); free(ref);
                        AFREE(e1, xo1); AFREE(d1, xo1); AFREE(e2, xo2); AFREE(d2, xo2);
                        if (!inplace) AFREE(out, oo);
                        AFREE(in, oi); AFREE(k1, o1); AFREE(k2, o2); AFREE(tw, o3);
                        done++;
                }
        } else if (!strcmp(what, "cbc")) {
                const cbcfam *C;
                for (C = cfams; C->name && strcmp(C->name, fam); C++) ;
                if (!C->name) return 2;
                /* C04 "every multiple of 16": ONE decrypt call of more than 4 GiB whose block count is not a multiple of 8
                   (lengths are 64-bit; 32-bit handling of the length shows only here).  Input and output windows alias
                   2 MiB memfd patterns; OpenSSL (1 GiB pieces, explicit IV chaining) is the oracle: the final contents of
                   the two output windows must agree.  Both tiers (VERIF_CBC_BIG=1). */
                if (getenv("VERIF_CBC_BIG")) {
                        size_t P = 2u << 20;
                        uint64_t biglen = (1ull << 32) + 16 * (1 + rng_below(&R, 7));   /* 2^32 + 1..7 blocks */
                        size_t win = ((size_t) biglen + 2 * P) / P * P;
                        int fi = memfd_create("cin", 0), fo1 = memfd_create("cout1", 0), fo2 = memfd_create("cout2", 0);
                        uint8_t *bi = MAP_FAILED, *bo1 = MAP_FAILED, *bo2 = MAP_FAILED;
                        if (fi >= 0 && fo1 >= 0 && fo2 >= 0 && !ftruncate(fi, P) && !ftruncate(fo1, P) && !ftruncate(fo2, P)) {
                                bi = mmap(NULL, win, PROT_NONE, MAP_PRIVATE | MAP_ANONYMOUS | MAP_NORESERVE, -1, 0);
                                bo1 = mmap(NULL, win, PROT_NONE, MAP_PRIVATE | MAP_ANONYMOUS | MAP_NORESERVE, -1, 0);
                                bo2 = mmap(NULL, win, PROT_NONE, MAP_PRIVATE | MAP_ANONYMOUS | MAP_NORESERVE, -1, 0);
                        }
                        if (bi != MAP_FAILED && bo1 != MAP_FAILED && bo2 != MAP_FAILED) {
                                for (size_t o = 0; o < win; o += P) {
                                        mmap(bi + o, P, PROT_READ | PROT_WRITE, MAP_SHARED | MAP_FIXED, fi, 0);
                                        mmap(bo1 + o, P, PROT_READ | PROT_WRITE, MAP_SHARED | MAP_FIXED, fo1, 0);
                                        mmap(bo2 + o, P, PROT_READ | PROT_WRITE, MAP_SHARED | MAP_FIXED, fo2, 0);
                                }
                                xs_bytes(seed | 5, bi, P);
                                for (int b = 0; b < 3; b++) {
                                        if (!C->dec[b]) continue;
                                        uint8_t key[32], *ek = abuf(240, 0), *dk = abuf(240, 0), *iv = abuf(16, 0);
                                        xs_bytes(seed + 11 + b, key, 32); xs_bytes(seed + 21 + b, iv, 16);
                                        (b == 0 ? _aes_keyexp_128_sse : b == 1 ? _aes_keyexp_192_sse : _aes_keyexp_256_sse)(key, ek, dk);
                                        memset(bo1, 0x11, P); memset(bo2, 0x22, P);
                                        C->dec[b](bi, iv, dk, bo1, biglen);
                                        EVP_CIPHER_CTX *c = EVP_CIPHER_CTX_new();
                                        int l;
                                        EVP_DecryptInit_ex(c, b == 0 ? EVP_aes_128_cbc() : b == 1 ? EVP_aes_192_cbc() : EVP_aes_256_cbc(), NULL, key, iv);
                                        EVP_CIPHER_CTX_set_padding(c, 0);
                                        for (uint64_t o = 0; o < biglen; o += 1u << 30) {
                                                uint64_t n = biglen - o < (1u << 30) ? biglen - o : (1u << 30);
                                                EVP_DecryptUpdate(c, bo2 + o, &l, bi + o, (int) n);
                                        }
                                        EVP_DecryptFinal_ex(c, bo2, &l);
                                        EVP_CIPHER_CTX_free(c);
                                        if (memcmp(bo1, bo2, P)) monitor("C04-big-cbc-dec-differs-from-oracle", (long) (128 + 64 * b));
                                        AFREE(ek, 0); AFREE(dk, 0); AFREE(iv, 0);
                                }
                                munmap(bi, win); munmap(bo1, win); munmap(bo2, win);
                        } else monitor("C04-big-cbc-setup-failed", 0);
                        if (fi >= 0) close(fi);
                        if (fo1 >= 0) close(fo1);
                        if (fo2 >= 0) close(fo2);
                }
                while (done < nops) {
                        int b = rng_below(&R, 3), dec = rng_below(&R, 2);
                        int bits = 128 + 64 * b;
                        uint64_t ks = rng_u64(&R) | 1, ivs = rng_u64(&R) | 1, ds = rng_u64(&R) | 1;
                        uint32_t len = 16 + pick_len(&R, maxlen, 16);
                        if (guard_mode && rng_below(&R, 6) == 0) len = 0; /* C08: zero-length call must touch nothing */
                        uint8_t key[32];
                        xs_bytes(ks, key, bits / 8);
                        uint8_t *ek = abuf(240, 0), *dk = abuf(240, 0), *iv = abuf(16, 0);
                        (b == 0 ? _aes_keyexp_128_sse : b == 1 ? _aes_keyexp_192_sse : _aes_keyexp_256_sse)(key, ek, dk);
                        xs_bytes(ivs, iv, 16);
                        unsigned oi = rng_below(&R, 64), oo = rng_below(&R, 64);
                        int inplace = rng_below(&R, 2);
                        uint8_t *in = abuf_data(len, oi), *out = inplace ? in : abuf_data(len, oo);
                        xs_bytes(ds, in, len);
                        uint8_t *inc = malloc(len + 32), *ref = malloc(len + 32);
                        memcpy(inc, in, len);
                        uint8_t ivc[16];
                        memcpy(ivc, iv, 16);
                        GUARD_OP(len ? "cbc" : "cbc len=0"); fprintf(fo, "C %c %d %llu %llu %u %llu\n", dec ? 'd' : 'e', bits, (unsigned long long) ks, (unsigned long long) ivs, len, (unsigned long long) ds);
                        sens_set_sched(key, bits / 8, ek, dk, 16 * (11 + 2 * b)); TCALL(dec ? (void *) C->dec[b] : (void *) C->enc[b], A_(in), A_(iv), A_(dec ? dk : ek), A_(out), len); SCAN("cbc");
                        fprintf(fr, "out=");
                        show_out(out, len);
                        fputc('\n', fr);
                        EVP_CIPHER_CTX *c = EVP_CIPHER_CTX_new();
                        int l;
                        EVP_CipherInit_ex(c, b == 0 ? EVP_aes_128_cbc() : b == 1 ? EVP_aes_192_cbc() : EVP_aes_256_cbc(), NULL, key, ivc, !dec);
                        EVP_CIPHER_CTX_set_padding(c, 0);
                        EVP_CipherUpdate(c, ref, &l, inc, (int) len);
                        EVP_CIPHER_CTX_free(c);
                        if (memcmp(ref, out, len)) monitor("C04-cbc-differs-from-openssl", len);
                        if (memcmp(iv, ivc, 16)) monitor("C08-iv-modified", len);
                        if (!inplace && (guard_mode != 1 && out[len] != 0xEE)) monitor("C08-write-past-output", len);
                        free(inc); free(ref);
                        if (!inplace) AFREE(out, oo);
                        AFREE(in, oi); AFREE(ek, 0); AFREE(dk, 0); AFREE(iv, 0);
                        done++;
                }
        } else if (!strcmp(what, "keyexp")) {
                const kxfam *K;
                for (K = kfams; K->name && strcmp(K->name, fam); K++) ;
                if (!K->name) return 2;
                while (done < nops) {
                        int b = rng_below(&R, 3);
                        int bits = 128 + 64 * b, nr = 10 + 2 * b;
                        uint64_t ks = rng_u64(&R);
                        if (rng_below(&R, 8) == 0) ks = 0; /* structured keys too */
                        ks |= 1;
                        unsigned ok = rng_below(&R, 16);
                        uint8_t *key = abuf(32, ok), *ek = abuf(240, 0), *dk = abuf(240, 0);
                        xs_bytes(ks, key, bits / 8);
                        GUARD_OP("keyexp"); fprintf(fo, "K %d %llu\n", bits, (unsigned long long) ks);
                        TCALL(K->f[b], A_(key), A_(ek), A_(dk)); sens_set_sched(key, bits / 8, ek, dk, 16 * (nr + 1)); SCAN("keyexp");
                        fprintf(fr, "enc=");
                        show_out(ek, 16 * (nr + 1));
                        fprintf(fr, " dec=");
                        show_out(dk, 16 * (nr + 1));
                        fputc('\n', fr);
                        if (guard_mode != 1 && (ek[16 * (nr + 1)] != 0xEE || dk[16 * (nr + 1)] != 0xEE)) monitor("C08-keyexp-writes-past-schedule", bits);
                        AFREE(key, ok); AFREE(ek, 0); AFREE(dk, 0);
                        done++;
                }
        } else return 2;
        monitor_fail += sens_hits + guard_canary_bad;
        fprintf(fr, "END ops=%ld monitor_fail=%ld tramp_calls=%ld sens_scans=%ld guard=%d\n", done, monitor_fail, tramp_calls, sens_scans, guard_mode);
        fclose(fo);
        fclose(fr);
        return monitor_fail ? 3 : 0;
}
