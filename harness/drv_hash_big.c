/* C15: length accounting across the 2^29 / 2^32 / 2^32+2^29 byte totals.
 *
 * drv_hash_big <alg> <fam> <seed> <mode 0|1|2> <ops_out> <res_out>
 *
 * One context; segments of up to 2^32-1 bytes are taken from a 4 GiB virtual window that aliases
 * one 2 MiB pattern (memfd mapped 2049 times), so every family really executes 2^23..2^27 blocks
 * without the memory.  After every submit the manager is flushed until the context comes back and
 * its state is printed; op lines `SB ctx flags len seed off` let the Lean model reproduce the data
 * (pattern = xs_bytes(seed, 2 MiB), data[i] = pattern[(off+i) mod 2 MiB]).
 * Monitors (model independent): C15-total-length, C01-digest-differs-from-openssl. */
#define _GNU_SOURCE
#include "common.h"
#include <sys/mman.h>
#include <unistd.h>
#include <openssl/evp.h>
#include "sha1_mb.h"
#include "sha256_mb.h"
#include "sha512_mb.h"
#include "md5_mb.h"
#include "sm3_mb.h"

typedef void (*init_fn)(void *);
typedef void *(*submit_fn)(void *, void *, const void *, uint32_t, int);
typedef void *(*flush_fn)(void *);
typedef struct { const char *alg, *fam; init_fn init; submit_fn submit; flush_fn flush; } famdesc;

#define DECL(alg, ALG, fam)                                                                         \
        void _##alg##_ctx_mgr_init_##fam(ISAL_##ALG##_HASH_CTX_MGR *);                              \
        ISAL_##ALG##_HASH_CTX *_##alg##_ctx_mgr_submit_##fam(ISAL_##ALG##_HASH_CTX_MGR *,           \
                                                             ISAL_##ALG##_HASH_CTX *, const void *, \
                                                             uint32_t, ISAL_HASH_CTX_FLAG);         \
        ISAL_##ALG##_HASH_CTX *_##alg##_ctx_mgr_flush_##fam(ISAL_##ALG##_HASH_CTX_MGR *);
#define ENT(alg, ALG, fam)                                                                          \
        { #alg, #fam, (init_fn) _##alg##_ctx_mgr_init_##fam, (submit_fn) _##alg##_ctx_mgr_submit_##fam, \
          (flush_fn) _##alg##_ctx_mgr_flush_##fam },
#define FAMS(X)                                                                                     \
        X(sha1, SHA1, base) X(sha1, SHA1, sse) X(sha1, SHA1, avx) X(sha1, SHA1, avx2)               \
        X(sha1, SHA1, avx512) X(sha1, SHA1, sse_ni) X(sha1, SHA1, avx512_ni)                         \
        X(sha256, SHA256, base) X(sha256, SHA256, sse) X(sha256, SHA256, avx) X(sha256, SHA256, avx2) \
        X(sha256, SHA256, avx512) X(sha256, SHA256, sse_ni) X(sha256, SHA256, avx512_ni)             \
        X(sha512, SHA512, base) X(sha512, SHA512, sse) X(sha512, SHA512, avx) X(sha512, SHA512, avx2) \
        X(sha512, SHA512, avx512) X(sha512, SHA512, sb_sse4)                                         \
        X(md5, MD5, base) X(md5, MD5, sse) X(md5, MD5, avx) X(md5, MD5, avx2) X(md5, MD5, avx512)    \
        X(sm3, SM3, base) X(sm3, SM3, avx2) X(sm3, SM3, avx512)
FAMS(DECL)
static const famdesc fams[] = { FAMS(ENT){ 0, 0, 0, 0, 0 } };

typedef struct {
        const char *alg;
        size_t mgr_size, ctx_size, block, wsize, nwords;
        size_t off_status, off_error, off_total, off_pl, off_digest;
        const char *ossl;
} algdesc;
#define ALGD(alg, ALG, W, ossl)                                                                     \
        { #alg, sizeof(ISAL_##ALG##_HASH_CTX_MGR), sizeof(ISAL_##ALG##_HASH_CTX), ISAL_##ALG##_BLOCK_SIZE, \
          W, ISAL_##ALG##_DIGEST_NWORDS, offsetof(ISAL_##ALG##_HASH_CTX, status),                    \
          offsetof(ISAL_##ALG##_HASH_CTX, error), offsetof(ISAL_##ALG##_HASH_CTX, total_length),     \
          offsetof(ISAL_##ALG##_HASH_CTX, partial_block_buffer_length),                              \
          offsetof(ISAL_##ALG##_HASH_CTX, job.result_digest), ossl },
static const algdesc algs[] = { ALGD(sha1, SHA1, 4, "SHA1") ALGD(sha256, SHA256, 4, "SHA256")
                                        ALGD(sha512, SHA512, 8, "SHA512") ALGD(md5, MD5, 4, "MD5")
                                                ALGD(sm3, SM3, 4, "SM3"){ 0 } };
#define FLD32(p, off) (*(uint32_t *) ((p) + (off)))
#define FLD64(p, off) (*(uint64_t *) ((p) + (off)))
#define PAT (2u << 20)

int main(int argc, char **argv)
{
        if (argc < 7) return 2;
        const algdesc *A;
        const famdesc *F;
        for (A = algs; A->alg && strcmp(A->alg, argv[1]); A++) ;
        for (F = fams; F->alg && (strcmp(F->alg, argv[1]) || strcmp(F->fam, argv[2])); F++) ;
        uint64_t seed = strtoull(argv[3], 0, 0);
        int mode = atoi(argv[4]);
        FILE *fo = fopen(argv[5], "w"), *fr = fopen(argv[6], "w");
        if (!A->alg || !F->alg || !fo || !fr) return 2;
        rng_t R;
        rng_seed(&R, seed);
        long fail = 0;

        /* 4 GiB + 2 MiB window aliasing one 2 MiB pattern */
        int fd = memfd_create("pat", 0);
        if (fd < 0 || ftruncate(fd, PAT)) return 2;
        size_t win = (4ull << 30) + 2 * (size_t) PAT;
        uint8_t *base = mmap(NULL, win, PROT_NONE, MAP_PRIVATE | MAP_ANONYMOUS | MAP_NORESERVE, -1, 0);
        if (base == MAP_FAILED) return 2;
        for (size_t o = 0; o < win; o += PAT)
                if (mmap(base + o, PAT, PROT_READ | PROT_WRITE, MAP_SHARED | MAP_FIXED, fd, 0) == MAP_FAILED) return 2;
        uint64_t pseed = rng_u64(&R) | 1;
        xs_bytes(pseed, base, PAT);

        uint8_t *mgr, *ctx;
        if (posix_memalign((void **) &mgr, 64, A->mgr_size) || posix_memalign((void **) &ctx, 64, A->ctx_size)) return 2;
        memset(mgr, 0x5a, A->mgr_size);
        memset(ctx, 0xa5, A->ctx_size);
        F->init(mgr);
        FLD32(ctx, A->off_error) = 0;
        FLD32(ctx, A->off_status) = ISAL_HASH_CTX_STS_COMPLETE;

        uint64_t T = mode == 0 ? (1ull << 29) : mode == 1 ? (1ull << 32) : (1ull << 32) + (1ull << 29);
        uint64_t B = A->block;
        /* segment plan: small FIRST, big UPDATEs up to just below T, a short UPDATE that crosses T at a
           random residue, a medium UPDATE, LAST */
        uint64_t segs[16];
        int flags[16], n = 0;
        uint64_t sofar = 0;
        segs[n] = 1 + rng_below(&R, 1 << 20); flags[n++] = ISAL_HASH_FIRST; sofar += segs[0];
        uint64_t below = T - 1 - rng_below(&R, (uint32_t) (3 * B));
        while (sofar < below) {
                uint64_t want = below - sofar;
                uint64_t mx = 0xffffffffull - rng_below(&R, 1000);
                if (want > mx) want = (mx / 2) + rng_below(&R, (uint32_t) (mx / 2));
                segs[n] = want; flags[n++] = ISAL_HASH_UPDATE; sofar += want;
        }
        segs[n] = 2 + rng_below(&R, (uint32_t) (4 * B)); flags[n++] = ISAL_HASH_UPDATE; sofar += segs[n - 1];
        segs[n] = rng_below(&R, 1 << 22); flags[n++] = ISAL_HASH_UPDATE; sofar += segs[n - 1];
        segs[n] = rng_below(&R, (uint32_t) (3 * B)); flags[n++] = ISAL_HASH_LAST; sofar += segs[n - 1];

        OpenSSL_add_all_digests();
        const EVP_MD *md = EVP_get_digestbyname(A->ossl);
        EVP_MD_CTX *e = EVP_MD_CTX_new();
        EVP_DigestInit_ex(e, md, NULL);
        fprintf(fo, "E %s %s 1\n", argv[1], argv[2]);
        fprintf(fr, "E\n");
        uint64_t sum = 0;
        for (int i = 0; i < n; i++) {
                uint32_t off = rng_below(&R, PAT);
                uint8_t *data = base + off;
                uint32_t len = (uint32_t) segs[i];
                fprintf(fo, "SB 0 %d %u %llu %u\n", flags[i], len, (unsigned long long) pseed, off);
                void *ret = F->submit(mgr, ctx, data, len, flags[i]);
                int spins = 0;
                while (ret != ctx && spins++ < 100) ret = F->flush(mgr);
                if (ret != ctx) { fprintf(fr, "MONITOR C06-context-never-returned ctx=0\n"); fail++; break; }
                sum += len;
                EVP_DigestUpdate(e, data, len);
                fprintf(fr, "r=0 st=%u err=%d tot=%llu pl=%u dig=", FLD32(ctx, A->off_status), (int) FLD32(ctx, A->off_error),
                        (unsigned long long) FLD64(ctx, A->off_total), FLD32(ctx, A->off_pl));
                for (size_t w = 0; w < A->nwords; w++) {
                        if (A->wsize == 4) fprintf(fr, "%s%08x", w ? "," : "", *(uint32_t *) (ctx + A->off_digest + 4 * w));
                        else fprintf(fr, "%s%016llx", w ? "," : "", (unsigned long long) *(uint64_t *) (ctx + A->off_digest + 8 * w));
                }
                fputc('\n', fr);
                if (FLD64(ctx, A->off_total) != sum) { fprintf(fr, "MONITOR C15-total-length ctx=0\n"); fail++; }
        }
        uint8_t want[64], got[64];
        unsigned int mdlen = 0;
        EVP_DigestFinal_ex(e, want, &mdlen);
        for (size_t w = 0; w < A->nwords; w++) {
                if (A->wsize == 8) {
                        uint64_t v = *(uint64_t *) (ctx + A->off_digest + 8 * w);
                        for (int b = 0; b < 8; b++) got[8 * w + b] = (uint8_t) (v >> (56 - 8 * b));
                } else {
                        uint32_t v = *(uint32_t *) (ctx + A->off_digest + 4 * w);
                        if (!strcmp(A->alg, "md5") || !strcmp(A->alg, "sm3")) memcpy(got + 4 * w, &v, 4);
                        else for (int b = 0; b < 4; b++) got[4 * w + b] = (uint8_t) (v >> (24 - 8 * b));
                }
        }
        if (memcmp(want, got, mdlen)) { fprintf(fr, "MONITOR C01-digest-differs-from-openssl ctx=0\n"); fail++; }
        fprintf(fr, "END ops=%d total=%llu monitor_fail=%ld\n", n, (unsigned long long) sum, fail);
        fclose(fo);
        fclose(fr);
        return fail ? 3 : 0;
}
