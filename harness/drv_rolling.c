/* Correspondence + monitor driver for the rolling hash (property C09).
 *
 *   drv_rolling <impl> <seed> <nops> <maxlen> <ops_out> <res_out> [big=1]   impl = base | 00 | 04 | pub
 *
 * Generates an operation history from one PRNG, executes it on the library built from the current
 * tree, writes the operation lines (input of the Lean driver `rh_model`) to <ops_out> and one
 * canonical result line per operation to <res_out> (same format as `rh_model` prints).
 *
 * How the inner scan is selected.  `_rolling_hash2_run` (rolling_hash2.c) reaches the scan through
 * the symbol `_rolling_hash2_run_until`, whose dispatch cell is private to
 * rolling_hash2_multibinary.asm and cannot be written from outside.  Instead of copying the glue,
 * this driver is linked with
 *
 *       -Wl,--wrap=_rolling_hash2_run_until
 *
 * so the library's own *compiled* glue calls `__wrap__rolling_hash2_run_until` below, which
 * forwards to the selected scan: `_rolling_hash2_run_until_base`, `_00`, `_04` (all three link from
 * the static archive) or, for impl = pub, `__real__rolling_hash2_run_until`, i.e. the library's
 * cpuid dispatcher untouched.  Everything else is the public API (`isal_rolling_hash2_*`).
 *
 * Monitors (stdout, lines starting with "MONITOR"), independent of the Lean model:
 *   C09-offset-beyond-max-len     a run call returned *offset > max_len
 *   C09-scan-disagrees-with-base  the same call on a copy of the state, with the base scan, gave a
 *                                 different (ret, offset, hash, history)
 *   C09-large-len-*               (only with big=1) one extra call with max_len >= 2^31, see big_op()
 * After a monitor fires the state is replaced by the base scan's state so that the following
 * operations are again comparable one by one with the model.  At the end the smallest failing
 * operation (by max_len, then window) is repeated as "MONITOR <id> MINIMAL ..." and a SUMMARY line
 * gives the hit rate.
 */
#define _GNU_SOURCE
#include "common.h"
#include "guard.h"
#include <sys/mman.h>
#include <unistd.h>
#include "rolling_hashx.h"

typedef uint64_t (*scan_fn)(uint32_t *idx, int max_idx, uint64_t *t1, uint64_t *t2, uint8_t *b1,
                            uint8_t *b2, uint64_t h, uint64_t mask, uint64_t trigger);

uint64_t _rolling_hash2_run_until_base(uint32_t *, int, uint64_t *, uint64_t *, uint8_t *, uint8_t *,
                                       uint64_t, uint64_t, uint64_t);
uint64_t _rolling_hash2_run_until_00(uint32_t *, int, uint64_t *, uint64_t *, uint8_t *, uint8_t *,
                                     uint64_t, uint64_t, uint64_t);
uint64_t _rolling_hash2_run_until_04(uint32_t *, int, uint64_t *, uint64_t *, uint8_t *, uint8_t *,
                                     uint64_t, uint64_t, uint64_t);
uint64_t __real__rolling_hash2_run_until(uint32_t *, int, uint64_t *, uint64_t *, uint8_t *,
                                         uint8_t *, uint64_t, uint64_t, uint64_t);

static scan_fn cur_scan;

/* every call of `_rolling_hash2_run_until` made by the library lands here */
uint64_t
__wrap__rolling_hash2_run_until(uint32_t *idx, int max_idx, uint64_t *t1, uint64_t *t2, uint8_t *b1,
                                uint8_t *b2, uint64_t h, uint64_t mask, uint64_t trigger)
{
        return cur_scan(idx, max_idx, t1, t2, b1, b2, h, mask, trigger);
}

/* ------------------------------------------------------------------ generators */

static uint32_t
pick_window(rng_t *r)
{
        static const uint32_t edge[] = { 1, 2, 3, 47, 48 };
        if (rng_below(r, 4) == 0)
                return edge[rng_below(r, 5)];
        return 1 + rng_below(r, ISAL_FINGERPRINT_MAX_WINDOW);
}

static uint32_t
pick_bad_window(rng_t *r)
{
        switch (rng_below(r, 5)) {
        case 0:
                return 0; /* accepted by the library (candidate F15), rc = 0 */
        case 1:
                return 49;
        case 2:
                return 50 + rng_below(r, 1000);
        case 3:
                return 0xffffffffu;
        default:
                return 0x80000000u + rng_below(r, 1000);
        }
}

/* max_len clustered around the window size, as the property's quantifier asks */
static uint32_t
pick_len(rng_t *r, uint32_t w, uint32_t maxlen)
{
        uint32_t l;
        switch (rng_below(r, 12)) {
        case 0:
                l = 0;
                break;
        case 1:
                l = 1;
                break;
        case 2:
                l = w - 1;
                break;
        case 3:
                l = w;
                break;
        case 4:
                l = w + 1;
                break;
        case 5:
                l = 2 * w;
                break;
        case 6:
                l = 2 * w + 1;
                break;
        case 7:
                l = w + 2;
                break;
        case 8:
                l = rng_below(r, 2 * w + 4);
                break;
        default:
                l = rng_below(r, maxlen + 1);
                break;
        }
        return l > maxlen ? maxlen : l;
}

static uint32_t
pick_mean(rng_t *r)
{
        uint32_t k = rng_below(r, 32);
        switch (rng_below(r, 6)) {
        case 0:
                return rng_below(r, 6); /* 0..5: the `mean <= 2` clamp */
        case 1:
                return 1u << k;
        case 2:
                return (1u << k) + 1;
        case 3:
                return (1u << k) - 1;
        case 4:
                return (uint32_t) rng_u64(r);
        default:
                return rng_below(r, 100000);
        }
}

/* masks with few bits, so that hits are frequent: from mask_gen (small mean, any rotation),
 * random sparse masks, and now and then mask 0 (every position hits) */
static uint32_t
pick_mask(rng_t *r)
{
        uint32_t m = 0;
        uint32_t c = rng_below(r, 20);
        if (c == 0)
                return 0;
        if (c < 10) {
                isal_rolling_hashx_mask_gen(2u << rng_below(r, 10), 1 + rng_below(r, 31), &m);
                return m;
        }
        for (uint32_t n = 1 + rng_below(r, 10); n; n--)
                m |= 1u << rng_below(r, 32);
        return m;
}

/* ------------------------------------------------------------------ bookkeeping */

typedef struct {
        int set;
        uint32_t w, len, mask, trig, off, boff;
        int ret, bret;
        uint64_t dseed, h0;
        uint8_t hist0[ISAL_FINGERPRINT_MAX_WINDOW], hist1[ISAL_FINGERPRINT_MAX_WINDOW];
} failrec;

static void
print_fail(const char *id, const char *tag, const char *impl, const failrec *f)
{
        printf("MONITOR %s%s impl=%s w=%u hash_before=%016llx hist_before=", id, tag, impl, f->w,
               (unsigned long long) f->h0);
        hex_out(stdout, f->hist0, f->w);
        printf(" op=\"N %u %llu %u %u\" got ret=%d off=%u base ret=%d off=%u hist_after=", f->len,
               (unsigned long long) f->dseed, f->mask, f->trig, f->ret, f->off, f->bret, f->boff);
        hex_out(stdout, f->hist1, f->w);
        /* the bytes after the caller's data are 0xa5: seeing one in the history is a 1-byte over-read */
        printf("%s\n", f->off > f->len && f->hist1[f->w - 1] == 0xA5 ? " (last byte read past max_len)" : "");
}

static void
keep_min(failrec *min, const failrec *f)
{
        if (!min->set || f->len < min->len || (f->len == min->len && f->w < min->w))
                *min = *f, min->set = 1;
}

/* ------------------------------------------------------------------ max_len >= 2^31

 * One call over more than 2 GiB, checked by monitors only (the model cannot expand the data).
 * The data is a 3 GiB virtual window that aliases one 2 MiB pattern (a memfd mapped 1536 times
 * over a PROT_NONE reservation), so data[i] = pattern[(off + i) mod 2 MiB].  Because the window is
 * at most 48 bytes, the hash at position p >= w depends on p mod 2 MiB only: a trigger that does not
 * hit anywhere in the first 4 MiB (found with the base scan, mask = 0xffffffff) cannot hit later.
 * Expected therefore: MAX, *offset == max_len, and state = what reset() computes from the last w
 * bytes (hash and history).  Before commit 4824648 the base scan returned offset == w here (F4). */
#define PAT (2u << 20)
#define BIGWIN (3ull << 30)

static uint8_t *
big_window(uint64_t seed)
{
        int fd = memfd_create("rh_pattern", 0);
        if (fd < 0 || ftruncate(fd, PAT))
                return NULL;
        uint8_t *p = mmap(NULL, PAT, PROT_READ | PROT_WRITE, MAP_SHARED, fd, 0);
        if (p == MAP_FAILED)
                return NULL;
        xs_bytes(seed, p, PAT);
        munmap(p, PAT);
        uint8_t *base = mmap(NULL, BIGWIN, PROT_NONE, MAP_PRIVATE | MAP_ANONYMOUS | MAP_NORESERVE, -1, 0);
        if (base == MAP_FAILED)
                return NULL;
        for (uint64_t o = 0; o < BIGWIN; o += PAT)
                if (mmap(base + o, PAT, PROT_READ, MAP_SHARED | MAP_FIXED, fd, 0) == MAP_FAILED)
                        return NULL;
        close(fd);
        return base;
}

/* returns the number of failed checks; prints one BIG line (compared across impls by the caller) */
static long
big_op(const char *impl, scan_fn sel_scan, rng_t *r, struct isal_rh_state2 *st, struct isal_rh_state2 *ref)
{
        long fail = 0;
        uint64_t pseed = rng_u64(r) >> 1;
        uint8_t *base = big_window(pseed);
        if (!base) {
                printf("MONITOR C09-large-len-setup-failed impl=%s (memfd/mmap)\n", impl);
                return 1;
        }
        uint32_t w = pick_window(r);
        uint64_t iseed = rng_u64(r) >> 1;
        uint8_t initb[ISAL_FINGERPRINT_MAX_WINDOW];
        xs_bytes(iseed, initb, w);
        uint8_t *buf = base + rng_below(r, PAT);
        static const uint32_t lens[] = { 0x80000000u, 0x80000001u, 0x80000002u };
        uint32_t c = rng_below(r, 5);
        uint32_t len = c < 3 ? lens[c] : 0x80000000u + rng_below(r, 1u << 20);
        uint32_t mask = 0xffffffffu, trig, off = 0xdeadbeef;
        int ret = -1;

        for (;;) { /* a trigger without a hit in the first two periods, hence without any hit */
                trig = (uint32_t) rng_u64(r);
                isal_rolling_hash2_init(st, w);
                isal_rolling_hash2_reset(st, initb);
                cur_scan = _rolling_hash2_run_until_base;
                isal_rolling_hash2_run(st, buf, 2 * PAT + 64, mask, trig, &off, &ret);
                if (ret == ISAL_FINGERPRINT_RET_MAX && off == 2 * PAT + 64)
                        break;
        }
        isal_rolling_hash2_init(st, w);
        isal_rolling_hash2_reset(st, initb);
        off = 0xdeadbeef, ret = -1;
        cur_scan = sel_scan;
        isal_rolling_hash2_run(st, buf, len, mask, trig, &off, &ret);

        isal_rolling_hash2_init(ref, w); /* expected final state: the last w bytes, by reset() */
        isal_rolling_hash2_reset(ref, buf + len - w);

        printf("BIG impl=%s w=%u patseed=%llu patoff=%llu initseed=%llu len=%u mask=%u trig=%u ret=%d off=%u "
               "h=%016llx\n",
               impl, w, (unsigned long long) pseed, (unsigned long long) (buf - base),
               (unsigned long long) iseed, len, mask, trig, ret, off, (unsigned long long) st->hash);
        if (ret != ISAL_FINGERPRINT_RET_MAX || off != len) {
                printf("MONITOR C09-large-len-offset impl=%s w=%u len=%u: expected ret=1 off=%u, got ret=%d off=%u\n",
                       impl, w, len, len, ret, off);
                fail++;
        }
        if (st->hash != ref->hash || memcmp(st->history, buf + len - w, w)) {
                printf("MONITOR C09-large-len-state impl=%s w=%u len=%u: hash %016llx expected %016llx, history %s\n",
                       impl, w, len, (unsigned long long) st->hash, (unsigned long long) ref->hash,
                       memcmp(st->history, buf + len - w, w) ? "differs from the last w bytes" : "ok");
                fail++;
        }
        munmap(base, BIGWIN);
        return fail;
}

#define SLACK 64 /* readable canary bytes after the data: an over-read is observed, not fatal */

int
main(int argc, char **argv)
{
        if (argc != 7 && argc != 8) {
                fprintf(stderr, "usage: drv_rolling <base|00|04|pub> <seed> <nops> <maxlen> <ops_out> "
                                "<res_out> [big=1]\n");
                return 2;
        }
        const char *impl = argv[1];
        uint64_t seed = strtoull(argv[2], 0, 0);
        long nops = atol(argv[3]);
        uint32_t maxlen = (uint32_t) strtoul(argv[4], 0, 0);
        FILE *ops = fopen(argv[5], "w"), *res = fopen(argv[6], "w");
        guard_setup();
        guard_out = res;
        if (!ops || !res) {
                perror("open");
                return 2;
        }
        if (!strcmp(impl, "base"))
                cur_scan = _rolling_hash2_run_until_base;
        else if (!strcmp(impl, "00"))
                cur_scan = _rolling_hash2_run_until_00;
        else if (!strcmp(impl, "04"))
                cur_scan = _rolling_hash2_run_until_04;
        else if (!strcmp(impl, "pub"))
                cur_scan = __real__rolling_hash2_run_until;
        else {
                fprintf(stderr, "unknown impl %s\n", impl);
                return 2;
        }
        const scan_fn sel_scan = cur_scan;

        struct isal_rh_state2 *st, *ref;
        if (posix_memalign((void **) &st, 64, sizeof *st) || posix_memalign((void **) &ref, 64, sizeof *ref))
                return 2;
        memset(st, 0, sizeof *st);
        {       /* C20 paired executions: junk in the state object before init (init/reset must define all they use) */
                const char *pz = getenv("VERIF_POISON");
                if (pz && atoi(pz))
                        memset(st, 0x35 * atoi(pz) + 0x11, sizeof *st);
        }
        uint8_t *buf = malloc((size_t) maxlen + SLACK + ISAL_FINGERPRINT_MAX_WINDOW);
        uint8_t initb[ISAL_FINGERPRINT_MAX_WINDOW];

        rng_t r;
        rng_seed(&r, seed);
        long nrun = 0, nhit = 0, nbeyond = 0, ndis = 0, nbytes = 0;
        failrec min_beyond = { 0 }, min_dis = { 0 };

        fprintf(ops, "E rh %s\n", impl);
        fprintf(res, "E\n");
        int need_init = 1;
        uint8_t *const buf_home = buf;
        arena_setup();
        for (long n = 0; n < nops; n++) {
                if (buf != buf_home) { arena_release(); buf = buf_home; }    /* the previous op used an arena buffer */
                uint32_t c = need_init ? 5 : rng_below(&r, 100);
                if (c < 4) { /* invalid window: only the return code; followed by a valid init */
                        uint32_t w = pick_bad_window(&r);
                        int rc = isal_rolling_hash2_init(st, w);
                        fprintf(ops, "I %u\n", w);
                        fprintf(res, "rc=%d\n", rc);
                        need_init = 1;
                } else if (c < 10 || need_init) { /* (re)initialise with a valid window and reset */
                        uint32_t w = pick_window(&r);
                        int rc = isal_rolling_hash2_init(st, w);
                        fprintf(ops, "I %u\n", w);
                        fprintf(res, "rc=%d\n", rc);
                        uint64_t ds = rng_u64(&r) >> 1;
                        xs_bytes(ds, initb, w);
                        isal_rolling_hash2_reset(st, initb);
                        fprintf(ops, "R %llu\n", (unsigned long long) ds);
                        fprintf(res, "h=%016llx\n", (unsigned long long) st->hash);
                        need_init = 0;
                } else if (c < 13) { /* reset alone */
                        uint64_t ds = rng_u64(&r) >> 1;
                        xs_bytes(ds, initb, st->w);
                        isal_rolling_hash2_reset(st, initb);
                        fprintf(ops, "R %llu\n", (unsigned long long) ds);
                        fprintf(res, "h=%016llx\n", (unsigned long long) st->hash);
                } else if (c < 17) { /* mask_gen */
                        uint32_t mean = pick_mean(&r), shift = rng_below(&r, 32), m = 0;
                        isal_rolling_hashx_mask_gen(mean, shift, &m);
                        fprintf(ops, "M %u %u\n", mean, shift);
                        fprintf(res, "mask=%u\n", m);
                } else { /* run */
                        uint32_t w = st->w;
                        uint32_t len = pick_len(&r, w, maxlen);
                        uint64_t ds = rng_u64(&r) >> 1;
                        uint32_t mask = pick_mask(&r);
                        uint32_t trig = (uint32_t) rng_u64(&r) & mask;
                        if (rng_below(&r, 6) == 0) {      /* one scan in six over a buffer that straddles a 4 GiB boundary */
                                uint8_t *sb = arena_straddle(&r, (size_t) len + SLACK, 1);
                                if (sb) buf = sb;
                        }
                        xs_bytes(ds, buf, len);
                        memset(buf + len, 0xA5, SLACK);

                        failrec f = { 0 };
                        f.w = w, f.len = len, f.mask = mask, f.trig = trig, f.dseed = ds, f.h0 = st->hash;
                        memcpy(f.hist0, st->history, w);

                        memcpy(ref, st, sizeof *st);
                        uint32_t off = 0xdeadbeef, boff = 0xdeadbeef;
                        int ret = -1, bret = -1;
                        cur_scan = sel_scan;
                        if (guard_mode) {       /* C08: the scanned bytes end (mode 1) / begin (mode 2) at an unmapped page */
                                uint8_t *gb = guard_alloc_al(len ? len : 1, 0);
                                memcpy(gb, buf, len);
                                guard_op = "run";
                                guard_opno = nrun;
                                isal_rolling_hash2_run(st, gb, len, mask, trig, &off, &ret);
                                guard_free(gb);
                        } else
                                isal_rolling_hash2_run(st, buf, len, mask, trig, &off, &ret);
                        cur_scan = _rolling_hash2_run_until_base;
                        isal_rolling_hash2_run(ref, buf, len, mask, trig, &boff, &bret);
                        cur_scan = sel_scan;

                        fprintf(ops, "N %u %llu %u %u\n", len, (unsigned long long) ds, mask, trig);
                        fprintf(res, "ret=%d off=%u h=%016llx hist=", ret, off, (unsigned long long) st->hash);
                        hex_out(res, st->history, w);
                        fputc('\n', res);

                        nrun++, nbytes += off <= len ? off : len;
                        if (ret == ISAL_FINGERPRINT_RET_HIT)
                                nhit++;
                        f.ret = ret, f.off = off, f.bret = bret, f.boff = boff;
                        memcpy(f.hist1, st->history, w);
                        int bad = 0;
                        if (off > len) {
                                print_fail("C09-offset-beyond-max-len", "", impl, &f);
                                keep_min(&min_beyond, &f);
                                nbeyond++, bad = 1;
                        }
                        if (ret != bret || off != boff || st->hash != ref->hash ||
                            memcmp(st->history, ref->history, w)) {
                                print_fail("C09-scan-disagrees-with-base", "", impl, &f);
                                keep_min(&min_dis, &f);
                                ndis++, bad = 1;
                        }
                        if (bad) /* resynchronise on the reference so that later ops stay comparable */
                                memcpy(st, ref, sizeof *st);
                }
        }
        long nbig = 0, nbigfail = 0;
        if (argc == 8 && !strcmp(argv[7], "big=1")) { /* after the history: same choices for every impl */
                nbig = 1;
                nbigfail = big_op(impl, sel_scan, &r, st, ref);
        }
        if (min_beyond.set)
                print_fail("C09-offset-beyond-max-len", " MINIMAL", impl, &min_beyond);
        if (min_dis.set)
                print_fail("C09-scan-disagrees-with-base", " MINIMAL", impl, &min_dis);
        printf("SUMMARY impl=%s seed=%llu ops=%ld runs=%ld hits=%ld hit_rate=%.3f bytes=%ld "
               "offset_beyond_max_len=%ld scan_disagrees=%ld large_len_ops=%ld large_len_failures=%ld\n",
               impl, (unsigned long long) seed, nops, nrun, nhit, nrun ? (double) nhit / nrun : 0.0, nbytes,
               nbeyond, ndis, nbig, nbigfail);
        fclose(ops);
        fclose(res);
        return 0;
}
