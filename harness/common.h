/* shared by all correspondence drivers: PRNG, data expansion, guard pages */
#ifndef VERIF_COMMON_H
#define VERIF_COMMON_H
#include <stdint.h>
#include <stdio.h>
#include <stdlib.h>
#include <string.h>

/* xorshift64*: the SAME generator as IsalVerif.xsBytes in lean/IsalVerif/Spec/Bits.lean */
static inline uint64_t xs_next(uint64_t *s)
{
        uint64_t x = *s;
        x ^= x >> 12;
        x ^= x << 25;
        x ^= x >> 27;
        *s = x;
        return x * 0x2545F4914F6CDD1DULL;
}
static inline void xs_bytes(uint64_t seed, uint8_t *out, size_t n)
{
        uint64_t s = seed ? seed : 0x9E3779B97F4A7C15ULL;
        for (size_t i = 0; i < n; i++)
                out[i] = (uint8_t) (xs_next(&s) >> 56);
}

/* harness-side PRNG (op generation); every choice derives from one state */
typedef struct { uint64_t s; } rng_t;
static inline uint64_t rng_u64(rng_t *r) { return xs_next(&r->s); }
static inline uint32_t rng_below(rng_t *r, uint32_t n) { return n ? (uint32_t) ((rng_u64(r) >> 16) % n) : 0; }
static inline void rng_seed(rng_t *r, uint64_t seed)
{
        r->s = seed * 0x9E3779B97F4A7C15ULL + 0x1234567ULL;
        if (!r->s) r->s = 1;
        for (int i = 0; i < 8; i++) rng_u64(r);
}

static inline void hex_out(FILE *f, const uint8_t *p, size_t n)
{
        static const char d[] = "0123456789abcdef";
        for (size_t i = 0; i < n; i++) { fputc(d[p[i] >> 4], f); fputc(d[p[i] & 15], f); }
}
#endif
