/* shared by all correspondence drivers: PRNG, data expansion, guard pages */
#ifndef VERIF_COMMON_H
#define VERIF_COMMON_H
#include <stdint.h>
#include <stdio.h>
#include <stdlib.h>
#include <string.h>

/* xorshift64*: the SAME generator as IsalVerif.xsBytes in lean/IsalVerif/Spec/Bits.lean */
static inline uint64_t xs_next(uint64_t *s)
{
        uint64_t x = *s;
        x ^= x >> 12;
        x ^= x << 25;
        x ^= x >> 27;
        *s = x;
        return x * 0x2545F4914F6CDD1DULL;
}
static inline void xs_bytes(uint64_t seed, uint8_t *out, size_t n)
{
        uint64_t s = seed ? seed : 0x9E3779B97F4A7C15ULL;
        for (size_t i = 0; i < n; i++)
                out[i] = (uint8_t) (xs_next(&s) >> 56);
}

/* harness-side PRNG (op generation); every choice derives from one state */
typedef struct { uint64_t s; } rng_t;
static inline uint64_t rng_u64(rng_t *r) { return xs_next(&r->s); }
static inline uint32_t rng_below(rng_t *r, uint32_t n) { return n ? (uint32_t) ((rng_u64(r) >> 16) % n) : 0; }
static inline void rng_seed(rng_t *r, uint64_t seed)
{
        r->s = seed * 0x9E3779B97F4A7C15ULL + 0x1234567ULL;
        if (!r->s) r->s = 1;
        for (int i = 0; i < 8; i++) rng_u64(r);
}

static inline void hex_out(FILE *f, const uint8_t *p, size_t n)
{
        static const char d[] = "0123456789abcdef";
        for (size_t i = 0; i < n; i++) { fputc(d[p[i] >> 4], f); fputc(d[p[i] & 15], f); }
}

/* ---- address-space placement: an arena around a 4 GiB boundary --------------------------------------------
   arena_mid has all-zero low 32 address bits.  A harness may put one object exactly there, and now and then one
   data buffer so that it straddles the boundary: code that handles pointers or pointer differences in 32 bits
   (cmp dword on a pointer, add r32) then shows as a wrong result or a fault. */
#include <sys/mman.h>
#define ARENA_HALF (8u << 20)
static uint8_t *arena_mid;
static int arena_busy;
static long arena_uses;
static inline void arena_setup(void)
{
        for (uint64_t k = 0x10; k < 0x4000 && !arena_mid; k += 0x3d) {
                uint8_t *want = (uint8_t *) ((k << 32) - ARENA_HALF);
                void *p = mmap(want, 2 * (size_t) ARENA_HALF, PROT_READ | PROT_WRITE, MAP_PRIVATE | MAP_ANONYMOUS | MAP_FIXED_NOREPLACE, -1, 0);
                if (p == (void *) want) arena_mid = want + ARENA_HALF;
                else if (p != MAP_FAILED) munmap(p, 2 * (size_t) ARENA_HALF);
        }
}
static inline int arena_owns(const void *p)
{
        return arena_mid && (const uint8_t *) p >= arena_mid - ARENA_HALF && (const uint8_t *) p < arena_mid + ARENA_HALF;
}
/* a buffer of n bytes (n >= 2) straddling the boundary, its start aligned to `al` (power of two); NULL if unavailable */
static inline uint8_t *arena_straddle(rng_t *r, size_t n, size_t al)
{
        if (!arena_mid || arena_busy || n < 2 || n + 4096 > ARENA_HALF) return NULL;
        size_t back = 1 + rng_below(r, (uint32_t) (n - 1));
        uint8_t *p = arena_mid - back;
        p = (uint8_t *) ((uintptr_t) p & ~(uintptr_t) (al - 1));
        if (p >= arena_mid || p + n <= arena_mid) return NULL;
        arena_busy = 1;
        arena_uses++;
        return p;
}
static inline void arena_release(void) { arena_busy = 0; }

#endif
