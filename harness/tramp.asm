; Call trampoline for C14 (capture after return) and C20 (poison before call).
;
;   uint64_t verif_tramp(void *fn, const uint64_t *args, uint64_t nargs, const uint8_t *poison, uint8_t *capture);
;
; args[0..nargs) are integer/pointer arguments (first six in rdi,rsi,rdx,rcx,r8,r9, the rest on the
; stack). Before the call (if poison != NULL): zmm0-31, k1-k7, the caller-saved GPRs that carry no
; argument (rax, r10, r11 and the unused ones of rcx,rdx,rsi,rdi,r8,r9), the arithmetic flags and the
; 64 KiB below the callee's frame are filled from the 4 KiB `poison` pattern. After the return (if
; capture != NULL): zmm0-31 (2048 B), k0-k7 (64 B) and the 64 KiB below the stack pointer at the call
; (65536 B) are copied to `capture` (total 2112 + 65536 bytes), before anything else touches them.
; Requires AVX-512 (this host has it; the library's own families are not constrained by this).
default rel
section .text
global verif_tramp
%define DEAD 65536
verif_tramp:
	push	rbx
	push	rbp
	push	r12
	push	r13
	push	r14
	push	r15
	mov	rbp, rsp
	mov	r12, rdi		; fn
	mov	r13, rsi		; args
	mov	r14, rdx		; nargs
	mov	r15, rcx		; poison
	mov	rbx, r8			; capture
	; stack args (7th..): reserve, keep rsp 16-aligned at the call
	xor	rax, rax
	cmp	r14, 6
	jbe	.nostack
	lea	rax, [r14 - 6]
.nostack:
	mov	rcx, rax
	add	rcx, 1
	and	rcx, -2			; even number of qwords
	shl	rcx, 3
	sub	rsp, rcx
	and	rsp, -16
	; copy stack args
	xor	rcx, rcx
.cp:	cmp	rcx, rax
	jae	.cpdone
	mov	rdx, [r13 + 48 + rcx*8]
	mov	[rsp + rcx*8], rdx
	inc	rcx
	jmp	.cp
.cpdone:
	test	r15, r15
	jz	.nopoison
	; dirty the 64 KiB of dead stack below the future frame (8 bytes of return address excluded)
	lea	rdi, [rsp - 8 - DEAD]
	mov	rcx, DEAD/8
	mov	rax, [r15 + 2048 + 64]
.fill:	mov	[rdi], rax
	add	rdi, 8
	rol	rax, 7
	dec	rcx
	jnz	.fill
%assign i 0
%rep 32
	vmovdqu64 zmm %+ i, [r15 + 64*i]
%assign i i+1
%endrep
	kmovq	k1, [r15 + 2048 + 0]
	kmovq	k2, [r15 + 2048 + 8]
	kmovq	k3, [r15 + 2048 + 16]
	kmovq	k4, [r15 + 2048 + 24]
	kmovq	k5, [r15 + 2048 + 32]
	kmovq	k6, [r15 + 2048 + 40]
	kmovq	k7, [r15 + 2048 + 48]
	; garbage in every caller-saved GPR; argument registers are overwritten below as far as used
	mov	rdi, [r15 + 2048 + 72]
	mov	rsi, [r15 + 2048 + 80]
	mov	rdx, [r15 + 2048 + 88]
	mov	rcx, [r15 + 2048 + 96]
	mov	r8,  [r15 + 2048 + 104]
	mov	r9,  [r15 + 2048 + 112]
	mov	r10, [r15 + 2048 + 120]
	mov	r11, [r15 + 2048 + 128]
	; garbage arithmetic flags (CF PF AF ZF SF OF only; DF stays clear as the ABI requires)
	mov	rax, [r15 + 2048 + 136]
	and	rax, 0x8d5
	push	rax
	popfq
	mov	rax, [r15 + 2048 + 144]
.nopoison:
	; load the register arguments that exist (a 32-bit argument is passed zero-extended, as every
	; compiled caller on this platform does)
	cmp	r14, 1
	jb	.go
	mov	rdi, [r13 + 0]
	cmp	r14, 2
	jb	.go
	mov	rsi, [r13 + 8]
	cmp	r14, 3
	jb	.go
	mov	rdx, [r13 + 16]
	cmp	r14, 4
	jb	.go
	mov	rcx, [r13 + 24]
	cmp	r14, 5
	jb	.go
	mov	r8, [r13 + 32]
	cmp	r14, 6
	jb	.go
	mov	r9, [r13 + 40]
.go:
	call	r12
	test	rbx, rbx
	jz	.nocapture
	; capture before anything else runs: vector registers, mask registers, dead stack
%assign i 0
%rep 32
	vmovdqu64 [rbx + 64*i], zmm %+ i
%assign i i+1
%endrep
	kmovq	[rbx + 2048 + 0], k0
	kmovq	[rbx + 2048 + 8], k1
	kmovq	[rbx + 2048 + 16], k2
	kmovq	[rbx + 2048 + 24], k3
	kmovq	[rbx + 2048 + 32], k4
	kmovq	[rbx + 2048 + 40], k5
	kmovq	[rbx + 2048 + 48], k6
	kmovq	[rbx + 2048 + 56], k7
	mov	r10, rax
	lea	rsi, [rsp - DEAD]
	lea	rdi, [rbx + 2112]
	mov	rcx, DEAD/8
	cld
	rep movsq
	mov	rax, r10
.nocapture:
	mov	rsp, rbp
	pop	r15
	pop	r14
	pop	r13
	pop	r12
	pop	rbp
	pop	rbx
	vzeroupper
	ret
section .note.GNU-stack noalloc noexec nowrite progbits
