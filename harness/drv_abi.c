/* C19 dynamic correspondence driver.
 *
 * Calls a representative set of library entry points (every assembly family: hash managers through the
 * ctx API and directly, GCM, XTS, CBC, key expansion, mh block functions, rolling-hash scans, dispatch
 * stubs / public isal_ API) through harness/tramp.asm over the length classes that select distinct exit
 * paths, and checks after every call that rsp, rbx, rbp, r12-r15, MXCSR, the x87 control word and DF
 * are as before and that the canary words above the outgoing argument area are intact.
 *
 *   drv_abi [seed]      prints one "C19 group=... calls=N violations=M" line per group,
 *                       "MONITOR C19-<what> fn=<name> ..." for every violation, and a final summary.
 * Exit status 0 iff no violation (and the self-test with a deliberately broken callee fires).
 */
#define _GNU_SOURCE
#include <stdint.h>
#include <stdio.h>
#include <stdlib.h>
#include <string.h>
#include "aes_gcm.h"
#include "aes_xts.h"
#include "aes_cbc.h"
#include "aes_keyexp.h"
#include "sha1_mb.h"
#include "sha256_mb.h"
#include "sha512_mb.h"
#include "md5_mb.h"
#include "sm3_mb.h"
#include "mh_sha1.h"
#include "mh_sha256.h"
#include "mh_sha1_murmur3_x64_128.h"
#include "rolling_hashx.h"

struct abi_frame {
        uint64_t target, args[6], stk[4], seed[6], out[6], rsp0, rsp1;
        uint32_t mxcsr0, mxcsr1;
        uint16_t cw0, cw1;
        uint32_t pad;
        uint64_t flags1, canary[8], stk1[4], ret;
};
extern uint64_t abi_call(struct abi_frame *);
extern void abi_bad_callee(void);

#define CANARY 0x5ca1ab1e0ddba11ULL
static const char *REGN[6] = { "rbx", "rbp", "r12", "r13", "r14", "r15" };
static uint64_t rs = 0x9E3779B97F4A7C15ULL;
static uint64_t rnd(void)
{
        rs ^= rs >> 12; rs ^= rs << 25; rs ^= rs >> 27;
        return rs * 0x2545F4914F6CDD1DULL;
}
static long total_calls, total_viol, group_calls, group_viol, quiet_self_test;
static const char *cur_group = "";
static const char *seen_names[2048];
static int nseen;
static void note_name(const char *n)
{
        for (int i = 0; i < nseen; i++)
                if (seen_names[i] == n || !strcmp(seen_names[i], n)) return;
        if (nseen < 2048) seen_names[nseen++] = n;
}

static void viol(const char *what, const char *fn, const char *detail)
{
        group_viol++;
        total_viol++;
        if (!quiet_self_test)
                printf("MONITOR C19-%s fn=%s %s\n", what, fn, detail);
}

/* the checked call: up to 10 integer/pointer arguments */
static uint64_t abi_n(const char *name, void *fn, int n, const uint64_t *a)
{
        struct abi_frame f;
        char d[160];
        memset(&f, 0, sizeof f);
        f.target = (uint64_t) (uintptr_t) fn;
        for (int i = 0; i < n && i < 6; i++) f.args[i] = a[i];
        for (int i = 6; i < n && i < 10; i++) f.stk[i - 6] = a[i];
        for (int i = n < 6 ? 0 : n - 6; i < 4; i++) f.stk[i] = rnd();      /* unused slots: random */
        uint64_t stk0[4];
        memcpy(stk0, f.stk, sizeof stk0);
        for (int i = 0; i < 6; i++) f.seed[i] = rnd();
        abi_call(&f);
        note_name(name);
        group_calls++;
        total_calls++;
        for (int i = 0; i < 6; i++)
                if (f.out[i] != f.seed[i]) {
                        snprintf(d, sizeof d, "reg=%s before=%016llx after=%016llx", REGN[i],
                                 (unsigned long long) f.seed[i], (unsigned long long) f.out[i]);
                        viol("callee-saved", name, d);
                }
        if (f.rsp1 != f.rsp0) {
                snprintf(d, sizeof d, "before=%llx after=%llx", (unsigned long long) f.rsp0, (unsigned long long) f.rsp1);
                viol("rsp", name, d);
        }
        if (f.mxcsr1 != f.mxcsr0 && ((f.mxcsr1 ^ f.mxcsr0) & ~0x3fu)) {        /* status flags (bits 0-5) may change */
                snprintf(d, sizeof d, "before=%08x after=%08x", f.mxcsr0, f.mxcsr1);
                viol("mxcsr", name, d);
        }
        if (f.cw1 != f.cw0) {
                snprintf(d, sizeof d, "before=%04x after=%04x", f.cw0, f.cw1);
                viol("x87cw", name, d);
        }
        if (f.flags1 & (1u << 10)) viol("df-set", name, "");
        for (int i = 0; i < 8; i++)
                if (f.canary[i] != CANARY + 0x1111ULL * i) {
                        snprintf(d, sizeof d, "slot=%d value=%016llx", i, (unsigned long long) f.canary[i]);
                        viol("canary-above-frame", name, d);
                }
        /* slots of the argument area that carry no argument belong to the caller as well */
        for (int i = n < 6 ? 0 : n - 6; i < 4; i++)
                if (f.stk1[i] != stk0[i]) {
                        snprintf(d, sizeof d, "slot=%d", i);
                        viol("unused-arg-slot", name, d);
                }
        return f.ret;
}
#define A_(x) ((uint64_t) (uintptr_t) (x))
#define ABI(fn, ...)                                                                                \
        ({                                                                                          \
                uint64_t _a[] = { __VA_ARGS__ };                                                    \
                abi_n(#fn, (void *) (fn), (int) (sizeof(_a) / 8), _a);                              \
        })
#define ABIN(name, fn, ...)                                                                         \
        ({                                                                                          \
                uint64_t _a[] = { __VA_ARGS__ };                                                    \
                abi_n(name, (void *) (fn), (int) (sizeof(_a) / 8), _a);                             \
        })

static void group(const char *g)
{
        if (*cur_group)
                printf("C19 group=%s calls=%ld violations=%ld\n", cur_group, group_calls, group_viol);
        cur_group = g;
        group_calls = group_viol = 0;
}

static uint8_t *buf_a, *buf_b, *buf_c;
#define BUFSZ (1 << 17)
static void fill(uint8_t *p, size_t n)
{
        for (size_t i = 0; i < n; i += 8) {
                uint64_t v = rnd();
                memcpy(p + i, &v, n - i < 8 ? n - i : 8);
        }
}

/* ------------------------------------------------------------------------------------------- hashes */
static const uint32_t HLEN[] = { 0, 1, 55, 56, 63, 64, 65, 111, 112, 119, 127, 128, 129, 200, 1000, 4096, 8191, 65536 + 3 };
#define NHLEN ((int) (sizeof HLEN / sizeof HLEN[0]))

#define HASH_CTX_RUN(alg, ALG, initf, submitf, flushf, tag, PUB)                                     \
        do {                                                                                        \
                ISAL_##ALG##_HASH_CTX_MGR *mgr;                                                     \
                ISAL_##ALG##_HASH_CTX *cx, *out;                                                    \
                if (posix_memalign((void **) &mgr, 64, sizeof *mgr)) exit(2);                       \
                if (posix_memalign((void **) &cx, 64, 40 * sizeof *cx)) exit(2);                    \
                ABIN(tag "_init", initf, A_(mgr));                                                  \
                for (int i = 0; i < 40; i++) { isal_hash_ctx_init(&cx[i]); }                        \
                /* ENTIRE jobs over the length classes: lanes fill, kernels run, early returns */   \
                for (int i = 0; i < 36; i++) {                                                      \
                        out = NULL;                                                                 \
                        if (PUB) ABIN(tag "_submit", submitf, A_(mgr), A_(&cx[i]), A_(&out), A_(buf_a + i), HLEN[i % NHLEN], ISAL_HASH_ENTIRE); \
                        else ABIN(tag "_submit", submitf, A_(mgr), A_(&cx[i]), A_(buf_a + i), HLEN[i % NHLEN], ISAL_HASH_ENTIRE); \
                }                                                                                   \
                /* error returns: invalid flag, context already in flight */                        \
                out = NULL;                                                                         \
                if (PUB) { ABIN(tag "_submit", submitf, A_(mgr), A_(&cx[36]), A_(&out), A_(buf_a), 64, 8); \
                           ABIN(tag "_submit", submitf, A_(mgr), A_(&cx[35]), A_(&out), A_(buf_a), 64, ISAL_HASH_UPDATE); } \
                else { ABIN(tag "_submit", submitf, A_(mgr), A_(&cx[36]), A_(buf_a), 64, 8);        \
                       ABIN(tag "_submit", submitf, A_(mgr), A_(&cx[35]), A_(buf_a), 64, ISAL_HASH_UPDATE); } \
                for (int i = 0; i < 60; i++) {                                                      \
                        out = NULL;                                                                 \
                        if (PUB) ABIN(tag "_flush", flushf, A_(mgr), A_(&out)); else ABIN(tag "_flush", flushf, A_(mgr)); \
                }                                                                                   \
                /* streaming: FIRST / UPDATE / LAST with odd lengths on one context */               \
                isal_hash_ctx_init(&cx[37]);                                                        \
                static const uint32_t seg[] = { 1, 63, 64, 65, 300, 0, 4096, 7 };                   \
                for (int i = 0; i < 8; i++) {                                                       \
                        int fl = i == 0 ? ISAL_HASH_FIRST : i == 7 ? ISAL_HASH_LAST : ISAL_HASH_UPDATE; \
                        out = NULL;                                                                 \
                        if (PUB) ABIN(tag "_submit", submitf, A_(mgr), A_(&cx[37]), A_(&out), A_(buf_b + 64 * i), seg[i], fl); \
                        else ABIN(tag "_submit", submitf, A_(mgr), A_(&cx[37]), A_(buf_b + 64 * i), seg[i], fl); \
                        for (int k = 0; k < 3; k++) {                                               \
                                if (PUB) ABIN(tag "_flush", flushf, A_(mgr), A_(&out)); else ABIN(tag "_flush", flushf, A_(mgr)); \
                        }                                                                           \
                }                                                                                   \
                free(mgr);                                                                          \
                free(cx);                                                                           \
        } while (0)

#define HDECL(alg, ALG, fam)                                                                        \
        void _##alg##_ctx_mgr_init_##fam(ISAL_##ALG##_HASH_CTX_MGR *);                              \
        ISAL_##ALG##_HASH_CTX *_##alg##_ctx_mgr_submit_##fam(ISAL_##ALG##_HASH_CTX_MGR *, ISAL_##ALG##_HASH_CTX *, const void *, uint32_t, ISAL_HASH_CTX_FLAG); \
        ISAL_##ALG##_HASH_CTX *_##alg##_ctx_mgr_flush_##fam(ISAL_##ALG##_HASH_CTX_MGR *);
#define HRUN(alg, ALG, fam)                                                                         \
        HASH_CTX_RUN(alg, ALG, _##alg##_ctx_mgr_init_##fam, _##alg##_ctx_mgr_submit_##fam, _##alg##_ctx_mgr_flush_##fam, "_" #alg "_ctx_mgr_" #fam, 0);
#define HFAMS(X)                                                                                    \
        X(sha1, SHA1, base) X(sha1, SHA1, sse) X(sha1, SHA1, avx) X(sha1, SHA1, avx2) X(sha1, SHA1, avx512) \
        X(sha1, SHA1, sse_ni) X(sha1, SHA1, avx512_ni)                                               \
        X(sha256, SHA256, base) X(sha256, SHA256, sse) X(sha256, SHA256, avx) X(sha256, SHA256, avx2) \
        X(sha256, SHA256, avx512) X(sha256, SHA256, sse_ni) X(sha256, SHA256, avx512_ni)             \
        X(sha512, SHA512, base) X(sha512, SHA512, sse) X(sha512, SHA512, avx) X(sha512, SHA512, avx2) \
        X(sha512, SHA512, avx512) X(sha512, SHA512, sb_sse4)                                         \
        X(md5, MD5, base) X(md5, MD5, sse) X(md5, MD5, avx) X(md5, MD5, avx2) X(md5, MD5, avx512)    \
        X(sm3, SM3, base) X(sm3, SM3, avx2) X(sm3, SM3, avx512)
HFAMS(HDECL)

/* assembly job managers called directly (the functions with the hand-written prologues) */
#define MDECL(alg, ALG, MGR, fam, ffam, ifam)                                                       \
        void _##alg##_mb_mgr_init_##ifam(MGR *);                                                    \
        ISAL_##ALG##_JOB *_##alg##_mb_mgr_submit_##fam(MGR *, ISAL_##ALG##_JOB *);                   \
        ISAL_##ALG##_JOB *_##alg##_mb_mgr_flush_##ffam(MGR *);
#define MRUN(alg, ALG, MGR, fam, ffam, ifam)                                                             \
        do {                                                                                        \
                MGR *mgr;                                                                           \
                ISAL_##ALG##_JOB *jobs;                                                             \
                if (posix_memalign((void **) &mgr, 64, sizeof *mgr)) exit(2);                       \
                if (posix_memalign((void **) &jobs, 64, 40 * sizeof *jobs)) exit(2);                \
                memset(jobs, 0, 40 * sizeof *jobs);                                                 \
                ABIN("_" #alg "_mb_mgr_init_" #ifam, _##alg##_mb_mgr_init_##ifam, A_(mgr));         \
                for (int i = 0; i < 40; i++) {                                                      \
                        jobs[i].buffer = buf_a + 64 * i;                                            \
                        jobs[i].len = 1 + (i * 7) % 13;   /* blocks */                               \
                        fill((uint8_t *) jobs[i].result_digest, sizeof jobs[i].result_digest);      \
                        ABIN("_" #alg "_mb_mgr_submit_" #fam, _##alg##_mb_mgr_submit_##fam, A_(mgr), A_(&jobs[i])); \
                }                                                                                   \
                for (int i = 0; i < 45; i++)                                                        \
                        ABIN("_" #alg "_mb_mgr_flush_" #ffam, _##alg##_mb_mgr_flush_##ffam, A_(mgr)); \
                free(mgr);                                                                          \
                free(jobs);                                                                         \
        } while (0);
#define MFAMS(X)                                                                                    \
        X(sha1, SHA1, ISAL_SHA1_MB_JOB_MGR, sse, sse, sse) X(sha1, SHA1, ISAL_SHA1_MB_JOB_MGR, avx, avx, sse)  \
        X(sha1, SHA1, ISAL_SHA1_MB_JOB_MGR, avx2, avx2, avx2) X(sha1, SHA1, ISAL_SHA1_MB_JOB_MGR, avx512, avx512, avx512) \
        X(sha1, SHA1, ISAL_SHA1_MB_JOB_MGR, sse_ni, sse_ni, sse) X(sha1, SHA1, ISAL_SHA1_MB_JOB_MGR, avx512, avx512_ni, avx512) \
        X(sha256, SHA256, ISAL_SHA256_MB_JOB_MGR, sse, sse, sse) X(sha256, SHA256, ISAL_SHA256_MB_JOB_MGR, avx, avx, sse) \
        X(sha256, SHA256, ISAL_SHA256_MB_JOB_MGR, avx2, avx2, avx2) X(sha256, SHA256, ISAL_SHA256_MB_JOB_MGR, avx512, avx512, avx512) \
        X(sha256, SHA256, ISAL_SHA256_MB_JOB_MGR, sse_ni, sse_ni, sse) X(sha256, SHA256, ISAL_SHA256_MB_JOB_MGR, avx512, avx512_ni, avx512) \
        X(sha512, SHA512, ISAL_SHA512_MB_JOB_MGR, sse, sse, sse) X(sha512, SHA512, ISAL_SHA512_MB_JOB_MGR, avx, avx, sse) \
        X(sha512, SHA512, ISAL_SHA512_MB_JOB_MGR, avx2, avx2, avx2) X(sha512, SHA512, ISAL_SHA512_MB_JOB_MGR, avx512, avx512, avx512) \
        X(md5, MD5, ISAL_MD5_MB_JOB_MGR, sse, sse, sse) X(md5, MD5, ISAL_MD5_MB_JOB_MGR, avx, avx, sse)        \
        X(md5, MD5, ISAL_MD5_MB_JOB_MGR, avx2, avx2, avx2) X(md5, MD5, ISAL_MD5_MB_JOB_MGR, avx512, avx512, avx512) \
        X(sm3, SM3, ISAL_SM3_MB_JOB_MGR, avx2, avx2, avx2) X(sm3, SM3, ISAL_SM3_MB_JOB_MGR, avx512, avx512, avx512)
MFAMS(MDECL)

/* ------------------------------------------------------------------------------------------- AES-GCM */
typedef struct isal_gcm_key_data KD;
typedef struct isal_gcm_context_data CD;
#define GDECL(B, F)                                                                                  \
        void _aes_gcm_enc_##B##_##F(void); void _aes_gcm_dec_##B##_##F(void);                        \
        void _aes_gcm_enc_##B##_##F##_nt(void); void _aes_gcm_dec_##B##_##F##_nt(void);              \
        void _aes_gcm_init_##B##_##F(void); void _aes_gcm_enc_##B##_update_##F(void);                \
        void _aes_gcm_dec_##B##_update_##F(void); void _aes_gcm_enc_##B##_update_##F##_nt(void);     \
        void _aes_gcm_dec_##B##_update_##F##_nt(void); void _aes_gcm_enc_##B##_finalize_##F(void);   \
        void _aes_gcm_dec_##B##_finalize_##F(void); void _aes_gcm_precomp_##B##_##F(void);
GDECL(128, sse) GDECL(128, avx_gen2) GDECL(128, avx_gen4) GDECL(128, vaes_avx512)
GDECL(256, sse) GDECL(256, avx_gen2) GDECL(256, avx_gen4) GDECL(256, vaes_avx512)

static const uint64_t GLEN[] = { 0, 1, 15, 16, 17, 31, 32, 33, 47, 48, 63, 64, 65, 79, 80, 95, 96, 111, 112, 127, 128, 129,
                                 143, 144, 159, 160, 175, 176, 191, 192, 207, 208, 223, 224, 239, 240, 255, 256, 257,
                                 383, 384, 511, 512, 513, 767, 768, 1023, 1024, 1025, 2047, 2048, 4095, 4096, 4097, 8192 + 5, 65536 };
#define NGLEN ((int) (sizeof GLEN / sizeof GLEN[0]))
static const uint64_t ALEN[] = { 0, 1, 8, 12, 16, 20, 31, 32, 33, 48, 100 };
static const uint64_t TLEN[] = { 16, 12, 8 };

static KD *gkey;
static CD *gctx;
#define GRUN(B, F, TAG)                                                                              \
        do {                                                                                        \
                fill((uint8_t *) gkey, sizeof *gkey);                                               \
                ABIN("_aes_gcm_precomp_" #B "_" #F, _aes_gcm_precomp_##B##_##F, A_(gkey));          \
                for (int i = 0; i < NGLEN; i++) {                                                   \
                        uint64_t al = ALEN[i % 11], tl = TLEN[i % 3], n = GLEN[i];                  \
                        ABIN("_aes_gcm_enc_" #B "_" #F, _aes_gcm_enc_##B##_##F, A_(gkey), A_(gctx), A_(buf_b), A_(buf_a), n, A_(buf_c), A_(buf_c + 64), al, A_(buf_c + 256), tl); \
                        ABIN("_aes_gcm_dec_" #B "_" #F, _aes_gcm_dec_##B##_##F, A_(gkey), A_(gctx), A_(buf_a), A_(buf_b), n, A_(buf_c), A_(buf_c + 64), al, A_(buf_c + 256), tl); \
                        ABIN("_aes_gcm_enc_" #B "_" #F "_nt", _aes_gcm_enc_##B##_##F##_nt, A_(gkey), A_(gctx), A_(buf_b), A_(buf_a), (n + 15) & ~15ULL, A_(buf_c), A_(buf_c + 64), al, A_(buf_c + 256), tl); \
                        ABIN("_aes_gcm_dec_" #B "_" #F "_nt", _aes_gcm_dec_##B##_##F##_nt, A_(gkey), A_(gctx), A_(buf_a), A_(buf_b), (n + 15) & ~15ULL, A_(buf_c), A_(buf_c + 64), al, A_(buf_c + 256), tl); \
                        /* streaming: init, three updates that leave partial blocks, finalize */     \
                        ABIN("_aes_gcm_init_" #B "_" #F, _aes_gcm_init_##B##_##F, A_(gkey), A_(gctx), A_(buf_c), A_(buf_c + 64), al); \
                        ABIN("_aes_gcm_enc_" #B "_update_" #F, _aes_gcm_enc_##B##_update_##F, A_(gkey), A_(gctx), A_(buf_b), A_(buf_a), n); \
                        ABIN("_aes_gcm_enc_" #B "_update_" #F, _aes_gcm_enc_##B##_update_##F, A_(gkey), A_(gctx), A_(buf_b), A_(buf_a), GLEN[(i * 7 + 3) % 30]); \
                        ABIN("_aes_gcm_enc_" #B "_finalize_" #F, _aes_gcm_enc_##B##_finalize_##F, A_(gkey), A_(gctx), A_(buf_c + 256), tl); \
                        /* the _nt entry points want 16-byte multiples on aligned buffers */                \
                        ABIN("_aes_gcm_init_" #B "_" #F, _aes_gcm_init_##B##_##F, A_(gkey), A_(gctx), A_(buf_c), A_(buf_c + 64), al); \
                        ABIN("_aes_gcm_enc_" #B "_update_" #F "_nt", _aes_gcm_enc_##B##_update_##F##_nt, A_(gkey), A_(gctx), A_(buf_b), A_(buf_a), (n + 15) & ~15ULL); \
                        ABIN("_aes_gcm_dec_" #B "_update_" #F "_nt", _aes_gcm_dec_##B##_update_##F##_nt, A_(gkey), A_(gctx), A_(buf_b), A_(buf_a), (n + 15) & ~15ULL); \
                        ABIN("_aes_gcm_enc_" #B "_finalize_" #F, _aes_gcm_enc_##B##_finalize_##F, A_(gkey), A_(gctx), A_(buf_c + 256), tl); \
                        ABIN("_aes_gcm_init_" #B "_" #F, _aes_gcm_init_##B##_##F, A_(gkey), A_(gctx), A_(buf_c), A_(buf_c + 64), al); \
                        ABIN("_aes_gcm_dec_" #B "_update_" #F, _aes_gcm_dec_##B##_update_##F, A_(gkey), A_(gctx), A_(buf_b), A_(buf_a), n); \
                        ABIN("_aes_gcm_dec_" #B "_update_" #F, _aes_gcm_dec_##B##_update_##F, A_(gkey), A_(gctx), A_(buf_b), A_(buf_a), GLEN[(i * 5 + 1) % 30]); \
                        ABIN("_aes_gcm_dec_" #B "_finalize_" #F, _aes_gcm_dec_##B##_finalize_##F, A_(gkey), A_(gctx), A_(buf_c + 256), tl); \
                }                                                                                   \
        } while (0);

/* ------------------------------------------------------------------------------------------- XTS / CBC / keyexp */
#define XDECL(B, F)                                                                                   \
        void _XTS_AES_##B##_enc_##F(void); void _XTS_AES_##B##_dec_##F(void);                         \
        void _XTS_AES_##B##_enc_expanded_key_##F(void); void _XTS_AES_##B##_dec_expanded_key_##F(void);
XDECL(128, sse) XDECL(128, avx) XDECL(128, vaes) XDECL(256, sse) XDECL(256, avx) XDECL(256, vaes)
static const uint64_t XLEN[] = { 16, 17, 31, 32, 33, 47, 48, 63, 64, 65, 79, 80, 95, 96, 111, 112, 113, 127, 128, 129, 130, 143, 144, 145,
                                 255, 256, 257, 271, 272, 273, 511, 512, 513, 1024, 1039, 4096, 4097, 4111, 65536 };
#define NXLEN ((int) (sizeof XLEN / sizeof XLEN[0]))
#define XRUN(B, F)                                                                                   \
        for (int i = 0; i < NXLEN; i++) {                                                            \
                ABIN("_XTS_AES_" #B "_enc_" #F, _XTS_AES_##B##_enc_##F, A_(buf_c), A_(buf_c + 32), A_(buf_c + 64), XLEN[i], A_(buf_a), A_(buf_b)); \
                ABIN("_XTS_AES_" #B "_dec_" #F, _XTS_AES_##B##_dec_##F, A_(buf_c), A_(buf_c + 32), A_(buf_c + 64), XLEN[i], A_(buf_b), A_(buf_a)); \
                ABIN("_XTS_AES_" #B "_enc_expanded_key_" #F, _XTS_AES_##B##_enc_expanded_key_##F, A_(buf_c + 1024), A_(buf_c + 2048), A_(buf_c + 64), XLEN[i], A_(buf_a), A_(buf_b)); \
                ABIN("_XTS_AES_" #B "_dec_expanded_key_" #F, _XTS_AES_##B##_dec_expanded_key_##F, A_(buf_c + 1024), A_(buf_c + 2048), A_(buf_c + 64), XLEN[i], A_(buf_b), A_(buf_a)); \
        }

#define CDECL(B)                                                                                      \
        void _aes_cbc_enc_##B##_x4(void); void _aes_cbc_enc_##B##_x8(void); void _aes_cbc_dec_##B##_sse(void); \
        void _aes_cbc_dec_##B##_avx(void); void _aes_cbc_dec_##B##_vaes_avx512(void);                 \
        void _aes_keyexp_##B##_sse(void); void _aes_keyexp_##B##_avx(void);
CDECL(128) CDECL(192) CDECL(256)
void _aes_keyexp_128_enc_sse(void); void _aes_keyexp_128_enc_avx(void);
static const uint64_t CLEN[] = { 16, 32, 48, 64, 80, 96, 112, 128, 144, 160, 176, 192, 208, 224, 240, 256, 272, 512, 528, 1024, 4096, 4112, 65536 };
#define NCLEN ((int) (sizeof CLEN / sizeof CLEN[0]))
#define CRUN(B)                                                                                       \
        ABIN("_aes_keyexp_" #B "_sse", _aes_keyexp_##B##_sse, A_(buf_c), A_(buf_c + 1024), A_(buf_c + 2048)); \
        ABIN("_aes_keyexp_" #B "_avx", _aes_keyexp_##B##_avx, A_(buf_c), A_(buf_c + 1024), A_(buf_c + 2048)); \
        for (int i = 0; i < NCLEN; i++) {                                                             \
                ABIN("_aes_cbc_enc_" #B "_x4", _aes_cbc_enc_##B##_x4, A_(buf_a), A_(buf_c + 64), A_(buf_c + 1024), A_(buf_b), CLEN[i]); \
                ABIN("_aes_cbc_enc_" #B "_x8", _aes_cbc_enc_##B##_x8, A_(buf_a), A_(buf_c + 64), A_(buf_c + 1024), A_(buf_b), CLEN[i]); \
                ABIN("_aes_cbc_dec_" #B "_sse", _aes_cbc_dec_##B##_sse, A_(buf_b), A_(buf_c + 64), A_(buf_c + 2048), A_(buf_a), CLEN[i]); \
                ABIN("_aes_cbc_dec_" #B "_avx", _aes_cbc_dec_##B##_avx, A_(buf_b), A_(buf_c + 64), A_(buf_c + 2048), A_(buf_a), CLEN[i]); \
                ABIN("_aes_cbc_dec_" #B "_vaes_avx512", _aes_cbc_dec_##B##_vaes_avx512, A_(buf_b), A_(buf_c + 64), A_(buf_c + 2048), A_(buf_a), CLEN[i]); \
        }

/* ------------------------------------------------------------------------------------------- mh / rolling */
#define MHDECL(F)                                                                                     \
        void _mh_sha1_block_##F(void); void _mh_sha256_block_##F(void); void _mh_sha1_murmur3_x64_128_block_##F(void); \
        void _mh_sha1_update_##F(void); void _mh_sha1_finalize_##F(void); void _mh_sha256_update_##F(void); void _mh_sha256_finalize_##F(void); \
        void _mh_sha1_murmur3_x64_128_update_##F(void); void _mh_sha1_murmur3_x64_128_finalize_##F(void);
MHDECL(base) MHDECL(sse) MHDECL(avx) MHDECL(avx2) MHDECL(avx512)
static uint32_t mh_dig[16][16] __attribute__((aligned(64)));
static uint8_t mh_frame[2048] __attribute__((aligned(64)));
static uint32_t mur_dig[4] __attribute__((aligned(64)));
static const uint32_t MLEN[] = { 0, 1, 63, 64, 1023, 1024, 1025, 2047, 2048, 2049, 5000, 16384, 16385 };
#define MHRUN(F)                                                                                      \
        for (uint32_t nb = 0; nb < 5; nb++) {                                                         \
                ABIN("_mh_sha1_block_" #F, _mh_sha1_block_##F, A_(buf_a), A_(mh_dig), A_(mh_frame), nb); \
                ABIN("_mh_sha256_block_" #F, _mh_sha256_block_##F, A_(buf_a), A_(mh_dig), A_(mh_frame), nb); \
                ABIN("_mh_sha1_murmur3_x64_128_block_" #F, _mh_sha1_murmur3_x64_128_block_##F, A_(buf_a), A_(mh_dig), A_(mh_frame), A_(mur_dig), nb); \
        }                                                                                             \
        for (int i = 0; i < 13; i++) {                                                                \
                isal_mh_sha1_init(c1); isal_mh_sha256_init(c2); isal_mh_sha1_murmur3_x64_128_init(c3, 7); \
                ABIN("_mh_sha1_update_" #F, _mh_sha1_update_##F, A_(c1), A_(buf_a), MLEN[i]);         \
                ABIN("_mh_sha1_update_" #F, _mh_sha1_update_##F, A_(c1), A_(buf_a), MLEN[(i + 5) % 13]); \
                ABIN("_mh_sha1_finalize_" #F, _mh_sha1_finalize_##F, A_(c1), A_(buf_c));              \
                ABIN("_mh_sha256_update_" #F, _mh_sha256_update_##F, A_(c2), A_(buf_a), MLEN[i]);     \
                ABIN("_mh_sha256_update_" #F, _mh_sha256_update_##F, A_(c2), A_(buf_a), MLEN[(i + 5) % 13]); \
                ABIN("_mh_sha256_finalize_" #F, _mh_sha256_finalize_##F, A_(c2), A_(buf_c));          \
                ABIN("_mh_sha1_murmur3_x64_128_update_" #F, _mh_sha1_murmur3_x64_128_update_##F, A_(c3), A_(buf_a), MLEN[i]); \
                ABIN("_mh_sha1_murmur3_x64_128_update_" #F, _mh_sha1_murmur3_x64_128_update_##F, A_(c3), A_(buf_a), MLEN[(i + 5) % 13]); \
                ABIN("_mh_sha1_murmur3_x64_128_finalize_" #F, _mh_sha1_murmur3_x64_128_finalize_##F, A_(c3), A_(buf_c), A_(buf_c + 64)); \
        }

void _rolling_hash2_run_until_base(void); void _rolling_hash2_run_until_00(void); void _rolling_hash2_run_until_04(void);

int main(int argc, char **argv)
{
        if (argc > 1) rs ^= strtoull(argv[1], 0, 0) * 0x2545F4914F6CDD1DULL + 1;
        if (posix_memalign((void **) &buf_a, 64, BUFSZ + 4096) || posix_memalign((void **) &buf_b, 64, BUFSZ + 4096) ||
            posix_memalign((void **) &buf_c, 64, 8192) || posix_memalign((void **) &gkey, 64, sizeof *gkey) ||
            posix_memalign((void **) &gctx, 64, sizeof *gctx))
                return 2;
        fill(buf_a, BUFSZ); fill(buf_b, BUFSZ); fill(buf_c, 8192);

        /* self-test of the monitor: a callee that breaks r13, DF, MXCSR and a canary must be reported */
        quiet_self_test = 1;
        ABI(abi_bad_callee, 0);
        long st = total_viol;
        quiet_self_test = 0;
        total_viol = total_calls = 0;
        printf("C19 selftest broken-callee violations_detected=%ld (expected 4)\n", st);

        /* public API first: the first call of every entry point goes through <entry>_mbinit / dispatch_init */
        group("public-hash(dispatch stubs)");
        HASH_CTX_RUN(sha1, SHA1, isal_sha1_ctx_mgr_init, isal_sha1_ctx_mgr_submit, isal_sha1_ctx_mgr_flush, "isal_sha1_ctx_mgr", 1);
        HASH_CTX_RUN(sha256, SHA256, isal_sha256_ctx_mgr_init, isal_sha256_ctx_mgr_submit, isal_sha256_ctx_mgr_flush, "isal_sha256_ctx_mgr", 1);
        HASH_CTX_RUN(sha512, SHA512, isal_sha512_ctx_mgr_init, isal_sha512_ctx_mgr_submit, isal_sha512_ctx_mgr_flush, "isal_sha512_ctx_mgr", 1);
        HASH_CTX_RUN(md5, MD5, isal_md5_ctx_mgr_init, isal_md5_ctx_mgr_submit, isal_md5_ctx_mgr_flush, "isal_md5_ctx_mgr", 1);
        HASH_CTX_RUN(sm3, SM3, isal_sm3_ctx_mgr_init, isal_sm3_ctx_mgr_submit, isal_sm3_ctx_mgr_flush, "isal_sm3_ctx_mgr", 1);

        group("public-aes(dispatch stubs)");
        {
                uint8_t *ek = buf_c + 1024, *dk = buf_c + 2048;
                ABI(isal_aes_keyexp_128, A_(buf_c), A_(ek), A_(dk));
                ABI(isal_aes_keyexp_192, A_(buf_c), A_(ek), A_(dk));
                ABI(isal_aes_keyexp_256, A_(buf_c), A_(ek), A_(dk));
                ABI(isal_aes_keyexp_128, 0, A_(ek), A_(dk));                       /* error return */
                ABI(isal_aes_gcm_pre_128, A_(buf_c), A_(gkey));
                for (int i = 0; i < NGLEN; i += 3) {
                        ABI(isal_aes_gcm_enc_128, A_(gkey), A_(gctx), A_(buf_b), A_(buf_a), GLEN[i], A_(buf_c), A_(buf_c + 64), 20, A_(buf_c + 256), 16);
                        ABI(isal_aes_gcm_dec_128, A_(gkey), A_(gctx), A_(buf_a), A_(buf_b), GLEN[i], A_(buf_c), A_(buf_c + 64), 20, A_(buf_c + 256), 16);
                        ABI(isal_aes_gcm_enc_128_nt, A_(gkey), A_(gctx), A_(buf_b), A_(buf_a), (GLEN[i] + 15) & ~15ULL, A_(buf_c), A_(buf_c + 64), 20, A_(buf_c + 256), 16);
                        ABI(isal_aes_gcm_init_128, A_(gkey), A_(gctx), A_(buf_c), A_(buf_c + 64), 20);
                        ABI(isal_aes_gcm_enc_128_update, A_(gkey), A_(gctx), A_(buf_b), A_(buf_a), GLEN[i]);
                        ABI(isal_aes_gcm_enc_128_finalize, A_(gkey), A_(gctx), A_(buf_c + 256), 16);
                }
                ABI(isal_aes_gcm_enc_128, 0, A_(gctx), A_(buf_b), A_(buf_a), 16, A_(buf_c), A_(buf_c + 64), 20, A_(buf_c + 256), 16);   /* NULL key: error */
                ABI(isal_aes_gcm_enc_128, A_(gkey), A_(gctx), A_(buf_b), A_(buf_a), 16, A_(buf_c), A_(buf_c + 64), 20, A_(buf_c + 256), 5); /* bad tag len */
                ABI(isal_aes_gcm_pre_256, A_(buf_c), A_(gkey));
                for (int i = 1; i < NGLEN; i += 3) {
                        ABI(isal_aes_gcm_enc_256, A_(gkey), A_(gctx), A_(buf_b), A_(buf_a), GLEN[i], A_(buf_c), A_(buf_c + 64), 12, A_(buf_c + 256), 12);
                        ABI(isal_aes_gcm_dec_256, A_(gkey), A_(gctx), A_(buf_a), A_(buf_b), GLEN[i], A_(buf_c), A_(buf_c + 64), 12, A_(buf_c + 256), 12);
                        ABI(isal_aes_gcm_init_256, A_(gkey), A_(gctx), A_(buf_c), A_(buf_c + 64), 12);
                        ABI(isal_aes_gcm_dec_256_update, A_(gkey), A_(gctx), A_(buf_b), A_(buf_a), GLEN[i]);
                        ABI(isal_aes_gcm_dec_256_finalize, A_(gkey), A_(gctx), A_(buf_c + 256), 12);
                }
                for (int i = 0; i < NXLEN; i += 2) {
                        ABI(isal_aes_xts_enc_128, A_(buf_c), A_(buf_c + 32), A_(buf_c + 64), XLEN[i], A_(buf_a), A_(buf_b));
                        ABI(isal_aes_xts_dec_128, A_(buf_c), A_(buf_c + 32), A_(buf_c + 64), XLEN[i], A_(buf_b), A_(buf_a));
                        ABI(isal_aes_xts_enc_256, A_(buf_c), A_(buf_c + 32), A_(buf_c + 64), XLEN[i], A_(buf_a), A_(buf_b));
                        ABI(isal_aes_xts_dec_256, A_(buf_c), A_(buf_c + 32), A_(buf_c + 64), XLEN[i], A_(buf_b), A_(buf_a));
                        ABI(isal_aes_xts_enc_128_expanded_key, A_(ek), A_(dk), A_(buf_c + 64), XLEN[i], A_(buf_a), A_(buf_b));
                        ABI(isal_aes_xts_dec_256_expanded_key, A_(ek), A_(dk), A_(buf_c + 64), XLEN[i], A_(buf_b), A_(buf_a));
                }
                ABI(isal_aes_xts_enc_128, A_(buf_c), A_(buf_c + 32), A_(buf_c + 64), 15, A_(buf_a), A_(buf_b));      /* too short: error */
                for (int i = 0; i < NCLEN; i += 2) {
                        ABI(isal_aes_cbc_enc_128, A_(buf_a), A_(buf_c + 64), A_(ek), A_(buf_b), CLEN[i]);
                        ABI(isal_aes_cbc_dec_128, A_(buf_b), A_(buf_c + 64), A_(dk), A_(buf_a), CLEN[i]);
                        ABI(isal_aes_cbc_enc_192, A_(buf_a), A_(buf_c + 64), A_(ek), A_(buf_b), CLEN[i]);
                        ABI(isal_aes_cbc_dec_192, A_(buf_b), A_(buf_c + 64), A_(dk), A_(buf_a), CLEN[i]);
                        ABI(isal_aes_cbc_enc_256, A_(buf_a), A_(buf_c + 64), A_(ek), A_(buf_b), CLEN[i]);
                        ABI(isal_aes_cbc_dec_256, A_(buf_b), A_(buf_c + 64), A_(dk), A_(buf_a), CLEN[i]);
                }
                ABI(isal_aes_cbc_enc_128, A_(buf_a), A_(buf_c + 64), A_(ek), A_(buf_b), 17);                          /* bad length: error */
        }

        group("public-mh-rolling(dispatch stubs)");
        {
                struct isal_mh_sha1_ctx *c1; struct isal_mh_sha256_ctx *c2; struct isal_mh_sha1_murmur3_x64_128_ctx *c3;
                struct isal_rh_state2 *rh;
                if (posix_memalign((void **) &c1, 64, sizeof *c1) || posix_memalign((void **) &c2, 64, sizeof *c2) ||
                    posix_memalign((void **) &c3, 64, sizeof *c3) || posix_memalign((void **) &rh, 64, sizeof *rh)) return 2;
                for (int i = 0; i < 13; i++) {
                        ABI(isal_mh_sha1_init, A_(c1));
                        ABI(isal_mh_sha1_update, A_(c1), A_(buf_a), MLEN[i]);
                        ABI(isal_mh_sha1_update, A_(c1), A_(buf_a), MLEN[(i + 3) % 13]);
                        ABI(isal_mh_sha1_finalize, A_(c1), A_(buf_c));
                        ABI(isal_mh_sha256_init, A_(c2));
                        ABI(isal_mh_sha256_update, A_(c2), A_(buf_a), MLEN[i]);
                        ABI(isal_mh_sha256_finalize, A_(c2), A_(buf_c));
                        ABI(isal_mh_sha1_murmur3_x64_128_init, A_(c3), 77);
                        ABI(isal_mh_sha1_murmur3_x64_128_update, A_(c3), A_(buf_a), MLEN[i]);
                        ABI(isal_mh_sha1_murmur3_x64_128_finalize, A_(c3), A_(buf_c), A_(buf_c + 64));
                }
                ABI(isal_mh_sha1_update, 0, A_(buf_a), 10);                                                            /* error return */
                for (uint32_t w = 1; w <= 32; w += 5) {
                        uint32_t mask = 0, off = 0; int res = 0;
                        ABI(isal_rolling_hash2_init, A_(rh), w);
                        ABI(isal_rolling_hashx_mask_gen, 1024, 4, A_(&mask));
                        ABI(isal_rolling_hash2_reset, A_(rh), A_(buf_a));
                        for (int k = 0; k < 6; k++)
                                ABI(isal_rolling_hash2_run, A_(rh), A_(buf_a + 64), (uint32_t) (k * 977 + (k == 0 ? 0 : 3)), mask, 0x12345678u & mask, A_(&off), A_(&res));
                }
                /* scan kernels directly (9 arguments: 3 on the stack) */
                uint64_t t1[256], t2[256];
                for (int i = 0; i < 256; i++) { t1[i] = rnd(); t2[i] = rnd(); }
                static const int ML[] = { 0, 1, 2, 3, 7, 8, 9, 31, 32, 33, 100, 4096 };
                for (int i = 0; i < 12; i++) {
                        uint32_t idx = 0;
                        ABI(_rolling_hash2_run_until_base, A_(&idx), (uint64_t) ML[i], A_(t1), A_(t2), A_(buf_a), A_(buf_a + 32), rnd(), 0xfff, 0x123);
                        idx = 0;
                        ABI(_rolling_hash2_run_until_00, A_(&idx), (uint64_t) ML[i], A_(t1), A_(t2), A_(buf_a), A_(buf_a + 32), rnd(), 0xfff, 0x123);
                        idx = 0;
                        ABI(_rolling_hash2_run_until_04, A_(&idx), (uint64_t) ML[i], A_(t1), A_(t2), A_(buf_a), A_(buf_a + 32), rnd(), 0xfff, 0x123);
                        idx = 0;
                        ABI(_rolling_hash2_run_until_04, A_(&idx), (uint64_t) ML[i], A_(t1), A_(t2), A_(buf_a), A_(buf_a + 32), rnd(), 0, 0);  /* immediate hit */
                }

                group("mh-families");
                MHRUN(base) MHRUN(sse) MHRUN(avx) MHRUN(avx2) MHRUN(avx512)
        }

        group("hash-ctx-families");
        HFAMS(HRUN)
        group("hash-asm-managers");
        MFAMS(MRUN)
        {       /* sha512 single-buffer manager has its own names */
                extern void _sha512_sb_mgr_init_sse4(void); extern void _sha512_sb_mgr_submit_sse4(void); extern void _sha512_sb_mgr_flush_sse4(void);
                ISAL_SHA512_MB_JOB_MGR *mgr; ISAL_SHA512_JOB *jobs;
                if (posix_memalign((void **) &mgr, 64, sizeof *mgr) || posix_memalign((void **) &jobs, 64, 8 * sizeof *jobs)) return 2;
                memset(jobs, 0, 8 * sizeof *jobs);
                ABI(_sha512_sb_mgr_init_sse4, A_(mgr));
                for (int i = 0; i < 8; i++) {
                        jobs[i].buffer = buf_a + 128 * i; jobs[i].len = 1 + i;
                        ABI(_sha512_sb_mgr_submit_sse4, A_(mgr), A_(&jobs[i]));
                        ABI(_sha512_sb_mgr_flush_sse4, A_(mgr));
                }
        }

        group("gcm-families");
        GRUN(128, sse, ) GRUN(128, avx_gen2, ) GRUN(128, avx_gen4, ) GRUN(128, vaes_avx512, )
        GRUN(256, sse, ) GRUN(256, avx_gen2, ) GRUN(256, avx_gen4, ) GRUN(256, vaes_avx512, )

        group("xts-families");
        /* expanded key schedules for the expanded-key entry points */
        isal_aes_keyexp_128(buf_c, buf_c + 1024, buf_c + 2048);
        XRUN(128, sse) XRUN(128, avx) XRUN(128, vaes)
        isal_aes_keyexp_256(buf_c, buf_c + 1024, buf_c + 2048);
        XRUN(256, sse) XRUN(256, avx) XRUN(256, vaes)

        group("cbc-keyexp-families");
        CRUN(128) CRUN(192) CRUN(256)
        ABI(_aes_keyexp_128_enc_sse, A_(buf_c), A_(buf_c + 1024));
        ABI(_aes_keyexp_128_enc_avx, A_(buf_c), A_(buf_c + 1024));
        group("");

        printf("C19 total calls=%ld distinct_entry_points=%d violations=%ld selftest=%s\n", total_calls, nseen - 1, total_viol, st == 4 ? "ok" : "FAILED");
        return total_viol == 0 && st == 4 ? 0 : 1;
}
