/* C14: after an AES call, search the captured vector registers (every 16-byte lane of zmm0-31) and
 * the 64 KiB of dead stack below the call (every byte offset) for sensitive 16-byte values: raw key
 * halves, encryption and decryption round keys, the GHASH key and its stored powers, the encrypted
 * XTS tweak and its multiples.  The dead stack was filled with a pattern before the call, so what is
 * found was left there by the callee. */
#ifndef VERIF_SENS_H
#define VERIF_SENS_H
#include <openssl/evp.h>
#define SENS_MAX 4096
static uint8_t sens_val[SENS_MAX][16];
static const char *sens_name[SENS_MAX];
static int sens_n;
static long sens_hits, sens_scans;
static void sens_clear(void) { sens_n = 0; }
static void sens_add(const uint8_t *v, const char *name)
{
        static const uint8_t z[16];
        if (sens_n >= SENS_MAX || !memcmp(v, z, 16)) return;
        for (int i = 0; i < sens_n; i++) if (!memcmp(sens_val[i], v, 16)) return;
        memcpy(sens_val[sens_n], v, 16);
        sens_name[sens_n++] = name;
}
static void sens_add_range(const uint8_t *p, size_t n, const char *name) { for (size_t i = 0; i + 16 <= n; i += 16) sens_add(p + i, name); }
static void aes_ecb(const uint8_t *key, int klen, const uint8_t *in, uint8_t *out)
{
        EVP_CIPHER_CTX *c = EVP_CIPHER_CTX_new();
        int l;
        EVP_EncryptInit_ex(c, klen == 16 ? EVP_aes_128_ecb() : klen == 24 ? EVP_aes_192_ecb() : EVP_aes_256_ecb(), NULL, key, NULL);
        EVP_CIPHER_CTX_set_padding(c, 0);
        EVP_EncryptUpdate(c, out, &l, in, 16);
        EVP_CIPHER_CTX_free(c);
}
static void sens_set_sched(const uint8_t *key, int klen, const uint8_t *ek, const uint8_t *dk, size_t schedlen)
{
        sens_clear();
        sens_add_range(key, klen & ~15, "raw key");
        if (klen == 24) { uint8_t t[16] = { 0 }; memcpy(t, key + 8, 16); sens_add(t, "raw key (192 tail)"); }
        if (ek) sens_add_range(ek, schedlen, "encryption round key");
        if (dk) sens_add_range(dk, schedlen, "decryption round key");
}
static void sens_set_gcm(const uint8_t *key, int bits, const struct isal_gcm_key_data *kd, const uint8_t *decsched)
{
        size_t sl = 16 * (bits == 128 ? 11 : 15);
        sens_set_sched(key, bits / 8, kd->expanded_keys, decsched, sl);
        uint8_t z[16] = { 0 }, h[16];
        aes_ecb(key, bits / 8, z, h);
        sens_add(h, "GHASH key H");
        uint8_t hr[16];
        for (int i = 0; i < 16; i++) hr[i] = h[15 - i];
        sens_add(hr, "GHASH key H (byte reflected)");
}
/* after precomp: the stored hash-key powers (family specific layout) are sensitive too */
static void sens_add_hkeys(const struct isal_gcm_key_data *kd)
{
        sens_add_range(kd->shifted_hkey_1, sizeof(*kd) - offsetof(struct isal_gcm_key_data, shifted_hkey_1), "stored hash-key power");
}
static void xts_mul_alpha(uint8_t *t)
{
        int carry = t[15] >> 7;
        for (int i = 15; i > 0; i--) t[i] = (uint8_t) ((t[i] << 1) | (t[i - 1] >> 7));
        t[0] = (uint8_t) (t[0] << 1);
        if (carry) t[0] ^= 0x87;
}
static void sens_set_xts(const uint8_t *k1, const uint8_t *k2, int klen, const uint8_t *tw, const uint8_t *e1, const uint8_t *d1,
                         const uint8_t *e2, const uint8_t *d2, uint64_t len)
{
        sens_clear();
        sens_add_range(k1, klen, "raw data key");
        sens_add_range(k2, klen, "raw tweak key");
        size_t sl = 16 * (klen == 16 ? 11 : 15);
        if (e1) { sens_add_range(e1, sl, "data key enc schedule"); sens_add_range(d1, sl, "data key dec schedule"); sens_add_range(e2, sl, "tweak key schedule"); (void) d2; }
        uint8_t t[16];
        aes_ecb(k2, klen, tw, t);
        sens_add(t, "encrypted tweak E(k2,tweak)");
        (void) len;
}
static FILE *sens_out;
static void sens_scan(const char *what)
{
        if (!tramp_capture_on) return;
        sens_scans++;
        const uint8_t *vec = tramp_capture, *stk = tramp_capture + CAP_VEC + CAP_K;
        for (int i = 0; i < sens_n; i++) {
                for (int r = 0; r < 32; r++)
                        for (int l = 0; l < 4; l++)
                                if (!memcmp(vec + 64 * r + 16 * l, sens_val[i], 16)) {
                                        sens_hits++;
                                        if (sens_out) fprintf(sens_out, "MONITOR C14-key-material-in-register what=%s value=\"%s\" reg=zmm%d lane=%d\n", what, sens_name[i], r, l);
                                }
                const uint8_t *q = stk;
                size_t left = CAP_STACK - 16;
                while ((q = memchr(q, sens_val[i][0], left - (size_t) (q - stk))) != NULL) {
                        if (!memcmp(q, sens_val[i], 16)) {
                                sens_hits++;
                                if (sens_out) fprintf(sens_out, "MONITOR C14-key-material-in-dead-stack what=%s value=\"%s\" below_rsp=%ld\n", what, sens_name[i], (long) (CAP_STACK - (q - stk)));
                                break;
                        }
                        q++;
                        if ((size_t) (q - stk) >= left) break;
                }
        }
}
#define SCAN(what) sens_scan(what)
#endif
