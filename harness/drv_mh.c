/* Correspondence + monitor driver for the multi-hash functions (C05, C10).
 *
 * drv_mh <alg> <fam> <seed> <nops> <maxlen> <ops_out> <res_out>
 *   alg: mh_sha1 | mh_sha256 | mh_sha1_murmur        fam: base | sse | avx | avx2 | avx512 | pub
 *
 * Generates episodes  E / I / U* / Z  from one PRNG, executes them on the family-specific entry points
 * _<alg>_update_<fam> / _<alg>_finalize_<fam> (family "pub": the dispatched isal_* API) of the library
 * built from the current tree, writes the operation lines (input of the Lean driver `mh_model`) to
 * ops_out and one canonical result line per operation to res_out (same format as the model):
 *   E <alg> <fam>      -> E
 *   I <seed>           -> ok
 *   U <len> <dataseed> -> tot=<total_length> pl=<total_length % 1024> int=<interim words, memory order>
 *                         [ mur=<h1>,<h2>]
 *   Z                  -> dig=<W words>[ mur=<16 bytes>]
 * Independently of the model it runs monitors; a failing monitor prints a line "MONITOR <what>" into
 * res_out (so it also shows up as a diff) and the exit status is 1:
 *   rc        every call returns 0
 *   oracle    final digest == independent computation of the definition with OpenSSL's compression
 *             functions (pad to 1024, deal words to 16 segments, SHA1_Transform per segment block,
 *             SHA1 over the [word][segment] little-endian image); murmur == a local transcription of
 *             the reference MurmurHash3_x64_128 with h1 = h2 = 64-bit seed
 *   oneshot   final digest == base family, same stream in ONE update call (cut independence)
 *   total     ctx->total_length == sum of the update lengths
 *   caller    the caller's buffer is unchanged by update
 */
#define OPENSSL_SUPPRESS_DEPRECATED
#include "common.h"
#include "guard.h"
#include <stddef.h>
#include <openssl/sha.h>
#include "mh_sha1.h"
#include "mh_sha256.h"
#include "mh_sha1_murmur3_x64_128.h"

typedef int (*update_fn)(void *, const void *, uint32_t);
typedef int (*fin2_fn)(void *, void *);
typedef int (*fin3_fn)(void *, void *, void *);

#define DECL(fam)                                                                                   \
        int _mh_sha1_update_##fam(struct isal_mh_sha1_ctx *, const void *, uint32_t);               \
        int _mh_sha1_finalize_##fam(struct isal_mh_sha1_ctx *, void *);                             \
        int _mh_sha256_update_##fam(struct isal_mh_sha256_ctx *, const void *, uint32_t);           \
        int _mh_sha256_finalize_##fam(struct isal_mh_sha256_ctx *, void *);                         \
        int _mh_sha1_murmur3_x64_128_update_##fam(struct isal_mh_sha1_murmur3_x64_128_ctx *,        \
                                                  const void *, uint32_t);                          \
        int _mh_sha1_murmur3_x64_128_finalize_##fam(struct isal_mh_sha1_murmur3_x64_128_ctx *,      \
                                                    void *, void *);
DECL(base) DECL(sse) DECL(avx) DECL(avx2) DECL(avx512)
int _mh_sha1_init(struct isal_mh_sha1_ctx *);
int _mh_sha256_init(struct isal_mh_sha256_ctx *);
int _mh_sha1_murmur3_x64_128_init(struct isal_mh_sha1_murmur3_x64_128_ctx *, uint64_t);

typedef struct {
        const char *alg, *fam;
        void *init, *update, *finalize;
} famdesc;
#define ENT(fam)                                                                                    \
        { "mh_sha1", #fam, (void *) _mh_sha1_init, (void *) _mh_sha1_update_##fam,                  \
          (void *) _mh_sha1_finalize_##fam },                                                       \
        { "mh_sha256", #fam, (void *) _mh_sha256_init, (void *) _mh_sha256_update_##fam,            \
          (void *) _mh_sha256_finalize_##fam },                                                     \
        { "mh_sha1_murmur", #fam, (void *) _mh_sha1_murmur3_x64_128_init,                           \
          (void *) _mh_sha1_murmur3_x64_128_update_##fam,                                           \
          (void *) _mh_sha1_murmur3_x64_128_finalize_##fam },
static const famdesc fams[] = {
        ENT(base) ENT(sse) ENT(avx) ENT(avx2) ENT(avx512)
        { "mh_sha1", "pub", (void *) isal_mh_sha1_init, (void *) isal_mh_sha1_update,
          (void *) isal_mh_sha1_finalize },
        { "mh_sha256", "pub", (void *) isal_mh_sha256_init, (void *) isal_mh_sha256_update,
          (void *) isal_mh_sha256_finalize },
        { "mh_sha1_murmur", "pub", (void *) isal_mh_sha1_murmur3_x64_128_init,
          (void *) isal_mh_sha1_murmur3_x64_128_update, (void *) isal_mh_sha1_murmur3_x64_128_finalize },
        { 0, 0, 0, 0, 0 }
};

/* per-algorithm context layout */
typedef struct {
        const char *alg;
        int W, murmur;
        size_t ctx_size, off_total, off_interim, off_mur;
        void *init_base, *update_base, *finalize_base;
} algdesc;
static const algdesc algs[] = {
        { "mh_sha1", 5, 0, sizeof(struct isal_mh_sha1_ctx), offsetof(struct isal_mh_sha1_ctx, total_length),
          offsetof(struct isal_mh_sha1_ctx, mh_sha1_interim_digests), 0, (void *) _mh_sha1_init,
          (void *) _mh_sha1_update_base, (void *) _mh_sha1_finalize_base },
        { "mh_sha256", 8, 0, sizeof(struct isal_mh_sha256_ctx),
          offsetof(struct isal_mh_sha256_ctx, total_length),
          offsetof(struct isal_mh_sha256_ctx, mh_sha256_interim_digests), 0, (void *) _mh_sha256_init,
          (void *) _mh_sha256_update_base, (void *) _mh_sha256_finalize_base },
        { "mh_sha1_murmur", 5, 1, sizeof(struct isal_mh_sha1_murmur3_x64_128_ctx),
          offsetof(struct isal_mh_sha1_murmur3_x64_128_ctx, total_length),
          offsetof(struct isal_mh_sha1_murmur3_x64_128_ctx, mh_sha1_interim_digests),
          offsetof(struct isal_mh_sha1_murmur3_x64_128_ctx, murmur3_x64_128_digest),
          (void *) _mh_sha1_murmur3_x64_128_init, (void *) _mh_sha1_murmur3_x64_128_update_base,
          (void *) _mh_sha1_murmur3_x64_128_finalize_base },
        { 0 }
};

static const algdesc *A;
static const famdesc *F;
static FILE *fo, *fr;
static long monitor_fail;

static void monitor(const char *what)
{
        fprintf(fr, "MONITOR %s\n", what);
        monitor_fail++;
}

static void do_init(void *init, void *ctx, uint64_t seed)
{
        int rc = A->murmur ? ((int (*)(void *, uint64_t)) init)(ctx, seed) : ((int (*)(void *)) init)(ctx);
        if (rc) monitor("rc init");
}
static void do_final(void *fin, void *ctx, uint32_t *dig, uint8_t *mur)
{
        int rc = A->murmur ? ((fin3_fn) fin)(ctx, dig, mur) : ((fin2_fn) fin)(ctx, dig);
        if (rc) monitor("rc finalize");
}

/* ---- independent oracle: the definition, with OpenSSL compression functions ---- */
static void oracle_mh(const uint8_t *msg, size_t n, int W, uint32_t *out)
{
        size_t padded = (n + 9 + 1023) / 1024 * 1024, nb = padded / 1024;
        uint8_t *p = calloc(padded, 1);
        uint32_t seg[8][16]; /* [word][segment] */
        memcpy(p, msg, n);
        p[n] = 0x80;
        for (int i = 0; i < 8; i++) p[padded - 1 - i] = (uint8_t) (((uint64_t) n * 8) >> (8 * i));
        for (int s = 0; s < 16; s++) {
                SHA_CTX c1;
                SHA256_CTX c2;
                uint8_t blk[64];
                SHA1_Init(&c1);
                SHA256_Init(&c2);
                for (size_t b = 0; b < nb; b++) {
                        for (int i = 0; i < 16; i++) memcpy(blk + 4 * i, p + 1024 * b + 4 * (16 * i + s), 4);
                        if (W == 5) SHA1_Transform(&c1, blk);
                        else SHA256_Transform(&c2, blk);
                }
                if (W == 5) {
                        seg[0][s] = c1.h0; seg[1][s] = c1.h1; seg[2][s] = c1.h2; seg[3][s] = c1.h3;
                        seg[4][s] = c1.h4;
                } else
                        for (int w = 0; w < 8; w++) seg[w][s] = c2.h[w];
        }
        uint8_t md[32];
        if (W == 5) SHA1((uint8_t *) seg, 4 * 5 * 16, md);
        else SHA256((uint8_t *) seg, 4 * 8 * 16, md);
        for (int w = 0; w < W; w++)
                out[w] = (uint32_t) md[4 * w] << 24 | md[4 * w + 1] << 16 | md[4 * w + 2] << 8 | md[4 * w + 3];
        free(p);
}

static inline uint64_t rotl64(uint64_t x, int r) { return (x << r) | (x >> (64 - r)); }
static inline uint64_t fmix64(uint64_t k)
{
        k ^= k >> 33; k *= 0xff51afd7ed558ccdULL; k ^= k >> 33; k *= 0xc4ceb9fe1a85ec53ULL; k ^= k >> 33;
        return k;
}
/* MurmurHash3_x64_128 (smhasher) with h1 = h2 = 64-bit seed */
static void oracle_murmur(const uint8_t *data, size_t len, uint64_t seed, uint8_t *out)
{
        const uint64_t c1 = 0x87c37b91114253d5ULL, c2 = 0x4cf5ad432745937fULL;
        uint64_t h1 = seed, h2 = seed, k1, k2;
        size_t nblocks = len / 16;
        for (size_t i = 0; i < nblocks; i++) {
                memcpy(&k1, data + 16 * i, 8);
                memcpy(&k2, data + 16 * i + 8, 8);
                k1 *= c1; k1 = rotl64(k1, 31); k1 *= c2; h1 ^= k1;
                h1 = rotl64(h1, 27); h1 += h2; h1 = h1 * 5 + 0x52dce729;
                k2 *= c2; k2 = rotl64(k2, 33); k2 *= c1; h2 ^= k2;
                h2 = rotl64(h2, 31); h2 += h1; h2 = h2 * 5 + 0x38495ab5;
        }
        const uint8_t *tail = data + nblocks * 16;
        k1 = k2 = 0;
        switch (len & 15) {
        case 15: k2 ^= (uint64_t) tail[14] << 48; /* fall through */
        case 14: k2 ^= (uint64_t) tail[13] << 40; /* fall through */
        case 13: k2 ^= (uint64_t) tail[12] << 32; /* fall through */
        case 12: k2 ^= (uint64_t) tail[11] << 24; /* fall through */
        case 11: k2 ^= (uint64_t) tail[10] << 16; /* fall through */
        case 10: k2 ^= (uint64_t) tail[9] << 8; /* fall through */
        case 9: k2 ^= (uint64_t) tail[8];
                k2 *= c2; k2 = rotl64(k2, 33); k2 *= c1; h2 ^= k2; /* fall through */
        case 8: k1 ^= (uint64_t) tail[7] << 56; /* fall through */
        case 7: k1 ^= (uint64_t) tail[6] << 48; /* fall through */
        case 6: k1 ^= (uint64_t) tail[5] << 40; /* fall through */
        case 5: k1 ^= (uint64_t) tail[4] << 32; /* fall through */
        case 4: k1 ^= (uint64_t) tail[3] << 24; /* fall through */
        case 3: k1 ^= (uint64_t) tail[2] << 16; /* fall through */
        case 2: k1 ^= (uint64_t) tail[1] << 8; /* fall through */
        case 1: k1 ^= (uint64_t) tail[0];
                k1 *= c1; k1 = rotl64(k1, 31); k1 *= c2; h1 ^= k1;
        }
        h1 ^= len; h2 ^= len;
        h1 += h2; h2 += h1;
        h1 = fmix64(h1); h2 = fmix64(h2);
        h1 += h2; h2 += h1;
        memcpy(out, &h1, 8);
        memcpy(out + 8, &h2, 8);
}

/* ---- episode ---- */
static void show_ctx(const uint8_t *ctx)
{
        uint64_t tot = *(const uint64_t *) (ctx + A->off_total);
        const uint32_t *in = (const uint32_t *) (ctx + A->off_interim);
        fprintf(fr, "tot=%llu pl=%u int=", (unsigned long long) tot, (unsigned) (tot % 1024));
        for (int i = 0; i < 16 * A->W; i++) fprintf(fr, "%s%08x", i ? "," : "", in[i]);
        if (A->murmur) {
                const uint64_t *m = (const uint64_t *) (ctx + A->off_mur);
                fprintf(fr, " mur=%016llx,%016llx", (unsigned long long) m[0], (unsigned long long) m[1]);
        }
        fputc('\n', fr);
}
static void show_digest(const uint32_t *dig, const uint8_t *mur)
{
        fprintf(fr, "dig=");
        for (int i = 0; i < A->W; i++) fprintf(fr, "%s%08x", i ? "," : "", dig[i]);
        if (A->murmur) {
                fprintf(fr, " mur=");
                hex_out(fr, mur, 16);
        }
        fputc('\n', fr);
}

static uint32_t pick_len(rng_t *r, uint32_t maxlen, uint64_t tot)
{
        static const uint32_t special[] = { 0, 1, 2, 15, 16, 17, 63, 64, 65, 1015, 1016, 1017, 1023,
                                            1024, 1025, 2047, 2048, 2049, 3072, 4096 };
        uint32_t fill = 1024 - (uint32_t) (tot % 1024), l;
        switch (rng_below(r, 8)) {
        case 0: l = special[rng_below(r, sizeof special / sizeof special[0])]; break;
        case 1: l = rng_below(r, 40); break;
        case 2: l = fill - 1 + rng_below(r, 3); break;             /* just short of / exactly / past the block */
        case 3: l = fill + 1024 * rng_below(r, 4) + rng_below(r, 2); break;
        case 4: l = 1024 * rng_below(r, 9) + rng_below(r, 3) - 1; break;
        case 5: l = fill > 9 ? fill - 9 + rng_below(r, 3) : 0; break; /* tail around the 1016 threshold */
        case 6: l = rng_below(r, 2200); break;
        default: l = rng_below(r, maxlen + 1); break;
        }
        if (l == (uint32_t) -1) l = 0;
        return l > maxlen ? maxlen : l;
}

int main(int argc, char **argv)
{
        if (argc != 8) {
                fprintf(stderr, "usage: drv_mh alg fam seed nops maxlen ops_out res_out\n");
                return 2;
        }
        for (A = algs; A->alg && strcmp(A->alg, argv[1]); A++) ;
        for (F = fams; F->alg && (strcmp(F->alg, argv[1]) || strcmp(F->fam, argv[2])); F++) ;
        if (!A->alg || !F->alg) { fprintf(stderr, "unknown alg/fam\n"); return 2; }
        uint64_t seed = strtoull(argv[3], 0, 10);
        long nops = atol(argv[4]);
        uint32_t maxlen = (uint32_t) strtoul(argv[5], 0, 10);
        fo = fopen(argv[6], "w");
        fr = fopen(argv[7], "w");
        if (!fo || !fr) { perror("open"); return 2; }
        guard_setup();
        guard_out = fr;

        rng_t r;
        rng_seed(&r, seed);
        arena_setup();
        uint8_t *ctx, *ref;
        if (posix_memalign((void **) &ctx, 64, A->ctx_size) || posix_memalign((void **) &ref, 64, A->ctx_size))
                return 2;
        uint8_t *buf = malloc((size_t) maxlen + 128), *copy = malloc((size_t) maxlen + 1);
        size_t msgcap = 1 << 20, msglen;
        uint8_t *msg = malloc(msgcap);
        long ops = 0, episodes = 0;

        while (ops < nops) {
                uint64_t mseed = rng_below(&r, 4) == 0 ? 0 : rng_u64(&r);
                int nupd = rng_below(&r, 4) == 0 ? (int) rng_below(&r, 3) : (int) rng_below(&r, 14);
                /* junk in the context before init: init must not depend on it */
                xs_bytes(rng_u64(&r), ctx, A->ctx_size);
                {       /* C20 paired executions: a different junk pattern, same declared inputs (rng stream untouched) */
                        const char *pz = getenv("VERIF_POISON");
                        if (pz && atoi(pz))
                                for (size_t q = 0; q < A->ctx_size; q++)
                                        ctx[q] ^= (uint8_t) (0x6B * atoi(pz) + q * 13);
                }
                fprintf(fo, "E %s %s\n", A->alg, F->fam);
                fprintf(fr, "E\n");
                fprintf(fo, "I %llu\n", (unsigned long long) mseed);
                do_init(F->init, ctx, mseed);
                fprintf(fr, "ok\n");
                ops += 2;
                msglen = 0;
                uint64_t tot = 0;
                /* one episode in three: jump the running total (a whole number of 1024-byte blocks, so the
                   partial-block position stays consistent) across 2^29 / 2^30 / 2^31 or close to 2^32, as if
                   that many bytes had been hashed; no oracle exists for such an episode, the Lean model
                   (same jump) is the reference for the length arithmetic of update / finalize */
                int jump_at = rng_below(&r, 3) == 0 ? (int) rng_below(&r, nupd + 1) : -1, jumped = 0;
                for (int u = 0; u < nupd; u++, ops++) {
                        if (u == jump_at) {
                                static const uint64_t marks[] = { 1ull << 29, 1ull << 30, 1ull << 31, (1ull << 32) - (1ull << 26), 3ull << 29 };
                                uint64_t mark = marks[rng_below(&r, 5)];
                                uint64_t want = mark - 1024 * (uint64_t) rng_below(&r, 4) - (rng_below(&r, 2) ? 0 : (uint64_t) 1024 * rng_below(&r, 2048));
                                if (want > tot + 1024) {
                                        uint64_t delta = (want - tot) / 1024 * 1024;
                                        fprintf(fo, "T %llu\n", (unsigned long long) delta);
                                        *(uint64_t *) (ctx + A->off_total) += delta;
                                        tot += delta;
                                        jumped = 1;
                                        show_ctx(ctx);
                                        ops++;
                                }
                        }
                        uint32_t len = pick_len(&r, maxlen, tot);
                        uint64_t dseed = rng_u64(&r);
                        uint8_t *sd = rng_below(&r, 6) == 0 ? arena_straddle(&r, len, 1) : NULL;   /* across a 4 GiB boundary */
                        uint8_t *data = sd ? sd : buf + rng_below(&r, 64);
                        xs_bytes(dseed, data, len);
                        memcpy(copy, data, len);
                        fprintf(fo, "U %u %llu\n", len, (unsigned long long) dseed);
                        if (guard_mode) {       /* C08: the update's bytes end (mode 1) / begin (mode 2) at an unmapped page */
                                uint8_t *gb = guard_alloc_al(len ? len : 1, 0);
                                memcpy(gb, data, len);
                                guard_op = "update";
                                guard_opno = ops;
                                if (((update_fn) F->update)(ctx, gb, len)) monitor("rc update");
                                guard_free(gb);
                        } else if (((update_fn) F->update)(ctx, data, len)) monitor("rc update");
                        if (memcmp(copy, data, len)) monitor("caller buffer modified");
                        if (sd) arena_release();
                        tot += len;
                        if (*(uint64_t *) (ctx + A->off_total) != tot) monitor("total_length");
                        if (msglen + len > msgcap) msg = realloc(msg, msgcap = 2 * (msglen + len));
                        memcpy(msg + msglen, data, len);
                        msglen += len;
                        show_ctx(ctx);
                }
                uint32_t dig[8] = { 0 }, dig2[8] = { 0 };
                uint8_t mur[16] = { 0 }, mur2[16] = { 0 };
                fprintf(fo, "Z\n");
                do_final(F->finalize, ctx, dig, mur);
                show_digest(dig, mur);
                ops++;
                episodes++;
                /* monitors */
                if (jumped) continue;
                oracle_mh(msg, msglen, A->W, dig2);
                if (memcmp(dig, dig2, 4 * A->W)) monitor("oracle mh digest");
                if (A->murmur) {
                        oracle_murmur(msg, msglen, mseed, mur2);
                        if (memcmp(mur, mur2, 16)) monitor("oracle murmur");
                }
                memset(dig2, 0, sizeof dig2);
                memset(mur2, 0, sizeof mur2);
                do_init(A->init_base, ref, mseed);
                if (((update_fn) A->update_base)(ref, msg, (uint32_t) msglen)) monitor("rc update");
                do_final(A->finalize_base, ref, dig2, mur2);
                if (memcmp(dig, dig2, 4 * A->W) || memcmp(mur, mur2, 16)) monitor("oneshot base");
        }
        fclose(fo);
        fclose(fr);
        printf("drv_mh %s %s seed=%llu ops=%ld episodes=%ld monitor_failures=%ld\n", A->alg, F->fam,
               (unsigned long long) seed, ops, episodes, monitor_fail);
        return monitor_fail ? 1 : 0;
}
