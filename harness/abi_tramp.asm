; C19 dynamic correspondence: ABI trampoline.
;
;   uint64_t abi_call(struct abi_frame *f);
;
; Loads rbx, rbp, r12-r15 with the seeds of the frame, puts 8 canary qwords directly above the
; outgoing stack-argument area, records MXCSR / x87 CW / rsp, calls f->target with up to 6 register and
; 4 stack arguments (rsp 16-byte aligned at the call, DF clear), and afterwards records the
; callee-saved registers, rsp, MXCSR, x87 CW, RFLAGS, the canaries and the stack-argument slots.
; The C side (drv_abi.c) compares.  Not re-entrant (keeps the frame pointer and rsp in .bss).

default rel
section .bss
abi_cur_frame:  resq 1
abi_saved_rsp:  resq 1

struc FR
  .target   resq 1
  .args     resq 6
  .stk      resq 4
  .seed     resq 6          ; rbx rbp r12 r13 r14 r15 before the call
  .out      resq 6          ; the same registers after the call
  .rsp0     resq 1
  .rsp1     resq 1
  .mxcsr0   resd 1
  .mxcsr1   resd 1
  .cw0      resw 1
  .cw1      resw 1
  .pad      resd 1
  .flags1   resq 1
  .canary   resq 8          ; canary qwords read back after the call
  .stk1     resq 4          ; stack-argument slots read back after the call
  .ret      resq 1
endstruc

%define CANARY 0x5ca1ab1e0ddba11

section .text
global abi_call:function
abi_call:
        push    rbx
        push    rbp
        push    r12
        push    r13
        push    r14
        push    r15
        ; entry rsp = 8 mod 16; after 6 pushes still 8 mod 16; 120 more makes it 0 mod 16
        sub     rsp, 120
        ; layout: [rsp+0..32) stack args | [rsp+32..96) canaries | [rsp+96..120) spare
        mov     [abi_cur_frame], rdi
        mov     [abi_saved_rsp], rsp
        mov     r11, rdi
        mov     rax, CANARY
%assign i 0
%rep 8
        mov     [rsp + 32 + 8*i], rax
        add     rax, 0x1111
%assign i i+1
%endrep
%assign i 0
%rep 4
        mov     rax, [r11 + FR.stk + 8*i]
        mov     [rsp + 8*i], rax
%assign i i+1
%endrep
        stmxcsr [r11 + FR.mxcsr0]
        fnstcw  [r11 + FR.cw0]
        mov     [r11 + FR.rsp0], rsp
        mov     rbx, [r11 + FR.seed + 0]
        mov     rbp, [r11 + FR.seed + 8]
        mov     r12, [r11 + FR.seed + 16]
        mov     r13, [r11 + FR.seed + 24]
        mov     r14, [r11 + FR.seed + 32]
        mov     r15, [r11 + FR.seed + 40]
        mov     rsi, [r11 + FR.args + 8]
        mov     rdx, [r11 + FR.args + 16]
        mov     rcx, [r11 + FR.args + 24]
        mov     r8,  [r11 + FR.args + 32]
        mov     r9,  [r11 + FR.args + 40]
        mov     rax, [r11 + FR.target]
        mov     rdi, [r11 + FR.args + 0]
        cld
        call    rax
        ; ---- after the call: nothing below may be trusted except .bss
        mov     r11, [abi_cur_frame]
        mov     [r11 + FR.ret], rax
        mov     [r11 + FR.out + 0], rbx
        mov     [r11 + FR.out + 8], rbp
        mov     [r11 + FR.out + 16], r12
        mov     [r11 + FR.out + 24], r13
        mov     [r11 + FR.out + 32], r14
        mov     [r11 + FR.out + 40], r15
        mov     [r11 + FR.rsp1], rsp
        pushfq
        pop     rax
        mov     [r11 + FR.flags1], rax
        cld
        stmxcsr [r11 + FR.mxcsr1]
        fnstcw  [r11 + FR.cw1]
        mov     rsp, [abi_saved_rsp]
%assign i 0
%rep 8
        mov     rax, [rsp + 32 + 8*i]
        mov     [r11 + FR.canary + 8*i], rax
%assign i i+1
%endrep
%assign i 0
%rep 4
        mov     rax, [rsp + 8*i]
        mov     [r11 + FR.stk1 + 8*i], rax
%assign i i+1
%endrep
        ; restore a sane environment for the C caller
        ldmxcsr [r11 + FR.mxcsr0]
        fldcw   [r11 + FR.cw0]
        mov     rax, [r11 + FR.ret]
        add     rsp, 120
        pop     r15
        pop     r14
        pop     r13
        pop     r12
        pop     rbp
        pop     rbx
        ret

; a deliberately broken callee for the self-test of the harness: clobbers r13, sets DF, changes MXCSR,
; overwrites the first canary
global abi_bad_callee:function
abi_bad_callee:
        xor     r13, r13
        std
        sub     rsp, 8
        stmxcsr [rsp]
        xor     dword [rsp], 0x6000          ; rounding mode
        ldmxcsr [rsp]
        add     rsp, 8
        mov     qword [rsp + 8 + 32], 0      ; first canary (above the 4 stack argument slots)
        ret

section .note.GNU-stack noalloc noexec nowrite progbits
