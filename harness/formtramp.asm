; instruction-form validation: run ONE instruction on a given register file, return the register file.
;   void form_run(void *code, const uint64_t in[16]);     result in form_out[16]
; `code` = instruction bytes followed by `jmp [rip+0]` + address of form_back (built by the C side).
default rel
section .bss
alignb 64
global form_out
form_out:       resq 16
form_saved_rsp: resq 1
form_code:      resq 1
section .text
global form_run:function
global form_back:function
form_run:
        push    rbx
        push    rbp
        push    r12
        push    r13
        push    r14
        push    r15
        mov     [form_saved_rsp], rsp
        mov     [form_code], rdi
        mov     rax, [rsi + 0]
        mov     rcx, [rsi + 8]
        mov     rdx, [rsi + 16]
        mov     rbx, [rsi + 24]
        mov     rsp, [rsi + 32]
        mov     rbp, [rsi + 40]
        mov     rdi, [rsi + 56]
        mov     r8,  [rsi + 64]
        mov     r9,  [rsi + 72]
        mov     r10, [rsi + 80]
        mov     r11, [rsi + 88]
        mov     r12, [rsi + 96]
        mov     r13, [rsi + 104]
        mov     r14, [rsi + 112]
        mov     r15, [rsi + 120]
        mov     rsi, [rsi + 48]
        jmp     [form_code]
form_back:
        mov     [form_out + 0], rax
        mov     [form_out + 8], rcx
        mov     [form_out + 16], rdx
        mov     [form_out + 24], rbx
        mov     [form_out + 32], rsp
        mov     [form_out + 40], rbp
        mov     [form_out + 48], rsi
        mov     [form_out + 56], rdi
        mov     [form_out + 64], r8
        mov     [form_out + 72], r9
        mov     [form_out + 80], r10
        mov     [form_out + 88], r11
        mov     [form_out + 96], r12
        mov     [form_out + 104], r13
        mov     [form_out + 112], r14
        mov     [form_out + 120], r15
        mov     rsp, [form_saved_rsp]
        cld
        pop     r15
        pop     r14
        pop     r13
        pop     r12
        pop     rbp
        pop     rbx
        ret
section .note.GNU-stack noalloc noexec nowrite progbits
