/-! Throw-away prototype: the FIPS self-test once-protocol (fips/asm_self_tests.asm + fips/self_tests.c)
    as a transition system over any number of threads; safety invariants. -/
inductive PC where
  | start | tested (v : Nat) | claim | spin | reload | cret (r : Nat)
  | runAes | runSha (a : Nat) | publish (r : Nat) | done (v : Nat)
deriving DecidableEq, Repr

structure G where
  status  : Nat
  entered : Nat               -- ghost: number of entries into the self tests
  owner   : Option Nat        -- ghost: index of the thread that won the cmpxchg
  th      : List PC

def isWinner : PC → Bool
  | .cret 2 | .runAes | .runSha _ | .publish _ => true
  | _ => false

def verdictOf (r : Nat) : Nat := if r = 0 then 0 else 1

inductive Step (vals : List Nat) : G → G → Prop where
  | load {g : G} {i : Nat} : g.th[i]? = some PC.start → Step vals g { g with th := g.th.set i (PC.tested g.status) }
  | testDone {g : G} {i v : Nat} : g.th[i]? = some (PC.tested v) → v &&& 2 = 0 → Step vals g { g with th := g.th.set i (PC.cret v) }
  | testNot {g : G} {i v : Nat} : g.th[i]? = some (PC.tested v) → v &&& 2 ≠ 0 → Step vals g { g with th := g.th.set i PC.claim }
  | claimWin {g : G} {i : Nat} : g.th[i]? = some PC.claim → g.status = 2 →
      Step vals g { g with status := 3, owner := some i, th := g.th.set i (PC.cret 2) }
  | claimLose {g : G} {i : Nat} : g.th[i]? = some PC.claim → g.status ≠ 2 → Step vals g { g with th := g.th.set i PC.spin }
  | spinStay {g : G} {i : Nat} : g.th[i]? = some PC.spin → g.status = 3 → Step vals g g
  | spinExit {g : G} {i : Nat} : g.th[i]? = some PC.spin → g.status ≠ 3 → Step vals g { g with th := g.th.set i PC.reload }
  | reload {g : G} {i : Nat} : g.th[i]? = some PC.reload → Step vals g { g with th := g.th.set i (PC.cret g.status) }
  | c0 {g : G} {i : Nat} : g.th[i]? = some (PC.cret 0) → Step vals g { g with th := g.th.set i (PC.done 0) }
  | c1 {g : G} {i : Nat} : g.th[i]? = some (PC.cret 1) → Step vals g { g with th := g.th.set i (PC.done 1) }
  | cRun {g : G} {i r : Nat} : g.th[i]? = some (PC.cret r) → r ≠ 0 → r ≠ 1 → Step vals g { g with th := g.th.set i PC.runAes }
  | aes {g : G} {i a : Nat} : g.th[i]? = some PC.runAes → a ∈ vals →
      Step vals g { g with entered := g.entered + 1, th := g.th.set i (PC.runSha a) }
  | sha {g : G} {i a b : Nat} : g.th[i]? = some (PC.runSha a) → b ∈ vals → Step vals g { g with th := g.th.set i (PC.publish (a ||| b)) }
  | pub {g : G} {i r : Nat} : g.th[i]? = some (PC.publish r) →
      Step vals g { g with status := r, owner := none, th := g.th.set i (PC.done (verdictOf r)) }

inductive Reach (vals : List Nat) (n : Nat) : G → Prop where
  | init : Reach vals n ⟨2, 0, none, List.replicate n PC.start⟩
  | step {g g'} : Reach vals n g → Step vals g g' → Reach vals n g'

def okPC (status entered : Nat) : PC → Prop
  | .start => True
  | .tested v => (v = 0 ∨ v = 1 ∨ v = 2 ∨ v = 3) ∧ ((v = 0 ∨ v = 1) → status = v)
  | .claim => True
  | .spin => status ≠ 2
  | .reload => status = 0 ∨ status = 1
  | .cret r => ((r = 0 ∨ r = 1) ∧ status = r) ∨ (r = 2 ∧ status = 3 ∧ entered = 0)
  | .runAes => status = 3 ∧ entered = 0
  | .runSha a => status = 3 ∧ entered = 1 ∧ (a = 0 ∨ a = 1)
  | .publish r => status = 3 ∧ entered = 1 ∧ (r = 0 ∨ r = 1)
  | .done v => (status = 0 ∨ status = 1) ∧ v = status

structure PInv (g : G) : Prop where
  st   : g.status = 0 ∨ g.status = 1 ∨ g.status = 2 ∨ g.status = 3
  own  : g.status ≠ 3 → g.owner = none
  own3 : g.status = 3 → ∃ (i : Nat) (pc : PC), g.owner = some i ∧ g.th[i]? = some pc ∧ isWinner pc = true
  uniq : ∀ (j : Nat) (pc : PC), g.th[j]? = some pc → isWinner pc = true → g.owner = some j
  e2   : g.status = 2 → g.entered = 0
  e01  : (g.status = 0 ∨ g.status = 1) → g.entered = 1
  ent  : g.entered ≤ 1
  loc  : ∀ (j : Nat) (pc : PC), g.th[j]? = some pc → okPC g.status g.entered pc

theorem get_set {l : List PC} {i j : Nat} {x pc : PC} (h : (l.set i x)[j]? = some pc) :
    (j = i ∧ pc = x) ∨ (j ≠ i ∧ l[j]? = some pc) := by
  rw [List.getElem?_set] at h
  split at h
  · rename_i hij
    split at h
    · left; exact ⟨hij.symm, by simpa using h.symm⟩
    · simp at h
  · rename_i hij; right; exact ⟨fun e => hij e.symm, h⟩

theorem or01 {a b : Nat} (ha : a = 0 ∨ a = 1) (hb : b = 0 ∨ b = 1) : (a ||| b) = 0 ∨ (a ||| b) = 1 := by
  rcases ha with rfl | rfl <;> rcases hb with rfl | rfl <;> decide

theorem and2 {v : Nat} (hv : v = 0 ∨ v = 1 ∨ v = 2 ∨ v = 3) : (v &&& 2 = 0 ↔ (v = 0 ∨ v = 1)) := by
  rcases hv with rfl | rfl | rfl | rfl <;> decide

theorem init_inv (n : Nat) : PInv ⟨2, 0, none, List.replicate n PC.start⟩ where
  st := by simp
  own := by simp
  own3 := by simp
  uniq := by
    intro j pc h hw
    have : pc = PC.start := by
      have := List.getElem?_replicate (a := PC.start) (n := n) (i := j); rw [this] at h; split at h <;> simp_all
    subst this; simp [isWinner] at hw
  e2 := by simp
  e01 := by simp
  ent := by simp
  loc := by
    intro j pc h
    have : pc = PC.start := by
      have := List.getElem?_replicate (a := PC.start) (n := n) (i := j); rw [this] at h; split at h <;> simp_all
    subst this; trivial

theorem nw_cret {r : Nat} (h : isWinner (PC.cret r) = false) : r ≠ 2 := by
  intro hr; subst hr; simp [isWinner] at h

/-- a non-winner thread's local invariant survives the three global changes -/
theorem others_ok {s e s' e' : Nat} {pc : PC} (hl : okPC s e pc) (hnw : isWinner pc = false)
    (hch : (s = 2 ∧ s' = 3 ∧ e' = e) ∨ (s = 3 ∧ s' = 3 ∧ e = 0 ∧ e' = 1) ∨ (s = 3 ∧ e = 1 ∧ e' = 1 ∧ (s' = 0 ∨ s' = 1))) :
    okPC s' e' pc := by
  cases pc with
  | start => trivial
  | claim => trivial
  | tested v => simp only [okPC] at hl ⊢; omega
  | spin => simp only [okPC] at hl ⊢; omega
  | reload => simp only [okPC] at hl ⊢; omega
  | cret r => have := nw_cret hnw; simp only [okPC] at hl ⊢; omega
  | done v => simp only [okPC] at hl ⊢; omega
  | runAes => simp [isWinner] at hnw
  | runSha a => simp [isWinner] at hnw
  | publish r => simp [isWinner] at hnw

/-- steps that only move one thread and keep status / entered / owner -/
theorem local_inv {g : G} {i : Nat} {old new : PC} (h : PInv g) (hi : g.th[i]? = some old)
    (hw : isWinner new = isWinner old) (hok : okPC g.status g.entered new) :
    PInv { g with th := g.th.set i new } where
  st := h.st
  own := h.own
  own3 := by
    intro h3
    obtain ⟨k, pc, hk, hpc, hwin⟩ := h.own3 h3
    by_cases hki : k = i
    · subst hki
      have : pc = old := by rw [hi] at hpc; exact (Option.some.inj hpc).symm
      subst this
      refine ⟨k, new, hk, ?_, by rw [hw]; exact hwin⟩
      have hlt : k < g.th.length := (List.getElem?_eq_some_iff.mp hi).1
      simp [List.getElem?_set, hlt]
    · refine ⟨k, pc, hk, ?_, hwin⟩
      simp only [List.getElem?_set]; rw [if_neg (fun e => hki e.symm)]; exact hpc
  uniq := by
    intro j pc hj hwin
    rcases get_set hj with ⟨rfl, rfl⟩ | ⟨_, hj'⟩
    · exact h.uniq j old hi (by rw [← hw]; exact hwin)
    · exact h.uniq j pc hj' hwin
  e2 := h.e2
  e01 := h.e01
  ent := h.ent
  loc := by
    intro j pc hj
    rcases get_set hj with ⟨rfl, rfl⟩ | ⟨_, hj'⟩
    · exact hok
    · exact h.loc j pc hj'

theorem step_inv {vals : List Nat} (hv : ∀ v ∈ vals, v = 0 ∨ v = 1) {g g' : G}
    (h : PInv g) (hs : Step vals g g') : PInv g' := by
  cases hs with
  | load hi => exact local_inv h hi rfl (by simp [okPC]; exact h.st)
  | @testDone i v hi hz =>
    have hl := h.loc i _ hi; simp only [okPC] at hl
    have hv01 := (and2 hl.1).mp hz
    refine local_inv h hi ?_ (by simp only [okPC]; exact Or.inl ⟨hv01, hl.2 hv01⟩)
    rcases hv01 with rfl | rfl <;> rfl
  | testNot hi hz => exact local_inv h hi rfl trivial
  | @claimWin i hi h2 =>
    have hlt : i < g.th.length := (List.getElem?_eq_some_iff.mp hi).1
    have hnone := h.own (by omega)
    refine ⟨by simp, by simp, ?_, ?_, by simp, by simp, h.ent, ?_⟩
    · intro _; exact ⟨i, PC.cret 2, rfl, by simp [List.getElem?_set, hlt], rfl⟩
    · intro j pc hj hwin
      rcases get_set hj with ⟨rfl, rfl⟩ | ⟨_, hj'⟩
      · rfl
      · have := h.uniq j pc hj' hwin; rw [hnone] at this; cases this
    · intro j pc hj
      rcases get_set hj with ⟨rfl, rfl⟩ | ⟨_, hj'⟩
      · simp [okPC, h.e2 h2]
      · have hl := h.loc j pc hj'
        have hnw : isWinner pc = false := by
          cases hw : isWinner pc with
          | false => rfl
          | true => have := h.uniq j pc hj' hw; rw [hnone] at this; cases this
        exact others_ok hl hnw (Or.inl ⟨h2, rfl, rfl⟩)
  | claimLose hi hne => exact local_inv h hi rfl hne
  | spinStay hi h3 => exact h
  | @spinExit i hi hne =>
    refine local_inv h hi rfl ?_
    simp only [okPC]
    -- status ≠ 3 and (since this thread failed the claim earlier) not necessarily ≠ 2 : need status ∈ {0,1}
    have hl := h.loc _ _ hi; simp only [okPC] at hl
    rcases h.st with h0 | h1 | h2 | h3
    · exact Or.inl h0
    · exact Or.inr h1
    · exact absurd h2 hl
    · exact absurd h3 hne
  | reload hi =>
    have hl := h.loc _ _ hi; simp only [okPC] at hl
    refine local_inv h hi ?_ (by simp [okPC]; exact Or.inl hl)
    rcases hl with h0 | h0 <;> simp [isWinner, h0]
  | c0 hi => 
    have hl := h.loc _ _ hi; simp only [okPC] at hl
    refine local_inv h hi rfl ?_
    simp only [okPC]; rcases hl with ⟨_, hs⟩ | ⟨h2, _⟩
    · exact ⟨Or.inl hs, hs.symm⟩
    · cases h2
  | c1 hi =>
    have hl := h.loc _ _ hi; simp only [okPC] at hl
    refine local_inv h hi rfl ?_
    simp only [okPC]; rcases hl with ⟨_, hs⟩ | ⟨h2, _⟩
    · exact ⟨Or.inr hs, hs.symm⟩
    · cases h2
  | @cRun i r hi h0 h1 =>
    have hl := h.loc _ _ hi; simp only [okPC] at hl
    rcases hl with ⟨h01, _⟩ | ⟨rfl, h3, he⟩
    · rcases h01 with rfl | rfl <;> contradiction
    · exact local_inv h hi rfl (by simp only [okPC]; exact ⟨h3, he⟩)
  | @aes i a hi ha =>
    have hl := h.loc _ _ hi; simp only [okPC] at hl
    obtain ⟨h3, he⟩ := hl
    have hown := h.uniq i _ hi rfl
    have hlt : i < g.th.length := (List.getElem?_eq_some_iff.mp hi).1
    refine ⟨h.st, h.own, ?_, ?_, ?_, ?_, by simp; omega, ?_⟩
    · intro _; exact ⟨i, PC.runSha a, hown, by simp [List.getElem?_set, hlt], rfl⟩
    · intro j pc hj hwin
      rcases get_set hj with ⟨rfl, rfl⟩ | ⟨_, hj'⟩
      · exact hown
      · exact h.uniq j pc hj' hwin
    · intro h2; simp at h2; omega
    · intro h01; simp at h01; omega
    · intro j pc hj
      rcases get_set hj with ⟨rfl, rfl⟩ | ⟨hne, hj'⟩
      · simp only [okPC]; exact ⟨h3, by simp [he], hv a ha⟩
      · have hl := h.loc j pc hj'
        have hnw : isWinner pc = false := by
          cases hw : isWinner pc with
          | false => rfl
          | true => have := h.uniq j pc hj' hw; rw [hown] at this; exact absurd (Option.some.inj this).symm hne
        exact others_ok hl hnw (Or.inr (Or.inl ⟨h3, h3, he, by simp [he]⟩))
  | @sha i a b hi hb =>
    have hl := h.loc _ _ hi; simp only [okPC] at hl
    exact local_inv h hi rfl (by simp only [okPC]; exact ⟨hl.1, hl.2.1, or01 hl.2.2 (hv b hb)⟩)
  | @pub i r hi =>
    have hl := h.loc _ _ hi; simp only [okPC] at hl
    obtain ⟨h3, he, hr⟩ := hl
    have hown := h.uniq i _ hi rfl
    refine ⟨by simp; omega, by simp, ?_, ?_, ?_, ?_, h.ent, ?_⟩
    · intro hr3; simp at hr3; omega
    · intro j pc hj hwin
      rcases get_set hj with ⟨rfl, rfl⟩ | ⟨hne, hj'⟩
      · simp [isWinner] at hwin
      · have := h.uniq j pc hj' hwin; rw [hown] at this; exact absurd (Option.some.inj this).symm hne
    · intro h2; simp at h2; omega
    · intro _; exact he
    · intro j pc hj
      rcases get_set hj with ⟨rfl, rfl⟩ | ⟨hne, hj'⟩
      · simp only [okPC, verdictOf]; rcases hr with rfl | rfl <;> simp
      · have hl := h.loc j pc hj'
        have hnw : isWinner pc = false := by
          cases hw : isWinner pc with
          | false => rfl
          | true => have := h.uniq j pc hj' hw; rw [hown] at this; exact absurd (Option.some.inj this).symm hne
        exact others_ok hl hnw (Or.inr (Or.inr ⟨h3, he, he, hr⟩))


theorem reach_inv {vals : List Nat} (hv : ∀ v ∈ vals, v = 0 ∨ v = 1) {n : Nat} {g : G}
    (h : Reach vals n g) : PInv g := by
  induction h with
  | init => exact init_inv n
  | step _ hs ih => exact step_inv hv ih hs

/-- C17 safety, for every number of threads and every interleaving:
    the self tests are entered at most once; a thread that has returned did so after the verdict was
    published, and its return value is that verdict (so no thread returns success early, and all agree). -/
theorem once_and_agree {vals : List Nat} (hv : ∀ v ∈ vals, v = 0 ∨ v = 1) {n : Nat} {g : G}
    (h : Reach vals n g) :
    g.entered ≤ 1 ∧
    ∀ (j v : Nat), g.th[j]? = some (PC.done v) → (g.status = 0 ∨ g.status = 1) ∧ v = g.status ∧ g.entered = 1 := by
  have hi := reach_inv hv h
  refine ⟨hi.ent, fun j v hj => ?_⟩
  have := hi.loc j _ hj
  simp only [okPC] at this
  exact ⟨this.1, this.2, hi.e01 this.1⟩

#print axioms once_and_agree

/-! ### liveness under a fair scheduler -/

/-- deterministic firing of thread `i`; `c` resolves the self-test outcome (c % 2) -/
def fire (g : G) (i c : Nat) : G :=
  match g.th[i]? with
  | some PC.start => { g with th := g.th.set i (PC.tested g.status) }
  | some (PC.tested v) => if v &&& 2 = 0 then { g with th := g.th.set i (PC.cret v) } else { g with th := g.th.set i PC.claim }
  | some PC.claim => if g.status = 2 then { g with status := 3, owner := some i, th := g.th.set i (PC.cret 2) }
                     else { g with th := g.th.set i PC.spin }
  | some PC.spin => if g.status = 3 then g else { g with th := g.th.set i PC.reload }
  | some PC.reload => { g with th := g.th.set i (PC.cret g.status) }
  | some (PC.cret r) => if r = 0 then { g with th := g.th.set i (PC.done 0) }
                        else if r = 1 then { g with th := g.th.set i (PC.done 1) }
                        else { g with th := g.th.set i PC.runAes }
  | some PC.runAes => { g with entered := g.entered + 1, th := g.th.set i (PC.runSha (c % 2)) }
  | some (PC.runSha a) => { g with th := g.th.set i (PC.publish (a ||| (c % 2))) }
  | some (PC.publish r) => { g with status := r, owner := none, th := g.th.set i (PC.done (verdictOf r)) }
  | some (PC.done _) => g
  | none => g

theorem mod2_mem (c : Nat) : c % 2 ∈ [0, 1] := by
  have : c % 2 = 0 ∨ c % 2 = 1 := by omega
  rcases this with h | h <;> simp [h]

theorem fire_step (g : G) (i c : Nat) : fire g i c = g ∨ Step [0, 1] g (fire g i c) := by
  unfold fire
  split
  · right; exact Step.load ‹_›
  · split
    · right; exact Step.testDone ‹_› ‹_›
    · right; exact Step.testNot ‹_› ‹_›
  · split
    · right; exact Step.claimWin ‹_› ‹_›
    · right; exact Step.claimLose ‹_› ‹_›
  · split
    · left; rfl
    · right; exact Step.spinExit ‹_› ‹_›
  · right; exact Step.reload ‹_›
  · split
    · rename_i r h hr; subst hr; right; exact Step.c0 h
    · split
      · rename_i r h _ hr; subst hr; right; exact Step.c1 h
      · right; exact Step.cRun ‹_› ‹_› ‹_›
  · right; exact Step.aes ‹_› (mod2_mem c)
  · right; exact Step.sha ‹_› (mod2_mem c)
  · right; exact Step.pub ‹_›
  · left; rfl
  · left; rfl

theorem vals01 : ∀ v ∈ [0, 1], v = 0 ∨ v = 1 := by intro v hv; simpa using hv

theorem fire_inv {g : G} (h : PInv g) (i c : Nat) : PInv (fire g i c) := by
  rcases fire_step g i c with he | hs
  · rw [he]; exact h
  · exact step_inv vals01 h hs

/-- remaining non-spinning steps of a thread -/
def rank : PC → Nat
  | .start => 8 | .tested _ => 7 | .claim => 6 | .spin => 3 | .reload => 2
  | .cret r => if r = 0 ∨ r = 1 then 1 else 4
  | .runAes => 3 | .runSha _ => 2 | .publish _ => 1 | .done _ => 0

def pot (l : List PC) : Nat := (l.map rank).sum

theorem pot_set {l : List PC} {i : Nat} {old : PC} (new : PC) (h : l[i]? = some old) :
    pot (l.set i new) + rank old = pot l + rank new := by
  induction l generalizing i with
  | nil => simp at h
  | cons x xs ih =>
    cases i with
    | zero => simp at h; subst h; simp [pot]; omega
    | succ k =>
      simp at h
      have := ih h
      simp [pot] at this ⊢; omega

def notDone : PC → Bool | .done _ => false | _ => true
def blocked (g : G) (pc : PC) : Bool := pc = PC.spin && g.status = 3

/-- a firing strictly lowers the potential, unless the thread is absent, finished, or spinning on RUNNING
    (in which case nothing changes) -/
theorem fire_pot {g : G} (hinv : PInv g) (i c : Nat) :
    pot (fire g i c).th < pot g.th ∨
    (fire g i c = g ∧ ∀ pc, g.th[i]? = some pc → (notDone pc = false ∨ blocked g pc = true)) := by
  unfold fire
  split
  · rename_i h; left; have := pot_set (PC.tested g.status) h; simp only [rank] at this; simp only []; omega
  · rename_i v h
    split
    · left; have := pot_set (PC.cret v) h; simp only [rank] at this; simp only []; split at this <;> omega
    · left; have := pot_set PC.claim h; simp only [rank] at this; simp only []; omega
  · rename_i h
    split
    · left; have := pot_set (PC.cret 2) h; simp [rank] at this; simp only []; omega
    · left; have := pot_set PC.spin h; simp only [rank] at this; simp only []; omega
  · rename_i h
    split
    · rename_i h3; right; refine ⟨rfl, fun pc hpc => ?_⟩
      rw [h] at hpc; cases hpc; right; simp [blocked, h3]
    · left; have := pot_set PC.reload h; simp only [rank] at this; simp only []; omega
  · rename_i h
    have hl := hinv.loc _ _ h; simp only [okPC] at hl
    left; have := pot_set (PC.cret g.status) h; simp only [rank, hl, if_true] at this; simp only []; omega
  · rename_i r h
    split
    · rename_i hr; subst hr; left; have := pot_set (PC.done 0) h; simp [rank] at this; simp only []; omega
    · split
      · rename_i _ hr; subst hr; left; have := pot_set (PC.done 1) h; simp [rank] at this; simp only []; omega
      · rename_i h0 h1; left; have := pot_set PC.runAes h; simp [rank, h0, h1] at this; simp only []; omega
  · rename_i h; left; have := pot_set (PC.runSha (c % 2)) h; simp only [rank] at this; simp only []; omega
  · rename_i a h; left; have := pot_set (PC.publish (a ||| c % 2)) h; simp only [rank] at this; simp only []; omega
  · rename_i r h; left; have := pot_set (PC.done (verdictOf r)) h; simp only [rank] at this; simp only []; omega
  · rename_i v h; right; refine ⟨rfl, fun pc hpc => ?_⟩; rw [h] at hpc; cases hpc; left; rfl
  · rename_i h; right; refine ⟨rfl, fun pc hpc => ?_⟩; rw [h] at hpc; cases hpc

/-! schedules -/
def run (n : Nat) (σ o : Nat → Nat) : Nat → G
  | 0 => ⟨2, 0, none, List.replicate n PC.start⟩
  | t+1 => fire (run n σ o t) (σ t) (o t)

theorem run_inv (n : Nat) (σ o : Nat → Nat) (t : Nat) : PInv (run n σ o t) := by
  induction t with
  | zero => exact init_inv n
  | succ t ih => exact fire_inv ih _ _

def Fair (n : Nat) (σ : Nat → Nat) : Prop := ∀ i, i < n → ∀ t, ∃ t', t ≤ t' ∧ σ t' = i

def allDone (g : G) : Prop := ∀ pc ∈ g.th, notDone pc = false

theorem step_len {vals : List Nat} {g g' : G} (hs : Step vals g g') : g'.th.length = g.th.length := by
  cases hs <;> simp

theorem run_len (n : Nat) (σ o : Nat → Nat) (t : Nat) : (run n σ o t).th.length = n := by
  induction t with
  | zero => simp [run]
  | succ t ih =>
    simp only [run]
    rcases fire_step (run n σ o t) (σ t) (o t) with he | hs
    · rw [he]; exact ih
    · rw [step_len hs]; exact ih

/-- over any interval either the potential dropped somewhere, or the state is unchanged -/
theorem interval (n : Nat) (σ o : Nat → Nat) (t d : Nat) :
    (∃ t', t < t' ∧ t' ≤ t + d ∧ pot (run n σ o t').th < pot (run n σ o t).th) ∨ run n σ o (t + d) = run n σ o t := by
  induction d with
  | zero => right; rfl
  | succ d ih =>
    rcases ih with ⟨t', h1, h2, h3⟩ | heq
    · left; exact ⟨t', h1, by omega, h3⟩
    · rcases fire_pot (run_inv n σ o (t + d)) (σ (t + d)) (o (t + d)) with hlt | ⟨he, _⟩
      · left; refine ⟨t + d + 1, by omega, by omega, ?_⟩
        have : pot (fire (run n σ o (t + d)) (σ (t + d)) (o (t + d))).th < pot (run n σ o t).th := by
          rw [heq] at hlt ⊢; exact hlt
        exact this
      · right
        have : fire (run n σ o (t + d)) (σ (t + d)) (o (t + d)) = run n σ o t := by rw [he, heq]
        exact this

/-- if some thread is unfinished, the potential eventually drops -/
theorem eventually_drops (n : Nat) (σ o : Nat → Nat) (hf : Fair n σ) (t : Nat)
    (hnd : ¬ allDone (run n σ o t)) : ∃ t', t < t' ∧ pot (run n σ o t').th < pot (run n σ o t).th := by
  -- pick an unfinished thread j
  have hex : ∃ (j : Nat) (pc : PC), (run n σ o t).th[j]? = some pc ∧ notDone pc = true := by
    unfold allDone at hnd
    obtain ⟨pc, hpc'⟩ := Classical.not_forall.mp hnd
    obtain ⟨hmem, hpc⟩ := Classical.not_imp.mp hpc'
    obtain ⟨j, hj⟩ := List.getElem?_of_mem hmem
    exact ⟨j, pc, hj, by simpa using hpc⟩
  obtain ⟨j, pc, hj, hpc⟩ := hex
  have hjn : j < n := by
    have := (List.getElem?_eq_some_iff.mp hj).1; rwa [run_len] at this
  obtain ⟨t1, ht1, hσ1⟩ := hf j hjn t
  obtain ⟨d1, rfl⟩ : ∃ d, t1 = t + d := ⟨t1 - t, by omega⟩
  rcases interval n σ o t d1 with ⟨t', h1, _, h3⟩ | heq1
  · exact ⟨t', h1, h3⟩
  -- state at t+d1 equals state at t; fire thread j
  rcases fire_pot (run_inv n σ o (t + d1)) (σ (t + d1)) (o (t + d1)) with hlt | ⟨he, hblk⟩
  · refine ⟨t + d1 + 1, by omega, ?_⟩
    have : pot (fire (run n σ o (t + d1)) (σ (t + d1)) (o (t + d1))).th < pot (run n σ o t).th := by
      rw [heq1] at hlt ⊢; exact hlt
    exact this
  -- j is blocked: spinning with status = 3, so a winner w exists
  rw [heq1, hσ1] at hblk
  have hb := hblk pc hj
  rcases hb with hb | hb
  · rw [hpc] at hb; cases hb
  have h3 : (run n σ o t).status = 3 := by simp [blocked] at hb; exact hb.2
  obtain ⟨w, wpc, _, hw, hwin⟩ := (run_inv n σ o t).own3 h3
  have hwn : w < n := by
    have := (List.getElem?_eq_some_iff.mp hw).1; rwa [run_len] at this
  have hstate1 : run n σ o (t + d1 + 1) = run n σ o t := by
    have : fire (run n σ o (t + d1)) (σ (t + d1)) (o (t + d1)) = run n σ o t := by rw [he, heq1]
    exact this
  obtain ⟨t2, ht2, hσ2⟩ := hf w hwn (t + d1 + 1)
  obtain ⟨d2, rfl⟩ : ∃ d, t2 = t + d1 + 1 + d := ⟨t2 - (t + d1 + 1), by omega⟩
  rcases interval n σ o (t + d1 + 1) d2 with ⟨t', h1, _, h3'⟩ | heq2
  · exact ⟨t', by omega, by rw [hstate1] at h3'; exact h3'⟩
  rcases fire_pot (run_inv n σ o (t + d1 + 1 + d2)) (σ (t + d1 + 1 + d2)) (o (t + d1 + 1 + d2)) with hlt | ⟨_, hblk2⟩
  · refine ⟨t + d1 + 1 + d2 + 1, by omega, ?_⟩
    have : pot (fire (run n σ o (t + d1 + 1 + d2)) (σ (t + d1 + 1 + d2)) (o (t + d1 + 1 + d2))).th < pot (run n σ o t).th := by
      rw [heq2, hstate1] at hlt ⊢; exact hlt
    exact this
  · exfalso
    rw [heq2, hstate1, hσ2] at hblk2
    rcases hblk2 wpc hw with hb2 | hb2
    · cases wpc <;> simp [isWinner, notDone] at hwin hb2
    · cases wpc <;> simp [isWinner, blocked] at hwin hb2

/-- C17 liveness: under any fair schedule every thread finishes. -/
theorem all_finish (n : Nat) (σ o : Nat → Nat) (hf : Fair n σ) : ∃ t, allDone (run n σ o t) := by
  suffices h : ∀ m t, pot (run n σ o t).th ≤ m → ∃ t', allDone (run n σ o t') from h _ 0 (Nat.le_refl _)
  intro m
  induction m with
  | zero =>
    intro t hm
    refine ⟨t, ?_⟩
    by_cases hd : allDone (run n σ o t)
    · exact hd
    · obtain ⟨t', _, hlt⟩ := eventually_drops n σ o hf t hd; omega
  | succ m ih =>
    intro t hm
    by_cases hd : allDone (run n σ o t)
    · exact ⟨t, hd⟩
    · obtain ⟨t', _, hlt⟩ := eventually_drops n σ o hf t hd
      exact ih t' (by omega)

#print axioms all_finish
