/-! Throw-away prototype: certificate checker for callee-saved preservation, with soundness. -/
abbrev Reg := Fin 16
def RSP : Reg := 4

inductive Instr where
  | push (r : Reg)
  | pop (r : Reg)
  | addRsp (k : Int)                -- add rsp, k   (sub = negative k)
  | movRR (d s : Reg)               -- d ≠ rsp handled by checker
  | store (off : Int) (s : Reg)     -- mov [rsp+off], s
  | load (d : Reg) (off : Int)      -- mov d, [rsp+off]
  | clobber (m : List Reg)          -- any instruction writing exactly regs in m (none of them rsp)
  | jcc (t : Nat)
  | jmp (t : Nat)
  | ret
deriving DecidableEq, Repr

structure St where
  pc   : Nat
  regs : Reg → Int
  mem  : Int → Int      -- qword slots, addressed by byte address of the slot

def upd (f : Reg → Int) (r : Reg) (v : Int) : Reg → Int := fun x => if x = r then v else f x
def updM (f : Int → Int) (a : Int) (v : Int) : Int → Int := fun x => if x = a then v else f x

/-- nondeterministic small-step semantics -/
inductive Step (p : List Instr) : St → St → Prop where
  | push {s r} : p[s.pc]? = some (.push r) →
      Step p s ⟨s.pc+1, upd s.regs RSP (s.regs RSP - 8), updM s.mem (s.regs RSP - 8) (s.regs r)⟩
  | pop {s r} : p[s.pc]? = some (.pop r) →
      Step p s ⟨s.pc+1, upd (upd s.regs r (s.mem (s.regs RSP))) RSP (s.regs RSP + 8), s.mem⟩
  | addRsp {s k} : p[s.pc]? = some (.addRsp k) →
      Step p s ⟨s.pc+1, upd s.regs RSP (s.regs RSP + k), s.mem⟩
  | movRR {s d src} : p[s.pc]? = some (.movRR d src) →
      Step p s ⟨s.pc+1, upd s.regs d (s.regs src), s.mem⟩
  | store {s off src} : p[s.pc]? = some (.store off src) →
      Step p s ⟨s.pc+1, s.regs, updM s.mem (s.regs RSP + off) (s.regs src)⟩
  | load {s d off} : p[s.pc]? = some (.load d off) →
      Step p s ⟨s.pc+1, upd s.regs d (s.mem (s.regs RSP + off)), s.mem⟩
  | clobber {s m} (regs' : Reg → Int) : p[s.pc]? = some (.clobber m) →
      (∀ r, r ∉ m → regs' r = s.regs r) → Step p s ⟨s.pc+1, regs', s.mem⟩
  | jccT {s t} : p[s.pc]? = some (.jcc t) → Step p s ⟨t, s.regs, s.mem⟩
  | jccF {s t} : p[s.pc]? = some (.jcc t) → Step p s ⟨s.pc+1, s.regs, s.mem⟩
  | jmp {s t} : p[s.pc]? = some (.jmp t) → Step p s ⟨t, s.regs, s.mem⟩

inductive Steps (p : List Instr) (s0 : St) : St → Prop where
  | refl : Steps p s0 s0
  | tail {b c} : Steps p s0 b → Step p b c → Steps p s0 c

/-! abstract domain -/
abbrev AVal := Option (Reg × Int)          -- some (b,k) = init b + k ; none = ⊤
structure ASt where
  regs  : Reg → AVal
  slots : List (Int × AVal)                -- offset relative to init rsp

def ASt.reg (a : ASt) (r : Reg) : AVal := a.regs r
def ASt.setReg (a : ASt) (r : Reg) (v : AVal) : ASt := { a with regs := fun x => if x = r then v else a.regs x }
def ASt.slot (a : ASt) (off : Int) : AVal :=
  match a.slots.find? (fun e => e.1 = off) with
  | some e => e.2
  | none => none
def ASt.setSlot (a : ASt) (off : Int) (v : AVal) : ASt :=
  { a with slots := (off, v) :: a.slots.filter (fun e => e.1 ≠ off) }

def rspOff (a : ASt) : Option Int :=
  match a.reg RSP with
  | some (b, k) => if b = RSP then some k else none
  | none => none

/-- abstract transfer; returns list of (successor pc, post state); `none` = checker refuses -/
def transfer (pc : Nat) (i : Instr) (a : ASt) : Option (List (Nat × ASt)) :=
  match i with
  | .push r => do
      let k ← rspOff a
      some [(pc+1, (a.setSlot (k-8) (a.reg r)).setReg RSP (some (RSP, k-8)))]
  | .pop r => do
      let k ← rspOff a
      if r = RSP then none else
      some [(pc+1, (a.setReg r (a.slot k)).setReg RSP (some (RSP, k+8)))]
  | .addRsp d => do
      let k ← rspOff a
      some [(pc+1, a.setReg RSP (some (RSP, k+d)))]
  | .movRR d s => if d = RSP then none else some [(pc+1, a.setReg d (a.reg s))]
  | .store off s => do
      let k ← rspOff a
      some [(pc+1, a.setSlot (k+off) (a.reg s))]
  | .load d off => do
      let k ← rspOff a
      if d = RSP then none else some [(pc+1, a.setReg d (a.slot (k+off)))]
  | .clobber m => if RSP ∈ m then none else
      some [(pc+1, m.foldl (fun acc r => acc.setReg r none) a)]
  | .jcc t => some [(t, a), (pc+1, a)]
  | .jmp t => some [(t, a)]
  | .ret => some []

def leVal (post cert : AVal) : Bool := cert = none || cert = post
def allRegs : List Reg := List.finRange 16
def leSt (post cert : ASt) : Bool :=
  allRegs.all (fun r => leVal (post.reg r) (cert.reg r)) &&
  cert.slots.all (fun e => leVal (post.slot e.1) (cert.slot e.1))

def calleeSaved : List Reg := [3, 5, 12, 13, 14, 15]
def initA : ASt := { regs := fun r => some (r, 0), slots := [] }

def retOK (a : ASt) : Bool :=
  a.reg RSP = some (RSP, 0) && calleeSaved.all (fun r => a.reg r = some (r, 0))

def checkAt (p : List Instr) (cert : List ASt) (pc : Nat) : Bool :=
  match p[pc]?, cert[pc]? with
  | some i, some a =>
      (match i with | .ret => retOK a | _ => true) &&
      (match transfer pc i a with
       | none => false
       | some succs => succs.all (fun (pc', post) =>
            match cert[pc']? with
            | some c => leSt post c
            | none => false))
  | _, _ => false

def check (p : List Instr) (cert : List ASt) : Bool :=
  cert.length = p.length && (match cert[0]? with | some c => leSt initA c | none => false) &&
  (List.range p.length).all (checkAt p cert)

/-! soundness -/
def valOK (s0 : St) (v : AVal) (x : Int) : Prop :=
  match v with | none => True | some (b, k) => x = s0.regs b + k

def Rel (s0 : St) (a : ASt) (s : St) : Prop :=
  (∀ r : Reg, valOK s0 (a.reg r) (s.regs r)) ∧
  (∀ off, valOK s0 (a.slot off) (s.mem (s0.regs RSP + off)))


theorem mem_allRegs (r : Reg) : r ∈ allRegs := by simp [allRegs]

theorem reg_setReg (a : ASt) (r r' : Reg) (v : AVal) :
    (a.setReg r v).reg r' = if r' = r then v else a.reg r' := rfl
theorem slot_setReg (a : ASt) (r : Reg) (v : AVal) (o : Int) : (a.setReg r v).slot o = a.slot o := rfl
theorem reg_setSlot (a : ASt) (o : Int) (v : AVal) (r : Reg) : (a.setSlot o v).reg r = a.reg r := rfl

theorem find_filter_ne (l : List (Int × AVal)) (o o' : Int) (h : o' ≠ o) :
    (l.filter (fun e => e.1 ≠ o)).find? (fun e => e.1 = o') = l.find? (fun e => e.1 = o') := by
  rw [List.find?_filter]
  congr 1
  funext e
  by_cases h1 : e.1 = o' <;> by_cases h2 : e.1 = o <;> simp [h1, h2]
  all_goals omega

theorem slot_setSlot (a : ASt) (o o' : Int) (v : AVal) :
    (a.setSlot o v).slot o' = if o' = o then v else a.slot o' := by
  unfold ASt.setSlot ASt.slot
  by_cases h : o' = o
  · subst h; simp [List.find?]
  · have h2 : ¬ (o = o') := fun e => h e.symm
    simp only [List.find?, h2, decide_false, h, if_false]
    rw [find_filter_ne _ _ _ h]

theorem valOK_le {s0 : St} {p c : AVal} {x : Int} (h : leVal p c = true) (hp : valOK s0 p x) : valOK s0 c x := by
  unfold leVal at h
  cases c with
  | none => trivial
  | some v => simp at h; subst h; exact hp

theorem slot_none_of_not_mem (a : ASt) (o : Int) (h : ∀ e ∈ a.slots, e.1 ≠ o) : a.slot o = none := by
  unfold ASt.slot
  have : a.slots.find? (fun e => e.1 = o) = none := by
    apply List.find?_eq_none.mpr
    intro e he; simpa using h e he
  rw [this]

theorem leSt_sound {s0 s : St} {post cert : ASt} (h : leSt post cert = true) (hr : Rel s0 post s) : Rel s0 cert s := by
  unfold leSt at h
  simp only [Bool.and_eq_true, List.all_eq_true] at h
  obtain ⟨h1, h2⟩ := h
  constructor
  · intro r; exact valOK_le (h1 r (mem_allRegs r)) (hr.1 r)
  · intro off
    by_cases hm : ∃ e ∈ cert.slots, e.1 = off
    · obtain ⟨e, he, rfl⟩ := hm
      exact valOK_le (h2 e he) (hr.2 e.1)
    · have : cert.slot off = none := slot_none_of_not_mem _ _ (by intro e he hc; exact hm ⟨e, he, hc⟩)
      rw [this]; trivial

theorem rspOff_sound {s0 s : St} {a : ASt} {k : Int} (h : rspOff a = some k) (hr : Rel s0 a s) :
    s.regs RSP = s0.regs RSP + k := by
  unfold rspOff at h
  have := hr.1 RSP
  cases hv : a.reg RSP with
  | none => simp [hv] at h
  | some v =>
    obtain ⟨b, k'⟩ := v
    simp [hv] at h
    obtain ⟨hb, hk⟩ := h
    subst hb; subst hk
    simpa [valOK, hv] using this

theorem foldl_clobber_reg (m : List Reg) (a : ASt) (r : Reg) :
    (m.foldl (fun acc r => acc.setReg r none) a).reg r = if r ∈ m then none else a.reg r := by
  induction m generalizing a with
  | nil => simp
  | cons x xs ih =>
    simp only [List.foldl, ih, reg_setReg, List.mem_cons]
    by_cases h1 : r ∈ xs <;> by_cases h2 : r = x <;> simp [h1, h2]
theorem foldl_clobber_slot (m : List Reg) (a : ASt) (o : Int) :
    (m.foldl (fun acc r => acc.setReg r none) a).slot o = a.slot o := by
  induction m generalizing a with
  | nil => rfl
  | cons x xs ih => simp only [List.foldl, ih, slot_setReg]

theorem transfer_sound {p : List Instr} {s0 s s' : St} {a : ASt} {i : Instr} {succs}
    (hi : p[s.pc]? = some i) (hs : Step p s s') (hr : Rel s0 a s) (ht : transfer s.pc i a = some succs) :
    ∃ post, (s'.pc, post) ∈ succs ∧ Rel s0 post s' := by
  cases hs with
  | push h =>
    rw [hi] at h; cases h
    simp only [transfer, Option.bind_eq_bind] at ht
    cases hk : rspOff a with
    | none => simp [hk] at ht
    | some k =>
      simp [hk] at ht; subst ht
      have hsp := rspOff_sound hk hr
      refine ⟨_, List.mem_singleton.mpr rfl, ?_, ?_⟩
      · intro r'
        simp only [reg_setReg, reg_setSlot, upd]
        by_cases h : r' = RSP
        · subst h; simp [valOK, hsp]; omega
        · simp [h]; exact hr.1 r'
      · intro off
        simp only [slot_setReg, slot_setSlot, updM]
        by_cases h : off = k - 8
        · subst h
          have : s0.regs RSP + (k - 8) = s.regs RSP - 8 := by omega
          simp [this]; exact hr.1 _
        · have : ¬ (s0.regs RSP + off = s.regs RSP - 8) := by omega
          simp [h, this]; exact hr.2 off
  | pop h =>
    rw [hi] at h; cases h
    simp only [transfer, Option.bind_eq_bind] at ht
    cases hk : rspOff a with
    | none => simp [hk] at ht
    | some k =>
      rename_i r
      by_cases hrr : r = RSP
      · simp [hk, hrr] at ht
      · simp [hk, hrr] at ht; subst ht
        have hsp := rspOff_sound hk hr
        refine ⟨_, List.mem_singleton.mpr rfl, ?_, ?_⟩
        · intro r'
          simp only [reg_setReg, upd]
          by_cases h : r' = RSP
          · subst h; simp [valOK, hsp]; omega
          · by_cases h2 : r' = r
            · subst h2; simp [h]; rw [hsp]; exact hr.2 k
            · simp [h, h2]; exact hr.1 r'
        · intro off; simp only [slot_setReg]; exact hr.2 off
  | addRsp h =>
    rw [hi] at h; cases h
    simp only [transfer, Option.bind_eq_bind] at ht
    cases hk : rspOff a with
    | none => simp [hk] at ht
    | some k =>
      simp [hk] at ht; subst ht
      have hsp := rspOff_sound hk hr
      refine ⟨_, List.mem_singleton.mpr rfl, ?_, ?_⟩
      · intro r'
        simp only [reg_setReg, upd]
        by_cases h : r' = RSP
        · subst h; simp [valOK, hsp]; omega
        · simp [h]; exact hr.1 r'
      · intro off; simp only [slot_setReg]; exact hr.2 off
  | movRR h =>
    rw [hi] at h; cases h
    rename_i d src
    by_cases hd : d = RSP
    · simp [transfer, hd] at ht
    · simp [transfer, hd] at ht; subst ht
      refine ⟨_, List.mem_singleton.mpr rfl, ?_, ?_⟩
      · intro r'
        simp only [reg_setReg, upd]
        by_cases h : r' = d
        · subst h; simp; exact hr.1 src
        · simp [h]; exact hr.1 r'
      · intro off; simp only [slot_setReg]; exact hr.2 off
  | store h =>
    rw [hi] at h; cases h
    simp only [transfer, Option.bind_eq_bind] at ht
    cases hk : rspOff a with
    | none => simp [hk] at ht
    | some k =>
      simp [hk] at ht; subst ht
      have hsp := rspOff_sound hk hr
      rename_i off src
      refine ⟨_, List.mem_singleton.mpr rfl, ?_, ?_⟩
      · intro r'; simp only [reg_setSlot]; exact hr.1 r'
      · intro o
        simp only [slot_setSlot, updM]
        by_cases h : o = k + off
        · subst h
          have : s0.regs RSP + (k + off) = s.regs RSP + off := by omega
          simp [this]; exact hr.1 _
        · have : ¬ (s0.regs RSP + o = s.regs RSP + off) := by omega
          simp [h, this]; exact hr.2 o
  | load h =>
    rw [hi] at h; cases h
    simp only [transfer, Option.bind_eq_bind] at ht
    cases hk : rspOff a with
    | none => simp [hk] at ht
    | some k =>
      rename_i d off
      by_cases hd : d = RSP
      · simp [hk, hd] at ht
      · simp [hk, hd] at ht; subst ht
        have hsp := rspOff_sound hk hr
        refine ⟨_, List.mem_singleton.mpr rfl, ?_, ?_⟩
        · intro r'
          simp only [reg_setReg, upd]
          by_cases h : r' = d
          · subst h; simp
            have : s.regs RSP + off = s0.regs RSP + (k + off) := by omega
            rw [this]; exact hr.2 _
          · simp [h]; exact hr.1 r'
        · intro o; simp only [slot_setReg]; exact hr.2 o
  | clobber regs' h hfr =>
    rw [hi] at h; cases h
    rename_i m
    by_cases hm : RSP ∈ m
    · simp [transfer, hm] at ht
    · simp [transfer, hm] at ht; subst ht
      refine ⟨_, List.mem_singleton.mpr rfl, ?_, ?_⟩
      · intro r'
        rw [foldl_clobber_reg]
        by_cases h : r' ∈ m
        · simp [h, valOK]
        · simp [h]; rw [hfr r' h]; exact hr.1 r'
      · intro o; rw [foldl_clobber_slot]; exact hr.2 o
  | jccT h =>
    rw [hi] at h; cases h
    simp [transfer] at ht; subst ht
    exact ⟨a, by simp, hr⟩
  | jccF h =>
    rw [hi] at h; cases h
    simp [transfer] at ht; subst ht
    exact ⟨a, by simp, hr⟩
  | jmp h =>
    rw [hi] at h; cases h
    simp [transfer] at ht; subst ht
    exact ⟨a, by simp, hr⟩

theorem step_instr {p : List Instr} {s s' : St} (h : Step p s s') : ∃ i, p[s.pc]? = some i := by
  cases h <;> exact ⟨_, by assumption⟩

theorem invariant {p : List Instr} {cert : List ASt} (hc : check p cert = true) {s0 s : St}
    (h0 : s0.pc = 0) (hs : Steps p s0 s) : ∃ a, cert[s.pc]? = some a ∧ Rel s0 a s := by
  unfold check at hc
  simp only [Bool.and_eq_true, decide_eq_true_eq, List.all_eq_true, List.mem_range] at hc
  obtain ⟨⟨hlen, hinit⟩, hall⟩ := hc
  induction hs with
  | refl =>
    rw [h0]
    cases hc0 : cert[0]? with
    | none => simp [hc0] at hinit
    | some c =>
      simp [hc0] at hinit
      refine ⟨c, rfl, leSt_sound hinit ?_⟩
      exact ⟨fun r => by simp [valOK, initA, ASt.reg], fun off => by simp [valOK, initA, ASt.slot]⟩
  | @tail b c _ hstep ih =>
    obtain ⟨a, hca, hra⟩ := ih
    obtain ⟨i, hi⟩ := step_instr hstep
    have hlt : b.pc < p.length := by
      have := List.getElem?_eq_some_iff.mp hi; exact this.1
    have hchk := hall b.pc hlt
    unfold checkAt at hchk
    rw [hi, hca] at hchk
    simp only [Bool.and_eq_true] at hchk
    obtain ⟨_, hsucc⟩ := hchk
    cases ht : transfer b.pc i a with
    | none => simp [ht] at hsucc
    | some succs =>
      simp only [ht, List.all_eq_true] at hsucc
      obtain ⟨post, hmem, hrel⟩ := transfer_sound hi hstep hra ht
      have := hsucc _ hmem
      cases hcc : cert[c.pc]? with
      | none => simp [hcc] at this
      | some cc =>
        simp [hcc] at this
        exact ⟨cc, rfl, leSt_sound this hrel⟩

/-- Soundness: every execution from the entry that reaches a `ret` has restored rsp and callee-saved regs. -/
theorem abi_sound {p : List Instr} {cert : List ASt} (hc : check p cert = true) {s0 s : St}
    (h0 : s0.pc = 0) (hs : Steps p s0 s) (hret : p[s.pc]? = some .ret) :
    s.regs RSP = s0.regs RSP ∧ ∀ r ∈ calleeSaved, s.regs r = s0.regs r := by
  obtain ⟨a, hca, hra⟩ := invariant hc h0 hs
  have hc' := hc
  unfold check at hc'
  simp only [Bool.and_eq_true, decide_eq_true_eq, List.all_eq_true, List.mem_range] at hc'
  have hlt : s.pc < p.length := (List.getElem?_eq_some_iff.mp hret).1
  have hchk := hc'.2 s.pc hlt
  unfold checkAt at hchk
  rw [hret, hca] at hchk
  simp only [Bool.and_eq_true] at hchk
  have hok := hchk.1
  unfold retOK at hok
  simp only [Bool.and_eq_true, decide_eq_true_eq, List.all_eq_true] at hok
  constructor
  · have := hra.1 RSP; rw [hok.1] at this; simpa [valOK] using this
  · intro r hr; have := hra.1 r; rw [hok.2 r hr] at this; simpa [valOK] using this

#print axioms abi_sound
-- a tiny concrete example to make sure the checker accepts a real prologue/epilogue
def demo : List Instr := [.push 3, .addRsp (-16), .store 0 12, .clobber [3, 12, 0], .load 12 0, .addRsp 16, .pop 3, .ret]
def demoCert : List ASt :=
  let a0 := initA
  let a1 := (a0.setSlot (-8) (a0.reg 3)).setReg RSP (some (RSP, -8))
  let a2 := a1.setReg RSP (some (RSP, -24))
  let a3 := a2.setSlot (-24) (a2.reg 12)
  let a4 := [3, 12, 0].foldl (fun acc (r : Reg) => acc.setReg r none) a3
  let a5 := a4.setReg 12 (a4.slot (-24))
  let a6 := a5.setReg RSP (some (RSP, -8))
  let a7 := (a6.setReg 3 (a6.slot (-8))).setReg RSP (some (RSP, 0))
  [a0, a1, a2, a3, a4, a5, a6, a7]
example : check demo demoCert = true := by decide +kernel
-- deleting the restore of r12 is rejected
example : check [.push 3, .addRsp (-16), .store 0 12, .clobber [3, 12, 0], .addRsp 16, .pop 3, .ret]
    (let a0 := initA
     let a1 := (a0.setSlot (-8) (a0.reg 3)).setReg RSP (some (RSP, -8))
     let a2 := a1.setReg RSP (some (RSP, -24))
     let a3 := a2.setSlot (-24) (a2.reg 12)
     let a4 := [3, 12, 0].foldl (fun acc (r : Reg) => acc.setReg r none) a3
     let a6 := a4.setReg RSP (some (RSP, -8))
     let a7 := (a6.setReg 3 (a6.slot (-8))).setReg RSP (some (RSP, 0))
     [a0, a1, a2, a3, a4, a6, a7]) = false := by decide +kernel
