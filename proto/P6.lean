/-! Throw-away prototype: abstract multi-lane hash manager + context layer (sha256_ctx_avx2.c shape),
    correctness by the "settle" abstraction. Generic in block type α, digest D, compress f. -/
variable {α D : Type}

def blocks (B : Nat) : Nat → List α → List (List α)
  | 0, _ => []
  | n+1, l => l.take B :: blocks B n (l.drop B)

structure S (α D : Type) where
  dig : D
  part : List α

def absorb (B : Nat) (f : D → List α → D) (s : S α D) (data : List α) : S α D :=
  let buf := s.part ++ data
  let n := buf.length / B
  { dig := (blocks B n buf).foldl f s.dig, part := buf.drop (n * B) }

-- (proved in P4b; restated here as axioms of the prototype to keep this file short -- NOT for the real library)
axiom absorb_append (B : Nat) (hB : 0 < B) (f : D → List α → D) (s : S α D) (a b : List α) :
    absorb B f (absorb B f s a) b = absorb B f s (a ++ b)
axiom absorb_nil (B : Nat) (f : D → List α → D) (s : S α D) (hs : s.part.length < B) : absorb B f s [] = s
axiom absorb_part_lt (B : Nat) (hB : 0 < B) (f : D → List α → D) (s : S α D) (d : List α) :
    (absorb B f s d).part.length < B

abbrev Cid := Nat

/-- context; `lane = some (d, bs)` : the job is in a lane with running digest d and blocks bs still to hash -/
structure Ctx (α D : Type) where
  processing : Bool
  last       : Bool          -- LAST requested, padding not yet submitted
  complete   : Bool          -- padding submitted (PROCESSING|COMPLETE) or finished (COMPLETE)
  total      : Nat
  dig        : D
  part       : List α
  incoming   : List α
  lane       : Option (D × List (List α))

structure M (α D : Type) where
  ctxs  : Cid → Ctx α D
  lanes : List Cid            -- occupied lanes, in lane order
  cap   : Nat

def setCtx (m : M α D) (c : Cid) (x : Ctx α D) : M α D :=
  { m with ctxs := fun k => if k = c then x else m.ctxs k }

/-- run the kernel for k blocks on every occupied lane -/
def advance (f : D → List α → D) (k : Nat) (x : Ctx α D) : Ctx α D :=
  match x.lane with
  | some (d, bs) => { x with lane := some ((bs.take k).foldl f d, bs.drop k) }
  | none => x

def laneLen (x : Ctx α D) : Nat := match x.lane with | some (_, bs) => bs.length | none => 0

def minLen (m : M α D) : List Cid → Nat
  | [] => 0
  | [c] => laneLen (m.ctxs c)
  | c :: cs => Nat.min (laneLen (m.ctxs c)) (minLen m cs)

/-- first lane whose remaining length equals the minimum -/
def pickMin (m : M α D) (k : Nat) : List Cid → Option Cid
  | [] => none
  | c :: cs => if laneLen (m.ctxs c) = k then some c else pickMin m k cs

/-- run min blocks on all lanes, retire one finished lane: returns its ctx id (digest written back) -/
def retireMin (f : D → List α → D) (m : M α D) : M α D × Option Cid :=
  let k := minLen m m.lanes
  match pickMin m k m.lanes with
  | none => (m, none)
  | some c =>
    let ctxs' : Cid → Ctx α D := fun j => if j ∈ m.lanes then advance f k (m.ctxs j) else m.ctxs j
    let x := ctxs' c
    let d := match x.lane with | some (d, _) => d | none => x.dig
    ({ m with ctxs := fun j => if j = c then { x with dig := d, lane := none } else ctxs' j,
              lanes := m.lanes.erase c }, some c)

def mgrSubmit (f : D → List α → D) (m : M α D) (c : Cid) (bs : List (List α)) : M α D × Option Cid :=
  let x := m.ctxs c
  let m1 : M α D := { setCtx m c { x with lane := some (x.dig, bs) } with lanes := m.lanes ++ [c] }
  if m1.lanes.length = m1.cap then retireMin f m1 else (m1, none)

def mgrFlush (f : D → List α → D) (m : M α D) : M α D × Option Cid :=
  if m.lanes = [] then (m, none) else retireMin f m

/-- sha256_ctx_mgr_resubmit -/
def resubmit (B : Nat) (f : D → List α → D) (pad : List α → Nat → List (List α)) :
    Nat → M α D → Option Cid → M α D × Option Cid
  | 0, m, _ => (m, none)
  | _, m, none => (m, none)
  | fuel+1, m, some c =>
    let x := m.ctxs c
    if x.complete then (setCtx m c { x with processing := false }, some c)
    else if x.part = [] ∧ x.incoming ≠ [] then
      let n := x.incoming.length / B
      let bs := blocks B n x.incoming
      let x' := { x with part := x.incoming.drop (n * B), incoming := [] }
      if n ≠ 0 then
        let (m', r) := mgrSubmit f (setCtx m c x') c bs
        resubmit B f pad fuel m' r
      else if x'.last then
        let (m', r) := mgrSubmit f (setCtx m c { x' with last := false, complete := true }) c (pad x'.part x'.total)
        resubmit B f pad fuel m' r
      else (setCtx m c { x' with processing := false }, some c)
    else if x.last then
      let (m', r) := mgrSubmit f (setCtx m c { x with last := false, complete := true }) c (pad x.part x.total)
      resubmit B f pad fuel m' r
    else (setCtx m c { x with processing := false }, some c)

/-- the value the context will have once all its pending work is done -/
def settle (B : Nat) (f : D → List α → D) (pad : List α → Nat → List (List α)) (x : Ctx α D) : S α D :=
  let d1 := match x.lane with | some (d, bs) => bs.foldl f d | none => x.dig
  if x.complete then ⟨d1, []⟩
  else
    let s2 := absorb B f ⟨d1, x.part⟩ x.incoming
    if x.last then ⟨(pad s2.part x.total).foldl f s2.dig, []⟩ else s2

theorem settle_advance (B : Nat) (f : D → List α → D) (pad) (k : Nat) (x : Ctx α D) :
    settle B f pad (advance f k x) = settle B f pad x := by
  unfold advance
  cases hl : x.lane with
  | none => simp [hl]
  | some p =>
    obtain ⟨d, bs⟩ := p
    simp only [settle, hl]
    have : (bs.drop k).foldl f ((bs.take k).foldl f d) = bs.foldl f d := by
      rw [← List.foldl_append, List.take_append_drop]
    simp [this]


theorem pickMin_spec (m : M α D) (k : Nat) (l : List Cid) (c : Cid) (h : pickMin m k l = some c) :
    c ∈ l ∧ laneLen (m.ctxs c) = k := by
  induction l with
  | nil => simp [pickMin] at h
  | cons x xs ih =>
    simp only [pickMin] at h
    split at h
    · cases h; exact ⟨List.mem_cons_self, by assumption⟩
    · obtain ⟨h1, h2⟩ := ih h; exact ⟨List.mem_cons_of_mem _ h1, h2⟩

/-- retiring the minimum lane does not change what any context will settle to -/
theorem retireMin_settle (B : Nat) (f : D → List α → D) (pad) (m : M α D) (j : Cid) :
    settle B f pad ((retireMin f m).1.ctxs j) = settle B f pad (m.ctxs j) := by
  unfold retireMin
  simp only []
  cases hp : pickMin m (minLen m m.lanes) m.lanes with
  | none => rfl
  | some c =>
    obtain ⟨hmem, hlen⟩ := pickMin_spec m _ _ c hp
    simp only []
    by_cases hjc : j = c
    · subst hjc
      simp only [if_true, hmem]
      -- the retired lane has exactly k blocks left
      unfold advance
      cases hl : (m.ctxs j).lane with
      | none => simp [settle, hl]
      | some p =>
        obtain ⟨d, bs⟩ := p
        have hk : bs.length = minLen m m.lanes := by simpa [laneLen, hl] using hlen
        simp only [settle, hl]
        have h1 : bs.take (minLen m m.lanes) = bs := by rw [← hk]; exact List.take_length
        simp [h1]
    · simp only [hjc, if_false]
      split
      · exact settle_advance B f pad _ _
      · rfl

theorem mgrSubmit_settle (B : Nat) (f : D → List α → D) (pad) (m : M α D) (c : Cid) (bs : List (List α)) (j : Cid) :
    settle B f pad ((mgrSubmit f m c bs).1.ctxs j) =
      settle B f pad (if j = c then { m.ctxs c with lane := some ((m.ctxs c).dig, bs) } else m.ctxs j) := by
  unfold mgrSubmit
  simp only []
  split
  · rw [retireMin_settle]; simp [setCtx]
  · simp [setCtx]

def Shape (B : Nat) (x : Ctx α D) : Prop := x.part.length < B ∧ (x.part ≠ [] → x.incoming = [])

/-- fields that only the context layer writes -/
def sameUser (x y : Ctx α D) : Prop :=
  x.part = y.part ∧ x.incoming = y.incoming ∧ x.last = y.last ∧ x.complete = y.complete ∧
  x.total = y.total ∧ x.processing = y.processing

theorem advance_sameUser (f : D → List α → D) (k : Nat) (x : Ctx α D) : sameUser (advance f k x) x := by
  unfold advance; split <;> simp [sameUser]

theorem retireMin_sameUser (f : D → List α → D) (m : M α D) (j : Cid) :
    sameUser ((retireMin f m).1.ctxs j) (m.ctxs j) := by
  unfold retireMin
  simp only []
  cases hp : pickMin m (minLen m m.lanes) m.lanes with
  | none => simp [sameUser]
  | some c =>
    simp only []
    by_cases hjc : j = c
    · subst hjc
      simp only [if_true]
      split
      · have := advance_sameUser f (minLen m m.lanes) (m.ctxs j); simpa [sameUser] using this
      · simp [sameUser]
    · simp only [hjc, if_false]
      split
      · exact advance_sameUser f _ _
      · simp [sameUser]

theorem retireMin_ret (f : D → List α → D) (m : M α D) (r : Cid) (h : (retireMin f m).2 = some r) :
    ((retireMin f m).1.ctxs r).lane = none := by
  unfold retireMin at h ⊢
  simp only [] at h ⊢
  cases hp : pickMin m (minLen m m.lanes) m.lanes with
  | none => simp [hp] at h
  | some c => simp [hp] at h ⊢; subst h; simp

theorem mgrSubmit_sameUser (f : D → List α → D) (m : M α D) (c : Cid) (bs) (j : Cid) :
    sameUser ((mgrSubmit f m c bs).1.ctxs j) (m.ctxs j) := by
  unfold mgrSubmit
  simp only []
  split
  · have := retireMin_sameUser f ({ setCtx m c { m.ctxs c with lane := some ((m.ctxs c).dig, bs) } with lanes := m.lanes ++ [c] } : M α D) j
    by_cases hjc : j = c
    · subst hjc; simpa [sameUser, setCtx] using this
    · simpa [sameUser, setCtx, hjc] using this
  · by_cases hjc : j = c
    · subst hjc; simp [sameUser, setCtx]
    · simp [sameUser, setCtx, hjc]

theorem mgrSubmit_ret (f : D → List α → D) (m : M α D) (c : Cid) (bs) (r : Cid)
    (h : (mgrSubmit f m c bs).2 = some r) : ((mgrSubmit f m c bs).1.ctxs r).lane = none := by
  unfold mgrSubmit at h ⊢
  simp only [] at h ⊢
  split at h
  · rename_i hc; simp only [hc, if_true]; exact retireMin_ret f _ r h
  · cases h

theorem shape_of_sameUser {B : Nat} {x y : Ctx α D} (h : sameUser x y) (hy : Shape B y) : Shape B x := by
  obtain ⟨h1, h2, _⟩ := h
  unfold Shape at *; rw [h1, h2]; exact hy

theorem settle_congr_lane (B : Nat) (f : D → List α → D) (pad) (x : Ctx α D) (hl : x.lane = none) (hc : x.complete = false) :
    settle B f pad x =
      (let s2 := absorb B f ⟨x.dig, x.part⟩ x.incoming
       if x.last then ⟨(pad s2.part x.total).foldl f s2.dig, []⟩ else s2) := by
  simp [settle, hl, hc]

/-- resubmit never changes what any context settles to, and keeps the shape invariant -/
theorem resubmit_settle (B : Nat) (hB : 0 < B) (f : D → List α → D) (pad) :
    ∀ (fuel : Nat) (m : M α D) (r : Option Cid),
      (∀ j, Shape B (m.ctxs j)) → (∀ c, r = some c → (m.ctxs c).lane = none) →
      (∀ j, settle B f pad ((resubmit B f pad fuel m r).1.ctxs j) = settle B f pad (m.ctxs j)) ∧
      (∀ j, Shape B ((resubmit B f pad fuel m r).1.ctxs j)) := by
  intro fuel
  induction fuel with
  | zero => intro m r hs _; cases r <;> simp [resubmit] <;> exact hs
  | succ fuel ih =>
    intro m r hs hl
    cases r with
    | none => simp [resubmit]; exact hs
    | some c =>
      have hlc := hl c rfl
      have hsc := hs c
      -- helper: finishing with a submit of blocks `bs` for the updated context `x'`
      have key : ∀ (x' : Ctx α D) (bs : List (List α)), x'.lane = none → Shape B x' →
          settle B f pad { x' with lane := some (x'.dig, bs) } = settle B f pad (m.ctxs c) →
          (∀ j, settle B f pad ((resubmit B f pad fuel (mgrSubmit f (setCtx m c x') c bs).1 (mgrSubmit f (setCtx m c x') c bs).2).1.ctxs j)
              = settle B f pad (m.ctxs j)) ∧
          (∀ j, Shape B ((resubmit B f pad fuel (mgrSubmit f (setCtx m c x') c bs).1 (mgrSubmit f (setCtx m c x') c bs).2).1.ctxs j)) := by
        intro x' bs hx'l hx's hsett
        have hs1 : ∀ j, Shape B ((setCtx m c x').ctxs j) := by
          intro j; by_cases hj : j = c
          · subst hj; simpa [setCtx] using hx's
          · simpa [setCtx, hj] using hs j
        have hs2 : ∀ j, Shape B ((mgrSubmit f (setCtx m c x') c bs).1.ctxs j) :=
          fun j => shape_of_sameUser (mgrSubmit_sameUser f _ c bs j) (hs1 j)
        have hl2 : ∀ r', (mgrSubmit f (setCtx m c x') c bs).2 = some r' →
            ((mgrSubmit f (setCtx m c x') c bs).1.ctxs r').lane = none := fun r' h => mgrSubmit_ret f _ c bs r' h
        obtain ⟨i1, i2⟩ := ih _ _ hs2 hl2
        refine ⟨fun j => ?_, i2⟩
        rw [i1 j, mgrSubmit_settle]
        by_cases hj : j = c
        · subst hj; simp only [if_true]; simpa [setCtx] using hsett
        · simp [hj, setCtx]
      simp only [resubmit]
      by_cases hcomp : (m.ctxs c).complete = true
      · simp only [hcomp, if_true]
        refine ⟨fun j => ?_, fun j => ?_⟩
        · by_cases hj : j = c
          · subst hj; simp [setCtx, settle, hcomp]
          · simp [setCtx, hj]
        · by_cases hj : j = c
          · subst hj; simpa [setCtx, Shape] using hsc
          · simpa [setCtx, hj] using hs j
      · have hcf : (m.ctxs c).complete = false := by simpa using hcomp
        simp only [hcf, Bool.false_eq_true, if_false]
        have hsx := settle_congr_lane B f pad (m.ctxs c) hlc hcf
        by_cases hbody : (m.ctxs c).part = [] ∧ (m.ctxs c).incoming ≠ []
        · simp only [hbody, and_self, if_true, ne_eq, not_false_eq_true]
          obtain ⟨hp, hi⟩ := hbody
          -- what absorb computes from an empty partial buffer
          have habs : absorb B f ⟨(m.ctxs c).dig, (m.ctxs c).part⟩ (m.ctxs c).incoming =
              ⟨(blocks B ((m.ctxs c).incoming.length / B) (m.ctxs c).incoming).foldl f (m.ctxs c).dig,
               (m.ctxs c).incoming.drop ((m.ctxs c).incoming.length / B * B)⟩ := by
            simp [absorb, hp]
          have hdl : ((m.ctxs c).incoming.drop ((m.ctxs c).incoming.length / B * B)).length < B := by
            have := absorb_part_lt B hB f ⟨(m.ctxs c).dig, (m.ctxs c).part⟩ (m.ctxs c).incoming
            rw [habs] at this; exact this
          by_cases hn : (m.ctxs c).incoming.length / B = 0
          · -- fewer than a block: just buffered
            simp only [hn, ne_eq, not_true_eq_false, if_false, Nat.zero_mul, List.drop_zero]
            rw [hn] at habs hdl
            simp only [Nat.zero_mul, List.drop_zero, blocks, List.foldl] at habs hdl
            by_cases hlast : (m.ctxs c).last = true
            · simp only [hlast, if_true]
              apply key
              · exact hlc
              · exact ⟨hdl, fun _ => rfl⟩
              · rw [hsx, habs]; simp [settle, hlast]
            · have hlf : (m.ctxs c).last = false := by simpa using hlast
              simp only [hlf, Bool.false_eq_true, if_false]
              refine ⟨fun j => ?_, fun j => ?_⟩
              · by_cases hj : j = c
                · subst hj
                  rw [hsx, habs]
                  simp only [setCtx, if_true, settle, hlc, hcf, hlf, Bool.false_eq_true, if_false]
                  rw [absorb_nil B f _ hdl]
                · simp [setCtx, hj]
              · by_cases hj : j = c
                · subst hj; simp only [setCtx, if_true]; exact ⟨hdl, fun _ => rfl⟩
                · simpa [setCtx, hj] using hs j
          · simp only [hn, ne_eq, not_false_eq_true, if_true]
            apply key
            · exact hlc
            · exact ⟨hdl, fun _ => rfl⟩
            · rw [hsx, habs]
              simp only [settle, hcf, Bool.false_eq_true, if_false]
              rw [absorb_nil B f _ hdl]
        · simp only [hbody, if_false]
          -- nothing to move: either the partial buffer holds the tail, or there is no incoming data
          have hinc : (m.ctxs c).incoming = [] := by
            by_cases hp : (m.ctxs c).part = []
            · by_cases hi : (m.ctxs c).incoming = []
              · exact hi
              · exact absurd ⟨hp, hi⟩ hbody
            · exact hsc.2 hp
          have habs : absorb B f ⟨(m.ctxs c).dig, (m.ctxs c).part⟩ (m.ctxs c).incoming = ⟨(m.ctxs c).dig, (m.ctxs c).part⟩ := by
            rw [hinc]; exact absorb_nil B f _ hsc.1
          by_cases hlast : (m.ctxs c).last = true
          · simp only [hlast, if_true]
            apply key
            · exact hlc
            · exact hsc
            · rw [hsx, habs]; simp [settle, hlast]
          · have hlf : (m.ctxs c).last = false := by simpa using hlast
            simp only [hlf, Bool.false_eq_true, if_false]
            refine ⟨fun j => ?_, fun j => ?_⟩
            · by_cases hj : j = c
              · subst hj
                rw [hsx, habs]
                simp only [setCtx, if_true, settle, hlc, hcf, hlf, Bool.false_eq_true, if_false]
                exact habs
              · simp [setCtx, hj]
            · by_cases hj : j = c
              · subst hj; simpa [setCtx, Shape] using hsc
              · simpa [setCtx, hj] using hs j

#print axioms resubmit_settle
