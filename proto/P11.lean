-- rotation algebra needed for the rolling hash (C09)
abbrev W64 := BitVec 64
theorem rol_bit (x : W64) (r i : Nat) (hi : i < 64) :
    (x.rotateLeft r).getLsbD i = x.getLsbD ((i + 64 - r % 64) % 64) := by
  rw [BitVec.getLsbD_rotateLeft]
  by_cases h : i < r % 64
  · simp only [h, decide_true, cond_true]
    congr 1; omega
  · simp only [h, decide_false, cond_false, hi, decide_true, Bool.true_and]
    congr 1; omega
theorem rol_xor (a b : W64) (n : Nat) : (a ^^^ b).rotateLeft n = a.rotateLeft n ^^^ b.rotateLeft n := by
  apply BitVec.eq_of_getLsbD_eq
  intro i hi
  simp only [BitVec.getLsbD_xor, rol_bit _ _ _ hi]
theorem rol_rol (a : W64) (m n : Nat) : (a.rotateLeft m).rotateLeft n = a.rotateLeft (m + n) := by
  apply BitVec.eq_of_getLsbD_eq
  intro i hi
  rw [rol_bit _ _ _ hi, rol_bit _ _ _ (Nat.mod_lt _ (by decide)), rol_bit _ _ _ hi]
  congr 1; omega
theorem rol_zero (a : W64) : a.rotateLeft 0 = a := by
  apply BitVec.eq_of_getLsbD_eq
  intro i hi
  rw [rol_bit _ _ _ hi]; congr 1; omega

/-- window hash: H(b₀ … b_{w-1}) = ⊕ rol(T bᵢ, w-1-i) -/
def H (T : Nat → W64) : List Nat → W64
  | [] => 0
  | b :: bs => (T b).rotateLeft bs.length ^^^ H T bs

theorem H_append_one (T : Nat → W64) (l : List Nat) (x : Nat) :
    H T (l ++ [x]) = (H T l).rotateLeft 1 ^^^ T x := by
  induction l with
  | nil => simp [H, rol_zero]
  | cons b bs ih =>
    simp only [List.cons_append, H, ih, rol_xor, rol_rol, List.length_append, List.length_singleton]
    rw [BitVec.xor_assoc]

/-- the library's update: h' = rol(h,1) ⊕ T[new] ⊕ rol(T[old], w), sliding the window by one byte -/
theorem slide (T : Nat → W64) (old : Nat) (mid : List Nat) (new : Nat) :
    H T (mid ++ [new]) = (H T (old :: mid)).rotateLeft 1 ^^^ T new ^^^ (T old).rotateLeft (mid.length + 1) := by
  rw [H_append_one]
  simp only [H, rol_xor, rol_rol]
  apply BitVec.eq_of_getLsbD_eq
  intro i hi
  simp only [BitVec.getLsbD_xor]
  cases ((T old).rotateLeft (mid.length + 1)).getLsbD i <;> cases ((H T mid).rotateLeft 1).getLsbD i <;>
    cases (T new).getLsbD i <;> rfl
#print axioms slide
