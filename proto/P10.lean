/-! Throw-away prototype: mini-x86 for dispatch resolvers, exact symbolic execution, soundness. -/
abbrev W := BitVec 32
inductive Field | l1eax | l1ecx | l7ebx | l7ecx | xcr0 deriving DecidableEq, Repr
structure Cfg where
  l1eax : W
  l1ecx : W
  l7ebx : W
  l7ecx : W
  xcr0  : W
def Cfg.get (c : Cfg) : Field → W
  | .l1eax => c.l1eax | .l1ecx => c.l1ecx | .l7ebx => c.l7ebx | .l7ecx => c.l7ecx | .xcr0 => c.xcr0

inductive Reg | a | b | c | d | di | si deriving DecidableEq, Repr
inductive Val | bits (w : W) | sym (s : Nat) | junk deriving DecidableEq, Repr

inductive Instr where
  | movImm (r : Reg) (k : W) | movRR (d s : Reg) | lea (r : Reg) (s : Nat)
  | cpuid | xgetbv | xorSelf (r : Reg)
  | andImm (r : Reg) (k : W) | testImm (r : Reg) (k : W) | cmpImm (r : Reg) (k : W)
  | jz (ifZero : Bool) (t : Nat)        -- je (true) / jne (false)
  | jmp (t : Nat)
  | cmov (ifZero : Bool) (d s : Reg)    -- cmove / cmovne
  | push (r : Reg) | pop (r : Reg)
  | store (r : Reg)                     -- mov [cell], r : the result
  | ret
deriving DecidableEq, Repr

structure St where
  pc : Nat
  regs : Reg → Val
  zf : Bool
  stack : List Val
  cell : Option Val

def setR (f : Reg → α) (r : Reg) (v : α) : Reg → α := fun x => if x = r then v else f x

def cpuidOut (cfg : Cfg) (leaf : Val) : Val × Val × Val × Val :=
  match leaf with
  | .bits w => if w = 1 then (.bits cfg.l1eax, .junk, .bits cfg.l1ecx, .junk)
               else if w = 7 then (.junk, .bits cfg.l7ebx, .bits cfg.l7ecx, .junk)
               else (.junk, .junk, .junk, .junk)
  | _ => (.junk, .junk, .junk, .junk)

def bitsOf : Val → Option W | .bits w => some w | _ => none

/-- one concrete step; `none` = halted (ret / off the end) -/
def step (cfg : Cfg) (p : List Instr) (s : St) : Option St :=
  match p[s.pc]? with
  | none => none
  | some i =>
    let nx := s.pc + 1
    match i with
    | .movImm r k => some { s with pc := nx, regs := setR s.regs r (.bits k) }
    | .movRR d r => some { s with pc := nx, regs := setR s.regs d (s.regs r) }
    | .lea r sy => some { s with pc := nx, regs := setR s.regs r (.sym sy) }
    | .cpuid =>
      let (a, b, c, d) := cpuidOut cfg (s.regs .a)
      some { s with pc := nx, regs := setR (setR (setR (setR s.regs .a a) .b b) .c c) .d d }
    | .xgetbv => some { s with pc := nx, regs := setR (setR s.regs .a (.bits cfg.xcr0)) .d .junk }
    | .xorSelf r => some { s with pc := nx, regs := setR s.regs r (.bits 0), zf := true }
    | .andImm r k =>
      match bitsOf (s.regs r) with
      | some w => some { s with pc := nx, regs := setR s.regs r (.bits (w &&& k)), zf := (w &&& k) = 0 }
      | none => some { s with pc := nx, regs := setR s.regs r .junk, zf := false }
    | .testImm r k =>
      match bitsOf (s.regs r) with
      | some w => some { s with pc := nx, zf := (w &&& k) = 0 }
      | none => some { s with pc := nx, zf := false }
    | .cmpImm r k =>
      match bitsOf (s.regs r) with
      | some w => some { s with pc := nx, zf := w = k }
      | none => some { s with pc := nx, zf := false }
    | .jz z t => some { s with pc := if s.zf = z then t else nx }
    | .jmp t => some { s with pc := t }
    | .cmov z d r => some { s with pc := nx, regs := if s.zf = z then setR s.regs d (s.regs r) else s.regs }
    | .push r => some { s with pc := nx, stack := s.regs r :: s.stack }
    | .pop r => match s.stack with
      | v :: rest => some { s with pc := nx, regs := setR s.regs r v, stack := rest }
      | [] => some { s with pc := nx, regs := setR s.regs r .junk }
    | .store r => some { s with pc := nx, cell := some (s.regs r) }
    | .ret => none

def run (cfg : Cfg) (p : List Instr) : Nat → St → St
  | 0, s => s
  | n+1, s => match step cfg p s with | some s' => run cfg p n s' | none => s

/-! symbolic machine -/
inductive SVal | fld (f : Field) (m : W) | const (w : W) | sym (s : Nat) | junk deriving DecidableEq, Repr
inductive SFlag | known (b : Bool) | atom (f : Field) (m c : W) deriving DecidableEq, Repr

def SVal.ev (cfg : Cfg) : SVal → Val
  | .fld f m => .bits (cfg.get f &&& m) | .const w => .bits w | .sym s => .sym s | .junk => .junk
def SFlag.ev (cfg : Cfg) : SFlag → Bool
  | .known b => b | .atom f m c => (cfg.get f &&& m) = c

structure SSt where
  pc : Nat
  regs : Reg → SVal
  zf : SFlag
  stack : List SVal
  cell : Option SVal

def SSt.ev (cfg : Cfg) (σ : SSt) : St :=
  { pc := σ.pc, regs := fun r => (σ.regs r).ev cfg, zf := σ.zf.ev cfg, stack := σ.stack.map (SVal.ev cfg),
    cell := σ.cell.map (SVal.ev cfg) }

/-- a symbolic step returns the list of (assumed flag value, successor); `none` = unsupported, `some []` = halt -/
def sstep (p : List Instr) (σ : SSt) : Option (List (Option (SFlag × Bool) × SSt)) :=
  match p[σ.pc]? with
  | none => some []
  | some i =>
    let nx := σ.pc + 1
    match i with
    | .movImm r k => some [(none, { σ with pc := nx, regs := setR σ.regs r (.const k) })]
    | .movRR d r => some [(none, { σ with pc := nx, regs := setR σ.regs d (σ.regs r) })]
    | .lea r sy => some [(none, { σ with pc := nx, regs := setR σ.regs r (.sym sy) })]
    | .cpuid =>
      match σ.regs .a with
      | .const w =>
        if w = 1 then some [(none, { σ with pc := nx, regs := setR (setR (setR (setR σ.regs .a (.fld .l1eax (BitVec.allOnes 32))) .b .junk) .c (.fld .l1ecx (BitVec.allOnes 32))) .d .junk })]
        else if w = 7 then some [(none, { σ with pc := nx, regs := setR (setR (setR (setR σ.regs .a .junk) .b (.fld .l7ebx (BitVec.allOnes 32))) .c (.fld .l7ecx (BitVec.allOnes 32))) .d .junk })]
        else none
      | _ => none
    | .xgetbv => some [(none, { σ with pc := nx, regs := setR (setR σ.regs .a (.fld .xcr0 (BitVec.allOnes 32))) .d .junk })]
    | .xorSelf r => some [(none, { σ with pc := nx, regs := setR σ.regs r (.const 0), zf := .known true })]
    | .andImm r k =>
      match σ.regs r with
      | .fld f m => some [(none, { σ with pc := nx, regs := setR σ.regs r (.fld f (m &&& k)), zf := .atom f (m &&& k) 0 })]
      | _ => none
    | .testImm r k =>
      match σ.regs r with
      | .fld f m => some [(none, { σ with pc := nx, zf := .atom f (m &&& k) 0 })]
      | _ => none
    | .cmpImm r k =>
      match σ.regs r with
      | .fld f m => some [(none, { σ with pc := nx, zf := .atom f m k })]
      | _ => none
    | .jz z t =>
      match σ.zf with
      | .known b => some [(none, { σ with pc := if b = z then t else nx })]
      | fl => some [(some (fl, z), { σ with pc := t }), (some (fl, !z), { σ with pc := nx })]
    | .jmp t => some [(none, { σ with pc := t })]
    | .cmov z d r =>
      match σ.zf with
      | .known b => some [(none, { σ with pc := nx, regs := if b = z then setR σ.regs d (σ.regs r) else σ.regs })]
      | fl => some [(some (fl, z), { σ with pc := nx, regs := setR σ.regs d (σ.regs r) }),
                    (some (fl, !z), { σ with pc := nx })]
    | .push r => some [(none, { σ with pc := nx, stack := σ.regs r :: σ.stack })]
    | .pop r => match σ.stack with
      | v :: rest => some [(none, { σ with pc := nx, regs := setR σ.regs r v, stack := rest })]
      | [] => none
    | .store r => some [(none, { σ with pc := nx, cell := some (σ.regs r) })]
    | .ret => some []

def condHolds (cfg : Cfg) : Option (SFlag × Bool) → Bool
  | none => true
  | some (fl, b) => fl.ev cfg = b

theorem ev_setR (cfg : Cfg) (f : Reg → SVal) (r : Reg) (v : SVal) :
    (fun x => (setR f r v x).ev cfg) = setR (fun x => (f x).ev cfg) r (v.ev cfg) := by
  funext x; simp only [setR]; split <;> rfl

theorem and_ones (w : W) : w &&& 4294967295#32 = w := by
  rw [show (4294967295#32 : W) = BitVec.allOnes 32 by decide]; exact BitVec.and_allOnes

/-- the symbolic step is exact: the branch whose assumption holds is the concrete step -/
theorem sstep_exact (cfg : Cfg) (p : List Instr) (σ : SSt) (brs) (h : sstep p σ = some brs) :
    (brs = [] ∧ step cfg p (σ.ev cfg) = none) ∨
    (∃ br ∈ brs, condHolds cfg br.1 = true ∧ step cfg p (σ.ev cfg) = some (br.2.ev cfg)) := by
  unfold sstep at h
  unfold step
  have hpc : (σ.ev cfg).pc = σ.pc := rfl
  rw [hpc]
  cases hi : p[σ.pc]? with
  | none => simp [hi] at h; subst h; left; simp
  | some i =>
    simp only [hi] at h ⊢
    cases i with
    | movImm r k => simp at h; subst h; right; refine ⟨_, List.mem_singleton.mpr rfl, rfl, ?_⟩; simp only [SSt.ev, ev_setR, List.map_cons] <;> try simp [SVal.ev, SFlag.ev, Cfg.get, cpuidOut, bitsOf, BitVec.and_assoc, BitVec.and_allOnes, and_ones]
    | movRR d r => simp at h; subst h; right; refine ⟨_, List.mem_singleton.mpr rfl, rfl, ?_⟩; simp only [SSt.ev, ev_setR, List.map_cons] <;> try simp [SVal.ev, SFlag.ev, Cfg.get, cpuidOut, bitsOf, BitVec.and_assoc, BitVec.and_allOnes, and_ones]
    | lea r sy => simp at h; subst h; right; refine ⟨_, List.mem_singleton.mpr rfl, rfl, ?_⟩; simp only [SSt.ev, ev_setR, List.map_cons] <;> try simp [SVal.ev, SFlag.ev, Cfg.get, cpuidOut, bitsOf, BitVec.and_assoc, BitVec.and_allOnes, and_ones]
    | cpuid =>
      cases ha : σ.regs .a with
      | const w =>
        simp only [ha] at h
        by_cases h1 : w = 1
        · simp [h1] at h; subst h; right; refine ⟨_, List.mem_singleton.mpr rfl, rfl, ?_⟩
          simp only [SSt.ev, ev_setR, List.map_cons, ha, h1] <;> try simp [SVal.ev, SFlag.ev, Cfg.get, cpuidOut, bitsOf, BitVec.and_assoc, BitVec.and_allOnes, and_ones, ha, h1]
        · by_cases h7 : w = 7
          · simp [h7] at h; subst h; right; refine ⟨_, List.mem_singleton.mpr rfl, rfl, ?_⟩
            simp only [SSt.ev, ev_setR, List.map_cons, ha, h7] <;> try simp [SVal.ev, SFlag.ev, Cfg.get, cpuidOut, bitsOf, BitVec.and_assoc, BitVec.and_allOnes, and_ones, ha, h7]
          · have h1' : ¬ w = 1#32 := h1
            have h7' : ¬ w = 7#32 := h7
            simp [h1', h7'] at h
      | fld f m => simp [ha] at h
      | sym s => simp [ha] at h
      | junk => simp [ha] at h
    | xgetbv => simp at h; subst h; right; refine ⟨_, List.mem_singleton.mpr rfl, rfl, ?_⟩; simp only [SSt.ev, ev_setR, List.map_cons] <;> try simp [SVal.ev, SFlag.ev, Cfg.get, cpuidOut, bitsOf, BitVec.and_assoc, BitVec.and_allOnes, and_ones]
    | xorSelf r => simp at h; subst h; right; refine ⟨_, List.mem_singleton.mpr rfl, rfl, ?_⟩; simp only [SSt.ev, ev_setR, List.map_cons] <;> try simp [SVal.ev, SFlag.ev, Cfg.get, cpuidOut, bitsOf, BitVec.and_assoc, BitVec.and_allOnes, and_ones]
    | andImm r k =>
      cases hr : σ.regs r with
      | fld f m =>
        simp [hr] at h; subst h; right; refine ⟨_, List.mem_singleton.mpr rfl, rfl, ?_⟩
        simp only [SSt.ev, ev_setR, List.map_cons, hr] <;> try simp [SVal.ev, SFlag.ev, Cfg.get, cpuidOut, bitsOf, BitVec.and_assoc, BitVec.and_allOnes, and_ones, hr] <;> first | rfl | congr | skip
      | const w => simp [hr] at h
      | sym s => simp [hr] at h
      | junk => simp [hr] at h
    | testImm r k =>
      cases hr : σ.regs r with
      | fld f m =>
        simp [hr] at h; subst h; right; refine ⟨_, List.mem_singleton.mpr rfl, rfl, ?_⟩
        simp only [SSt.ev, ev_setR, List.map_cons, hr] <;> try simp [SVal.ev, SFlag.ev, Cfg.get, cpuidOut, bitsOf, BitVec.and_assoc, BitVec.and_allOnes, and_ones, hr] <;> first | rfl | congr | skip
      | const w => simp [hr] at h
      | sym s => simp [hr] at h
      | junk => simp [hr] at h
    | cmpImm r k =>
      cases hr : σ.regs r with
      | fld f m =>
        simp [hr] at h; subst h; right; refine ⟨_, List.mem_singleton.mpr rfl, rfl, ?_⟩
        simp only [SSt.ev, ev_setR, List.map_cons, hr] <;> try simp [SVal.ev, SFlag.ev, Cfg.get, cpuidOut, bitsOf, BitVec.and_assoc, BitVec.and_allOnes, and_ones, hr] <;> first | rfl | congr | skip
      | const w => simp [hr] at h
      | sym s => simp [hr] at h
      | junk => simp [hr] at h
    | jz z t =>
      cases hz : σ.zf with
      | known b =>
        simp [hz] at h; subst h; right; refine ⟨_, List.mem_singleton.mpr rfl, rfl, ?_⟩
        simp only [SSt.ev, hz, SFlag.ev]
      | atom f m c =>
        simp [hz] at h; subst h; right
        by_cases hb : SFlag.ev cfg (SFlag.atom f m c) = z
        · refine ⟨_, List.mem_cons_self, ?_, ?_⟩
          · simp [condHolds, hb]
          · simp only [SSt.ev, hz, hb, if_true]
        · refine ⟨_, List.mem_cons_of_mem _ List.mem_cons_self, ?_, ?_⟩
          · simp only [condHolds]; cases z <;> cases hv : SFlag.ev cfg (SFlag.atom f m c) <;> simp_all
          · simp only [SSt.ev, hz, hb, if_false]
    | jmp t => simp at h; subst h; right; refine ⟨_, List.mem_singleton.mpr rfl, rfl, ?_⟩; simp only [SSt.ev, ev_setR, List.map_cons] <;> try simp [SVal.ev, SFlag.ev, Cfg.get, cpuidOut, bitsOf, BitVec.and_assoc, BitVec.and_allOnes, and_ones]
    | cmov z d r =>
      cases hz : σ.zf with
      | known b =>
        simp [hz] at h; subst h; right; refine ⟨_, List.mem_singleton.mpr rfl, rfl, ?_⟩
        by_cases hb : b = z
        · simp only [SSt.ev, hz, SFlag.ev, hb, if_true, ev_setR]
        · simp only [SSt.ev, hz, SFlag.ev, hb, if_false]
      | atom f m c =>
        simp [hz] at h; subst h; right
        by_cases hb : SFlag.ev cfg (SFlag.atom f m c) = z
        · refine ⟨_, List.mem_cons_self, ?_, ?_⟩
          · simp [condHolds, hb]
          · simp only [SSt.ev, hz, hb, if_true, ev_setR]
        · refine ⟨_, List.mem_cons_of_mem _ List.mem_cons_self, ?_, ?_⟩
          · simp only [condHolds]; cases z <;> cases hv : SFlag.ev cfg (SFlag.atom f m c) <;> simp_all
          · simp only [SSt.ev, hz, hb, if_false]
    | push r => simp at h; subst h; right; refine ⟨_, List.mem_singleton.mpr rfl, rfl, ?_⟩; simp only [SSt.ev, ev_setR, List.map_cons] <;> try simp [SVal.ev, SFlag.ev, Cfg.get, cpuidOut, bitsOf, BitVec.and_assoc, BitVec.and_allOnes, and_ones]
    | pop r =>
      cases hs : σ.stack with
      | nil => simp [hs] at h
      | cons v rest =>
        simp [hs] at h; subst h; right; refine ⟨_, List.mem_singleton.mpr rfl, rfl, ?_⟩
        simp only [SSt.ev, ev_setR, List.map_cons, hs] <;> try simp [SVal.ev, SFlag.ev, Cfg.get, cpuidOut, bitsOf, BitVec.and_assoc, BitVec.and_allOnes, and_ones, hs]
    | store r => simp at h; subst h; right; refine ⟨_, List.mem_singleton.mpr rfl, rfl, ?_⟩; simp only [SSt.ev, ev_setR, List.map_cons] <;> try simp [SVal.ev, SFlag.ev, Cfg.get, cpuidOut, bitsOf, BitVec.and_assoc, BitVec.and_allOnes, and_ones]
    | ret => simp at h; subst h; left; simp

abbrev Cond := SFlag × Bool
def addC (c : Option Cond) (acc : List Cond) : List Cond := match c with | none => acc | some x => x :: acc

/-- enumerate all control paths (at most binary branching) -/
def paths (p : List Instr) : Nat → SSt → List Cond → Option (List (List Cond × SSt))
  | 0, σ, acc => some [(acc, σ)]
  | n+1, σ, acc =>
    match sstep p σ with
    | none => none
    | some [] => some [(acc, σ)]
    | some [(c, σ1)] => paths p n σ1 (addC c acc)
    | some [(c1, σ1), (c2, σ2)] =>
      match paths p n σ1 (addC c1 acc), paths p n σ2 (addC c2 acc) with
      | some l1, some l2 => some (l1 ++ l2)
      | _, _ => none
    | some _ => none

def holdsAll (cfg : Cfg) (l : List Cond) : Prop := ∀ x ∈ l, x.1.ev cfg = x.2

theorem holds_addC {cfg : Cfg} {c : Option Cond} {acc : List Cond} (hc : condHolds cfg c = true)
    (ha : holdsAll cfg acc) : holdsAll cfg (addC c acc) := by
  cases c with
  | none => exact ha
  | some x =>
    intro y hy
    simp only [addC, List.mem_cons] at hy
    rcases hy with rfl | hy
    · simpa [condHolds] using hc
    · exact ha y hy

/-- every configuration follows exactly one enumerated path, and that path's final symbolic state
    evaluates to the concrete final state -/
theorem paths_complete (cfg : Cfg) (p : List Instr) :
    ∀ (n : Nat) (σ : SSt) (acc : List Cond) (res : List (List Cond × SSt)),
      paths p n σ acc = some res → holdsAll cfg acc →
      ∃ r ∈ res, holdsAll cfg r.1 ∧ r.2.ev cfg = run cfg p n (σ.ev cfg) := by
  intro n
  induction n with
  | zero =>
    intro σ acc res h ha
    simp [paths] at h; subst h
    exact ⟨_, List.mem_singleton.mpr rfl, ha, rfl⟩
  | succ n ih =>
    intro σ acc res h ha
    simp only [paths] at h
    cases hs : sstep p σ with
    | none => simp [hs] at h
    | some brs =>
      have hex := sstep_exact cfg p σ brs hs
      rw [hs] at h
      match brs, h, hex with
      | [], h, hex =>
        simp at h; subst h
        rcases hex with ⟨_, hnone⟩ | ⟨br, hm, _⟩
        · exact ⟨_, List.mem_singleton.mpr rfl, ha, by simp [run, hnone]⟩
        · cases hm
      | [(c, σ1)], h, hex =>
        simp only at h
        rcases hex with ⟨hnil, _⟩ | ⟨br, hm, hc, hstep⟩
        · cases hnil
        · have : br = (c, σ1) := by simpa using hm
          subst this
          obtain ⟨r, hr, h1, h2⟩ := ih σ1 _ res h (holds_addC hc ha)
          exact ⟨r, hr, h1, by simp [run, hstep, h2]⟩
      | [(c1, σ1), (c2, σ2)], h, hex =>
        simp only at h
        cases h1 : paths p n σ1 (addC c1 acc) with
        | none => simp [h1] at h
        | some l1 =>
          cases h2 : paths p n σ2 (addC c2 acc) with
          | none => simp [h1, h2] at h
          | some l2 =>
            simp [h1, h2] at h; subst h
            rcases hex with ⟨hnil, _⟩ | ⟨br, hm, hc, hstep⟩
            · cases hnil
            · simp only [List.mem_cons, List.mem_nil_iff, or_false] at hm
              rcases hm with rfl | rfl
              · obtain ⟨r, hr, q1, q2⟩ := ih σ1 _ l1 h1 (holds_addC hc ha)
                exact ⟨r, List.mem_append_left _ hr, q1, by simp [run, hstep, q2]⟩
              · obtain ⟨r, hr, q1, q2⟩ := ih σ2 _ l2 h2 (holds_addC hc ha)
                exact ⟨r, List.mem_append_right _ hr, q1, by simp [run, hstep, q2]⟩
      | _ :: _ :: _ :: _, h, _ => simp at h

#print axioms paths_complete

/-! a resolver in the shape of mbin_dispatch_init6 (symbols: 0 base, 1 sse, 2 avx, 3 avx2, 4 avx512) -/
def init6 : List Instr := [
  .push .si, .push .a, .push .b, .push .c, .push .d, .push .di,
  .lea .si 0, .movImm .a 1, .cpuid, .movRR .b .c, .testImm .c 0x80000, .jz true 36,
  .lea .si 1, .testImm .c 0x8000000, .jz true 36, .xorSelf .c, .xgetbv, .movRR .di .a,
  .andImm .a 6, .cmpImm .a 6, .jz false 36, .testImm .b 0x10000000, .jz true 36, .lea .si 2,
  .xorSelf .c, .movImm .a 7, .cpuid, .testImm .b 0x20, .jz true 36, .lea .si 3,
  .andImm .di 0xe0, .cmpImm .di 0xe0, .jz false 36, .andImm .b 0xd0030000, .cmpImm .b 0xd0030000, .lea .b 4,
  -- 36:
  .cmov true .si .b, .pop .di, .pop .d, .pop .c, .pop .b, .pop .a, .store .si, .pop .si, .ret ]
def s0 : SSt := ⟨0, fun _ => .junk, .known false, [], none⟩
#eval (paths init6 60 s0 []).map (fun l => l.map (fun (c, σ) => (c.length, repr σ.cell)))
