-- hash_pad arithmetic, as in sha256_ctx_avx2.c:240-260, for B = 64, L = 8 and B = 128, L = 16
-- i := total & (B-1);  i += ((B-1) & (0 - (total + L + 1))) + 1 + L   (uint64 wrap-around)
def padEnd (B L total : Nat) : Nat :=
  let i0 := total &&& (B - 1)
  let neg := (2^64 - (total + L + 1) % 2^64) % 2^64
  i0 + ((B - 1) &&& neg) + 1 + L

theorem and63 (x : Nat) : x &&& 63 = x % 64 := Nat.and_two_pow_sub_one_eq_mod x 6
theorem and127 (x : Nat) : x &&& 127 = x % 128 := Nat.and_two_pow_sub_one_eq_mod x 7

-- spec: number of zero bytes k is the least with (total + 1 + k + L) % B = 0
theorem padEnd64 (total : Nat) (h : total < 2^64 - 64) :
    let e := padEnd 64 8 total
    (e = 64 ∨ e = 128) ∧ (e = 64 ↔ total % 64 + 1 + 8 ≤ 64) ∧
    (total - total % 64 + e) % 64 = 0 := by
  simp only [padEnd]
  rw [show (64 - 1 : Nat) = 63 from rfl, Nat.and_comm 63, and63, and63]
  omega

theorem padEnd128 (total : Nat) (h : total < 2^64 - 128) :
    let e := padEnd 128 16 total
    (e = 128 ∨ e = 256) ∧ (e = 128 ↔ total % 128 + 1 + 16 ≤ 128) := by
  simp only [padEnd]
  rw [show (128 - 1 : Nat) = 127 from rfl, Nat.and_comm 127, and127, and127]
  omega
#print axioms padEnd64
