-- This module serves as the root of the `Rh` library.
-- Import modules here that should be built as part of the library.
import Rh.Basic
