import Model
def hex64 (x : UInt64) : String := String.mk (List.range 16 |>.map fun i => "0123456789abcdef".get ⟨((x >>> ((15 - i) * 4).toUInt64) &&& 15).toNat⟩)
partial def loop (h : IO.FS.Stream) (s : RH) : IO Unit := do
  let line ← h.getLine
  if line.isEmpty then return ()
  match line.trimAscii.toString.splitOn " " with
  | ["init", w] => let s' := RH.init w.toNat!; IO.println s!"init {w}"; loop h s'
  | ["reset", seed] =>
      let s' := s.reset (genBytes seed.toNat!.toUInt64 s.w); IO.println s!"reset {hex64 s'.hash}"; loop h s'
  | ["run", len, seed, mask, trig] =>
      let (m, off, s') := s.run (genBytes seed.toNat!.toUInt64 len.toNat!) mask.toNat!.toUInt64 trig.toNat!.toUInt64
      IO.println s!"run {m} {off} {hex64 s'.hash}"; loop h s'
  | _ => IO.println "bad-op"; loop h s
def main : IO Unit := do loop (← IO.getStdin) (RH.init 1)
