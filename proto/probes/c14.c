#include <stdio.h>
#include <string.h>
#include <stdlib.h>
#include <stdint.h>
#include "aes_gcm.h"
#include "aes_cbc.h"
#include "aes_xts.h"
#include "aes_keyexp.h"
void call_and_dump(void *fn, uint64_t *args, uint8_t *dump);
#define DECL(x) extern void x(void);
#define F(x) {#x,(void*)x}
#define ALLX(M) \
 M(_aes_keyexp_128_sse) M(_aes_keyexp_128_avx) M(_aes_keyexp_192_sse) M(_aes_keyexp_192_avx) M(_aes_keyexp_256_sse) M(_aes_keyexp_256_avx)
ALLX(DECL)
DECL(_aes_cbc_enc_128_x4) DECL(_aes_cbc_enc_128_x8) DECL(_aes_cbc_dec_128_sse) DECL(_aes_cbc_dec_128_avx) DECL(_aes_cbc_dec_128_vaes_avx512)
DECL(_XTS_AES_128_enc_sse) DECL(_XTS_AES_128_enc_avx) DECL(_XTS_AES_128_enc_vaes) DECL(_XTS_AES_128_dec_sse) DECL(_XTS_AES_128_dec_avx) DECL(_XTS_AES_128_dec_vaes)
DECL(_XTS_AES_128_enc_expanded_key_sse) DECL(_XTS_AES_128_enc_expanded_key_avx) DECL(_XTS_AES_128_enc_expanded_key_vaes)
DECL(_aes_gcm_precomp_128_sse) DECL(_aes_gcm_precomp_128_avx_gen2) DECL(_aes_gcm_precomp_128_avx_gen4) DECL(_aes_gcm_precomp_128_vaes_avx512)
DECL(_aes_gcm_enc_128_sse) DECL(_aes_gcm_enc_128_avx_gen2) DECL(_aes_gcm_enc_128_avx_gen4) DECL(_aes_gcm_enc_128_vaes_avx512)
static uint8_t dump[32*64] __attribute__((aligned(64)));
static void report(const char*n){ int nz=0; char s[256]=""; for(int r=0;r<32;r++){int z=1; for(int b=0;b<64;b++) if(dump[r*64+b]) z=0; if(!z){nz++; char t[8]; sprintf(t,"%d ",r); strcat(s,t);} } printf("%-40s nonzero regs: %d [%s]\n",n,nz,s);}
int main(void){
  static uint8_t key[32] __attribute__((aligned(64))), enc[240] __attribute__((aligned(64))), dec[240] __attribute__((aligned(64))), in[4096] __attribute__((aligned(64))), out[4096] __attribute__((aligned(64))), iv[16] __attribute__((aligned(64))), tag[16], aad[32];
  for(int i=0;i<32;i++) key[i]=i*3+7; for(int i=0;i<4096;i++) in[i]=i*5;
  struct {const char*n; void*f;} ke[]={F(_aes_keyexp_128_sse),F(_aes_keyexp_128_avx),F(_aes_keyexp_192_sse),F(_aes_keyexp_192_avx),F(_aes_keyexp_256_sse),F(_aes_keyexp_256_avx)};
  for(int i=0;i<6;i++){ uint64_t a[10]={(uint64_t)key,(uint64_t)enc,(uint64_t)dec}; call_and_dump(ke[i].f,a,dump); report(ke[i].n);}
  { uint64_t a[10]={(uint64_t)key,(uint64_t)enc,(uint64_t)dec}; call_and_dump(_aes_keyexp_128_sse,a,dump);}
  struct {const char*n; void*f;} ce[]={F(_aes_cbc_enc_128_x4),F(_aes_cbc_enc_128_x8)};
  for(int i=0;i<2;i++){ uint64_t a[10]={(uint64_t)in,(uint64_t)iv,(uint64_t)enc,(uint64_t)out,160}; call_and_dump(ce[i].f,a,dump); report(ce[i].n);}
  struct {const char*n; void*f;} cd[]={F(_aes_cbc_dec_128_sse),F(_aes_cbc_dec_128_avx),F(_aes_cbc_dec_128_vaes_avx512)};
  for(int i=0;i<3;i++){ uint64_t a[10]={(uint64_t)in,(uint64_t)iv,(uint64_t)dec,(uint64_t)out,160}; call_and_dump(cd[i].f,a,dump); report(cd[i].n);}
  struct {const char*n; void*f;} xt[]={F(_XTS_AES_128_enc_sse),F(_XTS_AES_128_enc_avx),F(_XTS_AES_128_enc_vaes),F(_XTS_AES_128_dec_sse),F(_XTS_AES_128_dec_avx),F(_XTS_AES_128_dec_vaes)};
  for(int i=0;i<6;i++) for(int len=16; len<=16*9+5; len+= (len==16?21:100)){ uint64_t a[10]={(uint64_t)key,(uint64_t)(key+16),(uint64_t)iv,len,(uint64_t)in,(uint64_t)out}; call_and_dump(xt[i].f,a,dump); char nm[80]; sprintf(nm,"%s len=%d",xt[i].n,len); report(nm);}
  struct isal_gcm_key_data *kd; posix_memalign((void**)&kd,64,sizeof *kd); struct isal_gcm_context_data *cx; posix_memalign((void**)&cx,64,sizeof *cx);
  struct {const char*n; void*f; void*g;} gc[]={{"gcm sse",_aes_gcm_precomp_128_sse,_aes_gcm_enc_128_sse},{"gcm gen2",_aes_gcm_precomp_128_avx_gen2,_aes_gcm_enc_128_avx_gen2},{"gcm gen4",_aes_gcm_precomp_128_avx_gen4,_aes_gcm_enc_128_avx_gen4},{"gcm vaes",_aes_gcm_precomp_128_vaes_avx512,_aes_gcm_enc_128_vaes_avx512}};
  for(int i=0;i<4;i++){ memcpy(kd->expanded_keys,enc,176); uint64_t a[10]={(uint64_t)kd}; call_and_dump(gc[i].f,a,dump); char nm[80]; sprintf(nm,"%s precomp",gc[i].n); report(nm);
    for(int len=0;len<=300;len+=75){ uint64_t b[10]={(uint64_t)kd,(uint64_t)cx,(uint64_t)out,(uint64_t)in,len,(uint64_t)iv,(uint64_t)aad,20,(uint64_t)tag,16}; call_and_dump(gc[i].g,b,dump); sprintf(nm,"%s enc len=%d",gc[i].n,len); report(nm);} }
  return 0;
}
