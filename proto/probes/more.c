#include <stdio.h>
#include <string.h>
#include <stdlib.h>
#include <stdint.h>
#include <openssl/evp.h>
#include "aes_gcm.h"
#include "aes_keyexp.h"
#include "aes_xts.h"
static uint64_t rs=0xABCDEF12345ULL; static uint64_t rnd(void){rs^=rs<<13;rs^=rs>>7;rs^=rs<<17;return rs;}
static void ossl(int kb,const uint8_t*key,const uint8_t*iv,const uint8_t*aad,int al,const uint8_t*pt,int len,uint8_t*ct,uint8_t*tag){ EVP_CIPHER_CTX*c=EVP_CIPHER_CTX_new(); int o; EVP_EncryptInit_ex(c,kb==128?EVP_aes_128_gcm():EVP_aes_256_gcm(),NULL,NULL,NULL); EVP_CIPHER_CTX_ctrl(c,EVP_CTRL_GCM_SET_IVLEN,12,NULL); EVP_EncryptInit_ex(c,NULL,NULL,key,iv); if(al)EVP_EncryptUpdate(c,NULL,&o,aad,al); if(len)EVP_EncryptUpdate(c,ct,&o,pt,len); EVP_EncryptFinal_ex(c,ct+len,&o); EVP_CIPHER_CTX_ctrl(c,EVP_CTRL_GCM_GET_TAG,16,tag); EVP_CIPHER_CTX_free(c);}
typedef void (*pre_t)(struct isal_gcm_key_data*);
typedef void (*one_t)(const struct isal_gcm_key_data*,struct isal_gcm_context_data*,uint8_t*,const uint8_t*,uint64_t,uint8_t*,const uint8_t*,uint64_t,uint8_t*,uint64_t);
typedef void (*init_t)(const struct isal_gcm_key_data*,struct isal_gcm_context_data*,uint8_t*,const uint8_t*,uint64_t);
typedef void (*upd_t)(const struct isal_gcm_key_data*,struct isal_gcm_context_data*,uint8_t*,const uint8_t*,uint64_t);
typedef void (*fin_t)(const struct isal_gcm_key_data*,struct isal_gcm_context_data*,uint8_t*,uint64_t);
#define D(K,F) extern void _aes_gcm_precomp_##K##_##F(), _aes_gcm_enc_##K##_##F(), _aes_gcm_dec_##K##_##F(), _aes_gcm_init_##K##_##F(), _aes_gcm_enc_##K##_update_##F(), _aes_gcm_dec_##K##_update_##F(), _aes_gcm_enc_##K##_finalize_##F(), _aes_gcm_enc_##K##_##F##_nt(), _aes_gcm_dec_##K##_##F##_nt(), _aes_gcm_enc_##K##_update_##F##_nt(), _aes_gcm_dec_##K##_update_##F##_nt();
D(128,sse) D(128,avx_gen2) D(128,avx_gen4) D(128,vaes_avx512) D(256,sse) D(256,avx_gen2) D(256,avx_gen4) D(256,vaes_avx512)
extern void _aes_keyexp_128(const uint8_t*,uint8_t*,uint8_t*), _aes_keyexp_256(const uint8_t*,uint8_t*,uint8_t*); extern void _aes_keyexp_128_enc_sse(const uint8_t*,uint8_t*), _aes_keyexp_128_enc_avx(const uint8_t*,uint8_t*);
struct fam {const char*n; int kb; void *pre,*enc,*dec,*init,*eu,*du,*ef,*encnt,*decnt,*eunt,*dunt;};
#define E(K,F) {#K "_" #F, K, _aes_gcm_precomp_##K##_##F,_aes_gcm_enc_##K##_##F,_aes_gcm_dec_##K##_##F,_aes_gcm_init_##K##_##F,_aes_gcm_enc_##K##_update_##F,_aes_gcm_dec_##K##_update_##F,_aes_gcm_enc_##K##_finalize_##F,_aes_gcm_enc_##K##_##F##_nt,_aes_gcm_dec_##K##_##F##_nt,_aes_gcm_enc_##K##_update_##F##_nt,_aes_gcm_dec_##K##_update_##F##_nt}
static struct fam fams[]={E(128,sse),E(128,avx_gen2),E(128,avx_gen4),E(128,vaes_avx512),E(256,sse),E(256,avx_gen2),E(256,avx_gen4),E(256,vaes_avx512)};
int main(void){ struct isal_gcm_key_data *kd; posix_memalign((void**)&kd,64,sizeof *kd); struct isal_gcm_context_data *cx; posix_memalign((void**)&cx,64,sizeof *cx);
  static uint8_t key[32],iv[16],tag[16],tag2[16],etag[16],tmp[240]; uint8_t *aad=malloc(70000),*pt,*ct,*ct2,*pt2,*ect; posix_memalign((void**)&pt,64,1<<21);posix_memalign((void**)&ct,64,1<<21);posix_memalign((void**)&ct2,64,1<<21);posix_memalign((void**)&pt2,64,1<<21);ect=malloc((1<<21)+16);
  for(int f=0;f<8;f++){ int bad=0; struct fam*F=&fams[f];
    for(int t=0;t<400;t++){ for(int i=0;i<32;i++)key[i]=rnd(); for(int i=0;i<12;i++)iv[i]=rnd(); int al= t%4==0? rnd()%70000 : rnd()%600; int len= t%5==0? rnd()%(1<<21) : rnd()%20000; for(int i=0;i<al;i++)aad[i]=rnd(); for(int i=0;i<len;i+=8) *(uint64_t*)(pt+i)=rnd(); int tl=16;
      if(F->kb==128)_aes_keyexp_128(key,kd->expanded_keys,tmp); else _aes_keyexp_256(key,kd->expanded_keys,tmp); ((pre_t)F->pre)(kd);
      ossl(F->kb,key,iv,aad,al,pt,len,ect,etag);
      ((one_t)F->enc)(kd,cx,ct,pt,len,iv,aad,al,tag,tl); if(memcmp(ct,ect,len)||memcmp(tag,etag,tl)){bad++; if(bad<3)printf("%s enc mismatch len=%d al=%d\n",F->n,len,al);} 
      ((one_t)F->encnt)(kd,cx,ct2,pt,len,iv,aad,al,tag2,tl); if(memcmp(ct2,ect,len)||memcmp(tag2,etag,tl)){bad++; if(bad<3)printf("%s enc_nt mismatch len=%d al=%d\n",F->n,len,al);} 
      ((one_t)F->decnt)(kd,cx,pt2,ct,len,iv,aad,al,tag2,tl); if(memcmp(pt2,pt,len)||memcmp(tag2,etag,tl)){bad++; if(bad<3)printf("%s dec_nt mismatch len=%d al=%d\n",F->n,len,al);} 
      /* nt streaming: pieces multiple of 64 except last */
      ((init_t)F->init)(kd,cx,iv,aad,al); int p=0; while(p<len){ int r=len-p; int s= (rnd()%3==0)? r : ((rnd()%64)*64); if(s>r) s=r; if(s<r) s-= s%64; ((upd_t)F->eunt)(kd,cx,ct2+p,pt+p,s); p+=s; if(s==0&&r<64){ ((upd_t)F->eunt)(kd,cx,ct2+p,pt+p,r); p+=r; } } ((fin_t)F->ef)(kd,cx,tag2,tl); if(memcmp(ct2,ect,len)||memcmp(tag2,etag,tl)){bad++; if(bad<3)printf("%s stream enc_nt mismatch len=%d al=%d\n",F->n,len,al);} 
    } printf("gcm-large %-18s bad=%d\n",F->n,bad); }
  /* keyexp_128_enc */
  { int bad=0; uint8_t e1[176],e2[176],d1[176]; for(int t=0;t<1000;t++){ for(int i=0;i<16;i++)key[i]=rnd(); _aes_keyexp_128(key,e1,d1); _aes_keyexp_128_enc_sse(key,e2); if(memcmp(e1,e2,176))bad++; _aes_keyexp_128_enc_avx(key,e2); if(memcmp(e1,e2,176))bad++; } printf("keyexp_128_enc bad=%d\n",bad);} 
  /* XTS big */
  { int bad=0; uint8_t k1[32],k2[32],tw[16],okey[64]; uint8_t*in=pt,*out=ct; for(int t=0;t<60;t++){ for(int i=0;i<32;i++){k1[i]=rnd();k2[i]=rnd();} for(int i=0;i<16;i++)tw[i]=rnd(); int len= t<30? (1<<20)+ (int)(rnd()%4096) : (1<<24) - (int)(rnd()%3)*7; if(len>(1<<21)) len=(1<<21)-(int)(rnd()%40); 
      for(int kb=128;kb<=256;kb+=128){ int kl=kb/8; memcpy(okey,k1,kl); memcpy(okey+kl,k2,kl); EVP_CIPHER_CTX*c=EVP_CIPHER_CTX_new(); int o,o2; EVP_EncryptInit_ex(c,kb==128?EVP_aes_128_xts():EVP_aes_256_xts(),NULL,okey,tw); EVP_EncryptUpdate(c,ect,&o,in,len); EVP_EncryptFinal_ex(c,ect+o,&o2); EVP_CIPHER_CTX_free(c);
        if(kb==128) isal_aes_xts_enc_128(k2,k1,tw,len,in,out); else isal_aes_xts_enc_256(k2,k1,tw,len,in,out); if(memcmp(out,ect,len)){bad++; printf("xts%d big enc mismatch len=%d\n",kb,len);} 
        if(kb==128) isal_aes_xts_dec_128(k2,k1,tw,len,ect,pt2); else isal_aes_xts_dec_256(k2,k1,tw,len,ect,pt2); if(memcmp(pt2,in,len)){bad++; printf("xts%d big dec mismatch len=%d\n",kb,len);} } }
    printf("xts big bad=%d\n",bad);} 
  return 0; }
