#include <stdio.h>
#include <string.h>
#include <stdlib.h>
#include <stdint.h>
#include <openssl/evp.h>
#include "sha1_mb.h"
#include "sha256_mb.h"
#include "sha512_mb.h"
#include "md5_mb.h"
#include "sm3_mb.h"
#include "endian_helper.h"
static uint64_t rs=88172645463325252ULL; static uint64_t rnd(void){rs^=rs<<13;rs^=rs>>7;rs^=rs<<17;return rs;}
#define NCTX 40
#define MAXMSG 3000
#define GEN(ALG,UALG,FAM,EVPMD,WORD,NW,BSWAP) \
extern void _##ALG##_ctx_mgr_init_##FAM(ISAL_##UALG##_HASH_CTX_MGR*); \
extern ISAL_##UALG##_HASH_CTX* _##ALG##_ctx_mgr_submit_##FAM(ISAL_##UALG##_HASH_CTX_MGR*,ISAL_##UALG##_HASH_CTX*,const void*,uint32_t,ISAL_HASH_CTX_FLAG); \
extern ISAL_##UALG##_HASH_CTX* _##ALG##_ctx_mgr_flush_##FAM(ISAL_##UALG##_HASH_CTX_MGR*); \
static int chk_##ALG##_##FAM(ISAL_##UALG##_HASH_CTX*c,unsigned char msgs[][MAXMSG],int*lens){ int id=(int)(uintptr_t)c->user_data; unsigned char md[64]; unsigned l; EVP_Digest(msgs[id],lens[id],md,&l,EVPMD(),NULL); \
  for(int j=0;j<NW;j++){ WORD w=c->job.result_digest[j]; WORD e; memcpy(&e,md+j*sizeof(WORD),sizeof(WORD)); if(BSWAP){ e = sizeof(WORD)==4? (WORD)to_be32((uint32_t)e):(WORD)to_be64((uint64_t)e);} if(w!=e) return 1;} if(c->total_length!=(uint64_t)lens[id]) return 2; return 0; } \
static int run_##ALG##_##FAM(int iters){ ISAL_##UALG##_HASH_CTX_MGR*mgr; posix_memalign((void**)&mgr,64,sizeof*mgr); memset(mgr,POISON,sizeof*mgr); static ISAL_##UALG##_HASH_CTX ctx[NCTX] __attribute__((aligned(64))); static unsigned char msgs[NCTX][MAXMSG]; int lens[NCTX],pos[NCTX],state[NCTX]; int bad=0,done=0; \
  _##ALG##_ctx_mgr_init_##FAM(mgr); memset(ctx,POISON,sizeof ctx); for(int i=0;i<NCTX;i++){isal_hash_ctx_init(&ctx[i]);state[i]=0;ctx[i].user_data=(void*)(uintptr_t)i;} \
  for(int it=0;it<iters;it++){ int i=rnd()%NCTX; ISAL_##UALG##_HASH_CTX*r=NULL; \
    if(rnd()%23==0){ r=_##ALG##_ctx_mgr_flush_##FAM(mgr);} else { if(isal_hash_ctx_processing(&ctx[i])) continue; \
      if(state[i]==0){ lens[i]=rnd()%5? rnd()%300: rnd()%MAXMSG; for(int k=0;k<lens[i];k++)msgs[i][k]=rnd(); pos[i]=0; } \
      int remain=lens[i]-pos[i]; int seg; int c=rnd()%6; seg = c==0?0: c==1? remain : (remain? rnd()%(remain+1):0); if(c==2&&remain>130) seg= (rnd()%3)*64+ (rnd()%3==0); \
      int last = (seg==remain) && (rnd()%2); int fl = (state[i]==0? ISAL_HASH_FIRST:0) | (last? ISAL_HASH_LAST:0); \
      r=_##ALG##_ctx_mgr_submit_##FAM(mgr,&ctx[i],msgs[i]+pos[i],seg,fl); pos[i]+=seg; state[i]= last?2:1; if(ctx[i].error){printf("unexpected error %d\n",ctx[i].error);bad++;} } \
    while(r){ int id=(int)(uintptr_t)r->user_data; if(isal_hash_ctx_processing(r)){printf("returned processing ctx\n");bad++;} if(state[id]==2){ if(!isal_hash_ctx_complete(r)){ /* may be idle only if returned for earlier segment */ } else { int e=chk_##ALG##_##FAM(r,msgs,lens); if(e){bad++; if(bad<4)printf(#ALG "_" #FAM ": MISMATCH kind=%d len=%d\n",e,lens[id]);} done++; state[id]=0; } } r=NULL; } } \
  ISAL_##UALG##_HASH_CTX*r; while((r=_##ALG##_ctx_mgr_flush_##FAM(mgr))){ int id=(int)(uintptr_t)r->user_data; if(state[id]==2&&isal_hash_ctx_complete(r)){ int e=chk_##ALG##_##FAM(r,msgs,lens); if(e){bad++; if(bad<4)printf(#ALG "_" #FAM ": MISMATCH(flush) kind=%d len=%d\n",e,lens[id]);} done++; state[id]=0;} } \
  printf("%-8s %-10s completed=%d bad=%d\n",#ALG,#FAM,done,bad); free(mgr); return bad; }
#define SHA1F(F) GEN(sha1,SHA1,F,EVP_sha1,uint32_t,5,1)
#define SHA256F(F) GEN(sha256,SHA256,F,EVP_sha256,uint32_t,8,1)
#define SHA512F(F) GEN(sha512,SHA512,F,EVP_sha512,uint64_t,8,1)
#define MD5F(F) GEN(md5,MD5,F,EVP_md5,uint32_t,4,0)
#define SM3F(F) GEN(sm3,SM3,F,EVP_sm3,uint32_t,8,0)
SHA1F(base) SHA1F(sse) SHA1F(avx) SHA1F(avx2) SHA1F(avx512) SHA1F(sse_ni) SHA1F(avx512_ni)
SHA256F(base) SHA256F(sse) SHA256F(avx) SHA256F(avx2) SHA256F(avx512) SHA256F(sse_ni) SHA256F(avx512_ni)
SHA512F(base) SHA512F(sse) SHA512F(avx) SHA512F(avx2) SHA512F(avx512) SHA512F(sb_sse4)
MD5F(base) MD5F(sse) MD5F(avx) MD5F(avx2) MD5F(avx512)
SM3F(base) SM3F(avx2) SM3F(avx512)
int main(void){ int N=60000,b=0;
 b+=run_sha1_base(N);b+=run_sha1_sse(N);b+=run_sha1_avx(N);b+=run_sha1_avx2(N);b+=run_sha1_avx512(N);b+=run_sha1_sse_ni(N);b+=run_sha1_avx512_ni(N);
 b+=run_sha256_base(N);b+=run_sha256_sse(N);b+=run_sha256_avx(N);b+=run_sha256_avx2(N);b+=run_sha256_avx512(N);b+=run_sha256_sse_ni(N);b+=run_sha256_avx512_ni(N);
 b+=run_sha512_base(N);b+=run_sha512_sse(N);b+=run_sha512_avx(N);b+=run_sha512_avx2(N);b+=run_sha512_avx512(N);b+=run_sha512_sb_sse4(N);
 b+=run_md5_base(N);b+=run_md5_sse(N);b+=run_md5_avx(N);b+=run_md5_avx2(N);b+=run_md5_avx512(N);
 b+=run_sm3_base(N);b+=run_sm3_avx2(N);b+=run_sm3_avx512(N);
 printf("TOTAL bad=%d\n",b); return 0; }
