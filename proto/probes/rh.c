#include <stdio.h>
#include <string.h>
#include <stdlib.h>
#include "rolling_hashx.h"
int main(void){
  struct isal_rh_state2 *st; posix_memalign((void**)&st,64,sizeof *st);
  unsigned char buf[4096]; srand(1);
  int bad=0;
  for(int t=0;t<200000 && bad<5;t++){
    int w=1+rand()%48; 
    for(int i=0;i<4096;i++) buf[i]=rand();
    isal_rolling_hash2_init(st,w);
    isal_rolling_hash2_reset(st,buf);
    uint32_t len=rand()%200; uint32_t off=0; int match=-1;
    uint32_t mask=0x7, trig=rand()&mask;
    isal_rolling_hash2_run(st,buf+64,len,mask,trig,&off,&match);
    if(off>len){ printf("BAD w=%d len=%u off=%u match=%d\n",w,len,off,match); bad++; }
  }
  printf("done bad=%d\n",bad);
}
