#include <stdio.h>
#include <string.h>
#include <stdlib.h>
#include <stdint.h>
#include <openssl/evp.h>
#include "aes_gcm.h"
#include "aes_keyexp.h"
static uint64_t rs=88172645463325252ULL; static uint64_t rnd(void){rs^=rs<<13;rs^=rs>>7;rs^=rs<<17;return rs;}
typedef void (*pre_t)(struct isal_gcm_key_data*);
typedef void (*one_t)(const struct isal_gcm_key_data*,struct isal_gcm_context_data*,uint8_t*,const uint8_t*,uint64_t,uint8_t*,const uint8_t*,uint64_t,uint8_t*,uint64_t);
typedef void (*init_t)(const struct isal_gcm_key_data*,struct isal_gcm_context_data*,uint8_t*,const uint8_t*,uint64_t);
typedef void (*upd_t)(const struct isal_gcm_key_data*,struct isal_gcm_context_data*,uint8_t*,const uint8_t*,uint64_t);
typedef void (*fin_t)(const struct isal_gcm_key_data*,struct isal_gcm_context_data*,uint8_t*,uint64_t);
#define D(K,F) extern void _aes_gcm_precomp_##K##_##F(), _aes_gcm_enc_##K##_##F(), _aes_gcm_dec_##K##_##F(), _aes_gcm_init_##K##_##F(), _aes_gcm_enc_##K##_update_##F(), _aes_gcm_dec_##K##_update_##F(), _aes_gcm_enc_##K##_finalize_##F(), _aes_gcm_dec_##K##_finalize_##F();
D(128,sse) D(128,avx_gen2) D(128,avx_gen4) D(128,vaes_avx512) D(256,sse) D(256,avx_gen2) D(256,avx_gen4) D(256,vaes_avx512)
extern void _aes_keyexp_128(const uint8_t*,uint8_t*,uint8_t*), _aes_keyexp_256(const uint8_t*,uint8_t*,uint8_t*);
struct fam {const char*n; int kb; void *pre,*enc,*dec,*init,*eu,*du,*ef,*df;};
#define E(K,F) {#K "_" #F, K, _aes_gcm_precomp_##K##_##F,_aes_gcm_enc_##K##_##F,_aes_gcm_dec_##K##_##F,_aes_gcm_init_##K##_##F,_aes_gcm_enc_##K##_update_##F,_aes_gcm_dec_##K##_update_##F,_aes_gcm_enc_##K##_finalize_##F,_aes_gcm_dec_##K##_finalize_##F}
static struct fam fams[]={E(128,sse),E(128,avx_gen2),E(128,avx_gen4),E(128,vaes_avx512),E(256,sse),E(256,avx_gen2),E(256,avx_gen4),E(256,vaes_avx512)};
static void ossl(int kb,const uint8_t*key,const uint8_t*iv,const uint8_t*aad,int al,const uint8_t*pt,int len,uint8_t*ct,uint8_t*tag){ EVP_CIPHER_CTX*c=EVP_CIPHER_CTX_new(); int o; EVP_EncryptInit_ex(c,kb==128?EVP_aes_128_gcm():EVP_aes_256_gcm(),NULL,NULL,NULL); EVP_CIPHER_CTX_ctrl(c,EVP_CTRL_GCM_SET_IVLEN,12,NULL); EVP_EncryptInit_ex(c,NULL,NULL,key,iv); if(al)EVP_EncryptUpdate(c,NULL,&o,aad,al); if(len)EVP_EncryptUpdate(c,ct,&o,pt,len); EVP_EncryptFinal_ex(c,ct+len,&o); EVP_CIPHER_CTX_ctrl(c,EVP_CTRL_GCM_GET_TAG,16,tag); EVP_CIPHER_CTX_free(c);}
int main(void){
  struct isal_gcm_key_data *kd; posix_memalign((void**)&kd,64,sizeof *kd); struct isal_gcm_context_data *cx; posix_memalign((void**)&cx,64,sizeof *cx);
  static uint8_t key[32],iv[16],aad[300],pt[5000],ct[5000],ct2[5000],pt2[5000],tag[16],tag2[16],etag[16],ect[5016];
  for(int f=0;f<8;f++){ int bad=0; struct fam*F=&fams[f];
    for(int t=0;t<6000;t++){ for(int i=0;i<32;i++)key[i]=rnd(); for(int i=0;i<12;i++)iv[i]=rnd(); int al=rnd()%4?rnd()%40:rnd()%300; int len=rnd()%3?rnd()%400:rnd()%5000; for(int i=0;i<al;i++)aad[i]=rnd(); for(int i=0;i<len;i++)pt[i]=rnd(); int tl=(int[]){16,12,8}[rnd()%3];
      memset(kd,0x5a,sizeof*kd); if(F->kb==128)_aes_keyexp_128(key,kd->expanded_keys,ect); else _aes_keyexp_256(key,kd->expanded_keys,ect); ((pre_t)F->pre)(kd);
      ossl(F->kb,key,iv,aad,al,pt,len,ect,etag);
      memset(cx,0xa5,sizeof*cx); ((one_t)F->enc)(kd,cx,ct,pt,len,iv,aad,al,tag,tl);
      if(memcmp(ct,ect,len)||memcmp(tag,etag,tl)){bad++; if(bad<3)printf("%s one-shot enc mismatch len=%d al=%d tl=%d\n",F->n,len,al,tl);}
      memset(cx,0xa5,sizeof*cx); ((one_t)F->dec)(kd,cx,pt2,ct,len,iv,aad,al,tag2,tl); if(memcmp(pt2,pt,len)||memcmp(tag2,etag,tl)){bad++; if(bad<3)printf("%s one-shot dec mismatch len=%d\n",F->n,len);}
      /* streaming */
      memset(cx,0xa5,sizeof*cx); ((init_t)F->init)(kd,cx,iv,aad,al); int p=0; while(p<len|| rnd()%4==0){ int r=len-p; int s= rnd()%5==0?0: (r? rnd()%( (rnd()%3? (r<40?r:40):r) +1):0); ((upd_t)F->eu)(kd,cx,ct2+p,pt+p,s); p+=s; if(p>=len&&rnd()%2)break;} ((fin_t)F->ef)(kd,cx,tag2,tl);
      if(memcmp(ct2,ect,len)||memcmp(tag2,etag,tl)){bad++; if(bad<3)printf("%s stream enc mismatch len=%d al=%d\n",F->n,len,al);}
      memset(cx,0xa5,sizeof*cx); ((init_t)F->init)(kd,cx,iv,aad,al); p=0; while(p<len){ int r=len-p; int s= rnd()%(r+1); ((upd_t)F->du)(kd,cx,pt2+p,ect+p,s); p+=s;} ((fin_t)F->df)(kd,cx,tag2,tl);
      if(memcmp(pt2,pt,len)||memcmp(tag2,etag,tl)){bad++; if(bad<3)printf("%s stream dec mismatch len=%d al=%d\n",F->n,len,al);}
    }
    printf("%-18s bad=%d\n",F->n,bad);
  }
  /* context representation after init + 5-byte update on fixed input */
  for(int i=0;i<32;i++)key[i]=i; for(int i=0;i<12;i++)iv[i]=0x10+i; for(int i=0;i<20;i++)aad[i]=0x80+i; for(int i=0;i<64;i++)pt[i]=i*3;
  for(int f=0;f<4;f++){ struct fam*F=&fams[f]; _aes_keyexp_128(key,kd->expanded_keys,ect); ((pre_t)F->pre)(kd); memset(cx,0,sizeof*cx); ((init_t)F->init)(kd,cx,iv,aad,20); ((upd_t)F->eu)(kd,cx,ct,pt,21);
    printf("%-16s aad_hash=",F->n); for(int i=0;i<16;i++)printf("%02x",cx->aad_hash[i]); printf(" ctr="); for(int i=0;i<16;i++)printf("%02x",cx->current_counter[i]); printf(" pbek="); for(int i=0;i<16;i++)printf("%02x",cx->partial_block_enc_key[i]); printf(" pbl=%lu inlen=%lu\n",cx->partial_block_length,cx->in_length); }
  return 0; }
