#include <stdio.h>
#include <stdlib.h>
#include <string.h>
#include <stdint.h>
#include "rolling_hashx.h"
static void gen(uint64_t seed, uint8_t*out, size_t n){ uint64_t x=seed|1; for(size_t i=0;i<n;i++){ x^=x<<13; x^=x>>7; x^=x<<17; out[i]=(uint8_t)(x>>24);} }
int main(int argc,char**argv){ /* reads op lines on stdin, executes them on the real library, prints canonical result lines */
  struct isal_rh_state2*st; posix_memalign((void**)&st,64,sizeof*st); static uint8_t buf[1<<20]; char line[256];
  while(fgets(line,sizeof line,stdin)){ unsigned long a,b,c,d; 
    if(sscanf(line,"init %lu",&a)==1){ isal_rolling_hash2_init(st,a); printf("init %lu\n",a); }
    else if(sscanf(line,"reset %lu",&a)==1){ gen(a,buf,st->w); isal_rolling_hash2_reset(st,buf); printf("reset %016lx\n",st->hash); }
    else if(sscanf(line,"run %lu %lu %lu %lu",&a,&b,&c,&d)==4){ gen(b,buf,a); uint32_t off=0; int m=-1; isal_rolling_hash2_run(st,buf,a,c,d,&off,&m); printf("run %d %u %016lx\n",m,off,st->hash); }
    else printf("bad-op\n"); }
  return 0; }
