#include <stdio.h>
#include <string.h>
#include <stdlib.h>
#include <stdint.h>
#include "aes_gcm.h"
#include "sha256_mb.h"
#include "isal_crypto_api.h"
void asm_set_self_tests_status(int);
int main(int argc,char**argv){
  struct isal_gcm_key_data *kd; posix_memalign((void**)&kd,64,sizeof *kd); struct isal_gcm_context_data *cx; posix_memalign((void**)&cx,64,sizeof *cx);
  unsigned char key[32]={1,2,3}, iv[12]={0}, in[64]={9}, out[64], tag[16];
  int r;
  r=isal_aes_gcm_pre_256(key,kd); printf("pre r=%d\n",r);
  r=isal_aes_gcm_init_256(kd,cx,iv,NULL,0); printf("init r=%d\n",r);
  asm_set_self_tests_status(1);
  memset(out,0xAA,64);
  r=isal_aes_gcm_enc_256_update(kd,cx,out,in,64); printf("enc_256_update after failed selftest: r=%d out[0]=%02x\n",r,out[0]);
  r=isal_aes_gcm_dec_128_update(kd,cx,out,in,64); printf("dec_128_update after failed selftest: r=%d out[0]=%02x\n",r,out[0]);
  r=isal_aes_gcm_dec_256_update(kd,cx,out,in,64); printf("dec_256_update after failed selftest: r=%d out[0]=%02x  <-- D1\n",r,out[0]);
  return 0;
}
