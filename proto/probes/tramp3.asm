default rel
section .text
global call_poisoned
; rdi = fn, rsi = arg1, rdx = arg2, rcx = pattern buffer (2048 B for zmm0-31 + 8*8 for GPR garbage + 8 for k) 
; returns rax of callee
call_poisoned:
    push rbx
    push rbp
    push r12
    push r13
    push r14
    push r15
    sub  rsp, 8
    mov  rax, rdi
    mov  r12, rcx
%assign i 0
%rep 32
    vmovdqu64 zmm %+ i, [r12 + 64*i]
%assign i i+1
%endrep
    kmovq k1, [r12+2048+64]
    kmovq k2, [r12+2048+64]
    kmovq k3, [r12+2048+64]
    kmovq k4, [r12+2048+64]
    kmovq k5, [r12+2048+64]
    kmovq k6, [r12+2048+64]
    kmovq k7, [r12+2048+64]
    mov  rdi, rsi
    mov  rsi, rdx
    mov  rdx, [r12+2048+0]
    mov  rcx, [r12+2048+8]
    mov  r8,  [r12+2048+16]
    mov  r9,  [r12+2048+24]
    mov  r10, [r12+2048+32]
    mov  r11, [r12+2048+40]
    ; dirty dead stack
    push rax
    lea  rbx, [rsp-4096]
    mov  rbp, [r12+2048+48]
%assign i 0
%rep 64
    mov  [rbx+8*i*8], rbp
%assign i i+1
%endrep
    pop  rax
    ; garbage flags
    mov  rbx, [r12+2048+56]
    and  rbx, 0x8d5          ; CF PF AF ZF SF OF only
    push rbx
    popfq
    mov  rbx, [r12+2048+48]
    mov  rbp, rbx
    call rax
    add  rsp, 8
    pop r15
    pop r14
    pop r13
    pop r12
    pop rbp
    pop rbx
    vzeroupper
    ret
section .note.GNU-stack noalloc noexec nowrite progbits
