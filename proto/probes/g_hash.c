#include "guard.h"
#include "sha1_mb.h"
#include "sha256_mb.h"
#include "sha512_mb.h"
#include "md5_mb.h"
#include "sm3_mb.h"
#include "mh_sha1.h"
#include "mh_sha256.h"
#include "mh_sha1_murmur3_x64_128.h"
#include "rolling_hashx.h"
static void ro(gbuf g){ mprotect(g.base+PG,g.maplen-2*PG,PROT_READ);} 
#define GEN(ALG,UALG,FAM) \
extern void _##ALG##_ctx_mgr_init_##FAM(ISAL_##UALG##_HASH_CTX_MGR*); \
extern ISAL_##UALG##_HASH_CTX* _##ALG##_ctx_mgr_submit_##FAM(ISAL_##UALG##_HASH_CTX_MGR*,ISAL_##UALG##_HASH_CTX*,const void*,uint32_t,ISAL_HASH_CTX_FLAG); \
extern ISAL_##UALG##_HASH_CTX* _##ALG##_ctx_mgr_flush_##FAM(ISAL_##UALG##_HASH_CTX_MGR*); \
static int run_##ALG##_##FAM(void){ int bad=0; \
  for(int sf=0;sf<2;sf++) for(int nctx=1;nctx<=33;nctx+= (nctx<18?1:15)) for(int len=0;len<=300;len+=(nctx==1?1:37)) { \
    galign=64; gbuf gm=galloc(sizeof(ISAL_##UALG##_HASH_CTX_MGR),sf); galign=1; ISAL_##UALG##_HASH_CTX_MGR*mgr=(void*)gm.p; gbuf gc[33],gd[33],gd2[33]; \
    if(TRY(_##ALG##_ctx_mgr_init_##FAM(mgr))){bad++; if(bad<5)printf(#ALG "_" #FAM " init FAULT addr=%p mgr=%p..%p\n",fault_addr,gm.p,gm.p+gm.len);} \
    for(int i=0;i<nctx;i++){ galign=64; gc[i]=galloc(sizeof(ISAL_##UALG##_HASH_CTX),sf); galign=1; isal_hash_ctx_init((ISAL_##UALG##_HASH_CTX*)gc[i].p); int l=len+i*3; gd[i]=galloc(l,sf); for(int k=0;k<l;k++)gd[i].p[k]=k+i; ro(gd[i]); int l2=(len*7+i)%200; gd2[i]=galloc(l2,sf); ro(gd2[i]); } \
    int r=TRY(({ for(int i=0;i<nctx;i++){ _##ALG##_ctx_mgr_submit_##FAM(mgr,(void*)gc[i].p,gd[i].p,gd[i].len,ISAL_HASH_FIRST);} \
                 while(_##ALG##_ctx_mgr_flush_##FAM(mgr)); \
                 for(int i=0;i<nctx;i++){ _##ALG##_ctx_mgr_submit_##FAM(mgr,(void*)gc[i].p,gd2[i].p,gd2[i].len,ISAL_HASH_LAST);} \
                 while(_##ALG##_ctx_mgr_flush_##FAM(mgr)); })); \
    if(r){bad++; if(bad<5){printf(#ALG "_" #FAM " FAULT nctx=%d len=%d sf=%d addr=%p mgr=%p..%p\n",nctx,len,sf,fault_addr,gm.p,gm.p+gm.len); for(int i=0;i<nctx&&i<3;i++)printf("   ctx%d=%p..%p d=%p..%p d2=%p..%p\n",i,gc[i].p,gc[i].p+gc[i].len,gd[i].p,gd[i].p+gd[i].len,gd2[i].p,gd2[i].p+gd2[i].len);} } \
    else { int cb=gcanary_bad(gm); for(int i=0;i<nctx;i++) cb|=gcanary_bad(gc[i]); if(cb){bad++; if(bad<5)printf(#ALG "_" #FAM " CANARY nctx=%d len=%d sf=%d\n",nctx,len,sf);} } \
    for(int i=0;i<nctx;i++){gfree(gc[i]);gfree(gd[i]);gfree(gd2[i]);} gfree(gm); } \
  printf("%-8s %-10s bad=%d\n",#ALG,#FAM,bad); return bad; }
#define SHA1F(F) GEN(sha1,SHA1,F)
#define SHA256F(F) GEN(sha256,SHA256,F)
#define SHA512F(F) GEN(sha512,SHA512,F)
#define MD5F(F) GEN(md5,MD5,F)
#define SM3F(F) GEN(sm3,SM3,F)
SHA1F(base) SHA1F(sse) SHA1F(avx) SHA1F(avx2) SHA1F(avx512) SHA1F(sse_ni) SHA1F(avx512_ni)
SHA256F(base) SHA256F(sse) SHA256F(avx) SHA256F(avx2) SHA256F(avx512) SHA256F(sse_ni) SHA256F(avx512_ni)
SHA512F(base) SHA512F(sse) SHA512F(avx) SHA512F(avx2) SHA512F(avx512) SHA512F(sb_sse4)
MD5F(base) MD5F(sse) MD5F(avx) MD5F(avx2) MD5F(avx512)
SM3F(base) SM3F(avx2) SM3F(avx512)
int main(void){ ginit(); int b=0;
 b+=run_sha1_base();b+=run_sha1_sse();b+=run_sha1_avx();b+=run_sha1_avx2();b+=run_sha1_avx512();b+=run_sha1_sse_ni();b+=run_sha1_avx512_ni();
 b+=run_sha256_base();b+=run_sha256_sse();b+=run_sha256_avx();b+=run_sha256_avx2();b+=run_sha256_avx512();b+=run_sha256_sse_ni();b+=run_sha256_avx512_ni();
 b+=run_sha512_base();b+=run_sha512_sse();b+=run_sha512_avx();b+=run_sha512_avx2();b+=run_sha512_avx512();b+=run_sha512_sb_sse4();
 b+=run_md5_base();b+=run_md5_sse();b+=run_md5_avx();b+=run_md5_avx2();b+=run_md5_avx512();
 b+=run_sm3_base();b+=run_sm3_avx2();b+=run_sm3_avx512();
 printf("TOTAL bad=%d\n",b); return b!=0; }
