default rel
section .text
global call_and_dump2
; rdi = fn, rsi = args (10 qwords), rdx = zmm dump (2048 B), rcx = stack dump (65536 B)
; pre-fills 64 KiB below the call frame with 0x5C, pre-fills zmm0-31 with pattern from [rdx] (2048 B in) 
call_and_dump2:
    push rbx
    push rbp
    push r12
    push r13
    push r14
    push r15
    mov  rbx, rdx
    mov  r13, rcx
    mov  rax, rdi
    mov  r12, rsi
    sub  rsp, 8*5
    ; prefill dead stack below rsp
    lea  rdi, [rsp - 65536]
    mov  rcx, 65536
    push rax
    mov  al, 0x5C
    lea  rdi, [rsp - 65536]
    rep stosb
    pop  rax
%assign i 0
%rep 32
    vmovdqu64 zmm %+ i, [rbx + 64*i]
%assign i i+1
%endrep
    mov  r10, [r12+8*6]
    mov  [rsp], r10
    mov  r10, [r12+8*7]
    mov  [rsp+8], r10
    mov  r10, [r12+8*8]
    mov  [rsp+16], r10
    mov  r10, [r12+8*9]
    mov  [rsp+24], r10
    mov  rdi, [r12]
    mov  rsi, [r12+8]
    mov  rdx, [r12+16]
    mov  rcx, [r12+24]
    mov  r8,  [r12+32]
    mov  r9,  [r12+40]
    call rax
%assign i 0
%rep 32
    vmovdqu64 [rbx + 64*i], zmm %+ i
%assign i i+1
%endrep
    lea  rsi, [rsp - 65536]
    mov  rdi, r13
    mov  rcx, 65536
    rep movsb
    add  rsp, 8*5
    pop r15
    pop r14
    pop r13
    pop r12
    pop rbp
    pop rbx
    ret
section .note.GNU-stack noalloc noexec nowrite progbits
