#include <stdio.h>
#include <string.h>
#include <stdlib.h>
#include <stdint.h>
#include "sha1_mb.h"
#include "sha256_mb.h"
#include "sha512_mb.h"
#include "md5_mb.h"
#include "sm3_mb.h"
void* call_poisoned(void*fn, void*a1, void*a2, uint8_t*pat);
static uint64_t rs=0x12345; static uint64_t rnd(void){rs^=rs<<13;rs^=rs>>7;rs^=rs<<17;return rs;}
static uint8_t pat[2][2048+128] __attribute__((aligned(64)));
static uint8_t data[64*1024];
#define NJ 40
#define GEN(ALG,UALG,FAM,INITF,NW,WORD) \
extern void _##ALG##_mb_mgr_init_##INITF(ISAL_##UALG##_MB_JOB_MGR*); extern void* _##ALG##_mb_mgr_submit_##FAM(); extern void* _##ALG##_mb_mgr_flush_##FAM(); \
static int run_##ALG##_##FAM(void){ static WORD res[2][NJ][NW]; static uint8_t mimg[2][sizeof(ISAL_##UALG##_MB_JOB_MGR)]; int order[2][NJ*2]; int no[2]={0,0}; \
  for(int v=0;v<2;v++){ ISAL_##UALG##_MB_JOB_MGR*m; posix_memalign((void**)&m,64,sizeof*m); memset(m,0x77+v,sizeof*m); _##ALG##_mb_mgr_init_##INITF(m); static ISAL_##UALG##_JOB jobs[NJ] __attribute__((aligned(64))); uint64_t s=rs; rs=777; \
    for(int j=0;j<NJ;j++){ memset(&jobs[j],0x33+v,sizeof jobs[j]); jobs[j].buffer=data+(rnd()%1000); jobs[j].len= (j%7==3)?0: 1+rnd()%9; for(int w=0;w<NW;w++) jobs[j].result_digest[w]=(WORD)(0x0101010101010101ULL*(j+1)+w); jobs[j].user_data=(void*)(uintptr_t)j; \
      ISAL_##UALG##_JOB*r=call_poisoned(_##ALG##_mb_mgr_submit_##FAM,m,&jobs[j],pat[v]); if(r) order[v][no[v]++]=(int)(r-jobs); if(j%11==10){ r=call_poisoned(_##ALG##_mb_mgr_flush_##FAM,m,0,pat[v]); if(r) order[v][no[v]++]=(int)(r-jobs);} } \
    for(;;){ ISAL_##UALG##_JOB*r=call_poisoned(_##ALG##_mb_mgr_flush_##FAM,m,0,pat[v]); if(!r)break; order[v][no[v]++]=(int)(r-jobs);} rs=s; \
    for(int j=0;j<NJ;j++) memcpy(res[v][j],jobs[j].result_digest,sizeof res[v][j]); free(m);} \
  int bad=0; if(no[0]!=no[1]||memcmp(order[0],order[1],no[0]*sizeof(int))){bad++; printf(#ALG "_" #FAM ": return ORDER differs between poison patterns (%d vs %d returns)\n",no[0],no[1]);} if(no[0]!=NJ){bad++; printf(#ALG "_" #FAM ": %d jobs returned, expected %d\n",no[0],NJ);} if(memcmp(res[0],res[1],sizeof res[0])){bad++; printf(#ALG "_" #FAM ": DIGESTS differ between poison patterns\n");} \
  printf("%-8s %-10s bad=%d\n",#ALG,#FAM,bad); return bad; }
GEN(sha1,SHA1,sse,sse,5,uint32_t) GEN(sha1,SHA1,avx,sse,5,uint32_t) GEN(sha1,SHA1,avx2,avx2,5,uint32_t) GEN(sha1,SHA1,avx512,avx512,5,uint32_t) GEN(sha1,SHA1,sse_ni,sse,5,uint32_t)
GEN(sha256,SHA256,sse,sse,8,uint32_t) GEN(sha256,SHA256,avx,sse,8,uint32_t) GEN(sha256,SHA256,avx2,avx2,8,uint32_t) GEN(sha256,SHA256,avx512,avx512,8,uint32_t) GEN(sha256,SHA256,sse_ni,sse,8,uint32_t)
GEN(sha512,SHA512,sse,sse,8,uint64_t) GEN(sha512,SHA512,avx,sse,8,uint64_t) GEN(sha512,SHA512,avx2,avx2,8,uint64_t) GEN(sha512,SHA512,avx512,avx512,8,uint64_t)
GEN(md5,MD5,sse,sse,4,uint32_t) GEN(md5,MD5,avx,sse,4,uint32_t) GEN(md5,MD5,avx2,avx2,4,uint32_t) GEN(md5,MD5,avx512,avx512,4,uint32_t)
GEN(sm3,SM3,avx2,avx2,8,uint32_t) GEN(sm3,SM3,avx512,avx512,8,uint32_t)
int main(void){ for(int i=0;i<sizeof data;i++)data[i]=rnd(); for(int i=0;i<2048+128;i++){pat[0][i]=0x00; pat[1][i]=(uint8_t)(0x80|rnd());} ((uint64_t*)(pat[0]+2048))[7]=0; ((uint64_t*)(pat[1]+2048))[7]=0x8d5;
 int b=0; b+=run_sha1_sse();b+=run_sha1_avx();b+=run_sha1_avx2();b+=run_sha1_avx512();b+=run_sha1_sse_ni();
 b+=run_sha256_sse();b+=run_sha256_avx();b+=run_sha256_avx2();b+=run_sha256_avx512();b+=run_sha256_sse_ni();
 b+=run_sha512_sse();b+=run_sha512_avx();b+=run_sha512_avx2();b+=run_sha512_avx512();
 b+=run_md5_sse();b+=run_md5_avx();b+=run_md5_avx2();b+=run_md5_avx512();
 b+=run_sm3_avx2();b+=run_sm3_avx512(); printf("TOTAL bad=%d\n",b); return 0; }
