#include <stdio.h>
#include <string.h>
#include <stdlib.h>
void asm_set_self_tests_status(int);
static unsigned char bufs[12][1<<16] __attribute__((aligned(64)));
static int bad;
static int dirty(int n){ for(int b=0;b<n;b++) for(int i=0;i<(1<<16);i++) if(bufs[b][i]!=(unsigned char)(0xA0+b)) return 1; return 0; }
static void fill(void){ for(int b=0;b<12;b++) memset(bufs[b],0xA0+b,1<<16); }
extern long isal_aes_gcm_enc_128();
extern long isal_aes_gcm_enc_256();
extern long isal_aes_gcm_dec_128();
extern long isal_aes_gcm_dec_256();
extern long isal_aes_gcm_init_128();
extern long isal_aes_gcm_init_256();
extern long isal_aes_gcm_enc_128_update();
extern long isal_aes_gcm_enc_256_update();
extern long isal_aes_gcm_dec_128_update();
extern long isal_aes_gcm_dec_256_update();
extern long isal_aes_gcm_enc_128_finalize();
extern long isal_aes_gcm_enc_256_finalize();
extern long isal_aes_gcm_dec_128_finalize();
extern long isal_aes_gcm_dec_256_finalize();
extern long isal_aes_gcm_pre_128();
extern long isal_aes_gcm_pre_256();
extern long isal_aes_gcm_enc_128_nt();
extern long isal_aes_gcm_enc_256_nt();
extern long isal_aes_gcm_dec_128_nt();
extern long isal_aes_gcm_dec_256_nt();
extern long isal_aes_gcm_enc_128_update_nt();
extern long isal_aes_gcm_enc_256_update_nt();
extern long isal_aes_gcm_dec_128_update_nt();
extern long isal_aes_gcm_dec_256_update_nt();
extern long isal_aes_cbc_enc_128();
extern long isal_aes_cbc_enc_192();
extern long isal_aes_cbc_enc_256();
extern long isal_aes_cbc_dec_128();
extern long isal_aes_cbc_dec_192();
extern long isal_aes_cbc_dec_256();
extern long isal_aes_xts_enc_128();
extern long isal_aes_xts_enc_128_expanded_key();
extern long isal_aes_xts_dec_128();
extern long isal_aes_xts_dec_128_expanded_key();
extern long isal_aes_xts_enc_256();
extern long isal_aes_xts_enc_256_expanded_key();
extern long isal_aes_xts_dec_256();
extern long isal_aes_xts_dec_256_expanded_key();
extern long isal_aes_keyexp_128();
extern long isal_aes_keyexp_192();
extern long isal_aes_keyexp_256();
extern long isal_sha1_ctx_mgr_init();
extern long isal_sha1_ctx_mgr_submit();
extern long isal_sha1_ctx_mgr_flush();
extern long isal_sha256_ctx_mgr_init();
extern long isal_sha256_ctx_mgr_submit();
extern long isal_sha256_ctx_mgr_flush();
extern long isal_sha512_ctx_mgr_init();
extern long isal_sha512_ctx_mgr_submit();
extern long isal_sha512_ctx_mgr_flush();
extern long isal_md5_ctx_mgr_init();
extern long isal_md5_ctx_mgr_submit();
extern long isal_md5_ctx_mgr_flush();
extern long isal_sm3_ctx_mgr_init();
extern long isal_sm3_ctx_mgr_submit();
extern long isal_sm3_ctx_mgr_flush();
extern long isal_mh_sha1_init();
extern long isal_mh_sha1_update();
extern long isal_mh_sha1_finalize();
extern long isal_mh_sha256_init();
extern long isal_mh_sha256_update();
extern long isal_mh_sha256_finalize();
extern long isal_mh_sha1_murmur3_x64_128_init();
extern long isal_mh_sha1_murmur3_x64_128_update();
extern long isal_mh_sha1_murmur3_x64_128_finalize();
extern long isal_rolling_hash2_init();
extern long isal_rolling_hash2_reset();
extern long isal_rolling_hash2_run();
extern long isal_rolling_hashx_mask_gen();
extern long isal_self_tests();
extern long isal_crypto_get_version_str();
extern long isal_crypto_get_version();
int main(void){ asm_set_self_tests_status(1); long r;
  fprintf(stderr,"isal_aes_gcm_enc_128\n"); fill(); r=isal_aes_gcm_enc_128((long)bufs[0], (long)bufs[1], (long)bufs[2], (long)bufs[3], (long)64, (long)bufs[4], (long)bufs[5], (long)16, (long)bufs[6], (long)16); if(r!=2016||dirty(7)){ printf("%-44s ret=%ld (expected 2016) outputs_modified=%d\n","isal_aes_gcm_enc_128",r,dirty(7)); bad++; }
  fprintf(stderr,"isal_aes_gcm_enc_256\n"); fill(); r=isal_aes_gcm_enc_256((long)bufs[0], (long)bufs[1], (long)bufs[2], (long)bufs[3], (long)64, (long)bufs[4], (long)bufs[5], (long)16, (long)bufs[6], (long)16); if(r!=2016||dirty(7)){ printf("%-44s ret=%ld (expected 2016) outputs_modified=%d\n","isal_aes_gcm_enc_256",r,dirty(7)); bad++; }
  fprintf(stderr,"isal_aes_gcm_dec_128\n"); fill(); r=isal_aes_gcm_dec_128((long)bufs[0], (long)bufs[1], (long)bufs[2], (long)bufs[3], (long)64, (long)bufs[4], (long)bufs[5], (long)16, (long)bufs[6], (long)16); if(r!=2016||dirty(7)){ printf("%-44s ret=%ld (expected 2016) outputs_modified=%d\n","isal_aes_gcm_dec_128",r,dirty(7)); bad++; }
  fprintf(stderr,"isal_aes_gcm_dec_256\n"); fill(); r=isal_aes_gcm_dec_256((long)bufs[0], (long)bufs[1], (long)bufs[2], (long)bufs[3], (long)64, (long)bufs[4], (long)bufs[5], (long)16, (long)bufs[6], (long)16); if(r!=2016||dirty(7)){ printf("%-44s ret=%ld (expected 2016) outputs_modified=%d\n","isal_aes_gcm_dec_256",r,dirty(7)); bad++; }
  fprintf(stderr,"isal_aes_gcm_init_128\n"); fill(); r=isal_aes_gcm_init_128((long)bufs[0], (long)bufs[1], (long)bufs[2], (long)bufs[3], (long)16); if(r!=2016||dirty(4)){ printf("%-44s ret=%ld (expected 2016) outputs_modified=%d\n","isal_aes_gcm_init_128",r,dirty(4)); bad++; }
  fprintf(stderr,"isal_aes_gcm_init_256\n"); fill(); r=isal_aes_gcm_init_256((long)bufs[0], (long)bufs[1], (long)bufs[2], (long)bufs[3], (long)16); if(r!=2016||dirty(4)){ printf("%-44s ret=%ld (expected 2016) outputs_modified=%d\n","isal_aes_gcm_init_256",r,dirty(4)); bad++; }
  fprintf(stderr,"isal_aes_gcm_enc_128_update\n"); fill(); r=isal_aes_gcm_enc_128_update((long)bufs[0], (long)bufs[1], (long)bufs[2], (long)bufs[3], (long)64); if(r!=2016||dirty(4)){ printf("%-44s ret=%ld (expected 2016) outputs_modified=%d\n","isal_aes_gcm_enc_128_update",r,dirty(4)); bad++; }
  fprintf(stderr,"isal_aes_gcm_enc_256_update\n"); fill(); r=isal_aes_gcm_enc_256_update((long)bufs[0], (long)bufs[1], (long)bufs[2], (long)bufs[3], (long)64); if(r!=2016||dirty(4)){ printf("%-44s ret=%ld (expected 2016) outputs_modified=%d\n","isal_aes_gcm_enc_256_update",r,dirty(4)); bad++; }
  fprintf(stderr,"isal_aes_gcm_dec_128_update\n"); fill(); r=isal_aes_gcm_dec_128_update((long)bufs[0], (long)bufs[1], (long)bufs[2], (long)bufs[3], (long)64); if(r!=2016||dirty(4)){ printf("%-44s ret=%ld (expected 2016) outputs_modified=%d\n","isal_aes_gcm_dec_128_update",r,dirty(4)); bad++; }
  fprintf(stderr,"isal_aes_gcm_enc_128_finalize\n"); fill(); r=isal_aes_gcm_enc_128_finalize((long)bufs[0], (long)bufs[1], (long)bufs[2], (long)16); if(r!=2016||dirty(3)){ printf("%-44s ret=%ld (expected 2016) outputs_modified=%d\n","isal_aes_gcm_enc_128_finalize",r,dirty(3)); bad++; }
  fprintf(stderr,"isal_aes_gcm_enc_256_finalize\n"); fill(); r=isal_aes_gcm_enc_256_finalize((long)bufs[0], (long)bufs[1], (long)bufs[2], (long)16); if(r!=2016||dirty(3)){ printf("%-44s ret=%ld (expected 2016) outputs_modified=%d\n","isal_aes_gcm_enc_256_finalize",r,dirty(3)); bad++; }
  fprintf(stderr,"isal_aes_gcm_dec_128_finalize\n"); fill(); r=isal_aes_gcm_dec_128_finalize((long)bufs[0], (long)bufs[1], (long)bufs[2], (long)16); if(r!=2016||dirty(3)){ printf("%-44s ret=%ld (expected 2016) outputs_modified=%d\n","isal_aes_gcm_dec_128_finalize",r,dirty(3)); bad++; }
  fprintf(stderr,"isal_aes_gcm_dec_256_finalize\n"); fill(); r=isal_aes_gcm_dec_256_finalize((long)bufs[0], (long)bufs[1], (long)bufs[2], (long)16); if(r!=2016||dirty(3)){ printf("%-44s ret=%ld (expected 2016) outputs_modified=%d\n","isal_aes_gcm_dec_256_finalize",r,dirty(3)); bad++; }
  fprintf(stderr,"isal_aes_gcm_pre_128\n"); fill(); r=isal_aes_gcm_pre_128((long)bufs[0], (long)bufs[1]); if(r!=2016||dirty(2)){ printf("%-44s ret=%ld (expected 2016) outputs_modified=%d\n","isal_aes_gcm_pre_128",r,dirty(2)); bad++; }
  fprintf(stderr,"isal_aes_gcm_pre_256\n"); fill(); r=isal_aes_gcm_pre_256((long)bufs[0], (long)bufs[1]); if(r!=2016||dirty(2)){ printf("%-44s ret=%ld (expected 2016) outputs_modified=%d\n","isal_aes_gcm_pre_256",r,dirty(2)); bad++; }
  fprintf(stderr,"isal_aes_gcm_enc_128_nt\n"); fill(); r=isal_aes_gcm_enc_128_nt((long)bufs[0], (long)bufs[1], (long)bufs[2], (long)bufs[3], (long)64, (long)bufs[4], (long)bufs[5], (long)16, (long)bufs[6], (long)16); if(r!=2016||dirty(7)){ printf("%-44s ret=%ld (expected 2016) outputs_modified=%d\n","isal_aes_gcm_enc_128_nt",r,dirty(7)); bad++; }
  fprintf(stderr,"isal_aes_gcm_enc_256_nt\n"); fill(); r=isal_aes_gcm_enc_256_nt((long)bufs[0], (long)bufs[1], (long)bufs[2], (long)bufs[3], (long)64, (long)bufs[4], (long)bufs[5], (long)16, (long)bufs[6], (long)16); if(r!=2016||dirty(7)){ printf("%-44s ret=%ld (expected 2016) outputs_modified=%d\n","isal_aes_gcm_enc_256_nt",r,dirty(7)); bad++; }
  fprintf(stderr,"isal_aes_gcm_dec_128_nt\n"); fill(); r=isal_aes_gcm_dec_128_nt((long)bufs[0], (long)bufs[1], (long)bufs[2], (long)bufs[3], (long)64, (long)bufs[4], (long)bufs[5], (long)16, (long)bufs[6], (long)16); if(r!=2016||dirty(7)){ printf("%-44s ret=%ld (expected 2016) outputs_modified=%d\n","isal_aes_gcm_dec_128_nt",r,dirty(7)); bad++; }
  fprintf(stderr,"isal_aes_gcm_dec_256_nt\n"); fill(); r=isal_aes_gcm_dec_256_nt((long)bufs[0], (long)bufs[1], (long)bufs[2], (long)bufs[3], (long)64, (long)bufs[4], (long)bufs[5], (long)16, (long)bufs[6], (long)16); if(r!=2016||dirty(7)){ printf("%-44s ret=%ld (expected 2016) outputs_modified=%d\n","isal_aes_gcm_dec_256_nt",r,dirty(7)); bad++; }
  fprintf(stderr,"isal_aes_gcm_enc_128_update_nt\n"); fill(); r=isal_aes_gcm_enc_128_update_nt((long)bufs[0], (long)bufs[1], (long)bufs[2], (long)bufs[3], (long)64); if(r!=2016||dirty(4)){ printf("%-44s ret=%ld (expected 2016) outputs_modified=%d\n","isal_aes_gcm_enc_128_update_nt",r,dirty(4)); bad++; }
  fprintf(stderr,"isal_aes_gcm_enc_256_update_nt\n"); fill(); r=isal_aes_gcm_enc_256_update_nt((long)bufs[0], (long)bufs[1], (long)bufs[2], (long)bufs[3], (long)64); if(r!=2016||dirty(4)){ printf("%-44s ret=%ld (expected 2016) outputs_modified=%d\n","isal_aes_gcm_enc_256_update_nt",r,dirty(4)); bad++; }
  fprintf(stderr,"isal_aes_gcm_dec_128_update_nt\n"); fill(); r=isal_aes_gcm_dec_128_update_nt((long)bufs[0], (long)bufs[1], (long)bufs[2], (long)bufs[3], (long)64); if(r!=2016||dirty(4)){ printf("%-44s ret=%ld (expected 2016) outputs_modified=%d\n","isal_aes_gcm_dec_128_update_nt",r,dirty(4)); bad++; }
  fprintf(stderr,"isal_aes_gcm_dec_256_update_nt\n"); fill(); r=isal_aes_gcm_dec_256_update_nt((long)bufs[0], (long)bufs[1], (long)bufs[2], (long)bufs[3], (long)64); if(r!=2016||dirty(4)){ printf("%-44s ret=%ld (expected 2016) outputs_modified=%d\n","isal_aes_gcm_dec_256_update_nt",r,dirty(4)); bad++; }
  fprintf(stderr,"isal_aes_cbc_enc_128\n"); fill(); r=isal_aes_cbc_enc_128((long)bufs[0], (long)bufs[1], (long)bufs[2], (long)bufs[3], (long)64); if(r!=2016||dirty(4)){ printf("%-44s ret=%ld (expected 2016) outputs_modified=%d\n","isal_aes_cbc_enc_128",r,dirty(4)); bad++; }
  fprintf(stderr,"isal_aes_cbc_enc_192\n"); fill(); r=isal_aes_cbc_enc_192((long)bufs[0], (long)bufs[1], (long)bufs[2], (long)bufs[3], (long)64); if(r!=2016||dirty(4)){ printf("%-44s ret=%ld (expected 2016) outputs_modified=%d\n","isal_aes_cbc_enc_192",r,dirty(4)); bad++; }
  fprintf(stderr,"isal_aes_cbc_enc_256\n"); fill(); r=isal_aes_cbc_enc_256((long)bufs[0], (long)bufs[1], (long)bufs[2], (long)bufs[3], (long)64); if(r!=2016||dirty(4)){ printf("%-44s ret=%ld (expected 2016) outputs_modified=%d\n","isal_aes_cbc_enc_256",r,dirty(4)); bad++; }
  fprintf(stderr,"isal_aes_cbc_dec_128\n"); fill(); r=isal_aes_cbc_dec_128((long)bufs[0], (long)bufs[1], (long)bufs[2], (long)bufs[3], (long)64); if(r!=2016||dirty(4)){ printf("%-44s ret=%ld (expected 2016) outputs_modified=%d\n","isal_aes_cbc_dec_128",r,dirty(4)); bad++; }
  fprintf(stderr,"isal_aes_cbc_dec_192\n"); fill(); r=isal_aes_cbc_dec_192((long)bufs[0], (long)bufs[1], (long)bufs[2], (long)bufs[3], (long)64); if(r!=2016||dirty(4)){ printf("%-44s ret=%ld (expected 2016) outputs_modified=%d\n","isal_aes_cbc_dec_192",r,dirty(4)); bad++; }
  fprintf(stderr,"isal_aes_cbc_dec_256\n"); fill(); r=isal_aes_cbc_dec_256((long)bufs[0], (long)bufs[1], (long)bufs[2], (long)bufs[3], (long)64); if(r!=2016||dirty(4)){ printf("%-44s ret=%ld (expected 2016) outputs_modified=%d\n","isal_aes_cbc_dec_256",r,dirty(4)); bad++; }
  fprintf(stderr,"isal_aes_xts_enc_128\n"); fill(); r=isal_aes_xts_enc_128((long)bufs[0], (long)bufs[1], (long)bufs[2], (long)64, (long)bufs[3], (long)bufs[4]); if(r!=2016||dirty(5)){ printf("%-44s ret=%ld (expected 2016) outputs_modified=%d\n","isal_aes_xts_enc_128",r,dirty(5)); bad++; }
  fprintf(stderr,"isal_aes_xts_enc_128_expanded_key\n"); fill(); r=isal_aes_xts_enc_128_expanded_key((long)bufs[0], (long)bufs[1], (long)bufs[2], (long)64, (long)bufs[3], (long)bufs[4]); if(r!=2016||dirty(5)){ printf("%-44s ret=%ld (expected 2016) outputs_modified=%d\n","isal_aes_xts_enc_128_expanded_key",r,dirty(5)); bad++; }
  fprintf(stderr,"isal_aes_xts_dec_128\n"); fill(); r=isal_aes_xts_dec_128((long)bufs[0], (long)bufs[1], (long)bufs[2], (long)64, (long)bufs[3], (long)bufs[4]); if(r!=2016||dirty(5)){ printf("%-44s ret=%ld (expected 2016) outputs_modified=%d\n","isal_aes_xts_dec_128",r,dirty(5)); bad++; }
  fprintf(stderr,"isal_aes_xts_dec_128_expanded_key\n"); fill(); r=isal_aes_xts_dec_128_expanded_key((long)bufs[0], (long)bufs[1], (long)bufs[2], (long)64, (long)bufs[3], (long)bufs[4]); if(r!=2016||dirty(5)){ printf("%-44s ret=%ld (expected 2016) outputs_modified=%d\n","isal_aes_xts_dec_128_expanded_key",r,dirty(5)); bad++; }
  fprintf(stderr,"isal_aes_xts_enc_256\n"); fill(); r=isal_aes_xts_enc_256((long)bufs[0], (long)bufs[1], (long)bufs[2], (long)64, (long)bufs[3], (long)bufs[4]); if(r!=2016||dirty(5)){ printf("%-44s ret=%ld (expected 2016) outputs_modified=%d\n","isal_aes_xts_enc_256",r,dirty(5)); bad++; }
  fprintf(stderr,"isal_aes_xts_enc_256_expanded_key\n"); fill(); r=isal_aes_xts_enc_256_expanded_key((long)bufs[0], (long)bufs[1], (long)bufs[2], (long)64, (long)bufs[3], (long)bufs[4]); if(r!=2016||dirty(5)){ printf("%-44s ret=%ld (expected 2016) outputs_modified=%d\n","isal_aes_xts_enc_256_expanded_key",r,dirty(5)); bad++; }
  fprintf(stderr,"isal_aes_xts_dec_256\n"); fill(); r=isal_aes_xts_dec_256((long)bufs[0], (long)bufs[1], (long)bufs[2], (long)64, (long)bufs[3], (long)bufs[4]); if(r!=2016||dirty(5)){ printf("%-44s ret=%ld (expected 2016) outputs_modified=%d\n","isal_aes_xts_dec_256",r,dirty(5)); bad++; }
  fprintf(stderr,"isal_aes_xts_dec_256_expanded_key\n"); fill(); r=isal_aes_xts_dec_256_expanded_key((long)bufs[0], (long)bufs[1], (long)bufs[2], (long)64, (long)bufs[3], (long)bufs[4]); if(r!=2016||dirty(5)){ printf("%-44s ret=%ld (expected 2016) outputs_modified=%d\n","isal_aes_xts_dec_256_expanded_key",r,dirty(5)); bad++; }
  fprintf(stderr,"isal_aes_keyexp_128\n"); fill(); r=isal_aes_keyexp_128((long)bufs[0], (long)bufs[1], (long)bufs[2]); if(r!=2016||dirty(3)){ printf("%-44s ret=%ld (expected 2016) outputs_modified=%d\n","isal_aes_keyexp_128",r,dirty(3)); bad++; }
  fprintf(stderr,"isal_aes_keyexp_192\n"); fill(); r=isal_aes_keyexp_192((long)bufs[0], (long)bufs[1], (long)bufs[2]); if(r!=2016||dirty(3)){ printf("%-44s ret=%ld (expected 2016) outputs_modified=%d\n","isal_aes_keyexp_192",r,dirty(3)); bad++; }
  fprintf(stderr,"isal_aes_keyexp_256\n"); fill(); r=isal_aes_keyexp_256((long)bufs[0], (long)bufs[1], (long)bufs[2]); if(r!=2016||dirty(3)){ printf("%-44s ret=%ld (expected 2016) outputs_modified=%d\n","isal_aes_keyexp_256",r,dirty(3)); bad++; }
  fprintf(stderr,"isal_sha1_ctx_mgr_init\n"); fill(); r=isal_sha1_ctx_mgr_init((long)bufs[0]); if(r!=2016||dirty(1)){ printf("%-44s ret=%ld (expected 2016) outputs_modified=%d\n","isal_sha1_ctx_mgr_init",r,dirty(1)); bad++; }
  fprintf(stderr,"isal_sha1_ctx_mgr_submit\n"); fill(); r=isal_sha1_ctx_mgr_submit((long)bufs[0], (long)bufs[1], (long)bufs[2], (long)bufs[3], (long)64, (long)3); if(r!=2016||dirty(4)){ printf("%-44s ret=%ld (expected 2016) outputs_modified=%d\n","isal_sha1_ctx_mgr_submit",r,dirty(4)); bad++; }
  fprintf(stderr,"isal_sha1_ctx_mgr_flush\n"); fill(); r=isal_sha1_ctx_mgr_flush((long)bufs[0], (long)bufs[1]); if(r!=2016||dirty(2)){ printf("%-44s ret=%ld (expected 2016) outputs_modified=%d\n","isal_sha1_ctx_mgr_flush",r,dirty(2)); bad++; }
  fprintf(stderr,"isal_sha256_ctx_mgr_init\n"); fill(); r=isal_sha256_ctx_mgr_init((long)bufs[0]); if(r!=2016||dirty(1)){ printf("%-44s ret=%ld (expected 2016) outputs_modified=%d\n","isal_sha256_ctx_mgr_init",r,dirty(1)); bad++; }
  fprintf(stderr,"isal_sha256_ctx_mgr_submit\n"); fill(); r=isal_sha256_ctx_mgr_submit((long)bufs[0], (long)bufs[1], (long)bufs[2], (long)bufs[3], (long)64, (long)3); if(r!=2016||dirty(4)){ printf("%-44s ret=%ld (expected 2016) outputs_modified=%d\n","isal_sha256_ctx_mgr_submit",r,dirty(4)); bad++; }
  fprintf(stderr,"isal_sha256_ctx_mgr_flush\n"); fill(); r=isal_sha256_ctx_mgr_flush((long)bufs[0], (long)bufs[1]); if(r!=2016||dirty(2)){ printf("%-44s ret=%ld (expected 2016) outputs_modified=%d\n","isal_sha256_ctx_mgr_flush",r,dirty(2)); bad++; }
  fprintf(stderr,"isal_sha512_ctx_mgr_init\n"); fill(); r=isal_sha512_ctx_mgr_init((long)bufs[0]); if(r!=2016||dirty(1)){ printf("%-44s ret=%ld (expected 2016) outputs_modified=%d\n","isal_sha512_ctx_mgr_init",r,dirty(1)); bad++; }
  fprintf(stderr,"isal_sha512_ctx_mgr_submit\n"); fill(); r=isal_sha512_ctx_mgr_submit((long)bufs[0], (long)bufs[1], (long)bufs[2], (long)bufs[3], (long)64, (long)3); if(r!=2016||dirty(4)){ printf("%-44s ret=%ld (expected 2016) outputs_modified=%d\n","isal_sha512_ctx_mgr_submit",r,dirty(4)); bad++; }
  fprintf(stderr,"isal_sha512_ctx_mgr_flush\n"); fill(); r=isal_sha512_ctx_mgr_flush((long)bufs[0], (long)bufs[1]); if(r!=2016||dirty(2)){ printf("%-44s ret=%ld (expected 2016) outputs_modified=%d\n","isal_sha512_ctx_mgr_flush",r,dirty(2)); bad++; }
  fprintf(stderr,"isal_md5_ctx_mgr_init\n"); fill(); r=isal_md5_ctx_mgr_init((long)bufs[0]); if(r!=2017||dirty(1)){ printf("%-44s ret=%ld (expected 2017) outputs_modified=%d\n","isal_md5_ctx_mgr_init",r,dirty(1)); bad++; }
  fprintf(stderr,"isal_md5_ctx_mgr_submit\n"); fill(); r=isal_md5_ctx_mgr_submit((long)bufs[0], (long)bufs[1], (long)bufs[2], (long)bufs[3], (long)64, (long)3); if(r!=2017||dirty(4)){ printf("%-44s ret=%ld (expected 2017) outputs_modified=%d\n","isal_md5_ctx_mgr_submit",r,dirty(4)); bad++; }
  fprintf(stderr,"isal_md5_ctx_mgr_flush\n"); fill(); r=isal_md5_ctx_mgr_flush((long)bufs[0], (long)bufs[1]); if(r!=2017||dirty(2)){ printf("%-44s ret=%ld (expected 2017) outputs_modified=%d\n","isal_md5_ctx_mgr_flush",r,dirty(2)); bad++; }
  fprintf(stderr,"isal_sm3_ctx_mgr_init\n"); fill(); r=isal_sm3_ctx_mgr_init((long)bufs[0]); if(r!=2017||dirty(1)){ printf("%-44s ret=%ld (expected 2017) outputs_modified=%d\n","isal_sm3_ctx_mgr_init",r,dirty(1)); bad++; }
  fprintf(stderr,"isal_sm3_ctx_mgr_submit\n"); fill(); r=isal_sm3_ctx_mgr_submit((long)bufs[0], (long)bufs[1], (long)bufs[2], (long)bufs[3], (long)64, (long)3); if(r!=2017||dirty(4)){ printf("%-44s ret=%ld (expected 2017) outputs_modified=%d\n","isal_sm3_ctx_mgr_submit",r,dirty(4)); bad++; }
  fprintf(stderr,"isal_sm3_ctx_mgr_flush\n"); fill(); r=isal_sm3_ctx_mgr_flush((long)bufs[0], (long)bufs[1]); if(r!=2017||dirty(2)){ printf("%-44s ret=%ld (expected 2017) outputs_modified=%d\n","isal_sm3_ctx_mgr_flush",r,dirty(2)); bad++; }
  fprintf(stderr,"isal_mh_sha1_init\n"); fill(); r=isal_mh_sha1_init((long)bufs[0]); if(r!=2017||dirty(1)){ printf("%-44s ret=%ld (expected 2017) outputs_modified=%d\n","isal_mh_sha1_init",r,dirty(1)); bad++; }
  fprintf(stderr,"isal_mh_sha1_update\n"); fill(); r=isal_mh_sha1_update((long)bufs[0], (long)bufs[1], (long)64); if(r!=2017||dirty(2)){ printf("%-44s ret=%ld (expected 2017) outputs_modified=%d\n","isal_mh_sha1_update",r,dirty(2)); bad++; }
  fprintf(stderr,"isal_mh_sha1_finalize\n"); fill(); r=isal_mh_sha1_finalize((long)bufs[0], (long)bufs[1]); if(r!=2017||dirty(2)){ printf("%-44s ret=%ld (expected 2017) outputs_modified=%d\n","isal_mh_sha1_finalize",r,dirty(2)); bad++; }
  fprintf(stderr,"isal_mh_sha256_init\n"); fill(); r=isal_mh_sha256_init((long)bufs[0]); if(r!=2017||dirty(1)){ printf("%-44s ret=%ld (expected 2017) outputs_modified=%d\n","isal_mh_sha256_init",r,dirty(1)); bad++; }
  fprintf(stderr,"isal_mh_sha256_update\n"); fill(); r=isal_mh_sha256_update((long)bufs[0], (long)bufs[1], (long)64); if(r!=2017||dirty(2)){ printf("%-44s ret=%ld (expected 2017) outputs_modified=%d\n","isal_mh_sha256_update",r,dirty(2)); bad++; }
  fprintf(stderr,"isal_mh_sha256_finalize\n"); fill(); r=isal_mh_sha256_finalize((long)bufs[0], (long)bufs[1]); if(r!=2017||dirty(2)){ printf("%-44s ret=%ld (expected 2017) outputs_modified=%d\n","isal_mh_sha256_finalize",r,dirty(2)); bad++; }
  fprintf(stderr,"isal_mh_sha1_murmur3_x64_128_init\n"); fill(); r=isal_mh_sha1_murmur3_x64_128_init((long)bufs[0], (long)64); if(r!=2017||dirty(1)){ printf("%-44s ret=%ld (expected 2017) outputs_modified=%d\n","isal_mh_sha1_murmur3_x64_128_init",r,dirty(1)); bad++; }
  fprintf(stderr,"isal_mh_sha1_murmur3_x64_128_update\n"); fill(); r=isal_mh_sha1_murmur3_x64_128_update((long)bufs[0], (long)bufs[1], (long)64); if(r!=2017||dirty(2)){ printf("%-44s ret=%ld (expected 2017) outputs_modified=%d\n","isal_mh_sha1_murmur3_x64_128_update",r,dirty(2)); bad++; }
  fprintf(stderr,"isal_mh_sha1_murmur3_x64_128_finalize\n"); fill(); r=isal_mh_sha1_murmur3_x64_128_finalize((long)bufs[0], (long)bufs[1], (long)bufs[2]); if(r!=2017||dirty(3)){ printf("%-44s ret=%ld (expected 2017) outputs_modified=%d\n","isal_mh_sha1_murmur3_x64_128_finalize",r,dirty(3)); bad++; }
  fprintf(stderr,"isal_rolling_hash2_init\n"); fill(); r=isal_rolling_hash2_init((long)bufs[0], (long)32); if(r!=2017||dirty(1)){ printf("%-44s ret=%ld (expected 2017) outputs_modified=%d\n","isal_rolling_hash2_init",r,dirty(1)); bad++; }
  fprintf(stderr,"isal_rolling_hash2_reset\n"); fill(); r=isal_rolling_hash2_reset((long)bufs[0], (long)bufs[1]); if(r!=2017||dirty(2)){ printf("%-44s ret=%ld (expected 2017) outputs_modified=%d\n","isal_rolling_hash2_reset",r,dirty(2)); bad++; }
  fprintf(stderr,"isal_rolling_hash2_run\n"); fill(); r=isal_rolling_hash2_run((long)bufs[0], (long)bufs[1], (long)64, (long)15, (long)0, (long)bufs[2], (long)bufs[3]); if(r!=2017||dirty(4)){ printf("%-44s ret=%ld (expected 2017) outputs_modified=%d\n","isal_rolling_hash2_run",r,dirty(4)); bad++; }
  fprintf(stderr,"isal_rolling_hashx_mask_gen\n"); fill(); r=isal_rolling_hashx_mask_gen((long)1024, (long)1, (long)bufs[0]); if(r!=2017||dirty(1)){ printf("%-44s ret=%ld (expected 2017) outputs_modified=%d\n","isal_rolling_hashx_mask_gen",r,dirty(1)); bad++; }
  printf("checked 69 entry points after forced self-test failure: bad=%d\n",bad); r=isal_self_tests(); printf("isal_self_tests()=%ld\n",r); return 0; }