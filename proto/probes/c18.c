#define _GNU_SOURCE
#include <stdio.h>
#include <stdlib.h>
#include <string.h>
#include <pthread.h>
#include <stdint.h>
#include "sha256_mb.h"
#include "sha512_mb.h"
#include "md5_mb.h"
#include "aes_gcm.h"
#include "aes_xts.h"
#include "aes_cbc.h"
#include "aes_keyexp.h"
#include "mh_sha1.h"
#include "mh_sha256.h"
#include "mh_sha1_murmur3_x64_128.h"
#include "rolling_hashx.h"
#include "isal_crypto_api.h"
#define NT 32
static pthread_barrier_t bar;
typedef struct { uint8_t out[4096]; } res_t;
static res_t res[NT], ref[NT];
static void work(int id, res_t*r, int use_barrier){
  uint8_t msg[3000]; for(int i=0;i<3000;i++) msg[i]=(uint8_t)(i*31+id*7);
  uint8_t key[32]; for(int i=0;i<32;i++) key[i]=i+id; uint8_t iv[16]={1,2,3,(uint8_t)id}; uint8_t*o=r->out; memset(o,0,4096);
  ISAL_SHA256_HASH_CTX_MGR*m1; posix_memalign((void**)&m1,64,sizeof*m1); ISAL_SHA256_HASH_CTX c1[3], *co; 
  struct isal_gcm_key_data*kd; posix_memalign((void**)&kd,64,sizeof*kd); struct isal_gcm_context_data*cx; posix_memalign((void**)&cx,64,sizeof*cx);
  struct isal_mh_sha1_ctx*mh; posix_memalign((void**)&mh,64,sizeof*mh); struct isal_rh_state2*rh; posix_memalign((void**)&rh,64,sizeof*rh);
  uint8_t ek[240],dk[240];
  if(use_barrier) pthread_barrier_wait(&bar);
  /* every thread's FIRST call of each dispatched entry point happens here, simultaneously */
  isal_sha256_ctx_mgr_init(m1); for(int i=0;i<3;i++){ isal_hash_ctx_init(&c1[i]); isal_sha256_ctx_mgr_submit(m1,&c1[i],&co,msg+i,1000+i*500+id,ISAL_HASH_ENTIRE);} while(isal_sha256_ctx_mgr_flush(m1,&co)==0 && co); for(int i=0;i<3;i++) memcpy(o+i*32,c1[i].job.result_digest,32);
  isal_aes_gcm_pre_128(key,kd); isal_aes_gcm_enc_128(kd,cx,o+128,msg,777+id,iv,msg+100,20,o+1200,16);
  isal_aes_keyexp_256(key,ek,dk); isal_aes_cbc_enc_256(msg,iv,ek,o+1300,512); isal_aes_cbc_dec_256(o+1300,iv,dk,o+1900,512);
  isal_aes_xts_enc_128(key,key+16,iv,333+id,msg,o+2500);
  isal_mh_sha1_init(mh); isal_mh_sha1_update(mh,msg,1500+id); isal_mh_sha1_update(mh,msg+1500,1400); isal_mh_sha1_finalize(mh,o+3000);
  isal_rolling_hash2_init(rh,32); isal_rolling_hash2_reset(rh,msg); uint32_t off; int match; isal_rolling_hash2_run(rh,msg+32,2900,0xff,0x11,&off,&match); memcpy(o+3100,&off,4); memcpy(o+3104,&match,4);
  free(m1);free(kd);free(cx);free(mh);free(rh);
}
static void*th(void*a){ int id=(int)(long)a; work(id,&res[id],1); return 0; }
int main(int argc,char**argv){ 
  /* threads first (so that the racing calls really are first calls), sequential reference afterwards */
  pthread_t t[NT]; pthread_barrier_init(&bar,0,NT); for(long i=0;i<NT;i++) pthread_create(&t[i],0,th,(void*)i); for(int i=0;i<NT;i++) pthread_join(t[i],0);
  int bad=0; for(int i=0;i<NT;i++){ work(i,&ref[i],0); if(memcmp(&ref[i],&res[i],sizeof(res_t))){ bad++; printf("thread %d result differs from sequential\n",i);} }
  printf("C18 probe: %d threads racing first calls: bad=%d\n",NT,bad); return 0; }
