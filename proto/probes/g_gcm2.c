#include "guard.h"
#include "aes_gcm.h"
typedef void (*pre_t)(struct isal_gcm_key_data*);
typedef void (*one_t)(const struct isal_gcm_key_data*,struct isal_gcm_context_data*,uint8_t*,const uint8_t*,uint64_t,uint8_t*,const uint8_t*,uint64_t,uint8_t*,uint64_t);
typedef void (*init_t)(const struct isal_gcm_key_data*,struct isal_gcm_context_data*,uint8_t*,const uint8_t*,uint64_t);
typedef void (*upd_t)(const struct isal_gcm_key_data*,struct isal_gcm_context_data*,uint8_t*,const uint8_t*,uint64_t);
typedef void (*fin_t)(const struct isal_gcm_key_data*,struct isal_gcm_context_data*,uint8_t*,uint64_t);
#define D(K,F) extern void _aes_gcm_precomp_##K##_##F(), _aes_gcm_enc_##K##_##F(), _aes_gcm_dec_##K##_##F(), _aes_gcm_init_##K##_##F(), _aes_gcm_enc_##K##_update_##F(), _aes_gcm_dec_##K##_update_##F(), _aes_gcm_enc_##K##_finalize_##F(), _aes_gcm_dec_##K##_finalize_##F();
D(128,sse) D(128,avx_gen2) D(128,avx_gen4) D(128,vaes_avx512) D(256,sse) D(256,avx_gen2) D(256,avx_gen4) D(256,vaes_avx512)
extern void _aes_keyexp_128(const uint8_t*,uint8_t*,uint8_t*), _aes_keyexp_256(const uint8_t*,uint8_t*,uint8_t*);
struct fam {const char*n; int kb; void *pre,*enc,*dec,*init,*eu,*du,*ef,*df;};
#define E(K,F) {#K "_" #F, K, _aes_gcm_precomp_##K##_##F,_aes_gcm_enc_##K##_##F,_aes_gcm_dec_##K##_##F,_aes_gcm_init_##K##_##F,_aes_gcm_enc_##K##_update_##F,_aes_gcm_dec_##K##_update_##F,_aes_gcm_enc_##K##_finalize_##F,_aes_gcm_dec_##K##_finalize_##F}
static struct fam fams[]={E(128,sse),E(128,avx_gen2),E(128,avx_gen4),E(128,vaes_avx512),E(256,sse),E(256,avx_gen2),E(256,avx_gen4),E(256,vaes_avx512)};
int main(void){ ginit(); uint8_t key[32]; for(int i=0;i<32;i++)key[i]=i*7+3; uint8_t tmp[240]; int nbad=0;
 for(int f=0;f<8;f++){ struct fam*F=&fams[f]; int bad=0;
  gbuf gk=galloc(sizeof(struct isal_gcm_key_data),0); struct isal_gcm_key_data*kd=(void*)gk.p; 
  /* key data must be 16-aligned; sizeof is multiple of 16 so end-flush is aligned */
  if(F->kb==128)_aes_keyexp_128(key,kd->expanded_keys,tmp); else _aes_keyexp_256(key,kd->expanded_keys,tmp); ((pre_t)F->pre)(kd);
  if(gcanary_bad(gk)){printf("%s precomp wrote outside key_data\n",F->n);bad++;}
  mprotect(gk.base+PG, gk.maplen-2*PG, PROT_READ); /* key data is const for enc/dec */
  for(int sf=0;sf<2;sf++) for(int len=0;len<=1850;len+= (len<300?1:3)) for(int al=0; al<=70; al+= (len%16==3? 7: 35)) { int tl=(int[]){16,12,8}[(len+al)%3];
    gbuf gi=galloc(len,sf), go=galloc(len,sf), ga=galloc(al,sf), giv=galloc(12,sf), gt=galloc(tl,sf), gc=galloc(sizeof(struct isal_gcm_context_data),sf);
    for(int i=0;i<len;i++)gi.p[i]=i*3+1; for(int i=0;i<al;i++)ga.p[i]=i; for(int i=0;i<12;i++)giv.p[i]=i+9;
    mprotect(gi.base+PG,gi.maplen-2*PG,PROT_READ); mprotect(ga.base+PG,ga.maplen-2*PG,PROT_READ); mprotect(giv.base+PG,giv.maplen-2*PG,PROT_READ);
    if(TRY(((one_t)F->enc)(kd,(void*)gc.p,go.p,gi.p,len,giv.p,ga.p,al,gt.p,tl))){ bad++; if(bad<6)printf("%s enc FAULT len=%d aad=%d tl=%d sf=%d addr=%p (in=%p..%p out=%p aad=%p..%p iv=%p tag=%p key=%p..%p)\n",F->n,len,al,tl,sf,fault_addr,gi.p,gi.p+len,go.p,ga.p,ga.p+al,giv.p,gt.p,gk.p,gk.p+gk.len);} 
    else { if(gcanary_bad(go)||gcanary_bad(gt)||gcanary_bad(gc)){bad++; if(bad<6)printf("%s enc CANARY len=%d aad=%d tl=%d sf=%d out=%d tag=%d ctx=%d\n",F->n,len,al,tl,sf,gcanary_bad(go),gcanary_bad(gt),gcanary_bad(gc));} }
    /* decrypt in place of go */
    if(TRY(((one_t)F->dec)(kd,(void*)gc.p,go.p,go.p,len,giv.p,ga.p,al,gt.p,tl))){ bad++; if(bad<6)printf("%s dec-inplace FAULT len=%d aad=%d addr=%p\n",F->n,len,al,fault_addr);} else if(gcanary_bad(go)||gcanary_bad(gt)){bad++; if(bad<6)printf("%s dec CANARY len=%d\n",F->n,len);} 
    /* streaming: split into two pieces each guarded */
    if(len>0){ int s1=len/3; gbuf g1=galloc(s1,sf), g2=galloc(len-s1,sf), o1=galloc(s1,sf), o2=galloc(len-s1,sf);
      if(TRY(( ((init_t)F->init)(kd,(void*)gc.p,giv.p,ga.p,al), ((upd_t)F->eu)(kd,(void*)gc.p,o1.p,g1.p,s1), ((upd_t)F->eu)(kd,(void*)gc.p,o2.p,g2.p,len-s1), ((fin_t)F->ef)(kd,(void*)gc.p,gt.p,tl) ))){ bad++; if(bad<6)printf("%s stream FAULT len=%d s1=%d aad=%d addr=%p\n",F->n,len,s1,al,fault_addr);} else if(gcanary_bad(o1)||gcanary_bad(o2)||gcanary_bad(gt)||gcanary_bad(gc)){bad++; if(bad<6)printf("%s stream CANARY len=%d\n",F->n,len);} 
      gfree(g1);gfree(g2);gfree(o1);gfree(o2);} 
    gfree(gi);gfree(go);gfree(ga);gfree(giv);gfree(gt);gfree(gc);
  }
  printf("gcm %-18s bad=%d\n",F->n,bad); nbad+=bad; gfree(gk);
 }
 return nbad!=0; }
