#include <stdio.h>
#include <string.h>
#include <stdlib.h>
#include <stdint.h>
#include "mh_sha1.h"
#include "mh_sha256.h"
#include "mh_sha1_murmur3_x64_128.h"
static uint64_t rs=88172645463325252ULL; static uint64_t rnd(void){rs^=rs<<13;rs^=rs>>7;rs^=rs<<17;return rs;}
#define F5(M) M(base) M(sse) M(avx) M(avx2) M(avx512)
#define D1(f) extern int _mh_sha1_update_##f(struct isal_mh_sha1_ctx*,const void*,uint32_t); extern int _mh_sha1_finalize_##f(struct isal_mh_sha1_ctx*,void*);
#define D2(f) extern int _mh_sha256_update_##f(struct isal_mh_sha256_ctx*,const void*,uint32_t); extern int _mh_sha256_finalize_##f(struct isal_mh_sha256_ctx*,void*);
#define D3(f) extern int _mh_sha1_murmur3_x64_128_update_##f(struct isal_mh_sha1_murmur3_x64_128_ctx*,const void*,uint32_t); extern int _mh_sha1_murmur3_x64_128_finalize_##f(struct isal_mh_sha1_murmur3_x64_128_ctx*,void*,void*);
F5(D1) F5(D2) F5(D3)
extern int _mh_sha1_init(struct isal_mh_sha1_ctx*); extern int _mh_sha256_init(struct isal_mh_sha256_ctx*); extern int _mh_sha1_murmur3_x64_128_init(struct isal_mh_sha1_murmur3_x64_128_ctx*,uint64_t);
extern void mh_sha1_ref(const void*,uint32_t,uint32_t*);
typedef int (*u_t)(void*,const void*,uint32_t); typedef int (*f_t)(void*,void*); typedef int (*f3_t)(void*,void*,void*);
#define P1(f) {(u_t)_mh_sha1_update_##f,(f_t)_mh_sha1_finalize_##f},
#define P2(f) {(u_t)_mh_sha256_update_##f,(f_t)_mh_sha256_finalize_##f},
#define P3(f) {(u_t)_mh_sha1_murmur3_x64_128_update_##f,(f_t)_mh_sha1_murmur3_x64_128_finalize_##f},
static struct {u_t u;f_t f;} t1[]={F5(P1)}, t2[]={F5(P2)}, t3[]={F5(P3)};
static const char*fn[]={"base","sse","avx","avx2","avx512"};
int main(void){ static uint8_t msg[20000]; int bad=0;
  struct isal_mh_sha1_ctx*c1; posix_memalign((void**)&c1,64,sizeof*c1); struct isal_mh_sha256_ctx*c2; posix_memalign((void**)&c2,64,sizeof*c2); struct isal_mh_sha1_murmur3_x64_128_ctx*c3; posix_memalign((void**)&c3,64,sizeof*c3);
  for(int t=0;t<4000;t++){ int len= rnd()%3? rnd()%3000 : rnd()%20000; for(int i=0;i<len;i++)msg[i]=rnd(); uint64_t seed=rnd();
    uint32_t r1[5][5],r2[5][8],r3s[5][5],r3m[5][4];
    for(int f=0;f<5;f++){ 
      memset(c1,0xA5,sizeof*c1); _mh_sha1_init(c1); int p=0; while(p<len){int s=rnd()%4==0? rnd()%(len-p+1): rnd()% ((len-p<1100?len-p:1100)+1); t1[f].u(c1,msg+p,s);p+=s;} t1[f].f(c1,r1[f]);
      memset(c2,0xA5,sizeof*c2); _mh_sha256_init(c2); p=0; while(p<len){int s=rnd()%4==0? rnd()%(len-p+1): rnd()% ((len-p<1100?len-p:1100)+1); t2[f].u(c2,msg+p,s);p+=s;} t2[f].f(c2,r2[f]);
      memset(c3,0xA5,sizeof*c3); _mh_sha1_murmur3_x64_128_init(c3,seed); p=0; while(p<len){int s=rnd()%4==0? rnd()%(len-p+1): rnd()% ((len-p<1100?len-p:1100)+1); t3[f].u(c3,msg+p,s);p+=s;} ((f3_t)t3[f].f)(c3,r3s[f],r3m[f]);
      if(f){ if(memcmp(r1[f],r1[0],20)){bad++; if(bad<5)printf("mh_sha1 %s != base len=%d\n",fn[f],len);} if(memcmp(r2[f],r2[0],32)){bad++; if(bad<5)printf("mh_sha256 %s != base len=%d\n",fn[f],len);} if(memcmp(r3s[f],r3s[0],20)||memcmp(r3m[f],r3m[0],16)){bad++; if(bad<5)printf("murmur %s != base len=%d\n",fn[f],len);} }
      if(memcmp(r3s[f],r1[f],20)){bad++; if(bad<5)printf("stitched sha1 != mh_sha1 %s len=%d\n",fn[f],len);}
    }
  } printf("mh smoke bad=%d\n",bad); return 0; }
