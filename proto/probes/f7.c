#include <stdio.h>
#include <stdlib.h>
#include "sha256_mb.h"
#include "sm3_mb.h"
#include "isal_crypto_api.h"
int main(void){ ISAL_SHA256_HASH_CTX_MGR*m; posix_memalign((void**)&m,64,sizeof*m); static ISAL_SHA256_HASH_CTX c; ISAL_SHA256_HASH_CTX*o; isal_sha256_ctx_mgr_init(m); isal_hash_ctx_init(&c);
 int r=isal_sha256_ctx_mgr_submit(m,&c,&o,NULL,0,ISAL_HASH_FIRST); printf("NULL,len0,FIRST r=%d\n",r); fflush(stdout);
 isal_hash_ctx_init(&c);
 r=isal_sha256_ctx_mgr_submit(m,&c,&o,NULL,100,ISAL_HASH_FIRST); printf("NULL,len100,FIRST r=%d\n",r); return 0;}
