#include "guard.h"
typedef void (*xts_t)(uint8_t*,uint8_t*,uint8_t*,uint64_t,const uint8_t*,uint8_t*);
typedef void (*kx_t)(const uint8_t*,uint8_t*,uint8_t*);
typedef void (*cbc_t)(void*,uint8_t*,uint8_t*,void*,uint64_t);
#define X(K,F) extern void _XTS_AES_##K##_enc_##F(),_XTS_AES_##K##_dec_##F(),_XTS_AES_##K##_enc_expanded_key_##F(),_XTS_AES_##K##_dec_expanded_key_##F();
X(128,sse) X(128,avx) X(128,vaes) X(256,sse) X(256,avx) X(256,vaes)
#define KX(K,F) extern void _aes_keyexp_##K##_##F();
KX(128,sse) KX(128,avx) KX(192,sse) KX(192,avx) KX(256,sse) KX(256,avx)
extern void _aes_keyexp_128_enc_sse(), _aes_keyexp_128_enc_avx();
#define CB(K) extern void _aes_cbc_enc_##K##_x4(),_aes_cbc_enc_##K##_x8(),_aes_cbc_dec_##K##_sse(),_aes_cbc_dec_##K##_avx(),_aes_cbc_dec_##K##_vaes_avx512();
CB(128) CB(192) CB(256)
struct xf{const char*n;int kb;void*f[4];};
#define XE(K,F) {#K "_" #F,K,{_XTS_AES_##K##_enc_##F,_XTS_AES_##K##_dec_##F,_XTS_AES_##K##_enc_expanded_key_##F,_XTS_AES_##K##_dec_expanded_key_##F}}
static struct xf xfs[]={XE(128,sse),XE(128,avx),XE(128,vaes),XE(256,sse),XE(256,avx),XE(256,vaes)};
static void ro(gbuf g){ mprotect(g.base+PG,g.maplen-2*PG,PROT_READ);} 
int main(void){ ginit(); int nbad=0; const char*vn[]={"enc","dec","enc_exp","dec_exp"};
 for(int f=0;f<6;f++){ struct xf*F=&xfs[f]; int bad=0; int kl=F->kb/8; int sl=F->kb==128?176:240;
  for(int v=0;v<4;v++) for(int sf=0;sf<2;sf++) for(int len=16; len<=16*40+15; len++){ int kbytes= v<2? kl: sl;
    gbuf k1=galloc(kbytes,sf),k2=galloc(kbytes,sf),tw=galloc(16,sf),gi=galloc(len,sf),go=galloc(len,sf);
    for(int i=0;i<kbytes;i++){k1.p[i]=i*5+1;k2.p[i]=i*11+7;} for(int i=0;i<len;i++)gi.p[i]=i; ro(k1);ro(k2);ro(tw);ro(gi);
    if(TRY(((xts_t)F->f[v])(k2.p,k1.p,tw.p,len,gi.p,go.p))){bad++; if(bad<6)printf("xts %s %s FAULT len=%d sf=%d addr=%p in=%p..%p out=%p..%p k1=%p k2=%p tw=%p\n",F->n,vn[v],len,sf,fault_addr,gi.p,gi.p+len,go.p,go.p+len,k1.p,k2.p,tw.p);} else if(gcanary_bad(go)){bad++; if(bad<6)printf("xts %s %s CANARY len=%d sf=%d\n",F->n,vn[v],len,sf);} 
    gfree(k1);gfree(k2);gfree(tw);gfree(gi);gfree(go);
    if(len>16*20 && len%16==15) len+=16*3; }
  printf("xts %-10s bad=%d\n",F->n,bad); nbad+=bad; }
 struct {const char*n;int kb;void*kx[2];void*ce[2];void*cd[3];} cs[]={{"128",128,{_aes_keyexp_128_sse,_aes_keyexp_128_avx},{_aes_cbc_enc_128_x4,_aes_cbc_enc_128_x8},{_aes_cbc_dec_128_sse,_aes_cbc_dec_128_avx,_aes_cbc_dec_128_vaes_avx512}},{"192",192,{_aes_keyexp_192_sse,_aes_keyexp_192_avx},{_aes_cbc_enc_192_x4,_aes_cbc_enc_192_x8},{_aes_cbc_dec_192_sse,_aes_cbc_dec_192_avx,_aes_cbc_dec_192_vaes_avx512}},{"256",256,{_aes_keyexp_256_sse,_aes_keyexp_256_avx},{_aes_cbc_enc_256_x4,_aes_cbc_enc_256_x8},{_aes_cbc_dec_256_sse,_aes_cbc_dec_256_avx,_aes_cbc_dec_256_vaes_avx512}}};
 for(int s=0;s<3;s++){ int bad=0; int kl=cs[s].kb/8; int sl=16*(cs[s].kb/32+7);
   for(int v=0;v<2;v++) for(int sf=0;sf<2;sf++){ gbuf k=galloc(kl,sf),e=galloc(sl,sf),d=galloc(sl,sf); for(int i=0;i<kl;i++)k.p[i]=i; ro(k);
     if(TRY(((kx_t)cs[s].kx[v])(k.p,e.p,d.p))){bad++;printf("keyexp %s v%d FAULT sf=%d addr=%p key=%p..%p enc=%p..%p dec=%p..%p\n",cs[s].n,v,sf,fault_addr,k.p,k.p+kl,e.p,e.p+sl,d.p,d.p+sl);} else if(gcanary_bad(e)||gcanary_bad(d)){bad++;printf("keyexp %s v%d CANARY\n",cs[s].n,v);} gfree(k);gfree(e);gfree(d);} 
   if(s==0) for(int v=0;v<2;v++) for(int sf=0;sf<2;sf++){ gbuf k=galloc(16,sf),e=galloc(176,sf); ro(k); void*fn= v?(void*)_aes_keyexp_128_enc_avx:(void*)_aes_keyexp_128_enc_sse; if(TRY(((void(*)(const uint8_t*,uint8_t*))fn)(k.p,e.p))){bad++;printf("keyexp_128_enc v%d FAULT addr=%p\n",v,fault_addr);} else if(gcanary_bad(e)){bad++;printf("keyexp_128_enc CANARY\n");} gfree(k);gfree(e);} 
   uint8_t key[32]; for(int i=0;i<32;i++)key[i]=i; static uint8_t E[240],Dd[240]; ((kx_t)cs[s].kx[0])(key,E,Dd);
   for(int sf=0;sf<2;sf++) for(int len=0;len<=16*70;len+=16){ 
     for(int v=0;v<2;v++){ gbuf gi=galloc(len,sf),go=galloc(len,sf),iv=galloc(16,sf),ks=galloc(sl,sf); memcpy(ks.p,E,sl); ro(gi);ro(iv);ro(ks);
       if(TRY(((cbc_t)cs[s].ce[v])(gi.p,iv.p,ks.p,go.p,len))){bad++; if(bad<8)printf("cbc enc %s v%d FAULT len=%d sf=%d addr=%p in=%p out=%p iv=%p keys=%p..%p\n",cs[s].n,v,len,sf,fault_addr,gi.p,go.p,iv.p,ks.p,ks.p+sl);} else if(gcanary_bad(go)){bad++; if(bad<8)printf("cbc enc %s v%d CANARY len=%d\n",cs[s].n,v,len);} gfree(gi);gfree(go);gfree(iv);gfree(ks);} 
     for(int v=0;v<3;v++){ gbuf gi=galloc(len,sf),go=galloc(len,sf),iv=galloc(16,sf),ks=galloc(sl,sf); memcpy(ks.p,Dd,sl); ro(gi);ro(iv);ro(ks);
       if(TRY(((cbc_t)cs[s].cd[v])(gi.p,iv.p,ks.p,go.p,len))){bad++; if(bad<8)printf("cbc dec %s v%d FAULT len=%d sf=%d addr=%p in=%p..%p out=%p iv=%p keys=%p..%p\n",cs[s].n,v,len,sf,fault_addr,gi.p,gi.p+len,go.p,iv.p,ks.p,ks.p+sl);} else if(gcanary_bad(go)){bad++; if(bad<8)printf("cbc dec %s v%d CANARY len=%d\n",cs[s].n,v,len);} gfree(gi);gfree(go);gfree(iv);gfree(ks);} }
   printf("cbc/keyexp %s bad=%d\n",cs[s].n,bad); nbad+=bad; }
 return nbad!=0; }
