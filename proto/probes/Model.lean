import Table
/-! executable model of rolling_hash2 (follows rolling_hash2.c), spec-level `run` (first hit = first position) -/
@[inline] def rol (x : UInt64) (r : Nat) : UInt64 := let r := (r % 64).toUInt64; if r == 0 then x else (x <<< r) ||| (x >>> (64 - r))
structure RH where
  w : Nat
  hist : Array UInt8       -- last w bytes
  hash : UInt64
def RH.init (w : Nat) : RH := ⟨w, Array.replicate w 0, 0⟩
def T (b : UInt8) : UInt64 := rhTable[b.toNat]!
def RH.reset (s : RH) (bytes : Array UInt8) : RH := Id.run do
  let mut h : UInt64 := 0
  for i in [0:s.w] do h := rol h 1 ^^^ T bytes[i]!
  return { s with hist := bytes.extract 0 s.w, hash := h }
/-- spec: scan until (hash &&& mask) = trigger; returns (match: 0 hit / 1 max, offset, new state) -/
def RH.run (s : RH) (buf : Array UInt8) (mask trig : UInt64) : Nat × Nat × RH := Id.run do
  let mut h := s.hash
  let mut win := s.hist          -- sliding window as a queue (array + head index)
  let mut head := 0
  for i in [0:buf.size] do
    let old := win[head]!
    h := rol h 1 ^^^ T buf[i]! ^^^ rol (T old) s.w
    win := win.set! head buf[i]!
    head := (head + 1) % s.w
    if h &&& mask == trig then
      let hist := (win.extract head s.w) ++ (win.extract 0 head)
      return (0, i + 1, { s with hist := hist, hash := h })
  let hist := (win.extract head s.w) ++ (win.extract 0 head)
  return (1, buf.size, { s with hist := hist, hash := h })
/-- shared data generator (xorshift64), same in the C harness -/
def genBytes (seed : UInt64) (n : Nat) : Array UInt8 := Id.run do
  let mut x := seed ||| 1
  let mut out := Array.mkEmpty n
  for _ in [0:n] do
    x := x ^^^ (x <<< 13); x := x ^^^ (x >>> 7); x := x ^^^ (x <<< 17)
    out := out.push (x >>> 24).toUInt8
  return out
