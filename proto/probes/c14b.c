#define _GNU_SOURCE
#include <stdio.h>
#include <string.h>
#include <stdlib.h>
#include <stdint.h>
#include <openssl/aes.h>
#include "aes_gcm.h"
#include "aes_cbc.h"
#include "aes_xts.h"
#include "aes_keyexp.h"
void call_and_dump2(void *fn, uint64_t *args, uint8_t *zdump, uint8_t *sdump);
static uint8_t zd[2048] __attribute__((aligned(64))), sd[65536];
static uint8_t S[400][16]; static const char*Sn[400]; static int nS;
static void addS(const uint8_t*v,const char*n){ int z=1; for(int i=0;i<16;i++) if(v[i]) z=0; if(z) return; memcpy(S[nS],v,16); Sn[nS]=n; nS++; }
static int scan(const char*what){ int hits=0; char seen[400]={0};
  for(int r=0;r<32;r++) for(int l=0;l<4;l++) for(int k=0;k<nS;k++) if(!memcmp(zd+r*64+l*16,S[k],16)){ if(!seen[k]){printf("  %s: zmm%d lane%d holds %s\n",what,r,l,Sn[k]);} seen[k]=1; hits++; }
  for(int k=0;k<nS;k++){ uint8_t*p=memmem(sd,65536,S[k],16); if(p){ printf("  %s: dead stack at rsp-%ld holds %s\n",what,(long)(65536-(p-sd)),Sn[k]); hits++; } }
  return hits; }
static void prezmm(void){ for(int i=0;i<2048;i++) zd[i]=0xE0|(i&15); }
#define DECL(x) extern void x(void);
DECL(_aes_keyexp_128_sse) DECL(_aes_keyexp_128_avx) DECL(_aes_keyexp_192_sse) DECL(_aes_keyexp_192_avx) DECL(_aes_keyexp_256_sse) DECL(_aes_keyexp_256_avx) DECL(_aes_keyexp_128_enc_sse) DECL(_aes_keyexp_128_enc_avx)
DECL(_aes_gcm_pre_128) DECL(_aes_gcm_pre_256) 
#define G(K,F) DECL(_aes_gcm_precomp_##K##_##F) DECL(_aes_gcm_enc_##K##_##F) DECL(_aes_gcm_dec_##K##_##F) DECL(_aes_gcm_init_##K##_##F) DECL(_aes_gcm_enc_##K##_update_##F) DECL(_aes_gcm_dec_##K##_update_##F) DECL(_aes_gcm_enc_##K##_finalize_##F) DECL(_aes_gcm_dec_##K##_finalize_##F)
G(128,sse) G(128,avx_gen2) G(128,avx_gen4) G(128,vaes_avx512) G(256,sse) G(256,avx_gen2) G(256,avx_gen4) G(256,vaes_avx512)
#define X(K,F) DECL(_XTS_AES_##K##_enc_##F) DECL(_XTS_AES_##K##_dec_##F) DECL(_XTS_AES_##K##_enc_expanded_key_##F) DECL(_XTS_AES_##K##_dec_expanded_key_##F)
X(128,sse) X(128,avx) X(128,vaes) X(256,sse) X(256,avx) X(256,vaes)
#define CB(K) DECL(_aes_cbc_enc_##K##_x4) DECL(_aes_cbc_enc_##K##_x8) DECL(_aes_cbc_dec_##K##_sse) DECL(_aes_cbc_dec_##K##_avx) DECL(_aes_cbc_dec_##K##_vaes_avx512)
CB(128) CB(192) CB(256)
static uint8_t key[32],key2[32],E[240],Dk[240],E2[240],D2[240],in[8192] __attribute__((aligned(64))),out[8192] __attribute__((aligned(64))),iv[16] __attribute__((aligned(16))),tw[16],tag[16],aad[64];
static void keyset(int kb){ nS=0; int nr=kb/32+6; addS(key,"raw key[0:16]"); if(kb>128){ uint8_t t[16]; memcpy(t,key+8,16); if(kb==256) addS(key+16,"raw key[16:32]"); }
  for(int r=0;r<=nr;r++){ addS(E+16*r,"enc round key"); addS(Dk+16*r,"dec round key"); } }
int main(void){ int total=0; for(int i=0;i<32;i++){key[i]=0x11*i+0x35; key2[i]=0xA7^(i*29);} for(int i=0;i<8192;i++)in[i]=i*7; for(int i=0;i<16;i++){iv[i]=i+0x40;tw[i]=0x90+i;}
  /* keyexp */
  struct {const char*n;void*f;int kb;} kx[]={{"_aes_keyexp_128_sse",_aes_keyexp_128_sse,128},{"_aes_keyexp_128_avx",_aes_keyexp_128_avx,128},{"_aes_keyexp_192_sse",_aes_keyexp_192_sse,192},{"_aes_keyexp_192_avx",_aes_keyexp_192_avx,192},{"_aes_keyexp_256_sse",_aes_keyexp_256_sse,256},{"_aes_keyexp_256_avx",_aes_keyexp_256_avx,256}};
  for(int i=0;i<6;i++){ uint64_t a[10]={(uint64_t)key,(uint64_t)E,(uint64_t)Dk}; prezmm(); call_and_dump2(kx[i].f,a,zd,sd); keyset(kx[i].kb); int h=scan(kx[i].n); printf("%-36s hits=%d\n",kx[i].n,h); total+=h; }
  /* gcm_pre (C) */
  struct isal_gcm_key_data *kd; posix_memalign((void**)&kd,64,sizeof *kd); struct isal_gcm_context_data *cx; posix_memalign((void**)&cx,64,sizeof *cx);
  for(int kb=128;kb<=256;kb+=128){ if(kb==128) isal_aes_keyexp_128(key,E,Dk); else isal_aes_keyexp_256(key,E,Dk); uint64_t a[10]={(uint64_t)key,(uint64_t)kd}; prezmm(); call_and_dump2(kb==128?(void*)_aes_gcm_pre_128:(void*)_aes_gcm_pre_256,a,zd,sd); keyset(kb); for(int j=0;j<16;j++) addS((uint8_t*)kd+16*(15+j),"hashkey power/k"); char nm[40]; sprintf(nm,"_aes_gcm_pre_%d (dispatched)",kb); int h=scan(nm); printf("%-36s hits=%d\n",nm,h); total+=h; }
  /* gcm families */
  struct {const char*n;int kb;void*pre,*enc,*dec,*init,*eu,*ef;} gf[]={
#define GE(K,F) {#K "_" #F,K,_aes_gcm_precomp_##K##_##F,_aes_gcm_enc_##K##_##F,_aes_gcm_dec_##K##_##F,_aes_gcm_init_##K##_##F,_aes_gcm_enc_##K##_update_##F,_aes_gcm_enc_##K##_finalize_##F}
   GE(128,sse),GE(128,avx_gen2),GE(128,avx_gen4),GE(128,vaes_avx512),GE(256,sse),GE(256,avx_gen2),GE(256,avx_gen4),GE(256,vaes_avx512)};
  for(int f=0;f<8;f++){ int kb=gf[f].kb; if(kb==128) isal_aes_keyexp_128(key,E,Dk); else isal_aes_keyexp_256(key,E,Dk); memset(kd,0,sizeof*kd); memcpy(kd->expanded_keys,E,16*(kb/32+7)); int hits=0; char nm[64];
    { uint64_t a[10]={(uint64_t)kd}; prezmm(); call_and_dump2(gf[f].pre,a,zd,sd); keyset(kb); nS=0; for(int r=0;r<=kb/32+6;r++) addS(E+16*r,"enc round key"); for(int j=15;j<(int)(sizeof*kd/16);j++) addS((uint8_t*)kd+16*j,"hashkey power/k"); sprintf(nm,"gcm %s precomp",gf[f].n); hits+=scan(nm);} 
    for(int len=0;len<=1100;len+= (len<260?1:53)){ uint64_t a[10]={(uint64_t)kd,(uint64_t)cx,(uint64_t)out,(uint64_t)in,len,(uint64_t)iv,(uint64_t)aad,len%40,(uint64_t)tag,16}; prezmm(); call_and_dump2(gf[f].enc,a,zd,sd); sprintf(nm,"gcm %s enc len=%d",gf[f].n,len); hits+=scan(nm);
       uint64_t b[10]={(uint64_t)kd,(uint64_t)cx,(uint64_t)in+4096,(uint64_t)out,len,(uint64_t)iv,(uint64_t)aad,len%40,(uint64_t)tag,16}; prezmm(); call_and_dump2(gf[f].dec,b,zd,sd); sprintf(nm,"gcm %s dec len=%d",gf[f].n,len); hits+=scan(nm);
       uint64_t c[10]={(uint64_t)kd,(uint64_t)cx,(uint64_t)iv,(uint64_t)aad,len%40}; prezmm(); call_and_dump2(gf[f].init,c,zd,sd); sprintf(nm,"gcm %s init",gf[f].n); hits+=scan(nm);
       uint64_t d[10]={(uint64_t)kd,(uint64_t)cx,(uint64_t)out,(uint64_t)in,len}; prezmm(); call_and_dump2(gf[f].eu,d,zd,sd); sprintf(nm,"gcm %s enc_update len=%d",gf[f].n,len); hits+=scan(nm);
       uint64_t e[10]={(uint64_t)kd,(uint64_t)cx,(uint64_t)tag,16}; prezmm(); call_and_dump2(gf[f].ef,e,zd,sd); sprintf(nm,"gcm %s finalize",gf[f].n); hits+=scan(nm); }
    printf("gcm %-32s hits=%d\n",gf[f].n,hits); total+=hits; }
  /* xts */
  struct {const char*n;int kb;void*f[4];} xf[]={
#define XE(K,F) {#K "_" #F,K,{_XTS_AES_##K##_enc_##F,_XTS_AES_##K##_dec_##F,_XTS_AES_##K##_enc_expanded_key_##F,_XTS_AES_##K##_dec_expanded_key_##F}}
   XE(128,sse),XE(128,avx),XE(128,vaes),XE(256,sse),XE(256,avx),XE(256,vaes)}; const char*vn[]={"enc","dec","enc_exp","dec_exp"};
  for(int f=0;f<6;f++){ int kb=xf[f].kb,hits=0; if(kb==128){isal_aes_keyexp_128(key,E,Dk);isal_aes_keyexp_128(key2,E2,D2);} else {isal_aes_keyexp_256(key,E,Dk);isal_aes_keyexp_256(key2,E2,D2);} 
    AES_KEY ak; AES_set_encrypt_key(key2,kb,&ak); uint8_t et[16]; AES_encrypt(tw,et,&ak);
    for(int v=0;v<4;v++) for(int len=16;len<=16*35+15;len+= (len<300?1:17)){ uint64_t a[10]={ (uint64_t)(v<2?key2:E2), (uint64_t)(v==0?key: v==1?key: v==2?E:Dk), (uint64_t)tw, len,(uint64_t)in,(uint64_t)out}; prezmm(); call_and_dump2(xf[f].f[v],a,zd,sd);
       keyset(kb); for(int r=0;r<=kb/32+6;r++){ addS(E2+16*r,"key2 enc round key"); } addS(key2,"raw key2[0:16]"); if(kb==256)addS(key2+16,"raw key2[16:32]"); addS(et,"encrypted tweak");
       char nm[64]; sprintf(nm,"xts %s %s len=%d",xf[f].n,vn[v],len); hits+=scan(nm);} 
    printf("xts %-32s hits=%d\n",xf[f].n,hits); total+=hits; }
  /* cbc */
  struct {const char*n;int kb;void*ce[2];void*cd[3];} cs[]={{"128",128,{_aes_cbc_enc_128_x4,_aes_cbc_enc_128_x8},{_aes_cbc_dec_128_sse,_aes_cbc_dec_128_avx,_aes_cbc_dec_128_vaes_avx512}},{"192",192,{_aes_cbc_enc_192_x4,_aes_cbc_enc_192_x8},{_aes_cbc_dec_192_sse,_aes_cbc_dec_192_avx,_aes_cbc_dec_192_vaes_avx512}},{"256",256,{_aes_cbc_enc_256_x4,_aes_cbc_enc_256_x8},{_aes_cbc_dec_256_sse,_aes_cbc_dec_256_avx,_aes_cbc_dec_256_vaes_avx512}}};
  for(int s=0;s<3;s++){ int kb=cs[s].kb,hits=0; if(kb==128)isal_aes_keyexp_128(key,E,Dk); else if(kb==192)isal_aes_keyexp_192(key,E,Dk); else isal_aes_keyexp_256(key,E,Dk);
    for(int len=16;len<=16*40;len+=16){ for(int v=0;v<2;v++){ uint64_t a[10]={(uint64_t)in,(uint64_t)iv,(uint64_t)E,(uint64_t)out,len}; prezmm(); call_and_dump2(cs[s].ce[v],a,zd,sd); keyset(kb); char nm[64]; sprintf(nm,"cbc enc %s v%d len=%d",cs[s].n,v,len); hits+=scan(nm);} 
      for(int v=0;v<3;v++){ uint64_t a[10]={(uint64_t)in,(uint64_t)iv,(uint64_t)Dk,(uint64_t)out,len}; prezmm(); call_and_dump2(cs[s].cd[v],a,zd,sd); keyset(kb); char nm[64]; sprintf(nm,"cbc dec %s v%d len=%d",cs[s].n,v,len); hits+=scan(nm);} }
    printf("cbc %-32s hits=%d\n",cs[s].n,hits); total+=hits; }
  printf("TOTAL hits=%d\n",total); return 0; }
