#define _GNU_SOURCE
#include <stdio.h>
#include <string.h>
#include <stdlib.h>
#include <stdint.h>
#include <sys/mman.h>
#include <unistd.h>
#include <openssl/evp.h>
#include "sha1_mb.h"
#include "sha256_mb.h"
#include "sha512_mb.h"
#include "md5_mb.h"
#include "sm3_mb.h"
#include "endian_helper.h"
static uint64_t rs=0x9E3779B97F4A7C15ULL; static uint64_t rnd(void){rs^=rs<<13;rs^=rs>>7;rs^=rs<<17;return rs;}
static uint8_t*big; static size_t CH=2<<20, TOT=(size_t)5<<30;
#define GEN(ALG,UALG,FAM,EVPMD,WORD,NW,BSWAP) \
extern void _##ALG##_ctx_mgr_init_##FAM(ISAL_##UALG##_HASH_CTX_MGR*); \
extern ISAL_##UALG##_HASH_CTX* _##ALG##_ctx_mgr_submit_##FAM(ISAL_##UALG##_HASH_CTX_MGR*,ISAL_##UALG##_HASH_CTX*,const void*,uint32_t,ISAL_HASH_CTX_FLAG); \
extern ISAL_##UALG##_HASH_CTX* _##ALG##_ctx_mgr_flush_##FAM(ISAL_##UALG##_HASH_CTX_MGR*); \
static int run_##ALG##_##FAM(uint64_t target){ ISAL_##UALG##_HASH_CTX_MGR*mgr; posix_memalign((void**)&mgr,64,sizeof*mgr); static ISAL_##UALG##_HASH_CTX ctx[3] __attribute__((aligned(64))); \
  _##ALG##_ctx_mgr_init_##FAM(mgr); EVP_MD_CTX*md=EVP_MD_CTX_new(); EVP_DigestInit_ex(md,EVPMD(),NULL); isal_hash_ctx_init(&ctx[0]); isal_hash_ctx_init(&ctx[1]); \
  /* a companion small job in flight to exercise multi-lane paths */ static uint8_t small[1000]; \
  uint64_t total=0; int first=1; int bad=0; uint64_t off=0; \
  while(total<target){ uint64_t seg; int c=rnd()%4; seg = c==0? (rnd()%200) : c==1? ((rnd()%(1u<<20))) : (rnd()% 0xFFFFFFFFull); if(seg>0xFFFFFFFFull) seg=0xFFFFFFFF; if(total+seg>target+ (1u<<20)) seg= target+ (rnd()%(1u<<20)) - total; if(off+seg>TOT) off=rnd()%CH; \
    ISAL_##UALG##_HASH_CTX*r=_##ALG##_ctx_mgr_submit_##FAM(mgr,&ctx[0],big+off,(uint32_t)seg,first?ISAL_HASH_FIRST:ISAL_HASH_UPDATE); first=0; \
    if(!isal_hash_ctx_processing(&ctx[1]) && rnd()%2){ _##ALG##_ctx_mgr_submit_##FAM(mgr,&ctx[1],small,rnd()%1000,ISAL_HASH_ENTIRE); } \
    while(isal_hash_ctx_processing(&ctx[0])) _##ALG##_ctx_mgr_flush_##FAM(mgr); \
    /* openssl side: feed same bytes */ { uint64_t rem=seg, o=off; while(rem){ size_t n= rem> (1u<<30)? (1u<<30): rem; EVP_DigestUpdate(md,big+o,n); o+=n; rem-=n; } } \
    total+=seg; off+=seg; if(ctx[0].total_length!=total){ printf(#ALG "_" #FAM ": total_length %lu != %lu\n",ctx[0].total_length,total); bad++; break;} } \
  _##ALG##_ctx_mgr_submit_##FAM(mgr,&ctx[0],big,77,ISAL_HASH_LAST); EVP_DigestUpdate(md,big,77); total+=77; while(isal_hash_ctx_processing(&ctx[0])||isal_hash_ctx_processing(&ctx[1])) _##ALG##_ctx_mgr_flush_##FAM(mgr); \
  unsigned char dg[64]; unsigned l; EVP_DigestFinal_ex(md,dg,&l); EVP_MD_CTX_free(md); \
  for(int j=0;j<NW;j++){ WORD w=ctx[0].job.result_digest[j]; WORD e; memcpy(&e,dg+j*sizeof(WORD),sizeof(WORD)); if(BSWAP){ e = sizeof(WORD)==4? (WORD)to_be32((uint32_t)e):(WORD)to_be64((uint64_t)e);} if(w!=e){bad++;break;} } \
  if(ctx[0].total_length!=total) bad++; \
  printf("%-8s %-10s total=%lu (%.2f GiB) %s\n",#ALG,#FAM,total,total/1073741824.0,bad?"MISMATCH":"ok"); fflush(stdout); free(mgr); return bad; }
#define SHA1F(F) GEN(sha1,SHA1,F,EVP_sha1,uint32_t,5,1)
#define SHA256F(F) GEN(sha256,SHA256,F,EVP_sha256,uint32_t,8,1)
#define SHA512F(F) GEN(sha512,SHA512,F,EVP_sha512,uint64_t,8,1)
#define MD5F(F) GEN(md5,MD5,F,EVP_md5,uint32_t,4,0)
#define SM3F(F) GEN(sm3,SM3,F,EVP_sm3,uint32_t,8,0)
SHA1F(base) SHA1F(sse) SHA1F(avx) SHA1F(avx2) SHA1F(avx512) SHA1F(sse_ni) SHA1F(avx512_ni)
SHA256F(base) SHA256F(sse) SHA256F(avx) SHA256F(avx2) SHA256F(avx512) SHA256F(sse_ni) SHA256F(avx512_ni)
SHA512F(base) SHA512F(sse) SHA512F(avx) SHA512F(avx2) SHA512F(avx512) SHA512F(sb_sse4)
MD5F(base) MD5F(sse) MD5F(avx) MD5F(avx2) MD5F(avx512)
SM3F(base) SM3F(avx2) SM3F(avx512)
int main(int argc,char**argv){ int fd=memfd_create("x",0); ftruncate(fd,CH); big=mmap(NULL,TOT+CH,PROT_NONE,MAP_PRIVATE|MAP_ANONYMOUS|MAP_NORESERVE,-1,0); for(size_t o=0;o<TOT;o+=CH) mmap(big+o,CH,PROT_READ|PROT_WRITE,MAP_SHARED|MAP_FIXED,fd,0); for(size_t i=0;i<CH;i++) big[i]=(uint8_t)((i*2654435761u)>>11);
 uint64_t T=(uint64_t)strtoull(argv[1],0,0); int which=atoi(argv[2]); int b=0;
 switch(which){
 case 0: b+=run_sha1_base(T);b+=run_sha1_sse(T);b+=run_sha1_avx(T);b+=run_sha1_avx2(T);b+=run_sha1_avx512(T);b+=run_sha1_sse_ni(T);b+=run_sha1_avx512_ni(T);break;
 case 1: b+=run_sha256_base(T);b+=run_sha256_sse(T);b+=run_sha256_avx(T);b+=run_sha256_avx2(T);b+=run_sha256_avx512(T);b+=run_sha256_sse_ni(T);b+=run_sha256_avx512_ni(T);break;
 case 2: b+=run_sha512_base(T);b+=run_sha512_sse(T);b+=run_sha512_avx(T);b+=run_sha512_avx2(T);b+=run_sha512_avx512(T);b+=run_sha512_sb_sse4(T);break;
 case 3: b+=run_md5_base(T);b+=run_md5_sse(T);b+=run_md5_avx(T);b+=run_md5_avx2(T);b+=run_md5_avx512(T);break;
 case 4: b+=run_sm3_base(T);b+=run_sm3_avx2(T);b+=run_sm3_avx512(T);break; }
 return b!=0; }
