#include <stdio.h>
#include <string.h>
#include <stdlib.h>
#include <stdint.h>
#include <openssl/sha.h>
#include <openssl/evp.h>
#include "mh_sha1.h"
#include "mh_sha256.h"
#include "mh_sha1_murmur3_x64_128.h"
static uint64_t rs=88172645463325252ULL; static uint64_t rnd(void){rs^=rs<<13;rs^=rs>>7;rs^=rs<<17;return rs;}
/* independent multi-hash definition, written from the property statement */
static void mh_spec(const uint8_t*m,uint64_t len,int is256,uint32_t*out){
  uint64_t padded=((len+1+8+1023)/1024)*1024; uint8_t*p=calloc(1,padded); memcpy(p,m,len); p[len]=0x80; uint64_t bits=len*8; for(int i=0;i<8;i++) p[padded-1-i]=(uint8_t)(bits>>(8*i));
  SHA_CTX c1[16]; SHA256_CTX c2[16]; for(int s=0;s<16;s++){SHA1_Init(&c1[s]);SHA256_Init(&c2[s]);}
  for(uint64_t b=0;b<padded;b+=1024) for(int s=0;s<16;s++){ uint8_t blk[64]; for(int i=0;i<16;i++) memcpy(blk+4*i,p+b+4*(i*16+s),4); if(is256)SHA256_Transform(&c2[s],blk); else SHA1_Transform(&c1[s],blk);} 
  int nw=is256?8:5; uint32_t mat[8][16]; for(int s=0;s<16;s++) for(int j=0;j<nw;j++) mat[j][s]= is256? c2[s].h[j] : (j==0?c1[s].h0:j==1?c1[s].h1:j==2?c1[s].h2:j==3?c1[s].h3:c1[s].h4);
  uint8_t dg[32]; unsigned l; EVP_Digest(mat,4*nw*16,dg,&l,is256?EVP_sha256():EVP_sha1(),NULL); for(int j=0;j<nw;j++) out[j]=((uint32_t)dg[4*j]<<24)|(dg[4*j+1]<<16)|(dg[4*j+2]<<8)|dg[4*j+3]; free(p);} 
/* canonical MurmurHash3_x64_128 (Appleby), seed widened to 64 bit for both state words */
static inline uint64_t rotl64(uint64_t x,int r){return (x<<r)|(x>>(64-r));}
static inline uint64_t fmix64(uint64_t k){k^=k>>33;k*=0xff51afd7ed558ccdULL;k^=k>>33;k*=0xc4ceb9fe1a85ec53ULL;k^=k>>33;return k;}
static void murmur_spec(const uint8_t*data,uint32_t len,uint64_t seed,uint64_t*out){ const int nblocks=len/16; uint64_t h1=seed,h2=seed; const uint64_t c1=0x87c37b91114253d5ULL,c2=0x4cf5ad432745937fULL;
  for(int i=0;i<nblocks;i++){ uint64_t k1,k2; memcpy(&k1,data+16*i,8); memcpy(&k2,data+16*i+8,8); k1*=c1;k1=rotl64(k1,31);k1*=c2;h1^=k1; h1=rotl64(h1,27);h1+=h2;h1=h1*5+0x52dce729; k2*=c2;k2=rotl64(k2,33);k2*=c1;h2^=k2; h2=rotl64(h2,31);h2+=h1;h2=h2*5+0x38495ab5; }
  const uint8_t*tail=data+nblocks*16; uint64_t k1=0,k2=0;
  switch(len&15){ case 15:k2^=((uint64_t)tail[14])<<48; case 14:k2^=((uint64_t)tail[13])<<40; case 13:k2^=((uint64_t)tail[12])<<32; case 12:k2^=((uint64_t)tail[11])<<24; case 11:k2^=((uint64_t)tail[10])<<16; case 10:k2^=((uint64_t)tail[9])<<8; case 9:k2^=((uint64_t)tail[8])<<0; k2*=c2;k2=rotl64(k2,33);k2*=c1;h2^=k2;
   case 8:k1^=((uint64_t)tail[7])<<56; case 7:k1^=((uint64_t)tail[6])<<48; case 6:k1^=((uint64_t)tail[5])<<40; case 5:k1^=((uint64_t)tail[4])<<32; case 4:k1^=((uint64_t)tail[3])<<24; case 3:k1^=((uint64_t)tail[2])<<16; case 2:k1^=((uint64_t)tail[1])<<8; case 1:k1^=((uint64_t)tail[0])<<0; k1*=c1;k1=rotl64(k1,31);k1*=c2;h1^=k1; }
  h1^=len;h2^=len; h1+=h2;h2+=h1; h1=fmix64(h1);h2=fmix64(h2); h1+=h2;h2+=h1; out[0]=h1;out[1]=h2; }
int main(void){ static uint8_t msg[70000]; int bad=0; struct isal_mh_sha1_ctx*c1; posix_memalign((void**)&c1,64,sizeof*c1); struct isal_mh_sha256_ctx*c2; posix_memalign((void**)&c2,64,sizeof*c2); struct isal_mh_sha1_murmur3_x64_128_ctx*c3; posix_memalign((void**)&c3,64,sizeof*c3);
  for(int t=0;t<3000;t++){ int len= t<1100? t*2 : (rnd()%3? rnd()%5000: rnd()%70000); for(int i=0;i<len;i++)msg[i]=rnd(); uint64_t seed=rnd();
    uint32_t e1[5],e2[8],r1[5],r2[8],r3[5]; uint64_t em[2],rm[2]; mh_spec(msg,len,0,e1); mh_spec(msg,len,1,e2); murmur_spec(msg,len,seed,em);
    isal_mh_sha1_init(c1); int p=0; while(p<len){int s=rnd()%(len-p+1); isal_mh_sha1_update(c1,msg+p,s);p+=s;} isal_mh_sha1_finalize(c1,r1);
    isal_mh_sha256_init(c2); p=0; while(p<len){int s=rnd()%(len-p+1); isal_mh_sha256_update(c2,msg+p,s);p+=s;} isal_mh_sha256_finalize(c2,r2);
    isal_mh_sha1_murmur3_x64_128_init(c3,seed); p=0; while(p<len){int s=rnd()%(len-p+1); isal_mh_sha1_murmur3_x64_128_update(c3,msg+p,s);p+=s;} isal_mh_sha1_murmur3_x64_128_finalize(c3,r3,rm);
    if(memcmp(e1,r1,20)){bad++; if(bad<5)printf("mh_sha1 != spec len=%d\n",len);} if(memcmp(e2,r2,32)){bad++; if(bad<5)printf("mh_sha256 != spec len=%d\n",len);} if(memcmp(e1,r3,20)){bad++; if(bad<5)printf("stitched sha1 != spec len=%d\n",len);} if(memcmp(em,rm,16)){bad++; if(bad<5)printf("murmur != spec len=%d seed=%lx\n",len,seed);} }
  printf("mh/murmur vs independent spec: bad=%d\n",bad); return bad!=0; }
