#include <stdio.h>
#include <string.h>
#include <stdlib.h>
#include "sha256_mb.h"
#include "isal_crypto_api.h"
int main(void){
  ISAL_SHA256_HASH_CTX_MGR *mgr; posix_memalign((void**)&mgr,64,sizeof *mgr);
  static ISAL_SHA256_HASH_CTX ctx[32]; ISAL_SHA256_HASH_CTX *out;
  static unsigned char buf[64*100];
  isal_sha256_ctx_mgr_init(mgr);
  for(int i=0;i<32;i++) isal_hash_ctx_init(&ctx[i]);
  int r=isal_sha256_ctx_mgr_submit(mgr,&ctx[0],&out,buf,64*2,ISAL_HASH_FIRST);
  printf("A first: r=%d out=%p\n",r,(void*)out);
  r=isal_sha256_ctx_mgr_submit(mgr,&ctx[0],&out,buf,64,ISAL_HASH_UPDATE);
  printf("A update while processing: r=%d out==A:%d err=%d\n",r,out==&ctx[0],ctx[0].error);
  for(int i=1;i<32;i++){
    r=isal_sha256_ctx_mgr_submit(mgr,&ctx[i],&out,buf,64*50,ISAL_HASH_ENTIRE);
    printf("B%d entire: r=%d out=%ld status_in=%d\n",i,r,out?(long)(out-ctx):-1, ctx[i].status);
    if(out) break;
  }
  return 0;
}
