/-! kernel-friendly checker benchmark: Nat-encoded abstract values, threaded state, certs only at labels -/
inductive I where
  | push (r : Nat) | pop (r : Nat) | addRsp (k : Int) | store (off : Int) (s : Nat) | load (d : Nat) (off : Int)
  | clob (mask : Nat)             -- bitmask of written GPRs
  | jcc (t : Nat) | jmp (t : Nat) | label (id : Nat) | ret

-- abstract value: 0 = top, n+1 = init reg (n / 2^21) + (n % 2^21 - 2^20)
@[inline] def mk (b : Nat) (k : Int) : Nat := 1 + b * 2097152 + (k + 1048576).toNat
@[inline] def offOf (v : Nat) : Int := Int.ofNat ((v - 1) % 2097152) - 1048576
@[inline] def baseOf (v : Nat) : Nat := (v - 1) / 2097152

structure A where
  regs : List Nat            -- 16 entries
  slots : List (Int × Nat)

def getR (l : List Nat) (i : Nat) : Nat := l.getD i 0
def setR : List Nat → Nat → Nat → List Nat
  | [], _, _ => []
  | _ :: xs, 0, v => v :: xs
  | x :: xs, i+1, v => x :: setR xs i v
def getS : List (Int × Nat) → Int → Nat
  | [], _ => 0
  | (o, v) :: xs, k => if o == k then v else getS xs k
def setS : List (Int × Nat) → Int → Nat → List (Int × Nat)
  | [], k, v => [(k, v)]
  | (o, x) :: xs, k, v => if o == k then (k, v) :: xs else (o, x) :: setS xs k v
def clobber : List Nat → Nat → Nat → List Nat
  | [], _, _ => []
  | x :: xs, i, m => (if (m >>> i) % 2 == 1 then 0 else x) :: clobber xs (i+1) m

def leRegs : List Nat → List Nat → Bool
  | [], [] => true
  | p :: ps, c :: cs => (c == 0 || c == p) && leRegs ps cs
  | _, _ => false
def leSlots (post : List (Int × Nat)) : List (Int × Nat) → Bool
  | [] => true
  | (o, v) :: cs => (v == 0 || v == getS post o) && leSlots post cs
def le (post cert : A) : Bool := leRegs post.regs cert.regs && leSlots post.slots cert.slots

def lookup : List (Nat × A) → Nat → Option A
  | [], _ => none
  | (i, a) :: xs, k => if i == k then some a else lookup xs k

def initRegs : List Nat := (List.range 16).map (fun r => mk r 0)
def retOK (a : A) : Bool :=
  getR a.regs 4 == mk 4 0 && getR a.regs 3 == mk 3 0 && getR a.regs 5 == mk 5 0 &&
  getR a.regs 12 == mk 12 0 && getR a.regs 13 == mk 13 0 && getR a.regs 14 == mk 14 0 && getR a.regs 15 == mk 15 0

/-- thread the abstract state through the instruction list; `none` state = unreachable (after jmp/ret) -/
def chk (cert : List (Nat × A)) : List I → Option A → Bool
  | [], _ => true
  | i :: is, st =>
    match i, st with
    | .label id, st =>
      (match lookup cert id with
       | none => false
       | some c => (match st with | none => true | some a => le a c) && chk cert is (some c))
    | _, none => chk cert is none
    | .push r, some a =>
      let sp := getR a.regs 4
      if sp == 0 || baseOf sp != 4 then false else
      let k := offOf sp - 8
      chk cert is (some ⟨setR a.regs 4 (mk 4 k), setS a.slots k (getR a.regs r)⟩)
    | .pop r, some a =>
      let sp := getR a.regs 4
      if sp == 0 || baseOf sp != 4 then false else
      let k := offOf sp
      chk cert is (some ⟨setR (setR a.regs r (getS a.slots k)) 4 (mk 4 (k + 8)), a.slots⟩)
    | .addRsp d, some a =>
      let sp := getR a.regs 4
      if sp == 0 || baseOf sp != 4 then false else
      chk cert is (some ⟨setR a.regs 4 (mk 4 (offOf sp + d)), a.slots⟩)
    | .store off s, some a =>
      let sp := getR a.regs 4
      if sp == 0 || baseOf sp != 4 then false else
      chk cert is (some ⟨a.regs, setS a.slots (offOf sp + off) (getR a.regs s)⟩)
    | .load d off, some a =>
      let sp := getR a.regs 4
      if sp == 0 || baseOf sp != 4 then false else
      chk cert is (some ⟨setR a.regs d (getS a.slots (offOf sp + off)), a.slots⟩)
    | .clob m, some a => if (m >>> 4) % 2 == 1 then false else chk cert is (some ⟨clobber a.regs 0 m, a.slots⟩)
    | .jcc t, some a => (match lookup cert t with | none => false | some c => le a c) && chk cert is (some a)
    | .jmp t, some a => (match lookup cert t with | none => false | some c => le a c) && chk cert is none
    | .ret, some a => retOK a && chk cert is none
