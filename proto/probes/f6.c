#include <stdio.h>
#include <string.h>
#include <stdlib.h>
#include "aes_xts.h"
#include "aes_keyexp.h"
#include "aes_gcm.h"
#include "isal_crypto_api.h"
int main(void){
  unsigned char key[32]; for(int i=0;i<32;i++) key[i]=i*7+1;
  unsigned char enc[16*15], dec[16*15], tw[16]={0}, in[64]={1,2,3}, out[64];
  int r=isal_aes_keyexp_128(key,enc,dec); printf("keyexp r=%d\n",r);
  r=isal_aes_xts_enc_128(key,key,tw,64,in,out); printf("enc_128 same raw keys: r=%d\n",r);
  r=isal_aes_xts_enc_128_expanded_key(enc,enc,tw,64,in,out); printf("enc_128_expanded same: r=%d\n",r);
  r=isal_aes_xts_dec_128(key,key,tw,64,in,out); printf("dec_128 same raw keys: r=%d\n",r);
  memset(out,0xAA,64);
  r=isal_aes_xts_dec_128_expanded_key(enc,dec,tw,64,in,out); printf("dec_128_expanded k2=enc(key) k1=dec(key): r=%d out[0]=%02x\n",r,out[0]);
  r=isal_aes_keyexp_256(key,enc,dec);
  r=isal_aes_xts_enc_256_expanded_key(enc,enc,tw,64,in,out); printf("enc_256_expanded same: r=%d\n",r);
  memset(out,0xAA,64);
  r=isal_aes_xts_dec_256_expanded_key(enc,dec,tw,64,in,out); printf("dec_256_expanded same key: r=%d out[0]=%02x\n",r,out[0]);
  return 0;
}
