#include "guard.h"
#include "mh_sha1.h"
#include "mh_sha256.h"
#include "mh_sha1_murmur3_x64_128.h"
#include "rolling_hashx.h"
static void ro(gbuf g){ mprotect(g.base+PG,g.maplen-2*PG,PROT_READ);} 
#define F5(M) M(base) M(sse) M(avx) M(avx2) M(avx512)
#define D1(f) extern int _mh_sha1_update_##f(struct isal_mh_sha1_ctx*,const void*,uint32_t); extern int _mh_sha1_finalize_##f(struct isal_mh_sha1_ctx*,void*);
#define D2(f) extern int _mh_sha256_update_##f(struct isal_mh_sha256_ctx*,const void*,uint32_t); extern int _mh_sha256_finalize_##f(struct isal_mh_sha256_ctx*,void*);
#define D3(f) extern int _mh_sha1_murmur3_x64_128_update_##f(struct isal_mh_sha1_murmur3_x64_128_ctx*,const void*,uint32_t); extern int _mh_sha1_murmur3_x64_128_finalize_##f(struct isal_mh_sha1_murmur3_x64_128_ctx*,void*,void*);
F5(D1) F5(D2) F5(D3)
extern int _mh_sha1_init(void*); extern int _mh_sha256_init(void*); extern int _mh_sha1_murmur3_x64_128_init(void*,uint64_t);
typedef int (*u_t)(void*,const void*,uint32_t); typedef int (*f_t)(void*,void*); typedef int (*f3_t)(void*,void*,void*);
#define P1(f) {(u_t)_mh_sha1_update_##f,(f_t)_mh_sha1_finalize_##f},
#define P2(f) {(u_t)_mh_sha256_update_##f,(f_t)_mh_sha256_finalize_##f},
#define P3(f) {(u_t)_mh_sha1_murmur3_x64_128_update_##f,(f_t)_mh_sha1_murmur3_x64_128_finalize_##f},
static struct {u_t u;f_t f;} t1[]={F5(P1)}, t2[]={F5(P2)}, t3[]={F5(P3)};
static const char*fn[]={"base","sse","avx","avx2","avx512"};
extern uint64_t _rolling_hash2_run_until_base(),_rolling_hash2_run_until_00(),_rolling_hash2_run_until_04();
int main(void){ ginit(); int nbad=0;
 for(int k=0;k<3;k++) for(int f=0;f<5;f++){ int bad=0; size_t cs= k==0?sizeof(struct isal_mh_sha1_ctx):k==1?sizeof(struct isal_mh_sha256_ctx):sizeof(struct isal_mh_sha1_murmur3_x64_128_ctx); int dl= k==1?32:20;
   for(int sf=0;sf<2;sf++) for(int l1=0;l1<=2200;l1+= (l1<40?1: (l1>1000&&l1<1050?1:61))) for(int l2=0;l2<=2100;l2+= (l2<20?1:347)){
     galign=64; gbuf gc=galloc(cs,sf); galign=1; gbuf d1=galloc(l1,sf),d2=galloc(l2,sf),dg=galloc(dl,sf),dm=galloc(16,sf); for(int i=0;i<l1;i++)d1.p[i]=i; ro(d1);ro(d2);
     int r=TRY(({ if(k==0)_mh_sha1_init(gc.p); else if(k==1)_mh_sha256_init(gc.p); else _mh_sha1_murmur3_x64_128_init(gc.p,77); u_t u= k==0?t1[f].u:k==1?t2[f].u:t3[f].u; u(gc.p,d1.p,l1); u(gc.p,d2.p,l2); if(k<2) (k==0?t1[f].f:t2[f].f)(gc.p,dg.p); else ((f3_t)t3[f].f)(gc.p,dg.p,dm.p); }));
     if(r){bad++; if(bad<4)printf("mh%d %s FAULT l1=%d l2=%d sf=%d addr=%p ctx=%p..%p d1=%p..%p d2=%p..%p dg=%p\n",k,fn[f],l1,l2,sf,fault_addr,gc.p,gc.p+cs,d1.p,d1.p+l1,d2.p,d2.p+l2,dg.p);} else if(gcanary_bad(gc)||gcanary_bad(dg)||(k==2&&gcanary_bad(dm))){bad++; if(bad<4)printf("mh%d %s CANARY l1=%d l2=%d sf=%d ctx=%d dg=%d\n",k,fn[f],l1,l2,sf,gcanary_bad(gc),gcanary_bad(dg));}
     gfree(gc);gfree(d1);gfree(d2);gfree(dg);gfree(dm);} 
   printf("%s %-7s bad=%d\n",k==0?"mh_sha1":k==1?"mh_sha256":"mh_murmur",fn[f],bad); nbad+=bad; }
 /* rolling: direct scan functions + public run */
 void*sc[3]={_rolling_hash2_run_until_base,_rolling_hash2_run_until_00,_rolling_hash2_run_until_04}; const char*sn[]={"base","00","04"};
 struct isal_rh_state2*st; posix_memalign((void**)&st,64,sizeof*st);
 for(int v=0;v<3;v++){ int bad=0; for(int sf=0;sf<2;sf++) for(int w=1;w<=48;w+=5) for(int len=w;len<=w+70;len++){ gbuf b=galloc(len,sf); for(int i=0;i<len;i++)b.p[i]=i*13+w; ro(b); isal_rolling_hash2_init(st,w); isal_rolling_hash2_reset(st,b.p); uint32_t idx=w; 
     if(TRY(((uint64_t(*)(uint32_t*,int,uint64_t*,uint64_t*,uint8_t*,uint8_t*,uint64_t,uint64_t,uint64_t))sc[v])(&idx,len,st->table1,st->table2,b.p,b.p-w,st->hash,0xffff,0x1))){bad++; if(bad<4)printf("scan %s FAULT w=%d len=%d sf=%d addr=%p buf=%p..%p\n",sn[v],w,len,sf,fault_addr,b.p,b.p+len);} else if(idx>(uint32_t)len){bad++; if(bad<4)printf("scan %s idx=%u > len=%d\n",sn[v],idx,len);} gfree(b);} printf("rolling scan %-5s bad=%d\n",sn[v],bad); nbad+=bad; }
 { int bad=0; for(int sf=0;sf<2;sf++) for(int w=1;w<=48;w+=1) for(int len=0;len<=120;len++) for(int m=0;m<2;m++){ gbuf b=galloc(len,sf), ib=galloc(w,sf); for(int i=0;i<len;i++)b.p[i]=i*13+w; ro(b); ro(ib); isal_rolling_hash2_init(st,w); isal_rolling_hash2_reset(st,ib.p); uint32_t off=0; int match=-1;
     if(TRY(isal_rolling_hash2_run(st,b.p,len, m?0x7:0xfffff, m?0x3:0x12345,&off,&match))){bad++; if(bad<6)printf("rolling run FAULT w=%d len=%d sf=%d mask=%d addr=%p buf=%p..%p\n",w,len,sf,m,fault_addr,b.p,b.p+len);} else if(off>(uint32_t)len){bad++; if(bad<6)printf("rolling run off=%u > len=%d w=%d\n",off,len,w);} gfree(b);gfree(ib);} printf("rolling run(dispatched) bad=%d\n",bad); nbad+=bad; }
 return nbad!=0; }
