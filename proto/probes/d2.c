#include <stdio.h>
#include <string.h>
#include <stdlib.h>
#include "sha256_mb.h"
#include "aes_cbc.h"
#include "aes_keyexp.h"
#include "isal_crypto_api.h"
static int fail_sha=1, n_sha=0, n_aes=0;
ISAL_SHA256_HASH_CTX *__real__sha256_ctx_mgr_submit(ISAL_SHA256_HASH_CTX_MGR*,ISAL_SHA256_HASH_CTX*,const void*,uint32_t,ISAL_HASH_CTX_FLAG);
ISAL_SHA256_HASH_CTX *__wrap__sha256_ctx_mgr_submit(ISAL_SHA256_HASH_CTX_MGR*m,ISAL_SHA256_HASH_CTX*c,const void*b,uint32_t l,ISAL_HASH_CTX_FLAG f){
  static unsigned char junk[64]; 
  if(fail_sha==2){ n_sha++; return __real__sha256_ctx_mgr_submit(m,c,junk,l,f);} /* corrupt data -> digest mismatch */
  if(fail_sha==3) n_sha++;
  return __real__sha256_ctx_mgr_submit(m,c,b,l,f);
}
int main(void){
  unsigned char key[16]={1},enc[176],dec[176];
  fail_sha=2;  /* inject: self-test data corrupted -> SHA self test fails */
  int r=isal_self_tests(); printf("1st isal_self_tests (sha fails): r=%d  sha_selftest_runs=%d\n",r,n_sha);
  r=isal_self_tests(); printf("2nd isal_self_tests: r=%d  sha_selftest_runs=%d\n",r,n_sha);
  r=isal_aes_keyexp_128(key,enc,dec); printf("keyexp after failure: r=%d runs=%d\n",r,n_sha);
  fail_sha=3; /* fault gone */
  memset(enc,0,sizeof enc);
  r=isal_aes_keyexp_128(key,enc,dec); printf("keyexp after fault cleared: r=%d runs=%d enc[16]=%02x (nonzero => crypto performed after failed self-test)\n",r,n_sha,enc[16]);
  return 0;
}
