#define _GNU_SOURCE
#include <stdio.h>
#include <stdlib.h>
#include <string.h>
#include <stdint.h>
#include <sys/mman.h>
#include <unistd.h>
#include "rolling_hashx.h"
extern uint64_t _rolling_hash2_run_until_base(uint32_t*,int,uint64_t*,uint64_t*,uint8_t*,uint8_t*,uint64_t,uint64_t,uint64_t);
extern uint64_t _rolling_hash2_run_until_00(uint32_t*,int,uint64_t*,uint64_t*,uint8_t*,uint8_t*,uint64_t,uint64_t,uint64_t);
int main(void){ size_t chunk=2<<20, total=(size_t)3<<30; int fd=memfd_create("x",0); ftruncate(fd,chunk);
  uint8_t*base=mmap(NULL,total+chunk,PROT_NONE,MAP_PRIVATE|MAP_ANONYMOUS|MAP_NORESERVE,-1,0); if(base==MAP_FAILED){perror("mmap");return 1;}
  for(size_t o=0;o<total;o+=chunk) if(mmap(base+o,chunk,PROT_READ|PROT_WRITE,MAP_SHARED|MAP_FIXED,fd,0)==MAP_FAILED){perror("mmap2");return 1;}
  for(size_t i=0;i<chunk;i++) base[i]=(uint8_t)(i*2654435761u>>13);
  printf("aliased 3GiB mapping ok, base[chunk+5]==base[5]: %d\n",base[chunk+5]==base[5]);
  struct isal_rh_state2*st; posix_memalign((void**)&st,64,sizeof*st); isal_rolling_hash2_init(st,32); isal_rolling_hash2_reset(st,base);
  uint32_t idx=32; uint64_t h=_rolling_hash2_run_until_base(&idx,(int)0x90000000u,st->table1,st->table2,base+64,base+64-32,st->hash,0xffffffffffffffffULL,0x1234567ULL);
  printf("base scan max_idx=0x90000000: stopped at idx=%u (expected 0x90000000 if it consumed everything)\n",idx);
  idx=32; h=_rolling_hash2_run_until_00(&idx,(int)0x90000000u,st->table1,st->table2,base+64,base+64-32,st->hash,0xffffffffffffffffULL,0x1234567ULL);
  printf("_00 scan  max_idx=0x90000000: stopped at idx=%u\n",idx); (void)h; return 0; }
