import json,subprocess,re,sys,glob
files=['aes/aes_gcm.c','aes/aes_cbc.c','aes/aes_xts.c','aes/aes_keyexp.c','sha1_mb/sha1_mb.c','sha256_mb/sha256_mb.c','sha512_mb/sha512_mb.c','md5_mb/md5_mb.c','sm3_mb/sm3_mb.c','mh_sha1/mh_sha1.c','mh_sha256/mh_sha256.c','mh_sha1_murmur3_x64_128/mh_sha1_murmur3_x64_128.c','rolling_hash/rolling_hash2.c','fips/self_tests.c','misc/version.c']
inc=['-I/repo/include']+['-I/repo/'+d for d in ['aes','sha1_mb','sha256_mb','sha512_mb','md5_mb','sm3_mb','mh_sha1','mh_sha256','mh_sha1_murmur3_x64_128','rolling_hash','fips']]
def docs(txt):
    dec=json.JSONDecoder(); i=0
    while i<len(txt):
        while i<len(txt) and txt[i] in ' \n\r\t': i+=1
        if i>=len(txt): break
        o,j=dec.raw_decode(txt,i); yield o; i=j
def names(n,acc):
    if n.get('kind')=='DeclRefExpr': acc.add(n['referencedDecl']['name'])
    for c in n.get('inner',[]): names(c,acc)
def nullchecked(cond,acc):
    # collect names X in (X == 0) / (X == NULL) / !X
    k=cond.get('kind')
    if k=='BinaryOperator' and cond.get('opcode')=='==':
        a=set(); names(cond,a)
        lits=[c for c in cond['inner'] if 'IntegerLiteral' in json.dumps(c)[:400] or 'GNUNullExpr' in json.dumps(c)[:400] or 'CXXNullPtr' in json.dumps(c)[:300]]
        acc|=a
    for c in cond.get('inner',[]): nullchecked(c,acc)
total=0
for f in files:
    out=subprocess.run(['clang-14','-fsyntax-only','-Xclang','-ast-dump=json','-DSAFE_PARAM','-DSAFE_DATA','-DNO_COMPAT_ISAL_CRYPTO_API_2_24']+inc+['/repo/'+f],capture_output=True,text=True).stdout
    tu=json.loads(out)
    for d in tu['inner']:
        if d.get('kind')!='FunctionDecl' or not d.get('name','').startswith('isal_'): continue
        body=[c for c in d.get('inner',[]) if c.get('kind')=='CompoundStmt']
        if not body: continue
        total+=1
        params=[(c['name'],c['type']['qualType']) for c in d.get('inner',[]) if c.get('kind')=='ParmVarDecl']
        ptrs=[n for n,t in params if '*' in t]
        checked=set(); firstcall=None; guards=[]
        for st in body[0].get('inner',[]):
            if st.get('kind')=='IfStmt':
                a=set(); nullchecked(st['inner'][0],a); checked|=a
                ret=[c for c in st['inner'][1:] ]
                guards.append(sorted(a))
            elif st.get('kind') in('CallExpr','ReturnStmt','BinaryOperator','DeclStmt'):
                s=json.dumps(st)
                m=re.search(r'"name": "(_[A-Za-z0-9_]+)"',s)
                if m: firstcall=m.group(1); break
        missing=[p for p in ptrs if p not in checked]
        print(f"{d['name']:44s} ptrs={ptrs} unchecked={missing} scalars={[n for n,t in params if '*' not in t]}")
print(total)
