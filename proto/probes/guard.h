#define _GNU_SOURCE
#include <stdio.h>
#include <stdlib.h>
#include <string.h>
#include <stdint.h>
#include <signal.h>
#include <setjmp.h>
#include <sys/mman.h>
#include <unistd.h>
static sigjmp_buf gjb; static volatile void *fault_addr; static volatile int in_test;
static void segv(int s, siginfo_t*si, void*u){ fault_addr=si->si_addr; if(in_test) siglongjmp(gjb,1); fprintf(stderr,"stray SIGSEGV at %p\n",si->si_addr); _exit(3);}
static void ginit(void){ struct sigaction sa; memset(&sa,0,sizeof sa); sa.sa_sigaction=segv; sa.sa_flags=SA_SIGINFO|SA_NODEFER; sigaction(SIGSEGV,&sa,0); sigaction(SIGBUS,&sa,0);}
#define PG 4096
typedef struct { uint8_t*base; size_t maplen; uint8_t*p; size_t len; } gbuf;
/* end-flush: [guard][pages...data ends at page end][guard]; start-flush: data begins right after a guard page */
static int galign=1;
static gbuf galloc(size_t len,int startflush){ size_t pages=(len+PG-1)/PG+1; size_t ml=(pages+2)*PG; uint8_t*b=mmap(0,ml,PROT_NONE,MAP_PRIVATE|MAP_ANONYMOUS,-1,0); mprotect(b+PG,pages*PG,PROT_READ|PROT_WRITE); memset(b+PG,0xC3,pages*PG); gbuf g={b,ml, startflush? b+PG : b+PG+pages*PG-len, len}; if(!startflush && galign>1){ g.p=(uint8_t*)((uintptr_t)g.p & ~(uintptr_t)(galign-1)); } return g;}
static void gfree(gbuf g){ munmap(g.base,g.maplen);} 
/* returns 1 if canary outside [p,p+len) within the RW pages was modified */
static int gcanary_bad(gbuf g){ uint8_t*lo=g.base+PG; uint8_t*hi=g.base+g.maplen-PG; for(uint8_t*q=lo;q<g.p;q++) if(*q!=0xC3) return 1; for(uint8_t*q=g.p+g.len;q<hi;q++) if(*q!=0xC3) return 1; return 0;}
#define TRY(code) ({ int _r=0; in_test=1; if(sigsetjmp(gjb,1)==0){ code; } else _r=1; in_test=0; _r; })
