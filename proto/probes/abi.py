#!/usr/bin/env python3
# Throw-away prototype: per-function forward abstract interpretation of callee-saved regs / rsp over objdump output.
import re,sys,subprocess,collections,glob,os
R64=['rax','rcx','rdx','rbx','rsp','rbp','rsi','rdi','r8','r9','r10','r11','r12','r13','r14','r15']
SUB={}
for i,r in enumerate(R64):
    SUB[r]=r
for a,b in [('eax','rax'),('ax','rax'),('al','rax'),('ah','rax'),('ecx','rcx'),('cx','rcx'),('cl','rcx'),('ch','rcx'),('edx','rdx'),('dx','rdx'),('dl','rdx'),('dh','rdx'),('ebx','rbx'),('bx','rbx'),('bl','rbx'),('bh','rbx'),('esp','rsp'),('sp','rsp'),('spl','rsp'),('ebp','rbp'),('bp','rbp'),('bpl','rbp'),('esi','rsi'),('si','rsi'),('sil','rsi'),('edi','rdi'),('di','rdi'),('dil','rdi')]: SUB[a]=b
for n in range(8,16):
    for suf in ['d','w','b']: SUB[f'r{n}{suf}']=f'r{n}'
CALLEE=['rbx','rbp','r12','r13','r14','r15']
NODEST={'cmp','test','push','bt','ucomiss','ucomisd','comiss','comisd','ptest','vptest','nop','nopw','nopl','endbr64','prefetcht0','prefetcht1','prefetchnta','prefetchw','pause','jmp','call','ret','vzeroupper','vzeroall','sfence','lfence','mfence','data16','cs','ud2','int3','hlt','leave','cpuid','xgetbv','lock','rep','repz','vmovntdq','movntdq','movnti'}
def parse(obj):
    out=subprocess.run(['objdump','-d','-r','-M','intel','--no-show-raw-insn',obj],capture_output=True,text=True).stdout
    insns={}; order=[]; syms={}; cur=None; last=None
    for line in out.splitlines():
        m=re.match(r'^([0-9a-f]+) <(.+)>:$',line)
        if m: syms[int(m.group(1),16)]=m.group(2); continue
        m=re.match(r'^\s+([0-9a-f]+):\s+(\S.*)$',line)
        if m and 'R_X86_64' not in line:
            a=int(m.group(1),16); txt=m.group(2).split('#')[0].strip()
            parts=txt.split(None,1); mn=parts[0]; ops=parts[1] if len(parts)>1 else ''
            while mn in('lock','rep','repz','repnz','data16','notrack','bnd') and ops:
                p=ops.split(None,1); mn=p[0]; ops=p[1] if len(p)>1 else ''
            insns[a]=[mn,ops,None]; order.append(a); last=a; continue
        m=re.match(r'^\s+[0-9a-f]+: (R_X86_64_\S+)\s+(\S+)',line)
        if m and last is not None: insns[last][2]=m.group(2)
    nxt={order[i]:order[i+1] for i in range(len(order)-1)}
    return insns,nxt,syms
def splitops(ops):
    res=[];d=0;cur=''
    for c in ops:
        if c in '[{': d+=1
        if c in ']}': d-=1
        if c==',' and d==0: res.append(cur.strip());cur=''
        else: cur+=c
    if cur.strip(): res.append(cur.strip())
    return res
def memop(o):
    m=re.search(r'\[(.*)\]',o); return m.group(1) if m else None
def rspoff(expr):
    # returns offset if expr is rsp+const or rsp-const or rsp
    m=re.match(r'^rsp(?:([+-])(0x[0-9a-f]+|\d+))?$',expr.replace(' ',''))
    if not m: return None
    if not m.group(1): return 0
    v=int(m.group(2),0); return v if m.group(1)=='+' else -v
TOP='T'
def sym(r,k=0): return ('S',r,k)
def analyze(obj,insns,nxt,syms,entry,name,issues,globalsyms):
    # state: regs dict r-> ('S',base,k)|TOP ; slots dict (base,off)->val
    init={r:sym(r) for r in R64}
    start=(init,{},)
    states={entry:(dict(init),{})}
    work=[entry]; visited_ret=False; steps=0
    def join(a,b):
        ra,sa=a; rb,sb=b; changed=False
        nr={}
        for r in R64:
            v=ra[r] if ra[r]==rb[r] else TOP
            nr[r]=v
            if v!=ra[r]: changed=True
        ns={k:v for k,v in sa.items() if sb.get(k)==v}
        if len(ns)!=len(sa): changed=True
        return (nr,ns),changed
    while work:
        a=work.pop(); steps+=1
        if steps>400000: issues.append((name,'toolong')); return
        if a not in insns: issues.append((name,f'falls off at {a:x}')); continue
        regs,slots=states[a]; regs=dict(regs); slots=dict(slots)
        mn,ops,rel=insns[a]; o=splitops(ops); succ=[]
        def setreg(r,v): regs[r]=v
        def rspval(): return regs['rsp']
        def slotkey(expr):
            # expr like 'rsp+0x10' relative to symbolic rsp
            e=expr.replace(' ','')
            m=re.match(r'^(r[a-z0-9]+)(?:([+-])(0x[0-9a-f]+|\d+))?$',e)
            if not m or m.group(1) not in R64: return None
            b=regs[m.group(1)]
            if b==TOP: return None
            k=0
            if m.group(2): k=int(m.group(3),0)*(1 if m.group(2)=='+' else -1)
            return (b[1],b[2]+k)
        if mn=='ret':
            rv=regs['rsp']
            if rv!=sym('rsp',0): issues.append((name,f'ret@{a:x} rsp={rv}'))
            for r in CALLEE:
                if regs[r]!=sym(r,0): issues.append((name,f'ret@{a:x} {r}={regs[r]}'))
            continue
        if mn=='jmp':
            t=o[0] if o else ''
            m=re.match(r'^([0-9a-f]+) <',t)
            if m:
                ta=int(m.group(1),16)
                # tail call to another global function?
                if ta in globalsyms and ta!=entry and not syms.get(ta,'').startswith(name.split('.')[0]+'.'):
                    rv=regs['rsp']
                    if rv!=sym('rsp',0): issues.append((name,f'tailjmp@{a:x} rsp={rv}'))
                    for r in CALLEE:
                        if regs[r]!=sym(r,0): issues.append((name,f'tailjmp@{a:x} {r}={regs[r]}'))
                    continue
                succ=[ta]
            else:
                # indirect or reloc'd jmp (tail call)
                rv=regs['rsp']
                if rv!=sym('rsp',0): issues.append((name,f'tailjmp@{a:x} rsp={rv}'))
                for r in CALLEE:
                    if regs[r]!=sym(r,0): issues.append((name,f'tailjmp@{a:x} {r}={regs[r]}'))
                continue
        elif mn.startswith('j'):
            m=re.match(r'^([0-9a-f]+) <',o[0]); succ=[int(m.group(1),16), nxt.get(a)]
        else:
            succ=[nxt.get(a)]
            if mn=='call':
                for r in ['rax','rcx','rdx','rsi','rdi','r8','r9','r10','r11']: regs[r]=TOP
            elif mn=='push':
                rv=regs['rsp']
                if rv!=TOP:
                    regs['rsp']=('S',rv[1],rv[2]-8)
                    src=SUB.get(o[0]); slots[(rv[1],rv[2]-8)]=regs[src] if src else TOP
            elif mn=='pop':
                rv=regs['rsp']; dst=SUB.get(o[0])
                if rv!=TOP:
                    val=slots.get((rv[1],rv[2]),TOP); regs['rsp']=('S',rv[1],rv[2]+8)
                    if dst and dst!='rsp': regs[dst]=val
                elif dst: regs[dst]=TOP
            elif mn=='leave':
                rv=regs['rbp']
                if rv!=TOP:
                    val=slots.get((rv[1],rv[2]),TOP); regs['rsp']=('S',rv[1],rv[2]+8); regs['rbp']=val
                else: regs['rsp']=TOP; regs['rbp']=TOP
            elif mn in('sub','add') and o and o[0]=='rsp':
                rv=regs['rsp']
                try: k=int(o[1],0)
                except: k=None
                if rv!=TOP and k is not None: regs['rsp']=('S',rv[1],rv[2]+(k if mn=='add' else -k))
                else: regs['rsp']=TOP
            elif mn=='and' and o and o[0]=='rsp':
                rv=regs['rsp']; 
                regs['rsp']=('S',f'F{a:x}',0)  # fresh frame base
            elif mn=='mov' and len(o)==2:
                d,s=o
                md=memop(d); ms=memop(s)
                if md is not None:
                    k=slotkey(md); src=SUB.get(s)
                    if k is not None and 'QWORD' in d: slots[k]=regs[src] if src else TOP
                    elif k is not None: slots.pop(k,None)
                elif d in SUB:
                    dst=SUB[d]
                    if ms is not None:
                        k=slotkey(ms)
                        regs[dst]=slots.get(k,TOP) if (k is not None and 'QWORD' in s) else TOP
                    elif s in R64: regs[dst]=regs[s] if d in R64 else TOP
                    else: regs[dst]=TOP
            elif mn=='lea' and len(o)==2 and o[0] in R64:
                k=slotkey(memop(o[1]) or '')
                regs[o[0]]=('S',k[0],k[1]) if k else TOP
            elif mn in ('cpuid',): 
                for r in ['rax','rbx','rcx','rdx']: regs[r]=TOP
            elif mn=='xgetbv':
                regs['rax']=TOP; regs['rdx']=TOP
            elif mn in('mul','imul','div','idiv') and len(o)==1:
                regs['rax']=TOP; regs['rdx']=TOP
            elif mn in ('xchg',):
                for x in o:
                    if x in SUB: regs[SUB[x]]=TOP
            elif mn.startswith('cmpxchg'):
                regs['rax']=TOP
                if o and o[0] in SUB: regs[SUB[o[0]]]=TOP
            elif mn in NODEST or mn.startswith('prefetch') or mn.startswith('nop'):
                pass
            else:
                if o and o[0] in SUB:
                    regs[SUB[o[0]]]=TOP
                elif o and memop(o[0]) is not None:
                    k=slotkey(memop(o[0]))
                    if k is not None: slots.pop(k,None)   # partial/other store to a tracked slot
                if mn in('movs','stos','movsb','movsq','stosq','stosb','movsd') and not o:
                    for r in ['rsi','rdi','rcx']: regs[r]=TOP
        for s in succ:
            if s is None: issues.append((name,f'no successor after {a:x}')); continue
            if s not in states:
                states[s]=(dict(regs),dict(slots)); work.append(s)
            else:
                j,ch=join(states[s],(regs,slots))
                if ch: states[s]=j; work.append(s)
def main():
    objs=sorted(glob.glob(sys.argv[1]+'/*.o'))
    tot=0; allissues=[]
    for obj in objs:
        nm=subprocess.run(['nm',obj],capture_output=True,text=True).stdout
        ents=[(int(l.split()[0],16),l.split()[2]) for l in nm.splitlines() if len(l.split())==3 and l.split()[1]=='T']
        if not ents: continue
        insns,nxt,syms=parse(obj)
        if not insns: continue
        gs={a for a,_ in ents}
        for a,n in ents:
            if a not in insns: continue
            if n.endswith('_mbinit'): continue
            issues=[]; analyze(obj,insns,nxt,syms,a,n,issues,gs); tot+=1
            if issues: allissues.append((os.path.basename(obj),n,issues[:4]))
    print('functions analysed',tot,'with issues',len(allissues))
    for o,n,i in allissues: print(o,n,i)
main()
