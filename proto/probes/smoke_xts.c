#include <stdio.h>
#include <string.h>
#include <stdlib.h>
#include <stdint.h>
#include <openssl/evp.h>
#include <openssl/aes.h>
static uint64_t rs=88172645463325252ULL; static uint64_t rnd(void){rs^=rs<<13;rs^=rs>>7;rs^=rs<<17;return rs;}
typedef void (*xts_t)(uint8_t*,uint8_t*,uint8_t*,uint64_t,const uint8_t*,uint8_t*);
typedef void (*kx_t)(const uint8_t*,uint8_t*,uint8_t*);
typedef void (*cbce_t)(void*,uint8_t*,uint8_t*,void*,uint64_t);
#define X(K,F) extern void _XTS_AES_##K##_enc_##F(),_XTS_AES_##K##_dec_##F(),_XTS_AES_##K##_enc_expanded_key_##F(),_XTS_AES_##K##_dec_expanded_key_##F();
X(128,sse) X(128,avx) X(128,vaes) X(256,sse) X(256,avx) X(256,vaes)
#define KX(K,F) extern void _aes_keyexp_##K##_##F();
KX(128,sse) KX(128,avx) KX(192,sse) KX(192,avx) KX(256,sse) KX(256,avx)
#define CB(K) extern void _aes_cbc_enc_##K##_x4(),_aes_cbc_enc_##K##_x8(),_aes_cbc_dec_##K##_sse(),_aes_cbc_dec_##K##_avx(),_aes_cbc_dec_##K##_vaes_avx512();
CB(128) CB(192) CB(256)
struct xf{const char*n;int kb;void*e,*d,*ee,*de;};
#define XE(K,F) {#K "_" #F,K,_XTS_AES_##K##_enc_##F,_XTS_AES_##K##_dec_##F,_XTS_AES_##K##_enc_expanded_key_##F,_XTS_AES_##K##_dec_expanded_key_##F}
static struct xf xfs[]={XE(128,sse),XE(128,avx),XE(128,vaes),XE(256,sse),XE(256,avx),XE(256,vaes)};
int main(void){ static uint8_t k1[32],k2[32],tw[16],pt[9000],ct[9000],ect[9000],pt2[9000],e1[240],d1[240],e2[240],d2[240],okey[64];
  for(int f=0;f<6;f++){ struct xf*F=&xfs[f]; int bad=0; int kl=F->kb/8;
    for(int t=0;t<8000;t++){ for(int i=0;i<32;i++){k1[i]=rnd();k2[i]=rnd();} for(int i=0;i<16;i++)tw[i]=rnd(); int len= t<600? 16+t : 16+rnd()%8000; for(int i=0;i<len;i++)pt[i]=rnd();
      memcpy(okey,k1,kl); memcpy(okey+kl,k2,kl); EVP_CIPHER_CTX*c=EVP_CIPHER_CTX_new(); int o,o2; EVP_EncryptInit_ex(c,F->kb==128?EVP_aes_128_xts():EVP_aes_256_xts(),NULL,okey,tw); EVP_EncryptUpdate(c,ect,&o,pt,len); EVP_EncryptFinal_ex(c,ect+o,&o2); EVP_CIPHER_CTX_free(c);
      ((xts_t)F->e)(k2,k1,tw,len,pt,ct); if(memcmp(ct,ect,len)){bad++; if(bad<3)printf("%s enc mismatch len=%d\n",F->n,len);}
      ((xts_t)F->d)(k2,k1,tw,len,ect,pt2); if(memcmp(pt2,pt,len)){bad++; if(bad<3)printf("%s dec mismatch len=%d\n",F->n,len);}
      if(F->kb==128){((kx_t)_aes_keyexp_128_sse)(k1,e1,d1);((kx_t)_aes_keyexp_128_sse)(k2,e2,d2);} else {((kx_t)_aes_keyexp_256_sse)(k1,e1,d1);((kx_t)_aes_keyexp_256_sse)(k2,e2,d2);}
      memset(ct,0,len); ((xts_t)F->ee)(e2,e1,tw,len,pt,ct); if(memcmp(ct,ect,len)){bad++; if(bad<3)printf("%s enc_exp mismatch len=%d\n",F->n,len);}
      memset(pt2,0,len); ((xts_t)F->de)(e2,d1,tw,len,ect,pt2); if(memcmp(pt2,pt,len)){bad++; if(bad<3)printf("%s dec_exp mismatch len=%d\n",F->n,len);}
      /* in place */ memcpy(ct,pt,len); ((xts_t)F->e)(k2,k1,tw,len,ct,ct); if(memcmp(ct,ect,len)){bad++; if(bad<3)printf("%s enc inplace mismatch len=%d\n",F->n,len);}
    } printf("xts %-10s bad=%d\n",F->n,bad); }
  /* keyexp vs openssl AES_set_encrypt_key (rd_key words) and CBC */
  struct {const char*n;int kb;void*kx[2];void*ce[2];void*cd[3];} cs[]={{"128",128,{_aes_keyexp_128_sse,_aes_keyexp_128_avx},{_aes_cbc_enc_128_x4,_aes_cbc_enc_128_x8},{_aes_cbc_dec_128_sse,_aes_cbc_dec_128_avx,_aes_cbc_dec_128_vaes_avx512}},{"192",192,{_aes_keyexp_192_sse,_aes_keyexp_192_avx},{_aes_cbc_enc_192_x4,_aes_cbc_enc_192_x8},{_aes_cbc_dec_192_sse,_aes_cbc_dec_192_avx,_aes_cbc_dec_192_vaes_avx512}},{"256",256,{_aes_keyexp_256_sse,_aes_keyexp_256_avx},{_aes_cbc_enc_256_x4,_aes_cbc_enc_256_x8},{_aes_cbc_dec_256_sse,_aes_cbc_dec_256_avx,_aes_cbc_dec_256_vaes_avx512}}};
  for(int s=0;s<3;s++){ int bad=0; int nr=cs[s].kb/32+6; for(int t=0;t<3000;t++){ for(int i=0;i<32;i++)k1[i]=rnd(); for(int i=0;i<16;i++)tw[i]=rnd(); int len=16*(1+ (t<100? t: rnd()%300)); for(int i=0;i<len;i++)pt[i]=rnd();
      AES_KEY ak; AES_set_encrypt_key(k1,cs[s].kb,&ak); 
      for(int v=0;v<2;v++){ memset(e1,0,240);memset(d1,0,240); ((kx_t)cs[s].kx[v])(k1,e1,d1); 
        /* openssl rd_key is stored as u32 words in native order of big-endian-loaded? compare by encrypting a block instead */
        uint8_t b[16]={0},o1[16]; AES_encrypt(b,o1,&ak); /* reference ECB */
        /* check enc schedule first 16/24/32 bytes == key and dec[nr]==key first 16, dec[0]==enc[nr] */
        if(memcmp(e1,k1,cs[s].kb/8)) {bad++; if(bad<3)printf("keyexp %s v%d enc[0]!=key\n",cs[s].n,v);} if(memcmp(d1+16*nr,k1,16)){bad++; if(bad<3)printf("keyexp %s v%d dec[nr]!=key\n",cs[s].n,v);} if(memcmp(d1,e1+16*nr,16)){bad++; if(bad<3)printf("keyexp %s v%d dec[0]!=enc[nr]\n",cs[s].n,v);} }
      EVP_CIPHER_CTX*c=EVP_CIPHER_CTX_new(); int o,o2; EVP_EncryptInit_ex(c,cs[s].kb==128?EVP_aes_128_cbc():cs[s].kb==192?EVP_aes_192_cbc():EVP_aes_256_cbc(),NULL,k1,tw); EVP_CIPHER_CTX_set_padding(c,0); EVP_EncryptUpdate(c,ect,&o,pt,len); EVP_EncryptFinal_ex(c,ect+o,&o2); EVP_CIPHER_CTX_free(c);
      static uint8_t ivb[16] __attribute__((aligned(16))); 
      for(int v=0;v<2;v++){ memcpy(ivb,tw,16); memset(ct,0,len); ((cbce_t)cs[s].ce[v])(pt,ivb,e1,ct,len); if(memcmp(ct,ect,len)){bad++; if(bad<3)printf("cbc enc %s v%d mismatch len=%d\n",cs[s].n,v,len);} }
      for(int v=0;v<3;v++){ memcpy(ivb,tw,16); memset(pt2,0,len); ((cbce_t)cs[s].cd[v])(ect,ivb,d1,pt2,len); if(memcmp(pt2,pt,len)){bad++; if(bad<3)printf("cbc dec %s v%d mismatch len=%d\n",cs[s].n,v,len);} memcpy(pt2,ect,len); memcpy(ivb,tw,16); ((cbce_t)cs[s].cd[v])(pt2,ivb,d1,pt2,len); if(memcmp(pt2,pt,len)){bad++; if(bad<3)printf("cbc dec inplace %s v%d mismatch len=%d\n",cs[s].n,v,len);} }
    } printf("cbc/keyexp %s bad=%d\n",cs[s].n,bad); }
  return 0; }
