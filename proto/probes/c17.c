#define _GNU_SOURCE
#include <stdio.h>
#include <stdlib.h>
#include <pthread.h>
#include <stdatomic.h>
#include <unistd.h>
#include "isal_crypto_api.h"
#include "aes_keyexp.h"
int __real__aes_self_tests(void); int __real__sha_self_tests(void);
static atomic_int n_aes, n_sha, done_flag; static int inject_fail, delay_us;
int __wrap__aes_self_tests(void){ atomic_fetch_add(&n_aes,1); usleep(delay_us); int r=__real__aes_self_tests(); return inject_fail==1? 1 : r; }
int __wrap__sha_self_tests(void){ atomic_fetch_add(&n_sha,1); usleep(delay_us); int r=__real__sha_self_tests(); atomic_store(&done_flag,1); return r; }
static pthread_barrier_t bar; static int rets[256], early[256];
static void*th(void*a){ int id=(int)(long)a; unsigned char key[16]={1},e[176],d[176]; pthread_barrier_wait(&bar); int r= id%2? isal_self_tests() : isal_aes_keyexp_128(key,e,d); early[id]= !atomic_load(&done_flag); rets[id]=r; return 0; }
int main(int argc,char**argv){ int n=atoi(argv[1]); inject_fail=atoi(argv[2]); delay_us=atoi(argv[3]); pthread_t t[256]; pthread_barrier_init(&bar,0,n); for(long i=0;i<n;i++) pthread_create(&t[i],0,th,(void*)i); for(int i=0;i<n;i++) pthread_join(t[i],0);
  int nz=0,ne=0; for(int i=0;i<n;i++){ if(rets[i])nz++; if(early[i])ne++; } printf("threads=%d fail=%d: aes_entries=%d sha_entries=%d nonzero_returns=%d returned_before_tests_done=%d\n",n,inject_fail,n_aes,n_sha,nz,ne); return 0; }
