#!/usr/bin/env python3
# Throw-away: ISA class requirements per symbol (transitive through direct calls/jumps), from objdump with raw bytes.
import re,subprocess,glob,os,sys,collections,json
D=sys.argv[1]
SSE41={'pextrd','pextrq','pextrb','pinsrd','pinsrq','pinsrb','pblendw','blendps','blendpd','pblendvb','blendvps','blendvpd','pmovzxbw','pmovzxbd','pmovzxbq','pmovzxwd','pmovzxwq','pmovzxdq','pmovsxbw','pmovsxbd','pmovsxbq','pmovsxwd','pmovsxwq','pmovsxdq','pmulld','pminud','pmaxud','pminsd','pmaxsd','pminuw','pmaxuw','pminsb','pmaxsb','ptest','roundps','roundpd','roundss','roundsd','dpps','dppd','insertps','extractps','packusdw','pcmpeqq','pmuldq','movntdqa','phminposuw','mpsadbw'}
SSE42={'pcmpgtq','crc32','pcmpestri','pcmpestrm','pcmpistri','pcmpistrm'}
SSSE3={'pshufb','palignr','pabsb','pabsw','pabsd','phaddw','phaddd','phaddsw','phsubw','phsubd','phsubsw','pmaddubsw','pmulhrsw','psignb','psignw','psignd'}
SSE3={'lddqu','movddup','movshdup','movsldup','haddps','haddpd','addsubps','addsubpd','hsubps','hsubpd'}
BMI2={'rorx','pext','pdep','bzhi','mulx','sarx','shlx','shrx'}
BMI1={'andn','blsr','blsi','blsmsk','bextr','tzcnt'}
AVX2_ANYW={'vpbroadcastb','vpbroadcastw','vpbroadcastd','vpbroadcastq','vbroadcasti128','vperm2i128','vpermd','vpermq','vpermps','vpermpd','vpblendd','vpsllvd','vpsllvq','vpsrlvd','vpsrlvq','vpsravd','vpgatherdd','vpgatherqd','vpgatherdq','vpgatherqq','vextracti128','vinserti128','vpmaskmovd','vpmaskmovq'}
AVX512BW={'vpshufb','vpaddb','vpaddw','vpsubb','vpsubw','vpcmpb','vpcmpub','vpcmpw','vpcmpuw','vpcmpeqb','vpcmpeqw','vmovdqu8','vmovdqu16','vpunpcklbw','vpunpckhbw','vpunpcklwd','vpunpckhwd','vpackuswb','vpacksswb','vpackusdw','vpackssdw','vpsllw','vpsrlw','vpsraw','vpslldq','vpsrldq','vpalignr','vpblendmb','vpblendmw','vpbroadcastb','vpbroadcastw','vpermw','vpshufhw','vpshuflw','vpmovb2m','vpmovw2m','vpmovm2b','vpmovm2w','vpminub','vpmaxub','vpavgb','vpmullw','vpmulhw','vpmaddwd','vpsadbw','vptestmb','vptestmw','kmovq','kmovd','kshiftlq','kshiftrq','kshiftld','kshiftrd','kaddd','kaddq','kandq','kandd','korq','kord','kxorq','kxord','knotq','knotd','ktestq','ktestd','kortestq','kortestd','kunpckdq','kunpckwd'}
AVX512DQ={'vpmullq','vextracti64x2','vextractf64x2','vinserti64x2','vinsertf64x2','vextracti32x8','vinserti32x8','vextractf32x8','vinsertf32x8','vbroadcasti32x2','vbroadcasti32x8','vbroadcasti64x2','vbroadcastf32x2','vbroadcastf32x8','vbroadcastf64x2','vandps','vandpd','vandnps','vandnpd','vorps','vorpd','vxorps','vxorpd','vpmovd2m','vpmovq2m','vpmovm2d','vpmovm2q','kmovb','kaddb','kaddw','ktestb','ktestw','kandb','korb','kxorb','knotb','kshiftlb','kshiftrb','kortestb','vcvtqq2pd','vcvtpd2qq','vpextrq','vpextrd','vpinsrq','vpinsrd'}
AVX512CD={'vpconflictd','vpconflictq','vplzcntd','vplzcntq','vpbroadcastmb2q','vpbroadcastmw2d'}
def classify(mn,ops,raw):
    b=raw.split()
    # skip legacy prefixes
    i=0
    while i<len(b) and b[i] in('66','f2','f3','2e','36','3e','26','64','65','67','f0'): i+=1
    evex = i<len(b) and b[i]=='62'
    vex = i<len(b) and b[i] in('c4','c5') and mn.startswith('v') or mn in BMI2|BMI1
    cls=set()
    hasz='zmm' in ops; hasy='ymm' in ops; hasx='xmm' in ops
    if mn.startswith('sha1') or mn.startswith('sha256'): cls.add('SHA')
    if mn in('aesenc','aesenclast','aesdec','aesdeclast','aesimc','aeskeygenassist'): cls.add('AESNI')
    if mn=='pclmulqdq': cls.add('PCLMUL')
    if mn in('vaesenc','vaesenclast','vaesdec','vaesdeclast','vaesimc','vaeskeygenassist'):
        if hasy or hasz or evex: cls.add('VAES')
        else: cls|={'AESNI','AVX'}
    if mn=='vpclmulqdq':
        if hasy or hasz or evex: cls.add('VPCLMULQDQ')
        else: cls|={'PCLMUL','AVX'}
    if mn in BMI2: cls.add('BMI2')
    if mn in BMI1: cls.add('BMI1')
    if mn=='lzcnt': cls.add('LZCNT')
    if mn=='popcnt': cls.add('POPCNT')
    if mn=='movbe': cls.add('MOVBE')
    if mn in('adcx','adox'): cls.add('ADX')
    if mn in SSE41: cls.add('SSE4.1')
    if mn in SSE42: cls.add('SSE4.2')
    if mn in SSSE3: cls.add('SSSE3')
    if mn in SSE3: cls.add('SSE3')
    if mn.startswith('gf2p8') or mn.startswith('vgf2p8'): cls.add('GFNI')
    if evex or hasz or re.search(r'\bk[0-7]\b',ops) or mn.startswith('k') and re.match(r'^k(mov|and|or|xor|not|shift|add|test|ortest|unpck)',mn):
        cls.add('AVX512F')
        if mn in AVX512BW and (mn not in('vpshufb','vpalignr','vpslldq','vpsrldq') or True):
            # byte/word granular EVEX ops need BW
            if mn in AVX512BW: cls.add('AVX512BW')
        if mn in AVX512DQ: cls.add('AVX512DQ')
        if mn in AVX512CD: cls.add('AVX512CD')
        if evex and not hasz and (hasx or hasy) and not mn.startswith('k'): cls.add('AVX512VL')
        if mn in('vpshldvd','vpshrdvd','vpshldd','vpshrdd','vpcompressb','vpexpandb','vpshldq','vpshrdq','vpshldvq','vpshrdvq'): cls.add('AVX512VBMI2')
        if mn in('vpermb','vpermi2b','vpermt2b','vpmultishiftqb'): cls.add('AVX512VBMI')
        if mn in('vpmadd52luq','vpmadd52huq'): cls.add('AVX512IFMA')
        if mn in('vpopcntd','vpopcntq'): cls.add('AVX512VPOPCNTDQ')
        if mn in('vpopcntb','vpopcntw','vpshufbitqmb'): cls.add('AVX512BITALG')
        if mn in('vpdpbusd','vpdpbusds','vpdpwssd','vpdpwssds'): cls.add('AVX512VNNI')
    elif mn.startswith('v') and (b[i:i+1] and b[i] in('c4','c5')):
        if mn in('vzeroupper','vzeroall'): cls.add('AVX')
        elif mn in AVX2_ANYW: cls.add('AVX2')
        elif hasy and (mn.startswith('vp') or mn in('vmovntdqa',)) and mn not in('vperm2f128','vpermilps','vpermilpd','vptest'): cls.add('AVX2')
        elif mn.startswith('vfm') or mn.startswith('vfnm'): cls.add('FMA')
        else: cls.add('AVX')
    return cls
def load():
    funcs={}   # name -> (set cls, set callees)
    for obj in sorted(glob.glob(D+'/*.o')):
        out=subprocess.run(['objdump','-d','-r','-M','intel',obj],capture_output=True,text=True).stdout
        cur=None; last=None
        labels={}
        lines=out.splitlines()
        # first pass: symbol table of code labels in this object: global (T) names
        nm=subprocess.run(['nm',obj],capture_output=True,text=True).stdout
        glob_T={l.split()[2] for l in nm.splitlines() if len(l.split())==3 and l.split()[1] in 'Tt' and not l.split()[2].startswith('.')}
        glob_only={l.split()[2] for l in nm.splitlines() if len(l.split())==3 and l.split()[1]=='T'}
        for line in lines:
            m=re.match(r'^[0-9a-f]+ <(.+)>:$',line)
            if m:
                n=m.group(1)
                if n in glob_only and 'slver' not in n:
                    cur=n; funcs.setdefault(cur,[set(),set(),collections.Counter()])
                continue
            m=re.match(r'^\s+[0-9a-f]+:\t([0-9a-f ]+?)\s*\t(\S+)\s*(.*)$',line)
            if m and cur:
                raw,mn,ops=m.group(1),m.group(2),m.group(3).split('#')[0]
                while mn in('lock','rep','repz','repnz','data16','notrack','bnd') and ops:
                    p=ops.split(None,1); mn=p[0]; ops=p[1] if len(p)>1 else ''
                c=classify(mn,ops,raw)
                funcs[cur][0]|=c
                for k in c: funcs[cur][2][(k,mn)]+=1
                if mn in('call','jmp'):
                    mm=re.search(r'<([^>+]+)(\+0x[0-9a-f]+)?>',ops)
                    if mm and mm.group(1)!=cur and mm.group(1) in glob_only: funcs[cur][1].add(mm.group(1))
                last=(cur,mn)
                continue
            m=re.match(r'^\s+[0-9a-f]+: R_X86_64_(PLT32|PC32)\s+(\S+?)(-0x[0-9a-f]+|\+0x[0-9a-f]+)?$',line)
            if m and cur and last and last[1] in('call','jmp'):
                t=m.group(2)
                if not t.startswith('.'): funcs[cur][1].add(t)
    return funcs
funcs=load()
def closure(n,seen=None):
    seen=seen or set()
    if n in seen or n not in funcs: return set()
    seen.add(n)
    r=set(funcs[n][0])
    for c in funcs[n][1]:
        if c.endswith('_dispatched') : continue
        r|=closure(c,seen)
    return r
req={n:sorted(closure(n)) for n in funcs}
json.dump(req,open('/tmp/proto/req.json','w'),indent=0)
# print requirements of dispatch candidates grouped by family suffix
cands=[n for n in funcs if re.search(r'_(base|sse|sse_ni|avx|avx2|avx512|avx512_ni|sb_sse4|avx_gen2|avx_gen4|vaes_avx512|vaes|x4|x8|00|04)$',n) and n.startswith('_')]
byfam=collections.defaultdict(lambda: collections.Counter())
for n in cands:
    fam=re.search(r'_(base|sse_ni|sse|avx512_ni|avx512|avx2|avx_gen2|avx_gen4|vaes_avx512|vaes|avx|sb_sse4|x4|x8|00|04)$',n).group(1)
    byfam[fam][tuple(req[n])]+=1
for fam,c in sorted(byfam.items()):
    print('==',fam)
    for k,v in c.most_common(): print('   ',v,list(k))
