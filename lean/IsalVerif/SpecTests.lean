import IsalVerif.Spec.Sha1
import IsalVerif.Spec.Sha256
import IsalVerif.Spec.Sha512
import IsalVerif.Spec.Md5
import IsalVerif.Spec.Sm3
/-! Tests of the transcribed standards against published vectors. These are TESTS of the spec, not theorems. -/
namespace IsalVerif
def abc : Bytes := "abc".toUTF8.toList
#eval hexOf (Sha1.alg.hash abc)
#eval hexOf (Sha256.alg.hash abc)
#eval hexOf (Sha512.alg.hash abc)
#eval hexOf (Md5.alg.hash abc)
#eval hexOf (Sm3.alg.hash abc)
#eval hexOf (Sha256.alg.hash [])
end IsalVerif
