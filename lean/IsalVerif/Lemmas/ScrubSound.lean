import IsalVerif.Impl.Scrub
import IsalVerif.Lemmas.X86AbsSound
/-!
# Soundness of the Scrub certificate checker (engine Scrub, property C14)

`checkScrub_sound`: if `checkScrub ctx cx P entry = true` then on every execution of the taint-instrumented
semantics `SSteps` that starts at the entry label with a clean ghost state (`GInit`) and reaches an exit record,
no vector part is tainted, every vector part outside the function's summary holds its entry value or zero, and
no stack byte is tainted.

Structure: the base component (GPRs, stack pointer, frames) is handled by `X86Abs.step1_soundF`
(the C19 soundness lemma, strengthened to expose that a step re-values only the frame of its own `and rsp`);
this file proves the ghost component (`gflow_sound`, `gcall_sound`) and the paired invariant (`Inv2`).
-/
namespace IsalVerif.Scrub
open IsalVerif.X86Abs

theorem bit_eq_testBit (m k : Nat) : bit m k = m.testBit k := by
  unfold bit Nat.testBit
  show Nat.beq ((m >>> k) &&& 1) 1 = (1 &&& m >>> k != 0)
  rw [Nat.and_comm]
  have h : 1 &&& m >>> k = (m >>> k) % 2 := by rw [Nat.and_comm]; exact Nat.and_one_is_mod _
  rw [h]
  rcases Nat.mod_two_eq_zero_or_one (m >>> k) with h0 | h1
  · rw [h0]; rfl
  · rw [h1]; rfl

theorem tb_lor (a b i : Nat) : (Nat.lor a b).testBit i = (a.testBit i || b.testBit i) := Nat.testBit_or a b i
theorem tb_land (a b i : Nat) : (Nat.land a b).testBit i = (a.testBit i && b.testBit i) := Nat.testBit_and a b i
theorem tb_xor (a b i : Nat) : (Nat.xor a b).testBit i = (a.testBit i ^^ b.testBit i) := Nat.testBit_xor a b i

theorem tb_andNot (a b i : Nat) : (andNot a b).testBit i = (a.testBit i && !b.testBit i) := by
  unfold andNot; rw [tb_xor, tb_land]; cases a.testBit i <;> cases b.testBit i <;> rfl

theorem tb_one_shl (p i : Nat) : (Nat.shiftLeft 1 p).testBit i = decide (p = i) := by
  show (1 <<< p).testBit i = _
  rw [Nat.one_shiftLeft, Nat.testBit_two_pow]

theorem tb_putBit (m p : Nat) (v : Bool) (i : Nat) : (putBit m p v).testBit i = if i = p then v else m.testBit i := by
  unfold putBit
  cases v with
  | true =>
    simp only [cond_true, tb_lor, tb_one_shl]
    by_cases h : i = p
    · subst h; simp
    · have : ¬ p = i := fun e => h e.symm
      simp [h, this]
  | false =>
    simp only [cond_false, tb_andNot, tb_one_shl]
    by_cases h : i = p
    · subst h; simp
    · have : ¬ p = i := fun e => h e.symm
      simp [h, this]

theorem beq0 {a : Nat} (h : Nat.beq a 0 = true) : a = 0 := Nat.eq_of_beq_eq_true h

theorem nz_false {a : Nat} (h : nz a = false) : a = 0 := by
  unfold nz at h; simp at h; exact h

theorem land_zero_tb {a b : Nat} (h : Nat.land a b = 0) (i : Nat) (ha : a.testBit i = true) : b.testBit i = false := by
  have := tb_land a b i
  rw [h, Nat.zero_testBit, ha] at this
  simpa using this.symm

theorem andNot_zero_tb {a b : Nat} (h : andNot a b = 0) (i : Nat) (ha : a.testBit i = true) : b.testBit i = true := by
  have := tb_andNot a b i
  rw [h, Nat.zero_testBit, ha] at this
  cases hb : b.testBit i with
  | true => rfl
  | false => rw [hb] at this; simp at this

/-! ## stack regions -/

abbrev Reg := Nat × Int × Int

/-- byte `y` lies in one of the regions (bases valued by the entry state and the frame valuation) -/
def InD (s0 : St) (φ : Nat → Int) (D : List Reg) (y : Int) : Prop :=
  ∃ r, r ∈ D ∧ baseVal s0 φ r.1 + r.2.1 ≤ y ∧ y < baseVal s0 φ r.1 + r.2.2

theorem inD_cons {s0 φ D y} (r : Reg) (h : InD s0 φ D y) : InD s0 φ (r :: D) y := by
  obtain ⟨q, hq, h1, h2⟩ := h
  exact ⟨q, List.mem_cons_of_mem _ hq, h1, h2⟩

theorem cutD_sound {s0 φ} (D : List Reg) (b : Nat) (lo hi : Int) (y : Int) (h : InD s0 φ D y)
    (hy : ¬ (baseVal s0 φ b + lo ≤ y ∧ y < baseVal s0 φ b + hi)) : InD s0 φ (cutD D b lo hi) y := by
  induction D with
  | nil => obtain ⟨q, hq, _⟩ := h; cases hq
  | cons r rs ih =>
    obtain ⟨q, hq, h1, h2⟩ := h
    rcases List.mem_cons.mp hq with rfl | hq'
    · -- the region at the head
      unfold cutD
      cases hb : Nat.beq q.1 b with
      | false => simp only [cond_false]; exact ⟨q, List.mem_cons_self, h1, h2⟩
      | true =>
        have hbe : q.1 = b := Nat.eq_of_beq_eq_true hb
        simp only [cond_true]
        rw [hbe] at h1 h2
        by_cases hlo : y < baseVal s0 φ b + lo
        · -- left piece
          have hd : decide (q.2.1 < lo) = true := by simp; omega
          simp only [hd, cond_true]
          refine ⟨(q.1, q.2.1, min q.2.2 lo), by simp, ?_, ?_⟩
          · simp only [hbe]; exact h1
          · simp only [hbe]; omega
        · -- right piece
          have hhi : baseVal s0 φ b + hi ≤ y := by omega
          have hd : decide (hi < q.2.2) = true := by simp; omega
          simp only [hd, cond_true]
          refine ⟨(q.1, max q.2.1 hi, q.2.2), by simp, ?_, ?_⟩
          · simp only [hbe]; omega
          · simp only [hbe]; exact h2
    · have := ih ⟨q, hq', h1, h2⟩
      obtain ⟨q', hq'', h1', h2'⟩ := this
      unfold cutD
      cases hb : Nat.beq r.1 b with
      | false => simp only [cond_false]; exact ⟨q', List.mem_cons_of_mem _ hq'', h1', h2'⟩
      | true =>
        simp only [cond_true]
        exact ⟨q', by simp only [List.mem_append]; right; right; exact hq'', h1', h2'⟩

theorem overlapsD_false {s0 φ} {D : List Reg} {b : Nat} {lo hi : Int} (h : overlapsD D b lo hi = false) {y : Int}
    (hin : InD s0 φ D y) : ¬ (baseVal s0 φ b + lo ≤ y ∧ y < baseVal s0 φ b + hi) := by
  obtain ⟨q, hq, h1, h2⟩ := hin
  unfold overlapsD at h
  rw [List.any_eq_false] at h
  have hq' := h q hq
  simp only [Bool.or_eq_true, Bool.not_eq_true', Bool.and_eq_true, decide_eq_true_eq, not_or, not_and] at hq'
  obtain ⟨hb, hd⟩ := hq'
  have hbe : q.1 = b := by
    cases hx : Nat.beq q.1 b with
    | true => exact Nat.eq_of_beq_eq_true hx
    | false => exact absurd hx hb
  rw [hbe] at h1 h2
  intro ⟨h3, h4⟩
  by_cases hc : q.2.1 < hi
  · have := hd hc; omega
  · omega

/-! ## the ghost simulation relation -/

structure GRel (s0 : SSt) (φ : Nat → Int) (g : G) (gh : Gh) : Prop where
  w : ∀ p, g.vw.testBit p = false → gh.vec p = s0.gh.vec p ∨ gh.vec p = VV.zero
  t : ∀ p, g.vt.testBit p = false → (gh.vec p).t = false
  z : ∀ p, g.vzero.testBit p = true → gh.vec p = VV.zero
  s : ∀ r, g.gT.testBit r = false → gh.sc r = false
  d : ∀ y, gh.stk y = true → InD s0.x φ g.D y
  x : g.xp ≠ 0 → ∃ tv, gh.xp = some (xpP g.xp, xpQ g.xp, tv) ∧ (tv = true → xpT g.xp = true)

theorem nz_land_true {a b : Nat} (i : Nat) (ha : a.testBit i = true) (hb : b.testBit i = true) : nz (Nat.land a b) = true := by
  cases h : nz (Nat.land a b) with
  | true => rfl
  | false =>
    have := land_zero_tb (nz_false h) i ha
    rw [hb] at this; cases this

theorem subset_of_beq {a b : Nat} (h : Nat.beq (andNot a b) 0 = true) (i : Nat) (ha : a.testBit i = true) : b.testBit i = true :=
  andNot_zero_tb (Nat.eq_of_beq_eq_true h) i ha

theorem not_of_subset {a b : Nat} (h : Nat.beq (andNot a b) 0 = true) (i : Nat) (hb : b.testBit i = false) : a.testBit i = false := by
  cases ha : a.testBit i with
  | false => rfl
  | true => have := subset_of_beq h i ha; rw [hb] at this; cases this

theorem leG_sound {s0 φ g c gh} (h : leG g c = true) (hg : GRel s0 φ g gh) : GRel s0 φ c gh := by
  unfold leG at h
  simp only [Bool.and_eq_true] at h
  obtain ⟨⟨⟨⟨⟨h1, h2⟩, h3⟩, h4⟩, h5⟩, h6⟩ := h
  constructor
  · intro p hp; exact hg.w p (not_of_subset h1 p hp)
  · intro p hp; exact hg.t p (not_of_subset h2 p hp)
  · intro p hp; exact hg.z p (subset_of_beq h3 p hp)
  · intro r hr; exact hg.s r (not_of_subset h4 r hr)
  · intro y hy
    obtain ⟨r, hr, h1', h2'⟩ := hg.d y hy
    rw [List.all_eq_true] at h5
    have := h5 r hr
    rw [List.any_eq_true] at this
    obtain ⟨q, hq, hqq⟩ := this
    simp only [Bool.and_eq_true, decide_eq_true_eq] at hqq
    obtain ⟨⟨hb, hlo⟩, hhi⟩ := hqq
    have hbe : q.1 = r.1 := Nat.eq_of_beq_eq_true hb
    refine ⟨q, hq, ?_, ?_⟩
    · rw [hbe]; omega
    · rw [hbe]; omega
  · intro hne
    simp only [Bool.or_eq_true] at h6
    rcases h6 with h6 | h6
    · exact absurd (Nat.eq_of_beq_eq_true h6) hne
    · have e : c.xp = g.xp := Nat.eq_of_beq_eq_true h6
      rw [e] at hne ⊢
      exact hg.x hne

theorem grel_frame {s0 φ φ' g gh} (hg : GRel s0 φ g gh)
    (hb : ∀ r, r ∈ g.D → baseVal s0.x φ' r.1 = baseVal s0.x φ r.1) : GRel s0 φ' g gh := by
  refine ⟨hg.w, hg.t, hg.z, hg.s, ?_, hg.x⟩
  intro y hy
  obtain ⟨r, hr, h1, h2⟩ := hg.d y hy
  exact ⟨r, hr, by rw [hb r hr]; exact h1, by rw [hb r hr]; exact h2⟩

theorem frstep_base {i : Instr} {φ φ' : Nat → Int} (hfs : FrStep i φ φ') {D : List Reg} (hok : frameOK i D = true)
    (s0 : St) (r : Reg) (hr : r ∈ D) : baseVal s0 φ' r.1 = baseVal s0 φ r.1 := by
  unfold baseVal
  by_cases hlt : r.1 < 16
  · simp [hlt]
  · simp only [hlt, if_false]
    apply hfs
    intro m e
    subst e
    simp only [frameOK, List.all_eq_true] at hok
    have := hok r hr
    have hne : r.1 = 16 + (r.1 - 16) := by omega
    rw [← hne] at this
    simp at this

/-! ## data records -/

theorem stk_reg {s0 : St} {φ a x} {b : Nat} (hr : Rel s0 φ a x) (hs : isStk (get a b) = true) (hb : b < 16) :
    x.regs b = baseVal s0 φ (baseOf (get a b)) + offOf (get a b) := by
  have h0 := (isStk_true hs).1
  have := reg_val hr b hb h0
  unfold valI at this; exact this

theorem memT_sound {s0 : SSt} {φ a x g gh} {gi : GI} {mt : Bool} (hr : Rel s0.x φ a x) (hg : GRel s0 φ g gh)
    (h : memT a gi g = some mt) (hm : memTaint gi x gh) : mt = true := by
  unfold memT at h
  unfold memTaint at hm
  match hk : gi.mkd with
  | 0 => rw [hk] at hm; exact hm.elim
  | 1 =>
    rw [hk] at hm h
    simp only at h hm
    cases hsb : sbOK a gi.ma with
    | false => simp [hsb] at h
    | true =>
      simp only [hsb, cond_true, Option.some.injEq] at h
      obtain ⟨r, hr1, hr2⟩ := hm
      rw [← h]
      have hgt : g.gT.testBit r = true := by
        cases hx : g.gT.testBit r with
        | true => rfl
        | false => have := hg.s r hx; rw [this] at hr2; cases hr2
      exact nz_land_true r hgt hr1
  | 2 =>
    rw [hk] at hm h
    simp only at h hm
    cases hc : (isStk (get a gi.mb) && Nat.ble gi.mb 15) with
    | false => simp [hc] at h
    | true =>
      simp only [hc, cond_true, Option.some.injEq] at h
      simp only [Bool.and_eq_true] at hc
      rw [← h]
      rcases hm with hm | ⟨y, hy1, hy2, hy3⟩
      · have hgt : g.gT.testBit gi.mb = true := by
          cases hx : g.gT.testBit gi.mb with
          | true => rfl
          | false => have := hg.s _ hx; rw [this] at hm; cases hm
        rw [bit_eq_testBit, hgt]; rfl
      · have hreg := stk_reg hr hc.1 (ble15 hc.2)
        cases ho : overlapsD g.D (baseOf (get a gi.mb)) (offOf (get a gi.mb) + gi.mo) (offOf (get a gi.mb) + gi.mo + Int.ofNat gi.msz) with
        | true => simp
        | false =>
          exfalso
          apply overlapsD_false ho (hg.d y hy3)
          rw [hreg] at hy1 hy2
          constructor <;> omega
  | 3 =>
    rw [hk] at hm h
    simp only at h hm
    cases hc : (isStk (get a gi.mb) && Nat.ble gi.mb 15) with
    | false => simp [hc] at h
    | true =>
      simp only [hc, cond_true, Option.some.injEq] at h
      rw [← h]
      have key : ∀ r, gh.sc r = true → g.gT.testBit r = true := by
        intro r hsr
        cases hx : g.gT.testBit r with
        | true => rfl
        | false => have := hg.s _ hx; rw [this] at hsr; cases hsr
      rcases hm with (hm | ⟨r, hr1, hr2⟩) | ⟨y, hy⟩
      · have : (Nat.lor gi.ma (Nat.shiftLeft 1 gi.mb)).testBit gi.mb = true := by
          rw [tb_lor, tb_one_shl]; simp
        rw [nz_land_true gi.mb (key _ hm) this]; rfl
      · have : (Nat.lor gi.ma (Nat.shiftLeft 1 gi.mb)).testBit r = true := by
          rw [tb_lor, hr1]; rfl
        rw [nz_land_true r (key _ hr2) this]; rfl
      · obtain ⟨q, hq, _⟩ := hg.d y hy
        cases hD : g.D with
        | nil => rw [hD] at hq; cases hq
        | cons _ _ => simp
  | n + 4 =>
    rw [hk] at h
    simp at h

theorem rawT_sound {s0 : SSt} {φ a x g gh} {gi : GI} {mt : Bool} (hr : Rel s0.x φ a x) (hg : GRel s0 φ g gh)
    (h : memT a gi g = some mt) (hs : rawTaint gi x gh) :
    (nz (Nat.land g.vt gi.vr) || nz (Nat.land g.gT gi.gr) || mt) = true := by
  simp only [Bool.or_eq_true]
  rcases hs with ⟨p, hp1, hp2⟩ | ⟨r, hr1, hr2⟩ | hm
  · left; left
    have : g.vt.testBit p = true := by
      cases hx : g.vt.testBit p with
      | true => rfl
      | false => have := hg.t p hx; rw [this] at hp2; cases hp2
    exact nz_land_true p this hp1
  · left; right
    have : g.gT.testBit r = true := by
      cases hx : g.gT.testBit r with
      | true => rfl
      | false => have := hg.s r hx; rw [this] at hr2; cases hr2
    exact nz_land_true r this hr1
  · right; exact memT_sound hr hg h hm

theorem xp_roundtrip (p q : Nat) (tv : Bool) (hp : p ≤ 63) :
    xpEnc p q tv ≠ 0 ∧ xpP (xpEnc p q tv) = p ∧ xpQ (xpEnc p q tv) = q ∧ xpT (xpEnc p q tv) = tv := by
  unfold xpEnc xpP xpQ xpT
  cases tv with
  | false =>
    simp only [cond_false]
    have h1 : (1 + 2 * (p + 64 * q) + 0 - 1) % 2 = 0 := by omega
    refine ⟨by omega, by omega, by omega, ?_⟩
    rw [h1]; rfl
  | true =>
    simp only [cond_true]
    have h1 : (1 + 2 * (p + 64 * q) + 1 - 1) % 2 = 1 := by omega
    refine ⟨by omega, by omega, by omega, ?_⟩
    rw [h1]; rfl

theorem writesPartA_eq (gi : GI) (p : Nat) : writesPartA gi p = writesPart gi p := by
  unfold writesPartA writesPart
  rw [bit_eq_testBit, bit_eq_testBit]
  have e1 : Nat.beq p gi.cd = (p == gi.cd) := by
    cases h : Nat.beq p gi.cd with
    | true => have := Nat.eq_of_beq_eq_true h; subst this; simp
    | false =>
      have : p ≠ gi.cd := fun e => by subst e; simp [Nat.beq_refl] at h
      simp [this]
  have e2 : Nat.beq p (gi.cd + 32) = (p == gi.cd + 32) := by
    cases h : Nat.beq p (gi.cd + 32) with
    | true => have := Nat.eq_of_beq_eq_true h; subst this; simp
    | false =>
      have : p ≠ gi.cd + 32 := fun e => by subst e; simp [Nat.beq_refl] at h
      simp [this]
  rw [e1, e2]

/-- the abstract xor fact after a data record is right -/
theorem xpUpd_sound {s0 : SSt} {φ a x g gh} {gh' : Gh} {gi : GI} {mt : Bool} (hr : Rel s0.x φ a x) (hg : GRel s0 φ g gh)
    (hm : memT a gi g = some mt) (hx : XpEff gi x gh gh') :
    xpUpd gi g mt ≠ 0 → ∃ tv, gh'.xp = some (xpP (xpUpd gi g mt), xpQ (xpUpd gi g mt), tv) ∧ (tv = true → xpT (xpUpd gi g mt) = true) := by
  intro hne
  unfold XpEff at hx
  unfold xpUpd at hne ⊢
  cases hest : (Nat.beq gi.xm 1 && !Nat.beq gi.xa gi.xb && Nat.ble gi.xa 63 && Nat.ble gi.xb 63) with
  | true =>
    simp only [hest, cond_true] at hne ⊢
    simp only [Bool.and_eq_true, Bool.not_eq_true', beq_true_iff, ble_true_iff] at hest
    obtain ⟨⟨⟨h1, h2⟩, h3⟩, h4⟩ := hest
    have h2' : gi.xa ≠ gi.xb := fun e => by rw [e, Nat.beq_refl] at h2; cases h2
    have hc : gi.xm = 1 ∧ gi.xa ≠ gi.xb ∧ gi.xa ≤ 63 ∧ gi.xb ≤ 63 := ⟨h1, h2', h3, h4⟩
    rw [if_pos hc] at hx
    obtain ⟨To, hTo, hxp⟩ := hx
    obtain ⟨_, e1, e2, e3⟩ := xp_roundtrip gi.xa gi.xb (bif Nat.ble gi.xo 63 then bit g.vt gi.xo else mt) h3
    refine ⟨To, by rw [hxp, e1, e2], ?_⟩
    intro hT
    rw [e3]
    have hot := hTo.mp hT
    unfold otherTaint at hot
    by_cases hlt : gi.xo < 64
    · rw [if_pos hlt] at hot
      have hb : Nat.ble gi.xo 63 = true := Nat.ble_eq_true_of_le (by omega)
      rw [hb]; simp only [cond_true]
      rw [bit_eq_testBit]
      cases hv : g.vt.testBit gi.xo with
      | true => rfl
      | false => have := hg.t _ hv; rw [this] at hot; cases hot
    · rw [if_neg hlt] at hot
      have hb : Nat.ble gi.xo 63 = false := by
        cases hb' : Nat.ble gi.xo 63 with
        | false => rfl
        | true => have := Nat.le_of_ble_eq_true hb'; omega
      rw [hb]; simp only [cond_false]
      exact memT_sound hr hg hm hot
  | false =>
    simp only [hest, cond_false] at hne ⊢
    have hnc : ¬ (gi.xm = 1 ∧ gi.xa ≠ gi.xb ∧ gi.xa ≤ 63 ∧ gi.xb ≤ 63) := by
      intro ⟨h1, h2, h3, h4⟩
      have : (Nat.beq gi.xm 1 && !Nat.beq gi.xa gi.xb && Nat.ble gi.xa 63 && Nat.ble gi.xb 63) = true := by
        simp only [Bool.and_eq_true, Bool.not_eq_true', beq_true_iff, ble_true_iff]
        refine ⟨⟨⟨h1, ?_⟩, h3⟩, h4⟩
        cases hb : Nat.beq gi.xa gi.xb with
        | false => rfl
        | true => exact absurd (Nat.eq_of_beq_eq_true hb) h2
      rw [this] at hest; cases hest
    rw [if_neg hnc] at hx
    cases h0 : Nat.beq g.xp 0 with
    | true => simp [h0] at hne
    | false =>
      simp only [h0, cond_false] at hne ⊢
      have hgne : g.xp ≠ 0 := fun e => by rw [e] at h0; cases h0
      obtain ⟨tv, hxp, htv⟩ := hg.x hgne
      rw [hxp] at hx
      simp only at hx
      cases hw : (writesPartA gi (xpP g.xp) || writesPartA gi (xpQ g.xp)) with
      | true => simp [hw] at hne
      | false =>
        simp only [hw, cond_false] at hne ⊢
        simp only [writesPartA_eq, Bool.or_eq_false_iff] at hw
        have : ¬ (writesPart gi (xpP g.xp) = true ∨ writesPart gi (xpQ g.xp) = true) := by
          rw [hw.1, hw.2]; simp
        rw [if_neg this] at hx
        exact ⟨tv, hx, htv⟩

theorem srcT_sound {s0 : SSt} {φ a x g gh} {gi : GI} {mt : Bool} (hr : Rel s0.x φ a x) (hg : GRel s0 φ g gh)
    (h : memT a gi g = some mt) (hs : srcTaint gi x gh) : srcT gi g mt = true := by
  obtain ⟨hdc, hsrc⟩ := hs
  unfold srcT
  rw [hdc]
  simp only [Bool.not_false, Bool.true_and]
  -- whatever the concrete side does, the raw taint is there
  have hraw : rawTaint gi x gh := by
    cases hcv : cancelTv gi gh.xp with
    | none => rw [hcv] at hsrc; exact hsrc
    | some tv => rw [hcv] at hsrc; exact hsrc.2
  have hrawA := rawT_sound hr hg h hraw
  cases hca : cancelA gi g.xp with
  | none => exact hrawA
  | some tvA =>
    simp only [Bool.and_eq_true]
    refine ⟨?_, hrawA⟩
    -- the abstract side cancels: the abstract fact is there, so the concrete one is, with a smaller taint
    unfold cancelA at hca
    cases h0 : Nat.beq g.xp 0 with
    | true => simp [h0] at hca
    | false =>
      simp only [h0, cond_false] at hca
      have hne : g.xp ≠ 0 := fun e => by rw [e] at h0; cases h0
      obtain ⟨tv, hxp, htv⟩ := hg.x hne
      cases hcond : (Nat.beq gi.xm 2 && ((Nat.beq (xpP g.xp) gi.xa && Nat.beq (xpQ g.xp) gi.xb) || (Nat.beq (xpP g.xp) gi.xb && Nat.beq (xpQ g.xp) gi.xa))) with
      | false => simp [hcond] at hca
      | true =>
        simp only [hcond, cond_true, Option.some.injEq] at hca
        subst hca
        -- the concrete side cancels too
        have hcc : cancelTv gi gh.xp = some tv := by
          rw [hxp]
          simp only [cancelTv]
          simp only [Bool.and_eq_true, Bool.or_eq_true, beq_true_iff] at hcond
          have : gi.xm = 2 ∧ ((xpP g.xp = gi.xa ∧ xpQ g.xp = gi.xb) ∨ (xpP g.xp = gi.xb ∧ xpQ g.xp = gi.xa)) := hcond
          simp [this]
        rw [hcc] at hsrc
        exact htv hsrc.1

theorem cpPart_vw (g0 g : G) (on : Bool) (p q i : Nat) :
    (cpPart g0 g on p q).vw.testBit i = if on = true ∧ i = p then !(g0.vzero.testBit q) else g.vw.testBit i := by
  unfold cpPart
  cases on with
  | false => simp
  | true => simp only [cond_true, tb_putBit, bit_eq_testBit, true_and]

theorem cpPart_vt (g0 g : G) (on : Bool) (p q i : Nat) :
    (cpPart g0 g on p q).vt.testBit i = if on = true ∧ i = p then g0.vt.testBit q else g.vt.testBit i := by
  unfold cpPart
  cases on with
  | false => simp
  | true => simp only [cond_true, tb_putBit, bit_eq_testBit, true_and]

theorem cpPart_vzero (g0 g : G) (on : Bool) (p q i : Nat) :
    (cpPart g0 g on p q).vzero.testBit i = if on = true ∧ i = p then g0.vzero.testBit q else g.vzero.testBit i := by
  unfold cpPart
  cases on with
  | false => simp
  | true => simp only [cond_true, tb_putBit, bit_eq_testBit, true_and]

/-- the three abstract bits of part `p` after the two copies -/
def cpBits (gi : GI) (g : G) (p : Nat) : Bool × Bool × Bool :=
  match copySrc gi p with
  | some q => (!(g.vzero.testBit q), g.vt.testBit q, g.vzero.testBit q)
  | none => (g.vw.testBit p, g.vt.testBit p, g.vzero.testBit p)

theorem cp2_bits (gi : GI) (g : G) (p : Nat) :
    let g2 := cpPart g (cpPart g g gi.cpl gi.cd gi.cs) gi.cph (gi.cd + 32) (gi.cs + 32)
    (g2.vw.testBit p, g2.vt.testBit p, g2.vzero.testBit p) = cpBits gi g p := by
  simp only [cpPart_vw, cpPart_vt, cpPart_vzero, cpBits, copySrc]
  by_cases h1 : gi.cpl = true ∧ p = gi.cd
  · simp [h1]
  · by_cases h2 : gi.cph = true ∧ p = gi.cd + 32
    · simp [h2]
    · simp [h1, h2]

theorem vecUpd_bits (gi : GI) (T : Bool) (g : G) (p : Nat) :
    ((vecUpd gi T g).vw.testBit p, (vecUpd gi T g).vt.testBit p, (vecUpd gi T g).vzero.testBit p) =
    (if gi.vz.testBit p = true then (false, false, true)
     else if gi.vw.testBit p = true then (true, T, false)
     else cpBits gi g p) := by
  have h2 := cp2_bits gi g p
  simp only at h2
  unfold vecUpd
  simp only [tb_andNot, tb_lor]
  rw [← h2]
  cases hz : gi.vz.testBit p <;> cases hw : gi.vw.testBit p <;> cases T <;> simp [tb_andNot, hw]

theorem vecUpd_sound {s0 : SSt} {φ g gh} {gh' : Gh} (gi : GI) (Tc Ta : Bool) (hT : Tc = true → Ta = true) (hg : GRel s0 φ g gh)
    (hv : VecEff gi Tc gh gh') (p : Nat) :
    ((vecUpd gi Ta g).vw.testBit p = false → gh'.vec p = s0.gh.vec p ∨ gh'.vec p = VV.zero) ∧
    ((vecUpd gi Ta g).vt.testBit p = false → (gh'.vec p).t = false) ∧
    ((vecUpd gi Ta g).vzero.testBit p = true → gh'.vec p = VV.zero) := by
  have hb := vecUpd_bits gi Ta g p
  have hp := hv p
  cases hz : gi.vz.testBit p with
  | true =>
    simp only [hz, if_true] at hb hp
    simp only [Prod.mk.injEq] at hb
    obtain ⟨h1, h2, h3⟩ := hb
    refine ⟨fun _ => Or.inr hp, fun _ => (by rw [hp]; rfl), fun _ => hp⟩
  | false =>
    simp only [hz, Bool.false_eq_true, if_false] at hb hp
    cases hw : gi.vw.testBit p with
    | true =>
      simp only [hw, if_true] at hb hp
      simp only [Prod.mk.injEq] at hb
      obtain ⟨h1, h2, h3⟩ := hb
      refine ⟨fun h => (by rw [h1] at h; cases h), ?_, fun h => (by rw [h3] at h; cases h)⟩
      intro h
      rw [h2] at h
      rw [hp]
      cases hTc : Tc with
      | false => rfl
      | true => have := hT hTc; rw [this] at h; cases h
    | false =>
      simp only [hw, Bool.false_eq_true, if_false] at hb hp
      unfold cpBits at hb
      cases hc : copySrc gi p with
      | none =>
        simp only [hc] at hb hp
        simp only [Prod.mk.injEq] at hb
        obtain ⟨h1, h2, h3⟩ := hb
        rw [h1, h2, h3, hp]
        exact ⟨hg.w p, hg.t p, hg.z p⟩
      | some q =>
        simp only [hc] at hb hp
        simp only [Prod.mk.injEq] at hb
        obtain ⟨h1, h2, h3⟩ := hb
        obtain ⟨hp1, hp2⟩ := hp
        rw [h1, h2, h3]
        refine ⟨?_, ?_, ?_⟩
        · intro h
          have : g.vzero.testBit q = true := by
            cases hx : g.vzero.testBit q with
            | true => rfl
            | false => rw [hx] at h; cases h
          exact Or.inr (hp2 (hg.z q this))
        · intro h; rw [hp1]; exact hg.t q h
        · intro h; exact hp2 (hg.z q h)

def TgtRel (s0 : St) (φ : Nat → Int) : ATgt → Tgt → Prop
  | .no, .no => True
  | .idx, .idx => True
  | .exact b lo hi, .exact lo' hi' => lo' = baseVal s0 φ b + lo ∧ hi' = baseVal s0 φ b + hi
  | _, _ => False

theorem absTgt_sound {s0 : St} {φ a x} {b : Instr} {t : ATgt} (hr : Rel s0 φ a x) (h : absTgt a b = some t) :
    TgtRel s0 φ t (storeTgt b x) := by
  cases b with
  | push r =>
    simp only [absTgt] at h
    cases hs : isStk (get a 4) with
    | false => simp [hs] at h
    | true =>
      simp only [hs, cond_true, Option.some.injEq] at h
      subst h
      have := stk_reg hr hs (by omega : 4 < 16)
      simp only [storeTgt, TgtRel]
      constructor <;> omega
  | pushAny =>
    simp only [absTgt] at h
    cases hs : isStk (get a 4) with
    | false => simp [hs] at h
    | true =>
      simp only [hs, cond_true, Option.some.injEq] at h
      subst h
      have := stk_reg hr hs (by omega : 4 < 16)
      simp only [storeTgt, TgtRel]
      constructor <;> omega
  | store b k r =>
    simp only [absTgt] at h
    cases hs : (isStk (get a b) && Nat.ble b 15) with
    | false => simp [hs] at h
    | true =>
      simp only [hs, cond_true, Option.some.injEq] at h
      subst h
      simp only [Bool.and_eq_true] at hs
      have := stk_reg hr hs.1 (ble15 hs.2)
      simp only [storeTgt, TgtRel]
      constructor <;> omega
  | storeK b k sz =>
    simp only [absTgt] at h
    cases hs : (isStk (get a b) && Nat.ble b 15) with
    | false => simp [hs] at h
    | true =>
      simp only [hs, cond_true, Option.some.injEq] at h
      subst h
      simp only [Bool.and_eq_true] at hs
      have := stk_reg hr hs.1 (ble15 hs.2)
      simp only [storeTgt, TgtRel]
      constructor <;> omega
  | storeIdx b => simp only [absTgt, Option.some.injEq] at h; subst h; simp [storeTgt, TgtRel]
  | _ => simp only [absTgt, Option.some.injEq] at h; subst h; simp [storeTgt, TgtRel]

theorem stkUpd_sound {s0 : SSt} {φ g gh} {gh' : Gh} {gi : GI} {Tc Ta : Bool} {t : ATgt} {tc : Tgt} {D' : List Reg}
    (hT : Tc = true → Ta = true) (hg : GRel s0 φ g gh) (htr : TgtRel s0.x φ t tc) (h : stkUpd gi Ta t g.D = some D')
    (hs : StkEff gi.weak Tc tc gh gh') :
    ∀ y, gh'.stk y = true → InD s0.x φ D' y := by
  intro y hy
  cases t with
  | no =>
    cases tc with
    | no =>
      simp only [stkUpd, Option.some.injEq] at h; subst h
      simp only [StkEff] at hs
      rw [hs y] at hy; exact hg.d y hy
    | exact _ _ => exact htr.elim
    | idx => exact htr.elim
  | idx =>
    cases tc with
    | idx =>
      simp only [stkUpd] at h
      cases hTa : Ta with
      | true => simp [hTa] at h
      | false =>
        simp only [hTa, cond_false, Option.some.injEq] at h; subst h
        simp only [StkEff] at hs
        rcases hs y hy with h1 | h1
        · exact hg.d y h1
        · have := hT h1; rw [hTa] at this; cases this
    | no => exact htr.elim
    | exact _ _ => exact htr.elim
  | exact b lo hi =>
    cases tc with
    | exact lo' hi' =>
      obtain ⟨hlo, hhi⟩ := htr
      simp only [stkUpd] at h
      simp only [StkEff] at hs
      cases hTa : Ta with
      | true =>
        simp only [hTa, cond_true, Option.some.injEq] at h; subst h
        by_cases hin : lo' ≤ y ∧ y < hi'
        · exact ⟨(b, lo, hi), List.mem_cons_self, by simp only; omega, by simp only; omega⟩
        · apply inD_cons
          apply hg.d
          cases hw : gi.weak with
          | true =>
            simp only [hw, if_true] at hs
            rcases hs y hy with h1 | ⟨_, h2, h3⟩
            · exact h1
            · exact absurd ⟨h2, h3⟩ hin
          | false =>
            simp only [hw, Bool.false_eq_true, if_false] at hs
            rw [hs y, if_neg hin] at hy; exact hy
      | false =>
        have hTc : Tc = false := by
          cases hx : Tc with
          | false => rfl
          | true => have := hT hx; rw [hTa] at this; cases this
        simp only [hTa, cond_false] at h
        cases hw : gi.weak with
        | true =>
          simp only [hw, cond_true, Option.some.injEq] at h; subst h
          simp only [hw, if_true] at hs
          rcases hs y hy with h1 | ⟨h2, _⟩
          · exact hg.d y h1
          · rw [hTc] at h2; cases h2
        | false =>
          simp only [hw, cond_false, Option.some.injEq] at h; subst h
          simp only [hw, Bool.false_eq_true, if_false] at hs
          have hy' := hy
          rw [hs y] at hy'
          by_cases hin : lo' ≤ y ∧ y < hi'
          · rw [if_pos hin, hTc] at hy'; cases hy'
          · rw [if_neg hin] at hy'
            apply cutD_sound _ _ _ _ _ (hg.d y hy')
            rw [← hlo, ← hhi]; exact hin
    | no => exact htr.elim
    | idx => exact htr.elim

theorem gflow_sound {s0 : SSt} {φ a x g gh gh'} {i : SInstr} {g' : G}
    (hr : Rel s0.x φ a x) (hg : GRel s0 φ g gh) (hf : FlowG i x gh gh') (h : gflow a i g = some g') :
    GRel s0 φ g' gh' ∧ frameOK i.b g'.D = true := by
  obtain ⟨Tc, hTc, hv, hsc, hst, hxe⟩ := hf
  unfold gflow at h
  cases hm : memT a i.g g with
  | none => simp [hm] at h
  | some mt =>
    simp only [hm] at h
    cases ht : absTgt a i.b with
    | none => simp [ht] at h
    | some t =>
      simp only [ht] at h
      cases hu : stkUpd i.g (srcT i.g g mt) t g.D with
      | none => simp [hu] at h
      | some D' =>
        simp only [hu] at h
        cases hfo : frameOK i.b D' with
        | false => simp [hfo] at h
        | true =>
          simp only [hfo, cond_true, Option.some.injEq] at h
          subst h
          have hT : Tc = true → srcT i.g g mt = true := fun e => srcT_sound hr hg hm (hTc.mp e)
          refine ⟨⟨?_, ?_, ?_, ?_, ?_, ?_⟩, hfo⟩
          · intro p; exact (vecUpd_sound i.g Tc _ hT hg hv p).1
          · intro p; exact (vecUpd_sound i.g Tc _ hT hg hv p).2.1
          · intro p; exact (vecUpd_sound i.g Tc _ hT hg hv p).2.2
          · intro r hrr
            simp only at hrr
            rw [hsc r]
            cases hTa : srcT i.g g mt with
            | true =>
              rw [hTa] at hrr
              simp only [cond_true, tb_lor, Bool.or_eq_false_iff] at hrr
              rw [hrr.2]; simp only [Bool.false_eq_true, if_false]
              exact hg.s r hrr.1
            | false =>
              rw [hTa] at hrr
              simp only [cond_false, tb_andNot] at hrr
              have hTcf : Tc = false := by
                cases hx : Tc with
                | false => rfl
                | true => have := hT hx; rw [hTa] at this; cases this
              cases hgw : i.g.gw.testBit r with
              | true => simp only [if_true]; exact hTcf
              | false =>
                simp only [Bool.false_eq_true, if_false]
                rw [hgw] at hrr
                simp only [Bool.not_false, Bool.and_true] at hrr
                exact hg.s r hrr
          · exact stkUpd_sound hT hg (absTgt_sound hr ht) hu hst
          · exact xpUpd_sound hr hg hm hxe

theorem gcall_sound {s0 : SSt} {φ a g gh gh'} {cx : GCtx} {f : Nat} {g' : G}
    (hg : GRel s0 φ g gh) (hc : ∀ cm, cx.vtab f = some cm → CallG cm gh gh')
    (h : gcall a cx f g = some g') : GRel s0 φ g' gh' := by
  unfold gcall at h
  cases hv : cx.vtab f with
  | none => simp [hv] at h
  | some cm =>
    simp only [hv] at h
    have hcall : CallG cm gh gh' := hc cm hv
    cases hsb : sbOK a (cx.sigs f) with
    | false => simp [hsb] at h
    | true =>
      simp only [hsb, cond_true, Option.some.injEq] at h
      subst h
      obtain ⟨h1, h2, h3, _⟩ := hcall
      constructor
      · intro p hp
        simp only [tb_lor, Bool.or_eq_false_iff] at hp
        have := h1 p
        simp only [hp.2, Bool.false_eq_true, if_false] at this
        rcases this with e | e
        · rw [e]; exact hg.w p hp.1
        · exact Or.inr e
      · intro p hp
        simp only at hp
        have := h1 p
        by_cases hcm : cm.testBit p = true
        · simp only [hcm, if_true] at this
          rcases this with e | e
          · exact e
          · rw [e]; exact hg.t p hp
        · simp only [hcm] at this
          rcases this with e | e
          · rw [e]; exact hg.t p hp
          · rw [e]; rfl
      · intro p hp
        simp only [tb_andNot, Bool.and_eq_true, Bool.not_eq_true'] at hp
        have := h1 p
        simp only [hp.2, Bool.false_eq_true, if_false] at this
        rcases this with e | e
        · rw [e]; exact hg.z p hp.1
        · exact e
      · intro r hrr
        simp only [tb_lor, Bool.or_eq_false_iff] at hrr
        rw [h2 r hrr.2]; exact hg.s r hrr.1
      · intro y hy; exact hg.d y (h3 y hy)
      · intro hne; exact absurd rfl hne

theorem exitG_sound {s0 : SSt} {φ g gh} {cm : Nat} (h : exitG g cm = true) (hg : GRel s0 φ g gh) :
    (∀ p, cm.testBit p = false → gh.vec p = s0.gh.vec p ∨ gh.vec p = VV.zero) ∧
    (∀ p, (gh.vec p).t = false) ∧ (∀ y, gh.stk y = false) := by
  unfold exitG at h
  simp only [Bool.and_eq_true] at h
  obtain ⟨⟨h1, h2⟩, h3⟩ := h
  refine ⟨?_, ?_, ?_⟩
  · intro p hp; exact hg.w p (not_of_subset h3 p hp)
  · intro p; apply hg.t p; rw [Nat.eq_of_beq_eq_true h1]; exact Nat.zero_testBit p
  · intro y
    cases hy : gh.stk y with
    | false => rfl
    | true =>
      obtain ⟨r, hr, _⟩ := hg.d y hy
      cases hD : g.D with
      | nil => rw [hD] at hr; cases hr
      | cons _ _ => rw [hD] at h2; simp at h2

theorem grel_init (s0 : SSt) (φ : Nat → Int) (sig : Nat) (hi : GInit sig s0.gh) : GRel s0 φ (initG sig) s0.gh := by
  obtain ⟨h1, h2, h3, _⟩ := hi
  constructor
  · intro p _; exact Or.inl rfl
  · intro p _; exact h1 p
  · intro p hp; simp only [initG, Nat.zero_testBit] at hp; cases hp
  · intro r hr; exact h2 r hr
  · intro y hy; rw [h3 y] at hy; cases hy
  · intro hne; exact absurd rfl hne

def isFlow : Instr → Bool
  | .label _ => false
  | .jmp _ => false
  | .jcc _ => false
  | .ret => false
  | .tail _ => false
  | .tailInd => false
  | .trap => false
  | .call _ => false
  | _ => true

theorem nextG_flow {cx : GCtx} {i : SInstr} (h : isFlow i.b = true) (a : A) (g : G) :
    nextG cx i (some a) (some g) = (gflow a i g).map some := by
  unfold nextG
  generalize i.b = b at h
  cases b <;> first | rfl | cases h

theorem gstep_flow {vt : Nat → Option Nat} {i : SInstr} (h : isFlow i.b = true) (x : St) (gh gh' : Gh) :
    GStep vt i x gh gh' = FlowG i x gh gh' := by
  unfold GStep
  generalize i.b = b at h
  cases b <;> first | rfl | cases h

/-! ## the threaded checker -/

theorem andNot_zero_right (x : Nat) : andNot x 0 = x := by
  unfold andNot
  show x ^^^ (x &&& 0) = x
  simp

theorem cancelA_vec (vz vw vr e : Nat) : cancelA (vecGI vz vw vr) e = none := by
  unfold cancelA vecGI
  cases Nat.beq e 0 <;> rfl

theorem xpUpd_vec (vz vw vr : Nat) (g : G) (mt : Bool) :
    xpUpd (vecGI vz vw vr) g mt =
      (bif Nat.beq g.xp 0 then 0
       else bif bit vz (xpP g.xp) || bit vw (xpP g.xp) || bit vz (xpQ g.xp) || bit vw (xpQ g.xp) then 0 else g.xp) := by
  simp only [xpUpd, vecGI, writesPartA, Bool.false_and, Bool.or_false]
  have : (Nat.beq 0 1 && !Nat.beq 0 0 && Nat.ble 0 63 && Nat.ble 0 63) = false := by decide
  rw [this]
  simp only [cond_false, Bool.or_assoc]

theorem gflow_vec (a : A) (vz vw vr : Nat) (g : G) : gflow a (.vec vz vw vr) g = some (vecFast vz vw vr g) := by
  have h0 : nz (Nat.land g.gT 0) = false := by
    show nz (g.gT &&& 0) = false
    simp [nz]
  have hl : Nat.lor g.gT 0 = g.gT := by show g.gT ||| 0 = g.gT; simp
  have hx := xpUpd_vec vz vw vr g false
  simp only [gflow, SInstr.g, SInstr.b, memT, srcT, cancelA_vec, absTgt, stkUpd, frameOK]
  unfold vecGI at hx
  simp only [vecGI, h0, vecUpd, cpPart, vecFast, Bool.not_false, Bool.true_and, Bool.or_false, cond_false, cond_true, hl,
    andNot_zero_right, hx]
  cases nz (Nat.land g.vt vr) <;> simp only [cond_true, cond_false]

/-- the general equation of the checker (the short vector form takes a fast path that computes the same) -/
theorem chk2_cons (ctx : Ctx) (cx : GCtx) (i : SInstr) (is : List SInstr) (st : Option A) (gs : Option G) :
    chk2 ctx cx (i :: is) st gs =
      match nextB ctx i.b st, nextG cx i st gs with
      | some st', some gs' => chk2 ctx cx is st' gs'
      | _, _ => false := by
  cases i with
  | gen b gi => rfl
  | vec vz vw vr =>
    cases st with
    | none => cases gs <;> rfl
    | some a =>
      cases gs with
      | none => rfl
      | some g =>
        have h1 : nextB ctx (SInstr.vec vz vw vr).b (some a) = some (some a) := rfl
        have h2 : nextG cx (SInstr.vec vz vw vr) (some a) (some g) = some (some (vecFast vz vw vr g)) := by
          rw [nextG_flow (by rfl)]
          rw [gflow_vec]; rfl
        rw [h1, h2]
        rfl

def run2 (ctx : Ctx) (cx : GCtx) : List SInstr → Option A → Option G → Option (Option A × Option G)
  | [], st, gs => some (st, gs)
  | i :: is, st, gs =>
    match nextB ctx i.b st, nextG cx i st gs with
    | some st', some gs' => run2 ctx cx is st' gs'
    | _, _ => none

theorem chk2_split {ctx : Ctx} {cx : GCtx} (l1 l2 : List SInstr) (st : Option A) (gs : Option G)
    (h : chk2 ctx cx (l1 ++ l2) st gs = true) :
    ∃ st1 gs1, run2 ctx cx l1 st gs = some (st1, gs1) ∧ chk2 ctx cx l2 st1 gs1 = true := by
  induction l1 generalizing st gs with
  | nil => exact ⟨st, gs, rfl, h⟩
  | cons i is ih =>
    simp only [List.cons_append, chk2_cons] at h
    cases hn : nextB ctx i.b st with
    | none => simp [hn] at h
    | some st' =>
      cases hg : nextG cx i st gs with
      | none => simp [hn, hg] at h
      | some gs' =>
        simp only [hn, hg] at h
        obtain ⟨st1, gs1, h1, h2⟩ := ih st' gs' h
        exact ⟨st1, gs1, by simp [run2, hn, hg, h1], h2⟩

theorem run2_snoc {ctx : Ctx} {cx : GCtx} (l : List SInstr) (i : SInstr) (st st1 st2 : Option A) (gs gs1 gs2 : Option G)
    (h1 : run2 ctx cx l st gs = some (st1, gs1)) (h2 : nextB ctx i.b st1 = some st2) (h3 : nextG cx i st1 gs1 = some gs2) :
    run2 ctx cx (l ++ [i]) st gs = some (st2, gs2) := by
  induction l generalizing st gs with
  | nil => simp [run2] at h1; obtain ⟨rfl, rfl⟩ := h1; simp [run2, h2, h3]
  | cons j js ih =>
    simp only [run2] at h1
    cases hn : nextB ctx j.b st with
    | none => simp [hn] at h1
    | some st' =>
      cases hg : nextG cx j st gs with
      | none => simp [hn, hg] at h1
      | some gs' =>
        simp only [hn, hg] at h1
        simp only [List.cons_append, run2, hn, hg]
        exact ih st' gs' h1

theorem at_pc2 {ctx : Ctx} {cx : GCtx} {P : List SInstr} (hc : chk2 ctx cx P none none = true) {pc : Nat} {i : SInstr}
    (hi : P[pc]? = some i) :
    ∃ st1 gs1 st2 gs2, run2 ctx cx (P.take pc) none none = some (st1, gs1) ∧ nextB ctx i.b st1 = some st2 ∧
      nextG cx i st1 gs1 = some gs2 ∧ run2 ctx cx (P.take (pc + 1)) none none = some (st2, gs2) := by
  obtain ⟨hlt, hget⟩ := List.getElem?_eq_some_iff.mp hi
  have hsplit : P = P.take pc ++ (i :: P.drop (pc + 1)) := by
    rw [← hget, ← List.drop_eq_getElem_cons hlt, List.take_append_drop]
  have hc' := hc
  rw [hsplit] at hc'
  obtain ⟨st1, gs1, h1, h2⟩ := chk2_split _ _ _ _ hc'
  simp only [chk2_cons] at h2
  cases hn : nextB ctx i.b st1 with
  | none => simp [hn] at h2
  | some st2 =>
    cases hg : nextG cx i st1 gs1 with
    | none => simp [hn, hg] at h2
    | some gs2 =>
      refine ⟨st1, gs1, st2, gs2, h1, hn, hg, ?_⟩
      have : P.take (pc + 1) = P.take pc ++ [i] := by
        rw [List.take_add_one, hi]; rfl
      rw [this]
      exact run2_snoc _ _ _ _ _ _ _ _ h1 hn hg

theorem bcode_get {P : List SInstr} {pc : Nat} {i : SInstr} (h : P[pc]? = some i) : (bcode P)[pc]? = some i.b := by
  simp [bcode, h]

theorem bcode_get' {P : List SInstr} {pc : Nat} {b : Instr} (h : (bcode P)[pc]? = some b) : ∃ i, P[pc]? = some i ∧ i.b = b := by
  simp only [bcode, List.getElem?_map, Option.map_eq_some_iff] at h
  exact h

theorem step_jmp {tab : Nat → Nat} {code : List Instr} {s s' : St} {t : Nat} (h : Step tab code s s')
    (hi : code[s.pc]? = some (.jmp t)) : code[s'.pc]? = some (.label t) ∧ s'.regs = s.regs ∧ s'.mem = s.mem := by
  cases h with
  | jmp hi' hl => rw [hi] at hi'; cases hi'; exact ⟨labelIdx_get hl, rfl, rfl⟩
  | _ => simp_all

theorem step_jcc {tab : Nat → Nat} {code : List Instr} {s s' : St} {t : Nat} (h : Step tab code s s')
    (hi : code[s.pc]? = some (.jcc t)) :
    (code[s'.pc]? = some (.label t) ∨ s'.pc = s.pc + 1) ∧ s'.regs = s.regs ∧ s'.mem = s.mem := by
  cases h with
  | jccT hi' hl => rw [hi] at hi'; cases hi'; exact ⟨Or.inl (labelIdx_get hl), rfl, rfl⟩
  | jccF hi' => exact ⟨Or.inr rfl, rfl, rfl⟩
  | _ => simp_all

theorem step_noexit {tab : Nat → Nat} {code : List Instr} {s s' : St} {i : Instr} (h : Step tab code s s')
    (hi : code[s.pc]? = some i) :
    i ≠ .ret ∧ (∀ g, i ≠ .tail g) ∧ i ≠ .tailInd ∧ i ≠ .trap := by
  cases h <;> simp_all <;> subst_vars <;> simp

theorem step_fall {tab : Nat → Nat} {code : List Instr} {s s' : St} {i : Instr} (h : Step tab code s s')
    (hi : code[s.pc]? = some i) (h1 : ∀ t, i ≠ .jmp t) (h2 : ∀ t, i ≠ .jcc t) : s'.pc = s.pc + 1 := by
  cases h with
  | jmp hi' hl => rw [hi] at hi'; cases hi'; exact absurd rfl (h1 _)
  | jccT hi' hl => rw [hi] at hi'; cases hi'; exact absurd rfl (h2 _)
  | _ => rfl

theorem bit_zero (r : Nat) : bit 0 r = false := by rw [bit_eq_testBit]; exact Nat.zero_testBit r

/-- a record without GPR effect preserves the X86Abs simulation relation -/
theorem step_plain00 {tab : Nat → Nat} {code : List Instr} {s s' : St} {s0 : St} {φ a} (h : Step tab code s s')
    (hi : code[s.pc]? = some (.plain 0 0)) (hr : Rel s0 φ a s) : Rel s0 φ a s' := by
  cases h with
  | plain regs' hi' hregs =>
    rw [hi] at hi'; cases hi'
    constructor
    · intro r hlt
      show ValOK s0 φ (get a r) (regs' r)
      rw [hregs r (bit_zero r)]; exact hr.1 r hlt
    · exact hr.2
  | _ => simp_all

/-! ## one step of the paired checker -/

theorem frameOK_other {b : Instr} (h : ∀ f m, b ≠ .andRsp f m) (D : List Reg) : frameOK b D = true := by
  cases b <;> first | rfl | exact absurd rfl (h _ _)

theorem nextB_label {ctx : Ctx} (t : Nat) (st : Option A) : nextB ctx (.label t) st = nextSt ctx (.label t) st := by
  cases st <;> rfl

/-- base part of a step from a non-label record -/
theorem nextB_sound {ctx : Ctx} {code : List Instr} {s0 s s' : St} {φ : Nat → Int} {a : A} {b : Instr} {st2 : Option A}
    (hbs : Step ctx.tab code s s') (hib : code[s.pc]? = some b) (hnl : ∀ t, b ≠ .label t)
    (h2 : nextB ctx b (some a) = some st2) (hf : FrOK ctx.frames s0 φ) (hr : Rel s0 φ a s) :
    PostF ctx code s0 s.pc b φ st2 s' := by
  have gen : nextSt ctx b (some a) = some st2 → PostF ctx code s0 s.pc b φ st2 s' := by
    intro h
    rw [nextSt_nonlabel hnl] at h
    exact (step1_soundF hbs hib h hf hr).1
  cases b with
  | plain w sb =>
    simp only [nextB] at h2
    cases hz : (Nat.beq w 0 && Nat.beq sb 0) with
    | false => rw [hz] at h2; exact gen h2
    | true =>
      rw [hz] at h2
      simp only [cond_true, Option.some.injEq] at h2
      subst h2
      simp only [Bool.and_eq_true] at hz
      have hw : w = 0 := Nat.eq_of_beq_eq_true hz.1
      have hsb : sb = 0 := Nat.eq_of_beq_eq_true hz.2
      subst hw; subst hsb
      have hpc := step_fall hbs hib (by intro t e; cases e) (by intro t e; cases e)
      exact Or.inl ⟨hpc, a, φ, rfl, hf, FrStep.rfl _ _, step_plain00 hbs hib hr⟩
  | _ => exact gen h2

/-- where the ghost part of a step lands -/
def GPost (cx : GCtx) (code : List Instr) (s0 : SSt) (φ' : Nat → Int) (pc : Nat) (gs2 : Option G) (pc' : Nat) (gh' : Gh) : Prop :=
  (pc' = pc + 1 ∧ ∃ g', gs2 = some g' ∧ GRel s0 φ' g' gh') ∨
  (∃ t gc, code[pc']? = some (.label t) ∧ cx.gcert t = some gc ∧ GRel s0 φ' gc gh')

theorem nextG_sound {ctx : Ctx} {cx : GCtx} {code : List Instr} {s0 : SSt} {s s' : St} {gh gh' : Gh} {φ φ' : Nat → Int}
    {a : A} {g : G} {i : SInstr} {gs2 : Option G}
    (hbs : Step ctx.tab code s s') (hib : code[s.pc]? = some i.b) (hnl : ∀ t, i.b ≠ .label t)
    (hgs : GStep cx.vtab i s gh gh') (h3 : nextG cx i (some a) (some g) = some gs2)
    (hr : Rel s0.x φ a s) (hgr : GRel s0 φ g gh) (hfs : FrStep i.b φ φ') :
    GPost cx code s0 φ' s.pc gs2 s'.pc gh' := by
  have tr : ∀ {g1 gh1}, GRel s0 φ g1 gh1 → frameOK i.b g1.D = true → GRel s0 φ' g1 gh1 :=
    fun h1 h2 => grel_frame h1 (fun r hr' => frstep_base hfs h2 s0.x r hr')
  by_cases hfl : isFlow i.b = true
  · rw [nextG_flow hfl] at h3
    rw [gstep_flow hfl] at hgs
    cases hgf : gflow a i g with
    | none => simp [hgf] at h3
    | some g' =>
      simp only [hgf, Option.map_some, Option.some.injEq] at h3
      subst h3
      obtain ⟨h1, h2⟩ := gflow_sound hr hgr hgs hgf
      have hpc := step_fall hbs hib (by intro t e; rw [e] at hfl; cases hfl) (by intro t e; rw [e] at hfl; cases hfl)
      exact Or.inl ⟨hpc, g', rfl, tr h1 h2⟩
  · obtain ⟨hn1, hn2, hn3, hn4⟩ := step_noexit hbs hib
    unfold nextG at h3
    unfold GStep at hgs
    generalize hbe : i.b = b at hib hnl hfs tr hfl hn1 hn2 hn3 hn4 h3 hgs
    cases b with
    | label t => exact absurd rfl (hnl t)
    | jmp t =>
      simp only [GStepb] at hgs
      subst hgs
      simp only [nextGb] at h3
      cases hc : cx.gcert t with
      | none => simp [hc] at h3
      | some c =>
        simp only [hc] at h3
        cases hle : leG g c with
        | false => simp [hle] at h3
        | true =>
          exact Or.inr ⟨t, c, (step_jmp hbs hib).1, hc, tr (leG_sound hle hgr) rfl⟩
    | jcc t =>
      simp only [GStepb] at hgs
      subst hgs
      simp only [nextGb] at h3
      cases hc : cx.gcert t with
      | none => simp [hc] at h3
      | some c =>
        simp only [hc] at h3
        cases hle : leG g c with
        | false => simp [hle] at h3
        | true =>
          simp only [hle, cond_true, Option.some.injEq] at h3
          subst h3
          rcases (step_jcc hbs hib).1 with hl | hpc
          · exact Or.inr ⟨t, c, hl, hc, tr (leG_sound hle hgr) rfl⟩
          · exact Or.inl ⟨hpc, g, rfl, tr hgr rfl⟩
    | ret => exact absurd rfl hn1
    | tail f => exact absurd rfl (hn2 f)
    | tailInd => exact absurd rfl hn3
    | trap => exact absurd rfl hn4
    | call f =>
      simp only [nextGb] at h3
      cases hgc : gcall a cx f g with
      | none => simp [hgc] at h3
      | some g' =>
        simp only [hgc, Option.map_some, Option.some.injEq] at h3
        subst h3
        have hpc := step_fall hbs hib (by intro t e; cases e) (by intro t e; cases e)
        have hcall : ∀ cm, cx.vtab f = some cm → CallG cm gh gh' := by
          intro cm hcm
          simp only [GStepb, hcm] at hgs
          exact hgs
        exact Or.inl ⟨hpc, g', rfl, tr (gcall_sound hgr hcall hgc) rfl⟩
    | _ => exact absurd rfl hfl

/-! ## the invariant -/

theorem nextG_label {cx : GCtx} {i : SInstr} {t : Nat} (hb : i.b = .label t) {st : Option A} {gs gs2 : Option G}
    (h : nextG cx i st gs = some gs2) :
    ∃ c, cx.gcert t = some c ∧ gs2 = some c ∧ ∀ g, gs = some g → leG g c = true := by
  unfold nextG at h
  rw [hb] at h
  simp only [nextGb] at h
  cases hc : cx.gcert t with
  | none => simp [hc] at h
  | some c =>
    simp only [hc] at h
    cases gs with
    | none =>
      simp at h
      exact ⟨c, rfl, h.symm, by intro g hg; cases hg⟩
    | some g =>
      simp only at h
      cases hle : leG g c with
      | false => simp [hle] at h
      | true =>
        simp [hle] at h
        exact ⟨c, rfl, h.symm, by intro g' hg'; cases hg'; exact hle⟩

/-- certificates at labels, threaded states elsewhere -/
def Inv2 (ctx : Ctx) (cx : GCtx) (P : List SInstr) (s0 s : SSt) : Prop :=
  (∀ i t, P[s.x.pc]? = some i → i.b = .label t →
      ∃ φ c gc, FrOK ctx.frames s0.x φ ∧ ctx.cert t = some c ∧ Rel s0.x φ c s.x ∧
        cx.gcert t = some gc ∧ GRel s0 φ gc s.gh) ∧
  (∀ i, P[s.x.pc]? = some i → (∀ t, i.b ≠ .label t) →
      ∃ φ a g, FrOK ctx.frames s0.x φ ∧ run2 ctx cx (P.take s.x.pc) none none = some (some a, some g) ∧
        Rel s0.x φ a s.x ∧ GRel s0 φ g s.gh)

theorem land2 {ctx : Ctx} {cx : GCtx} {P : List SInstr} (hc : chk2 ctx cx P none none = true) {s0 s' : SSt} {pc : Nat}
    {st2 : Option A} {gs2 : Option G} {φ : Nat → Int}
    (hrun : run2 ctx cx (P.take (pc + 1)) none none = some (st2, gs2)) (hf : FrOK ctx.frames s0.x φ)
    (hB : (s'.x.pc = pc + 1 ∧ ∃ a', st2 = some a' ∧ Rel s0.x φ a' s'.x) ∨
          (∃ t c, (bcode P)[s'.x.pc]? = some (.label t) ∧ ctx.cert t = some c ∧ Rel s0.x φ c s'.x))
    (hG : GPost cx (bcode P) s0 φ pc gs2 s'.x.pc s'.gh) : Inv2 ctx cx P s0 s' := by
  constructor
  · intro i t hi hb
    have hib := bcode_get hi
    rw [hb] at hib
    -- base certificate
    have hbase : ∃ c, ctx.cert t = some c ∧ Rel s0.x φ c s'.x := by
      rcases hB with ⟨hpc, a', rfl, hr⟩ | ⟨t', c, hl, hcert, hr⟩
      · rw [hpc] at hi
        obtain ⟨st1, gs1, st3, gs3, h1, h2, _, _⟩ := at_pc2 hc hi
        rw [hrun] at h1; cases h1
        rw [hb, nextB_label] at h2
        obtain ⟨c, hcc, _, hle⟩ := nextSt_label h2
        exact ⟨c, hcc, rel_le hr (hle a' rfl)⟩
      · rw [hib] at hl; cases hl
        exact ⟨c, hcert, hr⟩
    have hghost : ∃ gc, cx.gcert t = some gc ∧ GRel s0 φ gc s'.gh := by
      rcases hG with ⟨hpc, g', rfl, hgr⟩ | ⟨t', gc, hl, hcert, hgr⟩
      · rw [hpc] at hi
        obtain ⟨st1, gs1, st3, gs3, h1, _, h3, _⟩ := at_pc2 hc hi
        rw [hrun] at h1; cases h1
        obtain ⟨c, hcc, _, hle⟩ := nextG_label hb h3
        exact ⟨c, hcc, leG_sound (hle g' rfl) hgr⟩
      · rw [hib] at hl; cases hl
        exact ⟨gc, hcert, hgr⟩
    obtain ⟨c, h1, h2⟩ := hbase
    obtain ⟨gc, h3, h4⟩ := hghost
    exact ⟨φ, c, gc, hf, h1, h2, h3, h4⟩
  · intro i hi hnl
    have hib := bcode_get hi
    rcases hB with ⟨hpc, a', rfl, hr⟩ | ⟨t', c, hl, _, _⟩
    · rcases hG with ⟨_, g', rfl, hgr⟩ | ⟨t', gc, hl, _, _⟩
      · exact ⟨φ, a', g', hf, by rw [hpc]; exact hrun, hr, hgr⟩
      · rw [hib] at hl; exact absurd (Option.some.inj hl) (hnl t')
    · rw [hib] at hl; exact absurd (Option.some.inj hl) (hnl t')

theorem inv_step2 {ctx : Ctx} {cx : GCtx} {P : List SInstr} (hc : chk2 ctx cx P none none = true) {s0 b c : SSt}
    (hinv : Inv2 ctx cx P s0 b) (hstep : SStep ctx.tab cx.vtab P b c) : Inv2 ctx cx P s0 c := by
  obtain ⟨i, hi, hbs, hgs⟩ := hstep
  have hib := bcode_get hi
  by_cases hl : ∃ t, i.b = .label t
  · obtain ⟨t, ht⟩ := hl
    obtain ⟨φ, cst, gc, hf, hcert, hr, hgcert, hgr⟩ := hinv.1 i t hi ht
    obtain ⟨st1, gs1, st2, gs2, _, h2, h3, h4⟩ := at_pc2 hc hi
    rw [ht, nextB_label] at h2
    obtain ⟨c', hcc, hst2, _⟩ := nextSt_label h2
    rw [hcert] at hcc; cases hcc
    obtain ⟨gc', hgcc, hgs2, _⟩ := nextG_label ht h3
    rw [hgcert] at hgcc; cases hgcc
    rw [ht] at hib
    have hc' := step_label hbs hib
    have hgh : c.gh = b.gh := by
      unfold GStep at hgs
      rw [ht] at hgs
      simpa [GStepb] using hgs
    refine land2 hc h4 hf (Or.inl ⟨by rw [hc'], cst, hst2, ?_⟩) (Or.inl ⟨by rw [hc'], gc, hgs2, by rw [hgh]; exact hgr⟩)
    rw [hc']; exact hr
  · have hnl : ∀ t, i.b ≠ .label t := fun t e => hl ⟨t, e⟩
    obtain ⟨φ, a, g, hf, hrun, hr, hgr⟩ := hinv.2 i hi hnl
    obtain ⟨st1, gs1, st2, gs2, h1, h2, h3, h4⟩ := at_pc2 hc hi
    rw [hrun] at h1; cases h1
    have hpost := nextB_sound hbs hib hnl h2 hf hr
    rcases hpost with ⟨hpc, a', φ', rfl, hf', hfs, hr'⟩ | ⟨t, cst, φ', hlab, hcert, hf', hfs, hr'⟩
    · have hg := nextG_sound hbs hib hnl hgs h3 hr hgr hfs
      exact land2 hc h4 hf' (Or.inl ⟨hpc, a', rfl, hr'⟩) hg
    · have hg := nextG_sound hbs hib hnl hgs h3 hr hgr hfs
      exact land2 hc h4 hf' (Or.inr ⟨t, cst, hlab, hcert, hr'⟩) hg

/-- every reachable state satisfies the invariant -/
theorem invariant2 {ctx : Ctx} {cx : GCtx} {P : List SInstr} {entry : Nat} (h : checkScrub ctx cx P entry = true)
    {s0 s : SSt} (h0 : labelIdx (bcode P) entry = some s0.x.pc) (hi0 : GInit cx.sig s0.gh)
    (hs : SSteps ctx.tab cx.vtab P s0 s) : Inv2 ctx cx P s0 s := by
  unfold checkScrub at h
  simp only [Bool.and_eq_true] at h
  obtain ⟨⟨⟨hinit, hginit⟩, _⟩, hc⟩ := h
  induction hs with
  | refl =>
    have hlab := labelIdx_get h0
    obtain ⟨i0, hi0', hb0⟩ := bcode_get' hlab
    cases hce : ctx.cert entry with
    | none => simp [hce] at hinit
    | some c =>
      cases hge : cx.gcert entry with
      | none => simp [hge] at hginit
      | some gc =>
        simp only [hce] at hinit
        simp only [hge] at hginit
        constructor
        · intro i t hi ht
          rw [hi0'] at hi; cases hi
          rw [hb0] at ht; cases ht
          exact ⟨phi0 ctx.frames s0.x, c, gc, frOK_phi0 _ _, hce, rel_le (rel_init s0.x _) hinit, hge,
            leG_sound hginit (grel_init s0 _ _ hi0)⟩
        · intro i hi hnl
          rw [hi0'] at hi; cases hi
          exact absurd hb0 (hnl entry)
  | tail _ hstep ih => exact inv_step2 hc ih hstep

/-! ## the soundness theorem -/

/-- **Soundness of the Scrub certificate checker.**  If `checkScrub` accepts, then in every state `s` that is
reachable from an entry state `s0` (pc at the entry label; registers, memory and vector registers arbitrary;
ghost state: nothing tainted except the key-pointer arguments `cx.sig`) and in which control is about to
leave the function (`ret`, tail jump, dispatch stub):
1. every vector part outside the summary `cx.cm` holds its entry value or zero;
2. no vector part is tainted;
3. no stack byte is tainted;
4. a tail jump / dispatch only targets functions whose summary is included in this function's. -/
theorem checkScrub_sound {ctx : Ctx} {cx : GCtx} {P : List SInstr} {entry : Nat} (h : checkScrub ctx cx P entry = true)
    {s0 s : SSt} (h0 : labelIdx (bcode P) entry = some s0.x.pc) (hi0 : GInit cx.sig s0.gh)
    (hs : SSteps ctx.tab cx.vtab P s0 s) (hex : AtExit (bcode P) s.x) :
    (∀ p, cx.cm.testBit p = false → s.gh.vec p = s0.gh.vec p ∨ s.gh.vec p = VV.zero) ∧
    (∀ p, (s.gh.vec p).t = false) ∧
    (∀ y, s.gh.stk y = false) ∧
    (∀ f, (bcode P)[s.x.pc]? = some (.tail f) → ∃ m, cx.vtab f = some m ∧ ∀ p, m.testBit p = true → cx.cm.testBit p = true) ∧
    ((bcode P)[s.x.pc]? = some .tailInd → ∃ m, cx.indcm = some m ∧ ∀ p, m.testBit p = true → cx.cm.testBit p = true) := by
  have hinv := invariant2 h h0 hi0 hs
  have hc : chk2 ctx cx P none none = true := by
    unfold checkScrub at h; simp only [Bool.and_eq_true] at h; exact h.2
  have core : ∀ b, (bcode P)[s.x.pc]? = some b → (∀ t, b ≠ .label t) →
      ∃ i φ a g gs2, i.b = b ∧ GRel s0 φ g s.gh ∧ nextG cx i (some a) (some g) = some gs2 := by
    intro b hb hnl
    obtain ⟨i, hi, hbe⟩ := bcode_get' hb
    obtain ⟨φ, a, g, hf, hrun, hr, hgr⟩ := hinv.2 i hi (by rw [hbe]; exact hnl)
    obtain ⟨st1, gs1, st2, gs2, h1, _, h3, _⟩ := at_pc2 hc hi
    rw [hrun] at h1; cases h1
    exact ⟨i, φ, a, g, gs2, hbe, hgr, h3⟩
  have exit_of : ∀ {φ g}, GRel s0 φ g s.gh → exitG g cx.cm = true →
      (∀ p, cx.cm.testBit p = false → s.gh.vec p = s0.gh.vec p ∨ s.gh.vec p = VV.zero) ∧
      (∀ p, (s.gh.vec p).t = false) ∧ (∀ y, s.gh.stk y = false) := fun hgr he => exitG_sound he hgr
  have main : (∀ p, cx.cm.testBit p = false → s.gh.vec p = s0.gh.vec p ∨ s.gh.vec p = VV.zero) ∧
      (∀ p, (s.gh.vec p).t = false) ∧ (∀ y, s.gh.stk y = false) := by
    rcases hex with hb | hb | ⟨f, hb⟩
    · obtain ⟨i, φ, a, g, gs2, hbe, hgr, h3⟩ := core _ hb (by intro t e; cases e)
      unfold nextG at h3; rw [hbe] at h3
      simp only [nextGb] at h3
      cases he : exitG g cx.cm with
      | false => simp [he] at h3
      | true => exact exit_of hgr he
    · obtain ⟨i, φ, a, g, gs2, hbe, hgr, h3⟩ := core _ hb (by intro t e; cases e)
      unfold nextG at h3; rw [hbe] at h3
      simp only [nextGb] at h3
      cases hm : cx.indcm with
      | none => simp [hm] at h3
      | some m =>
        simp only [hm] at h3
        cases he : (exitG g cx.cm && Nat.beq (andNot m cx.cm) 0) with
        | false => simp [he] at h3
        | true => simp only [Bool.and_eq_true] at he; exact exit_of hgr he.1
    · obtain ⟨i, φ, a, g, gs2, hbe, hgr, h3⟩ := core _ hb (by intro t e; cases e)
      unfold nextG at h3; rw [hbe] at h3
      simp only [nextGb] at h3
      cases hm : cx.vtab f with
      | none => simp [hm] at h3
      | some m =>
        simp only [hm] at h3
        cases he : (exitG g cx.cm && Nat.beq (andNot m cx.cm) 0) with
        | false => simp [he] at h3
        | true => simp only [Bool.and_eq_true] at he; exact exit_of hgr he.1
  refine ⟨main.1, main.2.1, main.2.2, ?_, ?_⟩
  · intro f hb
    obtain ⟨i, φ, a, g, gs2, hbe, hgr, h3⟩ := core _ hb (by intro t e; cases e)
    unfold nextG at h3; rw [hbe] at h3
    simp only [nextGb] at h3
    cases hm : cx.vtab f with
    | none => simp [hm] at h3
    | some m =>
      simp only [hm] at h3
      cases he : (exitG g cx.cm && Nat.beq (andNot m cx.cm) 0) with
      | false => simp [he] at h3
      | true =>
        simp only [Bool.and_eq_true] at he
        exact ⟨m, rfl, fun p hp => subset_of_beq he.2 p hp⟩
  · intro hb
    obtain ⟨i, φ, a, g, gs2, hbe, hgr, h3⟩ := core _ hb (by intro t e; cases e)
    unfold nextG at h3; rw [hbe] at h3
    simp only [nextGb] at h3
    cases hm : cx.indcm with
    | none => simp [hm] at h3
    | some m =>
      simp only [hm] at h3
      cases he : (exitG g cx.cm && Nat.beq (andNot m cx.cm) 0) with
      | false => simp [he] at h3
      | true =>
        simp only [Bool.and_eq_true] at he
        exact ⟨m, rfl, fun p hp => subset_of_beq he.2 p hp⟩

end IsalVerif.Scrub
