import IsalVerif.Spec.Aes
import IsalVerif.Lemmas.Chunks
/-! Well-formedness of the AES key schedule: `keyExpansion key` consists of `rounds key.length + 1`
    round keys of 16 bytes each (for *every* key; 11 / 13 / 15 round keys for 16 / 24 / 32-byte keys), and
    `decSchedule` preserves this shape.  Core Lean only. -/
namespace IsalVerif.Aes

theorem wordsBE32_length : ∀ l : Bytes, (wordsBE32 l).length = l.length / 4
  | [] => by simp [wordsBE32]
  | [_] => by simp [wordsBE32]
  | [_, _] => by simp [wordsBE32]
  | [_, _, _] => by simp [wordsBE32]
  | _ :: _ :: _ :: _ :: r => by
    simp only [wordsBE32, List.length_cons, wordsBE32_length r]; omega

theorem expandStep_size (nk : Nat) (w : Array UInt32) (i : Nat) : (expandStep nk w i).size = w.size + 1 := by
  simp [expandStep]

theorem foldl_expandStep_size (nk : Nat) (l : List Nat) (w : Array UInt32) :
    (l.foldl (expandStep nk) w).size = w.size + l.length := by
  induction l generalizing w with
  | nil => rfl
  | cons i l ih => rw [List.foldl_cons, ih, expandStep_size, List.length_cons]; omega

theorem expandWords_size (key : Bytes) : (expandWords key).size = 4 * (rounds key.length + 1) := by
  unfold expandWords
  simp only [foldl_expandStep_size, List.size_toArray, wordsBE32_length, List.length_range', rounds]
  omega

theorem flatMap_bytesBE32_length (l : List UInt32) : (l.flatMap bytesBE32).length = 4 * l.length := by
  induction l with
  | nil => rfl
  | cons w l ih => simp only [List.flatMap_cons, List.length_append, ih, bytesBE32, List.length_cons,
      List.length_nil]; omega

/-- every round key produced by `KeyExpansion` has 16 bytes (any key) -/
theorem keyExpansion_mem_length (key : Bytes) : ∀ k ∈ keyExpansion key, k.length = 16 :=
  chunks_mem_length

/-- `KeyExpansion` yields `Nr + 1` round keys (any key) -/
theorem keyExpansion_length (key : Bytes) : (keyExpansion key).length = rounds key.length + 1 := by
  unfold keyExpansion
  rw [chunks_length, flatMap_bytesBE32_length, Array.length_toList, expandWords_size]
  omega

/-! ### shape of `decSchedule` -/

theorem mapButLast_length {α : Type} (f : α → α) : ∀ l : List α, (mapButLast f l).length = l.length
  | [] => rfl
  | [_] => rfl
  | _ :: b :: l => by
    simp only [mapButLast, List.length_cons, mapButLast_length f (b :: l)]

theorem decSchedule_length (rks : List Bytes) : (decSchedule rks).length = rks.length := by
  unfold decSchedule
  have h : rks.reverse.length = rks.length := List.length_reverse
  generalize rks.reverse = r at h
  cases r with
  | nil => exact h
  | cons k ks => rw [List.length_cons, mapButLast_length]; exact h

end IsalVerif.Aes
