import IsalVerif.Impl.TopUpC
import IsalVerif.Lemmas.ResubmitCProofs
/-! What the top-up block of `_<alg>_ctx_mgr_submit_<family>` of today's source computes, and that this is the first
    half of the model's `HashMB.submitTail`. -/
namespace IsalVerif.TopUpC
open IsalVerif.ResubmitC (Y Fld St setLoc_locs)

structure TObs where
  plen : Nat
  inlen : Nat
  part : Bytes
  incoming : Bytes
  job : Option Nat
  deriving DecidableEq, Repr

def T.obs (t : T) : TObs := { plen := t.s.plen, inlen := t.s.inlen, part := t.s.part, incoming := t.s.incoming, job := t.job }

inductive OOut | cont (o : TObs) | resub (o : TObs) | bad
  deriving DecidableEq, Repr

def Out.obs : Out → OOut
  | .cont t => .cont t.obs
  | .resub t => .resub t.obs
  | .bad => .bad

/-- what the block must compute (mirrors the first half of `HashMB.submitTail`) -/
def topSpec (Bs : Nat) (s : St) (len : Nat) : OOut :=
  if s.plen ≠ 0 ∨ len < Bs then
    let copy := min (Bs - s.plen) len
    let part1 := s.part ++ s.incoming.take copy
    let inc1 := s.incoming.drop copy
    if Bs ≤ s.plen + copy then .resub ⟨0, len - copy, part1, inc1, some 1⟩
    else .resub ⟨s.plen + copy, len - copy, part1, inc1, none⟩
  else .resub ⟨s.plen, s.inlen, s.part, s.incoming, none⟩

theorem or_ne_zero (x y : Nat) : (x ||| y ≠ 0) ↔ (x ≠ 0 ∨ y ≠ 0) := by
  rw [ne_eq, Nat.or_eq_zero_iff]; constructor
  · intro h; by_cases hx : x = 0
    · right; intro hy; exact h ⟨hx, hy⟩
    · left; exact hx
  · rintro (h | h) ⟨h1, h2⟩ <;> contradiction

theorem canon_topup (Bs : Nat) (hB : Bs = 64 ∨ Bs = 128) (s : St) (len : Nat)
    (hl : len < 2^32) (hlen : len = s.incoming.length) (hin : s.inlen = len) (hloc : s.locs 0 = len)
    (hp : s.plen = s.part.length) (hpB : s.plen < Bs) :
    (run (canon Bs) { s := s }).obs = topSpec Bs s len := by
  unfold run topSpec
  generalize hX : (canon Bs).foldl step (.cont { s := s }) = X
  simp only [canon, List.foldl_cons, List.foldl_nil, step] at hX
  rcases hB with rfl | rfl
  · have hpm : s.plen % 4294967296 = s.plen := Nat.mod_eq_of_lt (by omega)
    have hor : ∀ y : Nat, y ≤ 1 → ((s.plen ||| y) % 4294967296 = 0 ↔ (s.plen = 0 ∧ y = 0)) := by
      intro y hy
      have : s.plen ||| y < 2^32 := Nat.or_lt_two_pow (by omega) (by omega)
      rw [Nat.mod_eq_of_lt (by simpa using this), Nat.or_eq_zero_iff]
    by_cases c10 : s.plen ≠ 0 ∨ len < 64
    · rw [if_pos c10]
      have g10 : (s.plen ||| (if len < 64 then 1 else 0)) % 4294967296 ≠ 0 := by
        intro h
        have := (hor (if len < 64 then 1 else 0) (by split <;> omega)).mp h
        rcases c10 with h1 | h1
        · exact h1 this.1
        · simp [h1] at this
      have f0 : (64 + (18446744073709551616 - s.plen % 18446744073709551616)) % 18446744073709551616 % 4294967296 = 64 - s.plen := by omega
      have f0' : (64 - s.plen) % 4294967296 = 64 - s.plen := by omega
      have hlm : len % 4294967296 = len := Nat.mod_eq_of_lt (by simpa using hl)
      have hor1 : ¬ ((s.plen ||| 1) % 4294967296 = 0) := by
        intro h; have := (hor 1 (by omega)).mp h; omega
      have hor0 : ((s.plen ||| 0) % 4294967296 = 0) ↔ s.plen = 0 := by
        have := hor 0 (by omega); simpa using this
      by_cases c11 : len < 64 - s.plen
      · -- copy_len = len
        have hmin : min (64 - s.plen) len = len := by omega
        rw [hmin]
        by_cases cc : len = 0
        · have c13 : ¬ 64 ≤ s.plen + len := by omega
          rw [if_neg c13]
          have hl64 : len < 64 := by omega
          have fne : 64 - s.plen ≠ 0 := by omega
          simp [Y.eval, hloc, hpm, hor1, f0, f0', c11, cc, hlm, hl64, fne, hpB] at hX
          subst hX
          simp [Out.obs, T.obs, ResubmitC.St.setLoc, cc, hin]
        · have c13 : ¬ 64 ≤ s.plen + len := by omega
          rw [if_neg c13]
          have f1 : (s.plen + len) % 18446744073709551616 % 4294967296 = s.plen + len := by omega
          have f2 : (len + (18446744073709551616 - len % 18446744073709551616)) % 18446744073709551616 % 4294967296 = 0 := by omega
          have f3 : s.plen + len < 64 := by omega
          have hl64 : len < 64 := by omega
          have fne : 64 - s.plen ≠ 0 := by omega
          have f1' : (s.plen + len) % 4294967296 = s.plen + len := by omega
          simp [Y.eval, hloc, hpm, hor1, f0, f0', c11, cc, hlm, hl64, ResubmitC.St.put, hp.symm, hlen.symm, f1, f1', f2, f3, fne, hpB] at hX
          subst hX
          simp [Out.obs, T.obs, ResubmitC.St.setLoc]
      · -- copy_len = 64 - partial length: the block is complete
        have hmin : min (64 - s.plen) len = 64 - s.plen := by omega
        rw [hmin]
        have c13 : 64 ≤ s.plen + (64 - s.plen) := by omega
        rw [if_pos c13]
        have fne : 64 - s.plen ≠ 0 := by omega
        have f1 : (s.plen + (64 - s.plen)) % 18446744073709551616 % 4294967296 = 64 := by omega
        have f1' : (s.plen + (64 - s.plen)) % 4294967296 = 64 := by omega
        have f2 : (len + (18446744073709551616 - (64 - s.plen) % 18446744073709551616)) % 18446744073709551616 % 4294967296 = len - (64 - s.plen) := by omega
        have f2' : (len - (64 - s.plen)) % 4294967296 = len - (64 - s.plen) := by omega
        have f3 : 64 - s.plen ≤ s.incoming.length := by omega
        have hg : (s.plen ||| if len < 64 then 1 else 0) % 4294967296 ≠ 0 := g10
        by_cases hl64 : len < 64
        · simp [Y.eval, hloc, hpm, hor1, f0, f0', c11, hlm, hl64, ResubmitC.St.put, hp.symm, f1, f1', f2, f2', f3, fne, hpB] at hX
          subst hX
          simp [Out.obs, T.obs, ResubmitC.St.setLoc]
        · have hp0 : s.plen ≠ 0 := by rcases c10 with h | h; exact h; exact absurd h hl64
          have hor0' : ¬ ((s.plen ||| 0) % 4294967296 = 0) := fun h => hp0 (hor0.mp h)
          simp [Y.eval, hloc, hpm, hor0', f0, f0', c11, hlm, hl64, ResubmitC.St.put, hp.symm, f1, f1', f2, f2', f3, fne, hpB, hp0] at hX
          subst hX
          simp [Out.obs, T.obs, ResubmitC.St.setLoc]
    · rw [if_neg c10]
      have hp0 : s.plen = 0 := Decidable.byContradiction (fun h => c10 (Or.inl h))
      have hl64 : ¬ len < 64 := fun h => c10 (Or.inr h)
      simp [Y.eval, hloc, hpm, hp0, hl64] at hX
      subst hX
      simp [Out.obs, T.obs, ResubmitC.St.setLoc, hp0]
  · have hpm : s.plen % 4294967296 = s.plen := Nat.mod_eq_of_lt (by omega)
    have hor : ∀ y : Nat, y ≤ 1 → ((s.plen ||| y) % 4294967296 = 0 ↔ (s.plen = 0 ∧ y = 0)) := by
      intro y hy
      have : s.plen ||| y < 2^32 := Nat.or_lt_two_pow (by omega) (by omega)
      rw [Nat.mod_eq_of_lt (by simpa using this), Nat.or_eq_zero_iff]
    by_cases c10 : s.plen ≠ 0 ∨ len < 128
    · rw [if_pos c10]
      have g10 : (s.plen ||| (if len < 128 then 1 else 0)) % 4294967296 ≠ 0 := by
        intro h
        have := (hor (if len < 128 then 1 else 0) (by split <;> omega)).mp h
        rcases c10 with h1 | h1
        · exact h1 this.1
        · simp [h1] at this
      have f0 : (128 + (18446744073709551616 - s.plen % 18446744073709551616)) % 18446744073709551616 % 4294967296 = 128 - s.plen := by omega
      have f0' : (128 - s.plen) % 4294967296 = 128 - s.plen := by omega
      have hlm : len % 4294967296 = len := Nat.mod_eq_of_lt (by simpa using hl)
      have hor1 : ¬ ((s.plen ||| 1) % 4294967296 = 0) := by
        intro h; have := (hor 1 (by omega)).mp h; omega
      have hor0 : ((s.plen ||| 0) % 4294967296 = 0) ↔ s.plen = 0 := by
        have := hor 0 (by omega); simpa using this
      by_cases c11 : len < 128 - s.plen
      · -- copy_len = len
        have hmin : min (128 - s.plen) len = len := by omega
        rw [hmin]
        by_cases cc : len = 0
        · have c13 : ¬ 128 ≤ s.plen + len := by omega
          rw [if_neg c13]
          have hl128 : len < 128 := by omega
          have fne : 128 - s.plen ≠ 0 := by omega
          simp [Y.eval, hloc, hpm, hor1, f0, f0', c11, cc, hlm, hl128, fne, hpB] at hX
          subst hX
          simp [Out.obs, T.obs, ResubmitC.St.setLoc, cc, hin]
        · have c13 : ¬ 128 ≤ s.plen + len := by omega
          rw [if_neg c13]
          have f1 : (s.plen + len) % 18446744073709551616 % 4294967296 = s.plen + len := by omega
          have f2 : (len + (18446744073709551616 - len % 18446744073709551616)) % 18446744073709551616 % 4294967296 = 0 := by omega
          have f3 : s.plen + len < 128 := by omega
          have hl128 : len < 128 := by omega
          have fne : 128 - s.plen ≠ 0 := by omega
          have f1' : (s.plen + len) % 4294967296 = s.plen + len := by omega
          simp [Y.eval, hloc, hpm, hor1, f0, f0', c11, cc, hlm, hl128, ResubmitC.St.put, hp.symm, hlen.symm, f1, f1', f2, f3, fne, hpB] at hX
          subst hX
          simp [Out.obs, T.obs, ResubmitC.St.setLoc]
      · -- copy_len = 128 - partial length: the block is complete
        have hmin : min (128 - s.plen) len = 128 - s.plen := by omega
        rw [hmin]
        have c13 : 128 ≤ s.plen + (128 - s.plen) := by omega
        rw [if_pos c13]
        have fne : 128 - s.plen ≠ 0 := by omega
        have f1 : (s.plen + (128 - s.plen)) % 18446744073709551616 % 4294967296 = 128 := by omega
        have f1' : (s.plen + (128 - s.plen)) % 4294967296 = 128 := by omega
        have f2 : (len + (18446744073709551616 - (128 - s.plen) % 18446744073709551616)) % 18446744073709551616 % 4294967296 = len - (128 - s.plen) := by omega
        have f2' : (len - (128 - s.plen)) % 4294967296 = len - (128 - s.plen) := by omega
        have f3 : 128 - s.plen ≤ s.incoming.length := by omega
        have hg : (s.plen ||| if len < 128 then 1 else 0) % 4294967296 ≠ 0 := g10
        by_cases hl128 : len < 128
        · simp [Y.eval, hloc, hpm, hor1, f0, f0', c11, hlm, hl128, ResubmitC.St.put, hp.symm, f1, f1', f2, f2', f3, fne, hpB] at hX
          subst hX
          simp [Out.obs, T.obs, ResubmitC.St.setLoc]
        · have hp0 : s.plen ≠ 0 := by rcases c10 with h | h; exact h; exact absurd h hl128
          have hor0' : ¬ ((s.plen ||| 0) % 4294967296 = 0) := fun h => hp0 (hor0.mp h)
          simp [Y.eval, hloc, hpm, hor0', f0, f0', c11, hlm, hl128, ResubmitC.St.put, hp.symm, f1, f1', f2, f2', f3, fne, hpB, hp0] at hX
          subst hX
          simp [Out.obs, T.obs, ResubmitC.St.setLoc]
    · rw [if_neg c10]
      have hp0 : s.plen = 0 := Decidable.byContradiction (fun h => c10 (Or.inl h))
      have hl128 : ¬ len < 128 := fun h => c10 (Or.inr h)
      simp [Y.eval, hloc, hpm, hp0, hl128] at hX
      subst hX
      simp [Out.obs, T.obs, ResubmitC.St.setLoc, hp0]

end IsalVerif.TopUpC

/-! ### refinement to `HashMB.submitTail` -/
namespace IsalVerif.TopUpC
open IsalVerif.HashMB
open IsalVerif.ResubmitC (absR)
variable {D : Type}

/-- first half of `HashMB.submitTail`: the context after the top-up and the job submitted from the partial buffer -/
def topModel (A : Alg D) (x2 : Ctx D) : Ctx D × Option (List Bytes) :=
  if x2.part ≠ [] ∨ x2.incoming.length < A.B then
    let copy := min (A.B - x2.part.length) x2.incoming.length
    let x3 : Ctx D := if copy ≠ 0 then
        { x2 with part := x2.part ++ x2.incoming.take copy, incoming := x2.incoming.drop copy } else x2
    if A.B ≤ x3.part.length then ({ x3 with part := [] }, some [x3.part]) else (x3, none)
  else (x2, none)

/-- `topModel` IS the first half of the model's `submitTail` -/
theorem submitTail_eq_topModel (A : Alg D) (m : M D) (c : Cid) (x2 : Ctx D) :
    submitTail A m c x2 =
      match topModel A x2 with
      | (x3, some bs) => let r := mgrSubmit A.f (setCtx m c x3) c bs; resubmit A (fuelFor m) r.1 r.2
      | (x3, none) => resubmit A (fuelFor m) (setCtx m c x3) (some c) := by
  unfold submitTail topModel
  by_cases h1 : x2.part ≠ [] ∨ x2.incoming.length < A.B
  · simp only [h1, if_true]
    by_cases hc : min (A.B - x2.part.length) x2.incoming.length ≠ 0
    · simp only [hc, ne_eq, not_false_eq_true, if_true]
      split <;> rfl
    · simp only [hc, ne_eq, if_false]
      split <;> rfl
  · simp only [h1, if_false]

/-- **the block's result (`canon_topup`) is the model's**: same partial buffer content and length, same remaining
    caller bytes, and a job of one block from the partial buffer exactly when the model submits one -/
theorem topup_refines (A : Alg D) (x2 : Ctx D) (hB : 0 < A.B) :
    topSpec A.B (absR x2) x2.incoming.length =
      match topModel A x2 with
      | (x3, some bs) => .resub ⟨0, x3.incoming.length, bs.headD [], x3.incoming, some 1⟩
      | (x3, none) => .resub ⟨x3.part.length, x3.incoming.length, x3.part, x3.incoming, none⟩ := by
  unfold topSpec topModel
  have hpl : (absR x2).plen ≠ 0 ↔ x2.part ≠ [] := by simp [absR, List.length_eq_zero_iff]
  by_cases h1 : x2.part ≠ [] ∨ x2.incoming.length < A.B
  · have h1' : (absR x2).plen ≠ 0 ∨ x2.incoming.length < A.B := by
      rcases h1 with h | h
      · exact Or.inl (hpl.mpr h)
      · exact Or.inr h
    rw [if_pos h1', if_pos h1]
    simp only [absR]
    by_cases hc : min (A.B - x2.part.length) x2.incoming.length = 0
    · simp only [hc, ne_eq, not_true_eq_false, if_false, Nat.add_zero, List.take_zero, List.append_nil, List.drop_zero,
        Nat.sub_zero]
      by_cases h2 : A.B ≤ x2.part.length
      · simp [h2]
      · simp [h2]
    · simp only [hc, ne_eq, not_false_eq_true, if_true, List.length_append, List.length_take, List.length_drop]
      have hm : min (min (A.B - x2.part.length) x2.incoming.length) x2.incoming.length =
          min (A.B - x2.part.length) x2.incoming.length := by omega
      rw [hm]
      by_cases h2 : A.B ≤ x2.part.length + min (A.B - x2.part.length) x2.incoming.length
      · simp [h2]
      · simp [h2]
  · have h1' : ¬ ((absR x2).plen ≠ 0 ∨ x2.incoming.length < A.B) := by
      intro h; apply h1
      rcases h with h | h
      · exact Or.inl (hpl.mp h)
      · exact Or.inr h
    rw [if_neg h1', if_neg h1]
    simp [absR]

end IsalVerif.TopUpC
