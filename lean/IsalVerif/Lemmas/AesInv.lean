import IsalVerif.Lemmas.AesBytes
/-! State-level helper lemmas for the AES laws (`Props/AesLaws.lean`): the four transformations and
    their inverses on 16-byte states, `InvCipher ∘ Cipher = id`, `Cipher ∘ InvCipher = id`, and the
    equivalent inverse cipher.  Core Lean only. -/
namespace IsalVerif.Aes

/-! ### the transformations on 16-byte states -/

theorem subBytes_length (s : Bytes) : (subBytes s).length = s.length := by simp [subBytes]
theorem invSubBytes_length (s : Bytes) : (invSubBytes s).length = s.length := by simp [invSubBytes]

theorem invSubBytes_subBytes (s : Bytes) : invSubBytes (subBytes s) = s := by
  have h : invSubByte ∘ subByte = id := funext invSubByte_subByte
  simp only [invSubBytes, subBytes, List.map_map, h, List.map_id]

theorem subBytes_invSubBytes (s : Bytes) : subBytes (invSubBytes s) = s := by
  have h : subByte ∘ invSubByte = id := funext subByte_invSubByte
  simp only [invSubBytes, subBytes, List.map_map, h, List.map_id]

theorem shiftRows_length {s : Bytes} (h : s.length = 16) : (shiftRows s).length = 16 := by
  obtain ⟨a0, a1, a2, a3, a4, a5, a6, a7, a8, a9, a10, a11, a12, a13, a14, a15, rfl⟩ := len16_cases h
  rfl

theorem invShiftRows_length {s : Bytes} (h : s.length = 16) : (invShiftRows s).length = 16 := by
  obtain ⟨a0, a1, a2, a3, a4, a5, a6, a7, a8, a9, a10, a11, a12, a13, a14, a15, rfl⟩ := len16_cases h
  rfl

theorem invShiftRows_shiftRows {s : Bytes} (h : s.length = 16) : invShiftRows (shiftRows s) = s := by
  obtain ⟨a0, a1, a2, a3, a4, a5, a6, a7, a8, a9, a10, a11, a12, a13, a14, a15, rfl⟩ := len16_cases h
  rfl

theorem shiftRows_invShiftRows {s : Bytes} (h : s.length = 16) : shiftRows (invShiftRows s) = s := by
  obtain ⟨a0, a1, a2, a3, a4, a5, a6, a7, a8, a9, a10, a11, a12, a13, a14, a15, rfl⟩ := len16_cases h
  rfl

/-- `InvShiftRows` and `InvSubBytes` commute (FIPS-197 §5.3.5, first property). -/
theorem invShiftRows_invSubBytes {s : Bytes} (h : s.length = 16) :
    invShiftRows (invSubBytes s) = invSubBytes (invShiftRows s) := by
  obtain ⟨a0, a1, a2, a3, a4, a5, a6, a7, a8, a9, a10, a11, a12, a13, a14, a15, rfl⟩ := len16_cases h
  rfl

theorem mixColumns_length {s : Bytes} (h : s.length = 16) : (mixColumns s).length = 16 := by
  obtain ⟨a0, a1, a2, a3, a4, a5, a6, a7, a8, a9, a10, a11, a12, a13, a14, a15, rfl⟩ := len16_cases h
  rfl

theorem invMixColumns_length {s : Bytes} (h : s.length = 16) : (invMixColumns s).length = 16 := by
  obtain ⟨a0, a1, a2, a3, a4, a5, a6, a7, a8, a9, a10, a11, a12, a13, a14, a15, rfl⟩ := len16_cases h
  rfl

theorem invMixColumns_mixColumns {s : Bytes} (h : s.length = 16) : invMixColumns (mixColumns s) = s := by
  obtain ⟨a0, a1, a2, a3, a4, a5, a6, a7, a8, a9, a10, a11, a12, a13, a14, a15, rfl⟩ := len16_cases h
  simp only [mixColumns, invMixColumns, imc_mc_0, imc_mc_1, imc_mc_2, imc_mc_3]

theorem mixColumns_invMixColumns {s : Bytes} (h : s.length = 16) : mixColumns (invMixColumns s) = s := by
  obtain ⟨a0, a1, a2, a3, a4, a5, a6, a7, a8, a9, a10, a11, a12, a13, a14, a15, rfl⟩ := len16_cases h
  simp only [mixColumns, invMixColumns, mc_imc_0, mc_imc_1, mc_imc_2, mc_imc_3]

theorem lin4 {f0 f1 f2 f3 : UInt8 → UInt8}
    (h0 : ∀ a b, f0 (a ^^^ b) = f0 a ^^^ f0 b) (h1 : ∀ a b, f1 (a ^^^ b) = f1 a ^^^ f1 b)
    (h2 : ∀ a b, f2 (a ^^^ b) = f2 a ^^^ f2 b) (h3 : ∀ a b, f3 (a ^^^ b) = f3 a ^^^ f3 b)
    (a b c d a' b' c' d' : UInt8) :
    f0 (a ^^^ a') ^^^ f1 (b ^^^ b') ^^^ f2 (c ^^^ c') ^^^ f3 (d ^^^ d') =
      (f0 a ^^^ f1 b ^^^ f2 c ^^^ f3 d) ^^^ (f0 a' ^^^ f1 b' ^^^ f2 c' ^^^ f3 d') := by
  rw [h0, h1, h2, h3]; ac_rfl

/-- `InvMixColumns` is linear (FIPS-197 §5.3.5, second property). -/
theorem invMixColumns_xor {s k : Bytes} (hs : s.length = 16) (hk : k.length = 16) :
    invMixColumns (xorBytes s k) = xorBytes (invMixColumns s) (invMixColumns k) := by
  obtain ⟨a0, a1, a2, a3, a4, a5, a6, a7, a8, a9, a10, a11, a12, a13, a14, a15, rfl⟩ := len16_cases hs
  obtain ⟨b0, b1, b2, b3, b4, b5, b6, b7, b8, b9, b10, b11, b12, b13, b14, b15, rfl⟩ := len16_cases hk
  simp only [xorBytes_cons, xorBytes_nil_left, invMixColumns,
    lin4 mul0e_xor mul0b_xor mul0d_xor mul09_xor, lin4 mul09_xor mul0e_xor mul0b_xor mul0d_xor,
    lin4 mul0d_xor mul09_xor mul0e_xor mul0b_xor, lin4 mul0b_xor mul0d_xor mul09_xor mul0e_xor]

theorem addRoundKey_length {s k : Bytes} (hs : s.length = 16) (hk : k.length = 16) :
    (addRoundKey s k).length = 16 := xorBytes_length_eq hs hk

theorem addRoundKey_cancel {s k : Bytes} (hs : s.length = 16) (hk : k.length = 16) :
    addRoundKey (addRoundKey s k) k = s := xorBytes_cancel (by omega)

/-! ### rounds -/

/-- a full encryption round (`SubBytes`, `ShiftRows`, `MixColumns`, `AddRoundKey`) -/
def encRound (k s : Bytes) : Bytes := addRoundKey (mixColumns (shiftRows (subBytes s))) k
/-- a full decryption round of the straightforward inverse cipher -/
def decRound (k s : Bytes) : Bytes := invMixColumns (addRoundKey (invSubBytes (invShiftRows s)) k)

theorem encRound_length {k s : Bytes} (hk : k.length = 16) (hs : s.length = 16) :
    (encRound k s).length = 16 :=
  addRoundKey_length (mixColumns_length (shiftRows_length (by rw [subBytes_length, hs]))) hk

theorem decRound_length {k s : Bytes} (hk : k.length = 16) (hs : s.length = 16) :
    (decRound k s).length = 16 :=
  invMixColumns_length (addRoundKey_length (by rw [invSubBytes_length, invShiftRows_length hs]) hk)

theorem srsb_length {s : Bytes} (hs : s.length = 16) : (shiftRows (subBytes s)).length = 16 :=
  shiftRows_length (by rw [subBytes_length, hs])

theorem isbisr_length {s : Bytes} (hs : s.length = 16) : (invSubBytes (invShiftRows s)).length = 16 := by
  rw [invSubBytes_length, invShiftRows_length hs]

theorem isbisr_srsb {s : Bytes} (hs : s.length = 16) :
    invSubBytes (invShiftRows (shiftRows (subBytes s))) = s := by
  rw [invShiftRows_shiftRows (by rw [subBytes_length, hs]), invSubBytes_subBytes]

theorem srsb_isbisr {s : Bytes} (hs : s.length = 16) :
    shiftRows (subBytes (invSubBytes (invShiftRows s))) = s := by
  rw [subBytes_invSubBytes, shiftRows_invShiftRows hs]

/-- `decRound k` undoes `encRound k` "one half-round later". -/
theorem decRound_srsb_encRound {k s : Bytes} (hk : k.length = 16) (hs : s.length = 16) :
    decRound k (shiftRows (subBytes (encRound k s))) = shiftRows (subBytes s) := by
  have h1 : (mixColumns (shiftRows (subBytes s))).length = 16 := mixColumns_length (srsb_length hs)
  unfold decRound
  rw [isbisr_srsb (encRound_length hk hs)]
  unfold encRound
  rw [addRoundKey_cancel h1 hk, invMixColumns_mixColumns (srsb_length hs)]

theorem encRound_isbisr_decRound {k s : Bytes} (hk : k.length = 16) (hs : s.length = 16) :
    encRound k (invSubBytes (invShiftRows (decRound k s))) = invSubBytes (invShiftRows s) := by
  unfold encRound
  rw [srsb_isbisr (decRound_length hk hs)]
  unfold decRound
  rw [mixColumns_invMixColumns (addRoundKey_length (isbisr_length hs) hk),
    addRoundKey_cancel (isbisr_length hs) hk]

theorem cipherRounds_cons {k : Bytes} {ks : List Bytes} (h : ks ≠ []) (s : Bytes) :
    cipherRounds (k :: ks) s = cipherRounds ks (encRound k s) := by
  cases ks with
  | nil => exact absurd rfl h
  | cons => rfl

theorem invCipherRounds_cons {k : Bytes} {ks : List Bytes} (h : ks ≠ []) (s : Bytes) :
    invCipherRounds (k :: ks) s = invCipherRounds ks (decRound k s) := by
  cases ks with
  | nil => exact absurd rfl h
  | cons => rfl

theorem cipherRounds_snoc (ks : List Bytes) (kN s : Bytes) :
    cipherRounds (ks ++ [kN]) s =
      addRoundKey (shiftRows (subBytes (ks.foldl (fun s k => encRound k s) s))) kN := by
  induction ks generalizing s with
  | nil => rfl
  | cons k ks ih =>
    rw [List.cons_append, cipherRounds_cons (by simp), ih]; rfl

theorem invCipherRounds_snoc (ks : List Bytes) (k0 s : Bytes) :
    invCipherRounds (ks ++ [k0]) s =
      addRoundKey (invSubBytes (invShiftRows (ks.foldl (fun s k => decRound k s) s))) k0 := by
  induction ks generalizing s with
  | nil => rfl
  | cons k ks ih =>
    rw [List.cons_append, invCipherRounds_cons (by simp), ih]; rfl

theorem foldl_encRound_length {ks : List Bytes} (hk : ∀ k ∈ ks, k.length = 16) {s : Bytes}
    (hs : s.length = 16) : (ks.foldl (fun s k => encRound k s) s).length = 16 := by
  induction ks generalizing s with
  | nil => exact hs
  | cons k ks ih =>
    exact ih (fun k' h' => hk k' (List.mem_cons_of_mem _ h')) (encRound_length (hk k (by simp)) hs)

theorem foldl_decRound_length {ks : List Bytes} (hk : ∀ k ∈ ks, k.length = 16) {s : Bytes}
    (hs : s.length = 16) : (ks.foldl (fun s k => decRound k s) s).length = 16 := by
  induction ks generalizing s with
  | nil => exact hs
  | cons k ks ih =>
    exact ih (fun k' h' => hk k' (List.mem_cons_of_mem _ h')) (decRound_length (hk k (by simp)) hs)

/-- the `Nr - 1` full decryption rounds undo the `Nr - 1` full encryption rounds -/
theorem foldl_dec_enc {ks : List Bytes} (hk : ∀ k ∈ ks, k.length = 16) {s : Bytes} (hs : s.length = 16) :
    ks.reverse.foldl (fun s k => decRound k s)
      (shiftRows (subBytes (ks.foldl (fun s k => encRound k s) s))) = shiftRows (subBytes s) := by
  induction ks generalizing s with
  | nil => rfl
  | cons k ks ih =>
    have hk0 := hk k (by simp)
    rw [List.reverse_cons, List.foldl_append, List.foldl_cons, List.foldl_cons, List.foldl_nil,
      ih (fun k' h' => hk k' (List.mem_cons_of_mem _ h')) (encRound_length hk0 hs),
      decRound_srsb_encRound hk0 hs]

theorem foldl_enc_dec {ks : List Bytes} (hk : ∀ k ∈ ks, k.length = 16) {s : Bytes} (hs : s.length = 16) :
    ks.foldl (fun s k => encRound k s)
      (invSubBytes (invShiftRows (ks.reverse.foldl (fun s k => decRound k s) s))) =
      invSubBytes (invShiftRows s) := by
  induction ks generalizing s with
  | nil => rfl
  | cons k ks ih =>
    have hk0 := hk k (by simp)
    have hks : ∀ k' ∈ ks, k'.length = 16 := fun k' h' => hk k' (List.mem_cons_of_mem _ h')
    have hks' : ∀ k' ∈ ks.reverse, k'.length = 16 := fun k' h' => hks k' (List.mem_reverse.mp h')
    rw [List.reverse_cons, List.foldl_append, List.foldl_cons, List.foldl_cons, List.foldl_nil,
      encRound_isbisr_decRound hk0 (foldl_decRound_length hks' hs), ih hks hs]

/-! ### `InvCipher ∘ Cipher` and `Cipher ∘ InvCipher` -/

theorem eq_nil_or_snoc {α : Type} (l : List α) : l = [] ∨ ∃ l' a, l = l' ++ [a] := by
  rcases List.eq_nil_or_concat l with h | ⟨l', a, h⟩
  · exact .inl h
  · exact .inr ⟨l', a, by rw [h, List.concat_eq_append]⟩

theorem cipher_single (k0 b : Bytes) : cipher [k0] b = addRoundKey b k0 := rfl
theorem invCipher_single (k0 b : Bytes) : invCipher [k0] b = addRoundKey b k0 := rfl

theorem cipher_snoc (k0 : Bytes) (ks : List Bytes) (kN b : Bytes) :
    cipher (k0 :: (ks ++ [kN])) b =
      addRoundKey (shiftRows (subBytes (ks.foldl (fun s k => encRound k s) (addRoundKey b k0)))) kN := by
  show cipherRounds (ks ++ [kN]) _ = _
  rw [cipherRounds_snoc]

theorem invCipher_snoc (k0 : Bytes) (ks : List Bytes) (kN b : Bytes) :
    invCipher (k0 :: (ks ++ [kN])) b =
      addRoundKey (invSubBytes (invShiftRows
        (ks.reverse.foldl (fun s k => decRound k s) (addRoundKey b kN)))) k0 := by
  have h : (k0 :: (ks ++ [kN])).reverse = kN :: (ks.reverse ++ [k0]) := by simp
  unfold invCipher
  rw [h]
  show invCipherRounds (ks.reverse ++ [k0]) _ = _
  rw [invCipherRounds_snoc]

theorem cipher_length {rks : List Bytes} (hk : ∀ k ∈ rks, k.length = 16) {b : Bytes} (hb : b.length = 16) :
    (cipher rks b).length = 16 := by
  cases rks with
  | nil => exact hb
  | cons k0 ks =>
    have h0 := hk k0 (by simp)
    have hks : ∀ k ∈ ks, k.length = 16 := fun k' h' => hk k' (List.mem_cons_of_mem _ h')
    rcases eq_nil_or_snoc ks with rfl | ⟨ks', kN, rfl⟩
    · exact addRoundKey_length hb h0
    · rw [cipher_snoc]
      exact addRoundKey_length (srsb_length (foldl_encRound_length (fun k h => hks k (by simp [h]))
        (addRoundKey_length hb h0))) (hks kN (by simp))

theorem invCipher_length {rks : List Bytes} (hk : ∀ k ∈ rks, k.length = 16) {b : Bytes}
    (hb : b.length = 16) : (invCipher rks b).length = 16 := by
  cases rks with
  | nil => exact hb
  | cons k0 ks =>
    have h0 := hk k0 (by simp)
    have hks : ∀ k ∈ ks, k.length = 16 := fun k' h' => hk k' (List.mem_cons_of_mem _ h')
    rcases eq_nil_or_snoc ks with rfl | ⟨ks', kN, rfl⟩
    · exact addRoundKey_length hb h0
    · rw [invCipher_snoc]
      exact addRoundKey_length (isbisr_length (foldl_decRound_length
        (fun k h => hks k (by simp [List.mem_reverse.mp h])) (addRoundKey_length hb (hks kN (by simp))))) h0

theorem invCipher_cipher {rks : List Bytes} (hk : ∀ k ∈ rks, k.length = 16) {b : Bytes}
    (hb : b.length = 16) : invCipher rks (cipher rks b) = b := by
  cases rks with
  | nil => rfl
  | cons k0 ks =>
    have h0 := hk k0 (by simp)
    have hks : ∀ k ∈ ks, k.length = 16 := fun k' h' => hk k' (List.mem_cons_of_mem _ h')
    rcases eq_nil_or_snoc ks with rfl | ⟨ks', kN, rfl⟩
    · exact addRoundKey_cancel hb h0
    · have hN := hks kN (by simp)
      have hks' : ∀ k ∈ ks', k.length = 16 := fun k h => hks k (by simp [h])
      have hs0 := addRoundKey_length hb h0
      rw [invCipher_snoc, cipher_snoc,
        addRoundKey_cancel (srsb_length (foldl_encRound_length hks' hs0)) hN,
        foldl_dec_enc hks' hs0, isbisr_srsb hs0, addRoundKey_cancel hb h0]

theorem cipher_invCipher {rks : List Bytes} (hk : ∀ k ∈ rks, k.length = 16) {b : Bytes}
    (hb : b.length = 16) : cipher rks (invCipher rks b) = b := by
  cases rks with
  | nil => rfl
  | cons k0 ks =>
    have h0 := hk k0 (by simp)
    have hks : ∀ k ∈ ks, k.length = 16 := fun k' h' => hk k' (List.mem_cons_of_mem _ h')
    rcases eq_nil_or_snoc ks with rfl | ⟨ks', kN, rfl⟩
    · exact addRoundKey_cancel hb h0
    · have hN := hks kN (by simp)
      have hks' : ∀ k ∈ ks', k.length = 16 := fun k h => hks k (by simp [h])
      have hks'r : ∀ k ∈ ks'.reverse, k.length = 16 := fun k h => hks' k (List.mem_reverse.mp h)
      have hs0 := addRoundKey_length hb hN
      rw [invCipher_snoc, cipher_snoc,
        addRoundKey_cancel (isbisr_length (foldl_decRound_length hks'r hs0)) h0,
        foldl_enc_dec hks' hs0, srsb_isbisr hs0, addRoundKey_cancel hb hN]

/-! ### the equivalent inverse cipher (FIPS-197 §5.3.5) -/

theorem eqInvCipherRounds_cons {k : Bytes} {ks : List Bytes} (h : ks ≠ []) (s : Bytes) :
    eqInvCipherRounds (k :: ks) s =
      eqInvCipherRounds ks (addRoundKey (invMixColumns (invShiftRows (invSubBytes s))) k) := by
  cases ks with
  | nil => exact absurd rfl h
  | cons => rfl

theorem mapButLast_cons_cons {α : Type} (f : α → α) (a b : α) (l : List α) :
    mapButLast f (a :: b :: l) = f a :: mapButLast f (b :: l) := rfl

theorem mapButLast_cons_ne_nil {α : Type} (f : α → α) (a : α) (l : List α) :
    mapButLast f (a :: l) ≠ [] := by
  cases l <;> simp [mapButLast]

theorem eqInvCipherRounds_eq {ks : List Bytes} (hk : ∀ k ∈ ks, k.length = 16) {s : Bytes}
    (hs : s.length = 16) :
    eqInvCipherRounds (mapButLast invMixColumns ks) s = invCipherRounds ks s := by
  induction ks generalizing s with
  | nil => rfl
  | cons k ks ih =>
    have hk0 := hk k (by simp)
    cases ks with
    | nil =>
      show addRoundKey (invShiftRows (invSubBytes s)) k = addRoundKey (invSubBytes (invShiftRows s)) k
      rw [invShiftRows_invSubBytes hs]
    | cons k' ks' =>
      rw [mapButLast_cons_cons, eqInvCipherRounds_cons (mapButLast_cons_ne_nil _ _ _),
        invCipherRounds_cons (by simp), invShiftRows_invSubBytes hs]
      have h1 : addRoundKey (invMixColumns (invSubBytes (invShiftRows s))) (invMixColumns k)
          = decRound k s := by
        unfold decRound addRoundKey
        rw [invMixColumns_xor (isbisr_length hs) hk0]
      rw [h1]
      exact ih (fun k'' h' => hk k'' (List.mem_cons_of_mem _ h')) (decRound_length hk0 hs)

theorem eqInvCipher_decSchedule {rks : List Bytes} (hk : ∀ k ∈ rks, k.length = 16) {b : Bytes}
    (hb : b.length = 16) : eqInvCipher (decSchedule rks) b = invCipher rks b := by
  unfold eqInvCipher decSchedule invCipher
  have hk' : ∀ k ∈ rks.reverse, k.length = 16 := fun k h => hk k (List.mem_reverse.mp h)
  generalize rks.reverse = r at hk'
  cases r with
  | nil => rfl
  | cons kN ks =>
    exact eqInvCipherRounds_eq (fun k h => hk' k (List.mem_cons_of_mem _ h))
      (addRoundKey_length hb (hk' kN (by simp)))

end IsalVerif.Aes
