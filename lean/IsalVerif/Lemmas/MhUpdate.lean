import IsalVerif.Impl.MhStream
import IsalVerif.Lemmas.Absorb
/-! The update template of `mh_sha1_update_base.c` (shared by mh_sha1, mh_sha256 and the stitched
    murmur variant, all families) refines `absorb 1024`: the valid prefix of `partial_block_buffer`
    is the carried incomplete block, whatever stale bytes lie behind it. -/
namespace IsalVerif.Mh
variable {D : Type}

/-! ### Stores into a buffer -/

theorem memcpy_length (buf : Bytes) (off : Nat) (src : Bytes) (h : off + src.length ≤ buf.length) :
    (memcpy buf off src).length = buf.length := by
  simp only [memcpy, List.length_append, List.length_take, List.length_drop]; omega

/-- a store right behind a known prefix -/
theorem memcpy_append (a b src : Bytes) : memcpy (a ++ b) a.length src = a ++ src ++ b.drop src.length := by
  simp [memcpy, List.drop_append]

/-- after `memcpy(buf + off, src, n)` the buffer starts with `buf[0..off) ++ src` -/
theorem memcpy_take (buf : Bytes) (off : Nat) (src : Bytes) (h : off ≤ buf.length) :
    (memcpy buf off src).take (off + src.length) = buf.take off ++ src := by
  have hl : (buf.take off ++ src).length = off + src.length := by
    rw [List.length_append, List.length_take]; omega
  rw [memcpy, ← hl, List.take_left']
  rfl

/-! ### UInt32 facts used below -/

theorem u32_ne_zero {x : UInt32} (h : (x != 0) = true) : x.toNat ≠ 0 := by
  intro h0
  have : x = 0 := UInt32.toNat_inj.mp (by simpa using h0)
  simp [this] at h

theorem u32_eq_zero {x : UInt32} (h : ¬ (x != 0) = true) : x.toNat = 0 := by
  have : x = 0 := by simpa using h
  simp [this]

theorem u32_1024_sub {x : UInt32} (h : x.toNat < 1024) : (1024 - x).toNat = 1024 - x.toNat := by
  rw [UInt32.toNat_sub_of_le]
  · simp
  · rw [UInt32.le_iff_toNat_le]; simp; omega

theorem u32_div_mul (x : UInt32) : (x / 1024 * 1024).toNat = x.toNat / 1024 * 1024 := by
  rw [UInt32.toNat_mul, UInt32.toNat_div]
  have := x.toNat_lt
  have := Nat.div_mul_le_self x.toNat 1024
  simp; omega

/-! ### The three stages -/

/-- the block function does what `mh_sha1_block_base.c` does: `n` consecutive 1024-byte blocks, `f` on
    each — whenever it is called as the C code calls it: `n` blocks are readable at `input`
    (so `n * 1024` is far from wrapping) -/
def BlockFnIs (blockFn : D → Bytes → UInt32 → D) (f : D → Bytes → D) : Prop :=
  ∀ d inp n, n.toNat * 1024 ≤ inp.length → inp.length < 2 ^ 32 →
    blockFn d inp n = (blocks 1024 n.toNat inp).foldl f d

theorem stageCarry_spec (blockFn : D → Bytes → UInt32 → D) (f : D → Bytes → D) (hbf : BlockFnIs blockFn f)
    (pbl : UInt32) (l : Loc D) (hp : pbl.toNat < 1024) (hbuf : l.ctx.partialBuf.length = 2048)
    (hlen : l.len.toNat = l.input.length) (hge : 1024 ≤ l.input.length + pbl.toNat) :
    let l1 := stageCarry blockFn pbl l
    l1.len.toNat = l1.input.length ∧ l1.ctx.partialBuf.length = 2048 ∧
    l1.ctx.totalLength = l.ctx.totalLength ∧ l1.ctx.digest = l.ctx.digest ∧
    absorb 1024 f ⟨l1.ctx.interim, []⟩ l1.input =
      absorb 1024 f ⟨l.ctx.interim, l.ctx.partialBuf.take pbl.toNat⟩ l.input := by
  intro l1
  show _ ∧ _ ∧ _ ∧ _ ∧ _
  simp only [l1, stageCarry]
  split
  · rename_i hne
    have hp0 := u32_ne_zero hne
    have hsub := u32_1024_sub hp
    have htk : (l.input.take (1024 - pbl.toNat)).length = 1024 - pbl.toNat := by
      rw [List.length_take]; omega
    have h1 : (memcpy l.ctx.partialBuf pbl.toNat (l.input.take (1024 - pbl.toNat))).length = 2048 := by
      rw [memcpy_length _ _ _ (by rw [htk]; omega)]; exact hbuf
    simp only [hsub]
    refine ⟨?_, ?_, trivial, trivial, ?_⟩
    · rw [UInt32.toNat_sub_of_le _ _ (by rw [UInt32.le_iff_toNat_le, hsub]; omega), hsub, hlen,
        List.length_drop]
    · rw [memset, memcpy_length _ _ _ (by rw [List.length_replicate]; omega)]; exact h1
    · -- the block function sees the completed block
      have hpb : (memcpy l.ctx.partialBuf pbl.toNat (l.input.take (1024 - pbl.toNat))).take 1024 =
          l.ctx.partialBuf.take pbl.toNat ++ l.input.take (1024 - pbl.toNat) := by
        have := memcpy_take l.ctx.partialBuf pbl.toNat (l.input.take (1024 - pbl.toNat)) (by omega)
        rw [htk, show pbl.toNat + (1024 - pbl.toNat) = 1024 by omega] at this
        exact this
      have hone : blockFn l.ctx.interim (memcpy l.ctx.partialBuf pbl.toNat (l.input.take (1024 - pbl.toNat))) 1
          = f l.ctx.interim (l.ctx.partialBuf.take pbl.toNat ++ l.input.take (1024 - pbl.toNat)) := by
        rw [hbf _ _ _ (by rw [h1]; decide) (by rw [h1]; decide)]; simp [blocks, hpb]
      rw [hone, absorb_full_block 1024 (by omega) f _ _ _
        (by rw [List.length_append, List.length_take, htk]; omega), absorb_move]
  · rename_i heq
    have hp0 := u32_eq_zero heq
    refine ⟨hlen, hbuf, rfl, rfl, ?_⟩
    simp [hp0]

theorem stageBlocks_spec (blockFn : D → Bytes → UInt32 → D) (f : D → Bytes → D) (hbf : BlockFnIs blockFn f)
    (l : Loc D) (hlen : l.len.toNat = l.input.length) :
    let l2 := stageBlocks blockFn l
    l2.len.toNat = l2.input.length ∧ l2.input.length < 1024 ∧ l2.ctx.partialBuf = l.ctx.partialBuf ∧
    l2.ctx.totalLength = l.ctx.totalLength ∧ l2.ctx.digest = l.ctx.digest ∧
    (⟨l2.ctx.interim, l2.input⟩ : S UInt8 D) = absorb 1024 f ⟨l.ctx.interim, []⟩ l.input := by
  intro l2
  show _ ∧ _ ∧ _ ∧ _ ∧ _ ∧ _
  have hdm := Nat.div_add_mod l.input.length 1024
  have hml := Nat.mod_lt l.input.length (show 0 < 1024 by omega)
  simp only [l2, stageBlocks]
  split
  · have h1 : (l.len / 1024 * 1024).toNat = l.input.length / 1024 * 1024 := by rw [u32_div_mul, hlen]
    have h2 : (l.len / 1024).toNat = l.input.length / 1024 := by rw [UInt32.toNat_div, hlen]; rfl
    simp only [h1]
    refine ⟨?_, ?_, trivial, trivial, trivial, ?_⟩
    · rw [UInt32.toNat_sub_of_le _ _ (by rw [UInt32.le_iff_toNat_le, h1, hlen]; omega), h1, hlen,
        List.length_drop]
    · rw [List.length_drop]; omega
    · have hlt := l.len.toNat_lt
      have hb := hbf l.ctx.interim l.input (l.len / 1024) (by rw [h2]; omega) (by omega)
      simp [absorb, hb, h2]
  · rename_i hz
    have h0 : l.input.length / 1024 = 0 := by
      have : ¬ (0 < (l.len / 1024).toNat) := fun h => hz (UInt32.lt_iff_toNat_lt.mpr (by simpa using h))
      rw [UInt32.toNat_div, hlen] at this
      simpa using this
    refine ⟨hlen, by omega, rfl, rfl, rfl, ?_⟩
    simp [absorb, h0, blocks]

theorem stageStore_spec (l : Loc D) (hbuf : l.ctx.partialBuf.length = 2048)
    (hlen : l.len.toNat = l.input.length) (hlt : l.input.length < 1024) :
    (stageStore l).partialBuf.length = 2048 ∧ (stageStore l).partialBuf.take l.input.length = l.input ∧
    (stageStore l).interim = l.ctx.interim ∧ (stageStore l).totalLength = l.ctx.totalLength ∧
    (stageStore l).digest = l.ctx.digest := by
  simp only [stageStore]
  split
  · have ht : l.input.take l.len.toNat = l.input := by rw [hlen, List.take_length]
    refine ⟨?_, ?_, rfl, rfl, rfl⟩
    · simp only [ht]; rw [memcpy_length]; · exact hbuf
      · omega
    · simp only [ht]
      have := memcpy_take l.ctx.partialBuf 0 l.input (by omega)
      simpa using this
  · rename_i hz
    have h0 : l.input.length = 0 := by rw [← hlen]; exact u32_eq_zero hz
    refine ⟨hbuf, ?_, rfl, rfl, rfl⟩
    have : l.input = [] := List.length_eq_zero_iff.mp h0
    simp [this]

/-! ### update = absorb -/

/-- the abstract streaming state of a context: the interim digests and the *valid prefix*
    (`total_length % 1024` bytes) of `partial_block_buffer` -/
def absS (ctx : Ctx D) : S UInt8 D :=
  ⟨ctx.interim, ctx.partialBuf.take (ctx.totalLength.toNat % 1024)⟩

/-- One update call.  Hypotheses: the `uint32_t` sum `len + partial_block_len` and the `uint64_t`
    counter `total_length` do not wrap (both hold when the whole stream is shorter than 2³² bytes);
    the buffer is the 2048-byte array.  Conclusions: `total_length` counts, no store leaves the
    buffer, the digest field is untouched, and the abstract state is `absorb`. -/
theorem update_refines (blockFn : D → Bytes → UInt32 → D) (f : D → Bytes → D) (hbf : BlockFnIs blockFn f)
    (ctx : Ctx D) (buffer : Bytes) (hbuf : ctx.partialBuf.length = 2048)
    (h32 : buffer.length + ctx.totalLength.toNat % 1024 < 2 ^ 32)
    (h64 : ctx.totalLength.toNat + buffer.length < 2 ^ 64) :
    (update blockFn ctx buffer).totalLength.toNat = ctx.totalLength.toNat + buffer.length ∧
    (update blockFn ctx buffer).partialBuf.length = 2048 ∧
    (update blockFn ctx buffer).digest = ctx.digest ∧
    absS (update blockFn ctx buffer) = absorb 1024 f (absS ctx) buffer := by
  have hL : (UInt32.ofNat buffer.length).toNat = buffer.length := by rw [UInt32.toNat_ofNat']; omega
  have hP : ((ctx.totalLength % 1024).toUInt32).toNat = ctx.totalLength.toNat % 1024 := by
    simp; omega
  have hpl : (ctx.partialBuf.take (ctx.totalLength.toNat % 1024)).length = ctx.totalLength.toNat % 1024 := by
    rw [List.length_take]; omega
  have hT : (ctx.totalLength + (UInt32.ofNat buffer.length).toUInt64).toNat
      = ctx.totalLength.toNat + buffer.length := by
    rw [UInt64.toNat_add, UInt32.toNat_toUInt64, hL]; omega
  simp only [update]
  split
  · -- len == 0
    rename_i h0
    have hb : buffer = [] := by
      have : UInt32.ofNat buffer.length = 0 := by simpa using h0
      have h2 := congrArg UInt32.toNat this
      rw [hL] at h2
      exact List.length_eq_zero_iff.mp (by simpa using h2)
    subst hb
    refine ⟨by simp, hbuf, rfl, ?_⟩
    rw [absorb_nil]; simp only [absS]; omega
  · split
    · -- not enough data to complete the carried block
      rename_i hlt
      have hlt' : buffer.length + ctx.totalLength.toNat % 1024 < 1024 := by
        have := UInt32.lt_iff_toNat_lt.mp hlt
        rw [UInt32.toNat_add, hL, hP] at this
        simp at this; omega
      refine ⟨hT, ?_, rfl, ?_⟩
      · simp only [hL, hP, List.take_length]; rw [memcpy_length]; · exact hbuf
        · omega
      · simp only [absS, hT, hL, hP, List.take_length]
        have hmod : (ctx.totalLength.toNat + buffer.length) % 1024
            = ctx.totalLength.toNat % 1024 + buffer.length := by omega
        rw [hmod, memcpy_take _ _ _ (by omega)]
        simp only [absorb]
        have hz : (ctx.partialBuf.take (ctx.totalLength.toNat % 1024) ++ buffer).length / 1024 = 0 := by
          apply Nat.div_eq_of_lt; rw [List.length_append, hpl]; omega
        rw [hz]; simp [blocks]
    · -- at least one block gets processed
      rename_i hge
      have hge' : 1024 ≤ buffer.length + ctx.totalLength.toNat % 1024 := by
        have : ¬ ((UInt32.ofNat buffer.length + (ctx.totalLength % 1024).toUInt32).toNat < (1024 : UInt32).toNat) :=
          fun h => hge (UInt32.lt_iff_toNat_lt.mpr h)
        rw [UInt32.toNat_add, hL, hP] at this
        simp at this; omega
      obtain ⟨c1, c2, c3, c4, c5⟩ := stageCarry_spec blockFn f hbf (ctx.totalLength % 1024).toUInt32
        ⟨{ ctx with totalLength := ctx.totalLength + (UInt32.ofNat buffer.length).toUInt64 }, buffer,
          UInt32.ofNat buffer.length⟩ (by rw [hP]; omega) hbuf hL (by rw [hP]; exact hge')
      obtain ⟨b1, b2, b3, b4, b5, b6⟩ := stageBlocks_spec blockFn f hbf _ c1
      obtain ⟨s1, s2, s3, s4, s5⟩ := stageStore_spec _ (by rw [b3]; exact c2) b1 b2
      simp only [] at c3 c4 c5
      have htot := s4.trans (b4.trans c3)
      refine ⟨by rw [htot]; exact hT, s1, s5.trans (b5.trans c4), ?_⟩
      rw [hP] at c5
      simp only [absS, htot, hT, s3]
      rw [← c5, ← b6]
      -- the valid prefix of the new buffer is the stored remainder
      have hrem : (ctx.totalLength.toNat + buffer.length) % 1024
          = (stageBlocks blockFn (stageCarry blockFn (ctx.totalLength % 1024).toUInt32
              ⟨{ ctx with totalLength := ctx.totalLength + (UInt32.ofNat buffer.length).toUInt64 }, buffer,
                UInt32.ofNat buffer.length⟩)).input.length := by
        have e := congrArg (fun s => s.part.length) b6
        have e2 := congrArg (fun s => s.part.length) c5
        simp only [absorb, List.length_drop, List.nil_append, List.length_append, hpl] at e e2
        rw [e]
        omega
      rw [hrem, s2]
end IsalVerif.Mh
