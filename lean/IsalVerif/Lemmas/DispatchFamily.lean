import IsalVerif.Impl.DispatchCheck
/-! Renaming the symbols a resolver loads commutes with running it: two resolvers that are equal up
    to the family tag of their symbols select targets of the same family under every configuration. -/
namespace IsalVerif.Dispatch

def renameSt (ρ : Nat → Nat) (s : St) : St :=
  { s with regs := fun r => renameVal ρ (s.regs r), stack := s.stack.map (renameVal ρ),
           cell := s.cell.map (renameVal ρ) }

theorem bitsOf_rename (ρ : Nat → Nat) (v : Val) : bitsOf (renameVal ρ v) = bitsOf v := by
  cases v <;> rfl

theorem rename_setR (ρ : Nat → Nat) (f : Reg → Val) (r : Reg) (v : Val) :
    (fun x => renameVal ρ (setR f r v x)) = setR (fun x => renameVal ρ (f x)) r (renameVal ρ v) := by
  funext x; simp only [setR]; split <;> rfl

theorem cpuidOut_rename (ρ : Nat → Nat) (cfg : Cfg) (v : Val) :
    cpuidOut cfg (renameVal ρ v) = cpuidOut cfg v ∧
    renameVal ρ (cpuidOut cfg v).1 = (cpuidOut cfg v).1 ∧ renameVal ρ (cpuidOut cfg v).2.1 = (cpuidOut cfg v).2.1 ∧
    renameVal ρ (cpuidOut cfg v).2.2.1 = (cpuidOut cfg v).2.2.1 ∧ renameVal ρ (cpuidOut cfg v).2.2.2 = (cpuidOut cfg v).2.2.2 := by
  cases v with
  | bits w =>
    simp only [renameVal_bits, cpuidOut]
    by_cases h1 : w = 1
    · simp [h1]
    · by_cases h7 : w = 7
      · simp [h1, h7]
      · have h1' : ¬ w = 1#32 := h1
        have h7' : ¬ w = 7#32 := h7
        simp [h1', h7']
  | sym s => simp [cpuidOut]
  | junk => simp [cpuidOut]

theorem step_rename (ρ : Nat → Nat) (cfg : Cfg) (p : List Instr) (s : St) :
    step cfg (p.map (renameInstr ρ)) (renameSt ρ s) = (step cfg p s).map (renameSt ρ) := by
  unfold step
  have hpc : (renameSt ρ s).pc = s.pc := rfl
  rw [hpc, List.getElem?_map]
  cases hi : p[s.pc]? with
  | none => simp
  | some i =>
    simp only [Option.map_some]
    cases i with
    | movImm r k => simp only [renameInstr, renameSt, Option.map_some, rename_setR, renameVal_bits]
    | movRR d r => simp only [renameInstr, renameSt, Option.map_some, rename_setR]
    | lea r sy => simp only [renameInstr, renameSt, Option.map_some, rename_setR, renameVal_sym]
    | cpuid =>
      obtain ⟨h0, h1, h2, h3, h4⟩ := cpuidOut_rename ρ cfg (s.regs .a)
      simp only [renameInstr, renameSt, h0, Option.map_some, rename_setR, h1, h2, h3, h4]
    | xgetbv => simp only [renameInstr, renameSt, Option.map_some, rename_setR, renameVal_bits, renameVal_junk]
    | xorSelf r => simp only [renameInstr, renameSt, Option.map_some, rename_setR, renameVal_bits]
    | andImm r k =>
      simp only [renameInstr, renameSt, bitsOf_rename]
      cases bitsOf (s.regs r) <;> simp only [Option.map_some, renameSt, rename_setR, renameVal_bits, renameVal_junk]
    | testImm r k =>
      simp only [renameInstr, renameSt, bitsOf_rename]
      cases bitsOf (s.regs r) <;> simp only [Option.map_some, renameSt]
    | cmpImm r k =>
      simp only [renameInstr, renameSt, bitsOf_rename]
      cases bitsOf (s.regs r) <;> simp only [Option.map_some, renameSt]
    | jz z t => simp only [renameInstr, renameSt, Option.map_some]; rfl
    | jmp t => simp only [renameInstr, renameSt, Option.map_some]
    | cmov z d r =>
      simp only [renameInstr, renameSt, Option.map_some]
      by_cases hz : s.zf = z
      · simp only [hz, if_true, rename_setR]
      · simp only [hz, if_false]
    | push r => simp only [renameInstr, renameSt, Option.map_some, List.map_cons]
    | pop r =>
      simp only [renameInstr, renameSt]
      cases s.stack with
      | nil => simp only [List.map_nil, Option.map_some, renameSt, rename_setR, renameVal_junk]
      | cons v rest => simp only [List.map_cons, Option.map_some, renameSt, rename_setR]
    | store r => simp only [renameInstr, renameSt, Option.map_some]
    | ret => simp only [renameInstr, Option.map_none]
    | unsupported => simp only [renameInstr, Option.map_none]

theorem run_rename (ρ : Nat → Nat) (cfg : Cfg) (p : List Instr) :
    ∀ (n : Nat) (s : St), run cfg (p.map (renameInstr ρ)) n (renameSt ρ s) = renameSt ρ (run cfg p n s) := by
  intro n
  induction n with
  | zero => intro s; rfl
  | succ n ih =>
    intro s
    simp only [run, step_rename]
    cases step cfg p s with
    | none => rfl
    | some s' => simp only [Option.map_some]; exact ih s'

/-- same skeleton ⇒ same family of the selected target, for every configuration -/
theorem sameSkeleton_sound (f1 f2 : Nat → Nat) (p1 p2 : List Instr) (h : sameSkeleton f1 f2 p1 p2 = true)
    (cfg : Cfg) : (select p1 cfg).map (renameVal f1) = (select p2 cfg).map (renameVal f2) := by
  have heq : p1.map (renameInstr f1) = p2.map (renameInstr f2) := by simpa [sameSkeleton] using h
  have hlen : p1.length = p2.length := by
    have := congrArg List.length heq; simpa using this
  have hc0 : ∀ ρ, renameSt ρ c0 = c0 := by intro ρ; simp [renameSt, c0]
  have r1 := run_rename f1 cfg p1 (4 * p1.length) c0
  have r2 := run_rename f2 cfg p2 (4 * p2.length) c0
  rw [hc0] at r1 r2
  simp only [select]
  have e1 : (run cfg p1 (4 * p1.length) c0).cell.map (renameVal f1) = (renameSt f1 (run cfg p1 (4 * p1.length) c0)).cell := rfl
  have e2 : (run cfg p2 (4 * p2.length) c0).cell.map (renameVal f2) = (renameSt f2 (run cfg p2 (4 * p2.length) c0)).cell := rfl
  rw [e1, e2, ← r1, ← r2, heq, hlen]

end IsalVerif.Dispatch
