import IsalVerif.Lemmas.History
import IsalVerif.Lemmas.Pad
/-! `hash_pad` + the blocks already absorbed = the standard's padded message: what a closed context
    settles to is the Merkle–Damgård state of its stream. -/
namespace IsalVerif
variable {α D : Type}

theorem blocks_take (B k : Nat) (l : List α) (h : k * B ≤ l.length) :
    blocks B k l = blocks B k (l.take (k * B)) := by
  have hpre : (l.take (k * B)).length = k * B := by rw [List.length_take]; omega
  have := blocks_append_exact B k (l.take (k*B)) (l.drop (k*B)) 0 hpre
  rw [List.take_append_drop] at this; simpa [blocks] using this

/-- all whole blocks of `b ++ p` = the whole blocks of `b`, then the blocks of (tail of b) ++ p -/
theorem chunks_append_tail (B : Nat) (hB : 0 < B) (b p : List α) (t : Nat)
    (ht : (b.drop (b.length / B * B) ++ p).length = t * B) :
    chunks B (b ++ p) = blocks B (b.length / B) b ++ blocks B t (b.drop (b.length / B * B) ++ p) := by
  unfold chunks
  have hq : b.length / B * B ≤ b.length := Nat.div_mul_le_self _ _
  have hpre : (b.take (b.length / B * B)).length = b.length / B * B := by rw [List.length_take]; omega
  have hsplit : b ++ p = b.take (b.length / B * B) ++ (b.drop (b.length / B * B) ++ p) := by
    rw [← List.append_assoc, List.take_append_drop]
  have hlen : (b ++ p).length / B = b.length / B + t := by
    rw [hsplit, List.length_append, hpre, ht, ← Nat.add_mul, Nat.mul_div_cancel _ hB]
  rw [hlen, hsplit, blocks_append_exact B _ _ _ _ hpre, ← blocks_take B _ b hq]

theorem natBE16_of_lt (x : Nat) (h : x < 2^64) : natBE 16 x = List.replicate 8 0 ++ natBE 8 x := by
  unfold natBE
  rw [show (16 : Nat) = 8 + 8 from rfl, List.range_add, List.map_append, List.map_map]
  have h1 : (List.range 8).map (fun i => UInt8.ofNat (x / 256 ^ (8 + 8 - 1 - i))) = List.replicate 8 0 := by
    apply List.ext_getElem
    · simp
    · intro i h1 h2
      simp only [List.getElem_map, List.getElem_range, List.getElem_replicate]
      have hi : i < 8 := by simpa using h1
      have : x / 256 ^ (8 + 8 - 1 - i) = 0 := by
        apply Nat.div_eq_of_lt
        have h8 : (2:Nat)^64 = 256^8 := by decide
        have hle : 256 ^ 8 ≤ 256 ^ (8 + 8 - 1 - i) := Nat.pow_le_pow_right (by decide) (by omega)
        omega
      simp only [this]; rfl
  have h2 : (List.range 8).map ((fun i => UInt8.ofNat (x / 256 ^ (8 + 8 - 1 - i))) ∘ fun x => 8 + x) =
      (List.range 8).map (fun i => UInt8.ofNat (x / 256 ^ (8 - 1 - i))) := by
    apply List.map_congr_left
    intro i hi
    have hi' : i < 8 := by simpa using hi
    simp only [Function.comp]
    have : 8 + 8 - 1 - (8 + i) = 8 - 1 - i := by omega
    rw [this]
  rw [h1, h2]

end IsalVerif

namespace IsalVerif.HashMB
variable {D : Type}

/-- the two (block, length-field) parameter sets used by the library -/
def AlgOk (A : Alg D) : Prop := (A.B = 64 ∧ A.L = 8) ∨ (A.B = 128 ∧ A.L = 16 ∧ A.lenBE = true)

theorem hashPad64 (lenBE : Bool) (tail : Bytes) (n : Nat) (hn : n < 2^61) (ht : tail.length = n % 64) :
    ∃ t, (tail ++ mdPad 64 8 lenBE n).length = t * 64 ∧
      hashPad 64 8 lenBE tail (n % 2^64) = blocks 64 t (tail ++ mdPad 64 8 lenBE n) := by
  have hn64 : n % 2^64 = n := Nat.mod_eq_of_lt (by omega)
  refine ⟨padEnd 64 8 n / 64, ?_, ?_⟩
  · simp only [mdPad, padEnd, List.length_append, List.length_cons, List.length_replicate, ht]
    have hl : (if lenBE = true then natBE 8 (8 * n) else natLE 8 (8 * n)).length = 8 := by
      split <;> simp [natBE, natLE]
    rw [hl, show (64 - 1 : Nat) = 63 from rfl, Nat.and_comm 63, and63, and63]
    omega
  · simp only [hashPad, hn64]
    have hi0 : n % 2^64 &&& (64 - 1) = n % 64 := by
      rw [hn64, show (64 - 1 : Nat) = 63 from rfl, and63]
    have hi0' : n &&& (64 - 1) = n % 64 := by rw [show (64 - 1 : Nat) = 63 from rfl, and63]
    rw [hi0', ← ht, List.take_length]
    have hk : padEnd 64 8 n - tail.length - 1 - 8 = (64 - (n + 1 + 8) % 64) % 64 := by
      simp only [padEnd]
      rw [show (64 - 1 : Nat) = 63 from rfl, Nat.and_comm 63, and63, and63, ht]
      omega
    have hbits : n * 8 % 2^64 = 8 * n := by omega
    simp only [mdPad, hk, hbits, List.append_assoc, List.cons_append]

theorem hashPad128 (tail : Bytes) (n : Nat) (hn : n < 2^61) (ht : tail.length = n % 128) :
    ∃ t, (tail ++ mdPad 128 16 true n).length = t * 128 ∧
      hashPad 128 16 true tail (n % 2^64) = blocks 128 t (tail ++ mdPad 128 16 true n) := by
  have hn64 : n % 2^64 = n := Nat.mod_eq_of_lt (by omega)
  refine ⟨padEnd 128 16 n / 128, ?_, ?_⟩
  · simp only [mdPad, padEnd, List.length_append, List.length_cons, List.length_replicate, ht, if_true]
    have hl : (natBE 16 (8 * n)).length = 16 := by simp [natBE]
    rw [hl, show (128 - 1 : Nat) = 127 from rfl, Nat.and_comm 127, and127, and127]
    omega
  · simp only [hashPad, hn64, if_true]
    have hi0' : n &&& (128 - 1) = n % 128 := by rw [show (128 - 1 : Nat) = 127 from rfl, and127]
    rw [hi0', ← ht, List.take_length]
    have hk : padEnd 128 16 n - tail.length - 1 - 8 = (128 - (n + 1 + 16) % 128) % 128 + 8 := by
      simp only [padEnd]
      rw [show (128 - 1 : Nat) = 127 from rfl, Nat.and_comm 127, and127, and127, ht]
      omega
    have hbits : n * 8 % 2^64 = 8 * n := by omega
    simp only [mdPad, hk, hbits, if_true]
    rw [natBE16_of_lt (8 * n) (by omega), ← List.replicate_append_replicate]
    simp only [List.append_assoc, List.cons_append]

/-- a closed stream settles to the final transform of the standard's Merkle–Damgård state -/
theorem target_closed (A : Alg D) (hA : AlgOk A) (b : Bytes) (hb : b.length < 2^61) :
    (target A b true).dig =
      A.fin ((chunks A.B (b ++ mdPad A.B A.L A.lenBE b.length)).foldl A.f A.init) := by
  have hB : 0 < A.B := by rcases hA with ⟨h, _⟩ | ⟨h, _⟩ <;> omega
  simp only [target, if_true]
  congr 1
  have hsd : (absorb A.B A.f ⟨A.init, []⟩ b).dig = (blocks A.B (b.length / A.B) b).foldl A.f A.init :=
    absorb_oneshot A.B A.f A.init b
  have hsp : (absorb A.B A.f ⟨A.init, []⟩ b).part = b.drop (b.length / A.B * A.B) := by simp [absorb]
  have htl : (b.drop (b.length / A.B * A.B)).length = b.length % A.B := by
    rw [List.length_drop]; have := Nat.div_add_mod b.length A.B; rw [Nat.mul_comm] at this; omega
  rw [hsd, hsp]
  have key : ∃ t, (b.drop (b.length / A.B * A.B) ++ mdPad A.B A.L A.lenBE b.length).length = t * A.B ∧
      pad A (b.drop (b.length / A.B * A.B)) (b.length % 2^64) =
        blocks A.B t (b.drop (b.length / A.B * A.B) ++ mdPad A.B A.L A.lenBE b.length) := by
    rcases hA with ⟨h1, h2⟩ | ⟨h1, h2, h3⟩
    · simp only [pad, h1, h2] at htl ⊢; exact hashPad64 A.lenBE _ _ hb htl
    · simp only [pad, h1, h2, h3] at htl ⊢; exact hashPad128 _ _ hb htl
  obtain ⟨t, ht1, ht2⟩ := key
  rw [ht2, chunks_append_tail A.B hB b _ t ht1, List.foldl_append]

end IsalVerif.HashMB
