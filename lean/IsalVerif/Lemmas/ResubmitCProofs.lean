import IsalVerif.Impl.ResubmitC
import IsalVerif.Lemmas.SubmitCProofs
/-! What one iteration of the `<alg>_ctx_mgr_resubmit` loop of today's source computes. -/
namespace IsalVerif.ResubmitC
open IsalVerif.SubmitC (and_one and_two and_four)

/-- what the caller can observe of the context after the iteration -/
structure Obs where
  status : Nat
  total : Nat
  plen : Nat
  inlen : Nat
  part : Bytes
  fin : Bool
  padded : Bool
  deriving DecidableEq, Repr

def St.obs (s : St) : Obs :=
  { status := s.status, total := s.total, plen := s.plen, inlen := s.inlen, part := s.part, fin := s.fin, padded := s.padded }

inductive OOut
  | cont (o : Obs) | ret (o : Obs) | submit (o : Obs) (fromPart : Bool) (n : Nat) | bad
  deriving DecidableEq, Repr

def Out.obs : Out → OOut
  | .cont s => .cont s.obs
  | .ret s => .ret s.obs
  | .submit s fp n => .submit s.obs fp n
  | .bad => .bad

/-- the decision the loop body must take (mirrors one unfolding of `HashMB.resubmit`) -/
def iterSpec (Bs : Nat) (fin : Bool) (padN : Nat) (s : St) : OOut :=
  if s.status / 4 % 2 = 1 then .ret { s.obs with status := 4, fin := s.fin || fin }
  else if s.plen = 0 ∧ s.inlen ≠ 0 then
    let n := s.inlen / Bs
    let copy := s.inlen % Bs
    let o1 : Obs := { s.obs with plen := (if copy ≠ 0 then copy else s.plen),
                                 part := (if copy ≠ 0 then (s.incoming.drop (n * Bs)).take copy else s.part),
                                 inlen := 0 }
    if n ≠ 0 then .submit o1 false n
    else if s.status / 2 % 2 = 1 then .submit { o1 with status := 5, padded := true } true padN
    else .ret { o1 with status := 0 }
  else if s.status / 2 % 2 = 1 then .submit { s.obs with status := 5, padded := true } true padN
  else .ret { s.obs with status := 0 }

theorem foldl_done (padN : Nat) (ps : List G) (o : Out) (h : ∀ s, o ≠ .cont s) :
    ps.foldl (step padN) o = o := by
  induction ps with
  | nil => rfl
  | cons p ps ih =>
    rw [List.foldl_cons]
    have : step padN o p = o := by
      cases o with
      | cont s => exact absurd rfl (h s)
      | _ => rfl
    rw [this]; exact ih

@[simp] theorem setLoc_same (s : St) (i v : Nat) : (s.setLoc i v).locs i = v := by simp [St.setLoc]
theorem setLoc_other (s : St) (i j v : Nat) (h : j ≠ i) : (s.setLoc i v).locs j = s.locs j := by
  simp [St.setLoc, h]
@[simp] theorem setLoc_status (s : St) (i v : Nat) : (s.setLoc i v).status = s.status := rfl
@[simp] theorem setLoc_plen (s : St) (i v : Nat) : (s.setLoc i v).plen = s.plen := rfl
@[simp] theorem setLoc_inlen (s : St) (i v : Nat) : (s.setLoc i v).inlen = s.inlen := rfl
@[simp] theorem setLoc_total (s : St) (i v : Nat) : (s.setLoc i v).total = s.total := rfl
@[simp] theorem setLoc_part (s : St) (i v : Nat) : (s.setLoc i v).part = s.part := rfl
@[simp] theorem setLoc_incoming (s : St) (i v : Nat) : (s.setLoc i v).incoming = s.incoming := rfl
@[simp] theorem setLoc_fin (s : St) (i v : Nat) : (s.setLoc i v).fin = s.fin := rfl
@[simp] theorem setLoc_padded (s : St) (i v : Nat) : (s.setLoc i v).padded = s.padded := rfl
@[simp] theorem setLoc_obs (s : St) (i v : Nat) : (s.setLoc i v).obs = s.obs := rfl

/-! ### segment 1: `if (ctx->status & COMPLETE) { status = COMPLETE; [byte swap]; return ctx; }` -/
def seg1 (fin : Bool) : List G :=
  [ ⟨none, .setLoc 10 (.and (.fld .status) (.lit 4))⟩, ⟨some 10, .setF .status (.lit 4)⟩ ] ++
  (if fin then [⟨some 10, .finDigest⟩] else []) ++ [ ⟨some 10, .ret⟩ ]

theorem run_seg1 (padN : Nat) (fin : Bool) (s : St) (hst : s.status < 2^32) :
    (seg1 fin).foldl (step padN) (.cont s) =
      if s.status / 4 % 2 = 1 then .ret ({ s with status := 4, fin := s.fin || fin }.setLoc 10 4)
      else .cont (s.setLoc 10 0) := by
  have hsm : s.status % 4294967296 = s.status := Nat.mod_eq_of_lt (by simpa using hst)
  have e : (Y.and (.fld .status) (.lit 4)).eval s % 2^32 = s.status / 4 % 2 * 4 := by
    simp only [Y.eval, Nat.reducePow, Nat.reduceMod, hsm, and_four]; omega
  by_cases c : s.status / 4 % 2 = 1
  · rw [if_pos c]
    have e' : (Y.and (.fld .status) (.lit 4)).eval s % 2^32 = 4 := by rw [e, c]
    cases fin with
    | false =>
      simp only [seg1, Bool.false_eq_true, if_false, List.append_nil, List.cons_append, List.nil_append, List.foldl_cons,
        List.foldl_nil, step, e', setLoc_same, Bool.or_false]
      simp [St.put, St.setLoc, Y.eval]
    | true =>
      simp only [seg1, if_true, List.cons_append, List.nil_append, List.foldl_cons, List.foldl_nil, step, e',
        setLoc_same, Bool.or_true]
      simp [St.put, St.setLoc, Y.eval]
  · rw [if_neg c]
    have c0 : s.status / 4 % 2 = 0 := by omega
    have e' : (Y.and (.fld .status) (.lit 4)).eval s % 2^32 = 0 := by rw [e, c0]
    cases fin with
    | false =>
      simp only [seg1, Bool.false_eq_true, if_false, List.append_nil, List.cons_append, List.nil_append, List.foldl_cons,
        List.foldl_nil, step, e', setLoc_same]
      simp
    | true =>
      simp only [seg1, if_true, List.cons_append, List.nil_append, List.foldl_cons, List.foldl_nil, step, e',
        setLoc_same]
      simp


@[simp] theorem setLoc_locs (s : St) (i v j : Nat) : (s.setLoc i v).locs j = if j = i then v else s.locs j := rfl

/-! ### segment 2: the body block -/
def seg2 (Bs lg : Nat) : List G :=
  [ ⟨none, .setLoc 11 (.land (.eq (.fld .plen) (.lit 0)) (.fld .inlen))⟩,
    ⟨some 11, .setLoc 0 (.fld .inlen)⟩,
    ⟨some 11, .setLoc 1 (.and (.loc 0) (.lit (Bs - 1)))⟩,
    ⟨none, .setLoc 12 (.land (.loc 11) (.loc 1))⟩,
    ⟨some 12, .setLoc 0 (.trunc 32 (.sub (.loc 0) (.loc 1)))⟩,
    ⟨some 12, .cpyTail (.loc 0) (.loc 1)⟩,
    ⟨some 12, .setF .plen (.loc 1)⟩,
    ⟨some 11, .setF .inlen (.lit 0)⟩,
    ⟨some 11, .setLoc 0 (.shr (.loc 0) lg)⟩,
    ⟨none, .setLoc 13 (.land (.loc 11) (.loc 0))⟩,
    ⟨some 13, .submit false (.loc 0)⟩ ]

/-- the state after the body block when it is entered -/
def bodySt (Bs : Nat) (s : St) : St :=
  { s with plen := (if s.inlen % Bs ≠ 0 then s.inlen % Bs else s.plen),
           part := (if s.inlen % Bs ≠ 0 then (s.incoming.drop (s.inlen / Bs * Bs)).take (s.inlen % Bs) else s.part),
           inlen := 0 }

theorem run_seg2 (padN Bs lg : Nat) (hB : (Bs = 64 ∧ lg = 6) ∨ (Bs = 128 ∧ lg = 7)) (s : St)
    (hp : s.plen < 2^32) (hi : s.inlen < 2^32) (hlen : s.inlen = s.incoming.length) :
    if s.plen = 0 ∧ s.inlen ≠ 0 then
      (if s.inlen / Bs ≠ 0 then
         ∃ s', (seg2 Bs lg).foldl (step padN) (.cont s) = .submit s' false (s.inlen / Bs) ∧ s'.obs = (bodySt Bs s).obs
       else ∃ s', (seg2 Bs lg).foldl (step padN) (.cont s) = .cont s' ∧ s'.obs = (bodySt Bs s).obs)
    else ∃ s', (seg2 Bs lg).foldl (step padN) (.cont s) = .cont s' ∧ s'.obs = s.obs := by
  have hpm : s.plen % 4294967296 = s.plen := Nat.mod_eq_of_lt (by simpa using hp)
  have him : s.inlen % 4294967296 = s.inlen := Nat.mod_eq_of_lt (by simpa using hi)
  by_cases c : s.plen = 0 ∧ s.inlen ≠ 0
  · rw [if_pos c]
    obtain ⟨hc0, hi0⟩ := c
    have g11 : (Y.land (.eq (.fld .plen) (.lit 0)) (.fld .inlen)).eval s % 2^32 = 1 := by
      simp only [Y.eval, Nat.reducePow, Nat.reduceMod, hpm, him, Nat.zero_mod]
      simp [hc0, hi0]
    rcases hB with ⟨rfl, rfl⟩ | ⟨rfl, rfl⟩
    · -- Bs = 64
      have hmod : ∀ x : Nat, x &&& 63 = x % 64 := fun x => Nat.and_two_pow_sub_one_eq_mod x 6
      have f1 : s.inlen % 64 % 4294967296 = s.inlen % 64 := by omega
      have f2 : (s.inlen + (18446744073709551616 - s.inlen % 64 % 18446744073709551616)) % 4294967296 =
          s.inlen - s.inlen % 64 := by omega
      have f3 : (s.inlen - s.inlen % 64) / 64 % 4294967296 = s.inlen / 64 := by omega
      have f3' : s.inlen / 64 % 4294967296 = s.inlen / 64 := by omega
      have f4 : s.inlen - s.inlen % 64 + s.inlen % 64 ≤ s.incoming.length := by rw [← hlen]; omega
      have f5 : s.inlen - s.inlen % 64 = s.inlen / 64 * 64 := by omega
      have f6 : (s.inlen - s.inlen % 64) % 4294967296 = s.inlen - s.inlen % 64 := by omega
      generalize hX : (seg2 64 6).foldl (step padN) (.cont s) = X
      simp only [seg2, List.foldl_cons, List.foldl_nil, step, g11] at hX
      by_cases hcopy : s.inlen % 64 = 0
      · by_cases hn : s.inlen / 64 = 0
        · exfalso; omega
        · rw [if_pos hn]
          simp [Y.eval, him, hmod, hcopy, hn, St.put, f3'] at hX
          subst hX
          exact ⟨_, rfl, by simp [St.obs, bodySt, hcopy, St.setLoc]⟩
      · by_cases hn : s.inlen / 64 = 0
        · rw [if_neg (by simpa using hn)]
          simp [Y.eval, him, hmod, hcopy, hn, St.put, f1, f2, f3, f4, f6] at hX
          subst hX
          exact ⟨_, rfl, by simp [St.obs, bodySt, hcopy, St.setLoc, f5]⟩
        · rw [if_pos hn]
          simp [Y.eval, him, hmod, hcopy, hn, St.put, f1, f2, f3, f4, f6] at hX
          subst hX
          exact ⟨_, rfl, by simp [St.obs, bodySt, hcopy, St.setLoc, f5]⟩
    · -- Bs = 128
      have hmod : ∀ x : Nat, x &&& 127 = x % 128 := fun x => Nat.and_two_pow_sub_one_eq_mod x 7
      have f1 : s.inlen % 128 % 4294967296 = s.inlen % 128 := by omega
      have f2 : (s.inlen + (18446744073709551616 - s.inlen % 128 % 18446744073709551616)) % 4294967296 =
          s.inlen - s.inlen % 128 := by omega
      have f3 : (s.inlen - s.inlen % 128) / 128 % 4294967296 = s.inlen / 128 := by omega
      have f3' : s.inlen / 128 % 4294967296 = s.inlen / 128 := by omega
      have f4 : s.inlen - s.inlen % 128 + s.inlen % 128 ≤ s.incoming.length := by rw [← hlen]; omega
      have f5 : s.inlen - s.inlen % 128 = s.inlen / 128 * 128 := by omega
      have f6 : (s.inlen - s.inlen % 128) % 4294967296 = s.inlen - s.inlen % 128 := by omega
      generalize hX : (seg2 128 7).foldl (step padN) (.cont s) = X
      simp only [seg2, List.foldl_cons, List.foldl_nil, step, g11] at hX
      by_cases hcopy : s.inlen % 128 = 0
      · by_cases hn : s.inlen / 128 = 0
        · exfalso; omega
        · rw [if_pos hn]
          simp [Y.eval, him, hmod, hcopy, hn, St.put, f3'] at hX
          subst hX
          exact ⟨_, rfl, by simp [St.obs, bodySt, hcopy, St.setLoc]⟩
      · by_cases hn : s.inlen / 128 = 0
        · rw [if_neg (by simpa using hn)]
          simp [Y.eval, him, hmod, hcopy, hn, St.put, f1, f2, f3, f4, f6] at hX
          subst hX
          exact ⟨_, rfl, by simp [St.obs, bodySt, hcopy, St.setLoc, f5]⟩
        · rw [if_pos hn]
          simp [Y.eval, him, hmod, hcopy, hn, St.put, f1, f2, f3, f4, f6] at hX
          subst hX
          exact ⟨_, rfl, by simp [St.obs, bodySt, hcopy, St.setLoc, f5]⟩
  · rw [if_neg c]
    have g11 : (Y.land (.eq (.fld .plen) (.lit 0)) (.fld .inlen)).eval s % 2^32 = 0 := by
      simp only [Y.eval, Nat.reducePow, Nat.reduceMod, hpm, him, Nat.zero_mod]
      by_cases h1 : s.plen = 0
      · have h2 : s.inlen = 0 := Decidable.byContradiction (fun h => c ⟨h1, h⟩)
        simp [h1, h2]
      · simp [h1]
    have hrun : (seg2 Bs lg).foldl (step padN) (.cont s) = .cont (((s.setLoc 11 0).setLoc 12 0).setLoc 13 0) := by
      simp only [seg2, List.foldl_cons, List.foldl_nil, step, g11]
      simp [Y.eval]
    exact ⟨_, hrun, rfl⟩

/-! ### segments 3 and 4: the LAST block and the idle return -/
def seg34 : List G :=
  [ ⟨none, .setLoc 14 (.and (.fld .status) (.lit 2))⟩,
    ⟨some 14, .pad 2⟩,
    ⟨some 14, .setF .status (.lit 5)⟩,
    ⟨some 14, .submit true (.loc 2)⟩,
    ⟨none, .setF .status (.lit 0)⟩,
    ⟨none, .ret⟩ ]

theorem run_seg34 (padN : Nat) (s : St) (hst : s.status < 2^32) (hpad : padN < 2^32) :
    if s.status / 2 % 2 = 1 then
      ∃ s', seg34.foldl (step padN) (.cont s) = .submit s' true padN ∧ s'.obs = { s.obs with status := 5, padded := true }
    else ∃ s', seg34.foldl (step padN) (.cont s) = .ret s' ∧ s'.obs = { s.obs with status := 0 } := by
  have hsm : s.status % 4294967296 = s.status := Nat.mod_eq_of_lt (by simpa using hst)
  have hpm : padN % 4294967296 = padN := Nat.mod_eq_of_lt (by simpa using hpad)
  have e : (Y.and (.fld .status) (.lit 2)).eval s % 2^32 = s.status / 2 % 2 * 2 := by
    simp only [Y.eval, Nat.reducePow, Nat.reduceMod, hsm, and_two]; omega
  generalize hX : seg34.foldl (step padN) (.cont s) = X
  simp only [seg34, List.foldl_cons, List.foldl_nil, step, e] at hX
  by_cases c : s.status / 2 % 2 = 1
  · rw [if_pos c]
    simp [c, Y.eval, St.put, hpm] at hX
    subst hX
    exact ⟨_, rfl, by simp [St.obs, St.setLoc]⟩
  · rw [if_neg c]
    have c0 : s.status / 2 % 2 = 0 := by omega
    simp [c0, Y.eval, St.put] at hX
    subst hX
    exact ⟨_, rfl, by simp [St.obs, St.setLoc]⟩

theorem run_seg2' (padN Bs lg : Nat) (hB : (Bs = 64 ∧ lg = 6) ∨ (Bs = 128 ∧ lg = 7)) (s : St)
    (hp : s.plen < 2^32) (hi : s.inlen < 2^32) (hlen : s.inlen = s.incoming.length) :
    ((s.plen = 0 ∧ s.inlen ≠ 0) → s.inlen / Bs ≠ 0 →
       ∃ s', (seg2 Bs lg).foldl (step padN) (.cont s) = .submit s' false (s.inlen / Bs) ∧ s'.obs = (bodySt Bs s).obs) ∧
    ((s.plen = 0 ∧ s.inlen ≠ 0) → ¬ (s.inlen / Bs ≠ 0) →
       ∃ s', (seg2 Bs lg).foldl (step padN) (.cont s) = .cont s' ∧ s'.obs = (bodySt Bs s).obs) ∧
    (¬ (s.plen = 0 ∧ s.inlen ≠ 0) →
       ∃ s', (seg2 Bs lg).foldl (step padN) (.cont s) = .cont s' ∧ s'.obs = s.obs) := by
  have key := run_seg2 padN Bs lg hB s hp hi hlen
  refine ⟨fun c d => ?_, fun c d => ?_, fun c => ?_⟩
  · rw [if_pos c, if_pos d] at key; exact key
  · rw [if_pos c, if_neg d] at key; exact key
  · rw [if_neg c] at key; exact key

theorem run_seg34' (padN : Nat) (s : St) (hst : s.status < 2^32) (hpad : padN < 2^32) :
    (s.status / 2 % 2 = 1 →
      ∃ s', seg34.foldl (step padN) (.cont s) = .submit s' true padN ∧ s'.obs = { s.obs with status := 5, padded := true }) ∧
    (¬ s.status / 2 % 2 = 1 →
      ∃ s', seg34.foldl (step padN) (.cont s) = .ret s' ∧ s'.obs = { s.obs with status := 0 }) := by
  have key := run_seg34 padN s hst hpad
  refine ⟨fun c => ?_, fun c => ?_⟩
  · rw [if_pos c] at key; exact key
  · rw [if_neg c] at key; exact key

theorem canon_split (Bs lg : Nat) (fin : Bool) : canon Bs lg fin = seg1 fin ++ (seg2 Bs lg ++ seg34) := by
  cases fin <;> rfl

/-- **one iteration of the resubmit loop of today's source takes the model's decision** -/
theorem canon_iter (padN Bs lg : Nat) (fin : Bool) (hB : (Bs = 64 ∧ lg = 6) ∨ (Bs = 128 ∧ lg = 7)) (s : St)
    (hst : s.status < 2^32) (hp : s.plen < 2^32) (hi : s.inlen < 2^32) (hlen : s.inlen = s.incoming.length)
    (hpad : padN < 2^32) :
    (run padN (canon Bs lg fin) s).obs = iterSpec Bs fin padN s := by
  unfold run
  rw [canon_split, List.foldl_append, run_seg1 padN fin s hst]
  unfold iterSpec
  by_cases c1 : s.status / 4 % 2 = 1
  · rw [if_pos c1, if_pos c1, foldl_done _ _ _ (by intro s' h; cases h)]
    simp [Out.obs, St.obs, St.setLoc]
  · rw [if_neg c1, if_neg c1, List.foldl_append]
    obtain ⟨hA, hB', hC⟩ := run_seg2' padN Bs lg hB (s.setLoc 10 0) (by simpa using hp) (by simpa using hi) (by simpa using hlen)
    simp only [setLoc_plen, setLoc_inlen] at hA hB' hC
    have tail : ∀ s' : St, s'.status = s.status →
        (seg34.foldl (step padN) (.cont s')).obs =
          if s.status / 2 % 2 = 1 then OOut.submit { s'.obs with status := 5, padded := true } true padN
          else OOut.ret { s'.obs with status := 0 } := by
      intro s' hs'
      obtain ⟨h1, h2⟩ := run_seg34' padN s' (by rw [hs']; exact hst) hpad
      rw [hs'] at h1 h2
      by_cases c4 : s.status / 2 % 2 = 1
      · obtain ⟨s2, h', ho'⟩ := h1 c4
        rw [h', if_pos c4]; simp only [Out.obs, ho']
      · obtain ⟨s2, h', ho'⟩ := h2 c4
        rw [h', if_neg c4]; simp only [Out.obs, ho']
    by_cases c2 : s.plen = 0 ∧ s.inlen ≠ 0
    · rw [if_pos c2]
      by_cases c3 : s.inlen / Bs ≠ 0
      · obtain ⟨s', h, ho⟩ := hA c2 c3
        rw [h, foldl_done _ _ _ (by intro s'' hh; cases hh)]
        simp only [c3, if_true, ne_eq, not_false_eq_true, Out.obs, ho]
        simp [bodySt, St.obs]
        by_cases h0 : s.inlen % Bs = 0 <;> simp [h0]
      · obtain ⟨s', h, ho⟩ := hB' c2 c3
        have hs' : s'.status = s.status := by
          have := congrArg Obs.status ho; simpa [St.obs, bodySt] using this
        rw [h, tail s' hs']
        simp only [c3, if_false, ho]
        by_cases c4 : s.status / 2 % 2 = 1
        · simp [c4, bodySt, St.obs]
          by_cases h0 : s.inlen % Bs = 0 <;> simp [h0]
        · simp [c4, bodySt, St.obs]
          by_cases h0 : s.inlen % Bs = 0 <;> simp [h0]
    · rw [if_neg c2]
      obtain ⟨s', h, ho⟩ := hC c2
      have hs' : s'.status = s.status := by
        have := congrArg Obs.status ho; simpa [St.obs] using this
      rw [h, tail s' hs', ho]
      by_cases c4 : s.status / 2 % 2 = 1
      · simp [c4, St.obs]
      · simp [c4, St.obs]

end IsalVerif.ResubmitC

/-! ### refinement: the loop body's decision is the model's (`HashMB.resubmit`, one unfolding) -/
namespace IsalVerif.ResubmitC
open IsalVerif.HashMB
variable {D : Type}

/-- decision of one unfolding of `HashMB.resubmit` on the context it was handed -/
inductive MDec (D : Type)
  | ret (x' : Ctx D)
  | submit (x' : Ctx D) (fromPart : Bool) (bs : List Bytes)

/-- the body of `HashMB.resubmit` with the recursive call abstracted -/
def iterModel (A : Alg D) (x : Ctx D) : MDec D :=
  if x.complete then .ret { x with processing := false, last := false, dig := A.fin x.dig }
  else if x.part = [] ∧ x.incoming ≠ [] then
    let n := x.incoming.length / A.B
    let bs := blocks A.B n x.incoming
    let x' := { x with part := x.incoming.drop (n * A.B), incoming := [] }
    if n ≠ 0 then .submit x' false bs
    else if x'.last then .submit { x' with last := false, complete := true } true (hashPad A.B A.L A.lenBE x'.part x'.total)
    else .ret { x' with processing := false }
  else if x.last then .submit { x with last := false, complete := true } true (hashPad A.B A.L A.lenBE x.part x.total)
  else .ret { x with processing := false }

/-- `iterModel` IS one unfolding of the model's loop -/
theorem resubmit_eq_iterModel (A : Alg D) (fuel : Nat) (m : M D) (c : Cid) :
    resubmit A (fuel + 1) m (some c) =
      match iterModel A (m.ctxs c) with
      | .ret x' => some (setCtx m c x', some c)
      | .submit x' _ bs => let r := mgrSubmit A.f (setCtx m c x') c bs; resubmit A fuel r.1 r.2 := by
  unfold iterModel
  rw [resubmit]
  by_cases h1 : (m.ctxs c).complete = true
  · simp [h1]
  · by_cases h2 : (m.ctxs c).part = [] ∧ (m.ctxs c).incoming ≠ []
    · by_cases h3 : (m.ctxs c).incoming.length / A.B ≠ 0
      · simp [h1, h2, h3]
      · by_cases h4 : (m.ctxs c).last = true
        · simp [h1, h2, h3, h4]
        · simp [h1, h2, h3, h4]
    · by_cases h4 : (m.ctxs c).last = true
      · simp [h1, h2, h4]
      · simp [h1, h2, h4]

/-- scalar/byte abstraction of a model context, as the loop body sees it -/
def absR (x : Ctx D) : St :=
  { status := IsalVerif.SubmitC.stw x, total := x.total, plen := x.part.length, inlen := x.incoming.length,
    part := x.part, incoming := x.incoming }

def obsOf (x : Ctx D) (fin padded : Bool) : Obs :=
  { status := IsalVerif.SubmitC.stw x, total := x.total, plen := x.part.length, inlen := x.incoming.length,
    part := x.part, fin := fin, padded := padded }

/-- **the decision `iterSpec` (= what the source's loop body computes, `canon_iter`) is the model's decision** -/
theorem iter_refines (A : Alg D) (fin : Bool) (padN : Nat) (x : Ctx D) (hB : 0 < A.B)
    (hproc : x.processing = true) :
    iterSpec A.B fin padN (absR x) =
      match iterModel A x with
      | .ret x' => .ret (obsOf x' (x.complete && fin) false)
      | .submit x' fp _ => .submit (obsOf x' false fp) fp (if fp then padN else x.incoming.length / A.B) := by
  unfold iterSpec iterModel
  have hstw4 : (absR x).status / 4 % 2 = 1 ↔ x.complete = true := by
    simp only [absR, IsalVerif.SubmitC.stw]; cases x.processing <;> cases x.last <;> cases x.complete <;> decide
  have hstw2 : (absR x).status / 2 % 2 = 1 ↔ x.last = true := by
    simp only [absR, IsalVerif.SubmitC.stw]; cases x.processing <;> cases x.last <;> cases x.complete <;> decide
  have hpl : ((absR x).plen = 0 ∧ (absR x).inlen ≠ 0) ↔ (x.part = [] ∧ x.incoming ≠ []) := by
    simp [absR, List.length_eq_zero_iff]
  by_cases h1 : x.complete = true
  · rw [if_pos (hstw4.mpr h1)]
    simp only [h1, if_true]
    simp [obsOf, absR, St.obs, IsalVerif.SubmitC.stw, h1]
  · rw [if_neg (fun h => h1 (hstw4.mp h))]
    have h1' : x.complete = false := by cases hc : x.complete <;> simp_all
    simp only [h1', Bool.false_eq_true, if_false]
    by_cases h2 : x.part = [] ∧ x.incoming ≠ []
    · rw [if_pos (hpl.mpr h2), if_pos h2]
      have hp0 : x.part = [] := h2.1
      by_cases h3 : x.incoming.length / A.B ≠ 0
      · have h3' : (absR x).inlen / A.B ≠ 0 := by simpa [absR] using h3
        rw [if_pos h3', if_pos h3]
        simp only [obsOf, absR, St.obs, IsalVerif.SubmitC.stw, Bool.false_eq_true, if_false, hp0, List.length_nil,
          List.length_drop]
        have hl : x.incoming.length - x.incoming.length / A.B * A.B = x.incoming.length % A.B := by
          have := Nat.div_add_mod x.incoming.length A.B
          rw [Nat.mul_comm] at this; omega
        by_cases h0 : x.incoming.length % A.B = 0
        · have hd : x.incoming.drop (x.incoming.length / A.B * A.B) = [] := by
            apply List.eq_nil_of_length_eq_zero; rw [List.length_drop, hl, h0]
          simp [h0, hl, hd, h1']
        · have ht : (x.incoming.drop (x.incoming.length / A.B * A.B)).take (x.incoming.length % A.B) =
              x.incoming.drop (x.incoming.length / A.B * A.B) := by
            apply List.take_of_length_le; rw [List.length_drop, hl]; exact Nat.le_refl _
          simp [h0, hl, ht, h1']
      · have h3' : ¬ ((absR x).inlen / A.B ≠ 0) := by simpa [absR] using h3
        rw [if_neg h3', if_neg h3]
        have hl : x.incoming.length - x.incoming.length / A.B * A.B = x.incoming.length % A.B := by
          have := Nat.div_add_mod x.incoming.length A.B
          rw [Nat.mul_comm] at this; omega
        have hpart : (if x.incoming.length % A.B ≠ 0 then
              (x.incoming.drop (x.incoming.length / A.B * A.B)).take (x.incoming.length % A.B) else x.part) =
            x.incoming.drop (x.incoming.length / A.B * A.B) := by
          by_cases h0 : x.incoming.length % A.B = 0
          · have hd : x.incoming.drop (x.incoming.length / A.B * A.B) = [] := by
              apply List.eq_nil_of_length_eq_zero; rw [List.length_drop, hl, h0]
            simp [h0, hd, hp0]
          · have ht : (x.incoming.drop (x.incoming.length / A.B * A.B)).take (x.incoming.length % A.B) =
                x.incoming.drop (x.incoming.length / A.B * A.B) := by
              apply List.take_of_length_le; rw [List.length_drop, hl]; exact Nat.le_refl _
            simp [h0, ht]
        have hplen : (if x.incoming.length % A.B ≠ 0 then x.incoming.length % A.B else x.part.length) =
            x.incoming.length % A.B := by
          by_cases h0 : x.incoming.length % A.B = 0 <;> simp [h0, hp0]
        by_cases h4 : x.last = true
        · rw [if_pos (hstw2.mpr h4)]
          simp only [h4, if_true]
          simp only [obsOf, absR, St.obs, IsalVerif.SubmitC.stw, hpart, hplen, List.length_drop, hl, h1', h4]
          simp [hproc]
        · rw [if_neg (fun h => h4 (hstw2.mp h))]
          have h4' : x.last = false := by cases hc : x.last <;> simp_all
          simp only [h4', Bool.false_eq_true, if_false]
          simp only [obsOf, absR, St.obs, IsalVerif.SubmitC.stw, hpart, hplen, List.length_drop, hl, h1', h4']
          simp
    · rw [if_neg (fun h => h2 (hpl.mp h)), if_neg h2]
      by_cases h4 : x.last = true
      · rw [if_pos (hstw2.mpr h4)]
        simp only [h4, if_true]
        simp [obsOf, absR, St.obs, IsalVerif.SubmitC.stw, h1', h4, hproc]
      · rw [if_neg (fun h => h4 (hstw2.mp h))]
        have h4' : x.last = false := by cases hc : x.last <;> simp_all
        simp only [h4', Bool.false_eq_true, if_false]
        simp [obsOf, absR, St.obs, IsalVerif.SubmitC.stw, h1', h4']

end IsalVerif.ResubmitC

namespace IsalVerif.ResubmitC

/-- boundary grid for the witness search: (status, plen, inlen, padN) -/
def grid (Bs : Nat) : List (Nat × Nat × Nat × Nat) :=
  [1, 3, 5, 7, 0, 4].flatMap fun st => [0, 1, Bs - 1].flatMap fun pl =>
    [0, 1, Bs - 1, Bs, Bs + 1, 2 * Bs, 3 * Bs + 5].flatMap fun il => [1, 2].map fun pn => (st, pl, il, pn)

/-- first grid point on which a translated loop body and the specification differ -/
def findWitness (Bs : Nat) (fin : Bool) (prog : List G) : Option (Nat × Nat × Nat × Nat) :=
  (grid Bs).find? fun (st, pl, il, pn) =>
    let s : St := { status := st, total := 1000, plen := pl, inlen := il,
                    part := (List.range pl).map (fun j => UInt8.ofNat (j + 100)),
                    incoming := (List.range il).map (fun j => UInt8.ofNat j) }
    !decide ((run pn prog s).obs = iterSpec Bs fin pn s)

end IsalVerif.ResubmitC
