import IsalVerif.Spec.Xts
import IsalVerif.Lemmas.AesInv
import IsalVerif.Lemmas.AesKeys
import IsalVerif.Lemmas.Chunks
/-! Helper lemmas for the XTS laws (IEEE 1619 §5): explicit forms of `xtsCrypt` (whole blocks /
    ciphertext stealing), decryption inverts encryption in both cases, and the block function may be
    replaced by one that agrees with it on 16-byte blocks.  Core Lean only. -/
namespace IsalVerif.Xts
open Aes

theorem mulAlpha_length {t : Bytes} (h : t.length = 16) : (mulAlpha t).length = 16 := by
  obtain ⟨a0, a1, a2, a3, a4, a5, a6, a7, a8, a9, a10, a11, a12, a13, a14, a15, rfl⟩ := len16_cases h
  simp [mulAlpha, wordsLE64, bytesLE64, bytesBE64]

theorem iterN_mulAlpha_length (n : Nat) {t : Bytes} (h : t.length = 16) :
    (iterN mulAlpha n t).length = 16 :=
  iterN_prop (P := fun t : Bytes => t.length = 16) (fun _ => mulAlpha_length) n h

theorem tweaks_length {t0 : Bytes} (h : t0.length = 16) (n : Nat) :
    ∀ t ∈ iterate mulAlpha t0 n, t.length = 16 :=
  iterate_mem (P := fun t : Bytes => t.length = 16) (fun _ => mulAlpha_length) h n

/-! ### one block -/

theorem xtsBlock_length {f : Bytes → Bytes} {t x : Bytes} (ht : t.length = 16)
    (hf : (f (xorBytes x t)).length = 16) : (xtsBlock f t x).length = 16 :=
  xorBytes_length_eq hf ht

theorem xtsBlock_inv {E D : Bytes → Bytes} (hD : ∀ x : Bytes, x.length = 16 → D (E x) = x)
    (hE : ∀ x : Bytes, x.length = 16 → (E x).length = 16) {t x : Bytes} (ht : t.length = 16)
    (hx : x.length = 16) : xtsBlock D t (xtsBlock E t x) = x := by
  have hxt : (xorBytes x t).length = 16 := xorBytes_length_eq hx ht
  unfold xtsBlock
  rw [xorBytes_cancel (by rw [hE _ hxt, ht]; exact Nat.le_refl _), hD _ hxt,
    xorBytes_cancel (by rw [hx, ht]; exact Nat.le_refl _)]

theorem xtsBlock_congr {f g : Bytes → Bytes} (h : ∀ x : Bytes, x.length = 16 → f x = g x)
    {t x : Bytes} (ht : t.length = 16) (hx : x.length = 16) : xtsBlock f t x = xtsBlock g t x := by
  unfold xtsBlock
  rw [h _ (xorBytes_length_eq hx ht)]

/-! ### lists of blocks -/

theorem xtsBlocks_length {E : Bytes → Bytes} (hE : ∀ x : Bytes, x.length = 16 → (E x).length = 16)
    {ts L : List Bytes} (hts : ∀ t ∈ ts, t.length = 16) (hL : ∀ x ∈ L, x.length = 16) :
    ∀ y ∈ List.zipWith (xtsBlock E) ts L, y.length = 16 := by
  induction ts generalizing L with
  | nil => intro y hy; simp at hy
  | cons t ts ih =>
    cases L with
    | nil => intro y hy; simp at hy
    | cons x L =>
      intro y hy
      rw [List.zipWith_cons_cons, List.mem_cons] at hy
      have ht := hts t (by simp)
      have hx := hL x (by simp)
      rcases hy with rfl | hy
      · exact xtsBlock_length ht (hE _ (xorBytes_length_eq hx ht))
      · exact ih (fun t' h' => hts t' (List.mem_cons_of_mem _ h'))
          (fun x' h' => hL x' (List.mem_cons_of_mem _ h')) y hy

theorem xtsBlocks_inv {E D : Bytes → Bytes} (hD : ∀ x : Bytes, x.length = 16 → D (E x) = x)
    (hE : ∀ x : Bytes, x.length = 16 → (E x).length = 16)
    {ts L : List Bytes} (hts : ∀ t ∈ ts, t.length = 16) (hL : ∀ x ∈ L, x.length = 16)
    (hlen : L.length ≤ ts.length) :
    List.zipWith (xtsBlock D) ts (List.zipWith (xtsBlock E) ts L) = L := by
  induction ts generalizing L with
  | nil =>
    have : L = [] := List.eq_nil_of_length_eq_zero (by simpa using hlen)
    subst this; rfl
  | cons t ts ih =>
    cases L with
    | nil => rfl
    | cons x L =>
      rw [List.zipWith_cons_cons, List.zipWith_cons_cons,
        xtsBlock_inv hD hE (hts t (by simp)) (hL x (by simp)),
        ih (fun t' h' => hts t' (List.mem_cons_of_mem _ h'))
          (fun x' h' => hL x' (List.mem_cons_of_mem _ h')) (by simpa using hlen)]

theorem xtsBlocks_congr {f g : Bytes → Bytes} (h : ∀ x : Bytes, x.length = 16 → f x = g x)
    {ts L : List Bytes} (hts : ∀ t ∈ ts, t.length = 16) (hL : ∀ x ∈ L, x.length = 16) :
    List.zipWith (xtsBlock f) ts L = List.zipWith (xtsBlock g) ts L :=
  zipWith_congr_mem (fun t ht x hx => xtsBlock_congr h (hts t ht) (hL x hx))

/-! ### explicit forms of `xtsCrypt` -/

theorem xtsCrypt_short (f : Bytes → Bytes) (dec : Bool) (t0 : Bytes) {x : Bytes} (h : x.length < 16) :
    xtsCrypt f dec t0 x = [] := by
  have : x.length / 16 = 0 := by omega
  simp [xtsCrypt, this]

/-- whole blocks only -/
theorem xtsCrypt_full (f : Bytes → Bytes) (dec : Bool) (t0 : Bytes) {x : Bytes} {k : Nat}
    (h : x.length = 16 * (k + 1)) :
    xtsCrypt f dec t0 x =
      (List.zipWith (xtsBlock f) (iterate mulAlpha t0 (k + 2)) (blocks 16 (k + 1) x)).flatten := by
  have hm : x.length / 16 = k + 1 := by omega
  have hb : x.length % 16 = 0 := by omega
  simp [xtsCrypt, hm, hb]

theorem tweaks_drop (t0 : Bytes) (k : Nat) :
    (iterate mulAlpha t0 (k + 2)).drop k = [iterN mulAlpha k t0, mulAlpha (iterN mulAlpha k t0)] := by
  rw [iterate_drop]; rfl

/-- ciphertext stealing, encryption direction (`dec = false`) -/
theorem xtsCrypt_steal_enc (f : Bytes → Bytes) (t0 : Bytes) {x : Bytes} {k b : Nat}
    (h : x.length = 16 * (k + 1) + b) (hb0 : 0 < b) (hb16 : b < 16) :
    xtsCrypt f false t0 x =
      (List.zipWith (xtsBlock f) (iterate mulAlpha t0 (k + 2)) (blocks 16 k x)).flatten ++
        xtsBlock f (mulAlpha (iterN mulAlpha k t0))
          (x.drop (16 * (k + 1)) ++
            (xtsBlock f (iterN mulAlpha k t0) ((x.drop (16 * k)).take 16)).drop b) ++
        (xtsBlock f (iterN mulAlpha k t0) ((x.drop (16 * k)).take 16)).take b := by
  have hm : x.length / 16 = k + 1 := by omega
  have hb : x.length % 16 = b := by omega
  have hbne : b ≠ 0 := by omega
  simp [xtsCrypt, hm, hb, hbne, tweaks_drop]

/-- ciphertext stealing, decryption direction (`dec = true`): the last two tweaks are swapped -/
theorem xtsCrypt_steal_dec (f : Bytes → Bytes) (t0 : Bytes) {x : Bytes} {k b : Nat}
    (h : x.length = 16 * (k + 1) + b) (hb0 : 0 < b) (hb16 : b < 16) :
    xtsCrypt f true t0 x =
      (List.zipWith (xtsBlock f) (iterate mulAlpha t0 (k + 2)) (blocks 16 k x)).flatten ++
        xtsBlock f (iterN mulAlpha k t0)
          (x.drop (16 * (k + 1)) ++
            (xtsBlock f (mulAlpha (iterN mulAlpha k t0)) ((x.drop (16 * k)).take 16)).drop b) ++
        (xtsBlock f (mulAlpha (iterN mulAlpha k t0)) ((x.drop (16 * k)).take 16)).take b := by
  have hm : x.length / 16 = k + 1 := by omega
  have hb : x.length % 16 = b := by omega
  have hbne : b ≠ 0 := by omega
  simp [xtsCrypt, hm, hb, hbne, tweaks_drop]

/-! ### decryption inverts encryption -/

theorem split3 {α : Type} (x : List α) (n : Nat) :
    x.take n ++ (x.drop n).take 16 ++ x.drop (n + 16) = x := by
  rw [List.append_assoc, ← List.drop_drop, List.take_append_drop, List.take_append_drop]

/-- `xtsCrypt D true` undoes `xtsCrypt E false` when `D` is a left inverse of `E` on 16-byte blocks; both the
    whole-block case and the ciphertext-stealing case. -/
theorem xtsCrypt_inv {E D : Bytes → Bytes} (hD : ∀ x : Bytes, x.length = 16 → D (E x) = x)
    (hE : ∀ x : Bytes, x.length = 16 → (E x).length = 16) {t0 : Bytes} (ht0 : t0.length = 16)
    {x : Bytes} (hx : 16 ≤ x.length) : xtsCrypt D true t0 (xtsCrypt E false t0 x) = x := by
  obtain ⟨k, hk⟩ : ∃ k, x.length / 16 = k + 1 := ⟨x.length / 16 - 1, by omega⟩
  have hts := tweaks_length ht0 (k + 2)
  have htk := iterN_mulAlpha_length k ht0
  have htk1 := mulAlpha_length htk
  by_cases hb : x.length % 16 = 0
  · -- whole blocks
    have hlen : x.length = 16 * (k + 1) := by omega
    have hL : ∀ c ∈ blocks 16 (k + 1) x, c.length = 16 := blocks_mem_length (by omega)
    have hL' := xtsBlocks_length hE hts hL
    have hL'len : (List.zipWith (xtsBlock E) (iterate mulAlpha t0 (k + 2)) (blocks 16 (k + 1) x)).length
        = k + 1 := by
      rw [List.length_zipWith, iterate_length, blocks_length]; omega
    rw [xtsCrypt_full E false t0 hlen]
    rw [xtsCrypt_full D true t0 (k := k) (by rw [flatten_length_of_forall hL', hL'len])]
    have hbl := blocks_of_flatten hL' []
    rw [List.append_nil, hL'len] at hbl
    rw [hbl, xtsBlocks_inv hD hE hts hL (by rw [iterate_length, blocks_length]; omega)]
    exact blocks_flatten_eq (by omega)
  · -- ciphertext stealing
    obtain ⟨b, hbdef⟩ : ∃ b, x.length % 16 = b := ⟨_, rfl⟩
    have hb0 : 0 < b := by omega
    have hb16 : b < 16 := by omega
    have hlen : x.length = 16 * (k + 1) + b := by omega
    have hL : ∀ c ∈ blocks 16 k x, c.length = 16 := blocks_mem_length (by omega)
    have hL' := xtsBlocks_length hE hts hL
    have hL'len : (List.zipWith (xtsBlock E) (iterate mulAlpha t0 (k + 2)) (blocks 16 k x)).length = k := by
      rw [List.length_zipWith, iterate_length, blocks_length]; omega
    rw [xtsCrypt_steal_enc E t0 hlen hb0 hb16]
    -- name the pieces
    generalize hxm1 : (x.drop (16 * k)).take 16 = xm1
    generalize hxm : x.drop (16 * (k + 1)) = xm
    have hxm1len : xm1.length = 16 := by
      rw [← hxm1, List.length_take, List.length_drop]; omega
    have hxmlen : xm.length = b := by
      rw [← hxm, List.length_drop]; omega
    generalize hyy : xtsBlock E (iterN mulAlpha k t0) xm1 = yy
    have hyylen : yy.length = 16 := by
      rw [← hyy]; exact xtsBlock_length htk (hE _ (xorBytes_length_eq hxm1len htk))
    have hzlen : (xm ++ yy.drop b).length = 16 := by
      rw [List.length_append, List.length_drop]; omega
    generalize hym1 : xtsBlock E (mulAlpha (iterN mulAlpha k t0)) (xm ++ yy.drop b) = ym1
    have hym1len : ym1.length = 16 := by
      rw [← hym1]; exact xtsBlock_length htk1 (hE _ (xorBytes_length_eq hzlen htk1))
    generalize hLs : List.zipWith (xtsBlock E) (iterate mulAlpha t0 (k + 2)) (blocks 16 k x) = L' at *
    have hflat : L'.flatten.length = 16 * k := by rw [flatten_length_of_forall hL', hL'len]
    have htl : (yy.take b).length = b := by rw [List.length_take]; omega
    have hctlen : (L'.flatten ++ ym1 ++ yy.take b).length = 16 * (k + 1) + b := by
      rw [List.length_append, List.length_append, hflat, hym1len, htl]; omega
    rw [xtsCrypt_steal_dec D t0 hctlen hb0 hb16]
    -- the pieces of the ciphertext
    have h1 : blocks 16 k (L'.flatten ++ ym1 ++ yy.take b) = L' := by
      have := blocks_of_flatten hL' (ym1 ++ yy.take b)
      rwa [hL'len, ← List.append_assoc] at this
    have h2 : ((L'.flatten ++ ym1 ++ yy.take b).drop (16 * k)).take 16 = ym1 := by
      rw [List.append_assoc, List.drop_left' hflat, List.take_left' hym1len]
    have h3 : (L'.flatten ++ ym1 ++ yy.take b).drop (16 * (k + 1)) = yy.take b :=
      List.drop_left' (by rw [List.length_append, hflat, hym1len]; omega)
    rw [h1, h2, h3]
    have h4 : xtsBlock D (mulAlpha (iterN mulAlpha k t0)) ym1 = xm ++ yy.drop b := by
      rw [← hym1]; exact xtsBlock_inv hD hE htk1 hzlen
    rw [h4, List.drop_left' hxmlen, List.take_left' hxmlen, List.take_append_drop]
    have h5 : xtsBlock D (iterN mulAlpha k t0) yy = xm1 := by
      rw [← hyy]; exact xtsBlock_inv hD hE htk hxm1len
    rw [h5, ← hLs, xtsBlocks_inv hD hE hts hL (by rw [iterate_length, blocks_length]; omega),
      blocks_flatten, ← hxm1, ← hxm]
    have : 16 * (k + 1) = 16 * k + 16 := by omega
    rw [this]
    exact split3 x (16 * k)

/-- the block function only matters on 16-byte blocks -/
theorem xtsCrypt_congr {f g : Bytes → Bytes} (hfg : ∀ x : Bytes, x.length = 16 → f x = g x)
    (hf : ∀ x : Bytes, x.length = 16 → (f x).length = 16) (dec : Bool) {t0 : Bytes}
    (ht0 : t0.length = 16) (x : Bytes) : xtsCrypt f dec t0 x = xtsCrypt g dec t0 x := by
  by_cases hx : x.length < 16
  · rw [xtsCrypt_short f dec t0 hx, xtsCrypt_short g dec t0 hx]
  · obtain ⟨k, hk⟩ : ∃ k, x.length / 16 = k + 1 := ⟨x.length / 16 - 1, by omega⟩
    have hts := tweaks_length ht0 (k + 2)
    have htk := iterN_mulAlpha_length k ht0
    have htk1 := mulAlpha_length htk
    by_cases hb : x.length % 16 = 0
    · have hlen : x.length = 16 * (k + 1) := by omega
      rw [xtsCrypt_full f dec t0 hlen, xtsCrypt_full g dec t0 hlen,
        xtsBlocks_congr hfg hts (blocks_mem_length (by omega))]
    · obtain ⟨b, hbdef⟩ : ∃ b, x.length % 16 = b := ⟨_, rfl⟩
      have hb0 : 0 < b := by omega
      have hb16 : b < 16 := by omega
      have hlen : x.length = 16 * (k + 1) + b := by omega
      have hL : ∀ c ∈ blocks 16 k x, c.length = 16 := blocks_mem_length (by omega)
      have hxm1len : ((x.drop (16 * k)).take 16).length = 16 := by
        rw [List.length_take, List.length_drop]; omega
      have hxmlen : (x.drop (16 * (k + 1))).length = b := by
        rw [List.length_drop]; omega
      cases dec with
      | false =>
        have hyylen : (xtsBlock f (iterN mulAlpha k t0) ((x.drop (16 * k)).take 16)).length = 16 :=
          xtsBlock_length htk (hf _ (xorBytes_length_eq hxm1len htk))
        rw [xtsCrypt_steal_enc f t0 hlen hb0 hb16, xtsCrypt_steal_enc g t0 hlen hb0 hb16,
          xtsBlocks_congr hfg hts hL, ← xtsBlock_congr hfg htk hxm1len,
          xtsBlock_congr hfg htk1 (by rw [List.length_append, hxmlen, List.length_drop, hyylen]; omega)]
      | true =>
        have hyylen : (xtsBlock f (mulAlpha (iterN mulAlpha k t0)) ((x.drop (16 * k)).take 16)).length = 16 :=
          xtsBlock_length htk1 (hf _ (xorBytes_length_eq hxm1len htk1))
        rw [xtsCrypt_steal_dec f t0 hlen hb0 hb16, xtsCrypt_steal_dec g t0 hlen hb0 hb16,
          xtsBlocks_congr hfg hts hL, ← xtsBlock_congr hfg htk1 hxm1len,
          xtsBlock_congr hfg htk (by rw [List.length_append, hxmlen, List.length_drop, hyylen]; omega)]

/-! ### the AES instances -/

theorem xtsDec_xtsEnc (k2 k1 : Bytes) {tw : Bytes} (htw : tw.length = 16) {pt : Bytes}
    (hpt : 16 ≤ pt.length) : xtsDec k2 k1 tw (xtsEnc k2 k1 tw pt) = pt :=
  xtsCrypt_inv (fun _ hx => invCipher_cipher (keyExpansion_mem_length k1) hx)
    (fun _ hx => cipher_length (keyExpansion_mem_length k1) hx)
    (cipher_length (keyExpansion_mem_length k2) htw) hpt

theorem xtsEncExp_keyExpansion (k2 k1 tw pt : Bytes) :
    xtsEncExp (keyExpansion k2) (keyExpansion k1) tw pt = xtsEnc k2 k1 tw pt := rfl

theorem xtsDecExp_keyExpansion (k2 k1 : Bytes) {tw : Bytes} (htw : tw.length = 16) (ct : Bytes) :
    xtsDecExp (keyExpansion k2) (decSchedule (keyExpansion k1)) tw ct = xtsDec k2 k1 tw ct :=
  xtsCrypt_congr (fun _ hx => eqInvCipher_decSchedule (keyExpansion_mem_length k1) hx)
    (fun _ hx => by
      rw [eqInvCipher_decSchedule (keyExpansion_mem_length k1) hx]
      exact invCipher_length (keyExpansion_mem_length k1) hx)
    true (cipher_length (keyExpansion_mem_length k2) htw) ct

/-- XTS encryption preserves the length (no expansion: that is what ciphertext stealing is for) -/
theorem xtsCrypt_enc_length {E : Bytes → Bytes} (hE : ∀ x : Bytes, x.length = 16 → (E x).length = 16)
    {t0 : Bytes} (ht0 : t0.length = 16) {x : Bytes} (hx : 16 ≤ x.length) :
    (xtsCrypt E false t0 x).length = x.length := by
  obtain ⟨k, hk⟩ : ∃ k, x.length / 16 = k + 1 := ⟨x.length / 16 - 1, by omega⟩
  have hts := tweaks_length ht0 (k + 2)
  have htk := iterN_mulAlpha_length k ht0
  have htk1 := mulAlpha_length htk
  by_cases hb : x.length % 16 = 0
  · have hlen : x.length = 16 * (k + 1) := by omega
    have hL : ∀ c ∈ blocks 16 (k + 1) x, c.length = 16 := blocks_mem_length (by omega)
    rw [xtsCrypt_full E false t0 hlen, flatten_length_of_forall (xtsBlocks_length hE hts hL),
      List.length_zipWith, iterate_length, blocks_length]
    omega
  · obtain ⟨b, hbdef⟩ : ∃ b, x.length % 16 = b := ⟨_, rfl⟩
    have hb0 : 0 < b := by omega
    have hb16 : b < 16 := by omega
    have hlen : x.length = 16 * (k + 1) + b := by omega
    have hL : ∀ c ∈ blocks 16 k x, c.length = 16 := blocks_mem_length (by omega)
    have hxm1len : ((x.drop (16 * k)).take 16).length = 16 := by
      rw [List.length_take, List.length_drop]; omega
    have hxmlen : (x.drop (16 * (k + 1))).length = b := by
      rw [List.length_drop]; omega
    have hyylen : (xtsBlock E (iterN mulAlpha k t0) ((x.drop (16 * k)).take 16)).length = 16 :=
      xtsBlock_length htk (hE _ (xorBytes_length_eq hxm1len htk))
    rw [xtsCrypt_steal_enc E t0 hlen hb0 hb16, List.length_append, List.length_append,
      flatten_length_of_forall (xtsBlocks_length hE hts hL), List.length_zipWith, iterate_length,
      blocks_length, List.length_take, hyylen,
      xtsBlock_length htk1 (hE _ (xorBytes_length_eq
        (by rw [List.length_append, hxmlen, List.length_drop, hyylen]; omega) htk1))]
    omega

theorem xtsEnc_length (k2 k1 : Bytes) {tw : Bytes} (htw : tw.length = 16) {pt : Bytes}
    (hpt : 16 ≤ pt.length) : (xtsEnc k2 k1 tw pt).length = pt.length :=
  xtsCrypt_enc_length (fun _ hx => cipher_length (keyExpansion_mem_length k1) hx)
    (cipher_length (keyExpansion_mem_length k2) htw) hpt

end IsalVerif.Xts
