import IsalVerif.Lemmas.PadSpec
/-!
# The synchronous base family (`*_ctx_base.c`): update = absorb, final = the standard's padding

`baseUpdate` / `baseFinal` of `Impl/HashMB.lean` transcribe `sha*_update` / `sha*_final` of the base
files (their own top-up code and their own padding code, not `hash_pad`).
-/
namespace IsalVerif.HashMB
variable {D : Type}

/-- what `absorb` does, in terms of `(digest, partial)` of a context -/
def sOf (x : Ctx D) : S UInt8 D := ⟨x.dig, x.part⟩

theorem absorb_short (B : Nat) (f : D → Bytes → D) (s : S UInt8 D) (data : Bytes)
    (h : s.part.length + data.length < B) : absorb B f s data = ⟨s.dig, s.part ++ data⟩ := by
  simp only [absorb]
  have h0 : (s.part ++ data).length / B = 0 := Nat.div_eq_of_lt (by rw [List.length_append]; exact h)
  rw [h0]
  simp [blocks]

theorem absorb_exact (B : Nat) (hB : 0 < B) (f : D → Bytes → D) (s : S UInt8 D) (data : Bytes)
    (h : s.part.length + data.length = B) : absorb B f s data = ⟨f s.dig (s.part ++ data), []⟩ := by
  simp only [absorb]
  have hl : (s.part ++ data).length = B := by rw [List.length_append]; exact h
  have h1 : (s.part ++ data).length / B = 1 := by rw [hl]; exact Nat.div_self hB
  rw [h1]
  simp only [blocks, List.foldl, Nat.one_mul]
  rw [List.take_of_length_le (by omega), List.drop_of_length_le (by omega)]

/-- outcome of the top-up step, by cases -/
theorem baseTopUp_cases (A : Alg D) (x : Ctx D) (hx : x.part.length < A.B) (data : Bytes) :
    (x.part = [] ∧ A.B ≤ data.length ∧ baseTopUp A x data = (x, data)) ∨
    (x.part.length + data.length < A.B ∧ baseTopUp A x data = ({ x with part := x.part ++ data }, [])) ∨
    (A.B ≤ x.part.length + data.length ∧ (x.part ≠ [] ∨ data.length < A.B) ∧
      baseTopUp A x data =
        ({ x with dig := A.f x.dig (x.part ++ data.take (A.B - x.part.length)), part := [] },
          data.drop (A.B - x.part.length))) := by
  unfold baseTopUp
  by_cases hc : x.part ≠ [] ∨ data.length < A.B
  · rw [if_pos hc]
    simp only []
    by_cases hs : x.part.length + data.length < A.B
    · right; left
      refine ⟨hs, ?_⟩
      have hmin : min (A.B - x.part.length) data.length = data.length := by omega
      rw [hmin]
      by_cases hd : data.length ≠ 0
      · simp only [hd, ne_eq, not_false_eq_true, if_true, List.take_length, List.drop_length]
        have : ¬ A.B ≤ (x.part ++ data).length := by rw [List.length_append]; omega
        simp only [this, if_false]
      · have hd0 : data = [] := List.length_eq_zero_iff.mp (by omega)
        subst hd0
        simp only [List.length_nil, ne_eq, not_true_eq_false, if_false, List.append_nil]
        have : ¬ A.B ≤ x.part.length := by omega
        simp only [this, if_false]
    · right; right
      have hge : A.B ≤ x.part.length + data.length := by omega
      refine ⟨hge, hc, ?_⟩
      have hmin : min (A.B - x.part.length) data.length = A.B - x.part.length := by omega
      have hne : A.B - x.part.length ≠ 0 := by omega
      rw [hmin]
      simp only [hne, ne_eq, not_false_eq_true, if_true]
      have : A.B ≤ (x.part ++ List.take (A.B - x.part.length) data).length := by
        rw [List.length_append, List.length_take]; omega
      simp only [this, if_true]
  · left
    rw [if_neg hc]
    have hp : x.part = [] := by
      cases hx' : x.part with
      | nil => rfl
      | cons a l => exact absurd (Or.inl (by simp [hx'])) hc
    have hd : A.B ≤ data.length := by
      have : ¬ data.length < A.B := fun h => hc (Or.inr h)
      omega
    exact ⟨hp, hd, rfl⟩

/-- body + stash on a context without a carried block = `absorb` of the remainder -/
theorem baseBodyStash (A : Alg D) (x : Ctx D) (rem : Bytes) (hp : x.part = []) :
    sOf (baseStash (baseBody A (x, rem))) = absorb A.B A.f (sOf x) rem := by
  simp only [baseBody, hp, if_true, baseStash, sOf, absorb, List.nil_append]
  split <;> rename_i h
  · rfl
  · have : List.drop (rem.length / A.B * A.B) rem = [] := by simpa using h
    simp [this, hp]

/-- **`baseUpdate` = `absorb`** on (digest, carried partial block) -/
theorem baseUpdate_core (A : Alg D) (hB : 0 < A.B) (x : Ctx D) (hx : x.part.length < A.B) (data : Bytes) :
    sOf (baseUpdate A x data) = absorb A.B A.f (sOf x) data := by
  have hstep : sOf (baseUpdate A x data) =
      sOf (baseStash (baseBody A (baseTopUp A { x with total := (x.total + data.length) % 2^64 } data))) := rfl
  rw [hstep]
  generalize hx0 : ({ x with total := (x.total + data.length) % 2^64 } : Ctx D) = x0
  have hx0p : x0.part = x.part := by subst hx0; rfl
  have hx0s : sOf x0 = sOf x := by subst hx0; rfl
  rw [← hx0s]
  have hx0l : x0.part.length < A.B := by rw [hx0p]; exact hx
  rcases baseTopUp_cases A x0 hx0l data with ⟨hp, _, he⟩ | ⟨hs, he⟩ | ⟨hge, _, he⟩
  · rw [he]; exact baseBodyStash A x0 data hp
  · rw [he]
    have : absorb A.B A.f (sOf x0) data = ⟨x0.dig, x0.part ++ data⟩ := absorb_short A.B A.f (sOf x0) data hs
    rw [this]
    by_cases hnil : x0.part ++ data = []
    · simp [baseBody, baseStash, sOf, hnil, blocks]
    · simp [baseBody, baseStash, sOf, hnil]
  · rw [he]
    have hsplit : data = data.take (A.B - x0.part.length) ++ data.drop (A.B - x0.part.length) :=
      (List.take_append_drop _ _).symm
    have h1 : absorb A.B A.f (sOf x0) (data.take (A.B - x0.part.length)) =
        ⟨A.f x0.dig (x0.part ++ data.take (A.B - x0.part.length)), []⟩ :=
      absorb_exact A.B hB A.f (sOf x0) _ (by simp only [sOf, List.length_take]; omega)
    have h2 : absorb A.B A.f (sOf x0) data =
        absorb A.B A.f (absorb A.B A.f (sOf x0) (data.take (A.B - x0.part.length))) (data.drop (A.B - x0.part.length)) := by
      rw [absorb_append A.B hB, ← hsplit]
    rw [h2, h1]
    exact baseBodyStash A _ _ rfl

theorem baseStash_fields (p : Ctx D × Bytes) :
    (baseStash p).total = p.1.total ∧ (baseStash p).lane = p.1.lane ∧ (baseStash p).incoming = p.1.incoming ∧
    (baseStash p).error = p.1.error := by
  unfold baseStash; split <;> exact ⟨rfl, rfl, rfl, rfl⟩

theorem baseBody_fields (A : Alg D) (p : Ctx D × Bytes) :
    (baseBody A p).1.total = p.1.total ∧ (baseBody A p).1.lane = p.1.lane ∧ (baseBody A p).1.incoming = p.1.incoming ∧
    (baseBody A p).1.error = p.1.error := by
  unfold baseBody; split <;> exact ⟨rfl, rfl, rfl, rfl⟩

theorem baseTopUp_fields (A : Alg D) (x : Ctx D) (data : Bytes) :
    (baseTopUp A x data).1.total = x.total ∧ (baseTopUp A x data).1.lane = x.lane ∧
    (baseTopUp A x data).1.incoming = x.incoming ∧ (baseTopUp A x data).1.error = x.error := by
  unfold baseTopUp
  simp only []
  split
  · split <;> split <;> exact ⟨rfl, rfl, rfl, rfl⟩
  · exact ⟨rfl, rfl, rfl, rfl⟩

theorem baseUpdate_fields (A : Alg D) (x : Ctx D) (data : Bytes) :
    (baseUpdate A x data).total = (x.total + data.length) % 2^64 ∧
    (baseUpdate A x data).processing = false ∧ (baseUpdate A x data).last = false ∧
    (baseUpdate A x data).complete = false ∧ (baseUpdate A x data).lane = x.lane ∧
    (baseUpdate A x data).incoming = x.incoming ∧ (baseUpdate A x data).error = x.error := by
  refine ⟨?_, rfl, rfl, rfl, ?_, ?_, ?_⟩
  · show (baseStash _).total = _
    rw [(baseStash_fields _).1, (baseBody_fields A _).1, (baseTopUp_fields A _ _).1]
  · show (baseStash _).lane = _
    rw [(baseStash_fields _).2.1, (baseBody_fields A _).2.1, (baseTopUp_fields A _ _).2.1]
  · show (baseStash _).incoming = _
    rw [(baseStash_fields _).2.2.1, (baseBody_fields A _).2.2.1, (baseTopUp_fields A _ _).2.2.1]
  · show (baseStash _).error = _
    rw [(baseStash_fields _).2.2.2, (baseBody_fields A _).2.2.2, (baseTopUp_fields A _ _).2.2.2]

end IsalVerif.HashMB

namespace IsalVerif.HashMB
variable {D : Type}

/-- the padding code of the base files builds the same blocks as `hash_pad` -/
theorem baseFinal_blocks (A : Alg D) (hA : AlgOk A) (x : Ctx D) (hx : x.total < 2^64 - 128)
    (hp : x.part.length = x.total % A.B) :
    (baseFinal A x).dig = A.fin ((hashPad A.B A.L A.lenBE x.part x.total).foldl A.f x.dig) := by
  have htot : x.total % 2^64 = x.total := Nat.mod_eq_of_lt (by omega)
  rcases hA with ⟨hB, hL⟩ | ⟨hB, hL, _⟩
  · -- B = 64, L = 8
    have hp' : x.part.length = x.total % 64 := by rw [hB] at hp; exact hp
    obtain ⟨he, hiff, _⟩ := padEnd64 x.total (by omega)
    simp only [baseFinal, hashPad, hB, hL, htot]
    have hi0 : x.total &&& (64 - 1) = x.total % 64 := by rw [show (64 - 1 : Nat) = 63 from rfl, and63]
    rw [hi0, ← hp', List.take_length]
    have hlt : x.part.length < 64 := by rw [hp']; exact Nat.mod_lt _ (by decide)
    by_cases hfit : x.part.length + 1 + 8 ≤ 64
    · have he64 : padEnd 64 8 x.total = 64 := hiff.mpr (by rw [← hp']; exact hfit)
      have hnot : ¬ (x.part.length + 1 > 64 - 8) := by omega
      rw [he64]; simp only [hnot, if_false]
      have : 64 - (x.part.length + 1) - 8 = 64 - x.part.length - 1 - 8 := by omega
      rw [this]
    · have he128 : padEnd 64 8 x.total = 128 := by
        rcases he with h | h
        · exact absurd (by rw [← hp'] at hiff; exact hiff.mp h) hfit
        · exact h
      have hyes : x.part.length + 1 > 64 - 8 := by omega
      rw [he128]; simp only [hyes, if_true]
      have : 2 * 64 - (x.part.length + 1) - 8 = 128 - x.part.length - 1 - 8 := by omega
      rw [this]
  · -- B = 128, L = 16
    have hp' : x.part.length = x.total % 128 := by rw [hB] at hp; exact hp
    obtain ⟨he, hiff, _⟩ := padEnd128 x.total (by omega)
    simp only [baseFinal, hashPad, hB, hL, htot]
    have hi0 : x.total &&& (128 - 1) = x.total % 128 := by rw [show (128 - 1 : Nat) = 127 from rfl, and127]
    rw [hi0, ← hp', List.take_length]
    have hlt : x.part.length < 128 := by rw [hp']; exact Nat.mod_lt _ (by decide)
    by_cases hfit : x.part.length + 1 + 16 ≤ 128
    · have he1 : padEnd 128 16 x.total = 128 := hiff.mpr (by rw [← hp']; exact hfit)
      have hnot : ¬ (x.part.length + 1 > 128 - 16) := by omega
      rw [he1]; simp only [hnot, if_false]
      have : 128 - (x.part.length + 1) - 8 = 128 - x.part.length - 1 - 8 := by omega
      rw [this]
    · have he2 : padEnd 128 16 x.total = 256 := by
        rcases he with h | h
        · exact absurd (by rw [← hp'] at hiff; exact hiff.mp h) hfit
        · exact h
      have hyes : x.part.length + 1 > 128 - 16 := by omega
      rw [he2]; simp only [hyes, if_true]
      have : 2 * 128 - (x.part.length + 1) - 8 = 256 - x.part.length - 1 - 8 := by omega
      rw [this]

theorem baseFinal_fields (A : Alg D) (x : Ctx D) :
    (baseFinal A x).total = x.total ∧ (baseFinal A x).processing = false ∧ (baseFinal A x).last = false ∧
    (baseFinal A x).complete = true ∧ (baseFinal A x).lane = x.lane ∧ (baseFinal A x).error = x.error ∧
    (baseFinal A x).part = x.part ∧ (baseFinal A x).incoming = x.incoming :=
  ⟨rfl, rfl, rfl, rfl, rfl, rfl, rfl, rfl⟩

end IsalVerif.HashMB
