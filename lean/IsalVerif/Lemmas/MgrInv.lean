import IsalVerif.Lemmas.Settle
import IsalVerif.Lemmas.ListAux
/-! Lane bookkeeping invariant `MgrOk` of the scheduler model and its preservation by
    `retireMin`, `mgrSubmit`, `mgrFlush` and context-only updates. -/
namespace IsalVerif.HashMB
variable {D : Type}

theorem minLen_attained (m : M D) : ∀ (l : List Cid), l ≠ [] → ∃ c ∈ l, laneLen (m.ctxs c) = minLen m l
  | [], h => absurd rfl h
  | [c], _ => ⟨c, List.mem_cons_self, rfl⟩
  | c :: d :: r, _ => by
    obtain ⟨c', hm, hc'⟩ := minLen_attained m (d :: r) (by simp)
    show ∃ x ∈ c :: d :: r, laneLen (m.ctxs x) = Nat.min (laneLen (m.ctxs c)) (minLen m (d :: r))
    by_cases hle : laneLen (m.ctxs c) ≤ minLen m (d :: r)
    · exact ⟨c, List.mem_cons_self, (Nat.min_eq_left hle).symm⟩
    · exact ⟨c', List.mem_cons_of_mem _ hm, by rw [hc']; exact (Nat.min_eq_right (by omega)).symm⟩

theorem pickMin_some (m : M D) (k : Nat) : ∀ (l : List Cid), (∃ c ∈ l, laneLen (m.ctxs c) = k) →
    ∃ c, pickMin m k l = some c
  | [], ⟨_, h, _⟩ => by cases h
  | x :: xs, ⟨c, hc, hk⟩ => by
    simp only [pickMin]
    by_cases hx : laneLen (m.ctxs x) = k
    · exact ⟨x, by rw [if_pos hx]⟩
    · rw [if_neg hx]
      rcases List.mem_cons.mp hc with rfl | hc'
      · exact absurd hk hx
      · exact pickMin_some m k xs ⟨c, hc', hk⟩

theorem pickMin_minLen (m : M D) (l : List Cid) (h : l ≠ []) : ∃ c, pickMin m (minLen m l) l = some c :=
  pickMin_some m _ l (minLen_attained m l h)

theorem mem_occupied {m : M D} {c : Cid} : c ∈ occupied m ↔ some c ∈ m.slots := by
  simp [occupied, List.mem_filterMap]

theorem occupied_ne_nil_of_mem {m : M D} {c : Cid} (h : some c ∈ m.slots) : occupied m ≠ [] := by
  intro h0; have := mem_occupied.mpr h; rw [h0] at this; cases this

theorem occupied_eq_nil {m : M D} : occupied m = [] ↔ ∀ c, some c ∉ m.slots := by
  constructor
  · intro h c hc; exact occupied_ne_nil_of_mem hc h
  · intro h
    cases ho : occupied m with
    | nil => rfl
    | cons c r => exact absurd (mem_occupied.mp (by rw [ho]; exact List.mem_cons_self)) (h c)

/-- lane bookkeeping is consistent -/
structure MgrOk (m : M D) : Prop where
  /-- the manager is never full between calls: a full manager has just retired a lane -/
  free_ne : m.free ≠ []
  free_none : ∀ i ∈ m.free, m.slots[i]? = some none
  free_nodup : m.free.Nodup
  none_free : ∀ i, m.slots[i]? = some none → i ∈ m.free
  /-- a context in a slot carries a lane job and is marked PROCESSING -/
  coh : ∀ c, some c ∈ m.slots → (m.ctxs c).lane ≠ none ∧ (m.ctxs c).processing = true
  /-- a context with a lane job is in a slot -/
  lane_slot : ∀ c, (m.ctxs c).lane ≠ none → some c ∈ m.slots
  /-- no context occupies two lanes -/
  nodup : ∀ c, m.slots.count (some c) ≤ 1

theorem MgrOk.free_lt {m : M D} (h : MgrOk m) : ∀ i ∈ m.free, i < m.slots.length := by
  intro i hi
  have := h.free_none i hi
  exact (List.getElem?_eq_some_iff.mp this).1

theorem advance_lane_ne (f : D → Bytes → D) (k : Nat) (x : Ctx D) :
    (advance f k x).lane ≠ none ↔ x.lane ≠ none := by
  unfold advance; split <;> simp_all

theorem ranCtxs_lane_ne (f : D → Bytes → D) (all : Bool) (m : M D) (k : Nat) (c j : Cid) :
    (ranCtxs f all m k c j).lane ≠ none ↔ (m.ctxs j).lane ≠ none := by
  unfold ranCtxs; split
  · exact advance_lane_ne f k _
  · exact Iff.rfl

/-- `MgrOk` without the "never full" clause: the state inside `mgrSubmit` after the lane is taken -/
structure MgrOk' (m : M D) : Prop where
  free_none : ∀ i ∈ m.free, m.slots[i]? = some none
  free_nodup : m.free.Nodup
  none_free : ∀ i, m.slots[i]? = some none → i ∈ m.free
  coh : ∀ c, some c ∈ m.slots → (m.ctxs c).lane ≠ none ∧ (m.ctxs c).processing = true
  lane_slot : ∀ c, (m.ctxs c).lane ≠ none → some c ∈ m.slots
  nodup : ∀ c, m.slots.count (some c) ≤ 1

theorem retire_ok' (m : M D) (ctxs' : Cid → Ctx D) (c : Cid) (h : MgrOk' m) (hc : some c ∈ m.slots)
    (hl : ∀ j, (ctxs' j).lane ≠ none ↔ (m.ctxs j).lane ≠ none)
    (hp : ∀ j, (ctxs' j).processing = (m.ctxs j).processing) : MgrOk (retire m ctxs' c) := by
  have hidx := List.idxOf_lt_length_of_mem hc
  have hget : m.slots[m.slots.idxOf (some c)]? = some (some c) := by
    rw [List.getElem?_eq_getElem hidx, List.getElem_idxOf]
  have hnotfree : m.slots.idxOf (some c) ∉ m.free := by
    intro hf; have := h.free_none _ hf; rw [hget] at this; cases this
  have hgone : some c ∉ m.slots.set (m.slots.idxOf (some c)) none :=
    not_mem_set_idxOf (some c) none (by simp) m.slots (h.nodup c)
  refine ⟨by simp [retire], ?_, ?_, ?_, ?_, ?_, ?_⟩
  · intro i hi
    simp only [retire, slotOf, List.mem_cons] at hi ⊢
    rcases hi with rfl | hi
    · rw [List.getElem?_set]; simp [hidx]
    · rw [List.getElem?_set]; split
      · simp [hidx]
      · exact h.free_none i hi
  · simp only [retire, slotOf, List.nodup_cons]; exact ⟨hnotfree, h.free_nodup⟩
  · intro i hi
    simp only [retire, slotOf, List.mem_cons] at hi ⊢
    rw [List.getElem?_set] at hi
    split at hi
    · rename_i he; left; exact he.symm
    · right; exact h.none_free i hi
  · intro j hj
    simp only [retire, slotOf] at hj ⊢
    have hjc : j ≠ c := fun e => hgone (e ▸ hj)
    have hj' : some j ∈ m.slots := mem_set_of_mem_ne hj (by simp)
    simp only [hjc, if_false]
    exact ⟨(hl j).mpr (h.coh j hj').1, (hp j).trans (h.coh j hj').2⟩
  · intro j hj
    simp only [retire, slotOf] at hj ⊢
    by_cases hjc : j = c
    · subst hjc; simp at hj
    · simp only [hjc, if_false] at hj
      have hin := h.lane_slot j ((hl j).mp hj)
      obtain ⟨n, hn, hn2⟩ := List.mem_iff_getElem.mp hin
      have : (m.slots.set (m.slots.idxOf (some c)) none)[n]? = m.slots[n]? := by
        apply getElem?_set_idxOf_ne _ _ _ _ _ hc
        rw [List.getElem?_eq_getElem hn, hn2]; simp [hjc]
      exact List.mem_iff_getElem?.mpr ⟨n, by rw [this, List.getElem?_eq_getElem hn, hn2]⟩
  · intro j
    simp only [retire, slotOf]
    exact Nat.le_trans (count_set_le_of_ne (some j) none (by simp) _ _) (h.nodup j)

theorem MgrOk.to' {m : M D} (h : MgrOk m) : MgrOk' m :=
  ⟨h.free_none, h.free_nodup, h.none_free, h.coh, h.lane_slot, h.nodup⟩

theorem retire_ok (m : M D) (ctxs' : Cid → Ctx D) (c : Cid) (h : MgrOk m) (hc : some c ∈ m.slots)
    (hl : ∀ j, (ctxs' j).lane ≠ none ↔ (m.ctxs j).lane ≠ none)
    (hp : ∀ j, (ctxs' j).processing = (m.ctxs j).processing) : MgrOk (retire m ctxs' c) :=
  retire_ok' m ctxs' c h.to' hc hl hp

theorem retireMin_ok (f : D → Bytes → D) (all : Bool) (m : M D) (h : MgrOk m) :
    MgrOk (retireMin f all m).1 := by
  rw [retireMin_eq]
  cases hp : pickMin m (minLen m (occupied m)) (occupied m) with
  | none => exact h
  | some c =>
    obtain ⟨hmem, _⟩ := pickMin_spec m _ _ c hp
    apply retire_ok m _ c h (mem_occupied.mp hmem)
    · intro j; exact ranCtxs_lane_ne f all m _ c j
    · intro j; exact (ranCtxs_sameUser f all m _ c j).2.2.2.2.2.1

theorem placed_ok' (m : M D) (c : Cid) (bs) (i : Nat) (fr : List Nat) (h : MgrOk m)
    (hc : (m.ctxs c).lane = none) (hproc : (m.ctxs c).processing = true) (hf : m.free = i :: fr) :
    MgrOk' (placed m c bs i fr) := by
  have hi : i ∈ m.free := by rw [hf]; exact List.mem_cons_self
  have hilt : i < m.slots.length := h.free_lt i hi
  have hinone : m.slots[i]? = some none := h.free_none i hi
  have hcnot : some c ∉ m.slots := fun hin => (h.coh c hin).1 hc
  have hnd : (i :: fr).Nodup := hf ▸ h.free_nodup
  have hifr : i ∉ fr := (List.nodup_cons.mp hnd).1
  refine ⟨?_, (List.nodup_cons.mp hnd).2, ?_, ?_, ?_, ?_⟩
  · intro j hj
    simp only [placed]
    have hji : j ≠ i := fun e => hifr (e ▸ hj)
    rw [List.getElem?_set]; rw [if_neg (Ne.symm hji)]
    exact h.free_none j (by rw [hf]; exact List.mem_cons_of_mem _ hj)
  · intro j hj
    simp only [placed] at hj ⊢
    rw [List.getElem?_set] at hj
    split at hj
    · simp [hilt] at hj
    · have := h.none_free j hj; rw [hf] at this
      rcases List.mem_cons.mp this with rfl | h'
      · rename_i hne; exact absurd rfl hne
      · exact h'
  · intro j hj
    simp only [placed] at hj ⊢
    by_cases hjc : j = c
    · subst hjc; simp [hproc]
    · simp only [hjc, if_false]
      have : some j ∈ m.slots := mem_set_of_mem_ne hj (by simp [hjc])
      exact h.coh j this
  · intro j hj
    simp only [placed] at hj ⊢
    by_cases hjc : j = c
    · subst hjc; exact List.mem_iff_getElem?.mpr ⟨i, by rw [List.getElem?_set]; simp [hilt]⟩
    · simp only [hjc, if_false] at hj
      have hin := h.lane_slot j hj
      obtain ⟨n, hn, hn2⟩ := List.mem_iff_getElem.mp hin
      have hni : n ≠ i := by
        intro e; subst e
        rw [List.getElem?_eq_getElem hn, hn2] at hinone; cases hinone
      exact List.mem_iff_getElem?.mpr ⟨n, by
        rw [List.getElem?_set, if_neg (Ne.symm hni), List.getElem?_eq_getElem hn, hn2]⟩
  · intro j
    simp only [placed]
    by_cases hjc : j = c
    · subst hjc
      have h0 : m.slots.count (some j) = 0 := List.count_eq_zero.mpr hcnot
      have := count_set_le_succ (some j) m.slots i
      omega
    · exact Nat.le_trans (count_set_le_of_ne (some j) (some c) (by simp [hjc]) _ _) (h.nodup j)

theorem retireMin_ret_proc (f : D → Bytes → D) (all : Bool) (m : M D) (h : MgrOk' m) (r : Cid)
    (hr : (retireMin f all m).2 = some r) : ((retireMin f all m).1.ctxs r).processing = true := by
  have hsu := retireMin_sameUser f all m r
  rw [hsu.2.2.2.2.2.1]
  rw [retireMin_eq] at hr
  cases hp : pickMin m (minLen m (occupied m)) (occupied m) with
  | none => simp [hp] at hr
  | some c =>
    simp [hp] at hr; subst hr
    obtain ⟨hmem, _⟩ := pickMin_spec m _ _ c hp
    exact (h.coh c (mem_occupied.mp hmem)).2

/-- `mgrSubmit` keeps the bookkeeping consistent when the submitted context is not in a lane and
    is marked PROCESSING -/
theorem mgrSubmit_ok (f : D → Bytes → D) (m : M D) (c : Cid) (bs) (h : MgrOk m)
    (hc : (m.ctxs c).lane = none) (hproc : (m.ctxs c).processing = true) :
    MgrOk (mgrSubmit f m c bs).1 := by
  unfold mgrSubmit
  cases hf : m.free with
  | nil => exact absurd hf h.free_ne
  | cons i fr =>
    simp only []
    have h1 := placed_ok' m c bs i fr h hc hproc hf
    have hilt : i < m.slots.length := h.free_lt i (by rw [hf]; exact List.mem_cons_self)
    split
    · -- manager became full: run and retire the minimum lane
      rw [retireMin_eq]
      have hocc : occupied (placed m c bs i fr) ≠ [] := by
        apply occupied_ne_nil_of_mem (c := c)
        exact List.mem_iff_getElem?.mpr ⟨i, by simp only [placed]; rw [List.getElem?_set]; simp [hilt]⟩
      obtain ⟨c2, hc2⟩ := pickMin_minLen _ _ hocc
      rw [hc2]
      obtain ⟨hmem, _⟩ := pickMin_spec _ _ _ c2 hc2
      apply retire_ok' _ _ c2 h1 (mem_occupied.mp hmem)
      · intro j; exact ranCtxs_lane_ne f true _ _ c2 j
      · intro j; exact (ranCtxs_sameUser f true _ _ c2 j).2.2.2.2.2.1
    · rename_i hne
      exact ⟨hne, h1.free_none, h1.free_nodup, h1.none_free, h1.coh, h1.lane_slot, h1.nodup⟩

theorem mgrSubmit_ret_proc (f : D → Bytes → D) (m : M D) (c : Cid) (bs) (h : MgrOk m)
    (hc : (m.ctxs c).lane = none) (hproc : (m.ctxs c).processing = true) (r : Cid)
    (hr : (mgrSubmit f m c bs).2 = some r) : ((mgrSubmit f m c bs).1.ctxs r).processing = true := by
  unfold mgrSubmit at hr ⊢
  cases hf : m.free with
  | nil => simp [hf] at hr
  | cons i fr =>
    simp only [hf] at hr ⊢
    have h1 := placed_ok' m c bs i fr h hc hproc hf
    split at hr
    · rename_i hfr; rw [if_pos hfr]; exact retireMin_ret_proc f true _ h1 r hr
    · cases hr

theorem mgrFlush_ret_proc (P : Params) (f : D → Bytes → D) (m : M D) (h : MgrOk m) (r : Cid)
    (hr : (mgrFlush P f m).2 = some r) : ((mgrFlush P f m).1.ctxs r).processing = true := by
  unfold mgrFlush at hr ⊢
  simp only [] at hr ⊢
  split at hr
  · cases hr
  · rename_i hne; rw [if_neg hne]; exact retireMin_ret_proc f _ m h.to' r hr

theorem mgrFlush_ok (P : Params) (f : D → Bytes → D) (m : M D) (h : MgrOk m) :
    MgrOk (mgrFlush P f m).1 := by
  unfold mgrFlush
  simp only []
  split
  · exact h
  · exact retireMin_ok f _ m h

/-- updating a context that is not in a lane, leaving it without a lane job -/
theorem setCtx_ok (m : M D) (c : Cid) (x : Ctx D) (h : MgrOk m) (hc : (m.ctxs c).lane = none)
    (hx : x.lane = none) : MgrOk (setCtx m c x) := by
  have hcnot : some c ∉ m.slots := fun hin => (h.coh c hin).1 hc
  refine ⟨h.free_ne, h.free_none, h.free_nodup, h.none_free, ?_, ?_, h.nodup⟩
  · intro j hj
    have hjc : j ≠ c := fun e => hcnot (e ▸ hj)
    simp only [setCtx, hjc, if_false]; exact h.coh j hj
  · intro j hj
    by_cases hjc : j = c
    · subst hjc; simp [setCtx, hx] at hj
    · simp only [setCtx, hjc, if_false] at hj; exact h.lane_slot j hj

theorem mgrInit_ok (P : Params) (hP : 0 < P.nl) (ctxs : Cid → Ctx D) (hc : ∀ c, (ctxs c).lane = none) :
    MgrOk (mgrInit P ctxs) := by
  refine ⟨?_, ?_, ?_, ?_, ?_, ?_, ?_⟩
  · simp only [mgrInit]; intro h
    have := congrArg List.length h; simp at this; omega
  · intro i hi; simp only [mgrInit, List.mem_range] at hi ⊢
    rw [List.getElem?_replicate]; simp [hi]
  · exact List.nodup_range
  · intro i hi; simp only [mgrInit] at hi ⊢
    rw [List.getElem?_replicate] at hi
    split at hi
    · simpa using ‹i < P.nl›
    · cases hi
  · intro c hcm; simp [mgrInit] at hcm
  · intro c hl; exact absurd (hc c) hl
  · intro c; simp [mgrInit, List.count_replicate]

/-! a context that holds a lane job keeps it unless it is the one handed back -/
theorem retireMin_lane (f : D → Bytes → D) (all : Bool) (m : M D) (j : Cid)
    (h : (m.ctxs j).lane ≠ none) :
    ((retireMin f all m).1.ctxs j).lane ≠ none ∨ (retireMin f all m).2 = some j := by
  rw [retireMin_eq]
  cases hp : pickMin m (minLen m (occupied m)) (occupied m) with
  | none => left; exact h
  | some c =>
    by_cases hjc : j = c
    · right; rw [hjc]
    · left; simp only [retire, hjc, if_false]; exact (ranCtxs_lane_ne f all m _ c j).mpr h

theorem mgrSubmit_lane (f : D → Bytes → D) (m : M D) (c : Cid) (bs) (j : Cid) (hfree : m.free ≠ [])
    (h : (m.ctxs j).lane ≠ none ∨ j = c) :
    ((mgrSubmit f m c bs).1.ctxs j).lane ≠ none ∨ (mgrSubmit f m c bs).2 = some j := by
  unfold mgrSubmit
  cases hf : m.free with
  | nil => exact absurd hf hfree
  | cons i fr =>
    simp only []
    have hpl : ((placed m c bs i fr).ctxs j).lane ≠ none := by
      by_cases hjc : j = c
      · subst hjc; simp [placed]
      · simp only [placed, hjc, if_false]; exact h.resolve_right hjc
    split
    · exact retireMin_lane f true _ j hpl
    · left; exact hpl

theorem mgrFlush_lane (P : Params) (f : D → Bytes → D) (m : M D) (j : Cid) (h : (m.ctxs j).lane ≠ none) :
    ((mgrFlush P f m).1.ctxs j).lane ≠ none ∨ (mgrFlush P f m).2 = some j := by
  unfold mgrFlush
  simp only []
  split
  · left; exact h
  · exact retireMin_lane f _ m j h

/-! the number of lanes never changes -/
theorem retireMin_slots_len (f : D → Bytes → D) (all : Bool) (m : M D) :
    (retireMin f all m).1.slots.length = m.slots.length := by
  rw [retireMin_eq]; split <;> simp [retire]

theorem mgrSubmit_slots_len (f : D → Bytes → D) (m : M D) (c : Cid) (bs) :
    (mgrSubmit f m c bs).1.slots.length = m.slots.length := by
  unfold mgrSubmit; split
  · rfl
  · split
    · rw [retireMin_slots_len]; simp [placed]
    · simp [placed]

theorem mgrFlush_slots_len (P : Params) (f : D → Bytes → D) (m : M D) :
    (mgrFlush P f m).1.slots.length = m.slots.length := by
  unfold mgrFlush; simp only []; split
  · rfl
  · exact retireMin_slots_len f _ m

end IsalVerif.HashMB
