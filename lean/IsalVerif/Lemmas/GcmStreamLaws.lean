import IsalVerif.Impl.GcmStream
import IsalVerif.Lemmas.GcmLaws
import IsalVerif.Lemmas.Block128
/-! Helper lemmas for property C07: the streaming GCM context state machine (`Impl/GcmStream.lean`) computes
    the one-shot GCM (`Spec/Gcm.lean`) for every way of cutting the data into `update` calls, for both
    values of the `lazy256` flag.  Core Lean only. -/
namespace IsalVerif

/-! ### more list helpers -/

theorem xorBytes_zeros : ∀ {y : Bytes} {n : Nat}, y.length ≤ n → xorBytes y (List.replicate n 0) = y
  | [], _, _ => rfl
  | _ :: _, 0, h => by simp at h
  | a :: y, n + 1, h => by
    rw [List.replicate_succ, xorBytes_cons, UInt8.xor_zero, xorBytes_zeros (by simpa using h)]

/-- splitting the left argument of `xorBytes` (no length hypothesis needed) -/
theorem xorBytes_append_left : ∀ (a b k : Bytes),
    xorBytes (a ++ b) k = xorBytes a k ++ xorBytes b (k.drop a.length)
  | [], _, _ => rfl
  | _ :: _, b, [] => by simp [xorBytes]
  | x :: a, b, y :: k => by
    rw [List.cons_append, xorBytes_cons, xorBytes_cons, xorBytes_append_left a b k]; rfl

theorem xorBytes_append {a c : Bytes} (h : a.length = c.length) (b d : Bytes) :
    xorBytes (a ++ b) (c ++ d) = xorBytes a c ++ xorBytes b d :=
  List.zipWith_append h

theorem xorBytes_take_right : ∀ {a : Bytes} {n : Nat} (k : Bytes), a.length ≤ n →
    xorBytes a (k.take n) = xorBytes a k
  | [], _, _, _ => rfl
  | _ :: _, 0, _, h => by simp at h
  | _ :: _, _ + 1, [], _ => rfl
  | x :: a, n + 1, y :: k, h => by
    rw [List.take_succ_cons, xorBytes_cons, xorBytes_cons, xorBytes_take_right k (by simpa using h)]

theorem blocks_snoc {α : Type} (B n : Nat) (l : List α) :
    blocks B (n + 1) l = blocks B n l ++ [(l.drop (B * n)).take B] := by
  induction n generalizing l with
  | zero => simp [blocks]
  | succ n ih =>
    rw [blocks_succ, ih (l.drop B), blocks_succ, List.drop_drop, List.cons_append]
    congr 4
    rw [Nat.mul_succ, Nat.add_comm]

/-- the first `n` blocks only depend on the first `B·n` elements -/
theorem blocks_prefix {α : Type} {B n : Nat} {a : List α} (h : B * n ≤ a.length) (b : List α) :
    blocks B n (a ++ b) = blocks B n a := by
  induction n generalizing a with
  | zero => rfl
  | succ n ih =>
    have h' : B * n + B ≤ a.length := by rw [Nat.mul_succ] at h; exact h
    have hB : B ≤ a.length := by omega
    rw [blocks_succ, blocks_succ, List.take_append_of_le_length hB, List.drop_append_of_le_length hB,
      ih (by rw [List.length_drop]; omega)]

theorem blocks_append {α : Type} {B n : Nat} {a : List α} (h : a.length = B * n) (k : Nat) (b : List α) :
    blocks B (n + k) (a ++ b) = blocks B n a ++ blocks B k b := by
  induction n generalizing a with
  | zero =>
    have : a = [] := List.eq_nil_of_length_eq_zero (by simpa using h)
    subst this; simp [blocks]
  | succ n ih =>
    have h' : a.length = B * n + B := by rw [Nat.mul_succ] at h; exact h
    have hB : B ≤ a.length := by omega
    have e : n + 1 + k = (n + k) + 1 := by omega
    rw [e, blocks_succ, blocks_succ, List.take_append_of_le_length hB, List.drop_append_of_le_length hB,
      ih (by rw [List.length_drop]; omega), List.cons_append]

theorem iterN_succ' {α : Type} (f : α → α) (n : Nat) (a : α) : iterN f (n + 1) a = f (iterN f n a) := by
  induction n generalizing a with
  | zero => rfl
  | succ n ih => exact ih (f a)

theorem iterN_add {α : Type} (f : α → α) (n m : Nat) (a : α) : iterN f m (iterN f n a) = iterN f (n + m) a := by
  induction n generalizing a with
  | zero => rw [Nat.zero_add]; rfl
  | succ n ih =>
    have e : n + 1 + m = (n + m) + 1 := by omega
    rw [e]; exact ih (f a)

theorem iterate_getLastD {α : Type} (f : α → α) (n : Nat) (a : α) :
    (iterate f (f a) n).getLastD a = iterN f n a := by
  induction n generalizing a with
  | zero => rfl
  | succ n ih => rw [iterate_succ, List.getLastD_cons, ih (f a)]; rfl

theorem pad16_length_mod (x : Bytes) : (pad16 x).length % 16 = 0 := by
  unfold pad16
  rw [List.length_append, List.length_replicate]; omega

namespace GcmStream
open Aes Gf128 Gcm

/-! ### GHASH as a fold over 16-byte strings -/

/-- one GHASH step on 16-byte strings: `Y ↦ (Y ⊕ B) • H` -/
def ghashStep (h y b : Bytes) : Bytes := ghashMul h (xorBytes y b)

theorem ghashMul_length (h y : Bytes) : (ghashMul h y).length = 16 := toBytes_length _

theorem foldl_ghashStep_length (h : Bytes) {y : Bytes} (hy : y.length = 16) (L : List Bytes) :
    (L.foldl (ghashStep h) y).length = 16 := by
  induction L generalizing y with
  | nil => exact hy
  | cons b L ih => exact ih (ghashMul_length _ _)

theorem toBytes_ghashBlocks (h : Bytes) {L : List Bytes} (hL : ∀ b ∈ L, b.length = 16) (Y : Block128) :
    ((L.map Block128.ofBytes).foldl (fun y x => mul (y ^^^ x) (Block128.ofBytes h)) Y).toBytes =
      L.foldl (ghashStep h) Y.toBytes := by
  induction L generalizing Y with
  | nil => rfl
  | cons b L ih =>
    have hstep : (mul (Y ^^^ Block128.ofBytes b) (Block128.ofBytes h)).toBytes = ghashStep h Y.toBytes b := by
      unfold ghashStep ghashMul mulBytes
      rw [ofBytes_xorBytes (by rw [toBytes_length, hL b (by simp)]), ofBytes_toBytes]
    rw [List.map_cons, List.foldl_cons, List.foldl_cons, ih (fun b' h' => hL b' (List.mem_cons_of_mem _ h')),
      hstep]

/-- `GHASH_H(X)` as a byte-level fold -/
theorem ghash_eq_foldl (h x : Bytes) :
    ghash h x = (chunks 16 x).foldl (ghashStep h) Block128.zero.toBytes :=
  toBytes_ghashBlocks h chunks_mem_length _

/-- `GHASH_H(A ‖ B)` continues `GHASH_H(A)` when `A` is a whole number of blocks -/
theorem ghash_append (h : Bytes) {a : Bytes} (ha : a.length % 16 = 0) (b : Bytes) :
    ghash h (a ++ b) = (chunks 16 b).foldl (ghashStep h) (ghash h a) := by
  rw [ghash_eq_foldl, ghash_eq_foldl, chunks_append16 (a.length / 16) (by omega), List.foldl_append]

/-! ### the GHASH accumulator with a partially absorbed block -/

/-- GHASH state after `q` whole blocks of `ct` have been absorbed and the remaining `r ≤ 16` bytes of `ct` have
    been xored in (not yet multiplied); `ct.length = 16·q + r`. -/
def hashState (h y0 ct : Bytes) (q r : Nat) : Bytes :=
  xorBytes ((blocks 16 q ct).foldl (ghashStep h) y0) (ct.drop (16 * q) ++ List.replicate (16 - r) 0)

theorem hashState_length (h : Bytes) {y0 : Bytes} (hy : y0.length = 16) {ct : Bytes} {q r : Nat}
    (hr : r ≤ 16) (hlen : ct.length = 16 * q + r) : (hashState h y0 ct q r).length = 16 := by
  unfold hashState
  rw [xorBytes_length, foldl_ghashStep_length h hy, List.length_append, List.length_drop,
    List.length_replicate]
  omega

theorem hashState_zero (h : Bytes) {y0 : Bytes} (hy : y0.length = 16) {ct : Bytes} {q : Nat}
    (hlen : ct.length = 16 * q) : hashState h y0 ct q 0 = (blocks 16 q ct).foldl (ghashStep h) y0 := by
  unfold hashState
  rw [List.drop_eq_nil_of_le (by omega), List.nil_append,
    xorBytes_zeros (by rw [foldl_ghashStep_length h hy]; exact Nat.le_refl _)]

theorem xorAt_core (F1 F2 F3 P x : Bytes) (h1 : F1.length = P.length) (h2 : F2.length = x.length) :
    xorAt (xorBytes (F1 ++ F2 ++ F3) (P ++ List.replicate (F2.length + F3.length) 0)) P.length x =
      xorBytes (F1 ++ F2 ++ F3) (P ++ x ++ List.replicate F3.length 0) := by
  have hA : (xorBytes F1 P).length = P.length := by rw [xorBytes_length]; omega
  have e1 : xorBytes (F1 ++ F2 ++ F3) (P ++ List.replicate (F2.length + F3.length) 0) =
      xorBytes F1 P ++ (F2 ++ F3) := by
    rw [List.append_assoc, xorBytes_append h1, xorBytes_zeros (by rw [List.length_append]; exact Nat.le_refl _)]
  have e2 : xorBytes (F1 ++ F2 ++ F3) (P ++ x ++ List.replicate F3.length 0) =
      xorBytes F1 P ++ xorBytes F2 x ++ F3 := by
    rw [xorBytes_append (by rw [List.length_append, List.length_append, h1, h2]),
      xorBytes_append h1, xorBytes_zeros (Nat.le_refl _)]
  rw [e1, e2]
  unfold xorAt
  rw [List.take_left' hA, List.drop_left' hA, List.take_left' h2,
    List.take_of_length_le (by rw [List.length_append, List.length_append, hA]; omega),
    xorBytes_comm x F2]
  congr 1
  rw [← List.append_assoc, List.drop_left' (by rw [List.length_append, hA, h2])]

/-- `xorAt` at the fill position absorbs more ciphertext bytes into the pending block -/
theorem xorAt_hashState (h : Bytes) {y0 : Bytes} (hy : y0.length = 16) {ct : Bytes} {q r : Nat}
    (hlen : ct.length = 16 * q + r) {x : Bytes} (hx : r + x.length ≤ 16) :
    xorAt (hashState h y0 ct q r) r x = hashState h y0 (ct ++ x) q (r + x.length) := by
  unfold hashState
  rw [blocks_prefix (by omega), List.drop_append_of_le_length (by omega)]
  generalize hF : (blocks 16 q ct).foldl (ghashStep h) y0 = F
  have hFlen : F.length = 16 := by rw [← hF]; exact foldl_ghashStep_length h hy _
  generalize hP : ct.drop (16 * q) = P
  have hPlen : P.length = r := by rw [← hP, List.length_drop]; omega
  have hsplit : F = F.take r ++ (F.drop r).take x.length ++ (F.drop r).drop x.length := by
    rw [List.append_assoc, List.take_append_drop, List.take_append_drop]
  have l1 : (F.take r).length = P.length := by rw [List.length_take]; omega
  have l2 : ((F.drop r).take x.length).length = x.length := by
    rw [List.length_take, List.length_drop]; omega
  have l3 : ((F.drop r).drop x.length).length = 16 - (r + x.length) := by
    rw [List.length_drop, List.length_drop]; omega
  have := xorAt_core (F.take r) ((F.drop r).take x.length) ((F.drop r).drop x.length) P x l1 l2
  rw [← hsplit, l2, l3, hPlen] at this
  have e : x.length + (16 - (r + x.length)) = 16 - r := by omega
  rw [e] at this
  exact this

/-- multiplying a complete pending block -/
theorem ghashMul_hashState_full (h : Bytes) {y0 : Bytes} (hy : y0.length = 16) {ct : Bytes} {q : Nat}
    (hlen : ct.length = 16 * q + 16) :
    ghashMul h (hashState h y0 ct q 16) = hashState h y0 ct (q + 1) 0 := by
  rw [hashState_zero h hy (q := q + 1) (by omega), blocks_snoc, List.foldl_append]
  unfold hashState
  rw [List.take_of_length_le (by rw [List.length_drop]; omega)]
  simp [ghashStep]

/-- absorbing whole blocks -/
theorem foldl_hashState (h : Bytes) {y0 : Bytes} (hy : y0.length = 16) {ct : Bytes} {q : Nat}
    (hlen : ct.length = 16 * q) {w : Bytes} {k : Nat} (hw : w.length = 16 * k) :
    (blocks 16 k w).foldl (ghashStep h) (hashState h y0 ct q 0) = hashState h y0 (ct ++ w) (q + k) 0 := by
  rw [hashState_zero h hy hlen, hashState_zero h hy (by rw [List.length_append]; omega),
    blocks_append hlen, List.foldl_append]

/-- closing the accumulator (multiply the pending block, if any) gives GHASH over the zero-padded text -/
theorem hashState_final (h : Bytes) {y0 : Bytes} (hy : y0.length = 16) {ct : Bytes} {q r : Nat}
    (hr : r ≤ 16) (hlen : ct.length = 16 * q + r) :
    (if r ≠ 0 then ghashMul h (hashState h y0 ct q r) else hashState h y0 ct q r) =
      (chunks 16 (pad16 ct)).foldl (ghashStep h) y0 := by
  by_cases h0 : r = 0
  · subst h0
    have hp : pad16 ct = ct := by
      unfold pad16
      have : (16 - ct.length % 16) % 16 = 0 := by omega
      rw [this]; simp
    have hq : ct.length / 16 = q := by omega
    rw [if_neg (by simp), hashState_zero h hy hlen, hp, chunks, hq]
  · rw [if_pos h0]
    have hp : pad16 ct = ct ++ List.replicate (16 - r) 0 := by
      unfold pad16
      have : (16 - ct.length % 16) % 16 = 16 - r := by omega
      rw [this]
    have hq : (ct ++ List.replicate (16 - r) (0 : UInt8)).length / 16 = q + 1 := by
      rw [List.length_append, List.length_replicate]; omega
    rw [hp, chunks, hq, blocks_snoc, List.foldl_append, blocks_prefix (by omega),
      List.drop_append_of_le_length (by omega),
      List.take_of_length_le (by rw [List.length_append, List.length_drop, List.length_replicate]; omega)]
    rfl

/-! ### `GCTR` on a growing input -/

theorem gctr_append_aligned (rks : List Bytes) (k : Nat) :
    ∀ (icb : Bytes) {a : Bytes}, a.length = 16 * k → ∀ b : Bytes,
      gctr rks icb (a ++ b) = gctr rks icb a ++ gctr rks (iterN inc32 k icb) b := by
  induction k with
  | zero =>
    intro icb a ha b
    have : a = [] := List.eq_nil_of_length_eq_zero (by omega)
    subst this
    rw [gctr_nil]; rfl
  | succ k ih =>
    intro icb a ha b
    have h16 : 16 ≤ a.length := by omega
    have hne : a ≠ [] := by intro h; rw [h] at h16; simp at h16
    have hne' : a ++ b ≠ [] := by simp [hne]
    rw [gctr_cons rks icb hne', gctr_cons rks icb hne, List.take_append_of_le_length h16,
      List.drop_append_of_le_length h16, ih (inc32 icb) (by rw [List.length_drop]; omega), List.append_assoc]
    rfl

theorem gctr_le16 (rks : List Bytes) (icb : Bytes) {x : Bytes} (hx : x.length ≤ 16) :
    gctr rks icb x = xorBytes x (cipher rks icb) := by
  by_cases h : x = []
  · subst h; rw [gctr_nil]; rfl
  · rw [gctr_cons rks icb h, List.take_of_length_le hx, List.drop_eq_nil_of_le hx, gctr_nil,
      List.append_nil]

theorem gctr_whole (rks : List Bytes) (icb : Bytes) {w : Bytes} {k : Nat} (hw : w.length = 16 * k) :
    gctr rks icb w =
      (List.zipWith (fun x cb => xorBytes x (cipher rks cb)) (blocks 16 k w) (iterate inc32 icb k)).flatten := by
  have hk : (w.length + 15) / 16 = k := by omega
  unfold gctr blocks16
  simp only [hk, blocks_length]

/-- appending at most the rest of the current block: the new output bytes are the input xored with the
    unused part of the current key-stream block -/
theorem gctr_snoc_partial (rks : List Bytes) (icb : Bytes) {d : Bytes} {q r : Nat}
    (hd : d.length = 16 * q + r) {x : Bytes} (hx : r + x.length ≤ 16) :
    gctr rks icb (d ++ x) =
      gctr rks icb d ++ xorBytes x ((cipher rks (iterN inc32 q icb)).drop r) := by
  have hsplit : d = d.take (16 * q) ++ d.drop (16 * q) := (List.take_append_drop _ _).symm
  have h0 : (d.take (16 * q)).length = 16 * q := by rw [List.length_take]; omega
  have hp : (d.drop (16 * q)).length = r := by rw [List.length_drop]; omega
  generalize d.take (16 * q) = d0 at hsplit h0
  generalize d.drop (16 * q) = p at hsplit hp
  subst hsplit
  have e1 := gctr_le16 rks (iterN inc32 q icb) (x := p ++ x) (by rw [List.length_append]; omega)
  have e2 := gctr_le16 rks (iterN inc32 q icb) (x := p) (by omega)
  rw [List.append_assoc, gctr_append_aligned rks q icb h0, gctr_append_aligned rks q icb h0, e1, e2,
    xorBytes_append_left, hp, List.append_assoc]

/-- appending whole blocks at a block boundary -/
theorem gctr_snoc_whole (rks : List Bytes) (icb : Bytes) {d : Bytes} {q : Nat} (hd : d.length = 16 * q)
    {w : Bytes} {k : Nat} (hw : w.length = 16 * k) :
    gctr rks icb (d ++ w) = gctr rks icb d ++
      (List.zipWith (fun x cb => xorBytes x (cipher rks cb)) (blocks 16 k w)
        (iterate inc32 (iterN inc32 q icb) k)).flatten := by
  rw [gctr_append_aligned rks q icb hd, gctr_whole rks _ hw]

/-! ### `update` in three phases
    The auxiliary definitions below are `update` cut into its three steps (PARTIAL_BLOCK, whole blocks, new
    partial tail); `update_eq` (proved by `rfl`) shows that nothing was changed. -/

/-- number of whole blocks processed by the bulk step -/
def nblkOf (lz : Bool) (rest : Bytes) : Nat := if (lz && rest.length == 256) then 15 else rest.length / 16

def pbN (c : Ctx) (data : Bytes) : Nat := min data.length (16 - c.pbLen)
def pbOut (c : Ctx) (data : Bytes) : Bytes :=
  xorBytes (data.take (pbN c data)) ((c.pbEncKey.drop c.pbLen).take (pbN c data))
def pbCt (dec : Bool) (c : Ctx) (data : Bytes) : Bytes :=
  if dec then data.take (pbN c data) else pbOut c data

/-- PARTIAL_BLOCK: returns the context, the output and the unconsumed input -/
def phase1 (rks : List Bytes) (dec : Bool) (c : Ctx) (data : Bytes) : Ctx × Bytes × Bytes :=
  if c.pbLen ≠ 0 then
    if c.pbLen + data.length ≥ 16 then
      ({ c with aadHash := ghashMul (hashKey rks) (xorAt c.aadHash c.pbLen (pbCt dec c data)), pbLen := 0 },
        pbOut c data, data.drop (pbN c data))
    else ({ c with aadHash := xorAt c.aadHash c.pbLen (pbCt dec c data), pbLen := c.pbLen + data.length },
        pbOut c data, data.drop (pbN c data))
  else (c, [], data)

def wbOut (rks : List Bytes) (c : Ctx) (k : Nat) (w : Bytes) : List Bytes :=
  List.zipWith (fun x cb => xorBytes x (cipher rks cb)) (blocks 16 k w) (iterate inc32 (inc32 c.curCount) k)
def wbCt (rks : List Bytes) (dec : Bool) (c : Ctx) (k : Nat) (w : Bytes) : List Bytes :=
  if dec then blocks 16 k w else wbOut rks c k w

/-- `k` whole blocks -/
def phase2 (rks : List Bytes) (dec : Bool) (c : Ctx) (k : Nat) (w : Bytes) : Ctx × Bytes :=
  ({ c with aadHash := (wbCt rks dec c k w).foldl (ghashStep (hashKey rks)) c.aadHash,
            curCount := (iterate inc32 (inc32 c.curCount) k).getLastD c.curCount }, (wbOut rks c k w).flatten)

def tlOut (rks : List Bytes) (c : Ctx) (tail : Bytes) : Bytes := xorBytes tail (cipher rks (inc32 c.curCount))
def tlCt (rks : List Bytes) (dec : Bool) (c : Ctx) (tail : Bytes) : Bytes :=
  if dec then tail else tlOut rks c tail

/-- the new partial block (`acc` = output so far) -/
def phase3 (rks : List Bytes) (dec : Bool) (c : Ctx) (tail acc : Bytes) : Ctx × Bytes :=
  if tail = [] then (c, acc) else
    ({ c with curCount := inc32 c.curCount, pbEncKey := cipher rks (inc32 c.curCount), pbLen := tail.length,
              aadHash := xorAt c.aadHash 0 (tlCt rks dec c tail) }, acc ++ tlOut rks c tail)

theorem update_eq (rks : List Bytes) (dec : Bool) (c : Ctx) (data : Bytes) (lz : Bool) :
    update rks dec c data lz =
      if data = [] then (c, []) else
        let p1 := phase1 rks dec { c with inLen := (c.inLen + data.length) % 2^64 } data
        let nblk := nblkOf lz p1.2.2
        let p2 := phase2 rks dec p1.1 nblk (p1.2.2.take (nblk * 16))
        phase3 rks dec p2.1 (p1.2.2.drop (nblk * 16)) (p1.2.1 ++ p2.2) := rfl

theorem nblkOf_spec (lz : Bool) (rest : Bytes) :
    16 * nblkOf lz rest ≤ rest.length ∧ rest.length - 16 * nblkOf lz rest ≤ 16 := by
  unfold nblkOf
  split
  · rename_i h
    simp only [Bool.and_eq_true, beq_iff_eq] at h
    omega
  · omega

/-! ### the invariant -/

/-- the ciphertext (the bytes that feed GHASH) belonging to the input `d` -/
def ctOf (rks : List Bytes) (dec : Bool) (iv d : Bytes) : Bytes :=
  if dec then d else gctr rks (inc32 (j0 iv)) d

theorem ctOf_append_of {rks : List Bytes} {iv d x out : Bytes} (dec : Bool)
    (h : gctr rks (inc32 (j0 iv)) (d ++ x) = gctr rks (inc32 (j0 iv)) d ++ out) :
    ctOf rks dec iv (d ++ x) = ctOf rks dec iv d ++ (if dec then x else out) := by
  cases dec
  · simpa [ctOf] using h
  · simp [ctOf]

/-- State of the context after the input `d` has been fed: `q` blocks are completely hashed, `r ≤ 16` further
    bytes are pending (`r = 16` only arises from the `lazy256` path). -/
structure Inv (rks : List Bytes) (dec : Bool) (iv aad d : Bytes) (c : Ctx) (q r : Nat) : Prop where
  hr : r ≤ 16
  hlen : d.length = 16 * q + r
  pb : c.pbLen = r
  cnt : c.curCount = iterN inc32 (q + (if r = 0 then 0 else 1)) (j0 iv)
  ek : r ≠ 0 → c.pbEncKey = cipher rks c.curCount
  hash : c.aadHash = hashState (hashKey rks) (ghash (hashKey rks) (pad16 aad)) (ctOf rks dec iv d) q r

/-- the fields that `update` only passes on (`inLen` modulo 2⁶⁴) -/
structure Frame (iv aad d : Bytes) (c : Ctx) : Prop where
  aadLen : c.aadLen = aad.length % 2^64
  origIV : c.origIV = j0 iv
  inLen : c.inLen % 2^64 = d.length % 2^64

theorem phase1_frame (rks : List Bytes) (dec : Bool) (c : Ctx) (data : Bytes) :
    (phase1 rks dec c data).1.aadLen = c.aadLen ∧ (phase1 rks dec c data).1.origIV = c.origIV ∧
    (phase1 rks dec c data).1.inLen = c.inLen := by
  unfold phase1
  split
  · split <;> exact ⟨rfl, rfl, rfl⟩
  · exact ⟨rfl, rfl, rfl⟩

theorem phase2_frame (rks : List Bytes) (dec : Bool) (c : Ctx) (k : Nat) (w : Bytes) :
    (phase2 rks dec c k w).1.aadLen = c.aadLen ∧ (phase2 rks dec c k w).1.origIV = c.origIV ∧
    (phase2 rks dec c k w).1.inLen = c.inLen := ⟨rfl, rfl, rfl⟩

theorem phase2_nil (rks : List Bytes) (dec : Bool) (c : Ctx) : phase2 rks dec c 0 [] = (c, []) := by
  cases dec <;> rfl

theorem phase3_frame (rks : List Bytes) (dec : Bool) (c : Ctx) (tail acc : Bytes) :
    (phase3 rks dec c tail acc).1.aadLen = c.aadLen ∧ (phase3 rks dec c tail acc).1.origIV = c.origIV ∧
    (phase3 rks dec c tail acc).1.inLen = c.inLen := by
  unfold phase3
  split <;> exact ⟨rfl, rfl, rfl⟩

theorem phase3_nil (rks : List Bytes) (dec : Bool) (c : Ctx) (acc : Bytes) :
    phase3 rks dec c [] acc = (c, acc) := rfl

theorem ofNat_congr {a b : Nat} (h : a % 2^64 = b % 2^64) : UInt64.ofNat a = UInt64.ofNat b := by
  apply UInt64.toNat_inj.mp
  rw [UInt64.toNat_ofNat', UInt64.toNat_ofNat']
  exact h

section
set_option linter.unusedSectionVars false
variable {rks : List Bytes} (hk : ∀ k ∈ rks, k.length = 16) {iv : Bytes} (hiv : iv.length = 12)
include hk hiv

theorem ctr_length (n : Nat) : (iterN inc32 n (j0 iv)).length = 16 :=
  iterN_prop (P := fun t : Bytes => t.length = 16) (fun _ h => inc32_length (by omega)) n (j0_length hiv)

theorem icb_length : (inc32 (j0 iv)).length = 16 := ctr_length hk hiv 1

theorem ctOf_length (dec : Bool) (d : Bytes) : (ctOf rks dec iv d).length = d.length := by
  cases dec
  · exact gctr_length hk d (icb_length hk hiv)
  · rfl

variable {dec : Bool} {aad d : Bytes} {c : Ctx} {q r : Nat}

/-- facts about the PARTIAL_BLOCK step when a block is pending -/
theorem pb_facts (hI : Inv rks dec iv aad d c q r) (h0 : r ≠ 0) (data : Bytes) :
    pbN c data = min data.length (16 - r) ∧
    (pbOut c data).length = pbN c data ∧
    gctr rks (inc32 (j0 iv)) (d ++ data.take (pbN c data)) =
      gctr rks (inc32 (j0 iv)) d ++ pbOut c data := by
  have hr := hI.hr
  have hn : pbN c data = min data.length (16 - r) := by unfold pbN; rw [hI.pb]
  have hcnt : c.curCount = iterN inc32 q (inc32 (j0 iv)) := by rw [hI.cnt, if_neg h0]; rfl
  have hE : (cipher rks (iterN inc32 q (inc32 (j0 iv)))).length = 16 :=
    cipher_length hk (ctr_length hk hiv (q + 1))
  have hout : pbOut c data = xorBytes (data.take (pbN c data))
      ((cipher rks (iterN inc32 q (inc32 (j0 iv)))).drop r) := by
    unfold pbOut
    rw [hI.ek h0, hcnt, hI.pb, xorBytes_take_right _ (by rw [List.length_take]; omega)]
  refine ⟨hn, ?_, ?_⟩
  · rw [hout, xorBytes_length, List.length_take, List.length_drop, hE, hn]; omega
  · rw [hout]
    exact gctr_snoc_partial rks _ hI.hlen (by rw [List.length_take, hn]; omega)

theorem phase1_spec (hI : Inv rks dec iv aad d c q r) (data : Bytes) :
    ∃ x q' r', data = x ++ (phase1 rks dec c data).2.2 ∧
      Inv rks dec iv aad (d ++ x) (phase1 rks dec c data).1 q' r' ∧
      gctr rks (inc32 (j0 iv)) (d ++ x) = gctr rks (inc32 (j0 iv)) d ++ (phase1 rks dec c data).2.1 ∧
      (r' = 0 ∨ (phase1 rks dec c data).2.2 = []) := by
  have hr := hI.hr
  by_cases h0 : r = 0
  · have hp : phase1 rks dec c data = (c, [], data) := by
      unfold phase1; rw [if_neg (by rw [hI.pb]; simp [h0])]
    rw [hp]
    refine ⟨[], q, r, rfl, ?_, by simp, .inl h0⟩
    rw [List.append_nil]; exact hI
  · obtain ⟨hn, hol, hg⟩ := pb_facts hk hiv hI h0 data
    have hpb : c.pbLen ≠ 0 := by rw [hI.pb]; exact h0
    have hy0 : (ghash (hashKey rks) (pad16 aad)).length = 16 := ghash_length _ _
    have hct : ctOf rks dec iv (d ++ data.take (pbN c data)) = ctOf rks dec iv d ++ pbCt dec c data :=
      ctOf_append_of dec hg
    have hctlen : (pbCt dec c data).length = pbN c data := by
      unfold pbCt; cases dec
      · exact hol
      · simp only [if_true]; rw [List.length_take]; omega
    have hxor : xorAt c.aadHash c.pbLen (pbCt dec c data) =
        hashState (hashKey rks) (ghash (hashKey rks) (pad16 aad))
          (ctOf rks dec iv (d ++ data.take (pbN c data))) q (r + pbN c data) := by
      have := xorAt_hashState (hashKey rks) hy0 (ct := ctOf rks dec iv d) (q := q) (r := r)
        (by rw [ctOf_length hk hiv dec, hI.hlen]) (x := pbCt dec c data) (by rw [hctlen, hn]; omega)
      rw [hctlen] at this
      rw [hI.hash, hI.pb, hct]
      exact this
    have htake : (data.take (pbN c data)).length = pbN c data := by rw [List.length_take]; omega
    by_cases hfull : c.pbLen + data.length ≥ 16
    · have hp : phase1 rks dec c data =
          ({ c with aadHash := ghashMul (hashKey rks) (xorAt c.aadHash c.pbLen (pbCt dec c data)), pbLen := 0 },
            pbOut c data, data.drop (pbN c data)) := by
        unfold phase1; rw [if_pos hpb, if_pos hfull]
      rw [hp]
      have hr16 : r + pbN c data = 16 := by rw [hI.pb] at hfull; omega
      refine ⟨data.take (pbN c data), q + 1, 0, (List.take_append_drop _ _).symm, ?_, hg, .inl rfl⟩
      refine ⟨by omega, ?_, rfl, ?_, fun h => absurd rfl h, ?_⟩
      · rw [List.length_append, htake, hI.hlen]; omega
      · show c.curCount = _
        rw [hI.cnt, if_neg h0]; rfl
      · show ghashMul _ (xorAt c.aadHash c.pbLen (pbCt dec c data)) = _
        rw [hxor, hr16]
        exact ghashMul_hashState_full _ hy0
          (by rw [ctOf_length hk hiv dec, List.length_append, htake, hI.hlen]; omega)
    · have hp : phase1 rks dec c data =
          ({ c with aadHash := xorAt c.aadHash c.pbLen (pbCt dec c data), pbLen := c.pbLen + data.length },
            pbOut c data, data.drop (pbN c data)) := by
        unfold phase1; rw [if_pos hpb, if_neg hfull]
      rw [hp]
      have hnd : pbN c data = data.length := by rw [hI.pb] at hfull; omega
      refine ⟨data.take (pbN c data), q, r + data.length, (List.take_append_drop _ _).symm, ?_, hg,
        .inr (List.drop_eq_nil_of_le (by omega))⟩
      refine ⟨by rw [hI.pb] at hfull; omega, ?_, ?_, ?_, ?_, ?_⟩
      · rw [List.length_append, htake, hI.hlen]; omega
      · show c.pbLen + data.length = _
        rw [hI.pb]
      · show c.curCount = _
        rw [hI.cnt, if_neg h0, if_neg (by omega)]
      · intro _; exact hI.ek h0
      · show xorAt c.aadHash c.pbLen (pbCt dec c data) = _
        rw [hxor, hnd]

theorem zipWith_xor_cipher_length {xs cbs : List Bytes} (hx : ∀ x ∈ xs, x.length = 16)
    (hc : ∀ cb ∈ cbs, cb.length = 16) :
    ∀ y ∈ List.zipWith (fun x cb => xorBytes x (cipher rks cb)) xs cbs, y.length = 16 := by
  induction xs generalizing cbs with
  | nil => intro y hy; simp at hy
  | cons x xs ih =>
    cases cbs with
    | nil => intro y hy; simp at hy
    | cons cb cbs =>
      intro y hy
      rw [List.zipWith_cons_cons, List.mem_cons] at hy
      rcases hy with rfl | hy
      · exact xorBytes_length_eq (hx x (by simp)) (cipher_length hk (hc cb (by simp)))
      · exact ih (fun x' h' => hx x' (List.mem_cons_of_mem _ h'))
          (fun c' h' => hc c' (List.mem_cons_of_mem _ h')) y hy

theorem phase2_spec (hI : Inv rks dec iv aad d c q 0) {k : Nat} {w : Bytes} (hw : w.length = 16 * k) :
    Inv rks dec iv aad (d ++ w) (phase2 rks dec c k w).1 (q + k) 0 ∧
    gctr rks (inc32 (j0 iv)) (d ++ w) = gctr rks (inc32 (j0 iv)) d ++ (phase2 rks dec c k w).2 := by
  have hy0 : (ghash (hashKey rks) (pad16 aad)).length = 16 := ghash_length _ _
  have hlen : d.length = 16 * q := by have := hI.hlen; omega
  have hcnt : c.curCount = iterN inc32 q (j0 iv) := by rw [hI.cnt]; simp
  have hcnt' : inc32 c.curCount = iterN inc32 q (inc32 (j0 iv)) := by
    rw [hcnt]; exact (iterN_succ' inc32 q (j0 iv)).symm
  have hout : wbOut rks c k w = List.zipWith (fun x cb => xorBytes x (cipher rks cb)) (blocks 16 k w)
      (iterate inc32 (iterN inc32 q (inc32 (j0 iv))) k) := by unfold wbOut; rw [hcnt']
  have hg : gctr rks (inc32 (j0 iv)) (d ++ w) =
      gctr rks (inc32 (j0 iv)) d ++ (wbOut rks c k w).flatten := by
    rw [hout]; exact gctr_snoc_whole rks _ hlen hw
  have hL : ∀ y ∈ wbOut rks c k w, y.length = 16 := by
    rw [hout]
    exact zipWith_xor_cipher_length hk hiv (blocks_mem_length (by omega))
      (iterate_mem (P := fun t : Bytes => t.length = 16) (fun _ h => inc32_length (by omega))
        (ctr_length hk hiv (q + 1)) k)
  have hLlen : (wbOut rks c k w).length = k := by
    rw [hout, List.length_zipWith, blocks_length, iterate_length]; omega
  have hct : ctOf rks dec iv (d ++ w) = ctOf rks dec iv d ++ (if dec then w else (wbOut rks c k w).flatten) :=
    ctOf_append_of dec hg
  have hnewlen : (if dec then w else (wbOut rks c k w).flatten).length = 16 * k := by
    cases dec
    · simp only [Bool.false_eq_true, if_false]; rw [flatten_length_of_forall hL, hLlen]
    · exact hw
  have hblocks : wbCt rks dec c k w = blocks 16 k (if dec then w else (wbOut rks c k w).flatten) := by
    unfold wbCt
    cases dec
    · simp only [Bool.false_eq_true, if_false]
      have := blocks_of_flatten hL []
      rw [List.append_nil, hLlen] at this
      exact this.symm
    · rfl
  refine ⟨⟨by omega, by rw [List.length_append, hw, hlen]; omega, hI.pb, ?_, fun h => absurd rfl h, ?_⟩, hg⟩
  · show (iterate inc32 (inc32 c.curCount) k).getLastD c.curCount = _
    rw [iterate_getLastD, hcnt, iterN_add]; simp
  · show (wbCt rks dec c k w).foldl (ghashStep (hashKey rks)) c.aadHash = _
    rw [hblocks, hI.hash, hct]
    exact foldl_hashState _ hy0 (by rw [ctOf_length hk hiv dec, hlen]) hnewlen

theorem phase3_spec (hI : Inv rks dec iv aad d c q 0) {tail : Bytes} (hne : tail ≠ [])
    (htl : tail.length ≤ 16) (acc : Bytes) :
    Inv rks dec iv aad (d ++ tail) (phase3 rks dec c tail acc).1 q tail.length ∧
    gctr rks (inc32 (j0 iv)) (d ++ tail) = gctr rks (inc32 (j0 iv)) d ++ tlOut rks c tail ∧
    (phase3 rks dec c tail acc).2 = acc ++ tlOut rks c tail := by
  have hy0 : (ghash (hashKey rks) (pad16 aad)).length = 16 := ghash_length _ _
  have hlen : d.length = 16 * q + 0 := hI.hlen
  have hpos : 0 < tail.length := List.length_pos_iff.mpr hne
  have hcnt : c.curCount = iterN inc32 q (j0 iv) := by rw [hI.cnt]; simp
  have hcnt' : inc32 c.curCount = iterN inc32 q (inc32 (j0 iv)) := by
    rw [hcnt]; exact (iterN_succ' inc32 q (j0 iv)).symm
  have hg : gctr rks (inc32 (j0 iv)) (d ++ tail) = gctr rks (inc32 (j0 iv)) d ++ tlOut rks c tail := by
    have := gctr_snoc_partial rks (inc32 (j0 iv)) hlen (x := tail) (by omega)
    rw [List.drop_zero] at this
    unfold tlOut; rw [hcnt']; exact this
  have holen : (tlOut rks c tail).length = tail.length := by
    unfold tlOut
    have hE : (cipher rks (iterN inc32 q (inc32 (j0 iv)))).length = 16 :=
      cipher_length hk (ctr_length hk hiv (q + 1))
    rw [hcnt', xorBytes_length, hE]; omega
  have hct : ctOf rks dec iv (d ++ tail) = ctOf rks dec iv d ++ tlCt rks dec c tail := ctOf_append_of dec hg
  have hctlen : (tlCt rks dec c tail).length = tail.length := by
    unfold tlCt; cases dec
    · exact holen
    · rfl
  have hp : phase3 rks dec c tail acc =
      ({ c with curCount := inc32 c.curCount, pbEncKey := cipher rks (inc32 c.curCount), pbLen := tail.length,
                aadHash := xorAt c.aadHash 0 (tlCt rks dec c tail) }, acc ++ tlOut rks c tail) := by
    unfold phase3; rw [if_neg hne]
  rw [hp]
  refine ⟨⟨htl, by rw [List.length_append, hlen]; omega, rfl, ?_, fun _ => rfl, ?_⟩, hg, rfl⟩
  · show inc32 c.curCount = _
    rw [hcnt', if_neg (by omega)]; rfl
  · show xorAt c.aadHash 0 (tlCt rks dec c tail) = _
    have := xorAt_hashState (hashKey rks) hy0 (ct := ctOf rks dec iv d) (q := q) (r := 0)
      (by rw [ctOf_length hk hiv dec, hlen]) (x := tlCt rks dec c tail) (by rw [hctlen]; omega)
    rw [hctlen, Nat.zero_add] at this
    rw [hI.hash, hct]
    exact this

/-- one `update` call advances the invariant by `data` and emits the matching slice of the `GCTR` output -/
theorem update_spec (hI : Inv rks dec iv aad d c q r) (hF : Frame iv aad d c) (data : Bytes) (lz : Bool) :
    ∃ q' r', Inv rks dec iv aad (d ++ data) (update rks dec c data lz).1 q' r' ∧
      Frame iv aad (d ++ data) (update rks dec c data lz).1 ∧
      gctr rks (inc32 (j0 iv)) (d ++ data) = gctr rks (inc32 (j0 iv)) d ++ (update rks dec c data lz).2 := by
  rw [update_eq]
  by_cases hd : data = []
  · subst hd
    rw [if_pos rfl, List.append_nil]
    exact ⟨q, r, hI, hF, by simp⟩
  · rw [if_neg hd]
    simp only
    generalize hc1 : ({ c with inLen := (c.inLen + data.length) % 2^64 } : Ctx) = c1
    have hI1 : Inv rks dec iv aad d c1 q r := by
      subst hc1; exact ⟨hI.hr, hI.hlen, hI.pb, hI.cnt, hI.ek, hI.hash⟩
    have hF1 : c1.aadLen = aad.length % 2^64 ∧ c1.origIV = j0 iv ∧
        c1.inLen % 2^64 = (d ++ data).length % 2^64 := by
      subst hc1
      refine ⟨hF.aadLen, hF.origIV, ?_⟩
      show (c.inLen + data.length) % 2^64 % 2^64 = _
      have := hF.inLen
      rw [List.length_append]; omega
    obtain ⟨x, q1, r1, hdata, hIa, hga, hor⟩ := phase1_spec hk hiv hI1 data
    obtain ⟨f1a, f1b, f1c⟩ := phase1_frame rks dec c1 data
    generalize hp1 : phase1 rks dec c1 data = p1 at hdata hIa hga hor f1a f1b f1c
    obtain ⟨ca, oa, rest⟩ := p1
    simp only at hdata hIa hga hor f1a f1b f1c ⊢
    obtain ⟨hn1, hn2⟩ := nblkOf_spec lz rest
    generalize nblkOf lz rest = nblk at hn1 hn2
    have hrest : rest = rest.take (nblk * 16) ++ rest.drop (nblk * 16) := (List.take_append_drop _ _).symm
    have hwlen : (rest.take (nblk * 16)).length = 16 * nblk := by rw [List.length_take]; omega
    have htlen : (rest.drop (nblk * 16)).length ≤ 16 := by rw [List.length_drop]; omega
    have hdd : d ++ data = d ++ x ++ rest.take (nblk * 16) ++ rest.drop (nblk * 16) := by
      rw [hdata, List.append_assoc (d ++ x), ← hrest, List.append_assoc]
    rcases hor with h0 | hnil
    · subst h0
      obtain ⟨hIb, hgb⟩ := phase2_spec hk hiv hIa hwlen
      obtain ⟨f2a, f2b, f2c⟩ := phase2_frame rks dec ca nblk (rest.take (nblk * 16))
      generalize phase2 rks dec ca nblk (rest.take (nblk * 16)) = p2 at hIb hgb f2a f2b f2c
      obtain ⟨cb, ob⟩ := p2
      simp only at hIb hgb f2a f2b f2c ⊢
      by_cases htl : rest.drop (nblk * 16) = []
      · rw [htl, phase3_nil]
        rw [htl, List.append_nil] at hdd
        rw [hdd]
        refine ⟨_, _, hIb, ⟨?_, ?_, ?_⟩, ?_⟩
        · rw [f2a, f1a]; exact hF1.1
        · rw [f2b, f1b]; exact hF1.2.1
        · rw [f2c, f1c, ← hdd]; exact hF1.2.2
        · rw [hgb, hga, List.append_assoc]
      · obtain ⟨hIc, hgc, hoc⟩ := phase3_spec hk hiv hIb htl htlen (oa ++ ob)
        obtain ⟨f3a, f3b, f3c⟩ := phase3_frame rks dec cb (rest.drop (nblk * 16)) (oa ++ ob)
        rw [hdd]
        refine ⟨_, _, hIc, ⟨?_, ?_, ?_⟩, ?_⟩
        · rw [f3a, f2a, f1a]; exact hF1.1
        · rw [f3b, f2b, f1b]; exact hF1.2.1
        · rw [f3c, f2c, f1c, ← hdd]; exact hF1.2.2
        · rw [hoc, hgc, hgb, hga, List.append_assoc, List.append_assoc, List.append_assoc]
    · subst hnil
      have hk0 : nblk = 0 := by rw [List.length_nil] at hn1; omega
      subst hk0
      rw [List.append_nil] at hdata
      subst hdata
      simp only [Nat.zero_mul, List.take_nil, List.drop_nil, phase2_nil, phase3_nil, List.append_nil]
      exact ⟨_, _, hIa, ⟨by rw [f1a]; exact hF1.1, by rw [f1b]; exact hF1.2.1, by rw [f1c]; exact hF1.2.2⟩, hga⟩

/-! ### init, the fold over the parts, finalize -/

theorem init_inv (dec : Bool) (aad garbage : Bytes) :
    Inv rks dec iv aad [] (init rks iv aad garbage) 0 0 ∧ Frame iv aad [] (init rks iv aad garbage) := by
  have hy0 : (ghash (hashKey rks) (pad16 aad)).length = 16 := ghash_length _ _
  have hct : ctOf rks dec iv [] = [] := by
    cases dec
    · exact gctr_nil rks (inc32 (j0 iv))
    · rfl
  refine ⟨⟨by omega, rfl, rfl, rfl, fun h => absurd rfl h, ?_⟩, ⟨rfl, rfl, rfl⟩⟩
  show ghash (hashKey rks) (pad16 aad) = _
  rw [hct, hashState_zero _ hy0 (by rfl)]
  rfl

/-- `init; update*; finalize` with the `lazy256` flag as a parameter (`stream` is the instance `false`) -/
def streamWith (lz : Bool) (rks : List Bytes) (dec : Bool) (iv aad : Bytes) (parts : List Bytes)
    (tagLen : Nat) : Bytes × Bytes :=
  let r := parts.foldl (fun (acc : Ctx × Bytes) p =>
      let u := update rks dec acc.1 p lz; (u.1, acc.2 ++ u.2)) (init rks iv aad, [])
  (r.2, (finalize rks r.1 tagLen).2)

theorem fold_spec (lz : Bool) (parts : List Bytes) :
    ∀ {d : Bytes} {c : Ctx} {q r : Nat} (out : Bytes), Inv rks dec iv aad d c q r → Frame iv aad d c →
      out = gctr rks (inc32 (j0 iv)) d →
      ∃ q' r',
        Inv rks dec iv aad (d ++ parts.flatten)
          (parts.foldl (fun (acc : Ctx × Bytes) p =>
            let u := update rks dec acc.1 p lz; (u.1, acc.2 ++ u.2)) (c, out)).1 q' r' ∧
        Frame iv aad (d ++ parts.flatten)
          (parts.foldl (fun (acc : Ctx × Bytes) p =>
            let u := update rks dec acc.1 p lz; (u.1, acc.2 ++ u.2)) (c, out)).1 ∧
        (parts.foldl (fun (acc : Ctx × Bytes) p =>
            let u := update rks dec acc.1 p lz; (u.1, acc.2 ++ u.2)) (c, out)).2 =
          gctr rks (inc32 (j0 iv)) (d ++ parts.flatten) := by
  induction parts with
  | nil =>
    intro d c q r out hI hF hout
    rw [List.flatten_nil, List.append_nil]
    exact ⟨q, r, hI, hF, hout⟩
  | cons p ps ih =>
    intro d c q r out hI hF hout
    obtain ⟨q1, r1, hI1, hF1, hg1⟩ := update_spec hk hiv hI hF p lz
    rw [List.foldl_cons, List.flatten_cons, ← List.append_assoc]
    exact ih (out ++ (update rks dec c p lz).2) hI1 hF1 (by rw [hout, hg1])

theorem finalize_spec {D : Bytes} (hI : Inv rks dec iv aad D c q r) (hF : Frame iv aad D c) (t : Nat) :
    (finalize rks c t).2 = tag rks iv aad (ctOf rks dec iv D) t := by
  have hy0 : (ghash (hashKey rks) (pad16 aad)).length = 16 := ghash_length _ _
  have hctlen := ctOf_length hk hiv dec D
  have hfin := hashState_final (hashKey rks) hy0 hI.hr (ct := ctOf rks dec iv D) (q := q)
    (by rw [hctlen, hI.hlen])
  -- the length block
  have hlb : bytesBE64 (UInt64.ofNat ((c.aadLen * 8) % 2^64)) ++ bytesBE64 (UInt64.ofNat ((c.inLen * 8) % 2^64)) =
      lenBlock aad.length (ctOf rks dec iv D).length := by
    unfold lenBlock
    have h1 := hF.aadLen
    have h2 := hF.inLen
    rw [ofNat_congr (a := (c.aadLen * 8) % 2^64) (b := 8 * aad.length) (by omega),
      ofNat_congr (a := (c.inLen * 8) % 2^64) (b := 8 * (ctOf rks dec iv D).length) (by rw [hctlen]; omega)]
  have hlblen : (lenBlock aad.length (ctOf rks dec iv D).length).length = 16 := by
    simp [lenBlock, bytesBE64]
  -- the specification side
  have hspec : ghash (hashKey rks)
      (pad16 aad ++ pad16 (ctOf rks dec iv D) ++ lenBlock aad.length (ctOf rks dec iv D).length) =
      ghashStep (hashKey rks)
        ((chunks 16 (pad16 (ctOf rks dec iv D))).foldl (ghashStep (hashKey rks))
          (ghash (hashKey rks) (pad16 aad)))
        (lenBlock aad.length (ctOf rks dec iv D).length) := by
    have ha := pad16_length_mod aad
    have hc := pad16_length_mod (ctOf rks dec iv D)
    have hone : chunks 16 (lenBlock aad.length (ctOf rks dec iv D).length) =
        [lenBlock aad.length (ctOf rks dec iv D).length] := by
      rw [chunks_cons16 (by omega), List.drop_eq_nil_of_le (by omega), chunks_nil,
        List.take_of_length_le (by omega)]
    rw [ghash_append _ (by rw [List.length_append]; omega), ghash_append _ ha, hone]
    rfl
  unfold tag
  simp only
  rw [hspec, gctr_le16 rks _ (by rw [ghashStep, ghashMul_length]; exact Nat.le_refl _), ← hfin, ← hlb]
  -- the implementation side
  unfold finalize
  simp only
  by_cases h0 : r = 0
  · have hpb : ¬ c.pbLen ≠ 0 := by rw [hI.pb]; simp [h0]
    rw [if_neg hpb, if_neg (by simp [h0]), hF.origIV, ← hI.hash]
    rfl
  · have hpb : c.pbLen ≠ 0 := by rw [hI.pb]; exact h0
    rw [if_pos hpb, if_pos h0, hF.origIV, ← hI.hash]
    rfl

/-- C07 for both values of the `lazy256` flag -/
theorem streamWith_eq (lz : Bool) (dec : Bool) (aad : Bytes) (parts : List Bytes) (t : Nat) :
    streamWith lz rks dec iv aad parts t =
      (if dec then gcmDecExp rks iv aad parts.flatten t else gcmEncExp rks iv aad parts.flatten t) := by
  obtain ⟨hI0, hF0⟩ := init_inv hk hiv dec aad (List.replicate 16 0)
  obtain ⟨q, r, hI, hF, hout⟩ := fold_spec hk hiv lz parts [] hI0 hF0 (gctr_nil _ _).symm
  rw [List.nil_append] at hI hF hout
  unfold streamWith
  simp only
  rw [finalize_spec hk hiv hI hF t, hout]
  cases dec <;> rfl

end

/-- the `lazy256` variant of `stream` (vaes_avx512 family): the same fold with `update … (lazy256 := true)` -/
def streamLazy (rks : List Bytes) (dec : Bool) (iv aad : Bytes) (parts : List Bytes) (tagLen : Nat) :
    Bytes × Bytes :=
  let r := parts.foldl (fun (acc : Ctx × Bytes) p =>
      let u := update rks dec acc.1 p (lazy256 := true); (u.1, acc.2 ++ u.2)) (init rks iv aad, [])
  (r.2, (finalize rks r.1 tagLen).2)

theorem stream_eq_streamWith : @stream = streamWith false := rfl
theorem streamLazy_eq_streamWith : @streamLazy = streamWith true := rfl

/-! ### C20: the API-undefined `garbage` stored in `pbEncKey` by `init` never matters -/

/-- the fold of `stream`, started from `init … garbage`: final context and all output bytes -/
def runG (garbage : Bytes) (lz : Bool) (rks : List Bytes) (dec : Bool) (iv aad : Bytes) (parts : List Bytes) :
    Ctx × Bytes :=
  parts.foldl (fun (acc : Ctx × Bytes) p =>
      let u := update rks dec acc.1 p lz; (u.1, acc.2 ++ u.2)) (init rks iv aad garbage, [])

/-- `init garbage; update*; finalize` -/
def streamWithG (garbage : Bytes) (lz : Bool) (rks : List Bytes) (dec : Bool) (iv aad : Bytes)
    (parts : List Bytes) (tagLen : Nat) : Bytes × Bytes :=
  ((runG garbage lz rks dec iv aad parts).2, (finalize rks (runG garbage lz rks dec iv aad parts).1 tagLen).2)

theorem streamWith_eq_streamWithG : @streamWith = streamWithG (List.replicate 16 0) := rfl

theorem streamWithG_eq {rks : List Bytes} (hk : ∀ k ∈ rks, k.length = 16) {iv : Bytes} (hiv : iv.length = 12)
    (g : Bytes) (lz dec : Bool) (aad : Bytes) (parts : List Bytes) (t : Nat) :
    streamWithG g lz rks dec iv aad parts t =
      (if dec then gcmDecExp rks iv aad parts.flatten t else gcmEncExp rks iv aad parts.flatten t) := by
  obtain ⟨hI0, hF0⟩ := init_inv hk hiv dec aad g
  obtain ⟨q, r, hI, hF, hout⟩ := fold_spec hk hiv lz parts [] hI0 hF0 (gctr_nil _ _).symm
  rw [List.nil_append] at hI hF hout
  unfold streamWithG runG
  rw [finalize_spec hk hiv hI hF t, hout]
  cases dec <;> rfl

/-- Two contexts agree on every API-defined field: all fields but `pbEncKey`, and `pbEncKey` too when a
    partial block is pending (`pbLen ≠ 0`). -/
structure SameApi (c₁ c₂ : Ctx) : Prop where
  aadHash : c₁.aadHash = c₂.aadHash
  aadLen : c₁.aadLen = c₂.aadLen
  inLen : c₁.inLen = c₂.inLen
  origIV : c₁.origIV = c₂.origIV
  curCount : c₁.curCount = c₂.curCount
  pbLen : c₁.pbLen = c₂.pbLen
  pbEncKey : c₁.pbLen ≠ 0 → c₁.pbEncKey = c₂.pbEncKey

theorem phase2_garbage (rks : List Bytes) (dec : Bool) (c : Ctx) (g : Bytes) (k : Nat) (w : Bytes) :
    phase2 rks dec { c with pbEncKey := g } k w =
      ({ (phase2 rks dec c k w).1 with pbEncKey := g }, (phase2 rks dec c k w).2) := rfl

theorem phase3_garbage (rks : List Bytes) (dec : Bool) (c : Ctx) (g : Bytes) (tail acc : Bytes) :
    phase3 rks dec { c with pbEncKey := g } tail acc =
      if tail = [] then ({ c with pbEncKey := g }, acc) else phase3 rks dec c tail acc := by
  unfold phase3
  split <;> rfl

/-- one `update` from contexts that agree on the API-defined fields: same output, and the new contexts agree
    on the API-defined fields -/
theorem update_sameApi (rks : List Bytes) (dec : Bool) {c₁ c₂ : Ctx} (h : SameApi c₁ c₂) (data : Bytes)
    (lz : Bool) :
    (update rks dec c₁ data lz).2 = (update rks dec c₂ data lz).2 ∧
    SameApi (update rks dec c₁ data lz).1 (update rks dec c₂ data lz).1 := by
  by_cases hpb : c₁.pbLen = 0
  · -- nothing pending: `pbEncKey` is not read, and it is either overwritten or still undefined afterwards
    obtain ⟨a1, a2, a3, g1, a5, a6, a7⟩ := c₁
    obtain ⟨b1, b2, b3, g2, b5, b6, b7⟩ := c₂
    obtain ⟨e1, e2, e3, e5, e6, e7, _⟩ := h
    simp only at e1 e2 e3 e5 e6 e7 hpb
    subst e1 e2 e3 e5 e6 e7 hpb
    rw [update_eq, update_eq]
    by_cases hd : data = []
    · rw [if_pos hd, if_pos hd]
      exact ⟨rfl, ⟨rfl, rfl, rfl, rfl, rfl, rfl, fun h => absurd rfl h⟩⟩
    · rw [if_neg hd, if_neg hd]
      simp only [phase1, ne_eq, not_true_eq_false, if_false]
      generalize nblkOf lz data = k
      have := phase2_garbage rks dec ⟨a1, a2, (a3 + data.length) % 2^64, g2, a5, a6, 0⟩ g1 k (data.take (k * 16))
      simp only at this
      rw [this, phase3_garbage]
      by_cases htl : data.drop (k * 16) = []
      · rw [if_pos htl, htl, phase3_nil]
        exact ⟨rfl, ⟨rfl, rfl, rfl, rfl, rfl, rfl, fun h => absurd rfl h⟩⟩
      · rw [if_neg htl]
        exact ⟨rfl, ⟨rfl, rfl, rfl, rfl, rfl, rfl, fun _ => rfl⟩⟩
  · -- a block is pending: the two contexts are equal
    have : c₁ = c₂ := by
      obtain ⟨a1, a2, a3, g1, a5, a6, a7⟩ := c₁
      obtain ⟨b1, b2, b3, g2, b5, b6, b7⟩ := c₂
      obtain ⟨e1, e2, e3, e5, e6, e7, e4⟩ := h
      simp only at e1 e2 e3 e5 e6 e7 e4 hpb
      subst e1 e2 e3 e5 e6 e7
      rw [e4 hpb]
    subst this
    exact ⟨rfl, ⟨rfl, rfl, rfl, rfl, rfl, rfl, fun _ => rfl⟩⟩

theorem init_sameApi (rks : List Bytes) (iv aad g₁ g₂ : Bytes) :
    SameApi (init rks iv aad g₁) (init rks iv aad g₂) :=
  ⟨rfl, rfl, rfl, rfl, rfl, rfl, fun h => absurd rfl h⟩

theorem fold_sameApi (rks : List Bytes) (dec lz : Bool) (parts : List Bytes) :
    ∀ {c₁ c₂ : Ctx} (out : Bytes), SameApi c₁ c₂ →
      (parts.foldl (fun (acc : Ctx × Bytes) p =>
          let u := update rks dec acc.1 p lz; (u.1, acc.2 ++ u.2)) (c₁, out)).2 =
      (parts.foldl (fun (acc : Ctx × Bytes) p =>
          let u := update rks dec acc.1 p lz; (u.1, acc.2 ++ u.2)) (c₂, out)).2 ∧
      SameApi
        (parts.foldl (fun (acc : Ctx × Bytes) p =>
          let u := update rks dec acc.1 p lz; (u.1, acc.2 ++ u.2)) (c₁, out)).1
        (parts.foldl (fun (acc : Ctx × Bytes) p =>
          let u := update rks dec acc.1 p lz; (u.1, acc.2 ++ u.2)) (c₂, out)).1 := by
  induction parts with
  | nil => intro c₁ c₂ out h; exact ⟨rfl, h⟩
  | cons p ps ih =>
    intro c₁ c₂ out h
    obtain ⟨ho, hs⟩ := update_sameApi rks dec h p lz
    rw [List.foldl_cons, List.foldl_cons]
    simp only
    rw [ho]
    exact ih _ hs

/-- after any sequence of updates, the outputs and every API-defined context field are independent of the
    garbage (no hypothesis on the key schedule, IV or lengths) -/
theorem runG_sameApi (g₁ g₂ : Bytes) (lz : Bool) (rks : List Bytes) (dec : Bool) (iv aad : Bytes)
    (parts : List Bytes) :
    (runG g₁ lz rks dec iv aad parts).2 = (runG g₂ lz rks dec iv aad parts).2 ∧
    SameApi (runG g₁ lz rks dec iv aad parts).1 (runG g₂ lz rks dec iv aad parts).1 :=
  fold_sameApi rks dec lz parts [] (init_sameApi rks iv aad g₁ g₂)

/-- `finalize` only reads API-defined fields -/
theorem finalize_sameApi (rks : List Bytes) {c₁ c₂ : Ctx} (h : SameApi c₁ c₂) (t : Nat) :
    (finalize rks c₁ t).2 = (finalize rks c₂ t).2 := by
  obtain ⟨a1, a2, a3, g1, a5, a6, a7⟩ := c₁
  obtain ⟨b1, b2, b3, g2, b5, b6, b7⟩ := c₂
  obtain ⟨e1, e2, e3, e5, e6, e7, _⟩ := h
  simp only at e1 e2 e3 e5 e6 e7
  subst e1 e2 e3 e5 e6 e7
  unfold finalize
  simp only
  split <;> rfl

end GcmStream
end IsalVerif
