import IsalVerif.Impl.DispatchCheck
import IsalVerif.Lemmas.DispatchSound
/-! Soundness of `checkResolver`: if it returns true, then for every architecturally consistent
    configuration (under the stated conventions and the entry's documented minimum) the resolver
    stores a symbol whose ISA needs are all available. -/
namespace IsalVerif.Dispatch

theorem mem_bitsOfW {f : Field} {w : W} {b : Bit} (h : b ∈ bitsOfW f w) :
    b.1 = f ∧ b.2 < 32 ∧ w.getLsbD b.2 = true := by
  simp only [bitsOfW, List.mem_map, List.mem_filter, List.mem_range] at h
  obtain ⟨i, ⟨hi, hw⟩, rfl⟩ := h
  exact ⟨rfl, hi, hw⟩

theorem bitsOfW_complete {f : Field} {w : W} {i : Nat} (hi : i < 32) (hw : w.getLsbD i = true) :
    (f, i) ∈ bitsOfW f w := by
  simp only [bitsOfW, List.mem_map, List.mem_filter, List.mem_range]
  exact ⟨i, ⟨hi, hw⟩, rfl⟩

theorem onesOf_sound (cfg : Cfg) (c : Cond) (h : c.1.ev cfg = c.2) :
    ∀ b ∈ onesOf c, bitSet cfg b = true := by
  obtain ⟨fl, bv⟩ := c
  cases fl with
  | known k => intro b hb; simp [onesOf] at hb
  | atom f m cst =>
    cases bv with
    | true =>
      intro b hb
      simp only [onesOf] at hb
      obtain ⟨h1, _, h3⟩ := mem_bitsOfW hb
      simp only [SFlag.ev, decide_eq_true_eq] at h
      have : (cfg.get f &&& m).getLsbD b.2 = true := by rw [h]; exact h3
      rw [BitVec.getLsbD_and, Bool.and_eq_true] at this
      simp only [bitSet, h1]; exact this.1
    | false =>
      intro b hb
      simp only [onesOf] at hb
      split at hb
      · rename_i hc
        split at hb
        · rename_i b0 hsingle
          simp only [List.mem_singleton] at hb; subst hb
          have hmem : b ∈ bitsOfW f m := by rw [hsingle]; exact List.mem_singleton.mpr rfl
          obtain ⟨h1, h2, h3⟩ := mem_bitsOfW hmem
          simp only [SFlag.ev, hc, decide_eq_false_iff_not] at h
          -- if the single bit were clear, the masked value would be zero
          cases hx : bitSet cfg b with
          | true => rfl
          | false =>
            exfalso; apply h
            apply BitVec.eq_of_getLsbD_eq
            intro i hi
            rw [BitVec.getLsbD_and]
            have hz : BitVec.getLsbD (0 : W) i = false := by simp
            rw [hz]
            cases hm : m.getLsbD i with
            | false => simp
            | true =>
              have : (f, i) ∈ bitsOfW f m := bitsOfW_complete hi hm
              rw [hsingle, List.mem_singleton] at this
              have hib : i = b.2 := by rw [← this]
              have hfb : f = b.1 := by rw [← this]
              simp only [bitSet] at hx
              rw [hib, hfb, hx]; rfl
        · cases hb
      · cases hb

theorem knownOnes_sound (cfg : Cfg) (conds : List Cond) (h : holdsAll cfg conds) :
    ∀ b ∈ knownOnes conds, bitSet cfg b = true := by
  intro b hb
  simp only [knownOnes, List.mem_flatMap] at hb
  obtain ⟨c, hc, hbc⟩ := hb
  exact onesOf_sound cfg c (h c hc) b hbc

theorem applyRules_sound (cfg : Cfg) (rules : List (Bit × List Bit)) (hr : RulesHold rules cfg)
    (k : List Bit) (hk : ∀ b ∈ k, bitSet cfg b = true) : ∀ b ∈ applyRules rules k, bitSet cfg b = true := by
  intro b hb
  simp only [applyRules, List.mem_append, List.mem_flatMap, List.mem_filter] at hb
  rcases hb with hb | ⟨r, ⟨hrm, hprem⟩, hq⟩
  · exact hk b hb
  · have : r.1 ∈ k := by simpa using hprem
    exact hr r hrm (hk _ this) b hq

theorem closure_sound (cfg : Cfg) (rules : List (Bit × List Bit)) (hr : RulesHold rules cfg) :
    ∀ (n : Nat) (k : List Bit), (∀ b ∈ k, bitSet cfg b = true) → ∀ b ∈ closure rules n k, bitSet cfg b = true := by
  intro n
  induction n with
  | zero => intro k hk; exact hk
  | succ n ih => intro k hk; exact ih _ (applyRules_sound cfg rules hr k hk)

theorem rulesHold_append {r1 r2 : List (Bit × List Bit)} {cfg : Cfg} (h1 : RulesHold r1 cfg) (h2 : RulesHold r2 cfg) :
    RulesHold (r1 ++ r2) cfg := by
  intro r hr; rcases List.mem_append.mp hr with h | h
  · exact h1 r h
  · exact h2 r h

/-- `run` past a halted state does nothing -/
theorem run_halted (cfg : Cfg) (p : List Instr) (s : St) (h : step cfg p s = none) : ∀ n, run cfg p n s = s
  | 0 => rfl
  | n+1 => by simp [run, h]

theorem isHalted_step (cfg : Cfg) (p : List Instr) (σ : SSt) (h : isHalted p σ = true) :
    step cfg p (σ.ev cfg) = none := by
  unfold isHalted at h
  unfold step
  have : (σ.ev cfg).pc = σ.pc := rfl
  rw [this]
  split at h
  · rename_i hn; simp [hn]
  · rename_i hr; simp [hr]
  · cases h

/-- **soundness of the per-resolver check** -/
theorem checkResolver_sound (p : List Instr) (need : Nat → List Isa) (minBits : List Bit)
    (h : checkResolver p need minBits = true)
    (cfg : Cfg) (hc : Consistent cfg) (hv : Conventions cfg) (hmin : ∀ b ∈ minBits, bitSet cfg b = true) :
    ∃ s, select p cfg = some (.sym s) ∧ (∀ i ∈ need s, Avail cfg i) ∧
      (run cfg p (4 * p.length) c0).ud = false := by
  unfold checkResolver at h
  cases hp : paths p (4 * p.length) s0 [] with
  | none => rw [hp] at h; cases h
  | some res =>
    rw [hp] at h
    simp only [List.all_eq_true] at h
    obtain ⟨r, hr, hall, hev⟩ := paths_complete cfg p (4 * p.length) s0 [] res hp (fun x hx => by cases hx)
    have hck := h r hr
    simp only [checkPath, Bool.and_eq_true] at hck
    obtain ⟨hhalt, hcell⟩ := hck
    have hs0 : s0.ev cfg = c0 := by simp [SSt.ev, s0, c0, SVal.ev, SFlag.ev]
    rw [hs0] at hev
    cases hcl : r.2.cell with
    | none => rw [hcl] at hcell; cases hcell
    | some v =>
      rw [hcl] at hcell
      cases v with
      | sym s =>
        simp only [Bool.and_eq_true] at hcell
        obtain ⟨hxg, hcell⟩ := hcell
        have hknown : ∀ b, b ∈ closure allRules 8 (minBits ++ knownOnes r.1) → bitSet cfg b = true := by
          intro b hmem
          refine closure_sound cfg allRules (rulesHold_append hc hv) 8 _ ?_ b hmem
          intro b' hb'
          rcases List.mem_append.mp hb' with h1 | h1
          · exact hmin b' h1
          · exact knownOnes_sound cfg r.1 hall b' h1
        refine ⟨s, ?_, ?_, ?_⟩
        · simp only [select, ← hev, SSt.ev, hcl, Option.map_some, SVal.ev]
        · intro i hi b hb
          simp only [List.all_eq_true] at hcell
          have := hcell i hi b hb
          exact hknown b (by simpa using this)
        · rw [← hev]
          simp only [SSt.ev]
          cases hx : r.2.xg with
          | false => simp
          | true =>
            rw [hx] at hxg
            have hm : ((Field.l1ecx, 27) : Bit) ∈ closure allRules 8 (minBits ++ knownOnes r.1) := by simpa using hxg
            have := hknown _ hm
            simp only [bitSet, Cfg.get] at this
            simp [this]
      | fld f m => cases hcell
      | const w => cases hcell
      | junk => cases hcell

end IsalVerif.Dispatch
