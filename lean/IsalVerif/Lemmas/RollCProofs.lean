import IsalVerif.Impl.RollC
import IsalVerif.Impl.RollingRun
/-!
  IsalVerif/Lemmas/RollCProofs.lean — the translated rolling-hash step is the step of the hand-written model the C09
  theorems are about (`Impl/RollingRun.lean`).
-/
set_option maxRecDepth 8000
namespace IsalVerif.RollC
open IsalVerif IsalVerif.MurC IsalVerif.Impl.Rolling

/-- value of `h` after the step program on `h`, with table entries `a` (incoming byte) and `b` (outgoing byte) -/
def stepVal (prog : List A) (h a b : UInt64) : UInt64 := (run prog ⟨0, 0, h, 0⟩ a b 0).h0

theorem canonStep_val (h a b : UInt64) : stepVal canonStep h a b = rol1 h ^^^ (a ^^^ b) := rfl

/-- `hash_fn` of the model is the translated step -/
theorem hashFn_eq (st : RhState) (h : UInt64) (n o : UInt8) :
    hashFn st h n o = stepVal canonStep h (table1 n) (st.table2 o) := rfl

/-- one iteration of either scan loop of `_rolling_hash2_run_until_base` in the model is the translated step followed by
    the translated exit test -/
theorem untilLoop_unfold (hit : UInt64 → Bool) (max : Nat) (t1 t2 : UInt8 → UInt64) (b1 b2 : Ptr) (i : Nat) (h : UInt64) :
    untilLoop hit max t1 t2 b1 b2 i h =
      if i < max then
        if hit (stepVal canonStep h (t1 (b1.rd (i : Int))) (t2 (b2.rd (i : Int)))) then
          (i, stepVal canonStep h (t1 (b1.rd (i : Int))) (t2 (b2.rd (i : Int))))
        else untilLoop hit max t1 t2 b1 b2 (i + 1) (stepVal canonStep h (t1 (b1.rd (i : Int))) (t2 (b2.rd (i : Int))))
      else (i, h) := by
  rw [untilLoop]
  rfl

theorem canonTest_val (h mask : UInt64) : canonTest.eval ⟨0, 0, h, 0⟩ 0 0 mask = h &&& mask := rfl

/-- one iteration of the loop of `_rolling_hash2_reset` in the model is the translated reset step -/
theorem resetLoop_unfold (initBytes : Buf) (w i : Nat) (hash : UInt64) :
    resetLoop initBytes w i hash =
      if i < w then resetLoop initBytes w (i + 1) (stepVal canonReset hash (table1 (initBytes.rd i)) 0) else hash := by
  rw [resetLoop]
  rfl

/-- a scan loop of `_rolling_hash2_run_until_base` over an arbitrary step program -/
def untilLoopP (prog : List A) (hit : UInt64 → Bool) (max : Nat) (t1 t2 : UInt8 → UInt64) (b1 b2 : Ptr)
    (i : Nat) (h : UInt64) : Nat × UInt64 :=
  if i < max then
    if hit (stepVal prog h (t1 (b1.rd (i : Int))) (t2 (b2.rd (i : Int)))) then
      (i, stepVal prog h (t1 (b1.rd (i : Int))) (t2 (b2.rd (i : Int))))
    else untilLoopP prog hit max t1 t2 b1 b2 (i + 1) (stepVal prog h (t1 (b1.rd (i : Int))) (t2 (b2.rd (i : Int))))
  else (i, h)
termination_by max - i

/-- **the whole scan loop**: the model's `untilLoop` is the loop over the translated step, for every start index, bound,
    tables, buffers and exit test -/
theorem untilLoop_eq (hit : UInt64 → Bool) (max : Nat) (t1 t2 : UInt8 → UInt64) (b1 b2 : Ptr) (i : Nat) (h : UInt64) :
    untilLoop hit max t1 t2 b1 b2 i h = untilLoopP canonStep hit max t1 t2 b1 b2 i h := by
  fun_induction untilLoopP canonStep hit max t1 t2 b1 b2 i h with
  | case1 i h hlt hh => rw [untilLoop_unfold, if_pos hlt, if_pos hh]
  | case2 i h hlt hh ih => rw [untilLoop_unfold, if_pos hlt, if_neg hh, ih]
  | case3 i h hge => rw [untilLoop_unfold, if_neg hge]

end IsalVerif.RollC
