import IsalVerif.Lemmas.MgrInv
/-! The `*_ctx_mgr_resubmit` loop never changes what any context settles to, keeps the shape and
    bookkeeping invariants, and hands back only contexts that are out of every lane and no longer
    PROCESSING; afterwards every PROCESSING context sits in a lane. -/
namespace IsalVerif.HashMB
variable {D : Type}

theorem settle_congr_lane (A : Alg D) (x : Ctx D) (hl : x.lane = none) (hc : x.complete = false) :
    settle A x =
      (let s2 := absorb A.B A.f ⟨x.dig, x.part⟩ x.incoming
       if x.last then ⟨A.fin ((pad A s2.part x.total).foldl A.f s2.dig), []⟩ else s2) := by
  simp [settle, hl, hc]

/-- what a context handed back by `resubmit` looks like -/
def Returned (x : Ctx D) : Prop :=
  x.lane = none ∧ x.processing = false ∧ x.last = false ∧ x.incoming = []

structure ResubmitPost (A : Alg D) (m m' : M D) (r0 r : Option Cid) : Prop where
  settle_eq : ∀ j, settle A (m'.ctxs j) = settle A (m.ctxs j)
  shape : ∀ j, Shape A.B (m'.ctxs j)
  ok : MgrOk m'
  ret : ∀ c, r = some c → Returned (m'.ctxs c)
  err : ∀ j, (m'.ctxs j).error = (m.ctxs j).error
  total : ∀ j, (m'.ctxs j).total = (m.ctxs j).total
  /-- if every PROCESSING context other than the one handed in is in a lane, then afterwards every
      PROCESSING context is in a lane -/
  inflight : (∀ j, (m.ctxs j).processing = true → (m.ctxs j).lane ≠ none ∨ r0 = some j) →
             ∀ j, (m'.ctxs j).processing = true → (m'.ctxs j).lane ≠ none
  /-- the loop only ever clears PROCESSING (of the context it hands back) -/
  proc_mono : ∀ j, (m'.ctxs j).processing = true → (m.ctxs j).processing = true
  /-- "LAST was requested" (latched or already padded) is never changed -/
  lc : ∀ j, ((m'.ctxs j).last || (m'.ctxs j).complete) = ((m.ctxs j).last || (m.ctxs j).complete)
  /-- a context is handed back only if it was PROCESSING -/
  ret_proc : ∀ c, r = some c → (m.ctxs c).processing = true
  /-- no job is lost: a PROCESSING context stays PROCESSING unless it is the one handed back -/
  proc_keep : ∀ j, (m.ctxs j).processing = true → (m'.ctxs j).processing = true ∨ r = some j
  slots_len : m'.slots.length = m.slots.length

theorem resubmit_post (A : Alg D) (hB : 0 < A.B) :
    ∀ (fuel : Nat) (m : M D) (r : Option Cid) (res : M D × Option Cid),
      resubmit A fuel m r = some res →
      MgrOk m → (∀ j, Shape A.B (m.ctxs j)) →
      (∀ c, r = some c → (m.ctxs c).lane = none ∧ (m.ctxs c).processing = true) →
      ResubmitPost A m res.1 r res.2 := by
  have triv : ∀ (m : M D), MgrOk m → (∀ j, Shape A.B (m.ctxs j)) → ResubmitPost A m m none none :=
    fun m hok hs => ⟨fun _ => rfl, hs, hok, fun _ h => (by cases h), fun _ => rfl, fun _ => rfl,
      fun h j hj => (h j hj).elim id (fun e => by cases e), fun _ h => h, fun _ => rfl,
      fun _ h => (by cases h), fun _ h => Or.inl h, rfl⟩
  intro fuel
  induction fuel with
  | zero =>
    intro m r res hres hok hs _
    cases r with
    | none => simp [resubmit] at hres; subst hres; exact triv m hok hs
    | some c => simp [resubmit] at hres
  | succ fuel ih =>
    intro m r res hres hok hs hl
    cases r with
    | none => simp [resubmit] at hres; subst hres; exact triv m hok hs
    | some c =>
      obtain ⟨hlc, hpc⟩ := hl c rfl
      have hsc := hs c
      -- helper: finishing with a submit of blocks `bs` for the updated context `x'`
      have key : ∀ (x' : Ctx D) (bs : List Bytes),
          resubmit A fuel (mgrSubmit A.f (setCtx m c x') c bs).1 (mgrSubmit A.f (setCtx m c x') c bs).2 = some res →
          x'.lane = none → x'.processing = true →
          Shape A.B x' → x'.error = (m.ctxs c).error → x'.total = (m.ctxs c).total →
          (x'.last || x'.complete) = ((m.ctxs c).last || (m.ctxs c).complete) →
          settle A { x' with lane := some (x'.dig, bs) } = settle A (m.ctxs c) →
          ResubmitPost A m res.1 (some c) res.2 := by
        intro x' bs hrec hx'l hx'p hx's hx'e hx't hx'c hsett
        have hok1 : MgrOk (setCtx m c x') := setCtx_ok m c x' hok hlc hx'l
        have hc1 : ((setCtx m c x').ctxs c) = x' := by simp [setCtx]
        have hs1 : ∀ j, Shape A.B ((setCtx m c x').ctxs j) := by
          intro j; by_cases hj : j = c
          · subst hj; simpa [setCtx] using hx's
          · simpa [setCtx, hj] using hs j
        have hok2 : MgrOk (mgrSubmit A.f (setCtx m c x') c bs).1 :=
          mgrSubmit_ok A.f _ c bs hok1 (by rw [hc1]; exact hx'l) (by rw [hc1]; exact hx'p)
        have hs2 : ∀ j, Shape A.B ((mgrSubmit A.f (setCtx m c x') c bs).1.ctxs j) :=
          fun j => shape_of_sameUser (mgrSubmit_sameUser A.f _ c bs j) (hs1 j)
        have hl2 : ∀ r', (mgrSubmit A.f (setCtx m c x') c bs).2 = some r' →
            ((mgrSubmit A.f (setCtx m c x') c bs).1.ctxs r').lane = none ∧
            ((mgrSubmit A.f (setCtx m c x') c bs).1.ctxs r').processing = true :=
          fun r' h => ⟨mgrSubmit_ret A.f _ c bs r' h,
            mgrSubmit_ret_proc A.f _ c bs hok1 (by rw [hc1]; exact hx'l) (by rw [hc1]; exact hx'p) r' h⟩
        have i := ih _ _ res hrec hok2 hs2 hl2
        have hsu := mgrSubmit_sameUser A.f (setCtx m c x') c bs
        refine ⟨fun j => ?_, i.shape, i.ok, i.ret, fun j => ?_, fun j => ?_, fun hin => ?_, fun j hj => ?_, fun j => ?_,
          fun c' hc' => ?_, fun j hj => ?_, ?_⟩
        · rw [i.settle_eq j, mgrSubmit_settle A _ c bs hok1.free_ne]
          by_cases hj : j = c
          · subst hj; simp only [if_true]; rw [hc1]; exact hsett
          · simp [hj, setCtx]
        · rw [i.err j, (hsu j).2.2.2.2.2.2]
          by_cases hj : j = c
          · subst hj; rw [hc1]; exact hx'e
          · simp [setCtx, hj]
        · rw [i.total j, (hsu j).2.2.2.2.1]
          by_cases hj : j = c
          · subst hj; rw [hc1]; exact hx't
          · simp [setCtx, hj]
        · apply i.inflight
          intro j hj
          apply mgrSubmit_lane A.f _ c bs j hok1.free_ne
          by_cases hjc : j = c
          · right; exact hjc
          · left
            rw [(hsu j).2.2.2.2.2.1] at hj
            simp only [setCtx, hjc, if_false] at hj ⊢
            exact (hin j hj).resolve_right (fun e => hjc (Option.some.inj e).symm)
        · have := i.proc_mono j hj
          rw [(hsu j).2.2.2.2.2.1] at this
          by_cases hjc : j = c
          · subst hjc; exact hpc
          · simpa [setCtx, hjc] using this
        · rw [i.lc j, (hsu j).2.2.2.1, (hsu j).2.2.1]
          by_cases hjc : j = c
          · subst hjc; rw [hc1]; exact hx'c
          · simp [setCtx, hjc]
        · have := i.ret_proc c' hc'
          rw [(hsu c').2.2.2.2.2.1] at this
          by_cases hjc : c' = c
          · subst hjc; exact hpc
          · simpa [setCtx, hjc] using this
        · apply i.proc_keep j
          rw [(hsu j).2.2.2.2.2.1]
          by_cases hjc : j = c
          · subst hjc; rw [hc1]; exact hx'p
          · simpa [setCtx, hjc] using hj
        · rw [i.slots_len, mgrSubmit_slots_len]; rfl
      -- helper: handing the context back after a context-only update
      have back : ∀ (x' : Ctx D), x'.lane = none → x'.processing = false → x'.last = false →
          x'.incoming = [] →
          Shape A.B x' → x'.error = (m.ctxs c).error → x'.total = (m.ctxs c).total →
          (x'.last || x'.complete) = ((m.ctxs c).last || (m.ctxs c).complete) →
          settle A x' = settle A (m.ctxs c) →
          ResubmitPost A m (setCtx m c x') (some c) (some c) := by
        intro x' hx'l hx'p hx'last hx'inc hx's hx'e hx't hx'c hsett
        refine ⟨fun j => ?_, fun j => ?_, setCtx_ok m c x' hok hlc hx'l, fun c' hc' => ?_, fun j => ?_,
          fun j => ?_, fun hin j hj => ?_, fun j hj => ?_, fun j => ?_, fun c' hc' => (by cases hc'; exact hpc),
          fun j hj => ?_, rfl⟩
        · by_cases hj : j = c
          · subst hj; simpa [setCtx] using hsett
          · simp [setCtx, hj]
        · by_cases hj : j = c
          · subst hj; simpa [setCtx] using hx's
          · simpa [setCtx, hj] using hs j
        · cases hc'; simp [setCtx, Returned, hx'l, hx'p, hx'last, hx'inc]
        · by_cases hj : j = c
          · subst hj; simpa [setCtx] using hx'e
          · simp [setCtx, hj]
        · by_cases hj : j = c
          · subst hj; simpa [setCtx] using hx't
          · simp [setCtx, hj]
        · by_cases hjc : j = c
          · subst hjc; simp [setCtx, hx'p] at hj
          · simp only [setCtx, hjc, if_false] at hj ⊢
            exact (hin j hj).resolve_right (fun e => hjc (Option.some.inj e).symm)
        · by_cases hjc : j = c
          · subst hjc; exact hpc
          · simpa [setCtx, hjc] using hj
        · by_cases hjc : j = c
          · subst hjc; simpa [setCtx] using hx'c
          · simp [setCtx, hjc]
        · by_cases hjc : j = c
          · right; rw [hjc]
          · left; simpa [setCtx, hjc] using hj
      simp only [resubmit] at hres
      by_cases hcomp : (m.ctxs c).complete = true
      · simp only [hcomp, if_true, Option.some.injEq] at hres
        subst hres
        apply back
        · exact hlc
        · rfl
        · rfl
        · exact hsc.2.2.1 hcomp
        · exact ⟨hsc.1, hsc.2.1, fun _ => hsc.2.2.1 hcomp, fun _ => ⟨rfl, hsc.2.2.1 hcomp⟩⟩
        · rfl
        · rfl
        · simp [hcomp]
        · simp [settle, hcomp, hlc, hpc]
      · have hcf : (m.ctxs c).complete = false := by simpa using hcomp
        simp only [hcf, Bool.false_eq_true, if_false] at hres
        have hsx := settle_congr_lane A (m.ctxs c) hlc hcf
        by_cases hbody : (m.ctxs c).part = [] ∧ (m.ctxs c).incoming ≠ []
        · simp only [hbody, and_self, if_true, ne_eq, not_false_eq_true] at hres
          obtain ⟨hp, hi⟩ := hbody
          -- what absorb computes from an empty partial buffer
          have habs : absorb A.B A.f ⟨(m.ctxs c).dig, (m.ctxs c).part⟩ (m.ctxs c).incoming =
              ⟨(blocks A.B ((m.ctxs c).incoming.length / A.B) (m.ctxs c).incoming).foldl A.f (m.ctxs c).dig,
               (m.ctxs c).incoming.drop ((m.ctxs c).incoming.length / A.B * A.B)⟩ := by
            simp [absorb, hp]
          have hdl : ((m.ctxs c).incoming.drop ((m.ctxs c).incoming.length / A.B * A.B)).length < A.B := by
            have := absorb_part_lt A.B hB A.f ⟨(m.ctxs c).dig, (m.ctxs c).part⟩ (m.ctxs c).incoming
            rw [habs] at this; exact this
          by_cases hn : (m.ctxs c).incoming.length / A.B = 0
          · -- fewer than a block: just buffered
            simp only [hn, ne_eq, not_true_eq_false, if_false, Nat.zero_mul, List.drop_zero] at hres
            rw [hn] at habs hdl
            simp only [Nat.zero_mul, List.drop_zero, blocks, List.foldl] at habs hdl
            by_cases hlast : (m.ctxs c).last = true
            · simp only [hlast, if_true] at hres
              refine key _ _ hres hlc hpc ⟨hdl, fun _ => rfl, fun _ => rfl, fun h => ?_⟩ rfl rfl ?_ ?_
              · simp [hpc] at h
              · simp [hlast]
              · rw [hsx, habs]; simp [settle, hlast, hpc, pad]
            · have hlf : (m.ctxs c).last = false := by simpa using hlast
              simp only [hlf, Bool.false_eq_true, if_false, Option.some.injEq] at hres
              subst hres
              refine back _ hlc rfl rfl rfl ⟨hdl, fun _ => rfl, fun _ => rfl, fun _ => ⟨rfl, rfl⟩⟩ rfl rfl ?_ ?_
              · simp [hlf, hcf]
              rw [hsx, habs]
              simp only [settle, hlc, hcf, hlf, Bool.false_eq_true, if_false]
              rw [absorb_nil A.B A.f _ hdl]
          · simp only [hn, ne_eq, not_false_eq_true, if_true] at hres
            refine key _ _ hres hlc hpc ⟨hdl, fun _ => rfl, fun _ => rfl, fun h => ?_⟩ rfl rfl ?_ ?_
            · simp [hpc] at h
            · simp [hcf]
            · rw [hsx, habs]
              simp only [settle, hcf, Bool.false_eq_true, if_false]
              rw [absorb_nil A.B A.f _ hdl]
        · simp only [hbody, if_false] at hres
          -- nothing to move: either the partial buffer holds the tail, or there is no incoming data
          have hinc : (m.ctxs c).incoming = [] := by
            by_cases hp : (m.ctxs c).part = []
            · by_cases hi : (m.ctxs c).incoming = []
              · exact hi
              · exact absurd ⟨hp, hi⟩ hbody
            · exact hsc.2.1 hp
          have habs : absorb A.B A.f ⟨(m.ctxs c).dig, (m.ctxs c).part⟩ (m.ctxs c).incoming =
              ⟨(m.ctxs c).dig, (m.ctxs c).part⟩ := by
            rw [hinc]; exact absorb_nil A.B A.f _ hsc.1
          by_cases hlast : (m.ctxs c).last = true
          · simp only [hlast, if_true] at hres
            refine key _ _ hres hlc hpc ⟨hsc.1, fun _ => hinc, fun _ => hinc, fun h => ?_⟩ rfl rfl ?_ ?_
            · simp [hpc] at h
            · simp [hlast]
            · rw [hsx, habs]; simp [settle, hlast, hpc, pad]
          · have hlf : (m.ctxs c).last = false := by simpa using hlast
            simp only [hlf, Bool.false_eq_true, if_false, Option.some.injEq] at hres
            subst hres
            refine back _ hlc rfl (by first | rfl | exact hlf) hinc ⟨hsc.1, fun _ => hinc, fun _ => hinc, fun _ => ⟨by first | rfl | exact hlf, hinc⟩⟩ rfl rfl ?_ ?_
            · simp [hlf, hcf]
            rw [hsx, habs]
            simp only [settle, hlc, hcf, hlf, Bool.false_eq_true, if_false]
            exact habs

end IsalVerif.HashMB
