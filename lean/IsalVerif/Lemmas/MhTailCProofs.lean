import IsalVerif.Impl.MhTailC
import IsalVerif.Lemmas.PadCProofs
/-! What `MH_SHA1_TAIL_FUNCTION` / `MH_SHA256_TAIL_FUNCTION` of today's source hashes: the SHA-style padding of the
    multi-hash stream in one or two 1024-byte blocks, then the outer hash over the interim digests. -/
namespace IsalVerif.MhTailC

@[simp] theorem setLoc_locs (s : St) (i v j : Nat) : (s.setLoc i v).locs j = if j = i then v else s.locs j := rfl
@[simp] theorem setLoc_part (s : St) (i v : Nat) : (s.setLoc i v).part = s.part := rfl
@[simp] theorem setLoc_calls (s : St) (i v : Nat) : (s.setLoc i v).calls = s.calls := rfl
@[simp] theorem setLoc_final (s : St) (i v : Nat) : (s.setLoc i v).final = s.final := rfl

/-- the blocks the tail must hash: the partial block with 0x80, zeros, and the 64-bit big-endian bit length at the
    end of the first block if the 0x80 byte and the length still fit, otherwise at the end of a second, zero block -/
def tailBlocks (totalLen : Nat) (part : Bytes) : List Bytes :=
  let pl := totalLen % 1024
  let p1 := poke (poke part pl [0x80]) (pl + 1) (List.replicate (1024 - (pl + 1)) 0)
  let lenField := natBE 8 (totalLen * 8)
  if 1016 < pl + 1 then
    [p1.take 1024, (poke (poke p1 0 (List.replicate 1024 0)) 1016 lenField).take 1024]
  else [(poke p1 1016 lenField).take 1024]

def Out.res : Out → Option (List Bytes × Option Nat)
  | .ret s => some (s.calls, s.final)
  | _ => none

theorem poke_length (buf : Bytes) (off : Nat) (v : Bytes) (h : off + v.length ≤ buf.length) :
    (poke buf off v).length = buf.length := by
  simp [poke]; omega

theorem natLE8_mod (y : Nat) : natLE 8 (y % 18446744073709551616) = natLE 8 y := by
  simp only [natLE, List.range, List.range.loop, List.map]
  simp only [Nat.reducePow, Nat.div_one]
  simp only [List.cons.injEq, and_true]
  refine ⟨?_, ?_, ?_, ?_, ?_, ?_, ?_, ?_⟩ <;> apply PadC.ofNat8_congr <;> omega

theorem natBE8_length (y : Nat) : (natBE 8 y).length = 8 := by simp [natBE]

set_option maxRecDepth 8000 in
/-- **the tail function of today's source hashes exactly `tailBlocks` and then runs the outer hash over `n` bytes** -/
theorem canon_tail (n : Nat) (s : St) (h0 : s.locs 0 < 2^32) (hp : s.part.length = 2048) (hc : s.calls = [])
    (hf : s.final = none) :
    (run (canon n) s).res = some (tailBlocks (s.locs 0) s.part, some n) := by
  unfold run tailBlocks
  generalize hX : (canon n).foldl step (.cont s) = X
  simp only [canon, List.foldl_cons, List.foldl_nil, step] at hX
  have hand : s.locs 0 &&& 1023 = s.locs 0 % 1024 := Nat.and_two_pow_sub_one_eq_mod _ 10
  have f6 : s.locs 0 * 8 % 18446744073709551616 = s.locs 0 * 8 := by omega
  have hplt : s.locs 0 % 1024 < 1024 := Nat.mod_lt _ (by decide)
  generalize hpl : s.locs 0 % 1024 = pl at *
  have f1 : pl % 18446744073709551616 = pl := by omega
  have f2 : (pl + 1) % 18446744073709551616 = pl + 1 := by omega
  have f3 : pl + 1 ≤ 2048 := by omega
  have f4 : (1024 + (18446744073709551616 - (pl + 1))) % 18446744073709551616 = 1023 - pl := by omega
  have f4' : (1024 + (18446744073709551616 - (pl + 1) % 18446744073709551616)) % 18446744073709551616 = 1023 - pl := by omega
  have f5 : pl + 1 + (1023 - pl) ≤ 2048 := by omega
  have f4'' : (1024 + (18446744073709551615 - pl)) % 18446744073709551616 = 1023 - pl := by omega
  have f7 : 1024 - (pl + 1) = 1023 - pl := by omega
  have hl1 : (poke s.part pl [128]).length = 2048 := by
    rw [poke_length _ _ _ (by simp [hp]; omega), hp]
  have hl2 : (poke (poke s.part pl [128]) (pl + 1) (List.replicate (1023 - pl) 0)).length = 2048 := by
    rw [poke_length _ _ _ (by simp [hl1]; omega), hl1]
  have hl3 : (poke (poke (poke s.part pl [128]) (pl + 1) (List.replicate (1023 - pl) 0)) 0 (List.replicate 1024 0)).length = 2048 := by
    rw [poke_length _ _ _ (by simp [hl2]), hl2]
  have hl4 : ∀ X : Bytes, X.length = 2048 → (poke X 1016 (natBE 8 (s.locs 0 * 8))).length = 2048 := by
    intro X hX'; rw [poke_length _ _ _ (by rw [natBE8_length, hX']; decide), hX']
  by_cases c : 1016 < pl + 1
  · rw [if_pos c]
    have c' : 1016 < pl + 1 := c
    simp [Z.eval, locW, hand, f1, f2, f3, f4, f4', f4'', f5, f6, f7, hp, hc, hf, c, hl1, hl2, hl3, hl4 _ hl3, natLE8_mod, PadC.natLE_bswap, -List.reduceReplicate] at hX
    subst hX
    simp [Out.res, St.setLoc, f7, -List.reduceReplicate]
  · rw [if_neg c]
    simp [Z.eval, locW, hand, f1, f2, f3, f4, f4', f4'', f5, f6, f7, hp, hc, hf, c, hl1, hl2, hl4 _ hl2, natLE8_mod, PadC.natLE_bswap, -List.reduceReplicate] at hX
    subst hX
    simp [Out.res, St.setLoc, f7, -List.reduceReplicate]

end IsalVerif.MhTailC
