import IsalVerif.Impl.MhTailC
import IsalVerif.Lemmas.PadCProofs
import IsalVerif.Spec.MD
/-! What `MH_SHA1_TAIL_FUNCTION` / `MH_SHA256_TAIL_FUNCTION` of today's source hashes: the SHA-style padding of the
    multi-hash stream in one or two 1024-byte blocks, then the outer hash over the interim digests. -/
namespace IsalVerif.MhTailC

@[simp] theorem setLoc_locs (s : St) (i v j : Nat) : (s.setLoc i v).locs j = if j = i then v else s.locs j := rfl
@[simp] theorem setLoc_part (s : St) (i v : Nat) : (s.setLoc i v).part = s.part := rfl
@[simp] theorem setLoc_calls (s : St) (i v : Nat) : (s.setLoc i v).calls = s.calls := rfl
@[simp] theorem setLoc_final (s : St) (i v : Nat) : (s.setLoc i v).final = s.final := rfl

/-- the blocks the tail must hash: the partial block with 0x80, zeros, and the 64-bit big-endian bit length at the
    end of the first block if the 0x80 byte and the length still fit, otherwise at the end of a second, zero block -/
def tailBlocks (totalLen : Nat) (part : Bytes) : List Bytes :=
  let pl := totalLen % 1024
  let p1 := poke (poke part pl [0x80]) (pl + 1) (List.replicate (1024 - (pl + 1)) 0)
  let lenField := natBE 8 (totalLen * 8)
  if 1016 < pl + 1 then
    [p1.take 1024, (poke (poke p1 0 (List.replicate 1024 0)) 1016 lenField).take 1024]
  else [(poke p1 1016 lenField).take 1024]

def Out.res : Out → Option (List Bytes × Option Nat)
  | .ret s => some (s.calls, s.final)
  | _ => none

theorem poke_length (buf : Bytes) (off : Nat) (v : Bytes) (h : off + v.length ≤ buf.length) :
    (poke buf off v).length = buf.length := by
  simp [poke]; omega

theorem natLE8_mod (y : Nat) : natLE 8 (y % 18446744073709551616) = natLE 8 y := by
  simp only [natLE, List.range, List.range.loop, List.map]
  simp only [Nat.reducePow, Nat.div_one]
  simp only [List.cons.injEq, and_true]
  refine ⟨?_, ?_, ?_, ?_, ?_, ?_, ?_, ?_⟩ <;> apply PadC.ofNat8_congr <;> omega

theorem natBE8_length (y : Nat) : (natBE 8 y).length = 8 := by simp [natBE]

set_option maxRecDepth 8000 in
/-- **the tail function of today's source hashes exactly `tailBlocks` and then runs the outer hash over `n` bytes** -/
theorem canon_tail (n : Nat) (s : St) (h0 : s.locs 0 < 2^32) (hp : s.part.length = 2048) (hc : s.calls = [])
    (hf : s.final = none) :
    (run (canon n) s).res = some (tailBlocks (s.locs 0) s.part, some n) := by
  unfold run tailBlocks
  generalize hX : (canon n).foldl step (.cont s) = X
  simp only [canon, List.foldl_cons, List.foldl_nil, step] at hX
  have hand : s.locs 0 &&& 1023 = s.locs 0 % 1024 := Nat.and_two_pow_sub_one_eq_mod _ 10
  have f6 : s.locs 0 * 8 % 18446744073709551616 = s.locs 0 * 8 := by omega
  have hplt : s.locs 0 % 1024 < 1024 := Nat.mod_lt _ (by decide)
  generalize hpl : s.locs 0 % 1024 = pl at *
  have f1 : pl % 18446744073709551616 = pl := by omega
  have f2 : (pl + 1) % 18446744073709551616 = pl + 1 := by omega
  have f3 : pl + 1 ≤ 2048 := by omega
  have f4 : (1024 + (18446744073709551616 - (pl + 1))) % 18446744073709551616 = 1023 - pl := by omega
  have f4' : (1024 + (18446744073709551616 - (pl + 1) % 18446744073709551616)) % 18446744073709551616 = 1023 - pl := by omega
  have f5 : pl + 1 + (1023 - pl) ≤ 2048 := by omega
  have f4'' : (1024 + (18446744073709551615 - pl)) % 18446744073709551616 = 1023 - pl := by omega
  have f7 : 1024 - (pl + 1) = 1023 - pl := by omega
  have hl1 : (poke s.part pl [128]).length = 2048 := by
    rw [poke_length _ _ _ (by simp [hp]; omega), hp]
  have hl2 : (poke (poke s.part pl [128]) (pl + 1) (List.replicate (1023 - pl) 0)).length = 2048 := by
    rw [poke_length _ _ _ (by simp [hl1]; omega), hl1]
  have hl3 : (poke (poke (poke s.part pl [128]) (pl + 1) (List.replicate (1023 - pl) 0)) 0 (List.replicate 1024 0)).length = 2048 := by
    rw [poke_length _ _ _ (by simp [hl2]), hl2]
  have hl4 : ∀ X : Bytes, X.length = 2048 → (poke X 1016 (natBE 8 (s.locs 0 * 8))).length = 2048 := by
    intro X hX'; rw [poke_length _ _ _ (by rw [natBE8_length, hX']; decide), hX']
  by_cases c : 1016 < pl + 1
  · rw [if_pos c]
    have c' : 1016 < pl + 1 := c
    simp [Z.eval, locW, hand, f1, f2, f3, f4, f4', f4'', f5, f6, f7, hp, hc, hf, c, hl1, hl2, hl3, hl4 _ hl3, natLE8_mod, PadC.natLE_bswap, -List.reduceReplicate] at hX
    subst hX
    simp [Out.res, St.setLoc, f7, -List.reduceReplicate]
  · rw [if_neg c]
    simp [Z.eval, locW, hand, f1, f2, f3, f4, f4', f4'', f5, f6, f7, hp, hc, hf, c, hl1, hl2, hl4 _ hl2, natLE8_mod, PadC.natLE_bswap, -List.reduceReplicate] at hX
    subst hX
    simp [Out.res, St.setLoc, f7, -List.reduceReplicate]

end IsalVerif.MhTailC

/-! ### the tail's blocks are the standard's padded tail -/
namespace IsalVerif.MhTailC

theorem poke_eq (buf : Bytes) (off : Nat) (v : Bytes) : poke buf off v = PadC.poke buf off v := rfl

set_option maxRecDepth 8000 in
/-- **the blocks the tail hashes are the standard's padded tail**: the bytes of the partial block followed by the
    SHA-style padding of an `n`-byte message to a multiple of 1024 bytes (`MultiHash.mhPad n = mdPad 1024 8 true n`) -/
theorem tailBlocks_is_standard (n : Nat) (part : Bytes) (hp : part.length = 2048) :
    (tailBlocks n part).flatten = part.take (n % 1024) ++ mdPad 1024 8 true n := by
  unfold tailBlocks mdPad
  have hplt : n % 1024 < 1024 := Nat.mod_lt _ (by decide)
  generalize hpl : n % 1024 = pl at *
  simp only [if_true]
  have hk1 : pl + 1 ≤ 1016 → (1024 - (n + 1 + 8) % 1024) % 1024 = 1015 - pl := by intro h; omega
  have hk2 : 1016 < pl + 1 → (1024 - (n + 1 + 8) % 1024) % 1024 = 2039 - pl := by intro h; omega
  have hlf : (natBE 8 (8 * n)).length = 8 := natBE8_length _
  have hmul : n * 8 = 8 * n := Nat.mul_comm _ _
  rw [hmul]
  generalize natBE 8 (8 * n) = lf at *
  have f7 : 1024 - (pl + 1) = 1023 - pl := by omega
  rw [f7]
  have hl1 : (PadC.poke part pl [128]).length = 2048 := by
    rw [PadC.poke_length _ _ _ (by simp [hp]; omega), hp]
  have hl2 : (PadC.poke (PadC.poke part pl [128]) (pl + 1) (List.replicate (1023 - pl) 0)).length = 2048 := by
    rw [PadC.poke_length _ _ _ (by simp [hl1]; omega), hl1]
  -- the first 1024 bytes after the two stores
  have hp1 : ∀ j, j < 1024 → (PadC.poke (PadC.poke part pl [128]) (pl + 1) (List.replicate (1023 - pl) 0))[j]? =
      if j < pl then part[j]? else if j = pl then some 128 else some 0 := by
    intro j hj
    rw [PadC.poke_get _ _ _ (by simp [hl1]; omega), PadC.poke_get _ _ _ (by simp [hp]; omega)]
    simp only [List.length_replicate, List.length_cons, List.length_nil]
    by_cases h1 : j < pl
    · have : j < pl + 1 := by omega
      simp [h1, this]
    · by_cases h2 : j = pl
      · subst h2; simp
      · have h3 : ¬ j < pl + 1 := by omega
        have h4 : j < pl + 1 + (1023 - pl) := by omega
        simp only [h1, h2, h3, h4, if_true, if_false]
        rw [List.getElem?_replicate]; simp; omega
  by_cases c : 1016 < pl + 1
  · rw [if_pos c, hk2 c]
    simp only [List.flatten_cons, List.flatten_nil, List.append_nil, poke_eq]
    apply List.ext_getElem?
    intro j
    have hl3 : (PadC.poke (PadC.poke (PadC.poke part pl [128]) (pl + 1) (List.replicate (1023 - pl) 0)) 0
        (List.replicate 1024 0)).length = 2048 := by
      rw [PadC.poke_length _ _ _ (by simp [hl2, -List.reduceReplicate]), hl2]
    have hl4 : (PadC.poke (PadC.poke (PadC.poke (PadC.poke part pl [128]) (pl + 1) (List.replicate (1023 - pl) 0)) 0
        (List.replicate 1024 0)) 1016 lf).length = 2048 := by
      rw [PadC.poke_length _ _ _ (by rw [hlf, hl3]; decide), hl3]
    by_cases hj : j < 1024
    · rw [List.getElem?_append_left (by simp [hl2, -List.reduceReplicate]; omega), List.getElem?_take_of_lt hj, hp1 j hj]
      by_cases h1 : j < pl
      · simp only [h1, if_true]
        rw [List.getElem?_append_left (by simp [hp]; omega), List.getElem?_take]; simp [h1]
      · rw [List.getElem?_append_right (by simp [hp]; omega)]
        have ht : (List.take pl part).length = pl := by simp [hp]; omega
        rw [ht]
        by_cases h2 : j = pl
        · subst h2; simp
        · simp only [h1, h2, if_false]
          have : j - pl = (j - pl - 1) + 1 := by omega
          rw [this, List.cons_append, List.getElem?_cons_succ, List.getElem?_append_left (by simp; omega),
            List.getElem?_replicate]
          simp; omega
    · rw [List.getElem?_append_right (by simp [hl2, -List.reduceReplicate]; omega)]
      have ht1 : (List.take 1024 (PadC.poke (PadC.poke part pl [128]) (pl + 1) (List.replicate (1023 - pl) 0))).length = 1024 := by
        simp [hl2, -List.reduceReplicate]
      rw [ht1]
      by_cases hj2 : j < 2048
      · rw [List.getElem?_take_of_lt (by omega), PadC.poke_get _ _ _ (by rw [hlf, hl3]; decide), PadC.poke_get _ _ _ (by simp [hl2, -List.reduceReplicate])]
        simp only [List.length_replicate, hlf, Nat.not_lt_zero, if_false, Nat.zero_add, Nat.sub_zero]
        rw [List.getElem?_append_right (by simp [hp]; omega)]
        have ht : (List.take pl part).length = pl := by simp [hp]; omega
        rw [ht]
        have : j - pl = (j - pl - 1) + 1 := by omega
        rw [this, List.cons_append, List.getElem?_cons_succ]
        by_cases h5 : j - 1024 < 1016
        · have h6 : j - 1024 < 1024 := by omega
          simp only [h5, h6, if_true]
          rw [List.getElem?_append_left (by simp; omega), List.getElem?_replicate, List.getElem?_replicate,
            if_pos (by omega), if_pos (by omega)]
        · have h6 : j - 1024 < 1016 + 8 := by omega
          simp only [h5, h6, if_true, if_false]
          rw [List.getElem?_append_right (by simp; omega)]
          simp only [List.length_replicate]
          rw [show j - 1024 - 1016 = j - pl - 1 - (2039 - pl) from by omega]
      · rw [List.getElem?_eq_none (by simp [hl4, -List.reduceReplicate]; omega), List.getElem?_eq_none]
        simp [hp, hlf]; omega
  · rw [if_neg c, hk1 (by omega)]
    simp only [List.flatten_cons, List.flatten_nil, List.append_nil, poke_eq]
    apply List.ext_getElem?
    intro j
    have hl4 : (PadC.poke (PadC.poke (PadC.poke part pl [128]) (pl + 1) (List.replicate (1023 - pl) 0)) 1016 lf).length = 2048 := by
      rw [PadC.poke_length _ _ _ (by rw [hlf, hl2]; decide), hl2]
    by_cases hj : j < 1024
    · rw [List.getElem?_take_of_lt hj, PadC.poke_get _ _ _ (by rw [hlf, hl2]; decide)]
      by_cases h5 : j < 1016
      · simp only [h5, if_true]
        rw [hp1 j hj]
        by_cases h1 : j < pl
        · simp only [h1, if_true]
          rw [List.getElem?_append_left (by simp [hp]; omega), List.getElem?_take]; simp [h1]
        · rw [List.getElem?_append_right (by simp [hp]; omega)]
          have ht : (List.take pl part).length = pl := by simp [hp]; omega
          rw [ht]
          by_cases h2 : j = pl
          · subst h2; simp
          · simp only [h1, h2, if_false]
            have : j - pl = (j - pl - 1) + 1 := by omega
            rw [this, List.cons_append, List.getElem?_cons_succ, List.getElem?_append_left (by simp; omega),
              List.getElem?_replicate]
            simp; omega
      · have h6 : j < 1016 + lf.length := by rw [hlf]; omega
        simp only [h5, h6, if_true, if_false]
        rw [List.getElem?_append_right (by simp [hp]; omega)]
        have ht : (List.take pl part).length = pl := by simp [hp]; omega
        rw [ht]
        have : j - pl = (j - pl - 1) + 1 := by omega
        rw [this, List.cons_append, List.getElem?_cons_succ, List.getElem?_append_right (by simp; omega)]
        simp only [List.length_replicate]
        congr 1; omega
    · rw [List.getElem?_eq_none (by simp [hl4, -List.reduceReplicate]; omega), List.getElem?_eq_none]
      simp [hp, hlf]; omega

end IsalVerif.MhTailC
