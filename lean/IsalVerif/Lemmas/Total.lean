import IsalVerif.Lemmas.Fuel
/-!
# Every API call of the model returns: the fuel constants of `Impl/HashMB.lean` always suffice

`fuelFor m = 2·lanes + 4` bounds the `while (ctx)` loop of submit, `flushFuel m = 2·lanes + 3` the
`while (1)` loop of flush.  Consequently `step`/`run` never yield `none` from a reachable state, and
repeated flushing drains a manager in exactly as many calls as it holds contexts.
-/
namespace IsalVerif.HashMB
variable {D : Type}

theorem MgrOk.idle_lane {m : M D} (h : MgrOk m) (j : Cid) (hp : (m.ctxs j).processing = false) :
    (m.ctxs j).lane = none := by
  cases hl : (m.ctxs j).lane with
  | none => rfl
  | some p =>
    have := (h.coh j (h.lane_slot j (by simp [hl]))).2
    rw [hp] at this; cases this

/-- the fuel constant of submit suffices for any manager with the same number of lanes -/
theorem resubmit_total' (A : Alg D) (m0 m : M D) (r : Option Cid) (hok : MgrOk m)
    (hl : ∀ c, r = some c → (m.ctxs c).lane = none ∧ (m.ctxs c).processing = true)
    (hlen : m.slots.length = m0.slots.length) : ∃ res, resubmit A (fuelFor m0) m r = some res := by
  apply resubmit_total A _ m r hok hl
  have := phi_le A.B m r
  unfold fuelFor; omega

theorem submitTail_total (A : Alg D) (m : M D) (c : Cid) (x2 : Ctx D) (hok : MgrOk m)
    (hlc : (m.ctxs c).lane = none) (hx2l : x2.lane = none) (hx2p : x2.processing = true) :
    ∃ res, submitTail A m c x2 = some res := by
  unfold submitTail
  simp only []
  have hset : ∀ y : Ctx D, y.lane = none → y.processing = true →
      ∃ res, resubmit A (fuelFor m) (setCtx m c y) (some c) = some res := by
    intro y hyl hyp
    apply resubmit_total' A m _ _ (setCtx_ok m c y hok hlc hyl) _ rfl
    intro c' hc'; cases hc'
    simp [setCtx, hyl, hyp]
  split
  · -- top-up branch
    have hx3 : ∀ x3 : Ctx D, x3.lane = none → x3.processing = true →
        ∃ res, (if A.B ≤ x3.part.length then
            resubmit A (fuelFor m) (mgrSubmit A.f (setCtx m c { x3 with part := [] }) c [x3.part]).1
              (mgrSubmit A.f (setCtx m c { x3 with part := [] }) c [x3.part]).2
          else resubmit A (fuelFor m) (setCtx m c x3) (some c)) = some res := by
      intro x3 h3l h3p
      split
      · obtain ⟨h1, h2, _⟩ := submit_phase A m c { x3 with part := [] } [x3.part] hok hlc h3l h3p
        apply resubmit_total' A m _ _ h1 h2
        rw [mgrSubmit_slots_len]; rfl
      · exact hset x3 h3l h3p
    split
    · exact hx3 _ hx2l hx2p
    · exact hx3 _ hx2l hx2p
  · exact hset x2 hx2l hx2p

/-- **submit always returns** -/
theorem ctxSubmit_total (A : Alg D) (m : M D) (c : Cid) (data : Bytes) (flags : Nat) (hok : MgrOk m) :
    ∃ res, ctxSubmit A m c data flags = some res := by
  unfold ctxSubmit
  simp only []
  split
  · exact ⟨_, rfl⟩
  · split
    · exact ⟨_, rfl⟩
    · rename_i hproc
      split
      · exact ⟨_, rfl⟩
      · have hp : (m.ctxs c).processing = false := by simpa using hproc
        have hlc := hok.idle_lane c hp
        apply submitTail_total A m c _ hok hlc
        · unfold accepted; simp only []; split <;> exact hlc
        · unfold accepted; rfl

theorem mgrFlush_phi (P : Params) (B : Nat) (f : D → Bytes → D) (m : M D) :
    Phi B (mgrFlush P f m).1 (mgrFlush P f m).2 = slotSum B m.ctxs m.slots := by
  unfold mgrFlush
  simp only []
  split
  · simp [Phi]
  · exact retireMin_phi B f _ m

/-- **the flush loop terminates**: every iteration that goes round again has handed a pending phase
    of some context to a lane -/
theorem ctxFlush_total' (P : Params) (A : Alg D) :
    ∀ (fuel : Nat) (m : M D), MgrOk m → slotSum A.B m.ctxs m.slots < fuel →
      ∃ res, ctxFlush P A fuel m = some res := by
  intro fuel
  induction fuel with
  | zero => intro m _ h; omega
  | succ fuel ih =>
    intro m hok hlt
    simp only [ctxFlush]
    cases hfl : (mgrFlush P A.f m).2 with
    | none => exact ⟨_, rfl⟩
    | some c =>
      simp only []
      have hok1 := mgrFlush_ok P A.f m hok
      have hpre : ∀ c', some c = some c' → ((mgrFlush P A.f m).1.ctxs c').lane = none ∧
          ((mgrFlush P A.f m).1.ctxs c').processing = true := by
        intro c' h; cases h
        exact ⟨mgrFlush_ret P A.f m c hfl, mgrFlush_ret_proc P A.f m hok c hfl⟩
      obtain ⟨r2, hr2⟩ := resubmit_total' A m _ (some c) hok1 hpre (mgrFlush_slots_len P A.f m)
      rw [hr2]
      simp only []
      cases h2 : r2.2 with
      | some c' => exact ⟨_, rfl⟩
      | none =>
        simp only []
        obtain ⟨hok2, _, hdrop⟩ := resubmit_phi A _ _ _ r2 hr2 hok1 hpre
        have hd := hdrop (by simp) h2
        have hphi := mgrFlush_phi P A.B A.f m
        rw [hfl] at hphi
        rw [hphi, h2] at hd
        apply ih r2.1 hok2
        simp only [Phi] at hd
        omega

/-- **flush always returns** -/
theorem ctxFlush_total (P : Params) (A : Alg D) (m : M D) (hok : MgrOk m) :
    ∃ res, ctxFlush P A (flushFuel m) m = some res := by
  apply ctxFlush_total' P A _ m hok
  have := slotSum_le A.B m.ctxs m.slots
  unfold flushFuel; omega

theorem step_total (P : Params) (A : Alg D) (w : World D) (op : Op) (hok : MgrOk w.m) :
    ∃ r, step P A w op = some r := by
  cases op with
  | submit c data flags =>
    obtain ⟨res, h⟩ := ctxSubmit_total A w.m c data flags hok
    simp only [step, h]; exact ⟨_, rfl⟩
  | flush =>
    obtain ⟨res, h⟩ := ctxFlush_total P A w.m hok
    simp only [step, h]; exact ⟨_, rfl⟩

/-- **every history runs to completion**: the model never runs out of fuel from a reachable state -/
theorem run_total (P : Params) (A : Alg D) (hB : 0 < A.B) :
    ∀ (ops : List Op) (w : World D), Good A w → ∃ w', run P A w ops = some w' := by
  intro ops
  induction ops with
  | nil => intro w _; exact ⟨w, rfl⟩
  | cons op ops ih =>
    intro w hg
    obtain ⟨r, hr⟩ := step_total P A w op hg.inv.ok
    simp only [run, hr]
    exact ih r.1 (step_good P A hB w op r hr hg)

end IsalVerif.HashMB
