import IsalVerif.Impl.MhFinC
/-!
  IsalVerif/Lemmas/MhFinCProofs.lean — what the finalize functions of the multi-hash contexts do (`MhFinC.canon`), proved
  once for every `total_length`; `GenProps/MhFin.lean` ties the current source to it on every run.
-/
namespace IsalVerif.MhFinC

def evOuts (b : Buf) (n : Nat) : List Ev := (List.range n).map fun i => .out b i i

/-- the externally visible behaviour of finalize on a context with `total_length = total` -/
def finSpec (total W : Nat) (mur : Bool) : List Ev :=
  (if mur then [.murBlock 0 (total % 1024 / 16), .murTail (total % 1024 - total % 1024 % 16) (total % 2^32)] else []) ++
  [.shaTail (total % 2^32)] ++ evOuts .sha W ++ (if mur then evOuts .mur 4 else [])

theorem run_outs_aux (b : Buf) (l : List Nat) (s : St) :
    (l.map fun i => B.out b i i).foldl step (.cont s) = .cont { s with evs := s.evs ++ l.map fun i => Ev.out b i i } := by
  induction l generalizing s with
  | nil => simp
  | cons a l ih => simp only [List.map_cons, List.foldl_cons, step]; rw [ih]; simp

theorem run_outs (b : Buf) (n : Nat) (s : St) :
    (outs b n).foldl step (.cont s) = .cont { s with evs := s.evs ++ evOuts b n } := run_outs_aux b _ s

theorem and1023 (n : Nat) : n &&& 1023 = n % 1024 := Nat.and_two_pow_sub_one_eq_mod n 10
theorem and15 (n : Nat) : n &&& 15 = n % 16 := Nat.and_two_pow_sub_one_eq_mod n 4

/-- **the finalize functions, for every context**: the stitched variant first feeds murmur3 the whole 16-byte blocks of
    the buffered bytes and then its tail (with the 32-bit total length), then every variant runs the multi-hash tail of
    its family with the 32-bit total length, copies exactly the digest words to the non-NULL outputs and returns 0 -/
theorem canon_fin (s : St) (ht : s.total < 2^64) (he : s.evs = []) (W : Nat) (mur : Bool) :
    (run (canon W mur) s).res = some (finSpec s.total W mur, 0) := by
  obtain ⟨total, locs, evs⟩ := s
  simp only at ht he
  subst he
  have h0 : total % 2^64 = total := Nat.mod_eq_of_lt ht
  cases mur
  · simp only [run, canon, canonMur, if_false, Bool.false_eq_true, List.append_nil, List.cons_append, List.nil_append,
      List.foldl_cons, List.foldl_append, List.foldl_nil, step, St.setLoc, Z.eval, run_outs, Out.res, finSpec]
    simp [h0]
  · simp only [run, canon, canonMur, if_true, List.cons_append, List.nil_append,
      List.foldl_cons, List.foldl_append, List.foldl_nil, step, St.setLoc, Z.eval, run_outs, Out.res, finSpec]
    have hp : total % 1024 < 1024 := Nat.mod_lt _ (by decide)
    have hq : total % 1024 % 16 ≤ total % 1024 := Nat.mod_le _ _
    simp [h0, and1023, and15]
    refine ⟨?_, ?_⟩ <;> omega

/-- **murmur3 sees exactly the buffered bytes**: the whole blocks and the tail handed to the murmur functions by the
    stitched finalize are together the first `total mod 1024` bytes of the partial buffer (the murmur tail function
    reads `len mod 16` bytes) -/
theorem mur_reads_buffered (total : Nat) (part : Bytes) :
    part.take (16 * (total % 1024 / 16)) ++ (part.drop (total % 1024 - total % 1024 % 16)).take (total % 2^32 % 16) =
      part.take (total % 1024) := by
  have h1 : 16 * (total % 1024 / 16) = total % 1024 - total % 1024 % 16 := by omega
  have h2 : total % 2^32 % 16 = total % 1024 % 16 := by omega
  rw [h1, h2]
  have h3 : total % 1024 = (total % 1024 - total % 1024 % 16) + total % 1024 % 16 := by omega
  conv => rhs; rw [h3, List.take_add]

/-- **the stitched C block function**: for every block count below 2^22 (inputs shorter than 2^32 bytes) it runs the
    mh_sha1 block function over `n` 1024-byte blocks and the murmur block function over `64 n` 16-byte blocks of the same
    input, i.e. over the same `1024 n` bytes -/
theorem canon_blockbase (s : St) (n : Nat) (hn : n < 2^22) (h3 : s.locs 3 = n) (he : s.evs = []) :
    (run canonBlockBase s).res = some ([.shaBlockIn n, .murBlockIn (64 * n)], 0) ∧ 16 * (64 * n) = 1024 * n := by
  obtain ⟨total, locs, evs⟩ := s
  simp only at h3 he
  subst he
  simp only [run, canonBlockBase, List.foldl_cons, List.foldl_nil, step, Z.eval, Out.res, h3]
  refine ⟨?_, by omega⟩
  simp only [List.nil_append, List.cons_append, Option.some.injEq, Prod.mk.injEq, and_true, List.cons.injEq,
    Ev.murBlockIn.injEq, true_and]
  omega

/-- non-vacuity: a context 3000 bytes into a stream meets the premises of `canon_fin`, and the stitched finalize then
    hands murmur3 59 whole blocks (952 buffered bytes) and the tail at offset 944 -/
example : (run (canon 5 true) { total := 3000 }).res =
    some ([.murBlock 0 59, .murTail 944 3000, .shaTail 3000] ++ evOuts .sha 5 ++ evOuts .mur 4, 0) := by decide
example : (3000 : Nat) < 2^64 ∧ ({ total := 3000 } : St).evs = [] := by decide
/-- non-vacuity of `canon_blockbase` -/
example : (run canonBlockBase { total := 0, locs := fun i => if i = 3 then 7 else 0 }).res =
    some ([.shaBlockIn 7, .murBlockIn 448], 0) := by decide

end IsalVerif.MhFinC
