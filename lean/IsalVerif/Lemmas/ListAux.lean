/-! Small list facts about `set`, `idxOf`, `count` used by the lane bookkeeping proofs. -/
namespace IsalVerif
variable {α : Type} [BEq α] [LawfulBEq α]

theorem count_set_le_of_ne (x b : α) (hx : x ≠ b) : ∀ (l : List α) (i : Nat), (l.set i b).count x ≤ l.count x
  | [], _ => by simp
  | a :: l, 0 => by
    simp only [List.set_cons_zero, List.count_cons]
    have : (b == x) = false := by simp [Ne.symm hx]
    simp [this]
  | a :: l, i+1 => by
    simp only [List.set_cons_succ, List.count_cons]
    have := count_set_le_of_ne x b hx l i
    split <;> omega

theorem count_set_le_succ (x : α) : ∀ (l : List α) (i : Nat), (l.set i x).count x ≤ l.count x + 1
  | [], _ => by simp
  | a :: l, 0 => by
    simp only [List.set_cons_zero, List.count_cons]; simp
  | a :: l, i+1 => by
    simp only [List.set_cons_succ, List.count_cons]
    have := count_set_le_succ x l i
    split <;> omega

theorem not_mem_set_idxOf (a b : α) (hab : a ≠ b) : ∀ (l : List α), l.count a ≤ 1 → a ∉ l.set (l.idxOf a) b
  | [], _ => by simp
  | x :: l, h => by
    by_cases hx : x = a
    · subst hx
      simp only [List.idxOf_cons_self, List.set_cons_zero, List.mem_cons, not_or]
      refine ⟨hab, ?_⟩
      simp only [List.count_cons_self] at h
      exact List.count_eq_zero.mp (by omega)
    · have hbeq : (x == a) = false := by simp [hx]
      rw [List.idxOf_cons, hbeq]
      simp only [cond_false, List.set_cons_succ, List.mem_cons, not_or]
      refine ⟨fun h' => hx h'.symm, ?_⟩
      apply not_mem_set_idxOf a b hab l
      simpa [List.count_cons, hbeq] using h

omit [BEq α] [LawfulBEq α] in
theorem mem_set_of_mem_ne {x b : α} {l : List α} {i : Nat} (h : x ∈ l.set i b) (hx : x ≠ b) : x ∈ l := by
  rcases List.mem_or_eq_of_mem_set h with h | h
  · exact h
  · exact absurd h hx

theorem getElem?_set_idxOf_ne (l : List α) (a b : α) (j : Nat)
    (hj : l[j]? ≠ some a) (ha : a ∈ l) : (l.set (l.idxOf a) b)[j]? = l[j]? := by
  rw [List.getElem?_set]
  split
  · rename_i h; subst h
    exfalso; apply hj
    have hlt := List.idxOf_lt_length_of_mem ha
    rw [List.getElem?_eq_getElem hlt, List.getElem_idxOf]
  · rfl

end IsalVerif
