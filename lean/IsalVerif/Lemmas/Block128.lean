import IsalVerif.Spec.Gf128
import IsalVerif.Lemmas.AesBytes
import IsalVerif.Lemmas.Be64
/-! `Block128` ↔ 16-byte strings: `ofBytes ∘ toBytes = id` and `ofBytes` is a homomorphism for XOR.
    Core Lean only. -/
namespace IsalVerif

theorem be64_step_xor (x y : UInt64) (a b : UInt8) :
    ((x ^^^ y) <<< 8) ||| (a ^^^ b).toUInt64 = ((x <<< 8) ||| a.toUInt64) ^^^ ((y <<< 8) ||| b.toUInt64) := by
  rw [or_eq_xor_byte, or_eq_xor_byte, or_eq_xor_byte, UInt8.toUInt64_xor, UInt64.shiftLeft_xor]
  ac_rfl

theorem be64_foldl_xor : ∀ (l l' : Bytes) (x y : UInt64), l.length = l'.length →
    (xorBytes l l').foldl (fun (a : UInt64) (b : UInt8) => (a <<< 8) ||| b.toUInt64) (x ^^^ y) =
      l.foldl (fun (a : UInt64) (b : UInt8) => (a <<< 8) ||| b.toUInt64) x ^^^ l'.foldl (fun (a : UInt64) (b : UInt8) => (a <<< 8) ||| b.toUInt64) y
  | [], [], _, _, _ => rfl
  | [], _ :: _, _, _, h => by simp at h
  | _ :: _, [], _, _, h => by simp at h
  | a :: l, b :: l', x, y, h => by
    rw [xorBytes_cons, List.foldl_cons, List.foldl_cons, List.foldl_cons, be64_step_xor]
    exact be64_foldl_xor l l' _ _ (by simpa using h)

theorem be64_xorBytes {l l' : Bytes} (h : l.length = l'.length) :
    be64 (xorBytes l l') = be64 l ^^^ be64 l' := by
  have := be64_foldl_xor l l' 0 0 h
  rwa [UInt64.xor_self] at this

namespace Gf128
open Block128

theorem toBytes_length (x : Block128) : x.toBytes.length = 16 := by
  simp [Block128.toBytes, bytesBE64]

theorem xor_def (x y : Block128) : x ^^^ y = ⟨x.hi ^^^ y.hi, x.lo ^^^ y.lo⟩ := rfl

theorem ofBytes_toBytes (x : Block128) : Block128.ofBytes x.toBytes = x := by
  have h1 : (bytesBE64 x.hi ++ bytesBE64 x.lo).take 8 = bytesBE64 x.hi :=
    List.take_left' (by simp [bytesBE64])
  have h2 : ((bytesBE64 x.hi ++ bytesBE64 x.lo).drop 8).take 8 = bytesBE64 x.lo := by
    rw [List.drop_left' (by simp [bytesBE64])]
    exact List.take_of_length_le (by simp [bytesBE64])
  unfold Block128.ofBytes Block128.toBytes
  rw [h1, h2, be64_bytesBE64, be64_bytesBE64]

theorem ofBytes_xorBytes {a b : Bytes} (h : a.length = b.length) :
    Block128.ofBytes (xorBytes a b) = Block128.ofBytes a ^^^ Block128.ofBytes b := by
  unfold Block128.ofBytes xorBytes
  rw [List.take_zipWith, List.drop_zipWith, List.take_zipWith]
  show Block128.mk (be64 (xorBytes _ _)) (be64 (xorBytes _ _)) = _
  rw [be64_xorBytes (by simp [h]), be64_xorBytes (by simp [h]), xor_def]

end Gf128
end IsalVerif
