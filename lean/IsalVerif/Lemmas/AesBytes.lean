import IsalVerif.Spec.Aes
/-! Byte- and column-level helper lemmas for the AES laws (`Props/AesLaws.lean`): list / `xorBytes`
    helpers, the S-box inverse (finite check over the 256 bytes), GF(2)-linearity of `xtime`, and the
    column identities of `InvMixColumns ∘ MixColumns` and `MixColumns ∘ InvMixColumns`.
    Core Lean only. -/
namespace IsalVerif

/-! ### generic list helpers -/

theorem len_succ_cases {α : Type} {n : Nat} {l : List α} (h : l.length = n + 1) :
    ∃ a t, l = a :: t ∧ t.length = n := by
  cases l with
  | nil => simp at h
  | cons a t => exact ⟨a, t, rfl, by simpa using h⟩

/-- A list of length 16 is a literal of 16 elements. -/
theorem len16_cases {α : Type} {l : List α} (h : l.length = 16) :
    ∃ a0 a1 a2 a3 a4 a5 a6 a7 a8 a9 a10 a11 a12 a13 a14 a15 : α,
      l = [a0, a1, a2, a3, a4, a5, a6, a7, a8, a9, a10, a11, a12, a13, a14, a15] := by
  obtain ⟨a0, l0, rfl, h0⟩ := len_succ_cases h
  obtain ⟨a1, l1, rfl, h1⟩ := len_succ_cases h0
  obtain ⟨a2, l2, rfl, h2⟩ := len_succ_cases h1
  obtain ⟨a3, l3, rfl, h3⟩ := len_succ_cases h2
  obtain ⟨a4, l4, rfl, h4⟩ := len_succ_cases h3
  obtain ⟨a5, l5, rfl, h5⟩ := len_succ_cases h4
  obtain ⟨a6, l6, rfl, h6⟩ := len_succ_cases h5
  obtain ⟨a7, l7, rfl, h7⟩ := len_succ_cases h6
  obtain ⟨a8, l8, rfl, h8⟩ := len_succ_cases h7
  obtain ⟨a9, l9, rfl, h9⟩ := len_succ_cases h8
  obtain ⟨a10, l10, rfl, h10⟩ := len_succ_cases h9
  obtain ⟨a11, l11, rfl, h11⟩ := len_succ_cases h10
  obtain ⟨a12, l12, rfl, h12⟩ := len_succ_cases h11
  obtain ⟨a13, l13, rfl, h13⟩ := len_succ_cases h12
  obtain ⟨a14, l14, rfl, h14⟩ := len_succ_cases h13
  obtain ⟨a15, l15, rfl, h15⟩ := len_succ_cases h14
  cases l15 with
  | nil => exact ⟨a0, a1, a2, a3, a4, a5, a6, a7, a8, a9, a10, a11, a12, a13, a14, a15, rfl⟩
  | cons => simp at h15

/-! ### `xorBytes` -/

theorem xorBytes_length (a b : Bytes) : (xorBytes a b).length = min a.length b.length := by
  simp [xorBytes]

theorem xorBytes_length_of_le {a b : Bytes} (h : a.length ≤ b.length) :
    (xorBytes a b).length = a.length := by
  rw [xorBytes_length]; omega

theorem xorBytes_length_eq {a b : Bytes} {n : Nat} (ha : a.length = n) (hb : b.length = n) :
    (xorBytes a b).length = n := by
  rw [xorBytes_length]; omega

theorem xorBytes_nil_left (b : Bytes) : xorBytes [] b = [] := rfl

theorem xorBytes_cons (x y : UInt8) (a b : Bytes) :
    xorBytes (x :: a) (y :: b) = (x ^^^ y) :: xorBytes a b := rfl

theorem u8_xor_left_comm (a b c : UInt8) : a ^^^ (b ^^^ c) = b ^^^ (a ^^^ c) := by
  rw [← UInt8.xor_assoc, UInt8.xor_comm a b, UInt8.xor_assoc]

theorem u8_xor_self_left (a b : UInt8) : a ^^^ (a ^^^ b) = b := by
  rw [← UInt8.xor_assoc, UInt8.xor_self, UInt8.zero_xor]

theorem u8_xor_cancel_right (a b : UInt8) : a ^^^ b ^^^ b = a := by
  rw [UInt8.xor_assoc, UInt8.xor_self, UInt8.xor_zero]

/-- `(a ⊕ k) ⊕ k = a` when `k` is at least as long as `a`. -/
theorem xorBytes_cancel : ∀ {a k : Bytes}, a.length ≤ k.length → xorBytes (xorBytes a k) k = a
  | [], _, _ => rfl
  | _ :: _, [], h => by simp at h
  | x :: a, y :: k, h => by
    have h' : a.length ≤ k.length := by simpa using h
    simp only [xorBytes_cons, u8_xor_cancel_right, xorBytes_cancel h']

theorem xorBytes_comm : ∀ (a b : Bytes), xorBytes a b = xorBytes b a
  | [], [] => rfl
  | [], _ :: _ => rfl
  | _ :: _, [] => rfl
  | x :: a, y :: b => by simp only [xorBytes_cons, UInt8.xor_comm x y, xorBytes_comm a b]

namespace Aes

/-! ### bytes: S-box and `xtime` -/

theorem forall_uint8 {P : UInt8 → Prop} (h : ∀ n : Fin 256, P (UInt8.ofNat n.val)) : ∀ x, P x := by
  intro x
  have := h ⟨x.toNat, x.toNat_lt⟩
  simpa using this

theorem invSubByte_subByte : ∀ x : UInt8, invSubByte (subByte x) = x :=
  forall_uint8 (by decide +kernel)

theorem subByte_invSubByte : ∀ x : UInt8, subByte (invSubByte x) = x :=
  forall_uint8 (by decide +kernel)

theorem xtime_eq : ∀ a : UInt8, xtime a = (a <<< 1) ^^^ (if a >>> 7 = 1 then 0x1b else 0) :=
  forall_uint8 (by decide +kernel)

theorem hi01 : ∀ a : UInt8, a >>> 7 = 0 ∨ a >>> 7 = 1 :=
  forall_uint8 (by decide +kernel)

/-- `xtime` is GF(2)-linear. -/
theorem xtime_xor (a b : UInt8) : xtime (a ^^^ b) = xtime a ^^^ xtime b := by
  rw [xtime_eq, xtime_eq a, xtime_eq b, UInt8.shiftLeft_xor, UInt8.shiftRight_xor]
  rcases hi01 a with h | h <;> rcases hi01 b with h' | h' <;>
    simp [h, h', UInt8.xor_assoc, UInt8.xor_comm, u8_xor_left_comm]

theorem mul02_xor (a b : UInt8) : mul02 (a ^^^ b) = mul02 a ^^^ mul02 b := xtime_xor a b
theorem mul03_xor (a b : UInt8) : mul03 (a ^^^ b) = mul03 a ^^^ mul03 b := by
  simp [mul03, xtime_xor, UInt8.xor_assoc, UInt8.xor_comm, u8_xor_left_comm]
theorem mul09_xor (a b : UInt8) : mul09 (a ^^^ b) = mul09 a ^^^ mul09 b := by
  simp [mul09, xtime_xor, UInt8.xor_assoc, UInt8.xor_comm, u8_xor_left_comm]
theorem mul0b_xor (a b : UInt8) : mul0b (a ^^^ b) = mul0b a ^^^ mul0b b := by
  simp [mul0b, xtime_xor, UInt8.xor_assoc, UInt8.xor_comm, u8_xor_left_comm]
theorem mul0d_xor (a b : UInt8) : mul0d (a ^^^ b) = mul0d a ^^^ mul0d b := by
  simp [mul0d, xtime_xor, UInt8.xor_assoc, UInt8.xor_comm, u8_xor_left_comm]
theorem mul0e_xor (a b : UInt8) : mul0e (a ^^^ b) = mul0e a ^^^ mul0e b := by
  simp [mul0e, xtime_xor, UInt8.xor_assoc, UInt8.xor_comm, u8_xor_left_comm]

/-! ### one column of `InvMixColumns ∘ MixColumns` and `MixColumns ∘ InvMixColumns`
    After expanding by linearity of `xtime` every term cancels formally (all products have degree
    `≤ 4 < 8`, so no reduction modulo `m(x)` is involved). -/

section columns
set_option linter.unusedSimpArgs false
variable (a b c d : UInt8)

local macro "col_tac" : tactic =>
  `(tactic| (
      simp only [mul02, mul03, mul09, mul0b, mul0d, mul0e, xtime_xor]
      ac_nf
      simp only [u8_xor_self_left, UInt8.xor_self, UInt8.xor_zero, UInt8.zero_xor]))

theorem imc_mc_0 :
    mul0e (mul02 a ^^^ mul03 b ^^^ c ^^^ d) ^^^ mul0b (a ^^^ mul02 b ^^^ mul03 c ^^^ d) ^^^
    mul0d (a ^^^ b ^^^ mul02 c ^^^ mul03 d) ^^^ mul09 (mul03 a ^^^ b ^^^ c ^^^ mul02 d) = a := by col_tac
theorem imc_mc_1 :
    mul09 (mul02 a ^^^ mul03 b ^^^ c ^^^ d) ^^^ mul0e (a ^^^ mul02 b ^^^ mul03 c ^^^ d) ^^^
    mul0b (a ^^^ b ^^^ mul02 c ^^^ mul03 d) ^^^ mul0d (mul03 a ^^^ b ^^^ c ^^^ mul02 d) = b := by col_tac
theorem imc_mc_2 :
    mul0d (mul02 a ^^^ mul03 b ^^^ c ^^^ d) ^^^ mul09 (a ^^^ mul02 b ^^^ mul03 c ^^^ d) ^^^
    mul0e (a ^^^ b ^^^ mul02 c ^^^ mul03 d) ^^^ mul0b (mul03 a ^^^ b ^^^ c ^^^ mul02 d) = c := by col_tac
theorem imc_mc_3 :
    mul0b (mul02 a ^^^ mul03 b ^^^ c ^^^ d) ^^^ mul0d (a ^^^ mul02 b ^^^ mul03 c ^^^ d) ^^^
    mul09 (a ^^^ b ^^^ mul02 c ^^^ mul03 d) ^^^ mul0e (mul03 a ^^^ b ^^^ c ^^^ mul02 d) = d := by col_tac

theorem mc_imc_0 :
    mul02 (mul0e a ^^^ mul0b b ^^^ mul0d c ^^^ mul09 d) ^^^ mul03 (mul09 a ^^^ mul0e b ^^^ mul0b c ^^^ mul0d d) ^^^
    (mul0d a ^^^ mul09 b ^^^ mul0e c ^^^ mul0b d) ^^^ (mul0b a ^^^ mul0d b ^^^ mul09 c ^^^ mul0e d) = a := by col_tac
theorem mc_imc_1 :
    (mul0e a ^^^ mul0b b ^^^ mul0d c ^^^ mul09 d) ^^^ mul02 (mul09 a ^^^ mul0e b ^^^ mul0b c ^^^ mul0d d) ^^^
    mul03 (mul0d a ^^^ mul09 b ^^^ mul0e c ^^^ mul0b d) ^^^ (mul0b a ^^^ mul0d b ^^^ mul09 c ^^^ mul0e d) = b := by col_tac
theorem mc_imc_2 :
    (mul0e a ^^^ mul0b b ^^^ mul0d c ^^^ mul09 d) ^^^ (mul09 a ^^^ mul0e b ^^^ mul0b c ^^^ mul0d d) ^^^
    mul02 (mul0d a ^^^ mul09 b ^^^ mul0e c ^^^ mul0b d) ^^^ mul03 (mul0b a ^^^ mul0d b ^^^ mul09 c ^^^ mul0e d) = c := by col_tac
theorem mc_imc_3 :
    mul03 (mul0e a ^^^ mul0b b ^^^ mul0d c ^^^ mul09 d) ^^^ (mul09 a ^^^ mul0e b ^^^ mul0b c ^^^ mul0d d) ^^^
    (mul0d a ^^^ mul09 b ^^^ mul0e c ^^^ mul0b d) ^^^ mul02 (mul0b a ^^^ mul0d b ^^^ mul09 c ^^^ mul0e d) = d := by col_tac

end columns

end Aes
end IsalVerif
