import IsalVerif.Lemmas.History
/-!
# The loops of the context layer terminate: the model's fuel always suffices

`resubmit` (C: `while (ctx)`) and `ctxFlush` (C: `while (1)`) have no syntactic bound.  Measure: the
number of job *phases* not yet handed to a lane — a context has a pending body phase while whole
blocks of its incoming segment wait, and a pending padding phase while LAST is latched.  Every
iteration of `resubmit` that does not return converts one pending phase of the context in hand into
lane occupancy and continues with the context the scheduler hands back, so
`Φ = Σ_{contexts in lanes} phases + phases(context in hand)` drops by one per iteration.
-/
namespace IsalVerif.HashMB
variable {D : Type}

/-- job phases of a context not yet handed to the scheduler -/
def phases (B : Nat) (x : Ctx D) : Nat :=
  if x.complete then 0
  else (if x.part = [] ∧ x.incoming.length / B ≠ 0 then 1 else 0) + (if x.last then 1 else 0)

theorem phases_le_two (B : Nat) (x : Ctx D) : phases B x ≤ 2 := by
  unfold phases; split
  · omega
  · split <;> split <;> omega

theorem phases_sameUser {B : Nat} {x y : Ctx D} (h : sameUser x y) : phases B x = phases B y := by
  obtain ⟨h1, h2, h3, h4, _⟩ := h
  simp only [phases, h1, h2, h3, h4]

def slotVal (B : Nat) (ctxs : Cid → Ctx D) : Option Cid → Nat
  | some j => phases B (ctxs j)
  | none => 0

/-- pending phases of the contexts sitting in lanes -/
def slotSum (B : Nat) (ctxs : Cid → Ctx D) (slots : List (Option Cid)) : Nat :=
  (slots.map (slotVal B ctxs)).sum

theorem slotSum_cons (B : Nat) (ctxs : Cid → Ctx D) (s : Option Cid) (rest : List (Option Cid)) :
    slotSum B ctxs (s :: rest) = slotVal B ctxs s + slotSum B ctxs rest := by simp [slotSum]

theorem slotSum_le (B : Nat) (ctxs : Cid → Ctx D) : ∀ slots : List (Option Cid), slotSum B ctxs slots ≤ 2 * slots.length
  | [] => by simp [slotSum]
  | s :: rest => by
    have ih := slotSum_le B ctxs rest
    rw [slotSum_cons, List.length_cons]
    cases s with
    | none => simp only [slotVal]; omega
    | some j => have := phases_le_two B (ctxs j); simp only [slotVal]; omega

/-- changing a context that is in no lane does not change the sum -/
theorem slotSum_congr (B : Nat) (c1 c2 : Cid → Ctx D) (slots : List (Option Cid))
    (h : ∀ j, some j ∈ slots → phases B (c1 j) = phases B (c2 j)) : slotSum B c1 slots = slotSum B c2 slots := by
  induction slots with
  | nil => rfl
  | cons s rest ih =>
    rw [slotSum_cons, slotSum_cons, ih (fun j hj => h j (List.mem_cons_of_mem _ hj))]
    cases s with
    | none => rfl
    | some j => simp only [slotVal]; rw [h j List.mem_cons_self]

/-- filling an empty lane adds the context's phases -/
theorem slotSum_set_some (B : Nat) (ctxs : Cid → Ctx D) : ∀ (slots : List (Option Cid)) (i : Nat) (c : Cid),
    slots[i]? = some none → slotSum B ctxs (slots.set i (some c)) = slotSum B ctxs slots + phases B (ctxs c)
  | [], _, _, h => by simp at h
  | s :: rest, 0, c, h => by
    simp only [List.getElem?_cons_zero, Option.some.injEq] at h; subst h
    rw [List.set_cons_zero, slotSum_cons, slotSum_cons]; simp only [slotVal]; omega
  | s :: rest, i+1, c, h => by
    simp only [List.getElem?_cons_succ] at h
    have ih := slotSum_set_some B ctxs rest i c h
    rw [List.set_cons_succ, slotSum_cons, slotSum_cons, ih]; omega

/-- emptying a lane removes its context's phases -/
theorem slotSum_set_none (B : Nat) (ctxs : Cid → Ctx D) : ∀ (slots : List (Option Cid)) (i : Nat) (c : Cid),
    slots[i]? = some (some c) → slotSum B ctxs (slots.set i none) + phases B (ctxs c) = slotSum B ctxs slots
  | [], _, _, h => by simp at h
  | s :: rest, 0, c, h => by
    simp only [List.getElem?_cons_zero, Option.some.injEq] at h; subst h
    rw [List.set_cons_zero, slotSum_cons, slotSum_cons]; simp only [slotVal]; omega
  | s :: rest, i+1, c, h => by
    simp only [List.getElem?_cons_succ] at h
    have ih := slotSum_set_none B ctxs rest i c h
    rw [List.set_cons_succ, slotSum_cons, slotSum_cons]; omega

/-- the measure of a manager with a context in hand -/
def Phi (B : Nat) (m : M D) (r : Option Cid) : Nat :=
  slotSum B m.ctxs m.slots + (match r with | some c => phases B (m.ctxs c) | none => 0)

theorem retire_phi (B : Nat) (m : M D) (ctxs' : Cid → Ctx D) (c : Cid)
    (hget : m.slots[slotOf m c]? = some (some c)) (hph : ∀ j, phases B (ctxs' j) = phases B (m.ctxs j)) :
    Phi B (retire m ctxs' c) (some c) = slotSum B m.ctxs m.slots := by
  have hph2 : ∀ j, phases B ((retire m ctxs' c).ctxs j) = phases B (m.ctxs j) := by
    intro j
    by_cases hj : j = c
    · subst hj
      have := hph j
      simp only [retire, if_true]
      simpa [phases] using this
    · simp only [retire, hj, if_false]; exact hph j
  have hslots : (retire m ctxs' c).slots = m.slots.set (slotOf m c) none := rfl
  simp only [Phi]
  rw [hph2 c, hslots, slotSum_congr B _ m.ctxs _ (fun j _ => hph2 j)]
  exact slotSum_set_none B m.ctxs m.slots _ c hget

theorem retireMin_phi (B : Nat) (f : D → Bytes → D) (all : Bool) (m : M D) :
    Phi B (retireMin f all m).1 (retireMin f all m).2 = slotSum B m.ctxs m.slots := by
  rw [retireMin_eq]
  cases hp : pickMin m (minLen m (occupied m)) (occupied m) with
  | none => simp [Phi]
  | some c =>
    obtain ⟨hmem, _⟩ := pickMin_spec m _ _ c hp
    have hin : some c ∈ m.slots := mem_occupied.mp hmem
    have hidx := List.idxOf_lt_length_of_mem hin
    have hget : m.slots[slotOf m c]? = some (some c) := by
      simp only [slotOf]; rw [List.getElem?_eq_getElem hidx, List.getElem_idxOf]
    exact retire_phi B m _ c hget (fun j => phases_sameUser (ranCtxs_sameUser f all m _ c j))

theorem mgrSubmit_phi (B : Nat) (f : D → Bytes → D) (m : M D) (c : Cid) (bs) (h : MgrOk m)
    (hc : (m.ctxs c).lane = none) (hproc : (m.ctxs c).processing = true) :
    Phi B (mgrSubmit f m c bs).1 (mgrSubmit f m c bs).2 = slotSum B m.ctxs m.slots + phases B (m.ctxs c) := by
  unfold mgrSubmit
  cases hf : m.free with
  | nil => exact absurd hf h.free_ne
  | cons i fr =>
    simp only []
    have h1 := placed_ok' m c bs i fr h hc hproc hf
    have hinone : m.slots[i]? = some none := h.free_none i (by rw [hf]; exact List.mem_cons_self)
    have hplaced : slotSum B (placed m c bs i fr).ctxs (placed m c bs i fr).slots =
        slotSum B m.ctxs m.slots + phases B (m.ctxs c) := by
      have hctx : ∀ j, phases B ((placed m c bs i fr).ctxs j) = phases B (m.ctxs j) := by
        intro j; by_cases hj : j = c
        · subst hj; simp [placed, phases]
        · simp [placed, hj]
      rw [slotSum_congr B _ m.ctxs _ (fun j _ => hctx j)]
      exact slotSum_set_some B m.ctxs m.slots i c hinone
    split
    · rw [retireMin_phi B f true _, hplaced]
    · simp only [Phi]; rw [hplaced]; omega

/-- one iteration of the `while (ctx)` loop either returns the context in hand (with no more
    pending phases than before) or hands exactly one of its pending phases to the scheduler -/
theorem resubmit_cases (A : Alg D) (fuel : Nat) (m : M D) (c : Cid) :
    (∃ y : Ctx D, y.lane = (m.ctxs c).lane ∧ phases A.B y ≤ phases A.B (m.ctxs c) ∧
        resubmit A (fuel+1) m (some c) = some (setCtx m c y, some c)) ∨
    (∃ (x' : Ctx D) (bs : List Bytes), x'.lane = (m.ctxs c).lane ∧ x'.processing = (m.ctxs c).processing ∧
        phases A.B x' + 1 = phases A.B (m.ctxs c) ∧
        resubmit A (fuel+1) m (some c) =
          resubmit A fuel (mgrSubmit A.f (setCtx m c x') c bs).1 (mgrSubmit A.f (setCtx m c x') c bs).2) := by
  simp only [resubmit]
  by_cases hcomp : (m.ctxs c).complete = true
  · left
    simp only [hcomp, if_true]
    refine ⟨_, ?_, ?_, rfl⟩
    · rfl
    · simp [phases, hcomp]
  · have hcf : (m.ctxs c).complete = false := by simpa using hcomp
    simp only [hcf, Bool.false_eq_true, if_false]
    by_cases hbody : (m.ctxs c).part = [] ∧ (m.ctxs c).incoming ≠ []
    · simp only [hbody, and_self, if_true, ne_eq, not_false_eq_true]
      obtain ⟨hp, hi⟩ := hbody
      by_cases hn : (m.ctxs c).incoming.length / A.B = 0
      · simp only [hn, ne_eq, not_true_eq_false, if_false]
        by_cases hlast : (m.ctxs c).last = true
        · simp only [hlast, if_true]
          right
          refine ⟨_, _, ?_, ?_, ?_, rfl⟩
          · rfl
          · rfl
          · simp [phases, hcf, hp, hn, hlast]
        · have hlf : (m.ctxs c).last = false := by simpa using hlast
          simp only [hlf, Bool.false_eq_true, if_false]
          left
          refine ⟨_, ?_, ?_, rfl⟩
          · rfl
          · simp [phases, hcf, hlf]
      · simp only [hn, ne_eq, not_false_eq_true, if_true]
        right
        refine ⟨_, _, ?_, ?_, ?_, rfl⟩
        · rfl
        · rfl
        · simp only [phases, hcf, Bool.false_eq_true, if_false, hp, hn, ne_eq, not_false_eq_true, and_self, if_true]
          have : ([] : Bytes).length / A.B = 0 := by simp
          simp [this]; omega
    · simp only [hbody, if_false]
      by_cases hlast : (m.ctxs c).last = true
      · simp only [hlast, if_true]
        right
        refine ⟨_, _, ?_, ?_, ?_, rfl⟩
        · rfl
        · rfl
        · have hb0 : ¬ ((m.ctxs c).part = [] ∧ (m.ctxs c).incoming.length / A.B ≠ 0) := by
            rintro ⟨h1, h2⟩
            apply hbody; refine ⟨h1, ?_⟩
            intro he; rw [he] at h2; simp at h2
          have h1 : phases A.B (m.ctxs c) = 1 := by
            unfold phases; rw [if_neg (by simp [hcf]), if_neg hb0, if_pos hlast]
          rw [h1]; simp [phases]
      · have hlf : (m.ctxs c).last = false := by simpa using hlast
        simp only [hlf, Bool.false_eq_true, if_false]
        left
        refine ⟨_, ?_, ?_, rfl⟩
        · rfl
        · simp [phases, hcf, hlf]

/-- handing one phase of the context in hand to the scheduler: invariants and measure of the successor -/
theorem submit_phase (A : Alg D) (m : M D) (c : Cid) (x' : Ctx D) (bs : List Bytes) (hok : MgrOk m)
    (hlc : (m.ctxs c).lane = none) (hx'l : x'.lane = none) (hx'p : x'.processing = true) :
    MgrOk (mgrSubmit A.f (setCtx m c x') c bs).1 ∧
    (∀ r', (mgrSubmit A.f (setCtx m c x') c bs).2 = some r' →
      ((mgrSubmit A.f (setCtx m c x') c bs).1.ctxs r').lane = none ∧
      ((mgrSubmit A.f (setCtx m c x') c bs).1.ctxs r').processing = true) ∧
    Phi A.B (mgrSubmit A.f (setCtx m c x') c bs).1 (mgrSubmit A.f (setCtx m c x') c bs).2 =
      slotSum A.B m.ctxs m.slots + phases A.B x' := by
  have hcnot : some c ∉ m.slots := fun hin => (hok.coh c hin).1 hlc
  have hok1 : MgrOk (setCtx m c x') := setCtx_ok m c x' hok hlc hx'l
  have hc1 : ((setCtx m c x').ctxs c) = x' := by simp [setCtx]
  refine ⟨mgrSubmit_ok A.f _ c bs hok1 (by rw [hc1]; exact hx'l) (by rw [hc1]; exact hx'p), ?_, ?_⟩
  · intro r' hr'
    exact ⟨mgrSubmit_ret A.f _ c bs r' hr',
      mgrSubmit_ret_proc A.f _ c bs hok1 (by rw [hc1]; exact hx'l) (by rw [hc1]; exact hx'p) r' hr'⟩
  · rw [mgrSubmit_phi A.B A.f _ c bs hok1 (by rw [hc1]; exact hx'l) (by rw [hc1]; exact hx'p), hc1]
    have hs : slotSum A.B (setCtx m c x').ctxs (setCtx m c x').slots = slotSum A.B m.ctxs m.slots := by
      apply slotSum_congr
      intro j hj
      have hjc : j ≠ c := fun e => hcnot (e ▸ hj)
      simp [setCtx, hjc]
    rw [hs]

/-- returning the context in hand: the measure does not grow -/
theorem return_phi (B : Nat) (m : M D) (c : Cid) (y : Ctx D) (hok : MgrOk m) (hlc : (m.ctxs c).lane = none)
    (hph : phases B y ≤ phases B (m.ctxs c)) : Phi B (setCtx m c y) (some c) ≤ Phi B m (some c) := by
  have hcnot : some c ∉ m.slots := fun hin => (hok.coh c hin).1 hlc
  have hs : slotSum B (setCtx m c y).ctxs (setCtx m c y).slots = slotSum B m.ctxs m.slots := by
    apply slotSum_congr
    intro j hj
    have hjc : j ≠ c := fun e => hcnot (e ▸ hj)
    simp [setCtx, hjc]
  simp only [Phi]
  rw [hs]
  have : (setCtx m c y).ctxs c = y := by simp [setCtx]
  rw [this]; omega

/-- **the resubmit loop terminates**: fuel above the measure always suffices -/
theorem resubmit_total (A : Alg D) :
    ∀ (fuel : Nat) (m : M D) (r : Option Cid), MgrOk m →
      (∀ c, r = some c → (m.ctxs c).lane = none ∧ (m.ctxs c).processing = true) →
      Phi A.B m r < fuel → ∃ res, resubmit A fuel m r = some res := by
  intro fuel
  induction fuel with
  | zero => intro m r _ _ h; omega
  | succ fuel ih =>
    intro m r hok hl hphi
    cases r with
    | none => exact ⟨(m, none), by simp [resubmit]⟩
    | some c =>
      obtain ⟨hlc, hpc⟩ := hl c rfl
      rcases resubmit_cases A fuel m c with ⟨y, _, _, he⟩ | ⟨x', bs, hx'l, hx'p, hph, he⟩
      · exact ⟨_, he⟩
      · rw [he]
        obtain ⟨h1, h2, h3⟩ := submit_phase A m c x' bs hok hlc (hx'l.trans hlc) (hx'p.trans hpc)
        apply ih _ _ h1 h2
        rw [h3]; simp only [Phi] at hphi; omega

/-- the measure never grows along the loop, and it drops when the loop ends with nothing to hand back -/
theorem resubmit_phi (A : Alg D) :
    ∀ (fuel : Nat) (m : M D) (r : Option Cid) (res : M D × Option Cid), resubmit A fuel m r = some res → MgrOk m →
      (∀ c, r = some c → (m.ctxs c).lane = none ∧ (m.ctxs c).processing = true) →
      MgrOk res.1 ∧ Phi A.B res.1 res.2 ≤ Phi A.B m r ∧
      (r ≠ none → res.2 = none → Phi A.B res.1 res.2 < Phi A.B m r) := by
  intro fuel
  induction fuel with
  | zero =>
    intro m r res h hok _
    cases r with
    | none => simp only [resubmit, Option.some.injEq] at h; subst h; exact ⟨hok, Nat.le_refl _, fun h => absurd rfl h⟩
    | some c => simp [resubmit] at h
  | succ fuel ih =>
    intro m r res h hok hl
    cases r with
    | none => simp only [resubmit, Option.some.injEq] at h; subst h; exact ⟨hok, Nat.le_refl _, fun h => absurd rfl h⟩
    | some c =>
      obtain ⟨hlc, hpc⟩ := hl c rfl
      rcases resubmit_cases A fuel m c with ⟨y, hyl, hyp, he⟩ | ⟨x', bs, hx'l, hx'p, hph, he⟩
      · rw [he] at h; simp only [Option.some.injEq] at h; subst h
        exact ⟨setCtx_ok m c y hok hlc (hyl.trans hlc), return_phi A.B m c y hok hlc hyp, fun _ h => by cases h⟩
      · rw [he] at h
        obtain ⟨h1, h2, h3⟩ := submit_phase A m c x' bs hok hlc (hx'l.trans hlc) (hx'p.trans hpc)
        obtain ⟨hok', this, _⟩ := ih _ _ res h h1 h2
        rw [h3] at this
        have hlt : Phi A.B res.1 res.2 < Phi A.B m (some c) := by simp only [Phi] at this ⊢; omega
        exact ⟨hok', Nat.le_of_lt hlt, fun _ _ => hlt⟩

theorem phi_le (B : Nat) (m : M D) (r : Option Cid) : Phi B m r ≤ 2 * m.slots.length + 2 := by
  have h1 := slotSum_le B m.ctxs m.slots
  unfold Phi
  cases r with
  | none => simp only []; omega
  | some c => have := phases_le_two B (m.ctxs c); simp only []; omega

end IsalVerif.HashMB
