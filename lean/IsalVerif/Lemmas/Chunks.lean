import IsalVerif.Spec.Blocks
/-! Helper lemmas about `blocks`, `chunks`, `blocks16` and `iterate` (shared by the AES key schedule and
    the CBC / GCM / XTS laws).  Core Lean only. -/
namespace IsalVerif

theorem blocks_length {α : Type} (B n : Nat) (l : List α) : (blocks B n l).length = n := by
  induction n generalizing l with
  | zero => rfl
  | succ n ih => simp [blocks, ih]

theorem blocks_succ {α : Type} (B n : Nat) (l : List α) :
    blocks B (n + 1) l = l.take B :: blocks B n (l.drop B) := rfl

/-- every block has `B` elements when the list is long enough -/
theorem blocks_mem_length {α : Type} {B n : Nat} {l : List α} (h : B * n ≤ l.length) :
    ∀ c ∈ blocks B n l, c.length = B := by
  induction n generalizing l with
  | zero => intro c hc; simp [blocks] at hc
  | succ n ih =>
    intro c hc
    rw [blocks_succ, List.mem_cons] at hc
    have h' : B * n + B ≤ l.length := by rw [Nat.mul_succ] at h; exact h
    rcases hc with rfl | hc
    · rw [List.length_take]; omega
    · exact ih (by rw [List.length_drop]; omega) c hc

theorem chunks_length {α : Type} (B : Nat) (l : List α) : (chunks B l).length = l.length / B :=
  blocks_length _ _ _

theorem chunks_mem_length {α : Type} {B : Nat} {l : List α} : ∀ c ∈ chunks B l, c.length = B :=
  blocks_mem_length (Nat.mul_div_le _ _)

theorem blocks_flatten {α : Type} (B n : Nat) (l : List α) : (blocks B n l).flatten = l.take (B * n) := by
  induction n generalizing l with
  | zero => simp [blocks]
  | succ n ih => rw [blocks_succ, List.flatten_cons, ih, Nat.mul_succ, Nat.add_comm, List.take_add]

theorem blocks_flatten_eq {α : Type} {B n : Nat} {l : List α} (h : l.length ≤ B * n) :
    (blocks B n l).flatten = l := by
  rw [blocks_flatten, List.take_of_length_le h]

/-- cutting a multiple-of-`B` list into chunks and gluing them back is the identity -/
theorem chunks_flatten {α : Type} {B : Nat} {l : List α} (h : l.length % B = 0) :
    (chunks B l).flatten = l := by
  apply blocks_flatten_eq
  have := Nat.div_add_mod l.length B
  rw [h] at this; omega

theorem flatten_length_of_forall {α : Type} {B : Nat} {L : List (List α)} (h : ∀ c ∈ L, c.length = B) :
    L.flatten.length = B * L.length := by
  induction L with
  | nil => rfl
  | cons c L ih =>
    rw [List.flatten_cons, List.length_append, h c (by simp), ih (fun c' h' => h c' (by simp [h'])),
      List.length_cons, Nat.mul_succ, Nat.add_comm]

/-- gluing `B`-element blocks and cutting again gives the blocks back -/
theorem blocks_of_flatten {α : Type} {B : Nat} {L : List (List α)} (h : ∀ c ∈ L, c.length = B)
    (r : List α) : blocks B L.length (L.flatten ++ r) = L := by
  induction L with
  | nil => rfl
  | cons c L ih =>
    have hc := h c (by simp)
    rw [List.length_cons, blocks_succ, List.flatten_cons, List.append_assoc,
      List.take_left' hc, List.drop_left' hc, ih (fun c' h' => h c' (by simp [h']))]

theorem chunks_of_flatten {α : Type} {B : Nat} (hB : 0 < B) {L : List (List α)}
    (h : ∀ c ∈ L, c.length = B) : chunks B L.flatten = L := by
  unfold chunks
  rw [flatten_length_of_forall h, Nat.mul_div_cancel_left _ hB]
  have := blocks_of_flatten h []
  rwa [List.append_nil] at this

theorem chunks_nil {α : Type} (B : Nat) : chunks B ([] : List α) = [] := by
  simp [chunks, blocks]

theorem chunks_cons16 {α : Type} {l : List α} (h : 16 ≤ l.length) :
    chunks 16 l = l.take 16 :: chunks 16 (l.drop 16) := by
  unfold chunks
  have : l.length / 16 = (l.drop 16).length / 16 + 1 := by rw [List.length_drop]; omega
  rw [this, blocks_succ]

theorem chunks_append16 {α : Type} {a : List α} (k : Nat) (h : a.length = 16 * k) (b : List α) :
    chunks 16 (a ++ b) = chunks 16 a ++ chunks 16 b := by
  induction k generalizing a with
  | zero =>
    have : a = [] := List.eq_nil_of_length_eq_zero (by omega)
    subst this; simp [chunks_nil]
  | succ k ih =>
    have h16 : 16 ≤ a.length := by omega
    rw [chunks_cons16 (l := a ++ b) (by rw [List.length_append]; omega), chunks_cons16 h16,
      List.take_append_of_le_length h16, List.drop_append_of_le_length h16,
      ih (by rw [List.length_drop]; omega), List.cons_append]

/-! ### `iterate` -/

theorem iterate_length {α : Type} (f : α → α) (a : α) (n : Nat) : (iterate f a n).length = n := by
  induction n generalizing a with
  | zero => rfl
  | succ n ih => simp [iterate, ih]

theorem iterate_succ {α : Type} (f : α → α) (a : α) (n : Nat) :
    iterate f a (n + 1) = a :: iterate f (f a) n := rfl

theorem iterate_mem {α : Type} {P : α → Prop} {f : α → α} (hf : ∀ a, P a → P (f a)) {a : α} (ha : P a)
    (n : Nat) : ∀ x ∈ iterate f a n, P x := by
  induction n generalizing a with
  | zero => intro x hx; simp [iterate] at hx
  | succ n ih =>
    intro x hx
    rw [iterate_succ, List.mem_cons] at hx
    rcases hx with rfl | hx
    · exact ha
    · exact ih (hf a ha) x hx

/-- `iterN f n a = f (f (… (f a)))`, `n` applications: element `n` of `iterate f a _`. -/
def iterN {α : Type} (f : α → α) : Nat → α → α
  | 0, a => a
  | n+1, a => iterN f n (f a)

theorem iterN_prop {α : Type} {P : α → Prop} {f : α → α} (hf : ∀ a, P a → P (f a)) (n : Nat) {a : α}
    (ha : P a) : P (iterN f n a) := by
  induction n generalizing a with
  | zero => exact ha
  | succ n ih => exact ih (hf a ha)

theorem iterate_drop {α : Type} (f : α → α) (a : α) (n k : Nat) :
    (iterate f a (n + k)).drop n = iterate f (iterN f n a) k := by
  induction n generalizing a with
  | zero => rw [Nat.zero_add]; rfl
  | succ n ih =>
    have : n + 1 + k = (n + k) + 1 := by omega
    rw [this, iterate_succ, List.drop_succ_cons, ih, iterN]

theorem zipWith_congr_mem {α β γ : Type} {f g : α → β → γ} {l : List α} {l' : List β}
    (h : ∀ a ∈ l, ∀ b ∈ l', f a b = g a b) : List.zipWith f l l' = List.zipWith g l l' := by
  induction l generalizing l' with
  | nil => simp
  | cons a l ih =>
    cases l' with
    | nil => simp
    | cons b l' =>
      rw [List.zipWith_cons_cons, List.zipWith_cons_cons, h a (by simp) b (by simp),
        ih (fun a' ha' b' hb' => h a' (List.mem_cons_of_mem _ ha') b' (List.mem_cons_of_mem _ hb'))]

end IsalVerif
