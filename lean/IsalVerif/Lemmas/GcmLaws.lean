import IsalVerif.Spec.Gcm
import IsalVerif.Lemmas.AesInv
import IsalVerif.Lemmas.AesKeys
import IsalVerif.Lemmas.Chunks
/-! Helper lemmas for the GCM laws (SP 800-38D): `GCTR` is length-preserving and an involution, hence
    `gcmDec ∘ gcmEnc` returns the plaintext; tag length and truncation.  Core Lean only. -/
namespace IsalVerif

theorem blocks16_nil : blocks16 [] = [] := by simp [blocks16, blocks]

theorem blocks16_cons {x : Bytes} (h : x ≠ []) : blocks16 x = x.take 16 :: blocks16 (x.drop 16) := by
  have hpos : 0 < x.length := List.length_pos_iff.mpr h
  unfold blocks16
  have : (x.length + 15) / 16 = ((x.drop 16).length + 15) / 16 + 1 := by
    rw [List.length_drop]; omega
  rw [this, blocks_succ]

namespace Gcm
open Aes Gf128

theorem inc32_length {x : Bytes} (h : 12 ≤ x.length) : (inc32 x).length = 16 := by
  simp only [inc32, bytesBE32, List.length_append, List.length_take, List.length_cons, List.length_nil]
  omega

theorem j0_length {iv : Bytes} (h : iv.length = 12) : (j0 iv).length = 16 := by
  simp [j0, h]

theorem gctr_nil (rks : List Bytes) (icb : Bytes) : gctr rks icb [] = [] := by
  simp [gctr, blocks16_nil, iterate]

/-- one step of `GCTR` -/
theorem gctr_cons (rks : List Bytes) (icb : Bytes) {x : Bytes} (h : x ≠ []) :
    gctr rks icb x = xorBytes (x.take 16) (cipher rks icb) ++ gctr rks (inc32 icb) (x.drop 16) := by
  unfold gctr
  simp only
  rw [blocks16_cons h, List.length_cons, iterate_succ, List.zipWith_cons_cons, List.flatten_cons]

/-- `GCTR` preserves the length (well-formed schedule, 16-byte initial counter block) -/
theorem gctr_length {rks : List Bytes} (hk : ∀ k ∈ rks, k.length = 16) (x : Bytes) :
    ∀ {icb : Bytes}, icb.length = 16 → (gctr rks icb x).length = x.length := by
  induction hn : x.length using Nat.strongRecOn generalizing x with
  | _ n ih =>
    intro icb hicb
    by_cases hx : x = []
    · subst hx; rw [gctr_nil]; exact hn
    · have hpos : 0 < x.length := List.length_pos_iff.mpr hx
      rw [gctr_cons rks icb hx, List.length_append,
        ih (x.drop 16).length (by rw [List.length_drop]; omega) _ rfl (inc32_length (by omega)),
        xorBytes_length, cipher_length hk hicb, List.length_take, List.length_drop]
      omega

/-- `GCTR_K(ICB, GCTR_K(ICB, X)) = X` -/
theorem gctr_involutive {rks : List Bytes} (hk : ∀ k ∈ rks, k.length = 16) (x : Bytes) :
    ∀ {icb : Bytes}, icb.length = 16 → gctr rks icb (gctr rks icb x) = x := by
  induction hn : x.length using Nat.strongRecOn generalizing x with
  | _ n ih =>
    intro icb hicb
    by_cases hx : x = []
    · subst hx; rw [gctr_nil, gctr_nil]
    · have hpos : 0 < x.length := List.length_pos_iff.mpr hx
      have hE := cipher_length hk hicb
      have hA : (xorBytes (x.take 16) (cipher rks icb)).length = min x.length 16 := by
        rw [xorBytes_length, hE, List.length_take]; omega
      have hcancel : xorBytes (xorBytes (x.take 16) (cipher rks icb)) (cipher rks icb) = x.take 16 :=
        xorBytes_cancel (by rw [List.length_take]; omega)
      rw [gctr_cons rks icb hx]
      have hne : xorBytes (x.take 16) (cipher rks icb) ++ gctr rks (inc32 icb) (x.drop 16) ≠ [] := by
        intro h
        have := congrArg List.length h
        rw [List.length_append, hA, List.length_nil] at this
        omega
      rw [gctr_cons rks icb hne]
      by_cases h16 : x.length ≤ 16
      · have hd : x.drop 16 = [] := List.drop_eq_nil_of_le h16
        rw [hd, gctr_nil, List.append_nil, List.take_of_length_le (by rw [hA]; omega),
          List.drop_eq_nil_of_le (by rw [hA]; omega), gctr_nil, List.append_nil, hcancel,
          List.take_of_length_le h16]
      · have hA16 : (xorBytes (x.take 16) (cipher rks icb)).length = 16 := by rw [hA]; omega
        rw [List.take_left' hA16, List.drop_left' hA16, hcancel,
          ih (x.drop 16).length (by rw [List.length_drop]; omega) _ rfl (inc32_length (by omega)),
          List.take_append_drop]

theorem ghash_length (h x : Bytes) : (ghash h x).length = 16 := by
  simp [ghash, Block128.toBytes, bytesBE64]

theorem gcmDec_gcmEnc_fst (key : Bytes) {iv : Bytes} (hiv : iv.length = 12) (aad pt : Bytes) (t : Nat) :
    (gcmDec key iv aad (gcmEnc key iv aad pt t).1 t).1 = pt :=
  gctr_involutive (keyExpansion_mem_length key) pt (inc32_length (by rw [j0_length hiv]; omega))

theorem gcmEnc_fst_length (key : Bytes) {iv : Bytes} (hiv : iv.length = 12) (aad pt : Bytes) (t : Nat) :
    (gcmEnc key iv aad pt t).1.length = pt.length :=
  gctr_length (keyExpansion_mem_length key) pt (inc32_length (by rw [j0_length hiv]; omega))

theorem gcmDec_gcmEnc_snd (key iv aad pt : Bytes) (t : Nat) :
    (gcmDec key iv aad (gcmEnc key iv aad pt t).1 t).2 = (gcmEnc key iv aad pt t).2 := rfl

theorem tag_take (rks : List Bytes) (iv aad ct : Bytes) {t : Nat} (ht : t ≤ 16) :
    tag rks iv aad ct t = (tag rks iv aad ct 16).take t := by
  unfold tag
  simp only
  rw [List.take_take, Nat.min_eq_left ht]

theorem tag_length {rks : List Bytes} (hk : ∀ k ∈ rks, k.length = 16) {iv : Bytes} (hiv : iv.length = 12)
    (aad ct : Bytes) {t : Nat} (ht : t ≤ 16) : (tag rks iv aad ct t).length = t := by
  unfold tag
  simp only
  rw [List.length_take, gctr_length hk _ (j0_length hiv), ghash_length]
  omega

end Gcm
end IsalVerif
