import IsalVerif.Impl.MhC
import IsalVerif.Lemmas.Absorb
import IsalVerif.Lemmas.PadSpec
/-! What `MH_SHA1_UPDATE_FUNCTION` / `MH_SHA256_UPDATE_FUNCTION` of today's source computes: which bytes go into the
    partial buffer, which bytes the block function is called on, how `total_length` moves. -/
namespace IsalVerif.MhC

@[simp] theorem setLoc_locs (s : St) (i v j : Nat) : (s.setLoc i v).locs j = if j = i then v else s.locs j := rfl
@[simp] theorem setLoc_total (s : St) (i v : Nat) : (s.setLoc i v).total = s.total := rfl
@[simp] theorem setLoc_part (s : St) (i v : Nat) : (s.setLoc i v).part = s.part := rfl
@[simp] theorem setLoc_input (s : St) (i v : Nat) : (s.setLoc i v).input = s.input := rfl
@[simp] theorem setLoc_calls (s : St) (i v : Nat) : (s.setLoc i v).calls = s.calls := rfl

theorem foldl_done (ps : List G) (o : Out) (h : ∀ s, o ≠ .cont s) : ps.foldl step o = o := by
  induction ps with
  | nil => rfl
  | cons p ps ih =>
    rw [List.foldl_cons]
    have : step o p = o := by
      cases o with
      | cont s => exact absurd rfl (h s)
      | _ => rfl
    rw [this]; exact ih

/-- the parts of the state later statements depend on -/
structure View where
  total : Nat
  part : Bytes
  input : Bytes
  calls : List Call
  len : Nat      -- local 0
  pbl : Nat      -- local 1
  inoff : Nat    -- local 3
  deriving DecidableEq, Repr

def St.view (s : St) : View :=
  { total := s.total, part := s.part, input := s.input, calls := s.calls, len := s.locs 0, pbl := s.locs 1, inoff := s.locs 3 }

/-! ### segment A: `if (ctx == NULL) …; if (len == 0) return 0;` -/
def segA : List G := [ ⟨none, .nullCheck⟩, ⟨none, .setLoc 10 (.eq (.loc 0) (.lit 0))⟩, ⟨some 10, .ret 0⟩ ]

theorem run_segA (s : St) :
    (s.locs 0 = 0 → segA.foldl step (.cont s) = .ret (s.setLoc 10 1) 0) ∧
    (s.locs 0 ≠ 0 → segA.foldl step (.cont s) = .cont (s.setLoc 10 0)) := by
  constructor
  · intro h
    simp [segA, step, Z.eval, h, locW]
  · intro h
    simp [segA, step, Z.eval, h, locW]

/-! ### segment B: partial length, total, the "not yet a block" path -/
def segB : List G :=
  [ ⟨none, .setLoc 1 (.trunc 32 (.and .total (.lit 1023)))⟩,
    ⟨none, .setTotal (.add .total (.loc 0))⟩,
    ⟨none, .setLoc 11 (.lt (.trunc 32 (.add (.loc 0) (.loc 1))) (.lit 1024))⟩,
    ⟨some 11, .cpyIn (.loc 1) (.loc 0)⟩,
    ⟨some 11, .ret 0⟩ ]

theorem and1023 (x : Nat) : x &&& 1023 = x % 1024 := Nat.and_two_pow_sub_one_eq_mod x 10

theorem run_segB (s : St) (ht : s.total < 2^64) (hl : s.locs 0 + 1024 < 2^32) (hin : s.locs 3 = 0)
    (hlen : s.locs 0 = s.input.length) (hp : s.part.length = 2048) :
    (s.locs 0 + s.total % 1024 < 1024 →
      ∃ s', segB.foldl step (.cont s) = .ret s' 0 ∧ s'.total = (s.total + s.locs 0) % 2^64 ∧
        s'.part = poke s.part (s.total % 1024) (s.input.take (s.locs 0)) ∧ s'.calls = s.calls) ∧
    (¬ s.locs 0 + s.total % 1024 < 1024 →
      ∃ s', segB.foldl step (.cont s) = .cont s' ∧
        s'.view = { s.view with total := (s.total + s.locs 0) % 2^64, pbl := s.total % 1024 }) := by
  have htm : s.total % 18446744073709551616 = s.total := Nat.mod_eq_of_lt (by simpa using ht)
  have e1 : (Z.trunc 32 (.and .total (.lit 1023))).eval s % locW 1 = s.total % 1024 := by
    simp only [Z.eval, Nat.reducePow, Nat.reduceMod, htm, and1023, locW]; simp; omega
  constructor
  · intro c
    generalize hX : segB.foldl step (.cont s) = X
    simp only [segB, List.foldl_cons, List.foldl_nil, step, e1] at hX
    have f1 : (s.locs 0 + s.total % 1024) % 18446744073709551616 % 4294967296 = s.locs 0 + s.total % 1024 := by omega
    have f2 : s.total % 1024 + s.locs 0 ≤ 2048 := by omega
    simp [Z.eval, locW, htm, f1, c, hp, f2, hin, hlen.symm, St.inBytes] at hX
    subst hX
    exact ⟨_, rfl, by simp [St.setLoc], by simp [St.setLoc], by simp [St.setLoc]⟩
  · intro c
    generalize hX : segB.foldl step (.cont s) = X
    simp only [segB, List.foldl_cons, List.foldl_nil, step, e1] at hX
    have f1 : (s.locs 0 + s.total % 1024) % 18446744073709551616 % 4294967296 = s.locs 0 + s.total % 1024 := by omega
    simp [Z.eval, locW, htm, f1, c] at hX
    subst hX
    exact ⟨_, rfl, by simp [St.view, St.setLoc]⟩

/-! ### segment C: complete the carried partial block -/
def segC : List G :=
  [ ⟨none, .setLoc 12 (.lnot (.eq (.loc 1) (.lit 0)))⟩,
    ⟨some 12, .cpyIn (.loc 1) (.trunc 32 (.sub (.lit 1024) (.loc 1)))⟩,
    ⟨some 12, .blockPart (.lit 1)⟩,
    ⟨some 12, .setLoc 3 (.add (.loc 3) (.trunc 32 (.sub (.lit 1024) (.loc 1))))⟩,
    ⟨some 12, .setLoc 0 (.trunc 32 (.sub (.loc 0) (.trunc 32 (.sub (.lit 1024) (.loc 1)))))⟩,
    ⟨some 12, .clrPart 1024⟩ ]

set_option maxRecDepth 8000 in
theorem run_segC (s : St) (hpb : s.locs 1 < 1024) (hl : s.locs 0 < 2^32) (hge : 1024 ≤ s.locs 0 + s.locs 1)
    (hin : s.locs 3 = 0) (hlen : s.locs 0 = s.input.length) (hp : s.part.length = 2048) :
    (s.locs 1 = 0 → ∃ s', segC.foldl step (.cont s) = .cont s' ∧ s'.view = s.view) ∧
    (s.locs 1 ≠ 0 → ∃ s', segC.foldl step (.cont s) = .cont s' ∧
      s'.view = { s.view with
        part := poke (poke s.part (s.locs 1) (s.input.take (1024 - s.locs 1))) 0 (List.replicate 1024 0),
        calls := s.calls ++ [⟨true, (poke s.part (s.locs 1) (s.input.take (1024 - s.locs 1))).take 1024, 1⟩],
        len := s.locs 0 - (1024 - s.locs 1), inoff := 1024 - s.locs 1 }) := by
  constructor
  · intro c
    generalize hX : segC.foldl step (.cont s) = X
    simp only [segC, List.foldl_cons, List.foldl_nil, step] at hX
    simp [Z.eval, locW, c] at hX
    subst hX
    exact ⟨_, rfl, by simp [St.view, St.setLoc]⟩
  · intro c
    generalize hX : segC.foldl step (.cont s) = X
    simp only [segC, List.foldl_cons, List.foldl_nil, step] at hX
    have f1 : (1024 + (18446744073709551616 - s.locs 1 % 18446744073709551616)) % 18446744073709551616 % 4294967296 = 1024 - s.locs 1 := by omega
    have f2 : s.locs 1 + (1024 - s.locs 1) ≤ 2048 := by omega
    have f3 : 1024 - s.locs 1 ≤ s.input.length := by omega
    have f4 : (s.locs 0 + (18446744073709551616 - (1024 - s.locs 1) % 18446744073709551616)) % 18446744073709551616 % 4294967296 = s.locs 0 - (1024 - s.locs 1) := by omega
    have f5 : (1024 - s.locs 1) % 18446744073709551616 = 1024 - s.locs 1 := by omega
    have f6 : (s.locs 0 - (1024 - s.locs 1)) % 4294967296 = s.locs 0 - (1024 - s.locs 1) := by omega
    have hpl : (poke s.part (s.locs 1) (List.take (1024 - s.locs 1) s.input)).length = 2048 := by
      simp [poke, List.length_take]; omega
    simp [Z.eval, locW, c, f1, f2, f3, f4, f5, f6, hp, hin, St.inBytes, hpl, -List.replicate_succ, -List.replicate] at hX
    subst hX
    exact ⟨_, rfl, by simp [St.view, St.setLoc]; omega⟩

/-! ### segment D: whole blocks of the caller's buffer -/
def segD : List G :=
  [ ⟨none, .setLoc 2 (.shr (.loc 0) 10)⟩,
    ⟨none, .setLoc 13 (.lt (.lit 0) (.loc 2))⟩,
    ⟨some 13, .blockIn (.loc 2)⟩,
    ⟨some 13, .setLoc 0 (.trunc 32 (.sub (.loc 0) (.trunc 32 (.shl (.loc 2) 10))))⟩,
    ⟨some 13, .setLoc 3 (.add (.loc 3) (.trunc 32 (.shl (.loc 2) 10)))⟩ ]

theorem run_segD (s : St) (hl : s.locs 0 < 2^32) (hin : s.locs 3 + s.locs 0 ≤ s.input.length) (hi3 : s.locs 3 < 2^32) :
    (s.locs 0 / 1024 = 0 → ∃ s', segD.foldl step (.cont s) = .cont s' ∧ s'.view = s.view) ∧
    (s.locs 0 / 1024 ≠ 0 → ∃ s', segD.foldl step (.cont s) = .cont s' ∧
      s'.view = { s.view with
        calls := s.calls ++ [⟨false, (s.input.drop (s.locs 3)).take (s.locs 0 / 1024 * 1024), s.locs 0 / 1024⟩],
        len := s.locs 0 % 1024, inoff := s.locs 3 + s.locs 0 / 1024 * 1024 }) := by
  have f0 : s.locs 0 / 1024 % 4294967296 = s.locs 0 / 1024 := by omega
  constructor
  · intro c
    generalize hX : segD.foldl step (.cont s) = X
    simp only [segD, List.foldl_cons, List.foldl_nil, step] at hX
    simp [Z.eval, locW, c, f0] at hX
    subst hX
    exact ⟨_, rfl, by simp [St.view, St.setLoc]⟩
  · intro c
    generalize hX : segD.foldl step (.cont s) = X
    simp only [segD, List.foldl_cons, List.foldl_nil, step] at hX
    have c' : 0 < s.locs 0 / 1024 := by omega
    have f1 : s.locs 0 / 1024 * 1024 % 18446744073709551616 % 4294967296 = s.locs 0 / 1024 * 1024 := by omega
    have f2 : s.locs 3 + s.locs 0 / 1024 * 1024 ≤ s.input.length := by omega
    have f3 : (s.locs 0 + (18446744073709551616 - s.locs 0 / 1024 * 1024 % 18446744073709551616)) % 18446744073709551616 % 4294967296 = s.locs 0 % 1024 := by omega
    have f4 : (s.locs 3 + s.locs 0 / 1024 * 1024) % 18446744073709551616 = s.locs 3 + s.locs 0 / 1024 * 1024 := by omega
    have f5 : s.locs 0 % 1024 % 4294967296 = s.locs 0 % 1024 := by omega
    simp [Z.eval, locW, c', f0, f1, f2, f3, f4, f5, St.inBytes] at hX
    subst hX
    exact ⟨_, rfl, by simp [St.view, St.setLoc]⟩

/-! ### segment E: stash the remainder, return -/
def segE : List G :=
  [ ⟨none, .setLoc 14 (.lnot (.eq (.loc 0) (.lit 0)))⟩, ⟨some 14, .cpyIn (.lit 0) (.loc 0)⟩, ⟨none, .ret 0⟩ ]

theorem run_segE (s : St) (hl : s.locs 0 < 1024) (hin : s.locs 3 + s.locs 0 ≤ s.input.length) (hp : s.part.length = 2048) :
    ∃ s', segE.foldl step (.cont s) = .ret s' 0 ∧ s'.total = s.total ∧ s'.calls = s.calls ∧
      s'.part = if s.locs 0 ≠ 0 then poke s.part 0 ((s.input.drop (s.locs 3)).take (s.locs 0)) else s.part := by
  generalize hX : segE.foldl step (.cont s) = X
  simp only [segE, List.foldl_cons, List.foldl_nil, step] at hX
  by_cases c : s.locs 0 = 0
  · simp [Z.eval, locW, c] at hX
    subst hX
    exact ⟨_, rfl, rfl, rfl, by simp [c, St.setLoc]⟩
  · have f1 : s.locs 0 ≤ 2048 := by omega
    simp [Z.eval, locW, c, hp, f1, hin, St.inBytes] at hX
    subst hX
    exact ⟨_, rfl, rfl, rfl, by simp [c, St.setLoc]⟩

/-! ### the whole function -/
structure Res where
  total : Nat
  part : Bytes
  calls : List Call
  code : Int
  deriving DecidableEq, Repr

/-- what the update function must do (the statement-by-statement reading `Impl/MhStream.lean` also follows) -/
def mhSpec (total : Nat) (part input : Bytes) : Res :=
  let len := input.length
  if len = 0 then ⟨total, part, [], 0⟩ else
  let pbl := total % 1024
  let total' := (total + len) % 2^64
  if len + pbl < 1024 then ⟨total', poke part pbl (input.take len), [], 0⟩ else
  let c := 1024 - pbl
  let part1 := if pbl ≠ 0 then poke (poke part pbl (input.take c)) 0 (List.replicate 1024 0) else part
  let calls1 : List Call := if pbl ≠ 0 then [⟨true, (poke part pbl (input.take c)).take 1024, 1⟩] else []
  let off1 := if pbl ≠ 0 then c else 0
  let len1 := if pbl ≠ 0 then len - c else len
  let nb := len1 / 1024
  let calls2 := if nb ≠ 0 then calls1 ++ [⟨false, (input.drop off1).take (nb * 1024), nb⟩] else calls1
  let off2 := off1 + nb * 1024
  let len2 := len1 % 1024
  let part2 := if len2 ≠ 0 then poke part1 0 ((input.drop off2).take len2) else part1
  ⟨total', part2, calls2, 0⟩

def Out.res : Out → Option Res
  | .ret s code => some ⟨s.total, s.part, s.calls, code⟩
  | _ => none

theorem canon_split : canon = segA ++ (segB ++ (segC ++ (segD ++ segE))) := rfl

theorem poke_length (buf : Bytes) (off : Nat) (v : Bytes) (h : off + v.length ≤ buf.length) :
    (poke buf off v).length = buf.length := by
  simp [poke]; omega

theorem run_tail (sc : St) (hl : sc.locs 0 < 2^32) (hin : sc.locs 3 + sc.locs 0 ≤ sc.input.length)
    (hi3 : sc.locs 3 < 2^32) (hp : sc.part.length = 2048) :
    (segE.foldl step (segD.foldl step (.cont sc))).res = some
      ⟨sc.total,
       (if sc.locs 0 % 1024 ≠ 0 then
          poke sc.part 0 ((sc.input.drop (sc.locs 3 + sc.locs 0 / 1024 * 1024)).take (sc.locs 0 % 1024)) else sc.part),
       (if sc.locs 0 / 1024 ≠ 0 then
          sc.calls ++ [⟨false, (sc.input.drop (sc.locs 3)).take (sc.locs 0 / 1024 * 1024), sc.locs 0 / 1024⟩] else sc.calls),
       0⟩ := by
  obtain ⟨hD0, hD1⟩ := run_segD sc hl hin hi3
  by_cases c : sc.locs 0 / 1024 = 0
  · obtain ⟨sd, h, vd⟩ := hD0 c
    rw [h]
    simp only [St.view, View.mk.injEq] at vd
    obtain ⟨d1, d2, d3, d4, d5, d6, d7⟩ := vd
    have hm : sc.locs 0 % 1024 = sc.locs 0 := by omega
    obtain ⟨se, h', e1, e2, e3⟩ := run_segE sd (by rw [d5]; omega) (by rw [d7, d5, d3]; exact hin) (by rw [d2, hp])
    rw [h']
    simp only [Out.res, e1, e2, e3, d1, d2, d3, d4, d5, d7, c, ne_eq, not_true_eq_false, if_false, Nat.zero_mul,
      Nat.add_zero, hm]
  · obtain ⟨sd, h, vd⟩ := hD1 c
    rw [h]
    simp only [St.view, View.mk.injEq] at vd
    obtain ⟨d1, d2, d3, d4, d5, d6, d7⟩ := vd
    obtain ⟨se, h', e1, e2, e3⟩ := run_segE sd (by rw [d5]; exact Nat.mod_lt _ (by decide))
      (by rw [d7, d5, d3]; have := Nat.div_add_mod (sc.locs 0) 1024; omega) (by rw [d2, hp])
    rw [h']
    simp only [Out.res, e1, e2, e3, d1, d2, d3, d4, d5, d7, c, ne_eq, not_false_eq_true, if_true]

set_option maxRecDepth 8000 in
/-- **the update function of today's source = `mhSpec`**, for every context state and every input shorter than
    2^32 − 1024 bytes -/
theorem canon_mh_update (s : St) (ht : s.total < 2^64) (hl : s.input.length + 1024 < 2^32)
    (h0 : s.locs 0 = s.input.length) (h3 : s.locs 3 = 0) (hc : s.calls = []) (hp : s.part.length = 2048) :
    (run canon s).res = some (mhSpec s.total s.part s.input) := by
  unfold run mhSpec
  rw [canon_split, List.foldl_append]
  obtain ⟨hA0, hA1⟩ := run_segA s
  by_cases c0 : s.input.length = 0
  · rw [hA0 (by rw [h0]; exact c0), foldl_done _ _ (by intro s' h; cases h)]
    simp [Out.res, c0, hc]
  · rw [hA1 (by rw [h0]; exact c0), List.foldl_append]
    simp only [c0, if_false]
    let sa := s.setLoc 10 0
    have hsa0 : sa.locs 0 = s.input.length := by simp [sa, h0]
    obtain ⟨hB0, hB1⟩ := run_segB sa (by simpa [sa] using ht) (by rw [hsa0]; exact hl) (by simpa [sa] using h3)
      (by simpa [sa] using h0) (by simpa [sa] using hp)
    by_cases c1 : s.input.length + s.total % 1024 < 1024
    · obtain ⟨s', h, t1, t2, t3⟩ := hB0 (by rw [hsa0]; simpa [sa] using c1)
      rw [h, foldl_done _ _ (by intro s'' hh; cases hh)]
      simp only [c1, if_true, Out.res, t1, t2, t3, hsa0]
      simp [sa, hc]
    · obtain ⟨sb, h, vb⟩ := hB1 (by rw [hsa0]; simpa [sa] using c1)
      rw [h, List.foldl_append]
      simp only [c1, if_false]
      -- facts about sb
      have vb' := vb
      simp only [St.view, sa, setLoc_total, setLoc_part, setLoc_input, setLoc_calls, setLoc_locs] at vb'
      simp at vb'
      obtain ⟨b1, b2, b3, b4, b5, b6, b7⟩ := vb'
      have hpb : sb.locs 1 < 1024 := by rw [b6]; exact Nat.mod_lt _ (by decide)
      obtain ⟨hC0, hC1⟩ := run_segC sb hpb (by rw [b5, h0]; omega) (by rw [b5, b6, h0]; omega) (by rw [b7, h3])
        (by rw [b5, b3, h0]) (by rw [b2, hp])
      rw [List.foldl_append]
      by_cases c2 : s.total % 1024 = 0
      · obtain ⟨sc, h', vc⟩ := hC0 (by rw [b6]; exact c2)
        rw [h']
        simp only [St.view, View.mk.injEq] at vc
        obtain ⟨q1, q2, q3, q4, q5, q6, q7⟩ := vc
        have e0 : sc.locs 0 = s.input.length := by rw [q5, b5, h0]
        have e3 : sc.locs 3 = 0 := by rw [q7, b7, h3]
        have ei : sc.input = s.input := by rw [q3, b3]
        have ep : sc.part = s.part := by rw [q2, b2]
        have ec : sc.calls = [] := by rw [q4, b4, hc]
        have et : sc.total = (s.total + s.input.length) % 2^64 := by rw [q1, b1, h0]
        rw [run_tail sc (by rw [e0]; omega) (by rw [e3, e0, ei]; omega) (by rw [e3]; decide) (by rw [ep, hp])]
        simp only [c2, ne_eq, not_true_eq_false, if_false, e0, e3, ei, ep, ec, et, Nat.zero_add, List.nil_append]
      · obtain ⟨sc, h', vc⟩ := hC1 (by rw [b6]; exact c2)
        rw [h']
        simp only [St.view, View.mk.injEq] at vc
        obtain ⟨q1, q2, q3, q4, q5, q6, q7⟩ := vc
        have hcl : 1024 - s.total % 1024 ≤ s.input.length := by omega
        have e0 : sc.locs 0 = s.input.length - (1024 - s.total % 1024) := by rw [q5, b5, b6, h0]
        have e3 : sc.locs 3 = 1024 - s.total % 1024 := by rw [q7, b6]
        have ei : sc.input = s.input := by rw [q3, b3]
        have ep : sc.part = poke (poke s.part (s.total % 1024) (List.take (1024 - s.total % 1024) s.input)) 0
            (List.replicate 1024 0) := by rw [q2, b2, b6, b3]
        have ec : sc.calls = [⟨true, (poke s.part (s.total % 1024) (List.take (1024 - s.total % 1024) s.input)).take 1024, 1⟩] := by
          rw [q4, b4, hc, b2, b6, b3]; rfl
        have et : sc.total = (s.total + s.input.length) % 2^64 := by rw [q1, b1, h0]
        have hpl1 : (poke s.part (s.total % 1024) (List.take (1024 - s.total % 1024) s.input)).length = 2048 := by
          rw [poke_length _ _ _ (by rw [List.length_take, hp]; omega), hp]
        have hpl2 : sc.part.length = 2048 := by
          rw [ep, poke_length _ _ _ (by rw [List.length_replicate, hpl1]; decide), hpl1]
        rw [run_tail sc (by rw [e0]; omega) (by rw [e3, e0, ei]; omega) (by rw [e3]; omega) hpl2]
        simp only [c2, ne_eq, not_false_eq_true, if_true, e0, e3, ei, ep, ec, et]

end IsalVerif.MhC

/-! ### `mhSpec` refines the abstract streaming law `absorb` (on which the C05 theorems rest) -/
namespace IsalVerif.MhC
variable {D : Type}

theorem poke_take_exact (buf : Bytes) (off : Nat) (v : Bytes) (h : off + v.length ≤ buf.length) :
    (poke buf off v).take (off + v.length) = buf.take off ++ v := by
  unfold poke
  have h1 : (buf.take off ++ v).length = off + v.length := by simp; omega
  rw [List.take_append_of_le_length (by rw [h1]; exact Nat.le_refl _), ← h1, List.take_length]

/-- abstract state after the calls recorded by the specification -/
def absOf (f : D → Bytes → D) (d : D) (r : Res) : S UInt8 D :=
  ⟨r.calls.foldl (fun d c => (blocks 1024 c.n c.data).foldl f d) d, r.part.take (r.total % 1024)⟩

theorem blocks_one (X : Bytes) (h : X.length = 1024) : blocks 1024 1 X = [X] := by
  simp only [blocks]; rw [List.take_of_length_le (by omega)]

set_option maxRecDepth 8000 in
theorem mhSpec_absorb (f : D → Bytes → D) (d : D) (total : Nat) (part input : Bytes) (hp : part.length = 2048)
    (h64 : total + input.length < 2^64) :
    absOf f d (mhSpec total part input) = absorb 1024 f ⟨d, part.take (total % 1024)⟩ input := by
  have hpbl : total % 1024 < 1024 := Nat.mod_lt _ (by decide)
  have hP : (part.take (total % 1024)).length = total % 1024 := by rw [List.length_take]; omega
  unfold mhSpec absOf
  by_cases c0 : input.length = 0
  · have : input = [] := List.length_eq_zero_iff.mp c0
    subst this
    simp only [List.length_nil, if_true, List.foldl_nil]
    rw [absorb_nil _ _ _ (by simp only []; rw [hP]; exact hpbl)]
  · simp only [c0, if_false]
    have hmod : (total + input.length) % 2^64 = total + input.length := Nat.mod_eq_of_lt h64
    by_cases c1 : input.length + total % 1024 < 1024
    · simp only [c1, if_true, List.foldl_nil, hmod]
      have hm : (total + input.length) % 1024 = total % 1024 + input.length := by omega
      have ht := poke_take_exact part (total % 1024) (input.take input.length) (by simp [hp]; omega)
      simp only [List.take_length] at ht
      rw [hm, List.take_length, ht]
      simp only [absorb]
      have h0 : (part.take (total % 1024) ++ input).length / 1024 = 0 := by
        apply Nat.div_eq_of_lt; rw [List.length_append, hP]; omega
      rw [h0]; simp [blocks]
    · simp only [c1, if_false, hmod]
      -- split the input at the point where the carried block is complete
      by_cases c2 : total % 1024 = 0
      · -- nothing carried
        simp only [c2, ne_eq, not_true_eq_false, if_false, List.take_zero, Nat.zero_add, List.drop_zero]
        have hm : (total + input.length) % 1024 = input.length % 1024 := by omega
        rw [hm]
        simp only [absorb, List.nil_append]
        by_cases c3 : input.length / 1024 = 0
        · simp only [c3, ne_eq, not_true_eq_false, if_false, List.foldl_nil, blocks, Nat.zero_mul, List.drop_zero]
          have hl : input.length % 1024 = input.length := by omega
          by_cases c4 : input.length % 1024 = 0
          · exfalso; omega
          · simp only [c4, ne_eq, not_false_eq_true, if_true]
            have ht := poke_take_exact part 0 (input.take (input.length % 1024)) (by simp [hp]; omega)
            simp only [Nat.zero_add, List.take_zero, List.nil_append, List.length_take] at ht
            rw [hl, List.take_length] at ht ⊢
            rw [Nat.min_self] at ht
            rw [ht]
        · simp only [c3, ne_eq, not_false_eq_true, if_true, List.nil_append, List.foldl_cons, List.foldl_nil]
          rw [← blocks_take 1024 (input.length / 1024) input (Nat.div_mul_le_self _ _)]
          congr 1
          have hdl : (input.drop (input.length / 1024 * 1024)).length = input.length % 1024 := by
            rw [List.length_drop]; have := Nat.div_add_mod input.length 1024; omega
          by_cases c4 : input.length % 1024 = 0
          · simp only [c4, ne_eq, not_true_eq_false, if_false, List.take_zero]
            exact (List.eq_nil_of_length_eq_zero (by rw [hdl, c4])).symm
          · simp only [c4, ne_eq, not_false_eq_true, if_true]
            have ht := poke_take_exact part 0 ((input.drop (input.length / 1024 * 1024)).take (input.length % 1024))
              (by simp [hp]; omega)
            simp only [Nat.zero_add, List.take_zero, List.nil_append, List.length_take, hdl, Nat.min_self] at ht
            rw [ht, List.take_of_length_le (by rw [hdl]; exact Nat.le_refl _)]
      · -- a carried partial block is completed first
        have hc : 1024 - total % 1024 ≤ input.length := by omega
        simp only [c2, ne_eq, not_false_eq_true, if_true]
        have hX : (poke part (total % 1024) (input.take (1024 - total % 1024))).take 1024 =
            part.take (total % 1024) ++ input.take (1024 - total % 1024) := by
          have := poke_take_exact part (total % 1024) (input.take (1024 - total % 1024)) (by simp [hp]; omega)
          rw [List.length_take, Nat.min_eq_left hc, show total % 1024 + (1024 - total % 1024) = 1024 from by omega] at this
          exact this
        have hXl : (part.take (total % 1024) ++ input.take (1024 - total % 1024)).length = 1024 := by
          rw [List.length_append, hP, List.length_take, Nat.min_eq_left hc]; omega
        -- right-hand side: absorb in two steps
        have hsplit : input = input.take (1024 - total % 1024) ++ input.drop (1024 - total % 1024) :=
          (List.take_append_drop _ _).symm
        have hstep1 : absorb 1024 f ⟨d, part.take (total % 1024)⟩ (input.take (1024 - total % 1024)) =
            ⟨f d (part.take (total % 1024) ++ input.take (1024 - total % 1024)), []⟩ := by
          simp only [absorb, hXl, Nat.div_self (show 0 < 1024 by decide), blocks_one _ hXl, List.foldl_cons, List.foldl_nil,
            Nat.one_mul]
          congr 1
          exact List.drop_eq_nil_of_le (by rw [hXl]; exact Nat.le_refl _)
        have hrl : (input.drop (1024 - total % 1024)).length = input.length - (1024 - total % 1024) := List.length_drop
        have hpa : (poke part (total % 1024) (input.take (1024 - total % 1024))).length = 2048 := by
          rw [poke_length _ _ _ (by rw [List.length_take, Nat.min_eq_left hc, hp]; omega), hp]
        have hpl1 : (poke (poke part (total % 1024) (input.take (1024 - total % 1024))) 0 (List.replicate 1024 0)).length = 2048 := by
          rw [poke_length _ _ _ (by rw [List.length_replicate, hpa]; decide), hpa]
        conv => rhs; rw [hsplit, ← absorb_append 1024 (by decide) f, hstep1]
        simp only [absorb, List.nil_append, hrl]
        have hm : (total + input.length) % 1024 = (input.length - (1024 - total % 1024)) % 1024 := by omega
        rw [hm]
        generalize hrest : input.drop (1024 - total % 1024) = rest at *
        generalize hl1 : input.length - (1024 - total % 1024) = len1 at *
        have hdd : ∀ k, input.drop (1024 - total % 1024 + k) = rest.drop k := by
          intro k; rw [← hrest, List.drop_drop, Nat.add_comm]
        by_cases c3 : len1 / 1024 = 0
        · simp only [c3, ne_eq, not_true_eq_false, if_false, List.foldl_cons, List.foldl_nil, blocks, Nat.zero_mul,
            Nat.add_zero, List.drop_zero, hX, blocks_one _ hXl]
          congr 1
          · rw [List.take_of_length_le (by rw [hXl]; exact Nat.le_refl _)]
          · have hl : len1 % 1024 = len1 := by omega
            by_cases c4 : len1 % 1024 = 0
            · rw [c4, List.take_zero]
              exact (List.eq_nil_of_length_eq_zero (by rw [hrl]; omega)).symm
            · rw [if_pos c4, hrest]
              have ht := poke_take_exact (poke (poke part (total % 1024) (input.take (1024 - total % 1024))) 0 (List.replicate 1024 0)) 0
                (rest.take (len1 % 1024)) (by rw [hpl1]; simp; omega)
              simp only [Nat.zero_add, List.take_zero, List.nil_append, List.length_take, hrl, hl, Nat.min_self] at ht
              rw [hl, ht, List.take_of_length_le (by rw [hrl]; exact Nat.le_refl _)]
        · simp only [c3, ne_eq, not_false_eq_true, if_true, List.foldl_append, List.foldl_cons, List.foldl_nil, hX,
            blocks_one _ hXl, hrest]
          rw [← blocks_take 1024 (len1 / 1024) rest (by rw [hrl]; exact Nat.div_mul_le_self _ _)]
          congr 1
          have hdl : (rest.drop (len1 / 1024 * 1024)).length = len1 % 1024 := by
            rw [List.length_drop, hrl]; have := Nat.div_add_mod len1 1024; omega
          rw [hdd]
          by_cases c4 : len1 % 1024 = 0
          · rw [c4, List.take_zero]
            exact (List.eq_nil_of_length_eq_zero (by rw [hdl, c4])).symm
          · rw [if_pos c4]
            have ht := poke_take_exact (poke (poke part (total % 1024) (input.take (1024 - total % 1024))) 0 (List.replicate 1024 0)) 0
              ((rest.drop (len1 / 1024 * 1024)).take (len1 % 1024)) (by rw [hpl1]; simp; omega)
            simp only [Nat.zero_add, List.take_zero, List.nil_append, List.length_take, hdl, Nat.min_self] at ht
            rw [ht, List.take_of_length_le (by rw [hdl]; exact Nat.le_refl _)]

end IsalVerif.MhC
