import IsalVerif.Lemmas.MhProofs
/-! A second reading of `MultiHash.segment`: the definition cuts the padded stream into 1024-byte
    blocks and takes 16 words from each; globally this is the round-robin dealing of the property text —
    segment `s` is made of the stream's 32-bit words number `s, 16+s, 32+s, …` in order. -/
namespace IsalVerif.Mh
open MultiHash

theorem flatMap_congr' {α β : Type} (l : List α) (f g : α → List β) (h : ∀ x ∈ l, f x = g x) :
    l.flatMap f = l.flatMap g := by
  induction l with
  | nil => rfl
  | cons x xs ih => rw [List.flatMap_cons, List.flatMap_cons, h x (by simp), ih (fun y hy => h y (by simp [hy]))]

/-- words `s, 16+s, …` of `nb` blocks -/
theorem segment_blocks (s : Nat) (hs : s < 16) (nb : Nat) (padded : Bytes) (h : nb * 1024 ≤ padded.length) :
    (blocks 1024 nb padded).flatMap (segBlock s) =
      (List.range (nb * 16)).flatMap fun i => (padded.drop (4 * (16 * i + s))).take 4 := by
  induction nb generalizing padded with
  | zero => simp [blocks]
  | succ nb ih =>
    rw [Nat.succ_mul] at h
    rw [blocks_succ, List.flatMap_cons, show (nb + 1) * 16 = 16 + nb * 16 by omega, List.range_add,
      List.flatMap_append, List.flatMap_map,
      ih (padded.drop 1024) (by rw [List.length_drop]; exact Nat.le_sub_of_add_le h)]
    congr 1
    · -- the first block
      unfold segBlock
      apply flatMap_congr'
      intro i hi
      have hi' : i < 16 := by simpa using hi
      rw [List.drop_take, List.take_take, Nat.min_eq_left (by omega)]
    · apply flatMap_congr'
      intro j _
      rw [List.drop_drop]
      congr 2; omega

/-- **Round-robin dealing.**  For a stream of whole 1024-byte blocks, segment `s` is the sequence of the
    stream's 4-byte words with index `≡ s (mod 16)`: its `i`-th word is word `16·i + s` of the stream. -/
theorem segment_round_robin (s : Nat) (hs : s < 16) (padded : Bytes) (h : padded.length % 1024 = 0) :
    segment s padded =
      (List.range (padded.length / 64)).flatMap fun i => (padded.drop (4 * (16 * i + s))).take 4 := by
  unfold segment chunks
  rw [segment_blocks s hs _ padded (Nat.div_mul_le_self _ _),
    show padded.length / 1024 * 16 = padded.length / 64 by omega]

/-- the padded stream of the definition is made of whole blocks -/
theorem padded_length (m : Bytes) : (m ++ mhPad m.length).length % 1024 = 0 := by
  simp only [mhPad, mdPad, if_true, List.length_append, List.length_cons, List.length_replicate, natBE_length]
  omega

end IsalVerif.Mh
