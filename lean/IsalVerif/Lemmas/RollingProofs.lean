import IsalVerif.Impl.RollingRun
import IsalVerif.Lemmas.Rotation
/-!
# Proofs about the rolling-hash model (C09)

Road map (everything is about `Impl/RollingRun.lean` versus `Spec/Rolling.lean`):

1. *windows*: `full = win ++ data` is the conceptual stream of one call (`win` = the `w` bytes the
   state holds, `data` = the first `max_len` bytes of the buffer); `winAt w full k` is the window
   after `k` data bytes.  `H_winAt_succ` is the library's update formula, `lastN_eq_winAt` links
   it to the specification's "last `w` bytes".
2. *primitive steps*: `hashFn_eq`, `rd_eq`, `slice_eq`, `store_take` — C expressions and
   `memcpy`/`memmove` as list operations.
3. *state invariant* `Inv w win st` ("`st` holds window `win`") and its preservation by the three
   history refreshes (`refreshHead_inv`, `refreshTail_inv`).
4. *loops*: `runHead_spec` (first loop of `_rolling_hash2_run`), `untilLoop_spec` /
   `runUntilBase_spec` (the base scan), assembled in `run_good`: every call returns a
   `Good` result (first hit or `max_len`, never beyond, invariant re-established).
5. `reset_inv`; `Good.firstHit_eq` (link to `Spec.Rolling.firstHit`); `runCalls_inv`,
   `scanStream_spec`, `scanStream_progress` (sequences of calls, boundaries).
6. `mask_gen`: `clearLowest_cases` (`n & (n-1)`), `floorPow2_spec`, `rol32C_eq`, `maskGen_spec`.
-/
namespace IsalVerif.Lemmas.Rolling
open IsalVerif IsalVerif.Spec.Rolling IsalVerif.Impl.Rolling IsalVerif.Lemmas.Rotation

/-! ### windows of a conceptual stream `full = window ++ data` -/

/-- the `w` bytes of `full` starting at `k`: the window after `k` data bytes when
`full = window ++ data` -/
def winAt (w : Nat) (full : Bytes) (k : Nat) : Bytes := (full.drop k).take w

theorem winAt_length {w : Nat} {full : Bytes} {k : Nat} (h : k + w ≤ full.length) :
    (winAt w full k).length = w := by
  simp [winAt]; omega

theorem getD_eq_getElem {l : Bytes} {k : Nat} (h : k < l.length) : l.getD k 0 = l[k] := by
  simp [List.getD_eq_getElem?_getD, h]

/-- one step of the window: the hash after one more byte, by the library's update formula -/
theorem H_winAt_succ {w : Nat} {full : Bytes} {k : Nat} (hw : 0 < w) (h : k + w < full.length) :
    H (winAt w full (k + 1)) =
      rol64 (H (winAt w full k)) 1 ^^^ tableAt (full.getD (k + w) 0) ^^^ rol64 (tableAt (full.getD k 0)) w := by
  obtain ⟨v, rfl⟩ : ∃ v, w = v + 1 := ⟨w - 1, by omega⟩
  have hk : k < full.length := by omega
  have e1 : winAt (v + 1) full k = full[k] :: (full.drop (k + 1)).take v := by
    unfold winAt; rw [List.drop_eq_getElem_cons hk, List.take_succ_cons]
  have e2 : winAt (v + 1) full (k + 1) = (full.drop (k + 1)).take v ++ [full[k + (v + 1)]] := by
    have : (List.drop (k + 1) full)[v]? = some full[k + (v + 1)] := by
      rw [List.getElem?_drop, List.getElem?_eq_getElem (by omega)]
      congr 2; omega
    unfold winAt; rw [List.take_add_one, this]; rfl
  have hl : ((full.drop (k + 1)).take v).length = v := by simp; omega
  rw [getD_eq_getElem hk, getD_eq_getElem h, e1, e2]
  have := slide tableAt full[k] ((full.drop (k + 1)).take v) full[k + (v + 1)]
  rw [hl] at this
  exact this

theorem lastN_eq_winAt {w : Nat} {win data : Bytes} {k : Nat} (hwin : win.length = w)
    (hk : k ≤ data.length) : lastN w (win ++ data.take k) = winAt w (win ++ data) k := by
  have e : win ++ data.take k = (win ++ data).take (w + k) := by
    rw [List.take_append, List.take_of_length_le (l := win) (by omega)]
    congr 2; omega
  unfold lastN winAt
  rw [e, List.length_take, List.length_append, List.drop_take]
  congr 1
  · omega
  · congr 1; omega

theorem lastN_append_of_le {α : Type} {w : Nat} (p y : List α) (h : w ≤ y.length) :
    lastN w (p ++ y) = lastN w y := by
  unfold lastN
  have e : (p ++ y).length - w = p.length + (y.length - w) := by
    simp only [List.length_append]; omega
  rw [e, List.drop_append, List.drop_of_length_le (by omega)]
  simp

/-- `lastN` only looks at the last `w` elements of what came before -/
theorem lastN_lastN_append {α : Type} {w : Nat} {a b : List α} (h : w ≤ a.length) :
    lastN w (lastN w a ++ b) = lastN w (a ++ b) := by
  have hx : w ≤ (a.drop (a.length - w) ++ b).length := by
    simp only [List.length_append, List.length_drop]; omega
  conv => rhs; rw [← List.take_append_drop (a.length - w) a, List.append_assoc]
  rw [lastN_append_of_le _ _ hx]
  rfl

theorem lastN_length {α : Type} {w : Nat} {a : List α} (h : w ≤ a.length) : (lastN w a).length = w := by
  simp [lastN]; omega

/-! ### primitive steps of the implementation -/

theorem rol1_eq (h : UInt64) : rol1 h = rol64 h 1 :=
  shlor_eq_rol64 h 1 (by decide) (by decide)

theorem shlor_eq {v : UInt64} {w : Nat} (h1 : 1 ≤ w) (h2 : w < 64) : shlor v w = rol64 v w :=
  shlor_eq_rol64 v w h1 h2

/-- `hash_fn` is the sliding update -/
theorem hashFn_eq {st : RhState} {w : Nat} (hw : st.w = w) (h1 : 1 ≤ w) (h2 : w < 64)
    (h : UInt64) (new old : UInt8) :
    hashFn st h new old = rol64 h 1 ^^^ tableAt new ^^^ rol64 (tableAt old) w := by
  simp only [hashFn, RhState.table2, table1, hw, rol1_eq, shlor_eq h1 h2, UInt64.xor_assoc]

/-- reading the caller's buffer inside its first `n` bytes -/
theorem rd_eq {buffer : Buf} {n k : Nat} (hk : k < n) :
    buffer.rd k = (buffer.toList.take n).getD k 0 := by
  simp [Buf.rd, List.getD_eq_getElem?_getD, hk]

theorem full_getD_data {w : Nat} {win data : Bytes} (hwin : win.length = w) (k : Nat) :
    (win ++ data).getD (k + w) 0 = data.getD k 0 := by
  simp only [List.getD_eq_getElem?_getD]
  rw [List.getElem?_append_right (by omega)]
  congr 2; omega

theorem full_getD_win {w : Nat} {win data : Bytes} (hwin : win.length = w) {k : Nat} (hk : k < w) :
    (win ++ data).getD k 0 = win.getD k 0 := by
  simp only [List.getD_eq_getElem?_getD]
  rw [List.getElem?_append_left (by omega)]

theorem slice_eq {buffer : Buf} {n off len : Nat} (h : off + len ≤ n) :
    buffer.slice off len = ((buffer.toList.take n).drop off).take len := by
  simp only [Buf.slice, Array.toList_extract, List.extract_eq_take_drop]
  rw [Nat.add_sub_cancel_left, List.drop_take, List.take_take, Nat.min_eq_left (by omega)]

/-! ### the state invariant and the history refresh -/

/-- The state holds window `win`: `history[0..w)` is `win` (oldest first) and `hash = H win`. -/
structure Inv (w : Nat) (win : Bytes) (st : RhState) : Prop where
  w_eq : st.w = w
  hist_len : st.history.length = 48
  hist : st.history.take w = win
  hash : st.hash = H win

theorem Inv.win_length {w : Nat} {win : Bytes} {st : RhState} (inv : Inv w win st) (hw : w ≤ 48) :
    win.length = w := by
  rw [← inv.hist, List.length_take, inv.hist_len]; omega

theorem store_length {dst src : List UInt8} {off : Nat} (h : off + src.length ≤ dst.length) :
    (store dst off src).length = dst.length := by
  simp only [store, List.length_append, List.length_take, List.length_drop]; omega

theorem store_take {dst src : List UInt8} {off k : Nat} (h : off ≤ dst.length)
    (hk : k = off + src.length) : (store dst off src).take k = dst.take off ++ src := by
  subst hk
  unfold store
  rw [List.take_left' (by simp only [List.length_append, List.length_take]; omega)]

/-- the window of `win ++ data` at `i ≤ w`: what is left of the old window, then `i` data bytes -/
theorem winAt_head {w i : Nat} {win data : Bytes} (hwin : win.length = w) (hi : i ≤ w) :
    winAt w (win ++ data) i = win.drop i ++ data.take i := by
  unfold winAt
  rw [List.drop_append, List.take_append, List.length_drop, hwin,
    List.take_of_length_le (by rw [List.length_drop]; omega)]
  have e1 : i - w = 0 := by omega
  have e2 : w - (w - i) = i := by omega
  rw [e1, e2, List.drop_zero]

/-- the window of `win ++ data` at `i ≥ w` lies inside the data -/
theorem winAt_tail {w i : Nat} {win data : Bytes} (hwin : win.length = w) (hi : w ≤ i) :
    winAt w (win ++ data) i = (data.drop (i - w)).take w := by
  unfold winAt
  rw [List.drop_append, List.drop_of_length_le (by omega), hwin, List.nil_append]

theorem refreshHead_inv {w n i : Nat} {win : Bytes} {st : RhState} {buffer : Buf} {hash : UInt64}
    (hw48 : w ≤ 48) (inv : Inv w win st) (hi : i ≤ w) (hin : i ≤ n) (hn : n ≤ buffer.size)
    (hh : hash = H (winAt w (win ++ buffer.toList.take n) i)) :
    Inv w (winAt w (win ++ buffer.toList.take n) i) (refreshHead st buffer i hash) := by
  have hwin := inv.win_length hw48
  have hl := inv.hist_len
  have hS : (slice st.history i (w - i)).length = w - i := by
    simp only [slice, List.length_take, List.length_drop]; omega
  have hB : buffer.slice 0 i = (buffer.toList.take n).take i := by
    rw [slice_eq (n := n) (by omega), List.drop_zero]
  have hBl : (buffer.slice 0 i).length = i := by
    rw [hB]; simp only [List.length_take, Array.length_toList]; omega
  have hA : (store st.history 0 (slice st.history i (w - i))).length = 48 := by
    rw [store_length (by omega), hl]
  refine ⟨inv.w_eq, ?_, ?_, hh⟩
  · simp only [refreshHead, inv.w_eq]
    rw [store_length (by omega), hA]
  · simp only [refreshHead, inv.w_eq]
    rw [store_take (by omega) (by omega), store_take (by omega) (by omega)]
    rw [winAt_head hwin hi, hB, ← inv.hist, List.drop_take]
    simp [slice]

theorem refreshTail_inv {w n i : Nat} {win : Bytes} {st : RhState} {buffer : Buf} {hash : UInt64}
    (hw48 : w ≤ 48) (inv : Inv w win st) (hi : w ≤ i) (hin : i ≤ n) (hn : n ≤ buffer.size)
    (hh : hash = H (winAt w (win ++ buffer.toList.take n) i)) :
    Inv w (winAt w (win ++ buffer.toList.take n) i) (refreshTail st buffer i hash) := by
  have hwin := inv.win_length hw48
  have hl := inv.hist_len
  have hB : buffer.slice (i - w) w = ((buffer.toList.take n).drop (i - w)).take w := by
    rw [slice_eq (n := n) (by omega)]
  have hBl : (buffer.slice (i - w) w).length = w := by
    rw [hB]; simp only [List.length_take, List.length_drop, Array.length_toList]; omega
  refine ⟨inv.w_eq, ?_, ?_, hh⟩
  · simp only [refreshTail, inv.w_eq]
    rw [store_length (by omega), hl]
  · simp only [refreshTail, inv.w_eq]
    rw [store_take (by omega) (by omega)]
    rw [winAt_tail hwin hi, hB]
    simp

/-! ### the two loops of `_rolling_hash2_run` -/

/-- position `k` of the conceptual stream `full = window ++ data` is a hit -/
def hitK (w : Nat) (mask trigger : UInt32) (full : Bytes) (k : Nat) : Bool :=
  test mask trigger (H (winAt w full k))

/-- What a correct `run` call over `n` bytes returns, in terms of positions of `full`. -/
structure Good (w n : Nat) (mask trigger : UInt32) (full : Bytes) (r : RunResult) : Prop where
  le : r.offset ≤ n
  ret : (r.ret = ISAL_FINGERPRINT_RET_HIT ∧ 1 ≤ r.offset ∧ hitK w mask trigger full r.offset = true) ∨
        (r.ret = ISAL_FINGERPRINT_RET_MAX ∧ r.offset = n ∧ (1 ≤ n → hitK w mask trigger full n = false))
  before : ∀ j, 1 ≤ j → j < r.offset → hitK w mask trigger full j = false
  inv : Inv w (winAt w full r.offset) r.state

/-- one `hash_fn` step of the first loop moves the window from `i` to `i + 1` -/
theorem head_step {w n i : Nat} {win : Bytes} {st : RhState} {buffer : Buf}
    (hw1 : 1 ≤ w) (hw48 : w ≤ 48) (inv : Inv w win st) (hn : n ≤ buffer.size)
    (hiw : i < w) (hin : i < n) :
    hashFn st (H (winAt w (win ++ buffer.toList.take n) i)) (buffer.rd i) (st.history.getD i 0) =
      H (winAt w (win ++ buffer.toList.take n) (i + 1)) := by
  have hwin := inv.win_length hw48
  rw [hashFn_eq inv.w_eq hw1 (by omega), H_winAt_succ hw1
    (by simp only [List.length_append, List.length_take, Array.length_toList]; omega),
    full_getD_data hwin, full_getD_win hwin hiw, rd_eq hin, ← inv.hist]
  simp [List.getD_eq_getElem?_getD, List.getElem?_take, hiw]

theorem runHead_spec {w n : Nat} {win : Bytes} {st : RhState} {buffer : Buf} (mask trigger : UInt32)
    (hw1 : 1 ≤ w) (hw48 : w ≤ 48) (inv : Inv w win st) (hn : n ≤ buffer.size) :
    ∀ (d i : Nat) (hash : UInt64), d = w - i → i ≤ w → i ≤ n →
      hash = H (winAt w (win ++ buffer.toList.take n) i) →
      (∀ j, 1 ≤ j → j ≤ i → hitK w mask trigger (win ++ buffer.toList.take n) j = false) →
      match runHead st buffer n mask trigger i hash with
      | .inl r => Good w n mask trigger (win ++ buffer.toList.take n) r
      | .inr (i', h') => i' = w ∧ w ≤ n ∧ h' = H (winAt w (win ++ buffer.toList.take n) w) ∧
          ∀ j, 1 ≤ j → j ≤ w → hitK w mask trigger (win ++ buffer.toList.take n) j = false := by
  intro d
  induction d with
  | zero =>
    intro i hash hd hiw hin hh hno
    have : i = w := by omega
    subst this
    rw [runHead]
    simp only [inv.w_eq, Nat.lt_irrefl, ↓reduceIte]
    exact ⟨trivial, hin, hh, hno⟩
  | succ d ih =>
    intro i hash hd hiw hin hh hno
    have hiw' : i < w := by omega
    rw [runHead]
    simp only [inv.w_eq, hiw', ↓reduceIte]
    by_cases hin' : i = n
    · simp only [hin', beq_self_eq_true, ↓reduceIte]
      subst hin'
      exact ⟨Nat.le_refl _, Or.inr ⟨rfl, rfl, fun h1 => hno _ h1 (Nat.le_refl _)⟩,
        fun j h1 h2 => hno j h1 (Nat.le_of_lt h2), refreshHead_inv hw48 inv hiw hin hn hh⟩
    · have hlt : i < n := by omega
      have hbeq : (i == n) = false := by simp [hin']
      simp only [hbeq, Bool.false_eq_true, ↓reduceIte]
      rw [hh, head_step hw1 hw48 inv hn hiw' hlt]
      by_cases ht : hitK w mask trigger (win ++ buffer.toList.take n) (i + 1) = true
      · have ht' := ht
        simp only [hitK, test] at ht'
        simp only [ht', ↓reduceIte]
        exact ⟨hlt, Or.inl ⟨rfl, by simp, ht⟩, fun j h1 h2 => hno j h1 (by simp at h2; omega),
          refreshHead_inv hw48 inv hiw' hlt hn rfl⟩
      · have ht' : hitK w mask trigger (win ++ buffer.toList.take n) (i + 1) = false := by
          simpa using ht
        have ht'' := ht'
        simp only [hitK, test] at ht''
        simp only [ht'', Bool.false_eq_true, ↓reduceIte]
        apply ih (i + 1) _ (by omega) hiw' hlt rfl
        intro j h1 h2
        by_cases hj : j = i + 1
        · subst hj; exact ht'
        · exact hno j h1 (by omega)

/-! ### the inner scan `_rolling_hash2_run_until_base` -/

theorem ptr_rd_b1 (buffer : Buf) (k : Nat) : Ptr.rd ⟨buffer, 0⟩ (k : Int) = buffer.rd k := by
  simp [Ptr.rd]

/-- `b2 = buffer - w`: `b2[k] = buffer[k - w]` once `k ≥ w` -/
theorem ptr_rd_b2 (buffer : Buf) {w k : Nat} (h : w ≤ k) :
    Ptr.rd ⟨buffer, -(w : Int)⟩ (k : Int) = buffer.rd (k - w) := by
  have h1 : (0 : Int) ≤ -(w : Int) + k := by omega
  have h2 : (-(w : Int) + k).toNat = k - w := by omega
  simp [Ptr.rd, h1, h2]

/-- one iteration of the scan moves the window from `k` to `k + 1` -/
theorem tail_step {w n k : Nat} {win : Bytes} {st : RhState} {buffer : Buf}
    (hw1 : 1 ≤ w) (hw48 : w ≤ 48) (inv : Inv w win st) (hn : n ≤ buffer.size)
    (hwk : w ≤ k) (hkn : k < n) :
    rol1 (H (winAt w (win ++ buffer.toList.take n) k)) ^^^
        (table1 (Ptr.rd ⟨buffer, 0⟩ (k : Int)) ^^^ st.table2 (Ptr.rd ⟨buffer, -(w : Int)⟩ (k : Int))) =
      H (winAt w (win ++ buffer.toList.take n) (k + 1)) := by
  have hwin := inv.win_length hw48
  have e := hashFn_eq inv.w_eq hw1 (by omega : w < 64) (H (winAt w (win ++ buffer.toList.take n) k))
    (buffer.rd k) (buffer.rd (k - w))
  simp only [hashFn] at e
  rw [ptr_rd_b1, ptr_rd_b2 buffer hwk, e, H_winAt_succ hw1
    (by simp only [List.length_append, List.length_take, Array.length_toList]; omega),
    full_getD_data hwin, rd_eq hkn, rd_eq (by omega : k - w < n)]
  have : (win ++ buffer.toList.take n).getD k 0 = (buffer.toList.take n).getD (k - w) 0 := by
    have := full_getD_data (data := buffer.toList.take n) hwin (k - w)
    rwa [Nat.sub_add_cancel hwk] at this
  rw [this]

theorem untilLoop_spec {w n : Nat} {win : Bytes} {st : RhState} {buffer : Buf} (mask trigger : UInt32)
    (hit : UInt64 → Bool) (hhit : ∀ h, hit h = test mask trigger h)
    (hw1 : 1 ≤ w) (hw48 : w ≤ 48) (inv : Inv w win st) (hn : n ≤ buffer.size) :
    ∀ (d k : Nat) (h : UInt64), d = n - k → w ≤ k → k ≤ n →
      h = H (winAt w (win ++ buffer.toList.take n) k) →
      ∃ k' : Nat, ∃ h' : UInt64,
        untilLoop hit n table1 st.table2 ⟨buffer, 0⟩ ⟨buffer, -(w : Int)⟩ k h = (k', h') ∧
        k ≤ k' ∧
        ((k' < n ∧ h' = H (winAt w (win ++ buffer.toList.take n) (k' + 1)) ∧
            hitK w mask trigger (win ++ buffer.toList.take n) (k' + 1) = true ∧
            ∀ j, k < j → j ≤ k' → hitK w mask trigger (win ++ buffer.toList.take n) j = false) ∨
         (k' = n ∧ h' = H (winAt w (win ++ buffer.toList.take n) n) ∧
            ∀ j, k < j → j ≤ n → hitK w mask trigger (win ++ buffer.toList.take n) j = false)) := by
  intro d
  induction d with
  | zero =>
    intro k h hd hwk hkn hh
    have : k = n := by omega
    subst this
    rw [untilLoop]
    simp only [Nat.lt_irrefl, ↓reduceIte]
    exact ⟨k, h, rfl, Nat.le_refl _, Or.inr ⟨rfl, hh, fun j h1 h2 => by omega⟩⟩
  | succ d ih =>
    intro k h hd hwk hkn hh
    have hlt : k < n := by omega
    rw [untilLoop]
    simp only [hlt, ↓reduceIte]
    rw [hh, tail_step hw1 hw48 inv hn hwk hlt, hhit]
    by_cases ht : hitK w mask trigger (win ++ buffer.toList.take n) (k + 1) = true
    · have ht' := ht
      simp only [hitK] at ht'
      simp only [ht', ↓reduceIte]
      exact ⟨k, _, rfl, Nat.le_refl _, Or.inl ⟨hlt, rfl, ht, fun j h1 h2 => by omega⟩⟩
    · have ht' : hitK w mask trigger (win ++ buffer.toList.take n) (k + 1) = false := by simpa using ht
      have ht'' := ht'
      simp only [hitK] at ht''
      simp only [ht'', Bool.false_eq_true, ↓reduceIte]
      obtain ⟨k', h', e, hk', hres⟩ := ih (k + 1) _ (by omega) (by omega) hlt rfl
      refine ⟨k', h', e, by omega, ?_⟩
      have hno : ∀ j, k < j → j ≤ k' →
          (∀ j, k + 1 < j → j ≤ k' → hitK w mask trigger (win ++ buffer.toList.take n) j = false) →
          hitK w mask trigger (win ++ buffer.toList.take n) j = false := by
        intro j h1 h2 hrest
        by_cases hj : j = k + 1
        · subst hj; exact ht'
        · exact hrest j (by omega) h2
      rcases hres with ⟨a, b, c, dd⟩ | ⟨a, b, c⟩
      · exact Or.inl ⟨a, b, c, fun j h1 h2 => hno j h1 h2 dd⟩
      · subst a
        exact Or.inr ⟨rfl, b, fun j h1 h2 => hno j h1 h2 c⟩

/-- `_rolling_hash2_run_until_base` as called by `run`: it stops at the first hit after position `w`
(returning the index of the byte that produced it) or at `n`, for every `uint32_t` length `n`. -/
theorem runUntilBase_spec {w n : Nat} {win : Bytes} {st : RhState} {buffer : Buf} (mask trigger : UInt32)
    (hw1 : 1 ≤ w) (hw48 : w ≤ 48) (inv : Inv w win st) (hn : n ≤ buffer.size) (h32 : n < 2 ^ 32)
    (hwn : w ≤ n) :
    ∃ k' : Nat, ∃ h' : UInt64,
      runUntilBase w n table1 st.table2 ⟨buffer, 0⟩ ⟨buffer, -(w : Int)⟩
        (H (winAt w (win ++ buffer.toList.take n) w)) mask.toUInt64 trigger.toUInt64 = (k', h') ∧
      w ≤ k' ∧
      ((k' < n ∧ h' = H (winAt w (win ++ buffer.toList.take n) (k' + 1)) ∧
          hitK w mask trigger (win ++ buffer.toList.take n) (k' + 1) = true ∧
          ∀ j, w < j → j ≤ k' → hitK w mask trigger (win ++ buffer.toList.take n) j = false) ∨
       (k' = n ∧ h' = H (winAt w (win ++ buffer.toList.take n) n) ∧
          ∀ j, w < j → j ≤ n → hitK w mask trigger (win ++ buffer.toList.take n) j = false)) := by
  unfold runUntilBase
  rw [Nat.mod_eq_of_lt h32]
  by_cases ht : (trigger.toUInt64 == 0) = true
  · have ht0 : trigger.toUInt64 = 0 := by simpa using ht
    obtain ⟨k', h', e, hk, hres⟩ := untilLoop_spec (n := n) (buffer := buffer) mask trigger
      (fun h => (h &&& mask.toUInt64) == 0) (by intro h; simp only [test, ht0]) hw1 hw48 inv hn
      (n - w) w _ rfl (Nat.le_refl _) hwn rfl
    refine ⟨k', h', ?_, hk, hres⟩
    simp only [ht, ↓reduceIte, e]
  · have ht' : (trigger.toUInt64 == 0) = false := by simpa using ht
    obtain ⟨k', h', e, hk, hres⟩ := untilLoop_spec (n := n) (buffer := buffer) mask trigger
      (fun h => (h &&& mask.toUInt64) == trigger.toUInt64) (by intro h; simp only [test]) hw1 hw48 inv hn
      (n - w) w _ rfl (Nat.le_refl _) hwn rfl
    refine ⟨k', h', ?_, hk, hres⟩
    simp only [ht', Bool.false_eq_true, ↓reduceIte, e]

/-- A scan implementation meets its specification when it computes what the base scan computes. -/
def ScanRefinesBase (scan : ScanFn) : Prop :=
  ∀ idx maxIdx t1 t2 b1 b2 h mask trigger,
    scan idx maxIdx t1 t2 b1 b2 h mask trigger = runUntilBase idx maxIdx t1 t2 b1 b2 h mask trigger

theorem scanRefinesBase_base : ScanRefinesBase runUntilBase := fun _ _ _ _ _ _ _ _ _ => rfl

/-- **Core theorem about one call**: `_rolling_hash2_run` over the first `n` bytes of `buffer`,
from a state holding window `win`, returns a `Good` result. -/
theorem run_good {w n : Nat} {win : Bytes} {st : RhState} {buffer : Buf} {scan : ScanFn}
    (mask trigger : UInt32) (hscan : ScanRefinesBase scan)
    (hw1 : 1 ≤ w) (hw48 : w ≤ 48) (inv : Inv w win st) (hn : n ≤ buffer.size) (h32 : n < 2 ^ 32) :
    Good w n mask trigger (win ++ buffer.toList.take n) (run scan st buffer n mask trigger) := by
  have hwin := inv.win_length hw48
  have h0 : st.hash = H (winAt w (win ++ buffer.toList.take n) 0) := by
    rw [winAt_head hwin (Nat.zero_le _), inv.hash]; simp
  have hhead := runHead_spec (n := n) (buffer := buffer) mask trigger hw1 hw48 inv hn w 0 st.hash rfl
    (Nat.zero_le _) (Nat.zero_le _) h0 (fun j h1 h2 => by omega)
  unfold run
  cases hrh : runHead st buffer n mask trigger 0 st.hash with
  | inl r => rw [hrh] at hhead; exact hhead
  | inr p =>
    obtain ⟨i, hash⟩ := p
    rw [hrh] at hhead
    obtain ⟨hi, hwn, hh, hno⟩ := hhead
    subst hi hh
    have hs : scan = runUntilBase := by
      funext a b c d e f g h i; exact hscan a b c d e f g h i
    subst hs
    simp only [inv.w_eq]
    obtain ⟨k', h', e, hk, hres⟩ := runUntilBase_spec mask trigger hw1 hw48 inv hn h32 hwn
    rw [e]
    rcases hres with ⟨hlt, hh', hhit, hbefore⟩ | ⟨hk'n, hh', hnone⟩
    · have ht := hhit
      simp only [hitK, test, ← hh'] at ht
      simp only [ht, ↓reduceIte]
      refine ⟨hlt, Or.inl ⟨rfl, by simp, hhit⟩, ?_, refreshTail_inv (i := k' + 1) hw48 inv (by omega) hlt hn hh'⟩
      intro j h1 h2
      simp only at h2
      by_cases hj : j ≤ i
      · exact hno j h1 hj
      · exact hbefore j (by omega) (by omega)
    · subst hk'n
      have hall : ∀ j, 1 ≤ j → j ≤ k' → hitK i mask trigger (win ++ buffer.toList.take k') j = false := by
        intro j h1 h2
        by_cases hj : j ≤ i
        · exact hno j h1 hj
        · exact hnone j (by omega) h2
      have ht := hall k' (by omega) (Nat.le_refl _)
      simp only [hitK, test, ← hh'] at ht
      simp only [ht, Bool.false_eq_true, ↓reduceIte]
      exact ⟨Nat.le_refl _, Or.inr ⟨rfl, rfl, fun h1 => hall _ h1 (Nat.le_refl _)⟩,
        fun j h1 h2 => hall j h1 (Nat.le_of_lt h2), refreshTail_inv hw48 inv hwn (Nat.le_refl _) hn hh'⟩

/-! ### `init` and `reset` -/

theorem init_ok {st : RhState} {w : Nat} (hw1 : 1 ≤ w) (hw : w ≤ 48) : init st w = (0, { st with w := w }) := by
  have h : ¬ (w < 1 ∨ w > ISAL_FINGERPRINT_MAX_WINDOW) := by unfold ISAL_FINGERPRINT_MAX_WINDOW; omega
  unfold init; rw [if_neg h]

theorem init_bad {st : RhState} {w : Nat} (hw : w < 1 ∨ 48 < w) : init st w = (-1, st) := by
  have h : w < 1 ∨ w > ISAL_FINGERPRINT_MAX_WINDOW := by unfold ISAL_FINGERPRINT_MAX_WINDOW; omega
  unfold init; rw [if_pos h]

/-- the loop of `reset` computes the window hash of the first `w` bytes -/
theorem resetLoop_spec (initBytes : Buf) (w : Nat) (hsz : w ≤ initBytes.size) :
    ∀ (d i : Nat), d = w - i → i ≤ w →
      resetLoop initBytes w i (H (initBytes.toList.take i)) = H (initBytes.toList.take w) := by
  intro d
  induction d with
  | zero =>
    intro i hd hi
    have : i = w := by omega
    subst this
    rw [resetLoop]; simp
  | succ d ih =>
    intro i hd hi
    have hlt : i < w := by omega
    rw [resetLoop]
    simp only [hlt, ↓reduceIte]
    have hget : initBytes.toList[i]? = some (initBytes.rd i) := by
      have : i < initBytes.size := by omega
      simp [Buf.rd, this]
    have e : H (initBytes.toList.take (i + 1)) =
        rol1 (H (initBytes.toList.take i)) ^^^ table1 (initBytes.rd i) := by
      rw [List.take_add_one, hget, rol1_eq]
      exact windowHash_append_one tableAt _ _
    rw [← e]
    exact ih (i + 1) (by omega) hlt

theorem reset_inv {st : RhState} {w : Nat} {initBytes : Buf} (hw48 : w ≤ 48) (hst : st.w = w)
    (hlen : st.history.length = 48) (hsz : w ≤ initBytes.size) :
    Inv w (initBytes.toList.take w) (reset st initBytes) := by
  have hS : initBytes.slice 0 w = initBytes.toList.take w := by
    rw [slice_eq (n := w) (by omega), List.drop_zero, List.take_take, Nat.min_self]
  have hSl : (initBytes.slice 0 w).length = w := by
    rw [hS, List.length_take, Array.length_toList]; omega
  refine ⟨hst, ?_, ?_, ?_⟩
  · simp only [reset, hst]
    rw [store_length (by omega), hlen]
  · simp only [reset, hst]
    rw [store_take (by omega) (by omega), hS]; simp
  · simp only [reset, hst]
    have := resetLoop_spec initBytes w hsz w 0 rfl (Nat.zero_le _)
    simpa [H, windowHash] using this

/-! ### from positions of `win ++ data` to the specification's `hitAt` / `firstHit` -/

theorem hitK_eq_hitAt {w k : Nat} {win data : Bytes} (mask trigger : UInt32) (hwin : win.length = w)
    (hk : k ≤ data.length) :
    hitK w mask trigger (win ++ data) k = hitAt w mask trigger win data k := by
  simp only [hitK, hitAt, lastN_eq_winAt hwin hk]

/-- a `Good` result is the specification's `firstHit` -/
theorem Good.firstHit_eq {w n : Nat} {mask trigger : UInt32} {win data : Bytes} {r : RunResult}
    (g : Good w n mask trigger (win ++ data) r) (hwin : win.length = w) (hdata : data.length = n) :
    (r.ret = ISAL_FINGERPRINT_RET_HIT ∧ firstHit w mask trigger win data = some r.offset) ∨
    (r.ret = ISAL_FINGERPRINT_RET_MAX ∧ r.offset = n ∧ firstHit w mask trigger win data = none) := by
  have hle := g.le
  rcases g.ret with ⟨hr, h1, hh⟩ | ⟨hr, ho, hh⟩
  · refine Or.inl ⟨hr, ?_⟩
    unfold firstHit
    rw [List.find?_range'_eq_some]
    refine ⟨?_, ?_, ?_⟩
    · rw [← hitK_eq_hitAt mask trigger hwin (by omega)]; exact hh
    · simp only [List.mem_range'_1]; omega
    · intro j hj1 hj2
      rw [← hitK_eq_hitAt mask trigger hwin (by omega), g.before j hj1 hj2]; rfl
  · refine Or.inr ⟨hr, ho, ?_⟩
    unfold firstHit
    rw [List.find?_range'_eq_none]
    intro j hj1 hj2
    rw [← hitK_eq_hitAt mask trigger hwin (by omega)]
    by_cases hjn : j = n
    · subst hjn; rw [hh hj1]; rfl
    · rw [g.before j hj1 (by omega)]; rfl

/-! ### sequences of calls -/

/-- the window after a `Good` call, in the specification's terms -/
theorem Good.inv_lastN {w n : Nat} {mask trigger : UInt32} {win : Bytes} {buffer : Buf} {r : RunResult}
    (g : Good w n mask trigger (win ++ buffer.toList.take n) r) (hwin : win.length = w)
    (hn : n ≤ buffer.size) : Inv w (lastN w (win ++ buffer.toList.take r.offset)) r.state := by
  have hle := g.le
  have e : buffer.toList.take r.offset = (buffer.toList.take n).take r.offset := by
    rw [List.take_take, Nat.min_eq_left hle]
  rw [e, lastN_eq_winAt hwin (by simp only [List.length_take, Array.length_toList]; omega)]
  exact g.inv

theorem runCalls_inv {scan : ScanFn} (hscan : ScanRefinesBase scan) {w : Nat} (hw1 : 1 ≤ w)
    (hw48 : w ≤ 48) :
    ∀ (calls : List Call) (st : RhState) (win : Bytes), Inv w win st → (∀ c ∈ calls, c.Valid) →
      Inv w (lastN w (win ++ (runCalls scan st calls).2)) (runCalls scan st calls).1 := by
  intro calls
  induction calls with
  | nil =>
    intro st win inv _
    have hwin := inv.win_length hw48
    simp only [runCalls, List.append_nil]
    have : lastN w win = win := by simp [lastN, hwin]
    rw [this]; exact inv
  | cons c cs ih =>
    intro st win inv hv
    have hwin := inv.win_length hw48
    obtain ⟨hc1, hc2⟩ := hv c (List.mem_cons_self)
    have g := run_good c.mask c.trigger hscan hw1 hw48 inv hc1 hc2
    have inv' := g.inv_lastN hwin hc1
    have := ih _ _ inv' (fun c' hc' => hv c' (List.mem_cons_of_mem _ hc'))
    simp only [runCalls]
    rw [lastN_lastN_append (by simp only [List.length_append]; omega), List.append_assoc] at this
    exact this

/-- filtering a segment of positions none of which, except possibly the last, is a hit -/
theorem filter_segment (P : Nat → Bool) (pos off : Nat)
    (hbefore : ∀ j, 1 ≤ j → j < off → P (pos + j) = false) :
    (List.range' (pos + 1) off).filter P = if 1 ≤ off ∧ P (pos + off) = true then [pos + off] else [] := by
  cases off with
  | zero => simp
  | succ o =>
    rw [List.range'_1_concat, List.filter_append]
    have h1 : (List.range' (pos + 1) o).filter P = [] := by
      rw [List.filter_eq_nil_iff]
      intro a ha
      simp only [List.mem_range'_1] at ha
      have := hbefore (a - pos) (by omega) (by omega)
      rw [show pos + (a - pos) = a by omega] at this
      simp [this]
    rw [h1, show pos + 1 + o = pos + (o + 1) by omega]
    by_cases hp : P (pos + (o + 1)) = true <;> simp [hp]

/-- one call of `scanStream` at stream position `pos` -/
theorem scan_call {scan : ScanFn} (hscan : ScanRefinesBase scan) {w : Nat} (hw1 : 1 ≤ w)
    (hw48 : w ≤ 48) (stream : Buf) (hsz : stream.size < 2 ^ 32) (mask trigger : UInt32)
    (pre : Bytes) (hpre : pre.length = w) (st : RhState) (pos m : Nat) (hpos : pos ≤ stream.size)
    (inv : Inv w (lastN w (pre ++ stream.toList.take pos)) st) :
    ∀ r, r = run scan st (stream.extract pos stream.size) (min m (stream.size - pos)) mask trigger →
      pos + r.offset ≤ stream.size ∧
      Inv w (lastN w (pre ++ stream.toList.take (pos + r.offset))) r.state ∧
      ((List.range' (pos + 1) r.offset).filter (hitAt w mask trigger pre stream.toList) =
        if r.ret = ISAL_FINGERPRINT_RET_HIT then [pos + r.offset] else []) ∧
      (1 ≤ min m (stream.size - pos) → 1 ≤ r.offset) := by
  obtain ⟨len, hlen_def⟩ : ∃ len, len = min m (stream.size - pos) := ⟨_, rfl⟩
  obtain ⟨buffer, hbuf⟩ : ∃ b : Buf, b = stream.extract pos stream.size := ⟨_, rfl⟩
  rw [← hlen_def, ← hbuf]
  intro r hr
  have hbsz : buffer.size = stream.size - pos := by simp [hbuf]
  have hlen : len ≤ buffer.size := by rw [hbsz, hlen_def]; exact Nat.min_le_right _ _
  have hbl : buffer.toList = stream.toList.drop pos := by
    simp only [hbuf, Array.toList_extract, List.extract_eq_take_drop]
    exact List.take_of_length_le (by simp)
  have hwin : (lastN w (pre ++ stream.toList.take pos)).length = w :=
    lastN_length (by simp only [List.length_append]; omega)
  have g := run_good (scan := scan) (buffer := buffer) (n := len) mask trigger hscan hw1 hw48 inv hlen
    (by omega)
  rw [← hr] at g
  have inv' := g.inv_lastN hwin hlen
  have hoff := g.le
  -- positions `j` of this call are positions `pos + j` of the stream
  have htake : ∀ j, j ≤ len →
      stream.toList.take pos ++ (buffer.toList.take len).take j = stream.toList.take (pos + j) := by
    intro j hj
    rw [List.take_take, Nat.min_eq_left hj, hbl, List.take_add]
  have hP : ∀ j, j ≤ len →
      hitK w mask trigger (lastN w (pre ++ stream.toList.take pos) ++ buffer.toList.take len) j =
        hitAt w mask trigger pre stream.toList (pos + j) := by
    intro j hj
    rw [hitK_eq_hitAt mask trigger hwin
      (by simp only [List.length_take, Array.length_toList]; omega)]
    simp only [hitAt]
    rw [lastN_lastN_append (by simp only [List.length_append]; omega), List.append_assoc, htake j hj]
  refine ⟨by omega, ?_, ?_, ?_⟩
  · have e := htake _ hoff
    rw [List.take_take, Nat.min_eq_left hoff] at e
    rw [lastN_lastN_append (by simp only [List.length_append]; omega), List.append_assoc, e] at inv'
    exact inv'
  · rw [filter_segment _ _ _ (fun j hj1 hj2 => by
      rw [← hP j (by omega)]; exact g.before j hj1 hj2)]
    rcases g.ret with ⟨hr', ho1, hh⟩ | ⟨hr', ho, hh⟩
    · rw [hP _ hoff] at hh
      simp [hr', ho1, hh]
    · have hne : ¬ (ISAL_FINGERPRINT_RET_MAX = ISAL_FINGERPRINT_RET_HIT) := by decide
      by_cases hl1 : 1 ≤ len
      · have := hh hl1
        rw [hP _ (Nat.le_refl _)] at this
        simp [hr', ho, this, hne]
      · simp [hr', ho, hne, (by omega : len = 0)]
  · intro hl1
    rcases g.ret with ⟨_, ho1, _⟩ | ⟨_, ho, _⟩ <;> omega

theorem scanStream_spec {scan : ScanFn} (hscan : ScanRefinesBase scan) {w : Nat} (hw1 : 1 ≤ w)
    (hw48 : w ≤ 48) (stream : Buf) (hsz : stream.size < 2 ^ 32) (mask trigger : UInt32)
    (pre : Bytes) (hpre : pre.length = w) :
    ∀ (lens : List Nat) (st : RhState) (pos : Nat), pos ≤ stream.size →
      Inv w (lastN w (pre ++ stream.toList.take pos)) st →
      pos ≤ (scanStream scan stream mask trigger st pos lens).2.1 ∧
      (scanStream scan stream mask trigger st pos lens).2.1 ≤ stream.size ∧
      Inv w (lastN w (pre ++ stream.toList.take (scanStream scan stream mask trigger st pos lens).2.1))
        (scanStream scan stream mask trigger st pos lens).2.2 ∧
      (List.range' 1 pos).filter (hitAt w mask trigger pre stream.toList) ++
          (scanStream scan stream mask trigger st pos lens).1 =
        (List.range' 1 (scanStream scan stream mask trigger st pos lens).2.1).filter
          (hitAt w mask trigger pre stream.toList) := by
  intro lens
  induction lens with
  | nil =>
    intro st pos hpos inv
    simp only [scanStream, List.append_nil]
    exact ⟨Nat.le_refl _, hpos, inv, trivial⟩
  | cons m ms ih =>
    intro st pos hpos inv
    obtain ⟨c1, c2, c3, _⟩ := scan_call hscan hw1 hw48 stream hsz mask trigger pre hpre st pos m hpos inv _ rfl
    obtain ⟨h1, h2, h3, h4⟩ := ih _ _ c1 c2
    simp only [scanStream]
    refine ⟨Nat.le_trans (Nat.le_add_right _ _) h1, h2, h3, ?_⟩
    rw [← h4, ← List.range'_append_1 (s := 1) (m := pos), List.filter_append, List.append_assoc,
      Nat.add_comm 1 pos, c3]
    congr 1
    split <;> simp

/-- calls that are offered at least one byte make progress: `k` such calls consume `k` bytes or
the whole stream -/
theorem scanStream_progress {scan : ScanFn} (hscan : ScanRefinesBase scan) {w : Nat} (hw1 : 1 ≤ w)
    (hw48 : w ≤ 48) (stream : Buf) (hsz : stream.size < 2 ^ 32) (mask trigger : UInt32)
    (pre : Bytes) (hpre : pre.length = w) :
    ∀ (lens : List Nat) (st : RhState) (pos : Nat), pos ≤ stream.size →
      Inv w (lastN w (pre ++ stream.toList.take pos)) st → (∀ m ∈ lens, 1 ≤ m) →
      min (pos + lens.length) stream.size ≤ (scanStream scan stream mask trigger st pos lens).2.1 := by
  intro lens
  induction lens with
  | nil =>
    intro st pos hpos _ _
    simp only [scanStream, List.length_nil]; omega
  | cons m ms ih =>
    intro st pos hpos inv hpos1
    obtain ⟨c1, c2, _, c4⟩ :=
      scan_call hscan hw1 hw48 stream hsz mask trigger pre hpre st pos m hpos inv _ rfl
    have hm := hpos1 m (List.mem_cons_self)
    have := ih _ _ c1 c2 (fun m' hm' => hpos1 m' (List.mem_cons_of_mem _ hm'))
    simp only [scanStream, List.length_cons]
    refine Nat.le_trans ?_ this
    by_cases hend : pos < stream.size
    · have := c4 (by omega)
      omega
    · omega

/-- hit positions up to `p` are the boundaries of the prefix of length `p` -/
theorem filter_range_eq_boundaries_take (w : Nat) (mask trigger : UInt32) (pre S : Bytes) (p : Nat)
    (hp : p ≤ S.length) :
    (List.range' 1 p).filter (hitAt w mask trigger pre S) = boundaries w mask trigger pre (S.take p) := by
  unfold boundaries
  rw [List.length_take, Nat.min_eq_left hp]
  apply List.filter_congr
  intro k hk
  simp only [List.mem_range'_1] at hk
  simp only [hitAt, List.take_take, Nat.min_eq_left (by omega : k ≤ p)]

/-! ### `mask_gen` -/

/-- Clearing the lowest set bit of `n ≠ 0`: either `n` is a power of two and nothing is left, or the
top bit (hence `log2`) survives. -/
theorem clearLowest_cases (n : Nat) (hn : n ≠ 0) :
    (n = 2 ^ n.log2 ∧ n &&& (n - 1) = 0) ∨
    (n &&& (n - 1) ≠ 0 ∧ (n &&& (n - 1)).log2 = n.log2) := by
  have h1 : 2 ^ n.log2 ≤ n := Nat.log2_self_le hn
  have h2 : n < 2 ^ (n.log2 + 1) := Nat.lt_log2_self
  have hpos : 0 < 2 ^ n.log2 := Nat.two_pow_pos _
  rw [Nat.pow_succ] at h2
  by_cases hp : n = 2 ^ n.log2
  · refine Or.inl ⟨hp, ?_⟩
    have : n &&& (n - 1) = 2 ^ n.log2 &&& (2 ^ n.log2 - 1) := by rw [← hp]
    rw [this, Nat.and_two_pow_sub_one_eq_mod, Nat.mod_self]
  · have hbit : ∀ x, 2 ^ n.log2 ≤ x → x < 2 ^ n.log2 * 2 → x.testBit n.log2 = true := by
      intro x hx1 hx2
      rw [Nat.testBit_eq_decide_div_mod_eq, Nat.div_eq_of_lt_le (k := 1) (by omega) (by omega)]
      rfl
    have hb : (n &&& (n - 1)).testBit n.log2 = true := by
      rw [Nat.testBit_and, hbit n h1 h2, hbit (n - 1) (by omega) (by omega)]; rfl
    have hge : 2 ^ n.log2 ≤ n &&& (n - 1) := Nat.ge_two_pow_of_testBit hb
    have hle : n &&& (n - 1) ≤ n - 1 := Nat.and_le_right
    have hne : n &&& (n - 1) ≠ 0 := by omega
    refine Or.inr ⟨hne, ?_⟩
    rw [Nat.log2_eq_iff hne, Nat.pow_succ]
    omega

theorem clearLowest_toNat (inp : UInt32) (hne : inp ≠ 0) :
    (inp &&& (inp - 1)).toNat = inp.toNat &&& (inp.toNat - 1) := by
  have hpos : 0 < inp.toNat := by
    rcases Nat.eq_zero_or_pos inp.toNat with h0 | h0
    · exact absurd (UInt32.toNat_inj.mp (by simpa using h0)) hne
    · exact h0
  have hle : (1 : UInt32) ≤ inp := by rw [UInt32.le_iff_toNat_le]; exact hpos
  rw [UInt32.toNat_and, UInt32.toNat_sub_of_le _ _ hle]; rfl

/-- `floor_pow2(in)` is the greatest power of two `≤ in`, for `in ≠ 0` -/
theorem floorPow2Loop_spec : ∀ (N : Nat) (inp x : UInt32), inp.toNat = N → inp ≠ 0 →
    (floorPow2Loop inp x).toNat = 2 ^ inp.toNat.log2 := by
  intro N
  induction N using Nat.strongRecOn with
  | ind N ih =>
    intro inp x hN hne
    have hne' : (inp != 0) = true := by simpa using hne
    have hnat : inp.toNat ≠ 0 := by
      intro h0; exact hne (UInt32.toNat_inj.mp (by simpa using h0))
    rw [floorPow2Loop]
    simp only [hne', ↓reduceDIte]
    have hm := clearLowest_toNat inp hne
    rcases clearLowest_cases inp.toNat hnat with ⟨hp, hz⟩ | ⟨hnz, hlog⟩
    · have hm0 : inp &&& (inp - 1) = 0 := UInt32.toNat_inj.mp (by rw [hm, hz]; rfl)
      rw [hm0, floorPow2Loop]
      simp only [bne_self_eq_false, Bool.false_eq_true, ↓reduceDIte]
      exact hp
    · have hmne : inp &&& (inp - 1) ≠ 0 := by
        intro h0; apply hnz; rw [← hm, h0]; rfl
      have hlt : (inp &&& (inp - 1)).toNat < N := by
        rw [← hN]; exact clearLowest_lt inp hne'
      rw [ih _ hlt _ _ rfl hmne, hm, hlog]

theorem floorPow2_spec (inp : UInt32) (hne : inp ≠ 0) :
    (floorPow2 inp).toNat = 2 ^ inp.toNat.log2 :=
  floorPow2Loop_spec _ inp inp rfl hne

/-- the C idiom `x << i | x >> (32 - i)` on `uint32_t` is a left rotation; defined C for
`0 < i < 32`, and the model (like x86) gives `x` for `i = 0` -/
theorem rol32C_eq (x : UInt32) (i : Nat) (hi : i < 32) :
    (rol32C x i).toBitVec = x.toBitVec.rotateLeft i := by
  have e1 : i.toUInt32.toBitVec % 32 = BitVec.ofNat 32 i := by
    apply BitVec.eq_of_toNat_eq
    simp [Nat.toUInt32, UInt32.ofNat, BitVec.toNat_umod]
    omega
  have e2 : (32 - i % 32).toUInt32.toBitVec % 32 = BitVec.ofNat 32 ((32 - i) % 32) := by
    apply BitVec.eq_of_toNat_eq
    simp [Nat.toUInt32, UInt32.ofNat, BitVec.toNat_umod]
    omega
  simp only [rol32C, UInt32.toBitVec_or, UInt32.toBitVec_shiftLeft, UInt32.toBitVec_shiftRight, e1, e2]
  have t1 : (BitVec.ofNat 32 i).toNat = i := by simp; omega
  have t2 : (BitVec.ofNat 32 ((32 - i) % 32)).toNat = (32 - i) % 32 := by simp; omega
  simp only [BitVec.shiftLeft_eq', BitVec.ushiftRight_eq', t1, t2]
  rcases Nat.eq_zero_or_pos i with h0 | h0
  · subst h0
    apply BitVec.eq_of_getLsbD_eq
    intro j hj
    simp [hj]
  · rw [BitVec.rotateLeft_def, Nat.mod_eq_of_lt hi, Nat.mod_eq_of_lt (by omega : 32 - i < 32)]

/-- **`mask_gen`**: the mask has the `⌊log2 (max mean 2)⌋` low bits set, rotated left by `shift`. -/
theorem maskGen_spec (mean shift : Nat) (hm : mean < 2 ^ 32) (hs : shift < 32) :
    (maskGen mean shift).toBitVec =
      (BitVec.ofNat 32 (2 ^ (max mean 2).log2 - 1)).rotateLeft shift := by
  obtain ⟨m, hmdef⟩ : ∃ m, m = (if mean ≤ 2 then 2 else mean) := ⟨_, rfl⟩
  have hmax : max mean 2 = m := by rw [hmdef, Nat.max_def]
  have hm2 : 2 ≤ m ∧ m < 2 ^ 32 := by rw [hmdef]; split <;> omega
  have htn : m.toUInt32.toNat = m := by
    show (UInt32.ofNat m).toNat = m
    rw [UInt32.toNat_ofNat']; exact Nat.mod_eq_of_lt hm2.2
  have hne : m.toUInt32 ≠ 0 := by
    intro h0
    have : m.toUInt32.toNat = 0 := by rw [h0]; rfl
    omega
  have hfp := floorPow2_spec m.toUInt32 hne
  rw [htn] at hfp
  have hpos : 0 < 2 ^ m.log2 := Nat.two_pow_pos _
  have hlt : 2 ^ m.log2 < 2 ^ 32 := Nat.lt_of_le_of_lt (Nat.log2_self_le (by omega)) hm2.2
  have hsub : (floorPow2 m.toUInt32 - 1).toBitVec = BitVec.ofNat 32 (2 ^ m.log2 - 1) := by
    apply BitVec.eq_of_toNat_eq
    have hle : (1 : UInt32) ≤ floorPow2 m.toUInt32 := by
      rw [UInt32.le_iff_toNat_le, hfp]; exact hpos
    have := UInt32.toNat_sub_of_le _ _ hle
    rw [hfp] at this
    simp only [UInt32.toNat_toBitVec, this, BitVec.toNat_ofNat]
    rw [Nat.mod_eq_of_lt (by omega)]; rfl
  unfold maskGen
  rw [← hmdef, rol32C_eq _ _ hs, hsub, hmax]

end IsalVerif.Lemmas.Rolling
