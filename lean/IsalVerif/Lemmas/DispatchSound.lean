import IsalVerif.Impl.Dispatch
/-! Exactness of the symbolic execution of resolvers: every configuration follows exactly one
    enumerated path and that path's final symbolic state evaluates to the concrete final state. -/
namespace IsalVerif.Dispatch

theorem ev_setR (cfg : Cfg) (f : Reg → SVal) (r : Reg) (v : SVal) :
    (fun x => (setR f r v x).ev cfg) = setR (fun x => (f x).ev cfg) r (v.ev cfg) := by
  funext x; simp only [setR]; split <;> rfl

theorem and_ones (w : W) : w &&& 4294967295#32 = w := by
  rw [show (4294967295#32 : W) = BitVec.allOnes 32 by decide]; exact BitVec.and_allOnes

/-- the symbolic step is exact: the branch whose assumption holds is the concrete step -/
theorem sstep_exact (cfg : Cfg) (p : List Instr) (σ : SSt) (brs) (h : sstep p σ = some brs) :
    (brs = [] ∧ step cfg p (σ.ev cfg) = none) ∨
    (∃ br ∈ brs, condHolds cfg br.1 = true ∧ step cfg p (σ.ev cfg) = some (br.2.ev cfg)) := by
  unfold sstep at h
  unfold step
  have hpc : (σ.ev cfg).pc = σ.pc := rfl
  rw [hpc]
  cases hi : p[σ.pc]? with
  | none => simp [hi] at h; subst h; left; simp
  | some i =>
    simp only [hi] at h ⊢
    cases i with
    | movImm r k => simp at h; subst h; right; refine ⟨_, List.mem_singleton.mpr rfl, rfl, ?_⟩; simp only [SSt.ev, ev_setR, List.map_cons] <;> try simp [SVal.ev, SFlag.ev, Cfg.get, cpuidOut, bitsOf, BitVec.and_assoc, BitVec.and_allOnes, and_ones]
    | movRR d r => simp at h; subst h; right; refine ⟨_, List.mem_singleton.mpr rfl, rfl, ?_⟩; simp only [SSt.ev, ev_setR, List.map_cons] <;> try simp [SVal.ev, SFlag.ev, Cfg.get, cpuidOut, bitsOf, BitVec.and_assoc, BitVec.and_allOnes, and_ones]
    | lea r sy => simp at h; subst h; right; refine ⟨_, List.mem_singleton.mpr rfl, rfl, ?_⟩; simp only [SSt.ev, ev_setR, List.map_cons] <;> try simp [SVal.ev, SFlag.ev, Cfg.get, cpuidOut, bitsOf, BitVec.and_assoc, BitVec.and_allOnes, and_ones]
    | cpuid =>
      cases ha : σ.regs .a with
      | const w =>
        simp only [ha] at h
        by_cases h1 : w = 1
        · simp [h1] at h; subst h; right; refine ⟨_, List.mem_singleton.mpr rfl, rfl, ?_⟩
          simp only [SSt.ev, ev_setR, List.map_cons, ha, h1] <;> try simp [SVal.ev, SFlag.ev, Cfg.get, cpuidOut, bitsOf, BitVec.and_assoc, BitVec.and_allOnes, and_ones, ha, h1]
        · by_cases h7 : w = 7
          · simp [h7] at h; subst h; right; refine ⟨_, List.mem_singleton.mpr rfl, rfl, ?_⟩
            simp only [SSt.ev, ev_setR, List.map_cons, ha, h7] <;> try simp [SVal.ev, SFlag.ev, Cfg.get, cpuidOut, bitsOf, BitVec.and_assoc, BitVec.and_allOnes, and_ones, ha, h7]
          · have h1' : ¬ w = 1#32 := h1
            have h7' : ¬ w = 7#32 := h7
            simp [h1', h7'] at h
      | fld f m => simp [ha] at h
      | sym s => simp [ha] at h
      | junk => simp [ha] at h
    | xgetbv => simp at h; subst h; right; refine ⟨_, List.mem_singleton.mpr rfl, rfl, ?_⟩; simp only [SSt.ev, ev_setR, List.map_cons] <;> try simp [SVal.ev, SFlag.ev, Cfg.get, cpuidOut, bitsOf, BitVec.and_assoc, BitVec.and_allOnes, and_ones]
    | xorSelf r => simp at h; subst h; right; refine ⟨_, List.mem_singleton.mpr rfl, rfl, ?_⟩; simp only [SSt.ev, ev_setR, List.map_cons] <;> try simp [SVal.ev, SFlag.ev, Cfg.get, cpuidOut, bitsOf, BitVec.and_assoc, BitVec.and_allOnes, and_ones]
    | andImm r k =>
      cases hr : σ.regs r with
      | fld f m =>
        simp [hr] at h; subst h; right; refine ⟨_, List.mem_singleton.mpr rfl, rfl, ?_⟩
        simp only [SSt.ev, ev_setR, List.map_cons, hr] <;> try simp [SVal.ev, SFlag.ev, Cfg.get, cpuidOut, bitsOf, BitVec.and_assoc, BitVec.and_allOnes, and_ones, hr] <;> first | rfl | congr | skip
      | const w => simp [hr] at h
      | sym s => simp [hr] at h
      | junk => simp [hr] at h
    | testImm r k =>
      cases hr : σ.regs r with
      | fld f m =>
        simp [hr] at h; subst h; right; refine ⟨_, List.mem_singleton.mpr rfl, rfl, ?_⟩
        simp only [SSt.ev, ev_setR, List.map_cons, hr] <;> try simp [SVal.ev, SFlag.ev, Cfg.get, cpuidOut, bitsOf, BitVec.and_assoc, BitVec.and_allOnes, and_ones, hr] <;> first | rfl | congr | skip
      | const w => simp [hr] at h
      | sym s => simp [hr] at h
      | junk => simp [hr] at h
    | cmpImm r k =>
      cases hr : σ.regs r with
      | fld f m =>
        simp [hr] at h; subst h; right; refine ⟨_, List.mem_singleton.mpr rfl, rfl, ?_⟩
        simp only [SSt.ev, ev_setR, List.map_cons, hr] <;> try simp [SVal.ev, SFlag.ev, Cfg.get, cpuidOut, bitsOf, BitVec.and_assoc, BitVec.and_allOnes, and_ones, hr] <;> first | rfl | congr | skip
      | const w => simp [hr] at h
      | sym s => simp [hr] at h
      | junk => simp [hr] at h
    | jz z t =>
      cases hz : σ.zf with
      | known b =>
        simp [hz] at h; subst h; right; refine ⟨_, List.mem_singleton.mpr rfl, rfl, ?_⟩
        simp only [SSt.ev, hz, SFlag.ev]
      | atom f m c =>
        simp [hz] at h; subst h; right
        by_cases hb : SFlag.ev cfg (SFlag.atom f m c) = z
        · refine ⟨_, List.mem_cons_self, ?_, ?_⟩
          · simp [condHolds, hb]
          · simp only [SSt.ev, hz, hb, if_true]
        · refine ⟨_, List.mem_cons_of_mem _ List.mem_cons_self, ?_, ?_⟩
          · simp only [condHolds]; cases z <;> cases hv : SFlag.ev cfg (SFlag.atom f m c) <;> simp_all
          · simp only [SSt.ev, hz, hb, if_false]
    | jmp t => simp at h; subst h; right; refine ⟨_, List.mem_singleton.mpr rfl, rfl, ?_⟩; simp only [SSt.ev, ev_setR, List.map_cons] <;> try simp [SVal.ev, SFlag.ev, Cfg.get, cpuidOut, bitsOf, BitVec.and_assoc, BitVec.and_allOnes, and_ones]
    | cmov z d r =>
      cases hz : σ.zf with
      | known b =>
        simp [hz] at h; subst h; right; refine ⟨_, List.mem_singleton.mpr rfl, rfl, ?_⟩
        by_cases hb : b = z
        · simp only [SSt.ev, hz, SFlag.ev, hb, if_true, ev_setR]
        · simp only [SSt.ev, hz, SFlag.ev, hb, if_false]
      | atom f m c =>
        simp [hz] at h; subst h; right
        by_cases hb : SFlag.ev cfg (SFlag.atom f m c) = z
        · refine ⟨_, List.mem_cons_self, ?_, ?_⟩
          · simp [condHolds, hb]
          · simp only [SSt.ev, hz, hb, if_true, ev_setR]
        · refine ⟨_, List.mem_cons_of_mem _ List.mem_cons_self, ?_, ?_⟩
          · simp only [condHolds]; cases z <;> cases hv : SFlag.ev cfg (SFlag.atom f m c) <;> simp_all
          · simp only [SSt.ev, hz, hb, if_false]
    | push r => simp at h; subst h; right; refine ⟨_, List.mem_singleton.mpr rfl, rfl, ?_⟩; simp only [SSt.ev, ev_setR, List.map_cons] <;> try simp [SVal.ev, SFlag.ev, Cfg.get, cpuidOut, bitsOf, BitVec.and_assoc, BitVec.and_allOnes, and_ones]
    | pop r =>
      cases hs : σ.stack with
      | nil => simp [hs] at h
      | cons v rest =>
        simp [hs] at h; subst h; right; refine ⟨_, List.mem_singleton.mpr rfl, rfl, ?_⟩
        simp only [SSt.ev, ev_setR, List.map_cons, hs] <;> try simp [SVal.ev, SFlag.ev, Cfg.get, cpuidOut, bitsOf, BitVec.and_assoc, BitVec.and_allOnes, and_ones, hs]
    | store r => simp at h; subst h; right; refine ⟨_, List.mem_singleton.mpr rfl, rfl, ?_⟩; simp only [SSt.ev, ev_setR, List.map_cons] <;> try simp [SVal.ev, SFlag.ev, Cfg.get, cpuidOut, bitsOf, BitVec.and_assoc, BitVec.and_allOnes, and_ones]
    | ret => simp at h; subst h; left; simp
    | unsupported => simp at h

theorem holds_addC {cfg : Cfg} {c : Option Cond} {acc : List Cond} (hc : condHolds cfg c = true)
    (ha : holdsAll cfg acc) : holdsAll cfg (addC c acc) := by
  cases c with
  | none => exact ha
  | some x =>
    intro y hy
    simp only [addC, List.mem_cons] at hy
    rcases hy with rfl | hy
    · simpa [condHolds] using hc
    · exact ha y hy

/-- every configuration follows exactly one enumerated path, and that path's final symbolic state
    evaluates to the concrete final state -/
theorem paths_complete (cfg : Cfg) (p : List Instr) :
    ∀ (n : Nat) (σ : SSt) (acc : List Cond) (res : List (List Cond × SSt)),
      paths p n σ acc = some res → holdsAll cfg acc →
      ∃ r ∈ res, holdsAll cfg r.1 ∧ r.2.ev cfg = run cfg p n (σ.ev cfg) := by
  intro n
  induction n with
  | zero =>
    intro σ acc res h ha
    simp [paths] at h; subst h
    exact ⟨_, List.mem_singleton.mpr rfl, ha, rfl⟩
  | succ n ih =>
    intro σ acc res h ha
    simp only [paths] at h
    cases hs : sstep p σ with
    | none => simp [hs] at h
    | some brs =>
      have hex := sstep_exact cfg p σ brs hs
      rw [hs] at h
      match brs, h, hex with
      | [], h, hex =>
        simp at h; subst h
        rcases hex with ⟨_, hnone⟩ | ⟨br, hm, _⟩
        · exact ⟨_, List.mem_singleton.mpr rfl, ha, by simp [run, hnone]⟩
        · cases hm
      | [(c, σ1)], h, hex =>
        simp only at h
        rcases hex with ⟨hnil, _⟩ | ⟨br, hm, hc, hstep⟩
        · cases hnil
        · have : br = (c, σ1) := by simpa using hm
          subst this
          obtain ⟨r, hr, h1, h2⟩ := ih σ1 _ res h (holds_addC hc ha)
          exact ⟨r, hr, h1, by simp [run, hstep, h2]⟩
      | [(c1, σ1), (c2, σ2)], h, hex =>
        simp only at h
        cases h1 : paths p n σ1 (addC c1 acc) with
        | none => simp [h1] at h
        | some l1 =>
          cases h2 : paths p n σ2 (addC c2 acc) with
          | none => simp [h1, h2] at h
          | some l2 =>
            simp [h1, h2] at h; subst h
            rcases hex with ⟨hnil, _⟩ | ⟨br, hm, hc, hstep⟩
            · cases hnil
            · simp only [List.mem_cons, List.mem_nil_iff, or_false] at hm
              rcases hm with rfl | rfl
              · obtain ⟨r, hr, q1, q2⟩ := ih σ1 _ l1 h1 (holds_addC hc ha)
                exact ⟨r, List.mem_append_left _ hr, q1, by simp [run, hstep, q2]⟩
              · obtain ⟨r, hr, q1, q2⟩ := ih σ2 _ l2 h2 (holds_addC hc ha)
                exact ⟨r, List.mem_append_right _ hr, q1, by simp [run, hstep, q2]⟩
      | _ :: _ :: _ :: _, h, _ => simp at h


end IsalVerif.Dispatch
