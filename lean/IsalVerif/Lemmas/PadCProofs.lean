import IsalVerif.Impl.PadC
import IsalVerif.Lemmas.Pad
import IsalVerif.Lemmas.PadSpec
/-! Soundness of the `hash_pad` skeleton: any program of that statement shape whose four expressions satisfy the
    semantic side conditions computes exactly the model's `hashPad`, for every total and every previous content of
    the pad buffer. -/
namespace IsalVerif.PadC
open IsalVerif.HashMB

theorem poke_length (buf : Bytes) (off : Nat) (v : Bytes) (h : off + v.length ≤ buf.length) :
    (poke buf off v).length = buf.length := by
  simp [poke]; omega

theorem poke_get (buf : Bytes) (off : Nat) (v : Bytes) (h : off + v.length ≤ buf.length) (j : Nat) :
    (poke buf off v)[j]? = if j < off then buf[j]? else if j < off + v.length then v[j - off]? else buf[j]? := by
  unfold poke
  by_cases h1 : j < off
  · simp only [h1, if_true]
    rw [List.append_assoc, List.getElem?_append_left (by simp; omega), List.getElem?_take]; simp [h1]
  · simp only [h1, if_false]
    rw [List.append_assoc, List.getElem?_append_right (by simp; omega)]
    have ht : (List.take off buf).length = off := by simp; omega
    rw [ht]
    by_cases h2 : j < off + v.length
    · simp only [h2, if_true]
      rw [List.getElem?_append_left (by omega)]
    · simp only [h2, if_false]
      rw [List.getElem?_append_right (by omega), List.getElem?_drop]
      congr 1; omega

/-- arithmetic facts about where the padding ends; both parameter sets of the library satisfy them
    (`facts64`, `facts128`) -/
structure Facts (B L : Nat) (t : Nat) : Prop where
  i0_lt : t % 2^64 &&& (B - 1) < B
  lo : (t % 2^64 &&& (B - 1)) + 1 + L ≤ padEnd B L t
  hi : padEnd B L t ≤ (t % 2^64 &&& (B - 1)) + B + L
  le2 : padEnd B L t ≤ 2 * B
  dvd : padEnd B L t % B = 0
  lt32 : padEnd B L t < 2^32

theorem facts64 (t : Nat) : Facts 64 8 t := by
  have key : padEnd 64 8 t = t % 2^64 % 64 + (2^64 - (t + 8 + 1) % 2^64) % 2^64 % 64 + 1 + 8 := by
    simp only [padEnd]
    rw [show (64 - 1 : Nat) = 63 from rfl, Nat.and_comm 63, and63, and63]
  have k2 : t % 2^64 &&& (64 - 1) = t % 2^64 % 64 := by rw [show (64 - 1 : Nat) = 63 from rfl, and63]
  constructor <;> (try rw [k2]) <;> (try rw [key]) <;> omega

theorem facts128 (t : Nat) : Facts 128 16 t := by
  have key : padEnd 128 16 t = t % 2^64 % 128 + (2^64 - (t + 16 + 1) % 2^64) % 2^64 % 128 + 1 + 16 := by
    simp only [padEnd]
    rw [show (128 - 1 : Nat) = 127 from rfl, Nat.and_comm 127, and127, and127]
  have k2 : t % 2^64 &&& (128 - 1) = t % 2^64 % 128 := by rw [show (128 - 1 : Nat) = 127 from rfl, and127]
  constructor <;> (try rw [k2]) <;> (try rw [key]) <;> omega

theorem natLE8_zero : natLE 8 0 = List.replicate 8 0 := by
  simp [natLE, List.range, List.range.loop, List.replicate]

theorem natLE_length (k n : Nat) : (natLE k n).length = k := by simp [natLE]
theorem natBE_length' (k n : Nat) : (natBE k n).length = k := by simp [natBE]

/-- semantic side conditions on the four expressions of a `hash_pad` -/
structure ExprOk (B L : Nat) (lenBE : Bool) (e0 e1 e2 e3 : E) : Prop where
  h0 : ∀ t, e0.eval t 0 % 2^32 = t % 2^64 &&& (B - 1)
  h1 : ∀ t, ((t % 2^64 &&& (B - 1)) + e1.eval t (t % 2^64 &&& (B - 1))) % 2^32 = padEnd B L t
  h2 : ∀ t i, natLE 8 (e2.eval t i) = if lenBE then natBE 8 ((t * 8) % 2^64) else natLE 8 ((t * 8) % 2^64)
  h3 : ∀ t, e3.eval t (padEnd B L t) = padEnd B L t / B

theorem sub_lit_eval (t i k : Nat) (hi : i < 2^32) (hk : k ≤ i) (hk2 : k < 2^32) :
    (E.trunc 32 (.sub .i (.lit k))).eval t i = i - k := by
  simp only [E.eval]
  have h1 : i % 2^32 = i := Nat.mod_eq_of_lt hi
  have h2 : k % 2^64 = k := Nat.mod_eq_of_lt (by omega)
  rw [h1, h2, h2]
  omega

/-! ### single steps -/
theorem step_memclr (t : Nat) (s : St) (n : Nat) (h : s.i % 2^32 + n ≤ s.buf.length) :
    step t s (.memclr .i n) = { s with buf := poke s.buf (s.i % 2^32) (List.replicate n 0) } := by
  simp only [step, E.eval, h, if_true]

theorem step_setByte (t : Nat) (s : St) (v : Nat) (h : s.i % 2^32 + 1 ≤ s.buf.length) :
    step t s (.setByte .i v) = { s with buf := poke s.buf (s.i % 2^32) [UInt8.ofNat v] } := by
  simp only [step, E.eval, h, if_true]

theorem step_store64 (t i : Nat) (b : Bytes) (off v : E) (h : off.eval t i + 8 ≤ b.length) :
    step t { i := i, buf := b } (.store64 off v) =
      { i := i, buf := poke b (off.eval t i) (natLE 8 (v.eval t i)) } := by
  simp only [step, h, if_true]

/-- the final buffer, pointwise -/
theorem final_take (B L i0 e : Nat) (hi : Bool) (buf lenField : Bytes) (hbuf : buf.length = 2 * B)
    (hL : (hi = false ∧ L = 8) ∨ (hi = true ∧ L = 16)) (hlf : lenField.length = 8)
    (i0lt : i0 < B) (lo : i0 + 1 + L ≤ e) (hi' : e ≤ i0 + B + L) (le2 : e ≤ 2 * B) :
    let b2 := poke (poke buf i0 (List.replicate B 0)) i0 [UInt8.ofNat 0x80]
    let b3 := if hi then poke b2 (e - 16) (List.replicate 8 0) else b2
    (poke b3 (e - 8) lenField).take e =
      buf.take i0 ++ (0x80 : UInt8) :: List.replicate (e - i0 - 1 - 8) 0 ++ lenField := by
  intro b2 b3
  have hb1 : (poke buf i0 (List.replicate B 0)).length = 2 * B := by
    rw [poke_length _ _ _ (by simp; omega)]; exact hbuf
  have hb2 : b2.length = 2 * B := by
    simp only [b2]; rw [poke_length _ _ _ (by simp; omega)]; exact hb1
  have hb3 : b3.length = 2 * B := by
    simp only [b3]; split
    · rw [poke_length _ _ _ (by simp; omega)]; exact hb2
    · exact hb2
  have hb4 : (poke b3 (e - 8) lenField).length = 2 * B := by
    rw [poke_length _ _ _ (by rw [hlf]; omega)]; exact hb3
  apply List.ext_getElem?
  intro j
  by_cases hj : j < e
  · rw [List.getElem?_take_of_lt hj, poke_get _ _ _ (by rw [hlf]; omega)]
    have hb2get : ∀ k, b2[k]? = if k < i0 then buf[k]? else if k < i0 + 1 then some (0x80 : UInt8)
        else if k < i0 + B then some 0 else buf[k]? := by
      intro k
      simp only [b2]
      rw [poke_get _ _ _ (by simp; omega), poke_get _ _ _ (by simp; omega)]
      simp only [List.length_cons, List.length_nil, List.length_replicate]
      by_cases h1 : k < i0
      · simp [h1]
      · by_cases h2 : k < i0 + 1
        · have : k = i0 := by omega
          simp [this]
        · by_cases h3 : k < i0 + B
          · simp only [h1, h2, h3, if_true, if_false]
            rw [List.getElem?_replicate]; simp; omega
          · simp [h1, h2, h3]
    have hb3get : ∀ k, k < e - 8 → b3[k]? = if k < i0 then buf[k]? else if k < i0 + 1 then some (0x80 : UInt8)
        else some 0 := by
      intro k hk
      simp only [b3]
      cases hi with
      | false =>
        simp only [Bool.false_eq_true, if_false]
        rw [hb2get]
        have : L = 8 := by rcases hL with ⟨_, h⟩ | ⟨h, _⟩ <;> simp_all
        by_cases h1 : k < i0
        · simp [h1]
        · by_cases h2 : k < i0 + 1
          · simp [h1, h2]
          · have h3 : k < i0 + B := by omega
            simp [h1, h2, h3]
      | true =>
        simp only [if_true]
        have : L = 16 := by rcases hL with ⟨h, _⟩ | ⟨_, h⟩ <;> simp_all
        rw [poke_get _ _ _ (by simp; omega), hb2get]
        simp only [List.length_replicate]
        by_cases h0 : k < e - 16
        · have h3 : k < i0 + B := by omega
          by_cases h1 : k < i0
          · simp [h0, h1]
          · by_cases h2 : k < i0 + 1
            · simp [h0, h1, h2]
            · simp [h0, h1, h2, h3]
        · have h1 : ¬ k < i0 := by omega
          have h2 : ¬ k < i0 + 1 := by omega
          have h4 : k < e - 16 + 8 := by omega
          simp only [h0, h1, h2, h4, if_true, if_false]
          rw [List.getElem?_replicate]; simp; omega
    by_cases h8 : j < e - 8
    · simp only [h8, if_true]
      rw [hb3get j h8]
      by_cases h1 : j < i0
      · simp only [h1, if_true]
        rw [List.append_assoc, List.getElem?_append_left (by simp; omega), List.getElem?_take]; simp [h1]
      · simp only [h1, if_false]
        rw [List.append_assoc, List.getElem?_append_right (by simp; omega)]
        have ht : (List.take i0 buf).length = i0 := by simp; omega
        rw [ht]
        by_cases h2 : j < i0 + 1
        · have : j = i0 := by omega
          simp [this]
        · simp only [h2, if_false]
          have : j - i0 = (j - i0 - 1) + 1 := by omega
          rw [this, List.cons_append, List.getElem?_cons_succ, List.getElem?_append_left (by simp; omega),
            List.getElem?_replicate]
          simp; omega
    · simp only [h8, if_false]
      have h9 : j < e - 8 + lenField.length := by rw [hlf]; omega
      simp only [h9, if_true]
      rw [List.append_assoc, List.getElem?_append_right (by simp; omega)]
      have ht : (List.take i0 buf).length = i0 := by simp; omega
      rw [ht]
      have : j - i0 = (j - i0 - 1) + 1 := by omega
      rw [this, List.cons_append, List.getElem?_cons_succ, List.getElem?_append_right (by simp; omega)]
      simp only [List.length_replicate]
      congr 1; omega
  · rw [List.getElem?_eq_none (by simp; omega), List.getElem?_eq_none]
    simp [hlf]; omega


theorem skeleton_correct (B L : Nat) (lenBE hi : Bool) (e0 e1 e2 e3 : E)
    (hL : (hi = false ∧ L = 8) ∨ (hi = true ∧ L = 16))
    (hF : ∀ t, Facts B L t) (hE : ExprOk B L lenBE e0 e1 e2 e3)
    (t : Nat) (buf : Bytes) (hbuf : buf.length = 2 * B) :
    result B (skeleton B hi e0 e1 e2 e3) t buf = some (hashPad B L lenBE buf t) := by
  obtain ⟨i0lt, lo, hi', le2, dvd, lt32⟩ := hF t
  have h0 := hE.h0 t
  have h1 := hE.h1 t
  have h2 := hE.h2 t
  have h3 := hE.h3 t
  have hpe : padEnd B L t = padEnd B L t := rfl
  unfold hashPad
  simp only []
  generalize hi0 : (t % 2^64 &&& (B - 1)) = i0 at *
  generalize he : padEnd B L t = e at *
  have hi0mod : i0 % 2^32 = i0 := Nat.mod_eq_of_lt (by omega)
  have hemod : e % 2^32 = e := Nat.mod_eq_of_lt lt32
  have hL8 : 8 ≤ L := by rcases hL with ⟨_, h⟩ | ⟨_, h⟩ <;> omega
  generalize hlf : (if lenBE = true then natBE 8 (t * 8 % 2 ^ 64) else natLE 8 (t * 8 % 2 ^ 64)) = lenField at *
  have hlfl : lenField.length = 8 := by
    rw [← hlf]; split <;> simp [natBE_length', natLE_length]
  have hb1 : (poke buf i0 (List.replicate B 0)).length = 2 * B := by
    rw [poke_length _ _ _ (by simp; omega)]; exact hbuf
  have hb2 : (poke (poke buf i0 (List.replicate B 0)) i0 [UInt8.ofNat 0x80]).length = 2 * B := by
    rw [poke_length _ _ _ (by simp; omega)]; exact hb1
  have hsub8 : (E.trunc 32 (.sub .i (.lit 8))).eval t e = e - 8 :=
    sub_lit_eval _ _ _ lt32 (by omega) (by decide)
  have hft := final_take B L i0 e hi buf lenField hbuf hL hlfl i0lt lo hi' le2
  simp only [] at hft
  have hdiv : e / B * B = e := by
    have := Nat.div_add_mod e B; rw [dvd] at this; rw [Nat.mul_comm]; omega
  -- run the program
  cases hi with
  | false =>
    simp only [Bool.false_eq_true, if_false] at hft
    have hrun : exec (skeleton B false e0 e1 e2 e3) t buf =
        { i := e, buf := poke (poke (poke buf i0 (List.replicate B 0)) i0 [UInt8.ofNat 0x80]) (e - 8) lenField,
          ret := some (e / B), bad := false } := by
      simp only [exec, skeleton, Bool.false_eq_true, if_false, List.append_nil, List.cons_append, List.nil_append,
        List.foldl]
      have s1 : step t { buf := buf } (.declI e0) = { i := i0, buf := buf } := by simp only [step, h0]
      rw [s1, step_memclr _ _ _ (by simp only [hi0mod, hbuf]; omega)]
      simp only [hi0mod]
      rw [step_setByte _ _ _ (by simp only [hi0mod, hb1]; omega)]
      simp only [hi0mod]
      have s4 : ∀ b : Bytes, step t { i := i0, buf := b } (.addI e1) = { i := e, buf := b } := by
        intro b; simp only [step, h1]
      rw [s4, step_store64 _ _ _ _ _ (by rw [hsub8, hb2]; omega)]
      simp only [hsub8, h2 e, step, h3]
    simp only [result, hrun, Bool.false_eq_true, if_false]
    refine congrArg some ?_
    rw [blocks_take B (e / B) _ (by rw [hdiv, poke_length _ _ _ (by rw [hlfl, hb2]; omega), hb2]; exact le2), hdiv, hft]
  | true =>
    simp only [if_true] at hft
    have hL16 : L = 16 := by rcases hL with ⟨h, _⟩ | ⟨_, h⟩ <;> simp_all
    have hsub16 : (E.trunc 32 (.sub .i (.lit 16))).eval t e = e - 16 :=
      sub_lit_eval _ _ _ lt32 (by omega) (by decide)
    have hb3 : (poke (poke (poke buf i0 (List.replicate B 0)) i0 [UInt8.ofNat 0x80]) (e - 16)
        (List.replicate 8 0)).length = 2 * B := by
      rw [poke_length _ _ _ (by simp only [List.length_replicate, hb2]; omega)]; exact hb2
    have hrun : exec (skeleton B true e0 e1 e2 e3) t buf =
        { i := e, buf := poke (poke (poke (poke buf i0 (List.replicate B 0)) i0 [UInt8.ofNat 0x80]) (e - 16)
            (List.replicate 8 0)) (e - 8) lenField,
          ret := some (e / B), bad := false } := by
      simp only [exec, skeleton, if_true, List.append_nil, List.cons_append, List.nil_append, List.foldl]
      have s1 : step t { buf := buf } (.declI e0) = { i := i0, buf := buf } := by simp only [step, h0]
      rw [s1, step_memclr _ _ _ (by simp only [hi0mod, hbuf]; omega)]
      simp only [hi0mod]
      rw [step_setByte _ _ _ (by simp only [hi0mod, hb1]; omega)]
      simp only [hi0mod]
      have s4 : ∀ b : Bytes, step t { i := i0, buf := b } (.addI e1) = { i := e, buf := b } := by
        intro b; simp only [step, h1]
      rw [s4, step_store64 _ _ _ _ _ (by rw [hsub16, hb2]; omega)]
      simp only [hsub16]
      have hz : natLE 8 ((E.lit 0).eval t e) = List.replicate 8 0 := by
        simp only [E.eval]; exact natLE8_zero
      rw [hz, step_store64 _ _ _ _ _ (by rw [hsub8, hb3]; omega)]
      simp only [hsub8, h2 e, step, h3]
    simp only [result, hrun, Bool.false_eq_true, if_false]
    refine congrArg some ?_
    rw [blocks_take B (e / B) _ (by rw [hdiv, poke_length _ _ _ (by rw [hlfl, hb3]; omega), hb3]; exact le2), hdiv, hft]


/-! ### the expressions written in the source today satisfy the side conditions -/

theorem ofNat8_congr (a b : Nat) (h : a % 256 = b % 256) : UInt8.ofNat a = UInt8.ofNat b := by
  apply UInt8.toNat_inj.mp
  simp [UInt8.toNat_ofNat']
  exact h

/-- `__builtin_bswap64` followed by a little-endian store writes the big-endian bytes -/
theorem natLE_bswap (x : Nat) : natLE 8 (bswapNat x) = natBE 8 x := by
  simp only [natLE, natBE, bswapNat, List.range, List.range.loop, List.map, List.foldl]
  simp only [Nat.reducePow, Nat.reduceSub, Nat.zero_mul, Nat.zero_add, Nat.div_one]
  simp only [List.cons.injEq, and_true]
  have h0 := Nat.mod_lt (x) (show 0 < 256 by decide)
  have h1 := Nat.mod_lt (x / 256) (show 0 < 256 by decide)
  have h2 := Nat.mod_lt (x / 65536) (show 0 < 256 by decide)
  have h3 := Nat.mod_lt (x / 16777216) (show 0 < 256 by decide)
  have h4 := Nat.mod_lt (x / 4294967296) (show 0 < 256 by decide)
  have h5 := Nat.mod_lt (x / 1099511627776) (show 0 < 256 by decide)
  have h6 := Nat.mod_lt (x / 281474976710656) (show 0 < 256 by decide)
  have h7 := Nat.mod_lt (x / 72057594037927936) (show 0 < 256 by decide)
  refine ⟨?_, ?_, ?_, ?_, ?_, ?_, ?_, ?_⟩ <;> apply ofNat8_congr <;>
    (generalize x % 256 = b0 at *
     generalize x / 256 % 256 = b1 at *
     generalize x / 65536 % 256 = b2 at *
     generalize x / 16777216 % 256 = b3 at *
     generalize x / 4294967296 % 256 = b4 at *
     generalize x / 1099511627776 % 256 = b5 at *
     generalize x / 281474976710656 % 256 = b6 at *
     generalize x / 72057594037927936 % 256 = b7 at *
     omega)

theorem e2_ok (lenBE : Bool) (t i : Nat) :
    natLE 8 ((e2Canon lenBE).eval t i) = if lenBE then natBE 8 ((t * 8) % 2^64) else natLE 8 ((t * 8) % 2^64) := by
  cases lenBE with
  | true =>
    simp only [e2Canon, if_true, E.eval, natLE_bswap]
    congr 1; omega
  | false =>
    simp only [e2Canon, Bool.false_eq_true, if_false, E.eval]
    congr 1; omega

theorem canon64 (lenBE : Bool) : ExprOk 64 8 lenBE (e0Canon 64) (e1Canon 64 8) (e2Canon lenBE) (e3Canon 6) where
  h0 := by
    intro t
    simp only [e0Canon, E.eval, Nat.reduceSub, Nat.reduceMod, Nat.reducePow, and63]
    omega
  h1 := by
    intro t
    simp only [e1Canon, E.eval, padEnd, Nat.reduceSub, Nat.reduceMod, Nat.reducePow, Nat.and_comm 63, and63]
    omega
  h2 := e2_ok lenBE
  h3 := by
    intro t
    have := (facts64 t).lt32
    simp only [e3Canon, E.eval]
    rw [Nat.mod_eq_of_lt this]

theorem canon128 : ExprOk 128 16 true (e0Canon 128) (e1Canon 128 16) (e2Canon true) (e3Canon 7) where
  h0 := by
    intro t
    simp only [e0Canon, E.eval, Nat.reduceSub, Nat.reduceMod, Nat.reducePow, and127]
    omega
  h1 := by
    intro t
    simp only [e1Canon, E.eval, padEnd, Nat.reduceSub, Nat.reduceMod, Nat.reducePow, Nat.and_comm 127, and127]
    omega
  h2 := e2_ok true
  h3 := by
    intro t
    have := (facts128 t).lt32
    simp only [e3Canon, E.eval]
    rw [Nat.mod_eq_of_lt this]

/-- the source-level theorem: a file whose `hash_pad` is the skeleton with today's expressions computes the model's
    `hashPad` for every total and every previous content of the buffer -/
def canonProg (B L lg : Nat) (lenBE : Bool) : List S :=
  skeleton B (L == 16) (e0Canon B) (e1Canon B L) (e2Canon lenBE) (e3Canon lg)

theorem canon64_correct (lenBE : Bool) (t : Nat) (buf : Bytes) (hbuf : buf.length = 128) :
    result 64 (canonProg 64 8 6 lenBE) t buf = some (hashPad 64 8 lenBE buf t) :=
  skeleton_correct 64 8 lenBE false _ _ _ _ (Or.inl ⟨rfl, rfl⟩) facts64 (canon64 lenBE) t buf hbuf

theorem canon128_correct (t : Nat) (buf : Bytes) (hbuf : buf.length = 256) :
    result 128 (canonProg 128 16 7 true) t buf = some (hashPad 128 16 true buf t) :=
  skeleton_correct 128 16 true true _ _ _ _ (Or.inr ⟨rfl, rfl⟩) facts128 canon128 t buf hbuf

/-- the result does not depend on what the buffer held beyond the stream tail (C20's clause for `hash_pad`) -/
theorem hashPad_junk (B L : Nat) (lenBE : Bool) (part junk junk' : Bytes) (t : Nat)
    (hp : part.length = t % 2^64 &&& (B - 1)) :
    hashPad B L lenBE (part ++ junk) t = hashPad B L lenBE (part ++ junk') t := by
  simp only [hashPad, ← hp, List.take_left']

end IsalVerif.PadC
