import IsalVerif.Lemmas.SelfTestGenericSim
/-!
# C17, portable implementation — liveness of the instruction-level machine

Transports `all_finish` to the machine: under a schedule that keeps scheduling every thread that has not
returned, all threads return from `isal_self_tests`.  Same proof as `Lemmas/SelfTestLive.lean`: the machine
run is paired with an abstract run (`jrun`); the abstract potential never increases and drops at every
visible instruction except the load of a thread waiting on RUNNING; `localBound` bounds the thread-local
instructions between two visible ones (the wait loop contains `call usleep`, modelled as one terminating
thread-local step, and re-reads the status word); a waiting thread implies a winner, which is never blocked.
-/
namespace IsalVerif.SelfTestGeneric
open IsalVerif.SelfTest (get_set set_get_self set_get_ne mod2_mem)

/-- machine state paired with the abstract state that represents it -/
structure JG where
  c : CG
  a : G

/-- thread `i` executes one instruction; the abstract thread steps iff the instruction is visible -/
def jfire (P : Program) (j : JG) (i c : Nat) : JG :=
  match j.c.th[i]? with
  | none => j
  | some l =>
    match cstep P l j.c.status (c % 2) with
    | none => j
    | some (l', s', ev) =>
      ⟨⟨s', j.c.gh.apply ev, j.c.th.set i l'⟩,
       if visible P l then fire j.a i c else j.a⟩

def jrun (cfg : List (List Nat)) (P : Program) (n : Nat) (σ o : Nat → Nat) : Nat → JG
  | 0 => ⟨CG.init P n, G.init cfg n⟩
  | t+1 => jfire P (jrun cfg P n σ o t) (σ t) (o t)

theorem jfire_c (P : Program) (j : JG) (i c : Nat) : (jfire P j i c).c = cfire P j.c i (c % 2) := by
  cases h1 : j.c.th[i]? with
  | none => simp only [jfire, cfire, h1]
  | some l =>
    cases h2 : cstep P l j.c.status (c % 2) with
    | none => simp only [jfire, cfire, h1, h2]
    | some r => obtain ⟨l', s', ev⟩ := r; simp only [jfire, cfire, h1, h2]

theorem jrun_c (cfg : List (List Nat)) (P : Program) (n : Nat) (σ o : Nat → Nat) (t : Nat) : (jrun cfg P n σ o t).c = crun P n σ o t := by
  induction t with
  | zero => rfl
  | succ t ih => show (jfire P _ _ _).c = cfire P _ _ _; rw [jfire_c, ih]

/-- threads other than the scheduled one keep their machine state -/
theorem jfire_other (P : Program) (j : JG) {i k : Nat} (c : Nat) (h : k ≠ i) :
    (jfire P j i c).c.th[k]? = j.c.th[k]? := by
  cases h1 : j.c.th[i]? with
  | none => simp only [jfire, h1]
  | some l =>
    cases h2 : cstep P l j.c.status (c % 2) with
    | none => simp only [jfire, h1, h2]
    | some r => obtain ⟨l', s', ev⟩ := r; simp only [jfire, h1, h2]; exact set_get_ne h

/-- the abstract potential drops or the abstract state is unchanged -/
theorem jfire_pot (P : Program) (j : JG) (i c : Nat) :
    pot (jfire P j i c).a.th < pot j.a.th ∨ (jfire P j i c).a = j.a := by
  cases h1 : j.c.th[i]? with
  | none => right; simp only [jfire, h1]
  | some l =>
    cases h2 : cstep P l j.c.status (c % 2) with
    | none => right; simp only [jfire, h1, h2]
    | some r =>
      obtain ⟨l', s', ev⟩ := r
      by_cases hv : visible P l = true
      · simp only [jfire, h1, h2, hv, if_true]
        rcases fire_pot j.a i c with h | ⟨h, _⟩
        · left; exact h
        · right; exact h
      · right; simp only [jfire, h1, h2, hv]; rfl

theorem localBound_step {P : Program} {k : Nat} {e e' : Local × PC} {s v : Nat}
    (hb : localBound P (k+1) e = true) (hr : e.1.res = none) (hvis : visible P e.1 = false)
    (hs : s ∈ statusDom) (hv : v ∈ outcomeDom) (hstep : simStep P e s v = some e') :
    localBound P k e' = true := by
  simp only [localBound, hr, hvis, Option.isSome_none, Bool.false_or] at hb
  split at hb
  · rename_i e0 _
    simp only [Bool.and_eq_true, List.all_eq_true, beq_iff_eq] at hb
    have := hb.1 s hs v hv
    rw [hstep] at this
    cases this
    exact hb.2
  · cases hb

/-- What one scheduled instruction does, for related states: nothing (thread absent or returned), a
    thread-local instruction (abstract state unchanged, relation kept), or a visible instruction (the
    abstract thread fires). -/
theorem jfire_spec {cfg : List (List Nat)} {P : Program} {S : List (Local × PC)} (hc : closed cfg P S = true) {j : JG}
    (hR : Rel S j.c j.a) (hinv : PInv j.a) (i c : Nat) :
    (jfire P j i c = j ∧ ∀ l, j.c.th[i]? = some l → ∃ v, l.res = some v) ∨
    (∃ l l' p p', j.c.th[i]? = some l ∧ j.a.th[i]? = some p ∧ (l, p) ∈ S ∧ l.res = none ∧ (l', p') ∈ S ∧
      (jfire P j i c).c.th = j.c.th.set i l' ∧ Rel S (jfire P j i c).c (jfire P j i c).a ∧
      ((visible P l = false ∧ p' = p ∧ (jfire P j i c).a = j.a ∧
          simStep P (l, p) j.c.status (c % 2) = some (l', p)) ∨
       (visible P l = true ∧ (jfire P j i c).a = fire j.a i c ∧ (jfire P j i c).a.th[i]? = some p' ∧
          (fire j.a i c = j.a ∨ Step [0, 1] j.a (fire j.a i c))))) := by
  cases hi : j.c.th[i]? with
  | none => left; exact ⟨by simp [jfire, hi], fun l hl => by cases hl⟩
  | some l =>
    obtain ⟨p, hp, hmem⟩ := hR.th i l hi
    have hpair := closed_pair hc hmem
    cases hres : l.res with
    | some v0 =>
      left
      refine ⟨?_, fun l' hl' => by cases hl'; exact ⟨v0, hres⟩⟩
      have : cstep P l j.c.status (c % 2) = none := by simp [cstep, hres]
      simp [jfire, hi, this]
    | none =>
      right
      have hst : j.c.status ∈ statusDom := mem_statusDom (by rw [hR.status]; exact hinv.st)
      have hvv : c % 2 ∈ outcomeDom := mem_outcomeDom (by omega)
      obtain ⟨⟨l', p'⟩, hsim, hmem'⟩ := pairOk_step hpair hres hst hvv
      obtain ⟨s', ev, hstep, hcase⟩ := simStep_spec hsim
      have hj : jfire P j i c = ⟨⟨s', j.c.gh.apply ev, j.c.th.set i l'⟩,
          if visible P l then fire j.a i c else j.a⟩ := by simp [jfire, hi, hstep]
      refine ⟨l, l', p, p', rfl, hp, hmem, hres, hmem', by rw [hj], ?_, ?_⟩
      · -- the relation is kept
        rcases hcase with ⟨hvis, rfl, rfl, rfl⟩ | ⟨hvis, o, ht, rfl, rfl, rfl⟩
        · rw [hj]; simp only [hvis, Bool.false_eq_true, if_false]
          refine ⟨hR.status, by simpa using hR.gh, ?_⟩
          intro k lk hk
          rcases get_set hk with ⟨rfl, rfl⟩ | ⟨_, hk'⟩
          · exact ⟨p', hp, hmem'⟩
          · exact hR.th k lk hk'
        · rw [hR.status] at ht
          have hf : fire j.a i c = j.a.apply i p o := by simp [fire, fireWith, hp, ht]
          rw [hj]; simp only [hvis, if_true, hf]
          refine ⟨rfl, ?_, ?_⟩
          · show j.c.gh.apply _ = j.a.gh.apply _; rw [hR.gh]
          · intro k lk hk
            rcases get_set hk with ⟨rfl, rfl⟩ | ⟨hne, hk'⟩
            · exact ⟨o.pc, set_get_self hp, hmem'⟩
            · obtain ⟨q, hq, hqm⟩ := hR.th k lk hk'
              exact ⟨q, by show (j.a.th.set i o.pc)[k]? = some q; rw [set_get_ne hne]; exact hq, hqm⟩
      · rcases hcase with ⟨hvis, rfl, rfl, rfl⟩ | ⟨hvis, o, ht, rfl, rfl, rfl⟩
        · left; exact ⟨hvis, rfl, by rw [hj]; simp [hvis], hsim⟩
        · right
          rw [hR.status] at ht
          have hf : fire j.a i c = j.a.apply i p o := by simp [fire, fireWith, hp, ht]
          refine ⟨hvis, by rw [hj]; simp [hvis], ?_, fire_step j.a i c⟩
          rw [hj]; simp only [hvis, if_true, hf]
          exact set_get_self hp

/-- the pairing invariant -/
structure JInv (cfg : List (List Nat)) (S : List (Local × PC)) (n : Nat) (j : JG) : Prop where
  rel : Rel S j.c j.a
  reach : Reach cfg [0, 1] n j.a
  len : j.c.th.length = n

theorem jfire_inv {cfg : List (List Nat)} {P : Program} {S : List (Local × PC)} (hc : closed cfg P S = true) {n : Nat} {j : JG}
    (h : JInv cfg S n j) (i c : Nat) : JInv cfg S n (jfire P j i c) := by
  have hinv := reach_inv (closed_init hc).2.1 h.reach
  rcases jfire_spec hc h.rel hinv i c with ⟨he, _⟩ | ⟨l, l', p, p', _, _, _, _, _, hth, hrel, hcase⟩
  · rw [he]; exact h
  · refine ⟨hrel, ?_, by rw [hth, List.length_set]; exact h.len⟩
    rcases hcase with ⟨_, _, ha, _⟩ | ⟨_, ha, _, hst⟩
    · rw [ha]; exact h.reach
    · rw [ha]
      rcases hst with he | hs
      · rw [he]; exact h.reach
      · exact Reach.step h.reach hs

theorem jrun_inv {cfg : List (List Nat)} {P : Program} {S : List (Local × PC)} (hc : closed cfg P S = true) (n : Nat) (σ o : Nat → Nat)
    (t : Nat) : JInv cfg S n (jrun cfg P n σ o t) := by
  induction t with
  | zero => exact ⟨rel_init hc n, Reach.init, by simp [jrun, CG.init]⟩
  | succ t ih => exact jfire_inv hc ih _ _

/-- a thread that has not returned abstractly has not returned on the machine, and is within `localFuel`
    thread-local instructions of a visible one -/
theorem rel_unfinished {cfg : List (List Nat)} {P : Program} {S : List (Local × PC)} (hc : closed cfg P S = true) {l : Local} {p : PC}
    (hmem : (l, p) ∈ S) (hnd : notDone p = true) : l.res = none ∧ localBound P localFuel (l, p) = true := by
  have hpair := closed_pair hc hmem
  cases hres : l.res with
  | some v =>
    have := pairOk_res hpair hres
    simp only at this; subst this; simp [notDone] at hnd
  | none => exact ⟨rfl, (pairOk_live hpair hres).2⟩

section
variable {cfg : List (List Nat)} {P : Program} {S : List (Local × PC)} (hc : closed cfg P S = true) (n : Nat) (σ o : Nat → Nat)
include hc

/-- the pair of thread `k` at time `t` -/
theorem thread_pair (t k : Nat) {l : Local} (hl : (jrun cfg P n σ o t).c.th[k]? = some l) :
    ∃ p, (jrun cfg P n σ o t).a.th[k]? = some p ∧ (l, p) ∈ S :=
  (jrun_inv hc n σ o t).rel.th k l hl

/-- progress of thread `j` from instant `t`: the potential drops, or `j` is scheduled at a visible
    instruction while the abstract state is still the one of instant `t` -/
def Progress (cfg : List (List Nat)) (P : Program) (n : Nat) (σ o : Nat → Nat) (t j : Nat) : Prop :=
  (∃ t', t < t' ∧ pot (jrun cfg P n σ o t').a.th < pot (jrun cfg P n σ o t).a.th) ∨
  (∃ t' l', t ≤ t' ∧ (jrun cfg P n σ o t').a = (jrun cfg P n σ o t).a ∧ σ t' = j ∧
    (jrun cfg P n σ o t').c.th[j]? = some l' ∧ visible P l' = true)

/-- `Progress` for every thread that is at most `k` thread-local instructions away from a visible one and
    will be scheduled `d` instants from now -/
def ReachVis (cfg : List (List Nat)) (P : Program) (n : Nat) (σ o : Nat → Nat) (k : Nat) : Prop :=
  ∀ (d t j : Nat) (l : Local) (p : PC), σ (t + d) = j →
    (jrun cfg P n σ o t).c.th[j]? = some l → (jrun cfg P n σ o t).a.th[j]? = some p → notDone p = true →
    localBound P k (l, p) = true → Progress cfg P n σ o t j

omit hc in
theorem progress_shift {cfg : List (List Nat)} {P : Program} {n : Nat} {σ o : Nat → Nat} {t j : Nat}
    (ha : (jrun cfg P n σ o (t+1)).a = (jrun cfg P n σ o t).a) (h : Progress cfg P n σ o (t+1) j) : Progress cfg P n σ o t j := by
  rcases h with ⟨t', h1, h2⟩ | ⟨t', l'', h1, h2, h3, h4, h5⟩
  · left; exact ⟨t', by omega, by rw [ha] at h2; exact h2⟩
  · right; exact ⟨t', l'', by omega, by rw [h2, ha], h3, h4, h5⟩

/-- the thread is scheduled at this very instant -/
theorem progress_now (hf : CFair P n σ o) {k : Nat} (ihk : ReachVis cfg P n σ o k) {t j : Nat} {l : Local} {p : PC}
    (hσ : σ t = j) (hl : (jrun cfg P n σ o t).c.th[j]? = some l) (hp : (jrun cfg P n σ o t).a.th[j]? = some p)
    (hnd : notDone p = true) (hb : localBound P (k+1) (l, p) = true) : Progress cfg P n σ o t j := by
  subst hσ
  have hJ := jrun_inv hc n σ o t
  have hinv := reach_inv (closed_init hc).2.1 hJ.reach
  by_cases hvis : visible P l = true
  · right; exact ⟨t, l, Nat.le_refl _, rfl, rfl, hl, hvis⟩
  · have hvis' : visible P l = false := by simpa using hvis
    rcases jfire_spec hc hJ.rel hinv (σ t) (o t) with ⟨_, hret⟩ | ⟨l0, l', p0, p', hl0, hp0, hmem, hres, hmem', hth, _, hcase⟩
    · -- impossible: the thread has not returned
      obtain ⟨p1, hp1, hm1⟩ := thread_pair hc n σ o t _ hl
      rw [hp] at hp1; cases hp1
      obtain ⟨v, hv⟩ := hret l hl
      rw [(rel_unfinished hc hm1 hnd).1] at hv; cases hv
    · rw [hl] at hl0; cases hl0
      rw [hp] at hp0; cases hp0
      rcases hcase with ⟨_, hpp, ha, hsim⟩ | ⟨hv, _⟩
      · -- a thread-local instruction: one step closer
        rw [hpp] at hmem'
        have hst : (jrun cfg P n σ o t).c.status ∈ statusDom :=
          mem_statusDom (by rw [hJ.rel.status]; exact hinv.st)
        have hb' := localBound_step hb hres hvis' hst (mem_outcomeDom (by omega)) hsim
        have hl' : (jrun cfg P n σ o (t+1)).c.th[σ t]? = some l' := by
          show (jfire P _ _ _).c.th[σ t]? = _
          rw [hth]; exact set_get_self hl
        have ha' : (jrun cfg P n σ o (t+1)).a = (jrun cfg P n σ o t).a := by
          exact ha
        have hp' : (jrun cfg P n σ o (t+1)).a.th[σ t]? = some p := by rw [ha']; exact hp
        have hres' := (rel_unfinished hc hmem' hnd).1
        obtain ⟨t1, ht1, hσ1⟩ := hf (σ t) l' (t+1) (by rw [← jrun_c cfg]; exact hl') hres'
        obtain ⟨d1, rfl⟩ : ∃ d1, t1 = t + 1 + d1 := ⟨t1 - (t+1), by omega⟩
        exact progress_shift ha' (ihk d1 (t+1) (σ t) l' p hσ1 hl' hp' hnd hb')
      · rw [hv] at hvis'; cases hvis'

/-- A thread that will be scheduled and has not finished abstractly reaches a visible instruction at an
    instant at which it is scheduled, with the abstract state unchanged — unless the potential dropped. -/
theorem reach_visible (hf : CFair P n σ o) (k : Nat) : ReachVis cfg P n σ o k := by
  induction k with
  | zero => intro d t j l p _ _ _ _ hb; simp [localBound] at hb
  | succ k ihk =>
    intro d
    induction d with
    | zero =>
      intro t j l p hσ hl hp hnd hb
      exact progress_now hc n σ o hf ihk (by simpa using hσ) hl hp hnd hb
    | succ d ihd =>
      intro t j l p hσ hl hp hnd hb
      by_cases hij : σ t = j
      · exact progress_now hc n σ o hf ihk hij hl hp hnd hb
      · -- another thread moves: the potential drops, or nothing relevant changes
        rcases jfire_pot P (jrun cfg P n σ o t) (σ t) (o t) with hlt | heq
        · left; exact ⟨t+1, by omega, hlt⟩
        · have ha' : (jrun cfg P n σ o (t+1)).a = (jrun cfg P n σ o t).a := heq
          have hl' : (jrun cfg P n σ o (t+1)).c.th[j]? = some l := by
            show (jfire P _ _ _).c.th[j]? = _
            rw [jfire_other P _ _ (fun e => hij e.symm)]; exact hl
          have hp' : (jrun cfg P n σ o (t+1)).a.th[j]? = some p := by rw [ha']; exact hp
          have hσ' : σ (t + 1 + d) = j := by rw [← hσ]; congr 1; omega
          exact progress_shift ha' (ihd (t+1) j l p hσ' hl' hp' hnd hb)

/-- the machine thread behind an abstract thread -/
theorem machine_thread (t k : Nat) {p : PC} (hp : (jrun cfg P n σ o t).a.th[k]? = some p) :
    ∃ l, (jrun cfg P n σ o t).c.th[k]? = some l ∧ (l, p) ∈ S := by
  have hJ := jrun_inv hc n σ o t
  have hk : k < n := by
    have := (List.getElem?_eq_some_iff.mp hp).1; rwa [reach_len hJ.reach] at this
  have hlt : k < (jrun cfg P n σ o t).c.th.length := by rw [hJ.len]; exact hk
  obtain ⟨q, hq, hm⟩ := hJ.rel.th k _ (List.getElem?_eq_getElem hlt)
  rw [hp] at hq; cases hq
  exact ⟨_, List.getElem?_eq_getElem hlt, hm⟩

/-- every abstractly unfinished thread makes `Progress` -/
theorem progress_of_unfinished (hf : CFair P n σ o) (t j : Nat) {p : PC}
    (hp : (jrun cfg P n σ o t).a.th[j]? = some p) (hnd : notDone p = true) : Progress cfg P n σ o t j := by
  obtain ⟨l, hl, hm⟩ := machine_thread hc n σ o t j hp
  obtain ⟨hres, hb⟩ := rel_unfinished hc hm hnd
  obtain ⟨t1, ht1, hσ1⟩ := hf j l t (by rw [← jrun_c cfg]; exact hl) hres
  obtain ⟨d, rfl⟩ : ∃ d, t1 = t + d := ⟨t1 - t, by omega⟩
  exact reach_visible hc n σ o hf localFuel d t j l p hσ1 hl hp hnd hb

/-- if some thread is abstractly unfinished, the potential eventually drops -/
theorem eventually_drops_m (hf : CFair P n σ o) (t : Nat) (hnd : ¬ allDone (jrun cfg P n σ o t).a) :
    ∃ t', t < t' ∧ pot (jrun cfg P n σ o t').a.th < pot (jrun cfg P n σ o t).a.th := by
  have hex : ∃ (j : Nat) (pc : PC), (jrun cfg P n σ o t).a.th[j]? = some pc ∧ notDone pc = true := by
    unfold allDone at hnd
    obtain ⟨pc, hpc'⟩ := Classical.not_forall.mp hnd
    obtain ⟨hmem, hpc⟩ := Classical.not_imp.mp hpc'
    obtain ⟨j, hj⟩ := List.getElem?_of_mem hmem
    exact ⟨j, pc, hj, by simpa using hpc⟩
  obtain ⟨j, p, hp, hpnd⟩ := hex
  rcases progress_of_unfinished hc n σ o hf t j hp hpnd with hdrop | ⟨t1, l1, ht1, ha1, hσ1, hl1, hvis1⟩
  · exact hdrop
  -- j executes a visible instruction at t1: the abstract thread fires
  have hJ1 := jrun_inv hc n σ o t1
  have hinv1 := reach_inv (closed_init hc).2.1 hJ1.reach
  have hp1 : (jrun cfg P n σ o t1).a.th[j]? = some p := by rw [ha1]; exact hp
  rcases jfire_spec hc hJ1.rel hinv1 (σ t1) (o t1) with ⟨_, hret⟩ | ⟨l0, l', p0, p', hl0, hp0, hmem, hres, hmem', hth, _, hcase⟩
  · exfalso
    obtain ⟨p2, hp2, hm2⟩ := thread_pair hc n σ o t1 j hl1
    rw [hp1] at hp2; cases hp2
    obtain ⟨v, hv⟩ := hret l1 (by rw [hσ1]; exact hl1)
    rw [(rel_unfinished hc hm2 hpnd).1] at hv; cases hv
  rw [hσ1] at hl0 hp0
  rw [hl1] at hl0; cases hl0
  rw [hp1] at hp0; cases hp0
  rcases hcase with ⟨hv, _⟩ | ⟨_, hfire, _, _⟩
  · rw [hv] at hvis1; cases hvis1
  have hfire' : (jrun cfg P n σ o (t1+1)).a = fire (jrun cfg P n σ o t1).a j (o t1) := by
    show (jfire P _ _ _).a = _; rw [hσ1] at hfire ⊢; exact hfire
  rcases fire_pot (jrun cfg P n σ o t1).a j (o t1) with hlt | ⟨hid, hblk⟩
  · exact ⟨t1 + 1, by omega, by rw [hfire', ← ha1]; exact hlt⟩
  -- blocked: j spins on RUNNING, so an unfinished winner w exists; it is never blocked
  rcases hblk p hp1 with hb | hb
  · rw [hpnd] at hb; cases hb
  have h3 : (jrun cfg P n σ o t1).a.status = 3 := by simp [blocked] at hb; exact hb.2
  obtain ⟨w, wpc, _, hw, hwin⟩ := hinv1.own3 h3
  have hwnd : notDone wpc = true := by cases wpc <;> simp [isWinner, notDone] at hwin ⊢
  have ha2 : (jrun cfg P n σ o (t1+1)).a = (jrun cfg P n σ o t1).a := by rw [hfire', hid]
  have hw2 : (jrun cfg P n σ o (t1+1)).a.th[w]? = some wpc := by rw [ha2]; exact hw
  rcases progress_of_unfinished hc n σ o hf (t1+1) w hw2 hwnd with ⟨t', h1, h2⟩ | ⟨t2, l2, ht2, ha3, hσ2, hl2, hvis2⟩
  · exact ⟨t', by omega, by rw [ha2, ha1] at h2; exact h2⟩
  have hJ2 := jrun_inv hc n σ o t2
  have hinv2 := reach_inv (closed_init hc).2.1 hJ2.reach
  have hw3 : (jrun cfg P n σ o t2).a.th[w]? = some wpc := by rw [ha3]; exact hw2
  rcases jfire_spec hc hJ2.rel hinv2 (σ t2) (o t2) with ⟨_, hret⟩ | ⟨l0, l', p0, p', hl0, hp0, hmem, hres, hmem', hth, _, hcase⟩
  · exfalso
    obtain ⟨p2, hp2, hm2⟩ := thread_pair hc n σ o t2 w hl2
    rw [hw3] at hp2; cases hp2
    obtain ⟨v, hv⟩ := hret l2 (by rw [hσ2]; exact hl2)
    rw [(rel_unfinished hc hm2 hwnd).1] at hv; cases hv
  rw [hσ2] at hl0 hp0
  rw [hl2] at hl0; cases hl0
  rw [hw3] at hp0; cases hp0
  rcases hcase with ⟨hv, _⟩ | ⟨_, hfire2, _, _⟩
  · rw [hv] at hvis2; cases hvis2
  have hfire2' : (jrun cfg P n σ o (t2+1)).a = fire (jrun cfg P n σ o t2).a w (o t2) := by
    show (jfire P _ _ _).a = _; rw [hσ2] at hfire2 ⊢; exact hfire2
  rcases fire_pot (jrun cfg P n σ o t2).a w (o t2) with hlt | ⟨_, hblk2⟩
  · exact ⟨t2 + 1, by omega, by rw [hfire2', ← ha1, ← ha2, ← ha3]; exact hlt⟩
  · exfalso
    rcases hblk2 wpc hw3 with hb2 | hb2
    · rw [hwnd] at hb2; cases hb2
    · cases wpc <;> simp [isWinner, blocked] at hwin hb2

/-- under a fair schedule the abstract companion run finishes -/
theorem all_finish_j (hf : CFair P n σ o) : ∃ t, allDone (jrun cfg P n σ o t).a := by
  suffices h : ∀ m t, pot (jrun cfg P n σ o t).a.th ≤ m → ∃ t', allDone (jrun cfg P n σ o t').a from
    h _ 0 (Nat.le_refl _)
  intro m
  induction m with
  | zero =>
    intro t hm
    refine ⟨t, ?_⟩
    by_cases hd : allDone (jrun cfg P n σ o t).a
    · exact hd
    · obtain ⟨t', _, hlt⟩ := eventually_drops_m hc n σ o hf t hd; omega
  | succ m ih =>
    intro t hm
    by_cases hd : allDone (jrun cfg P n σ o t).a
    · exact ⟨t, hd⟩
    · obtain ⟨t', _, hlt⟩ := eventually_drops_m hc n σ o hf t hd
      exact ih t' (by omega)
end

/-- **machine-level liveness**: for a program accepted by `simCheck`, under every schedule that keeps
    scheduling each thread that has not yet returned, there is an instant at which all `n` threads have
    returned from `isal_self_tests`. -/
theorem machine_live {P : Program} (hc : simCheck P = true) (n : Nat) (σ o : Nat → Nat) (hf : CFair P n σ o) :
    ∃ t, (crun P n σ o t).allReturned := by
  obtain ⟨t, ht⟩ := all_finish_j hc n σ o hf
  refine ⟨t, fun l hl => ?_⟩
  rw [← jrun_c (guessCfg P)] at hl
  obtain ⟨k, hk⟩ := List.getElem?_of_mem hl
  obtain ⟨p, hp, hm⟩ := thread_pair hc n σ o t k hk
  have hpd := ht p (List.mem_of_getElem? hp)
  cases hres : l.res with
  | some v => exact ⟨v, rfl⟩
  | none =>
    have := (pairOk_live (closed_pair hc hm) hres).1
    simp only at this; rw [hpd] at this; cases this

/-- every state of a scheduled machine run is a reachable machine state (so safety applies to it) -/
theorem crun_reach (P : Program) (n : Nat) (σ o : Nat → Nat) (t : Nat) : CReach P [0, 1] n (crun P n σ o t) := by
  induction t with
  | zero => exact CReach.init
  | succ t ih => exact cfire_reach ih _ (mod2_mem _)

end IsalVerif.SelfTestGeneric
