import IsalVerif.Impl.SelfTest
/-!
# C17 — proofs about the abstract self-test protocol

* safety: an inductive invariant `PInv` of the transition system of `Impl/SelfTest.lean`, valid for any
  number of threads and any interleaving, under the hypothesis that the self-test functions return 0 or 1;
* stability of the published verdict;
* liveness: a potential function that strictly decreases whenever a thread that is neither finished
  nor spinning on `RUNNING` is scheduled; a spinning thread implies an unfinished, unblocked winner.

Proof idea for "at most once": the ghost `owner` names the thread whose `lock cmpxchg` succeeded;
`uniq` says every thread in a winner state *is* the owner, so there is at most one; the ghost
counters are tied to the owner's control state (`okPC`).
-/
namespace IsalVerif.SelfTest

/-- control states of the thread that won the claim and has not yet published -/
def isWinner : PC → Bool
  | .runAes | .inAes | .runSha _ | .inSha _ | .publish _ => true
  | _ => false

/-- what a thread in state `pc` knows about the shared state -/
def okPC (status entered completed : Nat) : PC → Prop
  | .start => True
  | .claim => True
  | .spin => status ≠ 2
  | .reload => status = 0 ∨ status = 1
  | .runAes => status = 3 ∧ entered = 0 ∧ completed = 0
  | .inAes => status = 3 ∧ entered = 1 ∧ completed = 0
  | .runSha a => status = 3 ∧ entered = 1 ∧ completed = 0 ∧ (a = 0 ∨ a = 1)
  | .inSha a => status = 3 ∧ entered = 1 ∧ completed = 0 ∧ (a = 0 ∨ a = 1)
  | .publish r => status = 3 ∧ entered = 1 ∧ completed = 1 ∧ (r = 0 ∨ r = 1)
  | .retn v => (status = 0 ∨ status = 1) ∧ v = codeOf status
  | .done v => (status = 0 ∨ status = 1) ∧ v = codeOf status

/-- the inductive invariant -/
structure PInv (g : G) : Prop where
  st   : g.status = 0 ∨ g.status = 1 ∨ g.status = 2 ∨ g.status = 3
  own  : g.status ≠ 3 → g.owner = none
  own3 : g.status = 3 → ∃ (i : Nat) (pc : PC), g.owner = some i ∧ g.th[i]? = some pc ∧ isWinner pc = true
  uniq : ∀ (j : Nat) (pc : PC), g.th[j]? = some pc → isWinner pc = true → g.owner = some j
  e2   : g.status = 2 → g.entered = 0 ∧ g.completed = 0
  e01  : (g.status = 0 ∨ g.status = 1) → g.entered = 1 ∧ g.completed = 1
  ent  : g.entered ≤ 1 ∧ g.completed ≤ g.entered
  loc  : ∀ (j : Nat) (pc : PC), g.th[j]? = some pc → okPC g.status g.entered g.completed pc

/-! ### list bookkeeping -/

theorem get_set {α} {l : List α} {i j : Nat} {x y : α} (h : (l.set i x)[j]? = some y) :
    (j = i ∧ y = x) ∨ (j ≠ i ∧ l[j]? = some y) := by
  rw [List.getElem?_set] at h
  split at h
  · rename_i hij
    split at h
    · left; exact ⟨hij.symm, by simpa using h.symm⟩
    · simp at h
  · rename_i hij; right; exact ⟨fun e => hij e.symm, h⟩

theorem set_get_self {α} {l : List α} {i : Nat} {x y : α} (h : l[i]? = some y) : (l.set i x)[i]? = some x := by
  have hlt : i < l.length := (List.getElem?_eq_some_iff.mp h).1
  simp [hlt]

theorem set_get_ne {α} {l : List α} {i j : Nat} {x : α} (h : j ≠ i) : (l.set i x)[j]? = l[j]? := by
  simp only [List.getElem?_set]; rw [if_neg (fun e => h e.symm)]

theorem set_same {α} {l : List α} {i : Nat} {x : α} (h : l[i]? = some x) : l.set i x = l := by
  induction l generalizing i with
  | nil => rfl
  | cons y ys ih =>
    cases i with
    | zero => simp at h; subst h; rfl
    | succ k => simp at h; simp [ih h]

theorem replicate_get {α} {n j : Nat} {a x : α} (h : (List.replicate n a)[j]? = some x) : x = a := by
  rw [List.getElem?_replicate] at h; split at h <;> simp_all

/-! ### the invariant -/

theorem or01 {a b : Nat} (ha : a = 0 ∨ a = 1) (hb : b = 0 ∨ b = 1) : (a ||| b) = 0 ∨ (a ||| b) = 1 := by
  rcases ha with rfl | rfl <;> rcases hb with rfl | rfl <;> decide

theorem init_inv (n : Nat) : PInv (G.init n) where
  st := by simp [G.init]
  own := by simp [G.init]
  own3 := by simp [G.init]
  uniq := by
    intro j pc h hw
    have := replicate_get h; subst this; simp [isWinner] at hw
  e2 := by simp [G.init]
  e01 := by simp [G.init]
  ent := by simp [G.init]
  loc := by
    intro j pc h
    have := replicate_get h; subst this; trivial

/-- a non-winner thread's local knowledge survives the four global changes made by the winner -/
theorem others_ok {s e c s' e' c' : Nat} {pc : PC} (hl : okPC s e c pc) (hnw : isWinner pc = false)
    (hch : (s = 2 ∧ s' = 3) ∨ (s = 3 ∧ s' = 3) ∨ (s = 3 ∧ (s' = 0 ∨ s' = 1))) :
    okPC s' e' c' pc := by
  cases pc with
  | start => trivial
  | claim => trivial
  | spin => simp only [okPC] at hl ⊢; omega
  | reload => simp only [okPC] at hl ⊢; omega
  | retn v => simp only [okPC] at hl ⊢; omega
  | done v => simp only [okPC] at hl ⊢; omega
  | runAes => simp [isWinner] at hnw
  | inAes => simp [isWinner] at hnw
  | runSha a => simp [isWinner] at hnw
  | inSha a => simp [isWinner] at hnw
  | publish r => simp [isWinner] at hnw

/-- steps that move one thread and leave status, counters and owner alone -/
theorem local_inv {g : G} {i : Nat} {old new : PC} (h : PInv g) (hi : g.th[i]? = some old)
    (hw : isWinner new = isWinner old) (hok : okPC g.status g.entered g.completed new) :
    PInv { g with th := g.th.set i new } where
  st := h.st
  own := h.own
  own3 := by
    intro h3
    obtain ⟨k, pc, hk, hpc, hwin⟩ := h.own3 h3
    by_cases hki : k = i
    · subst hki
      have : pc = old := by rw [hi] at hpc; exact (Option.some.inj hpc).symm
      subst this
      exact ⟨k, new, hk, set_get_self hi, by rw [hw]; exact hwin⟩
    · exact ⟨k, pc, hk, by show (g.th.set i new)[k]? = some pc; rw [set_get_ne hki]; exact hpc, hwin⟩
  uniq := by
    intro j pc hj hwin
    rcases get_set hj with ⟨rfl, rfl⟩ | ⟨_, hj'⟩
    · exact h.uniq j old hi (by rw [← hw]; exact hwin)
    · exact h.uniq j pc hj' hwin
  e2 := h.e2
  e01 := h.e01
  ent := h.ent
  loc := by
    intro j pc hj
    rcases get_set hj with ⟨rfl, rfl⟩ | ⟨_, hj'⟩
    · exact hok
    · exact h.loc j pc hj'

/-- under `PInv`, a thread other than the owner is not in a winner state -/
theorem not_winner {g : G} (h : PInv g) {j k : Nat} {pc : PC} (hj : g.th[j]? = some pc)
    (hown : g.owner = some k ∨ g.owner = none) (hne : g.owner = some k → j ≠ k) : isWinner pc = false := by
  cases hw : isWinner pc with
  | false => rfl
  | true =>
    have := h.uniq j pc hj hw
    rcases hown with ho | ho
    · rw [ho] at this; exact absurd (Option.some.inj this).symm (hne ho)
    · rw [ho] at this; cases this

theorem afterCheck_01 {s : Nat} (hs : s = 0 ∨ s = 1) : afterCheck s = .retn (codeOf s) := by
  rcases hs with rfl | rfl <;> rfl

theorem step_inv {vals : List Nat} (hv : ∀ v ∈ vals, v = 0 ∨ v = 1) {g g' : G}
    (h : PInv g) (hs : Step vals g g') : PInv g' := by
  cases hs with
  | @mk i pc c o hi hc ht =>
  have hl := h.loc i pc hi
  cases pc with
  | start =>
    simp only [tstep, Option.some.injEq] at ht; subst ht
    have hnew : okPC g.status g.entered g.completed (if g.status &&& 2 = 0 then afterCheck g.status else .claim)
        ∧ isWinner (if g.status &&& 2 = 0 then afterCheck g.status else .claim) = false := by
      rcases h.st with h0 | h0 | h0 | h0 <;> rw [h0] <;> simp [afterCheck, okPC, isWinner, codeOf]
    exact local_inv h hi hnew.2 hnew.1
  | claim =>
    simp only [tstep] at ht
    split at ht
    · rename_i h2
      simp only [Option.some.injEq] at ht; subst ht
      have hnone := h.own (by omega)
      have he := h.e2 h2
      refine ⟨by simp [G.apply], by simp [G.apply], ?_, ?_, by simp [G.apply], by simp [G.apply], ?_, ?_⟩
      · intro _; exact ⟨i, .runAes, by simp [G.apply, newOwner, h2], set_get_self hi, rfl⟩
      · intro j pc hj hwin
        rcases get_set hj with ⟨rfl, rfl⟩ | ⟨_, hj'⟩
        · simp [G.apply, newOwner, h2]
        · have := h.uniq j pc hj' hwin; rw [hnone] at this; cases this
      · simp [G.apply, Ev.entered, Ev.completed]; exact h.ent
      · intro j pc hj
        rcases get_set hj with ⟨rfl, rfl⟩ | ⟨_, hj'⟩
        · simp [G.apply, afterCheck, okPC, Ev.entered, Ev.completed, he]
        · exact others_ok (h.loc j pc hj') (not_winner (k := 0) h hj' (Or.inr hnone) (by rw [hnone]; intro x; cases x))
            (Or.inl ⟨h2, rfl⟩)
    · rename_i h2
      simp only [Option.some.injEq] at ht; subst ht
      have : g.apply i .claim ⟨.spin, g.status, .tau⟩ = { g with th := g.th.set i .spin } := by
        simp [G.apply, newOwner, h2, Ev.entered, Ev.completed]
      rw [this]; exact local_inv h hi rfl h2
  | spin =>
    simp only [tstep, Option.some.injEq] at ht; subst ht
    simp only [okPC] at hl
    have : g.apply i .spin ⟨if g.status = 3 then .spin else .reload, g.status, .tau⟩
        = { g with th := g.th.set i (if g.status = 3 then .spin else .reload) } := by
      simp [G.apply, newOwner, Ev.entered, Ev.completed]
    rw [this]
    by_cases h3 : g.status = 3
    · rw [if_pos h3]; exact local_inv h hi rfl (by simp [okPC, h3])
    · rw [if_neg h3]
      refine local_inv h hi rfl ?_
      simp only [okPC]; have := h.st; omega
  | reload =>
    simp only [tstep, Option.some.injEq] at ht; subst ht
    simp only [okPC] at hl
    have : g.apply i .reload ⟨afterCheck g.status, g.status, .tau⟩
        = { g with th := g.th.set i (.retn (codeOf g.status)) } := by
      simp [G.apply, newOwner, Ev.entered, Ev.completed, afterCheck_01 hl]
    rw [this]; exact local_inv h hi rfl ⟨hl, rfl⟩
  | runAes =>
    simp only [tstep, Option.some.injEq] at ht; subst ht
    simp only [okPC] at hl
    obtain ⟨h3, he, hcz⟩ := hl
    have hown := h.uniq i _ hi rfl
    refine ⟨h.st, h.own, ?_, ?_, ?_, ?_, ?_, ?_⟩
    · intro _; exact ⟨i, .inAes, hown, set_get_self hi, rfl⟩
    · intro j pc hj hwin
      rcases get_set hj with ⟨rfl, rfl⟩ | ⟨_, hj'⟩
      · exact hown
      · exact h.uniq j pc hj' hwin
    · intro h2; simp [G.apply] at h2; omega
    · intro h01; simp [G.apply] at h01; omega
    · simp [G.apply, Ev.entered, Ev.completed]; omega
    · intro j pc hj
      rcases get_set hj with ⟨rfl, rfl⟩ | ⟨hne, hj'⟩
      · simp [G.apply, okPC, Ev.entered, Ev.completed, h3, he, hcz]
      · exact others_ok (h.loc j pc hj') (not_winner h hj' (Or.inl hown) (fun _ => hne)) (Or.inr (Or.inl ⟨h3, h3⟩))
  | inAes =>
    simp only [tstep, Option.some.injEq] at ht; subst ht
    simp only [okPC] at hl
    have : g.apply i .inAes ⟨.runSha c, g.status, .tau⟩ = { g with th := g.th.set i (.runSha c) } := by
      simp [G.apply, newOwner, Ev.entered, Ev.completed]
    rw [this]; exact local_inv h hi rfl ⟨hl.1, hl.2.1, hl.2.2, hv c hc⟩
  | runSha a =>
    simp only [tstep, Option.some.injEq] at ht; subst ht
    simp only [okPC] at hl
    have : g.apply i (.runSha a) ⟨.inSha a, g.status, .tau⟩ = { g with th := g.th.set i (.inSha a) } := by
      simp [G.apply, newOwner, Ev.entered, Ev.completed]
    rw [this]; exact local_inv h hi rfl hl
  | inSha a =>
    simp only [tstep, Option.some.injEq] at ht; subst ht
    simp only [okPC] at hl
    obtain ⟨h3, he, hcz, ha⟩ := hl
    have hown := h.uniq i _ hi rfl
    refine ⟨h.st, h.own, ?_, ?_, ?_, ?_, ?_, ?_⟩
    · intro _; exact ⟨i, .publish (a ||| c), hown, set_get_self hi, rfl⟩
    · intro j pc hj hwin
      rcases get_set hj with ⟨rfl, rfl⟩ | ⟨_, hj'⟩
      · exact hown
      · exact h.uniq j pc hj' hwin
    · intro h2; simp [G.apply] at h2; omega
    · intro h01; simp [G.apply] at h01; omega
    · simp [G.apply, Ev.entered, Ev.completed]; omega
    · intro j pc hj
      rcases get_set hj with ⟨rfl, rfl⟩ | ⟨hne, hj'⟩
      · simp only [G.apply, okPC, Ev.entered, Ev.completed]
        exact ⟨h3, by omega, by omega, or01 ha (hv c hc)⟩
      · exact others_ok (h.loc j pc hj') (not_winner h hj' (Or.inl hown) (fun _ => hne)) (Or.inr (Or.inl ⟨h3, h3⟩))
  | publish r =>
    simp only [tstep, Option.some.injEq] at ht; subst ht
    simp only [okPC] at hl
    obtain ⟨h3, he, hcz, hr⟩ := hl
    have hown := h.uniq i _ hi rfl
    refine ⟨by simp [G.apply]; omega, by simp [G.apply, newOwner], ?_, ?_, ?_, ?_, ?_, ?_⟩
    · intro hr3; simp [G.apply] at hr3; omega
    · intro j pc hj hwin
      rcases get_set hj with ⟨rfl, rfl⟩ | ⟨hne, hj'⟩
      · simp [isWinner] at hwin
      · have := not_winner h hj' (Or.inl hown) (fun _ => hne); rw [this] at hwin; cases hwin
    · intro h2; simp [G.apply] at h2; omega
    · intro _; simp [G.apply, Ev.entered, Ev.completed]; omega
    · simp [G.apply, Ev.entered, Ev.completed]; omega
    · intro j pc hj
      rcases get_set hj with ⟨rfl, rfl⟩ | ⟨hne, hj'⟩
      · simp only [G.apply, okPC]; exact ⟨hr, trivial⟩
      · exact others_ok (h.loc j pc hj') (not_winner h hj' (Or.inl hown) (fun _ => hne)) (Or.inr (Or.inr ⟨h3, hr⟩))
  | retn v =>
    simp only [tstep, Option.some.injEq] at ht; subst ht
    simp only [okPC] at hl
    have : g.apply i (.retn v) ⟨.done v, g.status, .tau⟩ = { g with th := g.th.set i (.done v) } := by
      simp [G.apply, newOwner, Ev.entered, Ev.completed]
    rw [this]; exact local_inv h hi rfl hl
  | done v => simp [tstep] at ht

theorem reach_inv {vals : List Nat} (hv : ∀ v ∈ vals, v = 0 ∨ v = 1) {n : Nat} {g : G}
    (h : Reach vals n g) : PInv g := by
  induction h with
  | init => exact init_inv n
  | step _ hs ih => exact step_inv hv ih hs

/-! ### stability of the published verdict -/

/-- once a verdict is published nothing changes the status word or the counters any more -/
theorem step_published {vals : List Nat} {g g' : G} (h : PInv g) (hs : Step vals g g')
    (hp : g.status = 0 ∨ g.status = 1) :
    g'.status = g.status ∧ g'.entered = g.entered ∧ g'.completed = g.completed := by
  cases hs with
  | @mk i pc c o hi hc ht =>
  have hl := h.loc i pc hi
  cases pc <;> simp only [tstep] at ht <;> simp only [okPC] at hl
  case claim =>
    split at ht
    · omega
    · simp only [Option.some.injEq] at ht; subst ht; simp [G.apply, Ev.entered, Ev.completed]
  case done => cases ht
  all_goals first
    | omega
    | (simp only [Option.some.injEq] at ht; subst ht; simp [G.apply, Ev.entered, Ev.completed])

theorem steps_inv {vals : List Nat} (hv : ∀ v ∈ vals, v = 0 ∨ v = 1) {g g' : G}
    (h : PInv g) (hs : Steps vals g g') : PInv g' := by
  induction hs with
  | refl => exact h
  | step _ hs ih => exact step_inv hv ih hs

theorem steps_published {vals : List Nat} (hv : ∀ v ∈ vals, v = 0 ∨ v = 1) {g g' : G} (h : PInv g)
    (hs : Steps vals g g') (hp : g.status = 0 ∨ g.status = 1) :
    g'.status = g.status ∧ g'.entered = g.entered ∧ g'.completed = g.completed := by
  induction hs with
  | refl => exact ⟨rfl, rfl, rfl⟩
  | step hss hs ih =>
    have := step_published (steps_inv hv h hss) hs (by rw [ih.1]; exact hp)
    exact ⟨this.1.trans ih.1, this.2.1.trans ih.2.1, this.2.2.trans ih.2.2⟩

/-- a thread that has returned stays returned with the same value -/
theorem step_done {vals : List Nat} {g g' : G} (hs : Step vals g g') {j v : Nat}
    (hj : g.th[j]? = some (.done v)) : g'.th[j]? = some (.done v) := by
  cases hs with
  | @mk i pc c o hi hc ht =>
  by_cases hji : j = i
  · subst hji; rw [hi] at hj; cases hj; simp [tstep] at ht
  · show (g.th.set i o.pc)[j]? = _; rw [set_get_ne hji]; exact hj

theorem steps_done {vals : List Nat} {g g' : G} (hs : Steps vals g g') {j v : Nat}
    (hj : g.th[j]? = some (.done v)) : g'.th[j]? = some (.done v) := by
  induction hs with
  | refl => exact hj
  | step _ hs ih => exact step_done hs ih

/-! ### liveness under a fair scheduler -/

theorem mod2_mem (c : Nat) : c % 2 ∈ [0, 1] := by
  have : c % 2 = 0 ∨ c % 2 = 1 := by omega
  rcases this with h | h <;> simp [h]

theorem vals01 : ∀ v ∈ [0, 1], v = 0 ∨ v = 1 := by intro v hv; simpa using hv

theorem fireWith_step {vals : List Nat} (g : G) (i c : Nat) (hc : c ∈ vals) :
    fireWith g i c = g ∨ Step vals g (fireWith g i c) := by
  unfold fireWith
  split
  · split
    · right; exact Step.mk ‹_› hc ‹_›
    · left; rfl
  · left; rfl

theorem fire_step (g : G) (i c : Nat) : fire g i c = g ∨ Step [0, 1] g (fire g i c) :=
  fireWith_step g i (c % 2) (mod2_mem c)

theorem fire_inv {g : G} (h : PInv g) (i c : Nat) : PInv (fire g i c) := by
  rcases fire_step g i c with he | hs
  · rw [he]; exact h
  · exact step_inv vals01 h hs

/-- remaining steps of a thread, not counting iterations of the spin loop -/
def rank : PC → Nat
  | .start => 10 | .claim => 9 | .spin => 8 | .reload => 7 | .runAes => 6 | .inAes => 5
  | .runSha _ => 4 | .inSha _ => 3 | .publish _ => 2 | .retn _ => 1 | .done _ => 0

def pot (l : List PC) : Nat := (l.map rank).sum

theorem pot_set {l : List PC} {i : Nat} {old : PC} (new : PC) (h : l[i]? = some old) :
    pot (l.set i new) + rank old = pot l + rank new := by
  induction l generalizing i with
  | nil => simp at h
  | cons x xs ih =>
    cases i with
    | zero => simp at h; subst h; simp [pot]; omega
    | succ k =>
      simp at h
      have := ih h
      simp [pot] at this ⊢; omega

theorem rank_afterCheck (r : Nat) : rank (afterCheck r) ≤ 6 := by
  unfold afterCheck; split
  · simp [rank]
  · split <;> simp [rank]

/-- thread state `pc` is spinning on `SELF_TEST_RUNNING` -/
def blocked (g : G) (pc : PC) : Bool := pc = PC.spin && g.status = 3

/-- every thread step lowers the thread's rank, except spinning on `RUNNING` -/
theorem tstep_rank {pc : PC} {s c : Nat} {o : TOut} (h : tstep pc s c = some o) :
    rank o.pc < rank pc ∨ (pc = .spin ∧ s = 3 ∧ o = ⟨.spin, s, .tau⟩) := by
  cases pc <;> simp only [tstep] at h
  case start =>
    simp only [Option.some.injEq] at h; subst h; left
    have := rank_afterCheck s
    show rank (if s &&& 2 = 0 then afterCheck s else .claim) < 10
    split
    · omega
    · show 9 < 10; omega
  case claim =>
    split at h <;> (simp only [Option.some.injEq] at h; subst h; left; simp [rank, afterCheck])
  case spin =>
    simp only [Option.some.injEq] at h; subst h
    by_cases h3 : s = 3
    · right; simp [h3]
    · left; simp [h3, rank]
  case reload =>
    simp only [Option.some.injEq] at h; subst h; left
    have := rank_afterCheck s
    show rank (afterCheck s) < 7; omega
  case done => cases h
  all_goals (simp only [Option.some.injEq] at h; subst h; left; simp [rank])

/-- a firing strictly lowers the potential, unless the thread is absent, finished, or spinning on
    `RUNNING` (in which case nothing changes) -/
theorem fire_pot (g : G) (i c : Nat) :
    pot (fire g i c).th < pot g.th ∨
    (fire g i c = g ∧ ∀ pc, g.th[i]? = some pc → (notDone pc = false ∨ blocked g pc = true)) := by
  unfold fire fireWith
  split
  · rename_i pc hi
    split
    · rename_i o ht
      rcases tstep_rank ht with hlt | ⟨rfl, h3, rfl⟩
      · left; have := pot_set o.pc hi; simp only [G.apply]; omega
      · right
        refine ⟨?_, fun pc hpc => ?_⟩
        · have hs := set_same hi
          cases g; simp_all [G.apply, newOwner, Ev.entered, Ev.completed]
        · rw [hi] at hpc; cases hpc; right; simp [blocked, h3]
    · rename_i ht
      right; refine ⟨rfl, fun pc' hpc => ?_⟩
      rw [hi] at hpc; cases hpc
      cases pc <;> simp [tstep] at ht
      · split at ht <;> cases ht
      · left; rfl
  · rename_i h; right; refine ⟨rfl, fun pc hpc => ?_⟩; rw [h] at hpc; cases hpc

theorem run_inv (n : Nat) (σ o : Nat → Nat) (t : Nat) : PInv (run n σ o t) := by
  induction t with
  | zero => exact init_inv n
  | succ t ih => exact fire_inv ih _ _

theorem run_reach (n : Nat) (σ o : Nat → Nat) (t : Nat) : Reach [0, 1] n (run n σ o t) := by
  induction t with
  | zero => exact Reach.init
  | succ t ih =>
    rcases fire_step (run n σ o t) (σ t) (o t) with he | hs
    · show Reach _ _ (fire _ _ _); rw [he]; exact ih
    · exact Reach.step ih hs

theorem step_len {vals : List Nat} {g g' : G} (hs : Step vals g g') : g'.th.length = g.th.length := by
  cases hs; simp [G.apply]

theorem reach_len {vals : List Nat} {n : Nat} {g : G} (h : Reach vals n g) : g.th.length = n := by
  induction h with
  | init => simp [G.init]
  | step _ hs ih => rw [step_len hs]; exact ih

theorem run_len (n : Nat) (σ o : Nat → Nat) (t : Nat) : (run n σ o t).th.length = n :=
  reach_len (run_reach n σ o t)

/-- over any interval either the potential dropped somewhere, or the state is unchanged -/
theorem interval (n : Nat) (σ o : Nat → Nat) (t d : Nat) :
    (∃ t', t < t' ∧ t' ≤ t + d ∧ pot (run n σ o t').th < pot (run n σ o t).th) ∨ run n σ o (t + d) = run n σ o t := by
  induction d with
  | zero => right; rfl
  | succ d ih =>
    rcases ih with ⟨t', h1, h2, h3⟩ | heq
    · left; exact ⟨t', h1, by omega, h3⟩
    · rcases fire_pot (run n σ o (t + d)) (σ (t + d)) (o (t + d)) with hlt | ⟨he, _⟩
      · left; refine ⟨t + d + 1, by omega, by omega, ?_⟩
        have : pot (fire (run n σ o (t + d)) (σ (t + d)) (o (t + d))).th < pot (run n σ o t).th := by
          rw [heq] at hlt ⊢; exact hlt
        exact this
      · right
        have : fire (run n σ o (t + d)) (σ (t + d)) (o (t + d)) = run n σ o t := by rw [he, heq]
        exact this

/-- if some thread is unfinished, the potential eventually drops -/
theorem eventually_drops (n : Nat) (σ o : Nat → Nat) (hf : Fair n σ o) (t : Nat)
    (hnd : ¬ allDone (run n σ o t)) : ∃ t', t < t' ∧ pot (run n σ o t').th < pot (run n σ o t).th := by
  -- pick an unfinished thread j
  have hex : ∃ (j : Nat) (pc : PC), (run n σ o t).th[j]? = some pc ∧ notDone pc = true := by
    unfold allDone at hnd
    obtain ⟨pc, hpc'⟩ := Classical.not_forall.mp hnd
    obtain ⟨hmem, hpc⟩ := Classical.not_imp.mp hpc'
    obtain ⟨j, hj⟩ := List.getElem?_of_mem hmem
    exact ⟨j, pc, hj, by simpa using hpc⟩
  obtain ⟨j, pc, hj, hpc⟩ := hex
  obtain ⟨t1, ht1, hσ1⟩ := hf j pc t hj hpc
  obtain ⟨d1, rfl⟩ : ∃ d, t1 = t + d := ⟨t1 - t, by omega⟩
  rcases interval n σ o t d1 with ⟨t', h1, _, h3⟩ | heq1
  · exact ⟨t', h1, h3⟩
  -- the state at t+d1 equals the state at t; thread j is scheduled
  rcases fire_pot (run n σ o (t + d1)) (σ (t + d1)) (o (t + d1)) with hlt | ⟨he, hblk⟩
  · refine ⟨t + d1 + 1, by omega, ?_⟩
    have : pot (fire (run n σ o (t + d1)) (σ (t + d1)) (o (t + d1))).th < pot (run n σ o t).th := by
      rw [heq1] at hlt ⊢; exact hlt
    exact this
  -- j is blocked: spinning with status = 3, so an unfinished winner w exists
  rw [heq1, hσ1] at hblk
  have hb := hblk pc hj
  rcases hb with hb | hb
  · rw [hpc] at hb; cases hb
  have h3 : (run n σ o t).status = 3 := by simp [blocked] at hb; exact hb.2
  obtain ⟨w, wpc, _, hw, hwin⟩ := (run_inv n σ o t).own3 h3
  have hwnd : notDone wpc = true := by cases wpc <;> simp [isWinner, notDone] at hwin ⊢
  have hstate1 : run n σ o (t + d1 + 1) = run n σ o t := by
    have : fire (run n σ o (t + d1)) (σ (t + d1)) (o (t + d1)) = run n σ o t := by rw [he, heq1]
    exact this
  obtain ⟨t2, ht2, hσ2⟩ := hf w wpc (t + d1 + 1) (by rw [hstate1]; exact hw) hwnd
  obtain ⟨d2, rfl⟩ : ∃ d, t2 = t + d1 + 1 + d := ⟨t2 - (t + d1 + 1), by omega⟩
  rcases interval n σ o (t + d1 + 1) d2 with ⟨t', h1, _, h3'⟩ | heq2
  · exact ⟨t', by omega, by rw [hstate1] at h3'; exact h3'⟩
  rcases fire_pot (run n σ o (t + d1 + 1 + d2)) (σ (t + d1 + 1 + d2)) (o (t + d1 + 1 + d2)) with hlt | ⟨_, hblk2⟩
  · refine ⟨t + d1 + 1 + d2 + 1, by omega, ?_⟩
    have : pot (fire (run n σ o (t + d1 + 1 + d2)) (σ (t + d1 + 1 + d2)) (o (t + d1 + 1 + d2))).th < pot (run n σ o t).th := by
      rw [heq2, hstate1] at hlt ⊢; exact hlt
    exact this
  · exfalso
    rw [heq2, hstate1, hσ2] at hblk2
    rcases hblk2 wpc hw with hb2 | hb2
    · rw [hwnd] at hb2; cases hb2
    · cases wpc <;> simp [isWinner, blocked] at hwin hb2

/-- under a fair schedule every thread returns -/
theorem all_finish (n : Nat) (σ o : Nat → Nat) (hf : Fair n σ o) : ∃ t, allDone (run n σ o t) := by
  suffices h : ∀ m t, pot (run n σ o t).th ≤ m → ∃ t', allDone (run n σ o t') from h _ 0 (Nat.le_refl _)
  intro m
  induction m with
  | zero =>
    intro t hm
    refine ⟨t, ?_⟩
    by_cases hd : allDone (run n σ o t)
    · exact hd
    · obtain ⟨t', _, hlt⟩ := eventually_drops n σ o hf t hd; omega
  | succ m ih =>
    intro t hm
    by_cases hd : allDone (run n σ o t)
    · exact ⟨t, hd⟩
    · obtain ⟨t', _, hlt⟩ := eventually_drops n σ o hf t hd
      exact ih t' (by omega)

/-- finished is final: once all threads have returned the state no longer changes -/
theorem allDone_fire {g : G} (h : allDone g) (i c : Nat) : fire g i c = g := by
  unfold fire fireWith
  split
  · rename_i pc hi
    have := h pc (List.mem_of_getElem? hi)
    cases pc <;> simp [notDone] at this
    simp [tstep]
  · rfl

theorem allDone_stable (n : Nat) (σ o : Nat → Nat) {t : Nat} (h : allDone (run n σ o t)) (d : Nat) :
    run n σ o (t + d) = run n σ o t := by
  induction d with
  | zero => rfl
  | succ d ih =>
    show fire (run n σ o (t + d)) _ _ = _
    rw [ih]; exact allDone_fire h _ _

theorem stronglyFair_fair {n : Nat} {σ : Nat → Nat} (h : StronglyFair n σ) (o : Nat → Nat) : Fair n σ o := by
  intro i pc t hi _
  have hlt : i < n := by
    have := (List.getElem?_eq_some_iff.mp hi).1; rwa [run_len] at this
  exact h i hlt t

end IsalVerif.SelfTest
