import IsalVerif.Impl.MurC
import IsalVerif.Impl.MhStream
/-!
  IsalVerif/Lemmas/MurCProofs.lean — the translated arithmetic of the murmur block / tail functions is the arithmetic of
  MurmurHash3_x64_128 (`Spec/Murmur3.lean`) resp. of the hand-written model the C10 theorems are about
  (`Mh.murmurTail`).
-/
set_option maxRecDepth 8000
namespace IsalVerif.MurC
open IsalVerif

/-- **one iteration of `_murmur3_x64_128_block`** on the state `h` and the 16-byte block whose little-endian words are
    `k1, k2` is the body step of MurmurHash3_x64_128 -/
theorem canon_block_step (h : UInt64 × UInt64) (block : Bytes) (k1 k2 : UInt64) (rest : List UInt64)
    (hw : wordsLE64 block = k1 :: k2 :: rest) (len : UInt64) :
    Murmur3.murBlock h block =
      ((run canonBlock ⟨0, 0, h.1, h.2⟩ k1 k2 len).h0, (run canonBlock ⟨0, 0, h.1, h.2⟩ k1 k2 len).h1) := by
  unfold Murmur3.murBlock
  rw [hw]
  rfl

/-- the tail function's arithmetic on the gathered words `k1, k2`, the state and the 32-bit length -/
def tailArith (k1 k2 len : UInt64) (hash : UInt64 × UInt64) : UInt64 × UInt64 :=
  let data1 := Murmur3.mixK1 k1
  let data2 := Murmur3.mixK2 k2
  let h0 := hash.1 ^^^ (len ^^^ data1)
  let h1 := hash.2 ^^^ (len ^^^ data2)
  let h0 := h0 + h1
  let h1 := h1 + h0
  let h0 := Murmur3.fmix64 h0
  let h1 := Murmur3.fmix64 h1
  let h0 := h0 + h1
  let h1 := h1 + h0
  (h0, h1)

theorem canon_tail_arith (k1 k2 len : UInt64) (hash : UInt64 × UInt64) :
    tailArith k1 k2 len hash =
      ((run canonTail ⟨0, 0, hash.1, hash.2⟩ k1 k2 len).h0, (run canonTail ⟨0, 0, hash.1, hash.2⟩ k1 k2 len).h1) := rfl

/-- `Mh.murmurTail` (the model of C10) is that arithmetic on the zero-padded tail bytes -/
theorem murmurTail_eq (tailBuffer : Bytes) (totalLen : UInt32) (hash : UInt64 × UInt64) :
    Mh.murmurTail tailBuffer totalLen hash =
      tailArith (wordsLE64 (Mh.memcpy (List.replicate 16 0) 0 (tailBuffer.take (totalLen % 16).toUInt64.toNat)))[0]!
                (wordsLE64 (Mh.memcpy (List.replicate 16 0) 0 (tailBuffer.take (totalLen % 16).toUInt64.toNat)))[1]!
                totalLen.toUInt64 hash := rfl

/-- state pair after one iteration of a loop-body program on the words of a 16-byte block (a shorter block, which the C
    code never sees, leaves the state alone - as `Murmur3.murBlock` does) -/
def iter (prog : List A) (h : UInt64 × UInt64) (b : Bytes) : UInt64 × UInt64 :=
  match wordsLE64 b with
  | k1 :: k2 :: _ => ((run prog ⟨0, 0, h.1, h.2⟩ k1 k2 0).h0, (run prog ⟨0, 0, h.1, h.2⟩ k1 k2 0).h1)
  | _ => h

/-- **the whole loop of `_murmur3_x64_128_block`**: folding the translated body over any list of blocks is the
    MurmurHash3_x64_128 body over those blocks -/
theorem canon_block_loop (bs : List Bytes) (h : UInt64 × UInt64) :
    bs.foldl Murmur3.murBlock h = bs.foldl (iter canonBlock) h := by
  induction bs generalizing h with
  | nil => rfl
  | cons b bs ih =>
    simp only [List.foldl_cons]
    have : Murmur3.murBlock h b = iter canonBlock h b := by
      unfold iter
      match hw : wordsLE64 b with
      | [] => simp [Murmur3.murBlock, hw]
      | [_] => simp [Murmur3.murBlock, hw]
      | k1 :: k2 :: rest => exact canon_block_step h b k1 k2 rest hw 0
    rw [this, ih]

/-- non-vacuity of `canon_block_step`: a 16-byte block has two little-endian words -/
example : ∃ k1 k2 rest, wordsLE64 ((List.range 16).map UInt8.ofNat) = k1 :: k2 :: rest := ⟨_, _, _, rfl⟩

end IsalVerif.MurC
