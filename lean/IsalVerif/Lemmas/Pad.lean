import IsalVerif.Impl.HashMB
/-! `hash_pad` arithmetic of the 26 ctx templates: where the padding ends (uint64 wrap-around). -/
namespace IsalVerif.HashMB

theorem and63 (x : Nat) : x &&& 63 = x % 64 := Nat.and_two_pow_sub_one_eq_mod x 6
theorem and127 (x : Nat) : x &&& 127 = x % 128 := Nat.and_two_pow_sub_one_eq_mod x 7

/-- B = 64, L = 8 (SHA-1, SHA-256, MD5, SM3): the padded tail is one or two blocks, one iff the
    0x80 byte and the length field still fit, and the padded stream is block aligned. -/
theorem padEnd64 (total : Nat) (h : total < 2^64 - 64) :
    let e := padEnd 64 8 total
    (e = 64 ∨ e = 128) ∧ (e = 64 ↔ total % 64 + 1 + 8 ≤ 64) ∧
    (total - total % 64 + e) % 64 = 0 := by
  simp only [padEnd]
  rw [show (64 - 1 : Nat) = 63 from rfl, Nat.and_comm 63, and63, and63]
  omega

/-- B = 128, L = 16 (SHA-512) -/
theorem padEnd128 (total : Nat) (h : total < 2^64 - 128) :
    let e := padEnd 128 16 total
    (e = 128 ∨ e = 256) ∧ (e = 128 ↔ total % 128 + 1 + 16 ≤ 128) ∧
    (total - total % 128 + e) % 128 = 0 := by
  simp only [padEnd]
  rw [show (128 - 1 : Nat) = 127 from rfl, Nat.and_comm 127, and127, and127]
  omega

end IsalVerif.HashMB
