import IsalVerif.Spec.Cbc
import IsalVerif.Lemmas.AesInv
import IsalVerif.Lemmas.Chunks
/-! Helper lemmas for the CBC laws (SP 800-38A §6.2): decryption inverts encryption, decryption through the
    equivalent inverse cipher, and decryption "by groups of `g` blocks".  Core Lean only. -/
namespace IsalVerif

theorem zipWith_congr_left {α β γ : Type} {f g : α → β → γ} {l : List α}
    (h : ∀ a ∈ l, ∀ b, f a b = g a b) (l' : List β) : List.zipWith f l l' = List.zipWith g l l' := by
  induction l generalizing l' with
  | nil => simp
  | cons a l ih =>
    cases l' with
    | nil => simp
    | cons b l' =>
      rw [List.zipWith_cons_cons, List.zipWith_cons_cons, h a (by simp),
        ih (fun a' h' => h a' (List.mem_cons_of_mem _ h'))]

theorem scanl_eq_cons_tail {α β : Type} (f : β → α → β) (b : β) (l : List α) :
    l.scanl f b = b :: (l.scanl f b).tail := by
  cases l <;> simp

/-- chaining: `zipWith f (A ++ B) (iv :: (A ++ B))` splits at `A`, the second part seeing the last
    element of `A` (or `iv` when `A` is empty) as its predecessor -/
theorem zipWith_shift_append {α γ : Type} (f : α → α → γ) (A B : List α) (iv : α) :
    List.zipWith f (A ++ B) (iv :: (A ++ B)) =
      List.zipWith f A (iv :: A) ++ List.zipWith f B (A.getLastD iv :: B) := by
  induction A generalizing iv with
  | nil => simp
  | cons a A ih =>
    rw [List.cons_append, List.zipWith_cons_cons, ih a, List.zipWith_cons_cons, List.getLastD_cons,
      List.cons_append]

theorem chunks_getLastD {α : Type} (k : Nat) {a : List α} (h : a.length = 16 * (k + 1)) (d : List α) :
    (chunks 16 a).getLastD d = a.drop (16 * k) := by
  induction k generalizing a d with
  | zero =>
    have h0 : a.drop 16 = [] := List.drop_eq_nil_of_le (by omega)
    rw [chunks_cons16 (by omega), h0, chunks_nil, List.getLastD_cons, List.getLastD_nil,
      List.take_of_length_le (by omega)]
    rfl
  | succ k ih =>
    rw [chunks_cons16 (by omega), List.getLastD_cons, ih (by rw [List.length_drop]; omega),
      List.drop_drop]
    congr 1; omega

namespace Cbc
open Aes

theorem cbcDecWith_congr {f g : Bytes → Bytes} (h : ∀ c : Bytes, c.length = 16 → f c = g c)
    (iv ct : Bytes) : cbcDecWith f iv ct = cbcDecWith g iv ct := by
  unfold cbcDecWith
  simp only
  rw [zipWith_congr_left (fun c hc prev => by rw [h c (chunks_mem_length c hc)])]

/-- the block-level core of `cbcDec ∘ cbcEnc = id`, for any block function `E` with left inverse `D` on
    16-byte blocks -/
theorem zip_scan {E D : Bytes → Bytes} (hD : ∀ x : Bytes, x.length = 16 → D (E x) = x)
    (hE : ∀ x : Bytes, x.length = 16 → (E x).length = 16) :
    ∀ (ps : List Bytes) (iv : Bytes), (∀ p ∈ ps, p.length = 16) → iv.length = 16 →
      List.zipWith (fun c prev => xorBytes (D c) prev)
        (ps.scanl (fun prev p => E (xorBytes p prev)) iv).tail
        (iv :: (ps.scanl (fun prev p => E (xorBytes p prev)) iv).tail) = ps ∧
      ∀ c ∈ (ps.scanl (fun prev p => E (xorBytes p prev)) iv).tail, c.length = 16 := by
  intro ps
  induction ps with
  | nil => intro iv _ _; simp
  | cons p ps ih =>
    intro iv hps hiv
    have hp := hps p (by simp)
    have hx : (xorBytes p iv).length = 16 := xorBytes_length_eq hp hiv
    obtain ⟨ih1, ih2⟩ := ih (E (xorBytes p iv)) (fun q hq => hps q (List.mem_cons_of_mem _ hq))
      (hE _ hx)
    rw [List.scanl_cons, List.tail_cons, scanl_eq_cons_tail]
    refine ⟨?_, ?_⟩
    · rw [List.zipWith_cons_cons, ih1, hD _ hx, xorBytes_cancel (by omega)]
    · intro c hc
      rw [List.mem_cons] at hc
      rcases hc with rfl | hc
      · exact hE _ hx
      · exact ih2 c hc

theorem cbcDecWith_cbcEnc {rks : List Bytes} {D : Bytes → Bytes}
    (hD : ∀ x : Bytes, x.length = 16 → D (cipher rks x) = x)
    (hE : ∀ x : Bytes, x.length = 16 → (cipher rks x).length = 16)
    {iv pt : Bytes} (hiv : iv.length = 16) (hpt : pt.length % 16 = 0) :
    cbcDecWith D iv (cbcEnc rks iv pt) = pt := by
  obtain ⟨h1, h2⟩ := zip_scan hD hE (chunks 16 pt) iv chunks_mem_length hiv
  unfold cbcDecWith cbcEnc
  simp only
  rw [chunks_of_flatten (by decide) h2, h1, chunks_flatten hpt]

theorem cbcDec_cbcEnc {rks : List Bytes} (hk : ∀ k ∈ rks, k.length = 16) {iv pt : Bytes}
    (hiv : iv.length = 16) (hpt : pt.length % 16 = 0) : cbcDec rks iv (cbcEnc rks iv pt) = pt :=
  cbcDecWith_cbcEnc (fun _ hx => invCipher_cipher hk hx) (fun _ hx => cipher_length hk hx) hiv hpt

theorem cbcEnc_length {rks : List Bytes} (hk : ∀ k ∈ rks, k.length = 16) {iv pt : Bytes}
    (hiv : iv.length = 16) : (cbcEnc rks iv pt).length = 16 * (pt.length / 16) := by
  obtain ⟨_, h2⟩ := zip_scan (fun _ hx => invCipher_cipher hk hx) (fun _ hx => cipher_length hk hx)
    (chunks 16 pt) iv chunks_mem_length hiv
  unfold cbcEnc
  rw [flatten_length_of_forall h2, List.length_tail, List.length_scanl, chunks_length]
  omega

theorem cbcDecEq_decSchedule {rks : List Bytes} (hk : ∀ k ∈ rks, k.length = 16) (iv ct : Bytes) :
    cbcDecEq (decSchedule rks) iv ct = cbcDec rks iv ct :=
  cbcDecWith_congr (fun _ hc => eqInvCipher_decSchedule hk hc) iv ct

/-- decrypting `a ‖ b`, `a` a positive whole number of blocks: `b` is decrypted with the last block of `a`
    as its IV -/
theorem cbcDecWith_append (inv : Bytes → Bytes) (iv : Bytes) (k : Nat) {a : Bytes}
    (ha : a.length = 16 * (k + 1)) (b : Bytes) :
    cbcDecWith inv iv (a ++ b) = cbcDecWith inv iv a ++ cbcDecWith inv (a.drop (16 * k)) b := by
  unfold cbcDecWith
  simp only
  rw [chunks_append16 (k + 1) ha, zipWith_shift_append, List.flatten_append, chunks_getLastD k ha]

/-- CBC decryption in consecutive groups of `g` blocks (`16·g` bytes; the last group may be shorter): each
    group is decrypted by `cbcDec` on its own, with IV the last ciphertext block of the previous group
    (`iv` for the first group).  This is how a "by-`g`" assembly loop (`g` = 4, 8, 16 blocks per iteration)
    processes the data.  (`g = 0` degenerates to a single group.) -/
def cbcDecByGroups (g : Nat) (rks : List Bytes) (iv ct : Bytes) : Bytes :=
  if g = 0 ∨ ct.length ≤ 16 * g then cbcDec rks iv ct
  else
    let grp := ct.take (16 * g)
    cbcDec rks iv grp ++ cbcDecByGroups g rks (grp.drop (16 * (g - 1))) (ct.drop (16 * g))
termination_by ct.length
decreasing_by rw [List.length_drop]; omega

theorem cbcDecByGroups_eq (g : Nat) (rks : List Bytes) (iv ct : Bytes) (hct : ct.length % 16 = 0) :
    cbcDecByGroups g rks iv ct = cbcDec rks iv ct := by
  induction hn : ct.length using Nat.strongRecOn generalizing ct iv with
  | _ n ih =>
    rw [cbcDecByGroups]
    split
    · rfl
    · rename_i hg
      have hg1 : 1 ≤ g := by omega
      have hlen : 16 * g < ct.length := by omega
      simp only
      have htake : (ct.take (16 * g)).length = 16 * ((g - 1) + 1) := by
        rw [List.length_take]; omega
      rw [ih (ct.drop (16 * g)).length (by rw [List.length_drop]; omega) _ _
        (by rw [List.length_drop]; omega) rfl]
      have := cbcDecWith_append (invCipher rks) iv (g - 1) htake (ct.drop (16 * g))
      rw [List.take_append_drop] at this
      exact this.symm

end Cbc
end IsalVerif
