import IsalVerif.Lemmas.MhFinal
/-! From the block-by-block model to the definition in `Spec/MultiHash.lean`:
    * 16 lane states updated block by block = 16 independent compression chains over the segments;
    * `sha1_for_mh_sha1` on the (block aligned) image of the interim digests = the standard hash;
    * any sequence of updates followed by finalize = `MultiHash.mh` of the concatenation. -/
namespace IsalVerif.Mh
open MultiHash
variable {α β : Type}

/-! ### Lists of equally long pieces -/

theorem length_flatMap_const (l : List α) (f : α → List β) (c : Nat) (h : ∀ x ∈ l, (f x).length = c) :
    (l.flatMap f).length = l.length * c := by
  induction l with
  | nil => simp
  | cons x xs ih =>
    rw [List.flatMap_cons, List.length_append, h x (by simp), ih (fun y hy => h y (by simp [hy])),
      List.length_cons, Nat.succ_mul, Nat.add_comm]

/-- cutting a concatenation of `B`-byte pieces into `B`-byte chunks gives the pieces back -/
theorem chunks_flatMap (B : Nat) (hB : 0 < B) (l : List α) (f : α → List β)
    (h : ∀ x ∈ l, (f x).length = B) : chunks B (l.flatMap f) = l.map f := by
  unfold chunks
  rw [length_flatMap_const l f B h, Nat.mul_div_cancel _ hB]
  induction l with
  | nil => simp [blocks]
  | cons x xs ih =>
    have hx := h x (by simp)
    rw [List.flatMap_cons, List.length_cons, List.map_cons, blocks, List.take_left' hx, List.drop_left' hx,
      ih (fun y hy => h y (by simp [hy]))]

theorem blocks_succ (B n : Nat) (l : List α) : blocks B (n + 1) l = l.take B :: blocks B n (l.drop B) := rfl

theorem blocks_elem_length (B k : Nat) (l : List α) (h : k * B ≤ l.length) :
    ∀ x ∈ blocks B k l, x.length = B := by
  induction k generalizing l with
  | zero => simp [blocks]
  | succ k ih =>
    intro x hx
    rw [Nat.succ_mul] at h
    simp only [blocks, List.mem_cons] at hx
    rcases hx with rfl | hx
    · rw [List.length_take]; omega
    · exact ih (l.drop B) (by rw [List.length_drop]; omega) x hx

theorem chunks_elem_length (B : Nat) (l : List α) : ∀ x ∈ chunks B l, x.length = B :=
  blocks_elem_length B _ l (Nat.div_mul_le_self _ _)

/-! ### Lanes = segments -/

theorem segBlock_length (s : Nat) (hs : s < 16) (blk : Bytes) (hb : blk.length = 1024) :
    (segBlock s blk).length = 64 := by
  unfold segBlock
  rw [length_flatMap_const _ _ 4]
  · simp
  · intro i hi
    have : i < 16 := by simpa using hi
    rw [List.length_take, List.length_drop]; omega

theorem blockSingle_map (I : Inner) (g : Nat → Array UInt32) (blk : Bytes) :
    blockSingle I ((List.range 16).map g) blk =
      (List.range 16).map fun s => I.compress (g s) (segBlock s blk) := by
  unfold blockSingle
  apply List.map_congr_left
  intro s hs
  have : s < 16 := by simpa using hs
  simp [this]

/-- processing the 1024-byte blocks one after the other with 16 lanes = every lane runs the
    compression chain over its own 64-byte pieces -/
theorem lanes_fold (I : Inner) (bs : List Bytes) (g : Nat → Array UInt32) :
    bs.foldl (blockSingle I) ((List.range 16).map g) =
      (List.range 16).map fun s => (bs.map (segBlock s)).foldl I.compress (g s) := by
  induction bs generalizing g with
  | nil => simp
  | cons b bs ih => simp only [List.foldl_cons, List.map_cons, blockSingle_map, ih]

theorem lanes_eq_segments (I : Inner) (padded : Bytes) :
    (chunks 1024 padded).foldl (blockSingle I) (List.replicate 16 I.init) =
      (List.range 16).map fun s => segDigest I (segment s padded) := by
  rw [show List.replicate 16 I.init = (List.range 16).map fun _ => I.init by simp [List.map_const'],
    lanes_fold]
  apply List.map_congr_left
  intro s hs
  have hs' : s < 16 := by simpa using hs
  unfold segDigest segment
  rw [chunks_flatMap 64 (by omega) _ _
    (fun b hb => segBlock_length s hs' b (chunks_elem_length 1024 padded b hb))]

theorem foldl_blockSingle_length (I : Inner) (bs : List Bytes) (l : List (Array UInt32))
    (hl : l.length = 16) : (bs.foldl (blockSingle I) l).length = 16 := by
  induction bs generalizing l with
  | nil => exact hl
  | cons b bs ih => exact ih _ (by simp [blockSingle])

theorem layout_length (I : Inner) (segs : List (Array UInt32)) :
    (layout I segs).length = I.W * (segs.length * 4) := by
  unfold layout
  rw [length_flatMap_const _ _ (segs.length * 4), List.length_range]
  intro w _
  exact length_flatMap_const _ _ 4 (fun d _ => by simp [bytesLE32, bytesBE32])

/-! ### The final hash -/

/-- the inner hash's `std` is the Merkle–Damgård construction over its `compress` (FIPS 180-4 §5.1.1,
    §6.1.2 / §6.2.2); holds by unfolding for SHA-1 and SHA-256 -/
def StdOk (I : Inner) : Prop :=
  ∀ m, I.std m = (chunks 64 (m ++ mdPad 64 8 true m.length)).foldl I.compress I.init

theorem sha1_stdOk : StdOk sha1 := fun _ => rfl
theorem sha256_stdOk : StdOk sha256 := fun _ => rfl

set_option maxRecDepth 4096 in
/-- `sha1_for_mh_sha1` on a block-aligned input (the only way it is called: `len = 4·W·16`) is the
    standard hash: after the whole blocks, one block `0x80, 0…0, 64-bit length`. -/
theorem shaForMh_aligned (I : Inner) (hI : StdOk I) (data : Bytes) (k : Nat) (hk : data.length = k * 64)
    (h32 : k * 64 < 2 ^ 32) : shaForMh I data (UInt32.ofNat (k * 64)) = I.std data := by
  have hL : (UInt32.ofNat (k * 64)).toNat = k * 64 := by rw [UInt32.toNat_ofNat']; omega
  have hn : (UInt32.ofNat (k * 64) / 64).toNat = k := by rw [UInt32.toNat_div, hL]; simp
  have hi : UInt32.ofNat (k * 64) % 64 = 0 := by
    apply UInt32.toNat_inj.mp; rw [UInt32.toNat_mod, hL]; simp
  have hbits := lenInBit (UInt32.ofNat (k * 64))
  rw [hL] at hbits
  -- the padding block as the code builds it
  have hblk : (memcpy (memset (memcpy (memcpy (List.replicate 128 (0 : UInt8)) 0 []) 0 [0x80]) 1 0 119) 56
      (natBE 8 (8 * (k * 64)))).take 64 = [0x80] ++ List.replicate 55 0 ++ natBE 8 (8 * (k * 64)) := by
    have h1 := memcpy_take (memset (memcpy (memcpy (List.replicate 128 (0 : UInt8)) 0 []) 0 [0x80]) 1 0 119) 56
      (natBE 8 (8 * (k * 64))) (by decide)
    rw [natBE_length] at h1
    have h2 : (memset (memcpy (memcpy (List.replicate 128 (0 : UInt8)) 0 []) 0 [0x80]) 1 0 119).take 56
        = [0x80] ++ List.replicate 55 0 := by decide
    rw [h2] at h1; exact h1
  -- the padding block of the standard
  have hpad := pad_one 64 data.length [] (by rw [hk]; simp; omega)
  rw [hI data]
  simp only [List.length_nil, List.nil_append] at hpad
  have hch : chunks 64 (data ++ mdPad 64 8 true data.length) =
      blocks 64 k data ++ [[0x80] ++ List.replicate 55 0 ++ natBE 8 (8 * (k * 64))] := by
    unfold chunks
    have hlen : (data ++ mdPad 64 8 true data.length).length / 64 = k + 1 := by
      rw [hpad]
      simp only [List.length_append, List.length_replicate, List.length_cons, List.length_nil, natBE_length, hk]
      omega
    rw [hlen, blocks_append_exact 64 k data _ 1 hk, hpad, hk]
    simp only [blocks]
    rw [List.take_of_length_le (by simp [natBE_length])]
  rw [hch, List.foldl_append]
  simp only [shaForMh, hn, hi, hbits]
  have e1 : ((0 : UInt32) + 1 > 64 - 8) = False := by decide
  have e2 : ((64 : UInt32) == 128) = false := by decide
  simp only [e1, if_false, e2]
  have e3 : ((0 : UInt32).toNat) = 0 := rfl
  have e4 : ((0 : UInt32) + 1).toNat = 1 := rfl
  have e5 : (64 : UInt32).toNat - 8 = 56 := rfl
  have e6 : (120 - 1 : Nat) = 119 := rfl
  simp only [e3, e4, e5, e6, List.take_zero]
  rw [hblk]
  simp

/-! ### Any sequence of updates -/

/-- Any sequence of update calls (empty ones included) on a context whose counters cannot wrap:
    `total_length` is the number of bytes fed, the buffer stays 2048 long, and the abstract state is
    one `absorb` of the concatenation. -/
theorem updates_refine {D : Type} (blockFn : D → Bytes → UInt32 → D) (f : D → Bytes → D)
    (hbf : BlockFnIs blockFn f) (parts : List Bytes) (ctx : Ctx D) (hbuf : ctx.partialBuf.length = 2048)
    (h32 : ctx.totalLength.toNat + parts.flatten.length < 2 ^ 32) :
    (parts.foldl (update blockFn) ctx).totalLength.toNat = ctx.totalLength.toNat + parts.flatten.length ∧
    (parts.foldl (update blockFn) ctx).partialBuf.length = 2048 ∧
    (parts.foldl (update blockFn) ctx).digest = ctx.digest ∧
    absS (parts.foldl (update blockFn) ctx) = absorb 1024 f (absS ctx) parts.flatten := by
  induction parts generalizing ctx with
  | nil =>
    refine ⟨by simp, hbuf, rfl, ?_⟩
    simp only [List.foldl_nil, List.flatten_nil]
    rw [absorb_nil]; simp only [absS, List.length_take]; omega
  | cons x xs ih =>
    simp only [List.flatten_cons, List.length_append] at h32
    obtain ⟨u1, u2, u3, u4⟩ := update_refines blockFn f hbf ctx x hbuf (by omega) (by omega)
    obtain ⟨r1, r2, r3, r4⟩ := ih (update blockFn ctx x) u2 (by rw [u1]; omega)
    simp only [List.foldl_cons, List.flatten_cons, List.length_append]
    refine ⟨by rw [r1, u1]; omega, r2, r3.trans u3, ?_⟩
    rw [r4, u4, absorb_append 1024 (by omega)]

theorem init_buf (I : Inner) : (init I).partialBuf.length = 2048 := List.length_replicate ..
theorem init_total (I : Inner) : (init I).totalLength.toNat = 0 := rfl
theorem init_abs (I : Inner) : absS (init I) = ⟨List.replicate 16 I.init, []⟩ := rfl

theorem blockSpec_is (I : Inner) : BlockFnIs (blockSpec I) (blockSingle I) := fun _ _ _ _ _ => rfl

/-- The tail on a context that holds the stream `m` (`|m| < 2³²`): `digests[]` is the multi-hash.
    Shared by mh_sha1/mh_sha256 finalize and the stitched finalize.
    (`W ≤ 8` only bounds the size of the digest image fed to the last hash.) -/
theorem tail_digest (I : Inner) (hI : StdOk I) (hW : I.W ≤ 8) (buf : Bytes) (total : UInt64)
    (segs : List (Array UInt32)) (m : Bytes) (hbuf : buf.length = 2048) (hT : total.toNat = m.length)
    (h : m.length < 2 ^ 32)
    (hst : (⟨segs, buf.take (m.length % 1024)⟩ : S UInt8 (List (Array UInt32))) =
      absorb 1024 (blockSingle I) ⟨List.replicate 16 I.init, []⟩ m) :
    (tail I (blockSpec I) buf total.toUInt32 segs).2.2 = mh I m := by
  have hT' : total.toUInt32.toNat = m.length := by rw [UInt64.toNat_toUInt32, hT]; omega
  rw [tail_spec I (blockSpec I) (blockSingle I) (blockSpec_is I) buf total.toUInt32 segs hbuf, hT',
    hst, absorb_append 1024 (by omega), absorb_oneshot]
  show (shaForMh I (layout I ((chunks 1024 (m ++ mhPad m.length)).foldl (blockSingle I)
    (List.replicate 16 I.init))) (UInt32.ofNat (4 * I.W * 16))).toList = mh I m
  rw [lanes_eq_segments]
  simp only [mh]
  congr 1
  have hlen := layout_length I ((List.range 16).map fun s => segDigest I (segment s (m ++ mhPad m.length)))
  rw [List.length_map, List.length_range] at hlen
  rw [show 4 * I.W * 16 = I.W * 64 by omega]
  exact shaForMh_aligned I hI _ I.W (by rw [hlen]) (by omega)

/-- **mh_sha1 / mh_sha256**: init, any updates, finalize = the multi-hash of the concatenation. -/
theorem finalize_updates (I : Inner) (hI : StdOk I) (hW : I.W ≤ 8) (parts : List Bytes)
    (h : parts.flatten.length < 2 ^ 32) :
    finalize I (blockSpec I) (parts.foldl (update (blockSpec I)) (init I)) = mh I parts.flatten := by
  obtain ⟨r1, r2, _, r4⟩ := updates_refine (blockSpec I) (blockSingle I) (blockSpec_is I) parts (init I)
    (init_buf I) (by rw [init_total]; omega)
  generalize parts.foldl (update (blockSpec I)) (init I) = ctx at r1 r2 r4
  rw [init_total, Nat.zero_add] at r1
  show (tail I (blockSpec I) ctx.partialBuf ctx.totalLength.toUInt32 ctx.interim).2.2 = _
  apply tail_digest I hI hW _ _ _ _ r2 r1 h
  rw [init_abs] at r4
  rw [← r4]; simp only [absS, r1]

end IsalVerif.Mh
