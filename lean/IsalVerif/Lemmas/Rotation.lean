import IsalVerif.Spec.Rolling
/-!
# Rotation algebra for the rolling hash (C09)

`rol64` distributes over xor and composes additively; hence appending a byte to a window costs one
rotation (`windowHash_append_one`) and sliding the window by one byte is the library's update
`h' = rol(h,1) ⊕ T[new] ⊕ rol(T[old], w)` (`slide`).  The C expression
`(v << r) | (v >> (64 - r))` is `rol64 v r` for `0 < r < 64` (`shlor_eq_rol64`).
-/
namespace IsalVerif.Lemmas.Rotation
open IsalVerif.Spec.Rolling

abbrev W64 := BitVec 64

/-- bit `i` of a left rotation by `r` is bit `i - r (mod 64)` of the argument -/
theorem rol_bit (x : W64) (r i : Nat) (hi : i < 64) :
    (x.rotateLeft r).getLsbD i = x.getLsbD ((i + 64 - r % 64) % 64) := by
  rw [BitVec.getLsbD_rotateLeft]
  by_cases h : i < r % 64
  · simp only [h, decide_true, cond_true]
    congr 1; omega
  · simp only [h, decide_false, cond_false, hi, decide_true, Bool.true_and]
    congr 1; omega

theorem rol_xor (a b : W64) (n : Nat) :
    (a ^^^ b).rotateLeft n = a.rotateLeft n ^^^ b.rotateLeft n := by
  apply BitVec.eq_of_getLsbD_eq
  intro i hi
  simp only [BitVec.getLsbD_xor, rol_bit _ _ _ hi]

theorem rol_rol (a : W64) (m n : Nat) : (a.rotateLeft m).rotateLeft n = a.rotateLeft (m + n) := by
  apply BitVec.eq_of_getLsbD_eq
  intro i hi
  rw [rol_bit _ _ _ hi, rol_bit _ _ _ (Nat.mod_lt _ (by decide)), rol_bit _ _ _ hi]
  congr 1; omega

theorem rol_zero (a : W64) : a.rotateLeft 0 = a := by
  apply BitVec.eq_of_getLsbD_eq
  intro i hi
  rw [rol_bit _ _ _ hi]; congr 1; omega

/-! ### the same on `UInt64` -/

theorem rol64_xor (a b : UInt64) (n : Nat) : rol64 (a ^^^ b) n = rol64 a n ^^^ rol64 b n := by
  apply UInt64.eq_of_toBitVec_eq
  simp only [rol64, UInt64.toBitVec_xor, rol_xor]

theorem rol64_rol64 (a : UInt64) (m n : Nat) : rol64 (rol64 a m) n = rol64 a (m + n) := by
  apply UInt64.eq_of_toBitVec_eq
  simp only [rol64, rol_rol]

theorem rol64_zero (a : UInt64) : rol64 a 0 = a := by
  apply UInt64.eq_of_toBitVec_eq
  simp only [rol64, rol_zero]

theorem rol64_zero_word (n : Nat) : rol64 0 n = 0 := by
  apply UInt64.eq_of_toBitVec_eq
  apply BitVec.eq_of_getLsbD_eq
  intro i hi
  simp [rol64, rol_bit _ _ _ hi]

/-- The C idiom `(v << r) | (v >> (64 - r))` on `uint64_t` is a left rotation for `0 < r < 64`. -/
theorem shlor_eq_rol64 (v : UInt64) (r : Nat) (h0 : 0 < r) (h64 : r < 64) :
    (v <<< r.toUInt64) ||| (v >>> (64 - r).toUInt64) = rol64 v r := by
  apply UInt64.eq_of_toBitVec_eq
  have e1 : r.toUInt64.toBitVec % 64 = BitVec.ofNat 64 r := by
    apply BitVec.eq_of_toNat_eq
    simp [Nat.toUInt64, UInt64.ofNat, BitVec.toNat_umod]
    omega
  have e2 : (64 - r).toUInt64.toBitVec % 64 = BitVec.ofNat 64 (64 - r) := by
    apply BitVec.eq_of_toNat_eq
    simp [Nat.toUInt64, UInt64.ofNat, BitVec.toNat_umod]
    omega
  simp only [rol64, UInt64.toBitVec_or, UInt64.toBitVec_shiftLeft, UInt64.toBitVec_shiftRight, e1, e2]
  rw [BitVec.rotateLeft_def]
  have m1 : r % 64 = r := Nat.mod_eq_of_lt h64
  have t1 : (BitVec.ofNat 64 r).toNat = r := by simp; omega
  have t2 : (BitVec.ofNat 64 (64 - r)).toNat = 64 - r := by simp; omega
  simp only [BitVec.shiftLeft_eq', BitVec.ushiftRight_eq', t1, t2, m1]

/-! ### window hash -/

theorem windowHash_append_one (T : UInt8 → UInt64) (l : Bytes) (x : UInt8) :
    windowHash T (l ++ [x]) = rol64 (windowHash T l) 1 ^^^ T x := by
  induction l with
  | nil => simp [windowHash, rol64_zero, rol64_zero_word]
  | cons b bs ih =>
    simp only [List.cons_append, windowHash, ih, rol64_xor, rol64_rol64, List.length_append,
      List.length_singleton]
    rw [UInt64.xor_assoc]

/-- Sliding the window by one byte: drop `old` at the front, append `new` at the back.  This is
the library's update with `table2[old] = rol64 (T old) w`, `w = |mid| + 1` the window width. -/
theorem slide (T : UInt8 → UInt64) (old : UInt8) (mid : Bytes) (new : UInt8) :
    windowHash T (mid ++ [new]) =
      rol64 (windowHash T (old :: mid)) 1 ^^^ T new ^^^ rol64 (T old) (mid.length + 1) := by
  rw [windowHash_append_one]
  simp only [windowHash, rol64_xor, rol64_rol64]
  apply UInt64.eq_of_toBitVec_eq
  apply BitVec.eq_of_getLsbD_eq
  intro i _
  simp only [UInt64.toBitVec_xor, BitVec.getLsbD_xor]
  cases (rol64 (T old) (mid.length + 1)).toBitVec.getLsbD i <;>
    cases (rol64 (windowHash T mid) 1).toBitVec.getLsbD i <;>
    cases (T new).toBitVec.getLsbD i <;> rfl

end IsalVerif.Lemmas.Rotation
