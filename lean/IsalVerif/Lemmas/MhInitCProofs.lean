import IsalVerif.Impl.MhInitC
import IsalVerif.Impl.MhStream
/-!
  IsalVerif/Lemmas/MhInitCProofs.lean — the init functions produce the initial contexts of the hand-written streaming
  model (`Mh.init`, `Mh.stitchedInit`: all bytes zero - digest, total length, partial buffer - except the interim
  digests, which hold the inner hash's initial value in each of the 16 segments, and, in the stitched variant, the murmur
  state, both words of which are the seed; C05, C10).
-/
namespace IsalVerif.MhInitC
open IsalVerif

/-- the 16 interim digests described by an abstract init result -/
def interimOf (s : St) (W : Nat) : List (Array UInt32) :=
  List.replicate 16 (((List.range W).map fun k => UInt32.ofNat (s.row k)).toArray)

def murOf (s : St) (seed : UInt64) : UInt64 × UInt64 :=
  (if 0 ∈ s.mur then seed else 0, if 1 ∈ s.mur then seed else 0)

theorem canon_sha1 : ∃ s, (run (canon sha1H false)).res = some (s, 0) ∧ s.zeroed = true ∧ s.mur = [] ∧
    interimOf s 5 = (Mh.init MultiHash.sha1).interim := ⟨_, rfl, rfl, rfl, by decide⟩

theorem canon_sha256 : ∃ s, (run (canon sha256H false)).res = some (s, 0) ∧ s.zeroed = true ∧ s.mur = [] ∧
    interimOf s 8 = (Mh.init MultiHash.sha256).interim := ⟨_, rfl, rfl, rfl, by decide⟩

/-- **stitched init**: everything zero, the 16 interim digests are the SHA-1 initial value, and both murmur state words
    are the seed - for every seed -/
theorem canon_stitched (seed : UInt64) : ∃ s, (run (canon sha1H true)).res = some (s, 0) ∧ s.zeroed = true ∧
    (Mh.stitchedInit seed).interim = (interimOf s 5, murOf s seed) := by
  refine ⟨_, rfl, rfl, ?_⟩
  have hi : List.replicate 16 Sha1.init =
      interimOf { zeroed := true, rows := [(4, sha1H.getD 4 0), (3, sha1H.getD 3 0), (2, sha1H.getD 2 0), (1, sha1H.getD 1 0),
        (0, sha1H.getD 0 0)], mur := [1, 0] } 5 := by decide
  simp only [Mh.stitchedInit, murOf]
  rw [hi]
  simp

end IsalVerif.MhInitC
