import IsalVerif.Lemmas.Resubmit
/-! Refinement of the context layer (`ctxSubmit`, `ctxFlush`) to the abstract specification
    "each context is a byte stream since FIRST, closed by LAST". -/
namespace IsalVerif.HashMB
variable {D : Type}

/-- updating fields of a context that the lane bookkeeping does not look at -/
theorem setCtx_ok' (m : M D) (c : Cid) (x : Ctx D) (h : MgrOk m) (hl : x.lane = (m.ctxs c).lane)
    (hp : x.processing = (m.ctxs c).processing) : MgrOk (setCtx m c x) := by
  refine ⟨h.free_ne, h.free_none, h.free_nodup, h.none_free, ?_, ?_, h.nodup⟩
  · intro j hj
    by_cases hjc : j = c
    · subst hjc; simp only [setCtx, if_true]; rw [hl, hp]; exact h.coh j hj
    · simp only [setCtx, hjc, if_false]; exact h.coh j hj
  · intro j hj
    by_cases hjc : j = c
    · subst hjc; simp only [setCtx, if_true] at hj; rw [hl] at hj; exact h.lane_slot j hj
    · simp only [setCtx, hjc, if_false] at hj; exact h.lane_slot j hj

/-- invariant of the manager between API calls -/
structure Inv (A : Alg D) (m : M D) : Prop where
  ok : MgrOk m
  shape : ∀ j, Shape A.B (m.ctxs j)
  /-- between calls a context is PROCESSING exactly when it sits in a lane -/
  inflight : ∀ j, (m.ctxs j).processing = true → (m.ctxs j).lane ≠ none

theorem Inv.idle_lane {A : Alg D} {m : M D} (h : Inv A m) (j : Cid) (hp : (m.ctxs j).processing = false) :
    (m.ctxs j).lane = none := by
  cases hl : (m.ctxs j).lane with
  | none => rfl
  | some p =>
    have := (h.ok.coh j (h.ok.lane_slot j (by simp [hl]))).2
    rw [hp] at this; cases this

/-- abstract state of one context: the bytes submitted since FIRST and whether LAST was given;
    `none` = never started (`isal_hash_ctx_init`) -/
abbrev SpecCtx := Option (Bytes × Bool)

/-- what a context with stream `b` settles to -/
def target (A : Alg D) (b : Bytes) (closed : Bool) : S UInt8 D :=
  let s := absorb A.B A.f ⟨A.init, []⟩ b
  if closed then ⟨A.fin ((pad A s.part (b.length % 2^64)).foldl A.f s.dig), []⟩ else s

def Rel (A : Alg D) (x : Ctx D) : SpecCtx → Prop
  | none => x.complete = true ∧ x.processing = false
  | some (b, closed) =>
      x.total = b.length % 2^64 ∧ settle A x = target A b closed ∧ (x.last || x.complete) = closed

/-- `Rel` only looks at `total`, `settle`, `last || complete` (and `complete`, `processing` for a
    context that was never started) -/
theorem rel_pres (A : Alg D) (x x' : Ctx D) (sp : SpecCtx) (h : Rel A x sp)
    (ht : x'.total = x.total) (hs : settle A x' = settle A x)
    (hlc : (x'.last || x'.complete) = (x.last || x.complete))
    (hp : x'.processing = true → x.processing = true) (hsh : Shape A.B x') : Rel A x' sp := by
  cases sp with
  | none =>
    obtain ⟨hc, hpr⟩ := h
    have hp' : x'.processing = false := by
      cases hx : x'.processing with
      | false => rfl
      | true => have := hp hx; rw [hpr] at this; cases this
    have hl' : x'.last = false := (hsh.2.2.2 hp').1
    refine ⟨?_, hp'⟩
    rw [hl', hc] at hlc; simpa using hlc
  | some p =>
    obtain ⟨b, closed⟩ := p
    obtain ⟨h1, h2, h3⟩ := h
    exact ⟨ht.trans h1, hs.trans h2, hlc.trans h3⟩

def specSubmit (sp : SpecCtx) (data : Bytes) (flags : Nat) : SpecCtx :=
  let last := decide (flags / 2 % 2 = 1)
  if flags % 2 = 1 then some (data, last)
  else match sp with
    | some (b, _) => some (b ++ data, last)
    | none => none

/-- a rejected submit: only `error` changes -/
theorem ctxSubmit_rejected (A : Alg D) (m : M D) (c : Cid) (data : Bytes) (flags : Nat)
    (hrej : rejects (m.ctxs c) flags = true) :
    ∃ e : Int, e ≠ 0 ∧ ctxSubmit A m c data flags = some (setCtx m c { m.ctxs c with error := e }, some c) := by
  unfold ctxSubmit
  simp only [rejects, Bool.or_eq_true, decide_eq_true_eq, Bool.and_eq_true] at hrej
  by_cases h1 : flags / 4 ≠ 0
  · exact ⟨errInvalidFlags, by decide, by simp [h1]⟩
  · by_cases h2 : (m.ctxs c).processing = true
    · exact ⟨errAlreadyProcessing, by decide, by simp [h1, h2]⟩
    · have h3 : (m.ctxs c).complete = true ∧ flags % 2 = 0 := by
        rcases hrej with (h | h) | h
        · exact absurd h h1
        · exact absurd h h2
        · exact h
      exact ⟨errAlreadyCompleted, by decide, by simp [h1, h2, h3]⟩

theorem setErr_inv (A : Alg D) (m : M D) (c : Cid) (e : Int) (h : Inv A m) :
    Inv A (setCtx m c { m.ctxs c with error := e }) := by
  refine ⟨setCtx_ok' m c _ h.ok rfl rfl, fun j => ?_, fun j hj => ?_⟩
  · by_cases hjc : j = c
    · subst hjc; simpa [setCtx, Shape] using h.shape j
    · simpa [setCtx, hjc] using h.shape j
  · by_cases hjc : j = c
    · subst hjc; simp only [setCtx, if_true] at hj ⊢; exact h.inflight j hj
    · simp only [setCtx, hjc, if_false] at hj ⊢; exact h.inflight j hj

theorem setErr_rel (A : Alg D) (m : M D) (c : Cid) (e : Int) (sp : Cid → SpecCtx)
    (h : ∀ j, Rel A (m.ctxs j) (sp j)) (j : Cid) :
    Rel A ((setCtx m c { m.ctxs c with error := e }).ctxs j) (sp j) := by
  by_cases hjc : j = c
  · subst hjc
    have := h j
    cases hs : sp j with
    | none => rw [hs] at this; simpa [setCtx, Rel] using this
    | some p => rw [hs] at this; obtain ⟨b, cl⟩ := p; simpa [setCtx, Rel, settle] using this
  · simpa [setCtx, hjc] using h j

/-- two manager states that look alike to the resubmit loop's postcondition -/
structure Similar (A : Alg D) (m0 m1 : M D) : Prop where
  settle_eq : ∀ j, settle A (m1.ctxs j) = settle A (m0.ctxs j)
  err : ∀ j, (m1.ctxs j).error = (m0.ctxs j).error
  total : ∀ j, (m1.ctxs j).total = (m0.ctxs j).total
  proc : ∀ j, (m1.ctxs j).processing = (m0.ctxs j).processing
  lc : ∀ j, ((m1.ctxs j).last || (m1.ctxs j).complete) = ((m0.ctxs j).last || (m0.ctxs j).complete)

theorem ResubmitPost.trans_similar {A : Alg D} {m0 m1 m' : M D} {r1 r : Option Cid} (c : Cid)
    (hp : ResubmitPost A m1 m' r1 r) (hs : Similar A m0 m1) (hlen : m1.slots.length = m0.slots.length)
    (hin : (∀ j, (m0.ctxs j).processing = true → (m0.ctxs j).lane ≠ none ∨ some c = some j) →
           (∀ j, (m1.ctxs j).processing = true → (m1.ctxs j).lane ≠ none ∨ r1 = some j)) :
    ResubmitPost A m0 m' (some c) r :=
  ⟨fun j => (hp.settle_eq j).trans (hs.settle_eq j), hp.shape, hp.ok, hp.ret,
   fun j => (hp.err j).trans (hs.err j), fun j => (hp.total j).trans (hs.total j),
   fun h => hp.inflight (hin h),
   fun j hj => by rw [← hs.proc j]; exact hp.proc_mono j hj,
   fun j => (hp.lc j).trans (hs.lc j),
   fun c' hc' => by rw [← hs.proc c']; exact hp.ret_proc c' hc',
   fun j hj => hp.proc_keep j (by rw [hs.proc j]; exact hj),
   hp.slots_len.trans hlen⟩

theorem similar_setCtx (A : Alg D) (m : M D) (c : Cid) (x y : Ctx D)
    (h1 : settle A y = settle A x) (h2 : y.error = x.error) (h3 : y.total = x.total)
    (h4 : y.processing = x.processing) (h5 : (y.last || y.complete) = (x.last || x.complete)) :
    Similar A (setCtx m c x) (setCtx m c y) := by
  refine ⟨fun j => ?_, fun j => ?_, fun j => ?_, fun j => ?_, fun j => ?_⟩ <;>
  · by_cases hjc : j = c
    · subst hjc; simp [setCtx, *]
    · simp [setCtx, hjc]

/-- the second half of an accepted submit, relative to the state in which the context already
    carries the new segment (`x2`) -/
theorem submitTail_post (A : Alg D) (hB : 0 < A.B) (m : M D) (c : Cid) (x2 : Ctx D)
    (res : M D × Option Cid) (hres : submitTail A m c x2 = some res)
    (hinv : Inv A m) (hidle : (m.ctxs c).lane = none)
    (hl : x2.lane = none) (hp : x2.processing = true) (hc : x2.complete = false)
    (hpart : x2.part.length < A.B) :
    ResubmitPost A (setCtx m c x2) res.1 (some c) res.2 := by
  have hok2 : ∀ y : Ctx D, y.lane = none → MgrOk (setCtx m c y) :=
    fun y hy => setCtx_ok m c y hinv.ok hidle hy
  have hshape : ∀ y : Ctx D, Shape A.B y → ∀ j, Shape A.B ((setCtx m c y).ctxs j) := by
    intro y hy j; by_cases hj : j = c
    · subst hj; simpa [setCtx] using hy
    · simpa [setCtx, hj] using hinv.shape j
  have hstart : ∀ y : Ctx D, y.lane = none → y.processing = true →
      ∀ c', some c = some c' → ((setCtx m c y).ctxs c').lane = none ∧ ((setCtx m c y).ctxs c').processing = true := by
    intro y h1 h2 c' hc'; cases hc'; simp [setCtx, h1, h2]
  unfold submitTail at hres
  simp only [] at hres
  by_cases hpath : x2.part ≠ [] ∨ x2.incoming.length < A.B
  · rw [if_pos hpath] at hres
    -- the context after the copy into the partial block
    generalize hx3 : (if min (A.B - x2.part.length) x2.incoming.length ≠ 0 then
        { x2 with part := x2.part ++ x2.incoming.take (min (A.B - x2.part.length) x2.incoming.length),
                  incoming := x2.incoming.drop (min (A.B - x2.part.length) x2.incoming.length) } else x2) = x3 at hres
    have h3l : x3.lane = none := by rw [← hx3]; split <;> simp [hl]
    have h3p : x3.processing = true := by rw [← hx3]; split <;> simp [hp]
    have h3c : x3.complete = false := by rw [← hx3]; split <;> simp [hc]
    have h3e : x3.error = x2.error := by rw [← hx3]; split <;> rfl
    have h3t : x3.total = x2.total := by rw [← hx3]; split <;> rfl
    have h3last : x3.last = x2.last := by rw [← hx3]; split <;> rfl
    have h3dig : x3.dig = x2.dig := by rw [← hx3]; split <;> rfl
    have h3abs : absorb A.B A.f ⟨x3.dig, x3.part⟩ x3.incoming = absorb A.B A.f ⟨x2.dig, x2.part⟩ x2.incoming := by
      rw [← hx3]; split
      · exact absorb_move A.B A.f _ _ _ _
      · rfl
    have h3len : x3.part.length = x2.part.length + min (A.B - x2.part.length) x2.incoming.length := by
      rw [← hx3]; split
      · simp [List.length_append, List.length_take]
      · rename_i h0
        have : min (A.B - x2.part.length) x2.incoming.length = 0 := Decidable.not_not.mp h0
        rw [this]; rfl
    have h3inc : x3.part.length < A.B → x3.incoming = [] := by
      intro hlt
      rw [← hx3]; rw [h3len] at hlt
      have hmin : min (A.B - x2.part.length) x2.incoming.length = x2.incoming.length := by omega
      split
      · simp only []; rw [hmin]; exact List.drop_length
      · rename_i h0; simp only [ne_eq, Decidable.not_not] at h0
        exact List.length_eq_zero_iff.mp (by omega)
    have h3settle : settle A x3 = settle A x2 := by
      simp only [settle, h3l, hl, h3c, hc, h3last, h3t, Bool.false_eq_true, if_false]
      rw [h3abs]
    by_cases hfull : A.B ≤ x3.part.length
    · rw [if_pos hfull] at hres
      have hblk : x3.part.length = A.B := by rw [h3len] at hfull ⊢; omega
      -- state handed to resubmit: the completed block is in a lane
      have hok1 := hok2 { x3 with part := [] } h3l
      have hc1 : ((setCtx m c { x3 with part := [] }).ctxs c) = { x3 with part := [] } := by simp [setCtx]
      have hs1 := hshape { x3 with part := [] } ⟨by simpa using hB, fun h => absurd rfl h, fun h => by simp [h3c] at h,
        fun h => by simp [h3p] at h⟩
      have hsu := mgrSubmit_sameUser A.f (setCtx m c { x3 with part := [] }) c [x3.part]
      have hpost := resubmit_post A hB _ _ _ res hres
        (mgrSubmit_ok A.f _ c _ hok1 (by rw [hc1]; exact h3l) (by rw [hc1]; exact h3p))
        (fun j => shape_of_sameUser (hsu j) (hs1 j))
        (fun r' h => ⟨mgrSubmit_ret A.f _ c _ r' h,
          mgrSubmit_ret_proc A.f _ c _ hok1 (by rw [hc1]; exact h3l) (by rw [hc1]; exact h3p) r' h⟩)
      apply hpost.trans_similar c (hlen := by rw [mgrSubmit_slots_len]; rfl)
      · refine ⟨fun j => ?_, fun j => ?_, fun j => ?_, fun j => ?_, fun j => ?_⟩
        · rw [mgrSubmit_settle A _ c _ hok1.free_ne]
          by_cases hj : j = c
          · subst hj
            simp only [if_true, hc1, setCtx]
            rw [← h3settle]
            simp only [settle, h3l, h3c, Bool.false_eq_true, if_false, List.foldl]
            rw [absorb_full_block A.B hB A.f x3.dig x3.part x3.incoming hblk]
          · simp [hj, setCtx]
        · rw [(hsu j).2.2.2.2.2.2]; by_cases hj : j = c
          · subst hj; simp [setCtx, h3e]
          · simp [setCtx, hj]
        · rw [(hsu j).2.2.2.2.1]; by_cases hj : j = c
          · subst hj; simp [setCtx, h3t]
          · simp [setCtx, hj]
        · rw [(hsu j).2.2.2.2.2.1]; by_cases hj : j = c
          · subst hj; simp [setCtx, h3p, hp]
          · simp [setCtx, hj]
        · rw [(hsu j).2.2.2.1, (hsu j).2.2.1]; by_cases hj : j = c
          · subst hj; simp [setCtx, h3last, h3c, hc]
          · simp [setCtx, hj]
      · intro hin j hj
        apply mgrSubmit_lane A.f _ c _ j hok1.free_ne
        by_cases hjc : j = c
        · right; exact hjc
        · left
          rw [(hsu j).2.2.2.2.2.1] at hj
          simp only [setCtx, hjc, if_false] at hj ⊢
          have := hin j (by simpa [setCtx, hjc] using hj)
          simp only [setCtx, hjc, if_false] at this
          exact this.resolve_right (fun e => hjc (Option.some.inj e).symm)
    · rw [if_neg hfull] at hres
      have hlt : x3.part.length < A.B := by omega
      have hpost := resubmit_post A hB _ _ _ res hres (hok2 x3 h3l)
        (hshape x3 ⟨hlt, fun _ => h3inc hlt, fun h => by simp [h3c] at h, fun h => by simp [h3p] at h⟩)
        (hstart x3 h3l h3p)
      apply hpost.trans_similar c (similar_setCtx A m c x2 x3 h3settle h3e h3t (by rw [h3p, hp]) (by rw [h3last, h3c, hc])) rfl
      intro hin j hj
      by_cases hjc : j = c
      · right; rw [hjc]
      · have := hin j (by simpa [setCtx, hjc] using hj)
        simpa [setCtx, hjc] using this
  · rw [if_neg hpath] at hres
    have hp0 : x2.part = [] := by
      cases hx : x2.part with
      | nil => rfl
      | cons a l => exact absurd (Or.inl (by simp [hx])) hpath
    have hpost := resubmit_post A hB _ _ _ res hres (hok2 x2 hl)
      (hshape x2 ⟨hpart, fun h => absurd hp0 h, fun h => by simp [hc] at h, fun h => by simp [hp] at h⟩)
      (hstart x2 hl hp)
    exact hpost

theorem settle_idle (A : Alg D) (x : Ctx D) (hs : Shape A.B x) (hl : x.lane = none)
    (hp : x.processing = false) (hc : x.complete = false) : settle A x = ⟨x.dig, x.part⟩ := by
  have h4 := hs.2.2.2 hp
  simp only [settle, hl, hc, h4.1, h4.2, Bool.false_eq_true, if_false]
  exact absorb_nil A.B A.f _ hs.1

structure SubmitPost (A : Alg D) (m : M D) (c : Cid) (sp : Cid → SpecCtx) (data : Bytes) (flags : Nat)
    (res : M D × Option Cid) : Prop where
  inv : Inv A res.1
  rel : ∀ j, Rel A (res.1.ctxs j) (if j = c then specSubmit (sp c) data flags else sp j)
  ret : ∀ c', res.2 = some c' → Returned (res.1.ctxs c')
  err : ∀ j, (res.1.ctxs j).error = if j = c then 0 else (m.ctxs j).error
  proc : ∀ j, (res.1.ctxs j).processing = true → j = c ∨ (m.ctxs j).processing = true
  /-- no job is lost: the submitted context and every context in flight stay PROCESSING unless
      handed back by this call -/
  keep : ∀ j, (j = c ∨ (m.ctxs j).processing = true) → (res.1.ctxs j).processing = true ∨ res.2 = some j
  /-- only the submitted context or one that was in flight is handed back -/
  ret_was : ∀ c', res.2 = some c' → c' = c ∨ (m.ctxs c').processing = true
  slots_len : res.1.slots.length = m.slots.length

/-- an accepted submit appends the segment to the context's stream (or starts a new stream) and
    changes no other context's stream -/
theorem ctxSubmit_accepted (A : Alg D) (hB : 0 < A.B) (m : M D) (c : Cid) (data : Bytes) (flags : Nat)
    (res : M D × Option Cid) (hacc : rejects (m.ctxs c) flags = false)
    (hres : ctxSubmit A m c data flags = some res)
    (hinv : Inv A m) (sp : Cid → SpecCtx) (hrel : ∀ j, Rel A (m.ctxs j) (sp j)) :
    SubmitPost A m c sp data flags res := by
  simp only [rejects, Bool.or_eq_false_iff, decide_eq_false_iff_not, Bool.and_eq_false_iff,
    Decidable.not_not] at hacc
  obtain ⟨⟨hf4, hproc⟩, hcompl⟩ := hacc
  have hnc : ¬ ((m.ctxs c).complete = true ∧ flags % 2 = 0) := by
    rintro ⟨h1, h2⟩; rcases hcompl with h | h
    · rw [h1] at h; cases h
    · exact h h2
  unfold ctxSubmit at hres
  simp only [hf4, ne_eq, not_true_eq_false, if_false, hproc, Bool.false_eq_true, hnc] at hres
  have hidle := hinv.idle_lane c hproc
  have hshc := hinv.shape c
  have hlastc : (m.ctxs c).last = false := (hshc.2.2.2 hproc).1
  -- properties of the context after the bookkeeping stores
  have h2l : (accepted A (m.ctxs c) data flags).lane = none := by
    unfold accepted; simp only []; split <;> simp [hidle]
  have h2part : (accepted A (m.ctxs c) data flags).part.length < A.B := by
    unfold accepted; simp only []; split
    · simpa using hB
    · exact hshc.1
  have hpost := submitTail_post A hB m c _ res hres hinv hidle h2l rfl rfl h2part
  refine ⟨⟨hpost.ok, hpost.shape, ?_⟩, fun j => ?_, hpost.ret, fun j => ?_, fun j hj => ?_, fun j hj => ?_,
    fun c' hc' => ?_, hpost.slots_len⟩
  · apply hpost.inflight
    intro j hj
    by_cases hjc : j = c
    · right; rw [hjc]
    · left; simp only [setCtx, hjc, if_false] at hj ⊢; exact hinv.inflight j hj
  · by_cases hjc : j = c
    · subst hjc
      simp only [if_true]
      have htot := hpost.total j
      have hset := hpost.settle_eq j
      have hlc := hpost.lc j
      simp only [setCtx, if_true] at htot hset hlc
      by_cases hfirst : flags % 2 = 1
      · -- FIRST / ENTIRE: a new stream
        have hacc2 : accepted A (m.ctxs j) data flags =
            { m.ctxs j with dig := A.init, part := [], error := 0, incoming := data, processing := true,
                            last := decide (flags / 2 % 2 = 1), complete := false,
                            total := (0 + data.length) % 2^64 } := by
          unfold accepted; simp [hfirst]
        simp only [specSubmit, hfirst, if_true, Rel]
        refine ⟨?_, ?_, ?_⟩
        · rw [htot, hacc2]; simp
        · rw [hset, hacc2]
          simp only [settle, hidle, target, Nat.zero_add, Bool.false_eq_true, if_false]
        · rw [hlc, hacc2]; simp
      · -- UPDATE / LAST: the stream continues
        have hf0 : flags % 2 = 0 := by omega
        have hcf : (m.ctxs j).complete = false := by
          cases hx : (m.ctxs j).complete with
          | false => rfl
          | true => exact absurd ⟨hx, hf0⟩ hnc
        have hacc2 : accepted A (m.ctxs j) data flags =
            { m.ctxs j with error := 0, incoming := data, processing := true,
                            last := decide (flags / 2 % 2 = 1), complete := false,
                            total := ((m.ctxs j).total + data.length) % 2^64 } := by
          unfold accepted; simp [hfirst]
        have hr := hrel j
        cases hsp : sp j with
        | none => rw [hsp] at hr; simp only [Rel] at hr; rw [hcf] at hr; exact absurd hr.1 (by simp)
        | some p =>
          obtain ⟨b, closed⟩ := p
          rw [hsp] at hr
          obtain ⟨hrt, hrs, hrc⟩ := hr
          have hclosed : closed = false := by rw [← hrc, hlastc, hcf]; rfl
          subst hclosed
          rw [settle_idle A _ hshc hidle hproc hcf] at hrs
          simp only [target, Bool.false_eq_true, if_false] at hrs
          simp only [specSubmit, hfirst, if_false, Rel]
          have htotal : ((m.ctxs j).total + data.length) % 2^64 = (b ++ data).length % 2^64 := by
            rw [hrt, List.length_append]; omega
          refine ⟨?_, ?_, ?_⟩
          · rw [htot, hacc2]; exact htotal
          · rw [hset, hacc2]
            simp only [settle, hidle, target, Bool.false_eq_true, if_false]
            rw [hrs, absorb_append A.B hB, htotal]
          · rw [hlc, hacc2]; simp
    · simp only [hjc, if_false]
      have := hrel j
      apply rel_pres A (m.ctxs j) _ (sp j) this
      · simpa [setCtx, hjc] using hpost.total j
      · simpa [setCtx, hjc] using hpost.settle_eq j
      · simpa [setCtx, hjc] using hpost.lc j
      · intro h; simpa [setCtx, hjc] using hpost.proc_mono j h
      · exact hpost.shape j
  · by_cases hjc : j = c
    · subst hjc; simp only [if_true]
      have := hpost.err j; simp only [setCtx, if_true] at this
      rw [this]; unfold accepted; simp
    · simp only [hjc, if_false]; simpa [setCtx, hjc] using hpost.err j
  · by_cases hjc : j = c
    · left; exact hjc
    · right; simpa [setCtx, hjc] using hpost.proc_mono j hj
  · apply hpost.proc_keep j
    by_cases hjc : j = c
    · subst hjc; simp [setCtx, accepted]
    · simpa [setCtx, hjc] using hj.resolve_left hjc
  · by_cases hjc : c' = c
    · left; exact hjc
    · right; simpa [setCtx, hjc] using hpost.ret_proc c' hc'

structure FlushPost (A : Alg D) (m : M D) (sp : Cid → SpecCtx) (res : M D × Option Cid) : Prop where
  inv : Inv A res.1
  rel : ∀ j, Rel A (res.1.ctxs j) (sp j)
  ret : ∀ c', res.2 = some c' → Returned (res.1.ctxs c') ∧ (m.ctxs c').processing = true
  err : ∀ j, (res.1.ctxs j).error = (m.ctxs j).error
  proc : ∀ j, (res.1.ctxs j).processing = true → (m.ctxs j).processing = true
  /-- flush hands back nothing only when no context is in flight any more -/
  drained : res.2 = none → ∀ j, (res.1.ctxs j).processing = false
  keep : ∀ j, (m.ctxs j).processing = true → (res.1.ctxs j).processing = true ∨ res.2 = some j
  slots_len : res.1.slots.length = m.slots.length

theorem mgrFlush_none_iff (P : Params) (f : D → Bytes → D) (m : M D) :
    (mgrFlush P f m).2 = none ↔ occupied m = [] := by
  unfold mgrFlush
  simp only []
  constructor
  · intro h
    split at h
    · assumption
    · rename_i hne
      rw [retireMin_eq] at h
      obtain ⟨c, hc⟩ := pickMin_minLen m (occupied m) hne
      rw [hc] at h; cases h
  · intro h; rw [if_pos h]

theorem ctxFlush_post (P : Params) (A : Alg D) (hB : 0 < A.B) (sp : Cid → SpecCtx) :
    ∀ (fuel : Nat) (m : M D) (res : M D × Option Cid), ctxFlush P A fuel m = some res →
      Inv A m → (∀ j, Rel A (m.ctxs j) (sp j)) → FlushPost A m sp res := by
  intro fuel
  induction fuel with
  | zero => intro m res hres; simp [ctxFlush] at hres
  | succ fuel ih =>
    intro m res hres hinv hrel
    simp only [ctxFlush] at hres
    have hsu := mgrFlush_sameUser P A.f m
    have hok1 := mgrFlush_ok P A.f m hinv.ok
    have hs1 : ∀ j, Shape A.B ((mgrFlush P A.f m).1.ctxs j) :=
      fun j => shape_of_sameUser (hsu j) (hinv.shape j)
    cases hfl : (mgrFlush P A.f m).2 with
    | none =>
      rw [hfl] at hres; simp only [Option.some.injEq] at hres; subst hres
      have hocc := (mgrFlush_none_iff P A.f m).mp hfl
      have hm1 : (mgrFlush P A.f m).1 = m := by unfold mgrFlush; simp [hocc]
      rw [hm1]
      refine ⟨hinv, hrel, fun c' h => (by cases h), fun _ => rfl, fun _ h => h, fun _ j => ?_, fun _ h => Or.inl h, rfl⟩
      cases hp : (m.ctxs j).processing with
      | false => rfl
      | true =>
        have := hinv.ok.lane_slot j (hinv.inflight j hp)
        exact absurd this (occupied_eq_nil.mp hocc j)
    | some c =>
      rw [hfl] at hres
      simp only [] at hres
      cases hrs : resubmit A (fuelFor m) (mgrFlush P A.f m).1 (some c) with
      | none => rw [hrs] at hres; cases hres
      | some r2 =>
        rw [hrs] at hres
        simp only [] at hres
        have hcl := mgrFlush_ret P A.f m c hfl
        have hcp := mgrFlush_ret_proc P A.f m hinv.ok c hfl
        have hpost := resubmit_post A hB _ _ _ r2 hrs hok1 hs1
          (fun c' h => by cases h; exact ⟨hcl, hcp⟩)
        have hinv2 : Inv A r2.1 := by
          refine ⟨hpost.ok, hpost.shape, hpost.inflight ?_⟩
          intro j hj
          rw [(hsu j).2.2.2.2.2.1] at hj
          rcases mgrFlush_lane P A.f m j (hinv.inflight j hj) with h | h
          · left; exact h
          · right; rw [← hfl, h]
        have hrel2 : ∀ j, Rel A (r2.1.ctxs j) (sp j) := by
          intro j
          apply rel_pres A (m.ctxs j) _ (sp j) (hrel j)
          · rw [hpost.total j, (hsu j).2.2.2.2.1]
          · rw [hpost.settle_eq j, mgrFlush_settle]
          · rw [hpost.lc j, (hsu j).2.2.1, (hsu j).2.2.2.1]
          · intro h; have := hpost.proc_mono j h; rwa [(hsu j).2.2.2.2.2.1] at this
          · exact hpost.shape j
        have herr2 : ∀ j, (r2.1.ctxs j).error = (m.ctxs j).error :=
          fun j => by rw [hpost.err j, (hsu j).2.2.2.2.2.2]
        have hproc2 : ∀ j, (r2.1.ctxs j).processing = true → (m.ctxs j).processing = true :=
          fun j h => by have := hpost.proc_mono j h; rwa [(hsu j).2.2.2.2.2.1] at this
        cases hr2 : r2.2 with
        | some c' =>
          rw [hr2] at hres; simp only [Option.some.injEq] at hres; subst hres
          have hkeep : ∀ j, (m.ctxs j).processing = true → (r2.1.ctxs j).processing = true ∨ some c' = some j := by
            intro j hj
            have := hpost.proc_keep j (by rw [(hsu j).2.2.2.2.2.1]; exact hj)
            rw [hr2] at this; exact this
          refine ⟨hinv2, hrel2, fun c'' h => ?_, herr2, hproc2, fun h => (by cases h), hkeep,
            hpost.slots_len.trans (mgrFlush_slots_len P A.f m)⟩
          simp only [Option.some.injEq] at h; subst h
          have hret := hpost.ret c' hr2
          refine ⟨hret, ?_⟩
          have := hpost.ret_proc c' hr2
          rwa [(hsu c').2.2.2.2.2.1] at this
        | none =>
          rw [hr2] at hres; simp only [] at hres
          have i := ih r2.1 res hres hinv2 hrel2
          refine ⟨i.inv, i.rel, fun c' h => ?_, fun j => (i.err j).trans (herr2 j),
            fun j h => hproc2 j (i.proc j h), i.drained, fun j hj => ?_,
            i.slots_len.trans (hpost.slots_len.trans (mgrFlush_slots_len P A.f m))⟩
          · obtain ⟨h1, h2⟩ := i.ret c' h
            exact ⟨h1, hproc2 c' h2⟩
          · have := hpost.proc_keep j (by rw [(hsu j).2.2.2.2.2.1]; exact hj)
            rw [hr2] at this
            exact i.keep j (this.resolve_right (by simp))

end IsalVerif.HashMB
